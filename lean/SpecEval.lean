import DilithiumVerif.Driver.Codec
import DilithiumVerif.Lemmas.XofSpec
import DilithiumVerif.Lemmas.SampleInBall
import DilithiumVerif.Lemmas.EncodeSpec
import DilithiumVerif.Lemmas.KeygenSpec
import DilithiumVerif.Spec.Rounding
/-
  SpecEval — evaluates the SPECIFICATION-level definitions the refinement theorems are stated with (not the model of the
  code) on a line protocol, so that every run can compare them with independent oracles (hashlib, the Python transcription
  of FIPS 204 in tools/dvcheck/pyspec.py).  Run:  lake env lean --run SpecEval.lean < requests
-/
open DV DV.Drv DV.XofSpec DV.BitSpec DV.EncodeSpec DV.SampleInBall DV.UniformStream DV.EtaStream DV.Padding DV.HintCodec

def lvlOfS (s : String) : Option Lvl :=
  if s == "l2" then some .l2 else if s == "l3" then some .l3 else if s == "l5" then some .l5 else none

def natsOfInts (l : List Int) : List Nat := l.map Int.toNat

def answer (line : String) : String :=
  match line.trimAscii.toString.splitOn " " with
  | ["shake256", h, n] => (match bytesOfHex h, n.toNat? with
      | some b, some k => "ok " ++ hexOfBytes (SHAKE256 b k) | _, _ => "bad-request")
  | ["shake128", h, n] => (match bytesOfHex h, n.toNat? with
      | some b, some k => "ok " ++ hexOfBytes (SHAKE128 b k) | _, _ => "bad-request")
  | ["pad", r, rem] => (match r.toNat?, rem.toNat? with
      | some a, some b => "ok " ++ hexOfBytes (padBytes a b) | _, _ => "bad-request")
  | ["sbp", bits, v] => (match bits.toNat?, intsOfStr v with
      | some b, some l => "ok " ++ hexOfBytes (simpleBitPack (natsOfInts l) b) | _, _ => "bad-request")
  | ["bp", b, bits, v] => (match b.toInt?, bits.toNat?, intsOfStr v with
      | some bb, some n, some l => "ok " ++ hexOfBytes (bitPack l bb n) | _, _, _ => "bad-request")
  | ["hbp", om, v] => (match om.toNat?, vecOfStr v with
      | some o, some h => "ok " ++ hexOfBytes (hintBitPack o h) | _, _ => "bad-request")
  | ["sib", tau, h] => (match tau.toNat?, bytesOfHex h with
      | some t, some b => (match sampleInBall t b with
          | some c => "ok " ++ strOfInts c
          | none => "ok none")
      | _, _ => "bad-request")
  | ["cands", h] => (match bytesOfHex h with
      | some b => "ok " ++ strOfInts (cands b) | _ => "bad-request")
  | ["etacands", lv, h] => (match lvlOfS lv, bytesOfHex h with
      | some l, some b => "ok " ++ strOfInts (etaCands l b) | _, _ => "bad-request")
  | ["highbits", g, r] => (match g.toInt?, r.toInt? with
      | some a, some b => "ok " ++ toString (Spec.HighBits a b) | _, _ => "bad-request")
  | ["lowbits", g, r] => (match g.toInt?, r.toInt? with
      | some a, some b => "ok " ++ toString (Spec.LowBits a b) | _, _ => "bad-request")
  | ["usehint", g, h, r] => (match g.toInt?, h.toInt?, r.toInt? with
      | some a, some b, some c => "ok " ++ toString (Spec.UseHint a b c) | _, _, _ => "bad-request")
  | ["makehint", g, z, r] => (match g.toInt?, z.toInt?, r.toInt? with
      | some a, some b, some c => "ok " ++ toString (Spec.MakeHint a b c) | _, _, _ => "bad-request")
  | ["p2r", r] => (match r.toInt? with
      | some a => "ok " ++ toString (Spec.Power2Round a).1 ++ " " ++ toString (Spec.Power2Round a).2 | _ => "bad-request")
  | _ => "bad-request"

partial def loop (h : IO.FS.Stream) (out : IO.FS.Stream) : IO Unit := do
  let line ← h.getLine
  if line.isEmpty then return ()
  out.putStrLn (answer line)
  loop h out

def main : IO Unit := do
  let out ← IO.getStdout
  loop (← IO.getStdin) out
  out.flush
