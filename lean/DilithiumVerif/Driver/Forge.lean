import DilithiumVerif.Impl.Api
/-
  Driver.Forge — model-side generators and judges that need the secret key (C03, C06):
  * `iterFull`: one signing iteration with every quantity computed (no early exit);
  * `forge`: hash-consistent near-miss / alternative signatures that only a key holder can build;
  * `analyze`: the C06 predicate evaluated on a signature with the known secret key.
  Not part of the model of the crate; uses the model's functions as building blocks.
-/
namespace DV.Drv
open DV

structure IterFull where
  ct : List Nat
  z : PolyVec
  hints : PolyVec
  nh : Int
  zmax : Int
  rZ : Bool
  rR0 : Bool
  rCt0 : Bool
  rH : Bool

def vecMaxAbs (v : PolyVec) : Int :=
  v.foldl (fun m p => p.foldl (fun m x => max m (if x < 0 then -x else x)) m) 0

def iterFull (p : Params) (mat : List PolyVec) (mu rhoprime : List Nat) (s1h s2h t0h : PolyVec) (nonce : Int) : Chk IterFull := do
  let y ← l_uniform_gamma1 p rhoprime nonce
  let z ← vec_ntt y
  let w1 ← matrix_pointwise_montgomery mat z
  let w1 ← vec_reduce w1
  let w1 ← vec_invntt_tomont w1
  let w1 ← vec_caddq w1
  let (w1, w0) ← k_decompose p.lvl w1
  let w1p := k_pack_w1 p.lvl w1
  let ct ← compute_ctilde p mu w1p
  let cp ← poly_challenge p FUEL ct
  let cp ← poly_ntt cp
  let z ← vec_pointwise_poly_montgomery cp s1h
  let z ← vec_invntt_tomont z
  let z ← vec_add z y
  let z ← vec_reduce z
  let rz ← vec_chknorm z ((p.gamma1 : Int) - p.beta)
  let h ← vec_pointwise_poly_montgomery cp s2h
  let h ← vec_invntt_tomont h
  let w0 ← vec_sub w0 h
  let w0 ← vec_reduce w0
  let r0 ← vec_chknorm w0 ((p.gamma2 : Int) - p.beta)
  let h ← vec_pointwise_poly_montgomery cp t0h
  let h ← vec_invntt_tomont h
  let h ← vec_reduce h
  let rc ← vec_chknorm h (p.gamma2 : Int)
  let w0 ← vec_add w0 h
  let (hints, n) ← k_make_hint p.lvl w0 w1
  .ok { ct := ct, z := z, hints := hints, nh := n, zmax := vecMaxAbs z,
        rZ := decide (0 < rz), rR0 := decide (0 < r0), rCt0 := decide (0 < rc), rH := decide ((p.omega : Int) < n) }

structure SignCtx where
  mat : List PolyVec
  mu : List Nat
  rhoprime : List Nat
  s1h : PolyVec
  s2h : PolyVec
  t0h : PolyVec

def signCtx (p : Params) (msg sk : List Nat) : Chk SignCtx := do
  let (rho, tr, key, t0, s1, s2) ← unpack_sk p sk
  let mu ← compute_mu tr p.trBytes msg
  let (rhoprime, _) ← derive_rhoprime p key mu false []
  let mat ← matrix_expand p FUEL rho
  let s1h ← vec_ntt s1
  let s2h ← vec_ntt s2
  let t0h ← vec_ntt t0
  .ok { mat := mat, mu := mu, rhoprime := rhoprime, s1h := s1h, s2h := s2h, t0h := t0h }

def packIter (p : Params) (it : IterFull) : Chk (List Nat) :=
  pack_sig p (it.ct ++ List.replicate (p.sigBytes - p.ctilde) 0) none it.z it.hints

def encodable (p : Params) (it : IterFull) : Bool :=
  it.z.all (fun q => q.all (fun x => decide (-(p.gamma1 : Int) < x ∧ x ≤ (p.gamma1 : Int)))) && !it.rH

/-- search the iterations κ = 0..n−1 for the first one satisfying `want`; returns (κ, signature, zmax) -/
def searchIter (p : Params) (c : SignCtx) (want : IterFull → Bool) : Nat → Int → Chk (Option (Int × List Nat × Int))
  | 0, _ => .ok none
  | n + 1, k => do
      let it ← iterFull p c.mat c.mu c.rhoprime c.s1h c.s2h c.t0h k
      if want it && encodable p it then do
        let s ← packIter p it
        .ok (some (k, s, it.zmax))
      else searchIter p c want n (k + 1)

/-- among the accepted iterations κ < n: the one with the largest ‖z‖∞ (closest to the bound from below) -/
def searchNear (p : Params) (c : SignCtx) : Nat → Int → Option (Int × List Nat × Int) → Chk (Option (Int × List Nat × Int))
  | 0, _, best => .ok best
  | n + 1, k, best => do
      let it ← iterFull p c.mat c.mu c.rhoprime c.s1h c.s2h c.t0h k
      if !it.rZ && !it.rR0 && !it.rCt0 && !it.rH then do
        let s ← packIter p it
        let better := match best with
          | none => true
          | some (_, _, m) => decide (m < it.zmax)
        searchNear p c n (k + 1) (if better then some (k, s, it.zmax) else best)
      else searchNear p c n (k + 1) best

/-- among the iterations κ < n that fail ONLY the z test: the one with the smallest ‖z‖∞ (closest to the bound from above) -/
def searchOverMin (p : Params) (c : SignCtx) : Nat → Int → Option (Int × List Nat × Int) → Chk (Option (Int × List Nat × Int))
  | 0, _, best => .ok best
  | n + 1, k, best => do
      let it ← iterFull p c.mat c.mu c.rhoprime c.s1h c.s2h c.t0h k
      if it.rZ && !it.rR0 && !it.rCt0 && encodable p it then do
        let better := match best with
          | none => true
          | some (_, _, m) => decide (it.zmax < m)
        if better then do
          let s ← packIter p it
          searchOverMin p c n (k + 1) (some (k, s, it.zmax))
        else searchOverMin p c n (k + 1) best
      else searchOverMin p c n (k + 1) best

def skipAccepted (p : Params) (c : SignCtx) : Nat → Int → Nat → Chk (Option (Int × List Nat × Int))
  | 0, _, _ => .ok none
  | n + 1, k, toSkip => do
      let it ← iterFull p c.mat c.mu c.rhoprime c.s1h c.s2h c.t0h k
      if !it.rZ && !it.rR0 && !it.rCt0 && !it.rH then
        if toSkip = 0 then do
          let s ← packIter p it
          .ok (some (k, s, it.zmax))
        else skipAccepted p c n (k + 1) (toSkip - 1)
      else skipAccepted p c n (k + 1) toSkip

/-- `forge <set> <kind> <sk> <msg> <maxiter>`:
    z-over        first iteration failing ONLY the ‖z‖∞ test: hash-consistent, must be rejected by any verifier
    later-accept  the second accepted iteration: a valid signature of another conforming signer
    z-near        the accepted iteration with the largest ‖z‖∞ among the first maxiter
    r0-skip / ct0-skip  first iteration failing only the r0 / ct0 test (what a signer skipping that test would emit) -/
def forge (p : Params) (kind : String) (sk msg : List Nat) (maxiter : Nat) : Chk (Option (Int × List Nat × Int)) := do
  let c ← signCtx p msg sk
  match kind with
  | "z-over" => searchIter p c (fun it => it.rZ && !it.rR0 && !it.rCt0) maxiter 0
  | "r0-skip" => searchIter p c (fun it => !it.rZ && it.rR0 && !it.rCt0) maxiter 0
  | "ct0-skip" => searchIter p c (fun it => !it.rZ && !it.rR0 && it.rCt0) maxiter 0
  | "later-accept" => skipAccepted p c maxiter 0 1
  | "z-near" => searchNear p c maxiter 0 none
  | "z-over-min" => searchOverMin p c maxiter 0 none
  | _ => .error .unwrap

/-- rejection statistics over the first n iterations: [z, r0, ct0, hints>ω, accepted, hints=ω (other tests passed), max hints] -/
def iterStats (p : Params) (c : SignCtx) : Nat → Int → List Int → Chk (List Int)
  | 0, _, acc => .ok acc
  | n + 1, k, acc => do
      let it ← iterFull p c.mat c.mu c.rhoprime c.s1h c.s2h c.t0h k
      let b (x : Bool) : Int := if x then 1 else 0
      let others := !it.rZ && !it.rR0 && !it.rCt0
      let upd : List Int := [b it.rZ, b (!it.rZ && it.rR0), b (!it.rZ && !it.rR0 && it.rCt0), b (others && it.rH),
        b (others && !it.rH), b (others && decide (it.nh = p.omega)), 0]
      let acc' := (List.zipWith (· + ·) acc upd)
      let acc' := acc'.take 6 ++ [max (acc.getD 6 0) (if others then it.nh else 0)]
      iterStats p c n (k + 1) acc'

/-! ### C06 predicate -/

def vecNormLt (v : PolyVec) (b : Int) : Bool := decide (vecMaxAbs v < b)

def centered (x : Int) : Int := let r := x % Q; if r > (Q - 1) / 2 then r - Q else r

/-- the conditions of C06 on a signature, with the secret key known:
    canonical decoding, ‖z‖∞ < γ1−β, ≤ ω hints, and with y = z − c·s1:
    ‖LowBits(Ay − c·s2)‖∞ < γ2−β, ‖c·t0‖∞ < γ2, c̃ = H(μ ‖ w1Encode(HighBits(Ay))) -/
def analyze (p : Params) (sk msg sig : List Nat) : Chk (List String) := do
  if sig.length ≠ p.sigBytes then .ok ["length"] else
  let (rho, tr, _key, t0, s1, s2) ← unpack_sk p sk
  let mu ← compute_mu tr p.trBytes msg
  let (ok, ct, z, h) ← unpack_sig p sig
  if ¬ ok then .ok ["non-canonical-hints"] else
  let nh : Int := h.foldl (fun n q => q.foldl (fun n x => n + x) n) 0
  let cp ← poly_challenge p FUEL ct
  let cph ← poly_ntt cp
  let mat ← matrix_expand p FUEL rho
  let s1h ← vec_ntt s1
  let s2h ← vec_ntt s2
  let t0h ← vec_ntt t0
  let cs1 ← vec_pointwise_poly_montgomery cph s1h
  let cs1 ← vec_invntt_tomont cs1
  let y ← vec_sub z cs1
  let y ← vec_reduce y
  let yh ← vec_ntt y
  let w ← matrix_pointwise_montgomery mat yh
  let w ← vec_reduce w
  let w ← vec_invntt_tomont w
  let w ← vec_caddq w
  let cs2 ← vec_pointwise_poly_montgomery cph s2h
  let cs2 ← vec_invntt_tomont cs2
  let ct0 ← vec_pointwise_poly_montgomery cph t0h
  let ct0 ← vec_invntt_tomont ct0
  let ct0 ← vec_reduce ct0
  -- LowBits(w − c·s2) on standard representatives
  let r ← vec_sub w cs2
  let r ← vec_reduce r
  let r ← vec_caddq r
  let (_r1, r0) ← k_decompose p.lvl r
  let (w1, _w0) ← k_decompose p.lvl w
  let c2 ← compute_ctilde p mu (k_pack_w1 p.lvl w1)
  let fails : List String :=
    (if vecNormLt z ((p.gamma1 : Int) - p.beta) then [] else ["z-norm"]) ++
    (if nh ≤ p.omega then [] else ["too-many-hints"]) ++
    (if vecNormLt r0 ((p.gamma2 : Int) - p.beta) then [] else ["lowbits-norm"]) ++
    (if vecNormLt (ct0.map (·.map centered)) (p.gamma2 : Int) then [] else ["ct0-norm"]) ++
    (if c2 = ct then [] else ["challenge-hash"])
  .ok fails

end DV.Drv
