import DilithiumVerif.Driver.Codec
import DilithiumVerif.Impl.Api
import DilithiumVerif.Driver.Forge
/- Driver.Dispatch — maps a request line to the model function of the same Rust path. -/
namespace DV.Drv
open DV

/-- iterations granted to the signing loop: more than the u16 mask nonce allows (L·κ < 2^16, so the code itself stops —
    with an overflow panic in the checked build — long before), so `none` (fuel exhausted) cannot be the model's answer
    to a call the implementation completes -/
def SIGN_FUEL : Nat := 70000

def showChk {α} (f : α → String) : Chk α → String
  | .ok v => "ok " ++ f v
  | .error _ => "fault"

def pair (p : Int × Int) : List Int := [p.1, p.2]

/-- scalar functions: Rust path ↦ function on the list of integer arguments -/
def scalarFn (name : String) : Option (List Int → Option (Chk (List Int))) :=
  let un (f : Int → Chk (List Int)) : List Int → Option (Chk (List Int)) := fun
    | [a] => some (f a) | _ => none
  let bin (f : Int → Int → Chk (List Int)) : List Int → Option (Chk (List Int)) := fun
    | [a, b] => some (f a b) | _ => none
  let one (f : Int → Chk Int) : Int → Chk (List Int) := fun a => (f a).map (fun r => [r])
  match name with
  | "reduce::montgomery_reduce" => some (un (one montgomery_reduce))
  | "reduce::reduce32" => some (un (one reduce32))
  | "reduce::caddq" => some (un (one caddq))
  | "rounding::power2round" => some (un fun a => (power2round a).map pair)
  | "rounding::lvl2::decompose" => some (un fun a => (decompose .l2 a).map pair)
  | "rounding::lvl3::decompose" => some (un fun a => (decompose .l3 a).map pair)
  | "rounding::lvl5::decompose" => some (un fun a => (decompose .l5 a).map pair)
  | "rounding::lvl2::make_hint" => some (bin fun a b => .ok [make_hint .l2 a b])
  | "rounding::lvl3::make_hint" => some (bin fun a b => .ok [make_hint .l3 a b])
  | "rounding::lvl5::make_hint" => some (bin fun a b => .ok [make_hint .l5 a b])
  | "rounding::lvl2::use_hint" => some (bin fun a b => (use_hint .l2 a b).map (fun r => [r]))
  | "rounding::lvl3::use_hint" => some (bin fun a b => (use_hint .l3 a b).map (fun r => [r]))
  | "rounding::lvl5::use_hint" => some (bin fun a b => (use_hint .l5 a b).map (fun r => [r]))
  -- composite used by C15: use_hint((w1·2γ2 + a0) mod q, make_hint(a0, w1)), arguments (a0, w1)
  | "rounding::lvl2::hint_roundtrip" => some (bin fun a0 w1 => (use_hint .l2 ((w1 * (2 * gamma2Of .l2) + a0) % Q) (make_hint .l2 a0 w1)).map (fun r => [r]))
  | "rounding::lvl3::hint_roundtrip" => some (bin fun a0 w1 => (use_hint .l3 ((w1 * (2 * gamma2Of .l3) + a0) % Q) (make_hint .l3 a0 w1)).map (fun r => [r]))
  | "rounding::lvl5::hint_roundtrip" => some (bin fun a0 w1 => (use_hint .l5 ((w1 * (2 * gamma2Of .l5) + a0) % Q) (make_hint .l5 a0 w1)).map (fun r => [r]))
  | _ => none

/-- checksum of f over [lo, lo+n) with the remaining arguments fixed; also counts faults -/
partial def sweepChunk (f : List Int → Option (Chk (List Int))) (rest : List Int) (x : Int) (n : Nat) (h : UInt64) (nf : Nat) : UInt64 × Nat :=
  if n == 0 then (h, nf) else
  match f (x :: rest) with
  | some (.ok l) => sweepChunk f rest (x + 1) (n - 1) (l.foldl mix h) nf
  | some (.error _) => sweepChunk f rest (x + 1) (n - 1) (mix h FAULTMARK) (nf + 1)
  | none => (h, nf)

partial def sweepAll (f : List Int → Option (Chk (List Int))) (rest : List Int) (lo hi : Int) (chunk : Nat) (acc : List String) : List String :=
  if lo ≥ hi then acc.reverse else
  let n := min chunk (hi - lo).toNat
  let (h, nf) := sweepChunk f rest lo n FNV0 0
  let tok := if nf == 0 then toString h.toNat else toString h.toNat ++ "/" ++ toString nf
  sweepAll f rest (lo + n) hi chunk (tok :: acc)

def answerScalar (name : String) (args : List String) : Option String := do
  let f ← scalarFn name
  let xs ← args.mapM intOfStr
  let r ← f xs
  some (showChk strOfInts r)

def answerSweep (args : List String) : Option String := do
  match args with
  | name :: lo :: hi :: chunk :: rest =>
    let f ← scalarFn name
    let lo ← intOfStr lo
    let hi ← intOfStr hi
    let chunk ← chunk.toNat?
    let rest ← rest.mapM intOfStr
    if chunk == 0 then none else
    some ("ok " ++ " ".intercalate (sweepAll f rest lo hi chunk []))
  | _ => none

/-! ### structured requests -/

def P (s : String) := intsOfStr s       -- polynomial
def V (s : String) := vecOfStr s        -- vector
def B (s : String) := bytesOfHex s      -- bytes
def I (s : String) := intOfStr s
def Nn (s : String) := s.toNat?

def sP (p : List Int) := strOfInts p
def sV (v : List (List Int)) := strOfVec v
def sB (b : List Nat) := hexOfBytes b

def boolStr (b : Bool) : String := if b then "true" else "false"

/-- poly.rs / ntt.rs functions (no parameter set) -/
def answerPoly (fn : String) (a : List String) : Option String :=
  match fn, a with
  | "reduce", [x] => do let x ← P x; some (showChk sP (poly_reduce x))
  | "caddq", [x] => do let x ← P x; some (showChk sP (poly_caddq x))
  | "add", [x, y] => do let x ← P x; let y ← P y; some (showChk sP (poly_add x y))
  | "add_ip", [x, y] => do let x ← P x; let y ← P y; some (showChk sP (poly_add x y))
  | "sub", [x, y] => do let x ← P x; let y ← P y; some (showChk sP (poly_sub x y))
  | "sub_ip", [x, y] => do let x ← P x; let y ← P y; some (showChk sP (poly_sub x y))
  | "shiftl", [x] => do let x ← P x; some ("ok " ++ sP (poly_shiftl x))
  | "ntt", [x] => do let x ← P x; some (showChk sP (poly_ntt x))
  | "invntt_tomont", [x] => do let x ← P x; some (showChk sP (poly_invntt_tomont x))
  | "pointwise_montgomery", [x, y] => do let x ← P x; let y ← P y; some (showChk sP (poly_pointwise_montgomery x y))
  | "power2round", [x] => do let x ← P x; some (showChk (fun r => sP r.1 ++ " " ++ sP r.2) (poly_power2round x))
  | "chknorm", [x, b] => do let x ← P x; let b ← I b; some (showChk toString (poly_chknorm x b))
  | "rej_uniform", [alen, acap, buf, buflen] => do
      let alen ← Nn alen; let acap ← Nn acap; let buf ← B buf; let buflen ← Nn buflen
      some (showChk (fun r => toString r.length ++ " " ++ (if r.isEmpty then "-" else sP r)) (rej_uniform alen acap buf buflen))
  | "uniform", [seed, nonce] => do let seed ← B seed; let nonce ← Nn nonce; some (showChk sP (poly_uniform FUEL seed nonce))
  | "t1_pack", [x] => do let x ← P x; some ("ok " ++ sB (t1_pack x))
  | "t1_unpack", [b] => do let b ← B b; some (showChk sP (t1_unpack b))
  | "t0_pack", [x] => do let x ← P x; some (showChk sB (t0_pack x))
  | "t0_unpack", [b] => do let b ← B b; some (showChk sP (t0_unpack b))
  | _, _ => none

/-- poly/<set>.rs functions -/
def answerPolySet (p : Params) (fn : String) (a : List String) : Option String :=
  let lv := p.lvl
  match fn, a with
  | "decompose", [x] => do let x ← P x; some (showChk (fun r => sP r.1 ++ " " ++ sP r.2) (poly_decompose lv x))
  | "make_hint", [x, y] => do let x ← P x; let y ← P y; some (showChk (fun r => sP r.1 ++ " " ++ toString r.2) (poly_make_hint lv x y))
  | "use_hint", [x, y] => do let x ← P x; let y ← P y; some (showChk sP (poly_use_hint lv x y))
  | "use_hint_ip", [x, y] => do let x ← P x; let y ← P y; some (showChk sP (poly_use_hint lv x y))
  | "rej_eta", [alen, acap, buf, buflen] => do
      let alen ← Nn alen; let acap ← Nn acap; let buf ← B buf; let buflen ← Nn buflen
      some (showChk (fun r => toString r.length ++ " " ++ (if r.isEmpty then "-" else sP r)) (rej_eta lv alen acap buf buflen))
  | "uniform_eta", [seed, nonce] => do let seed ← B seed; let nonce ← Nn nonce; some (showChk sP (poly_uniform_eta lv FUEL seed nonce))
  | "uniform_gamma1", [seed, nonce] => do let seed ← B seed; let nonce ← Nn nonce; some (showChk sP (poly_uniform_gamma1 lv seed nonce))
  | "challenge", [seed] => do let seed ← B seed; some (showChk sP (poly_challenge p FUEL seed))
  | "eta_pack", [x] => do let x ← P x; some (showChk sB (eta_pack lv x))
  | "eta_unpack", [b] => do let b ← B b; some (showChk sP (eta_unpack lv b))
  | "z_pack", [x] => do let x ← P x; some (showChk sB (z_pack lv x))
  | "z_unpack", [b] => do let b ← B b; some (showChk sP (z_unpack lv b))
  | "w1_pack", [x] => do let x ← P x; some ("ok " ++ sB (w1_pack lv x))
  | _, _ => none

/-- polyvec/<lvl>.rs functions -/
def answerVec (p : Params) (fn : String) (a : List String) : Option String :=
  let lv := p.lvl
  match fn, a with
  | "matrix_expand", [rho] => do let rho ← B rho; some (showChk strOfMat (matrix_expand p FUEL rho))
  | "l_pointwise_acc_montgomery", [u, v] => do let u ← V u; let v ← V v; some (showChk sP (l_pointwise_acc_montgomery u v))
  | "matrix_pointwise_montgomery", [m, v] => do let m ← matOfStr m; let v ← V v; some (showChk sV (matrix_pointwise_montgomery m v))
  | "l_uniform_eta", [seed, nonce] => do let seed ← B seed; let nonce ← I nonce; some (showChk sV (l_uniform_eta p FUEL seed nonce))
  | "k_uniform_eta", [seed, nonce] => do let seed ← B seed; let nonce ← I nonce; some (showChk sV (k_uniform_eta p FUEL seed nonce))
  | "l_uniform_gamma1", [seed, nonce] => do let seed ← B seed; let nonce ← I nonce; some (showChk sV (l_uniform_gamma1 p seed nonce))
  | "l_reduce", [v] => do let v ← V v; some (showChk sV (vec_reduce v))
  | "k_reduce", [v] => do let v ← V v; some (showChk sV (vec_reduce v))
  | "k_caddq", [v] => do let v ← V v; some (showChk sV (vec_caddq v))
  | "l_add", [w, v] => do let w ← V w; let v ← V v; some (showChk sV (vec_add w v))
  | "k_add", [w, v] => do let w ← V w; let v ← V v; some (showChk sV (vec_add w v))
  | "k_sub", [w, v] => do let w ← V w; let v ← V v; some (showChk sV (vec_sub w v))
  | "k_shiftl", [v] => do let v ← V v; some ("ok " ++ sV (vec_shiftl v))
  | "l_ntt", [v] => do let v ← V v; some (showChk sV (vec_ntt v))
  | "k_ntt", [v] => do let v ← V v; some (showChk sV (vec_ntt v))
  | "l_invntt_tomont", [v] => do let v ← V v; some (showChk sV (vec_invntt_tomont v))
  | "k_invntt_tomont", [v] => do let v ← V v; some (showChk sV (vec_invntt_tomont v))
  | "l_pointwise_poly_montgomery", [x, v] => do let x ← P x; let v ← V v; some (showChk sV (vec_pointwise_poly_montgomery x v))
  | "k_pointwise_poly_montgomery", [x, v] => do let x ← P x; let v ← V v; some (showChk sV (vec_pointwise_poly_montgomery x v))
  | "l_chknorm", [v, b] => do let v ← V v; let b ← I b; some (showChk toString (vec_chknorm v b))
  | "k_chknorm", [v, b] => do let v ← V v; let b ← I b; some (showChk toString (vec_chknorm v b))
  | "k_power2round", [v] => do let v ← V v; some (showChk (fun r => sV r.1 ++ " " ++ sV r.2) (k_power2round v))
  | "k_decompose", [v] => do let v ← V v; some (showChk (fun r => sV r.1 ++ " " ++ sV r.2) (k_decompose lv v))
  | "k_make_hint", [v0, v1] => do let v0 ← V v0; let v1 ← V v1; some (showChk (fun r => sV r.1 ++ " " ++ toString r.2) (k_make_hint lv v0 v1))
  | "k_use_hint", [x, h] => do let x ← V x; let h ← V h; some (showChk sV (k_use_hint lv x h))
  | "k_pack_w1", [v] => do let v ← V v; some ("ok " ++ sB (k_pack_w1 lv v))
  | _, _ => none

/-- packing/<set>.rs -/
def answerPacking (p : Params) (fn : String) (a : List String) : Option String :=
  match fn, a with
  | "pack_pk", [rho, t1] => do let rho ← B rho; let t1 ← V t1; some (showChk sB (pack_pk p rho t1))
  | "unpack_pk", [pk] => do let pk ← B pk; some (showChk (fun r => sB r.1 ++ " " ++ sV r.2) (unpack_pk p pk))
  | "pack_sk", [rho, tr, key, t0, s1, s2] => do
      let rho ← B rho; let tr ← B tr; let key ← B key; let t0 ← V t0; let s1 ← V s1; let s2 ← V s2
      some (showChk sB (pack_sk p rho tr key t0 s1 s2))
  | "unpack_sk", [sk] => do
      let sk ← B sk
      some (showChk (fun (r : List Nat × List Nat × List Nat × PolyVec × PolyVec × PolyVec) =>
        sB r.1 ++ " " ++ sB r.2.1 ++ " " ++ sB r.2.2.1 ++ " " ++ sV r.2.2.2.1 ++ " " ++ sV r.2.2.2.2.1 ++ " " ++ sV r.2.2.2.2.2) (unpack_sk p sk))
  | "pack_sig", [c, z, h] => do
      let c ← B c; let z ← V z; let h ← V h
      some (showChk sB (pack_sig p (List.replicate p.sigBytes 0) (some c) z h))
  | "unpack_sig", [sig] => do
      let sig ← B sig
      some (showChk (fun (r : Bool × List Nat × PolyVec × PolyVec) =>
        if r.1 then "true " ++ sB r.2.1 ++ " " ++ sV r.2.2.1 ++ " " ++ sV r.2.2.2 else "false") (unpack_sig p sig))
  | _, _ => none

/-- fips202.rs: a script of calls on one state.  ops: i (init), a:<n> absorb next n input bytes,
    f finalize, s:<n> squeeze n bytes (SHAKE-256 only), b:<n> squeezeblocks n,
    o:<n> absorb_once on the next n bytes (SHAKE-256 only).  Output: all squeezed bytes. -/
def runShakeGo (is256 : Bool) : List String → KeccakState → List Nat → List Nat → Chk (List Nat)
  | [], _, _, out => .ok out
  | op :: rest, st, inp, out =>
    match op.splitOn ":" with
    | ["i"] => runShakeGo is256 rest KeccakState.init inp out
    | ["a", n] => do
        let n := n.toNat!
        let st ← (if is256 then shake256_absorb st (inp.take n) n else shake128_absorb st (inp.take n) n)
        runShakeGo is256 rest st (inp.drop n) out
    | ["f"] => do
        let st ← (if is256 then shake256_finalize st else shake128_finalize st)
        runShakeGo is256 rest st inp out
    | ["s", n] => do
        let n := n.toNat!
        if ¬ is256 then .error .unwrap else
        let (o, st) ← shake256_squeeze n n st
        runShakeGo is256 rest st inp (out ++ o)
    | ["b", n] => do
        let n := n.toNat!
        let r := if is256 then R256 else R128
        let (o, st) ← (if is256 then shake256_squeezeblocks (n * r) n st else shake128_squeezeblocks (n * r) n st)
        runShakeGo is256 rest st inp (out ++ o)
    | ["o", n] => do
        let n := n.toNat!
        if ¬ is256 then .error .unwrap else
        let st ← shake256_absorb_once (inp.take n) n
        runShakeGo is256 rest st (inp.drop n) out
    | _ => .error .unwrap

def answerFips (fn : String) (a : List String) : Option String :=
  match fn, a with
  | "shake256_script", [ops, inp] => do let inp ← B inp; some (showChk sB (runShakeGo true (ops.splitOn ",") KeccakState.init inp []))
  | "shake128_script", [ops, inp] => do let inp ← B inp; some (showChk sB (runShakeGo false (ops.splitOn ",") KeccakState.init inp []))
  | "shake256", [outlen, inp] => do let n ← Nn outlen; let inp ← B inp; some (showChk sB (shake256 n n inp inp.length))
  | "shake128_stream_init", [seed, nonce, nb] => do
      let seed ← B seed; let nonce ← Nn nonce; let nb ← Nn nb
      some (showChk sB (do let st ← shake128_stream_init seed nonce; let (o, _) ← shake128_squeezeblocks (nb * R128) nb st; .ok o))
  | "shake256_stream_init", [seed, nonce, nb] => do
      let seed ← B seed; let nonce ← Nn nonce; let nb ← Nn nb
      some (showChk sB (do let st ← shake256_stream_init seed nonce; let (o, _) ← shake256_squeezeblocks (nb * R256) nb st; .ok o))
  | "keccakf1600_statepermute", [lanes] => do
      let l ← intsOfStr lanes
      if l.length ≠ 25 then none else
      let s : Lanes := (l.map (fun x => UInt64.ofNat x.toNat)).toArray
      some ("ok " ++ ",".intercalate ((keccakf s).toList.map (fun w => toString w.toNat)))
  | _, _ => none

def optB (s : String) : Option (Option (List Nat)) :=
  if s == "none" then some none else (bytesOfHex s).map some

def showSig : Option (List Nat) → String
  | some s => sB s
  | none => "none"

def phOf (s : String) : Option PH :=
  match s with | "sha256" => some .sha256 | "sha512" => some .sha512 | _ => none

/-- sign/<set>.rs.  `tape` = scripted RNG bytes (hex) -/
def answerSign (p : Params) (fn : String) (a : List String) : Option String :=
  match fn, a with
  | "keypair", [seed, tape] => do
      let seed ← optB seed; let tape ← B tape
      some (showChk (fun r => sB r.1 ++ " " ++ sB r.2.1) (keypair p seed tape))
  | "signature", [msg, sk, rnd, tape] => do
      let msg ← B msg; let sk ← B sk; let tape ← B tape
      some (showChk (fun r => showSig r.1) (signature p SIGN_FUEL msg sk (rnd == "1") tape))
  | "verify", [sig, msg, pk] => do
      let sig ← B sig; let msg ← B msg; let pk ← B pk
      some (showChk boolStr (verify p sig msg pk))
  | _, _ => none

/-- the API wrappers <set>::{Keypair,SecretKey,PublicKey} -/
def answerApi (p : Params) (fn : String) (a : List String) : Option String :=
  match fn, a with
  | "Keypair::generate", [seed, tape] => do
      let seed ← optB seed; let tape ← B tape
      some (showChk (fun r => sB r.1 ++ " " ++ sB r.2.1) (keypair_generate p seed tape))
  | "Keypair::roundtrip", [bytes] => do
      let b ← B bytes
      some (showChk (fun (r : List Nat × List Nat) => sB (keypair_to_bytes r.1 r.2)) (keypair_from_bytes p b))
  | "SecretKey::roundtrip", [bytes] => do let b ← B bytes; some (showChk sB (from_bytes p.skBytes b))
  | "PublicKey::roundtrip", [bytes] => do let b ← B bytes; some (showChk sB (from_bytes p.pkBytes b))
  | "SecretKey::sign", [sk, msg, ctx, hedged, tape] => do
      let sk ← B sk; let msg ← B msg; let ctx ← optB ctx; let tape ← B tape
      if p.mldsa then
        some (showChk (fun r => showSig r.1) (do let sk ← from_bytes p.skBytes sk; mldsa_sign p SIGN_FUEL sk msg ctx (hedged == "1") tape))
      else
        some (showChk showSig (do let sk ← from_bytes p.skBytes sk; dil_sign p SIGN_FUEL sk msg))
  -- the request carries the message (used by the implementation) and its digest (used by the model: SHA-2 is external)
  | "SecretKey::prehash_sign", [sk, _msg, ctx, hedged, ph, tape, phm] => do
      let sk ← B sk; let phm ← B phm; let ctx ← optB ctx; let tape ← B tape; let ph ← phOf ph
      if ¬ p.mldsa then none else
      some (showChk (fun r => showSig r.1) (do let sk ← from_bytes p.skBytes sk; mldsa_prehash_sign p SIGN_FUEL sk phm ctx (hedged == "1") ph tape))
  | "PublicKey::verify", [pk, msg, sig, ctx] => do
      let pk ← B pk; let msg ← B msg; let sig ← B sig; let ctx ← optB ctx
      if p.mldsa then
        some (showChk boolStr (do let pk ← from_bytes p.pkBytes pk; mldsa_verify p pk msg sig ctx))
      else
        some (showChk boolStr (do let pk ← from_bytes p.pkBytes pk; dil_verify p pk msg sig))
  | "PublicKey::prehash_verify", [pk, _msg, sig, ctx, ph, phm] => do
      let pk ← B pk; let phm ← B phm; let sig ← B sig; let ctx ← optB ctx; let ph ← phOf ph
      if ¬ p.mldsa then none else
      some (showChk boolStr (do let pk ← from_bytes p.pkBytes pk; mldsa_prehash_verify p pk phm sig ctx ph))
  -- the Keypair entry points: first argument = Keypair::to_bytes (sk ‖ pk)
  | "Keypair::sign", [kp, msg, ctx, hedged, tape] => do
      let kp ← B kp; let msg ← B msg; let ctx ← optB ctx; let tape ← B tape
      if p.mldsa then
        some (showChk (fun r => showSig r.1) (kp_mldsa_sign p SIGN_FUEL kp msg ctx (hedged == "1") tape))
      else
        some (showChk showSig (kp_dil_sign p SIGN_FUEL kp msg))
  | "Keypair::prehash_sign", [kp, _msg, ctx, hedged, ph, tape, phm] => do
      let kp ← B kp; let phm ← B phm; let ctx ← optB ctx; let tape ← B tape; let ph ← phOf ph
      if ¬ p.mldsa then none else
      some (showChk (fun r => showSig r.1) (kp_mldsa_prehash_sign p SIGN_FUEL kp phm ctx (hedged == "1") ph tape))
  | "Keypair::verify", [kp, msg, sig, ctx] => do
      let kp ← B kp; let msg ← B msg; let sig ← B sig; let ctx ← optB ctx
      if p.mldsa then
        some (showChk boolStr (kp_mldsa_verify p kp msg sig ctx))
      else
        some (showChk boolStr (kp_dil_verify p kp msg sig))
  | "Keypair::prehash_verify", [kp, _msg, sig, ctx, ph, phm] => do
      let kp ← B kp; let phm ← B phm; let sig ← B sig; let ctx ← optB ctx; let ph ← phOf ph
      if ¬ p.mldsa then none else
      some (showChk boolStr (kp_mldsa_prehash_verify p kp phm sig ctx ph))
  | _, _ => none

def apiName (s : String) : Option Params :=
  match s with
  | "dilithium2" => some P_lvl2 | "dilithium3" => some P_lvl3 | "dilithium5" => some P_lvl5
  | "ml_dsa_44" => some P_mldsa44 | "ml_dsa_65" => some P_mldsa65 | "ml_dsa_87" => some P_mldsa87
  | _ => none

def answerStructured (name : String) (args : List String) : Option String :=
  match name.splitOn "::" with
  | ["poly", fn] => answerPoly fn args
  | ["ntt", fn] => answerPoly fn args
  | ["poly", set, fn] => do let p ← paramsOf set; answerPolySet p fn args
  | ["polyvec", lvl, fn] => do let p ← paramsOf lvl; answerVec p fn args
  | ["packing", set, fn] => do let p ← paramsOf set; answerPacking p fn args
  | ["fips202", fn] => answerFips fn args
  | ["sign", set, fn] => do let p ← paramsOf set; answerSign p fn args
  | [api, ty, fn] => do let p ← apiName api; answerApi p (ty ++ "::" ++ fn) args
  | _ => none

/-- model-only requests: forgers and the C06 judge -/
def answerModelOnly (name : String) (a : List String) : Option String :=
  match name, a with
  | "forge", [set, kind, sk, msg, maxiter] => do
      let p ← paramsOf set; let sk ← B sk; let msg ← B msg; let n ← Nn maxiter
      some (showChk (fun r => match r with
        | none => "none"
        | some (k, sg, zm) => toString k ++ " " ++ toString zm ++ " " ++ sB sg) (forge p kind sk msg n))
  | "iterstats", [set, sk, msg, n] => do
      let p ← paramsOf set; let sk ← B sk; let msg ← B msg; let n ← Nn n
      some (showChk strOfInts (do let c ← signCtx p msg sk; iterStats p c n 0 [0, 0, 0, 0, 0, 0, 0]))
  | "analyze", [set, sk, msg, sig] => do
      let p ← paramsOf set; let sk ← B sk; let msg ← B msg; let sig ← B sig
      some (showChk (fun (f : List String) => if f.isEmpty then "pass" else "fail:" ++ ",".intercalate f) (analyze p sk msg sig))
  | _, _ => none

def answer (toks : List String) : String :=
  let toks := toks.filter (· ≠ "")
  match toks with
  | [] => ""
  | "sweep" :: args => (answerSweep args).getD "bad-request"
  | name :: args =>
    match answerScalar name args with
    | some s => s
    | none =>
      match answerModelOnly name args with
      | some s => s
      | none => (answerStructured name args).getD "bad-request"

end DV.Drv
