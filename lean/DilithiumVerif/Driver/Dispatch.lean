import DilithiumVerif.Driver.Codec
import DilithiumVerif.Impl.Rounding
/- Driver.Dispatch — maps a request line to the model function of the same Rust path. -/
namespace DV.Drv
open DV

def showChk {α} (f : α → String) : Chk α → String
  | .ok v => "ok " ++ f v
  | .error _ => "fault"

def pair (p : Int × Int) : List Int := [p.1, p.2]

/-- scalar functions: Rust path ↦ function on the list of integer arguments -/
def scalarFn (name : String) : Option (List Int → Option (Chk (List Int))) :=
  let un (f : Int → Chk (List Int)) : List Int → Option (Chk (List Int)) := fun
    | [a] => some (f a) | _ => none
  let bin (f : Int → Int → Chk (List Int)) : List Int → Option (Chk (List Int)) := fun
    | [a, b] => some (f a b) | _ => none
  let one (f : Int → Chk Int) : Int → Chk (List Int) := fun a => (f a).map (fun r => [r])
  match name with
  | "reduce::montgomery_reduce" => some (un (one montgomery_reduce))
  | "reduce::reduce32" => some (un (one reduce32))
  | "reduce::caddq" => some (un (one caddq))
  | "rounding::power2round" => some (un fun a => (power2round a).map pair)
  | "rounding::lvl2::decompose" => some (un fun a => (decompose .l2 a).map pair)
  | "rounding::lvl3::decompose" => some (un fun a => (decompose .l3 a).map pair)
  | "rounding::lvl5::decompose" => some (un fun a => (decompose .l5 a).map pair)
  | "rounding::lvl2::make_hint" => some (bin fun a b => .ok [make_hint .l2 a b])
  | "rounding::lvl3::make_hint" => some (bin fun a b => .ok [make_hint .l3 a b])
  | "rounding::lvl5::make_hint" => some (bin fun a b => .ok [make_hint .l5 a b])
  | "rounding::lvl2::use_hint" => some (bin fun a b => (use_hint .l2 a b).map (fun r => [r]))
  | "rounding::lvl3::use_hint" => some (bin fun a b => (use_hint .l3 a b).map (fun r => [r]))
  | "rounding::lvl5::use_hint" => some (bin fun a b => (use_hint .l5 a b).map (fun r => [r]))
  -- composite used by C15: use_hint((w1·2γ2 + a0) mod q, make_hint(a0, w1)), arguments (a0, w1)
  | "rounding::lvl2::hint_roundtrip" => some (bin fun a0 w1 => (use_hint .l2 ((w1 * (2 * gamma2Of .l2) + a0) % Q) (make_hint .l2 a0 w1)).map (fun r => [r]))
  | "rounding::lvl3::hint_roundtrip" => some (bin fun a0 w1 => (use_hint .l3 ((w1 * (2 * gamma2Of .l3) + a0) % Q) (make_hint .l3 a0 w1)).map (fun r => [r]))
  | "rounding::lvl5::hint_roundtrip" => some (bin fun a0 w1 => (use_hint .l5 ((w1 * (2 * gamma2Of .l5) + a0) % Q) (make_hint .l5 a0 w1)).map (fun r => [r]))
  | _ => none

/-- checksum of f over [lo, lo+n) with the remaining arguments fixed; also counts faults -/
partial def sweepChunk (f : List Int → Option (Chk (List Int))) (rest : List Int) (x : Int) (n : Nat) (h : UInt64) (nf : Nat) : UInt64 × Nat :=
  if n == 0 then (h, nf) else
  match f (x :: rest) with
  | some (.ok l) => sweepChunk f rest (x + 1) (n - 1) (l.foldl mix h) nf
  | some (.error _) => sweepChunk f rest (x + 1) (n - 1) (mix h FAULTMARK) (nf + 1)
  | none => (h, nf)

partial def sweepAll (f : List Int → Option (Chk (List Int))) (rest : List Int) (lo hi : Int) (chunk : Nat) (acc : List String) : List String :=
  if lo ≥ hi then acc.reverse else
  let n := min chunk (hi - lo).toNat
  let (h, nf) := sweepChunk f rest lo n FNV0 0
  let tok := if nf == 0 then toString h.toNat else toString h.toNat ++ "/" ++ toString nf
  sweepAll f rest (lo + n) hi chunk (tok :: acc)

def answerScalar (name : String) (args : List String) : Option String := do
  let f ← scalarFn name
  let xs ← args.mapM intOfStr
  let r ← f xs
  some (showChk strOfInts r)

def answerSweep (args : List String) : Option String := do
  match args with
  | name :: lo :: hi :: chunk :: rest =>
    let f ← scalarFn name
    let lo ← intOfStr lo
    let hi ← intOfStr hi
    let chunk ← chunk.toNat?
    let rest ← rest.mapM intOfStr
    if chunk == 0 then none else
    some ("ok " ++ " ".intercalate (sweepAll f rest lo hi chunk []))
  | _ => none

def answer (toks : List String) : String :=
  let toks := toks.filter (· ≠ "")
  match toks with
  | [] => ""
  | "sweep" :: args => (answerSweep args).getD "bad-request"
  | name :: args =>
    match answerScalar name args with
    | some s => s
    | none => "bad-request"

end DV.Drv
