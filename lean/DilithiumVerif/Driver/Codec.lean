import DilithiumVerif.Impl.Basic
/- Driver.Codec — text encoding of values on the line protocol (see DESIGN.md App. B). -/
namespace DV.Drv

def hexDigit (n : Nat) : Char :=
  if n < 10 then Char.ofNat (48 + n) else Char.ofNat (87 + n)

def hexOfBytes (bs : List Nat) : String :=
  if bs.isEmpty then "-" else
  String.ofList (bs.foldr (fun b acc => hexDigit ((b / 16) % 16) :: hexDigit (b % 16) :: acc) [])

def hexVal (c : Char) : Option Nat :=
  if '0' ≤ c ∧ c ≤ '9' then some (c.toNat - 48)
  else if 'a' ≤ c ∧ c ≤ 'f' then some (c.toNat - 87)
  else if 'A' ≤ c ∧ c ≤ 'F' then some (c.toNat - 55)
  else none

partial def bytesOfHexAux : List Char → List Nat → Option (List Nat)
  | [], acc => some acc.reverse
  | [_], _ => none
  | a :: b :: rest, acc =>
    match hexVal a, hexVal b with
    | some x, some y => bytesOfHexAux rest ((16 * x + y) :: acc)
    | _, _ => none

def bytesOfHex (s : String) : Option (List Nat) :=
  if s == "-" then some [] else bytesOfHexAux s.toList []

def intOfStr (s : String) : Option Int := s.toInt?

def strOfInts (l : List Int) : String := ",".intercalate (l.map toString)

def intsOfStr (s : String) : Option (List Int) :=
  if s == "-" then some [] else (s.splitOn ",").mapM (·.toInt?)

def strOfVec (v : List (List Int)) : String := ";".intercalate (v.map strOfInts)
def vecOfStr (s : String) : Option (List (List Int)) := (s.splitOn ";").mapM intsOfStr
def strOfMat (m : List (List (List Int))) : String := "|".intercalate (m.map strOfVec)
def matOfStr (s : String) : Option (List (List (List Int))) := (s.splitOn "|").mapM vecOfStr

/-- FNV-1a style mixing used by the sweep checksums (same on the Rust side). -/
def mix (h : UInt64) (x : Int) : UInt64 :=
  (h ^^^ (Int64.ofInt x).toUInt64) * 0x100000001b3

def FNV0 : UInt64 := 0xcbf29ce484222325
def FAULTMARK : Int := 0x7fffffffffffff01

end DV.Drv
