import DilithiumVerif.Props.C05
import DilithiumVerif.Props.C04
import DilithiumVerif.Props.C08
import DilithiumVerif.Props.C11
/-
  C09 — Randomness discipline.  The library as a machine over an RNG tape (the unread bytes of
  `rand::thread_rng()`): which operations draw, how many bytes, in which order, and how they enter.
  That the tape really is fresh OS-seeded CSPRNG output is `rand`'s contract (trusted, not modelled).
-/
namespace DV.C09
open DV

inductive Op where
  | keygen (p : Params) (seed : Option (List Nat))
  | sign (p : Params) (fuel : Nat) (msg sk : List Nat) (randomized : Bool)
  | verify (p : Params) (sig msg pk : List Nat)

inductive Out where
  | keys (pk sk : List Nat)
  | sig (s : Option (List Nat))
  | verdict (b : Bool)

/-- number of RNG bytes an operation requests -/
def draws : Op → Nat
  | .keygen _ none => SEEDBYTES
  | .keygen _ (some _) => 0
  | .sign p _ _ _ r => C05.drawn p r
  | .verify .. => 0

def run (t : Tape) : Op → Chk (Out × Tape)
  | .keygen p seed => (keypair p seed t).map (fun r => (.keys r.1 r.2.1, r.2.2))
  | .sign p fuel msg sk r => (signature p fuel msg sk r t).map (fun x => (.sig x.1, x.2))
  | .verify p sig msg pk => (verify p sig msg pk).map (fun b => (.verdict b, t))

/-- the result of an operation as a function of the bytes it is given (the specification's interface) -/
def runWith (bytes : List Nat) : Op → Chk Out
  | .keygen p none => (keypair p (some bytes) []).map (fun r => .keys r.1 r.2.1)
  | .keygen p (some s) => (keypair p (some s) []).map (fun r => .keys r.1 r.2.1)
  | .sign p fuel msg sk true => (C05.signature_with p fuel msg sk (some bytes)).map .sig
  | .sign p fuel msg sk false => (C05.signature_with p fuel msg sk none).map .sig
  | .verify p sig msg pk => (verify p sig msg pk).map .verdict

theorem keypair_tape_irrelevant (p : Params) (s : List Nat) (t : Tape) :
    keypair p (some s) t = (keypair p (some s) []).map (fun r => (r.1, r.2.1, t)) := by
  unfold keypair
  by_cases hl : s.length = SEEDBYTES
  · simp only [hl, if_true, ok_bind, map_bind_chk, map_ok_chk]
  · simp only [hl, if_false, err_bind]; rfl

/-- One step: an operation consumes exactly `draws op` bytes from the front of the tape (none for seeded key
    generation, deterministic signing and verification) and its output is the specification's function of exactly
    those bytes. -/
theorem run_spec (t : Tape) (op : Op) (h : draws op ≤ t.length) :
    run t op = (runWith (t.take (draws op)) op).map (fun o => (o, t.drop (draws op))) := by
  cases op with
  | keygen p seed =>
    cases seed with
    | none =>
      simp only [run, runWith, draws] at h ⊢
      rw [C04.keypair_unseeded p t h, keypair_tape_irrelevant]
      cases keypair p (some (List.take SEEDBYTES t)) [] <;> rfl
    | some s =>
      simp only [run, runWith, draws, List.drop_zero]
      rw [keypair_tape_irrelevant]
      cases keypair p (some s) [] <;> rfl
  | sign p fuel msg sk r =>
    cases r with
    | false =>
      simp only [run, runWith, draws, C05.drawn, Bool.false_eq_true, if_false, List.drop_zero]
      rw [C05.signature_det]
      cases C05.signature_with p fuel msg sk none <;> rfl
    | true =>
      simp only [run, runWith, draws] at h ⊢
      rw [C05.signature_rand p fuel msg sk t h]
      cases C05.signature_with p fuel msg sk (some (List.take (C05.drawn p true) t)) <;> rfl
  | verify p sig msg pk =>
    simp only [run, runWith, draws, List.drop_zero]
    cases verify p sig msg pk <;> rfl

/-- running a sequence of operations -/
def runAll : Tape → List Op → Chk (List Out × Tape)
  | t, [] => .ok ([], t)
  | t, op :: ops => do
      let (o, t') ← run t op
      let (os, t'') ← runAll t' ops
      .ok (o :: os, t'')

def totalDraws (ops : List Op) : Nat := (ops.map draws).foldl (· + ·) 0

theorem foldl_add_shift (l : List Nat) (a : Nat) : l.foldl (· + ·) a = a + l.foldl (· + ·) 0 := by
  induction l generalizing a with
  | nil => simp
  | cons x xs ih => simp only [List.foldl_cons, Nat.zero_add]; rw [ih (a + x), ih x]; omega

/-- Over any call sequence the bytes consumed are exactly the sum of the per-operation amounts, taken from the
    tape in call order: the remaining tape is the original one with that many bytes removed. -/
theorem runAll_tape (ops : List Op) : ∀ (t : Tape) (outs : List Out) (t' : Tape),
    totalDraws ops ≤ t.length → runAll t ops = .ok (outs, t') → t' = t.drop (totalDraws ops) ∧ outs.length = ops.length := by
  induction ops with
  | nil => intro t outs t' _ h; simp [runAll] at h; obtain ⟨rfl, rfl⟩ := h; simp [totalDraws]
  | cons op ops ih =>
    intro t outs t' hlen h
    have hsplit : totalDraws (op :: ops) = draws op + totalDraws ops := by
      simp only [totalDraws, List.map_cons, List.foldl_cons, Nat.zero_add]; exact foldl_add_shift _ _
    rw [hsplit] at hlen
    unfold runAll at h
    obtain ⟨⟨o, t1⟩, h1, h⟩ := bind_eq_ok.mp h
    obtain ⟨⟨os, t2⟩, h2, h⟩ := bind_eq_ok.mp h
    injection h with h; injection h with ho ht; subst ho; subst ht
    rw [run_spec t op (by omega)] at h1
    cases hr : runWith (t.take (draws op)) op with
    | error e => rw [hr] at h1; cases h1
    | ok o' =>
      rw [hr] at h1; simp only [map_ok_chk] at h1
      injection h1 with h1; injection h1 with _ ht1
      have hl : totalDraws ops ≤ t1.length := by rw [← ht1, List.length_drop]; omega
      obtain ⟨e1, e2⟩ := ih t1 os t2 hl h2
      refine ⟨?_, by simp [e2]⟩
      rw [e1, ← ht1, List.drop_drop, hsplit]

/-- amounts: 32 bytes per unseeded key generation, 32 per hedged ML-DSA signature, 64 per randomized Dilithium
    signature, nothing otherwise -/
theorem amounts (p : Params) (fuel : Nat) (m sk sig pk s : List Nat) :
    draws (.keygen p none) = 32 ∧ draws (.keygen p (some s)) = 0 ∧ draws (.sign p fuel m sk false) = 0 ∧
    draws (.verify p sig m pk) = 0 ∧ draws (.sign p fuel m sk true) = (if p.mldsa then 32 else 64) := by
  refine ⟨rfl, rfl, rfl, rfl, ?_⟩
  simp only [draws, C05.drawn, if_true]; split <;> rfl

/-! ### The API layer (containers, contexts, pre-hash) over the same tape

  Every entry point of the six API modules is one raw operation on a framed message, or is answered without
  touching anything (context longer than 255 bytes, signature of the wrong length). So the tape discipline of the
  raw operations is the tape discipline of the API. -/

inductive ApiOp where
  | generate (p : Params) (entropy : Option (List Nat))
  | sign (p : Params) (fuel : Nat) (sk msg : List Nat) (ctx : Option (List Nat)) (hedged : Bool)
  | prehashSign (p : Params) (fuel : Nat) (sk phm : List Nat) (ctx : Option (List Nat)) (hedged : Bool) (ph : PH)
  | verify (p : Params) (pk msg sig : List Nat) (ctx : Option (List Nat))
  | prehashVerify (p : Params) (pk phm sig : List Nat) (ctx : Option (List Nat)) (ph : PH)
  | dilSign (p : Params) (fuel : Nat) (sk msg : List Nat)
  | dilVerify (p : Params) (pk msg sig : List Nat)

def apiRun (t : Tape) : ApiOp → Chk (Out × Tape)
  | .generate p e => (keypair_generate p e t).map (fun r => (.keys r.2.1 r.1, r.2.2))
  | .sign p fuel sk msg ctx h => (mldsa_sign p fuel sk msg ctx h t).map (fun r => (.sig r.1, r.2))
  | .prehashSign p fuel sk phm ctx h ph => (mldsa_prehash_sign p fuel sk phm ctx h ph t).map (fun r => (.sig r.1, r.2))
  | .verify p pk msg sig ctx => (mldsa_verify p pk msg sig ctx).map (fun b => (.verdict b, t))
  | .prehashVerify p pk phm sig ctx ph => (mldsa_prehash_verify p pk phm sig ctx ph).map (fun b => (.verdict b, t))
  | .dilSign p fuel sk msg => (dil_sign p fuel sk msg).map (fun s => (.sig s, t))
  | .dilVerify p pk msg sig => (dil_verify p pk msg sig).map (fun b => (.verdict b, t))

/-- what an API call comes down to: an answer given at once (`inl`), or one raw operation (`inr`) -/
def lower : ApiOp → Sum Out Op
  | .generate p e => .inr (.keygen p e)
  | .sign p fuel sk msg ctx h =>
    match frame_pure msg ctx with
    | none => .inl (.sig none)
    | some m => .inr (.sign p fuel m sk h)
  | .prehashSign p fuel sk phm ctx h ph =>
    match frame_prehash phm ctx ph with
    | none => .inl (.sig none)
    | some m => .inr (.sign p fuel m sk h)
  | .verify p pk msg sig ctx =>
    if sig.length ≠ p.sigBytes then .inl (.verdict false) else
    match frame_pure msg ctx with
    | none => .inl (.verdict false)
    | some m => .inr (.verify p sig m pk)
  | .prehashVerify p pk phm sig ctx ph =>
    if sig.length ≠ p.sigBytes then .inl (.verdict false) else
    match frame_prehash phm ctx ph with
    | none => .inl (.verdict false)
    | some m => .inr (.verify p sig m pk)
  | .dilSign p fuel sk msg => .inr (.sign p fuel msg sk false)
  | .dilVerify p pk msg sig => if sig.length ≠ p.sigBytes then .inl (.verdict false) else .inr (.verify p sig msg pk)

/-- the keys `keypair` returns have the standard sizes (seeded or not), so the containers of `Keypair::generate` take them as they are -/
theorem keypair_sizes (p : Params) (hp : p ∈ allParams) (e : Option (List Nat)) (t : Tape) (pk sk : List Nat) (t' : Tape)
    (hk : keypair p e t = .ok (pk, sk, t')) : pk.length = p.pkBytes ∧ sk.length = p.skBytes := by
  cases e with
  | some s =>
    by_cases hl : s.length = SEEDBYTES
    · rcases C08.keypair_total p hp s hl t with ⟨r, hr, hP⟩ | hf
      · rw [hr] at hk; injection hk with hk; subst hk; exact ⟨hP.1, hP.2.1⟩
      · rw [hf] at hk; cases hk
    · unfold keypair at hk; simp only [hl, if_false, err_bind] at hk; cases hk
  | none =>
    by_cases hl : SEEDBYTES ≤ t.length
    · rw [C04.keypair_unseeded p t hl] at hk
      have hl' : (List.take SEEDBYTES t).length = SEEDBYTES := by rw [List.length_take]; omega
      rcases C08.keypair_total p hp _ hl' (List.drop SEEDBYTES t) with ⟨r, hr, hP⟩ | hf
      · rw [hr] at hk; injection hk with hk; subst hk; exact ⟨hP.1, hP.2.1⟩
      · rw [hf] at hk; cases hk
    · unfold keypair random_bytes at hk
      have : ¬ t.length ≥ SEEDBYTES := hl
      simp only [this, if_false, err_bind] at hk; cases hk

theorem apiRun_lower (t : Tape) (op : ApiOp) (hp : ∀ p e, op = .generate p e → p ∈ allParams) :
    apiRun t op = match lower op with
      | .inl o => .ok (o, t)
      | .inr r => run t r := by
  cases op with
  | generate p e =>
    simp only [apiRun, lower, run, keypair_generate]
    cases hk : keypair p e t with
    | error err => rfl
    | ok r =>
      obtain ⟨pk, sk, t'⟩ := r
      obtain ⟨h1, h2⟩ := keypair_sizes p (hp p e rfl) e t pk sk t' hk
      simp only [ok_bind, C11.roundtrip _ sk h2, C11.roundtrip _ pk h1]
      rfl
  | sign p fuel sk msg ctx h =>
    simp only [apiRun, lower, mldsa_sign]
    cases frame_pure msg ctx <;> rfl
  | prehashSign p fuel sk phm ctx h ph =>
    simp only [apiRun, lower, mldsa_prehash_sign]
    cases frame_prehash phm ctx ph <;> rfl
  | verify p pk msg sig ctx =>
    simp only [apiRun, lower, mldsa_verify]
    by_cases hl : sig.length ≠ p.sigBytes
    · rw [if_pos hl, if_pos hl]; rfl
    · rw [if_neg hl, if_neg hl]
      cases frame_pure msg ctx <;> rfl
  | prehashVerify p pk phm sig ctx ph =>
    simp only [apiRun, lower, mldsa_prehash_verify]
    by_cases hl : sig.length ≠ p.sigBytes
    · rw [if_pos hl, if_pos hl]; rfl
    · rw [if_neg hl, if_neg hl]
      cases frame_prehash phm ctx ph <;> rfl
  | dilSign p fuel sk msg =>
    simp only [apiRun, lower, run, dil_sign]
    rw [C05.signature_det, C05.signature_det]
    cases C05.signature_with p fuel msg sk none <;> rfl
  | dilVerify p pk msg sig =>
    simp only [apiRun, lower, dil_verify]
    by_cases hl : sig.length ≠ p.sigBytes
    · rw [if_pos hl, if_pos hl]; rfl
    · rw [if_neg hl, if_neg hl]; rfl

/-- RNG bytes an API call requests: those of the raw operation it comes down to; none when it is answered at once -/
def apiDraws (op : ApiOp) : Nat :=
  match lower op with
  | .inl _ => 0
  | .inr r => draws r

/-- the result of an API call as a function of the bytes it is given -/
def apiRunWith (bytes : List Nat) (op : ApiOp) : Chk Out :=
  match lower op with
  | .inl o => .ok o
  | .inr r => runWith bytes r

/-- one API call consumes exactly `apiDraws` bytes from the front of the tape and its output is a function of
    exactly those bytes (and of the explicit arguments) -/
theorem api_run_spec (t : Tape) (op : ApiOp) (hp : ∀ p e, op = .generate p e → p ∈ allParams) (h : apiDraws op ≤ t.length) :
    apiRun t op = (apiRunWith (t.take (apiDraws op)) op).map (fun o => (o, t.drop (apiDraws op))) := by
  rw [apiRun_lower t op hp]
  unfold apiDraws apiRunWith at *
  cases hl : lower op with
  | inl o => simp only [List.drop_zero]; rfl
  | inr r => rw [hl] at h; simp only at h ⊢; exact run_spec t r h

/-- amounts at the API: hedged ML-DSA signing (pure or pre-hash) with a context of at most 255 bytes draws 32 bytes;
    with a longer context nothing is drawn (the call answers `None` first); deterministic signing, Dilithium signing
    through the API and every verification draw nothing -/
theorem api_amounts (p : Params) (hm : p.mldsa = true) (fuel : Nat) (sk pk msg sig : List Nat) (ctx : Option (List Nat)) (ph : PH) :
    ((∀ c, ctx = some c → c.length ≤ 255) → apiDraws (.sign p fuel sk msg ctx true) = 32 ∧ apiDraws (.prehashSign p fuel sk msg ctx true ph) = 32) ∧
    ((∃ c, ctx = some c ∧ c.length > 255) → apiDraws (.sign p fuel sk msg ctx true) = 0 ∧ apiDraws (.prehashSign p fuel sk msg ctx true ph) = 0) ∧
    apiDraws (.sign p fuel sk msg ctx false) = 0 ∧ apiDraws (.prehashSign p fuel sk msg ctx false ph) = 0 ∧
    apiDraws (.verify p pk msg sig ctx) = 0 ∧ apiDraws (.prehashVerify p pk msg sig ctx ph) = 0 ∧
    apiDraws (.dilSign p fuel sk msg) = 0 ∧ apiDraws (.dilVerify p pk msg sig) = 0 := by
  have hS : SEEDBYTES = 32 := by decide
  refine ⟨?_, ?_, ?_, ?_, ?_, ?_, ?_, ?_⟩
  · intro hc
    cases ctx with
    | none => simp [apiDraws, lower, frame_pure, frame_prehash, draws, C05.drawn, hm, hS]
    | some c =>
      have := hc c rfl
      have h' : ¬ c.length > 255 := by omega
      simp [apiDraws, lower, frame_pure, frame_prehash, draws, C05.drawn, hm, hS, h']
  · rintro ⟨c, rfl, hc⟩
    simp [apiDraws, lower, frame_pure, frame_prehash, hc]
  · cases h : frame_pure msg ctx <;> simp [apiDraws, lower, h, draws, C05.drawn]
  · cases h : frame_prehash msg ctx ph <;> simp [apiDraws, lower, h, draws, C05.drawn]
  · by_cases hl : sig.length ≠ p.sigBytes
    · simp [apiDraws, lower, hl]
    · cases h : frame_pure msg ctx <;> simp [apiDraws, lower, hl, h, draws]
  · by_cases hl : sig.length ≠ p.sigBytes
    · simp [apiDraws, lower, hl]
    · cases h : frame_prehash msg ctx ph <;> simp [apiDraws, lower, hl, h, draws]
  · simp [apiDraws, lower, draws, C05.drawn]
  · by_cases hl : sig.length ≠ p.sigBytes <;> simp [apiDraws, lower, hl, draws]

end DV.C09
