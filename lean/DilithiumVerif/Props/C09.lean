import DilithiumVerif.Props.C05
import DilithiumVerif.Props.C04
/-
  C09 — Randomness discipline.  The library as a machine over an RNG tape (the unread bytes of
  `rand::thread_rng()`): which operations draw, how many bytes, in which order, and how they enter.
  That the tape really is fresh OS-seeded CSPRNG output is `rand`'s contract (trusted, not modelled).
-/
namespace DV.C09
open DV

inductive Op where
  | keygen (p : Params) (seed : Option (List Nat))
  | sign (p : Params) (fuel : Nat) (msg sk : List Nat) (randomized : Bool)
  | verify (p : Params) (sig msg pk : List Nat)

inductive Out where
  | keys (pk sk : List Nat)
  | sig (s : Option (List Nat))
  | verdict (b : Bool)

/-- number of RNG bytes an operation requests -/
def draws : Op → Nat
  | .keygen _ none => SEEDBYTES
  | .keygen _ (some _) => 0
  | .sign p _ _ _ r => C05.drawn p r
  | .verify .. => 0

def run (t : Tape) : Op → Chk (Out × Tape)
  | .keygen p seed => (keypair p seed t).map (fun r => (.keys r.1 r.2.1, r.2.2))
  | .sign p fuel msg sk r => (signature p fuel msg sk r t).map (fun x => (.sig x.1, x.2))
  | .verify p sig msg pk => (verify p sig msg pk).map (fun b => (.verdict b, t))

/-- the result of an operation as a function of the bytes it is given (the specification's interface) -/
def runWith (bytes : List Nat) : Op → Chk Out
  | .keygen p none => (keypair p (some bytes) []).map (fun r => .keys r.1 r.2.1)
  | .keygen p (some s) => (keypair p (some s) []).map (fun r => .keys r.1 r.2.1)
  | .sign p fuel msg sk true => (C05.signature_with p fuel msg sk (some bytes)).map .sig
  | .sign p fuel msg sk false => (C05.signature_with p fuel msg sk none).map .sig
  | .verify p sig msg pk => (verify p sig msg pk).map .verdict

theorem keypair_tape_irrelevant (p : Params) (s : List Nat) (t : Tape) :
    keypair p (some s) t = (keypair p (some s) []).map (fun r => (r.1, r.2.1, t)) := by
  unfold keypair
  by_cases hl : s.length = SEEDBYTES
  · simp only [hl, if_true, ok_bind, map_bind_chk, map_ok_chk]
  · simp only [hl, if_false, err_bind]; rfl

/-- One step: an operation consumes exactly `draws op` bytes from the front of the tape (none for seeded key
    generation, deterministic signing and verification) and its output is the specification's function of exactly
    those bytes. -/
theorem run_spec (t : Tape) (op : Op) (h : draws op ≤ t.length) :
    run t op = (runWith (t.take (draws op)) op).map (fun o => (o, t.drop (draws op))) := by
  cases op with
  | keygen p seed =>
    cases seed with
    | none =>
      simp only [run, runWith, draws] at h ⊢
      rw [C04.keypair_unseeded p t h, keypair_tape_irrelevant]
      cases keypair p (some (List.take SEEDBYTES t)) [] <;> rfl
    | some s =>
      simp only [run, runWith, draws, List.drop_zero]
      rw [keypair_tape_irrelevant]
      cases keypair p (some s) [] <;> rfl
  | sign p fuel msg sk r =>
    cases r with
    | false =>
      simp only [run, runWith, draws, C05.drawn, Bool.false_eq_true, if_false, List.drop_zero]
      rw [C05.signature_det]
      cases C05.signature_with p fuel msg sk none <;> rfl
    | true =>
      simp only [run, runWith, draws] at h ⊢
      rw [C05.signature_rand p fuel msg sk t h]
      cases C05.signature_with p fuel msg sk (some (List.take (C05.drawn p true) t)) <;> rfl
  | verify p sig msg pk =>
    simp only [run, runWith, draws, List.drop_zero]
    cases verify p sig msg pk <;> rfl

/-- running a sequence of operations -/
def runAll : Tape → List Op → Chk (List Out × Tape)
  | t, [] => .ok ([], t)
  | t, op :: ops => do
      let (o, t') ← run t op
      let (os, t'') ← runAll t' ops
      .ok (o :: os, t'')

def totalDraws (ops : List Op) : Nat := (ops.map draws).foldl (· + ·) 0

theorem foldl_add_shift (l : List Nat) (a : Nat) : l.foldl (· + ·) a = a + l.foldl (· + ·) 0 := by
  induction l generalizing a with
  | nil => simp
  | cons x xs ih => simp only [List.foldl_cons, Nat.zero_add]; rw [ih (a + x), ih x]; omega

/-- Over any call sequence the bytes consumed are exactly the sum of the per-operation amounts, taken from the
    tape in call order: the remaining tape is the original one with that many bytes removed. -/
theorem runAll_tape (ops : List Op) : ∀ (t : Tape) (outs : List Out) (t' : Tape),
    totalDraws ops ≤ t.length → runAll t ops = .ok (outs, t') → t' = t.drop (totalDraws ops) ∧ outs.length = ops.length := by
  induction ops with
  | nil => intro t outs t' _ h; simp [runAll] at h; obtain ⟨rfl, rfl⟩ := h; simp [totalDraws]
  | cons op ops ih =>
    intro t outs t' hlen h
    have hsplit : totalDraws (op :: ops) = draws op + totalDraws ops := by
      simp only [totalDraws, List.map_cons, List.foldl_cons, Nat.zero_add]; exact foldl_add_shift _ _
    rw [hsplit] at hlen
    unfold runAll at h
    obtain ⟨⟨o, t1⟩, h1, h⟩ := bind_eq_ok.mp h
    obtain ⟨⟨os, t2⟩, h2, h⟩ := bind_eq_ok.mp h
    injection h with h; injection h with ho ht; subst ho; subst ht
    rw [run_spec t op (by omega)] at h1
    cases hr : runWith (t.take (draws op)) op with
    | error e => rw [hr] at h1; cases h1
    | ok o' =>
      rw [hr] at h1; simp only [map_ok_chk] at h1
      injection h1 with h1; injection h1 with _ ht1
      have hl : totalDraws ops ≤ t1.length := by rw [← ht1, List.length_drop]; omega
      obtain ⟨e1, e2⟩ := ih t1 os t2 hl h2
      refine ⟨?_, by simp [e2]⟩
      rw [e1, ← ht1, List.drop_drop, hsplit]

/-- amounts: 32 bytes per unseeded key generation, 32 per hedged ML-DSA signature, 64 per randomized Dilithium
    signature, nothing otherwise -/
theorem amounts (p : Params) (fuel : Nat) (m sk sig pk s : List Nat) :
    draws (.keygen p none) = 32 ∧ draws (.keygen p (some s)) = 0 ∧ draws (.sign p fuel m sk false) = 0 ∧
    draws (.verify p sig m pk) = 0 ∧ draws (.sign p fuel m sk true) = (if p.mldsa then 32 else 64) := by
  refine ⟨rfl, rfl, rfl, rfl, ?_⟩
  simp only [draws, C05.drawn, if_true]; split <;> rfl

end DV.C09
