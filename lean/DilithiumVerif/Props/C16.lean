import DilithiumVerif.Impl.Packing
import DilithiumVerif.Lemmas.CodecsFull
import DilithiumVerif.Lemmas.Containers
/-
  C16 — Bit-packing is the specification's encoding and is lossless.
  Round trips are proved on the faithful Impl forms (i32 shifts/ORs/casts), per group of coefficients.
-/
namespace DV.C16
open DV

/-- standard sizes, re-checked on the constants generated from /repo -/
theorem sizes : ∀ p ∈ allParams,
    p.pkBytes = SEEDBYTES + p.k * POLYT1 ∧
    p.skBytes = 2 * SEEDBYTES + p.trBytes + (p.k + p.l) * p.polyeta + p.k * POLYT0 ∧
    p.sigBytes = p.ctilde + p.l * p.polyz + p.omega + p.k := by decide

/-- t1 codec, one group: decoding the 5 bytes emitted for 4 coefficients in [0, 2^10) returns them -/
theorem t1_group (c0 c1 c2 c3 : Int) (h0 : 0 ≤ c0 ∧ c0 < 1024) (h1 : 0 ≤ c1 ∧ c1 < 1024)
    (h2 : 0 ≤ c2 ∧ c2 < 1024) (h3 : 0 ≤ c3 ∧ c3 < 1024) :
    t1_unpack_group (t1_pack_group [c0, c1, c2, c3]) = [c0, c1, c2, c3]
    ∧ (t1_pack_group [c0, c1, c2, c3]).length = 5 :=
  ⟨t1_group_roundtrip c0 c1 c2 c3 h0 h1 h2 h3, rfl⟩

/-- t0 codec, one group: 8 coefficients in (−2^12, 2^12] ↔ 13 bytes, no overflow in either direction -/
theorem t0_group (c0 c1 c2 c3 c4 c5 c6 c7 : Int)
    (h0 : -4096 < c0 ∧ c0 ≤ 4096) (h1 : -4096 < c1 ∧ c1 ≤ 4096) (h2 : -4096 < c2 ∧ c2 ≤ 4096) (h3 : -4096 < c3 ∧ c3 ≤ 4096)
    (h4 : -4096 < c4 ∧ c4 ≤ 4096) (h5 : -4096 < c5 ∧ c5 ≤ 4096) (h6 : -4096 < c6 ∧ c6 ≤ 4096) (h7 : -4096 < c7 ∧ c7 ≤ 4096) :
    (t0_pack_group [c0, c1, c2, c3, c4, c5, c6, c7] >>= t0_unpack_group) = .ok [c0, c1, c2, c3, c4, c5, c6, c7] :=
  t0_group_roundtrip c0 c1 c2 c3 c4 c5 c6 c7 h0 h1 h2 h3 h4 h5 h6 h7

/-! ### whole polynomials (256 coefficients): standard length and lossless round trip, every in-range input -/

/-- t1 (10 bits): 320 bytes, decode ∘ encode = id on [0, 2^10)^256 -/
theorem t1_codec (a : List Int) (hl : a.length = 256) (ha : ∀ x ∈ a, 0 ≤ x ∧ x < 1024) :
    (t1_pack a).length = 320 ∧ t1_unpack (t1_pack a) = .ok a :=
  ⟨t1_pack_length a hl, t1_roundtrip a hl ha⟩

/-- t0 (13 bits): 416 bytes, on (−2^12, 2^12]^256, no arithmetic overflow in either direction -/
theorem t0_codec (a : List Int) (hl : a.length = 256) (ha : ∀ x ∈ a, -4096 < x ∧ x ≤ 4096) :
    ∃ b, t0_pack a = .ok b ∧ b.length = 416 ∧ t0_unpack b = .ok a := t0_roundtrip a hl ha

/-- η-bounded secrets: η = 2 (3 bits, 96 bytes; lvl2 and lvl5 copies), η = 4 (4 bits, 128 bytes; lvl3 copy) -/
theorem eta_codec_2 (lv : Lvl) (hlv : lv = .l2 ∨ lv = .l5) (a : List Int) (hl : a.length = 256) (ha : ∀ x ∈ a, -2 ≤ x ∧ x ≤ 2) :
    ∃ b, eta_pack lv a = .ok b ∧ b.length = 96 ∧ eta_unpack lv b = .ok a := eta2_roundtrip lv hlv a hl ha
theorem eta_codec_4 (a : List Int) (hl : a.length = 256) (ha : ∀ x ∈ a, -4 ≤ x ∧ x ≤ 4) :
    ∃ b, eta_pack .l3 a = .ok b ∧ b.length = 128 ∧ eta_unpack .l3 b = .ok a := eta4_roundtrip a hl ha

/-- γ1-bounded response: γ1 = 2^17 (18 bits, 576 bytes; lvl2 copy), γ1 = 2^19 (20 bits, 640 bytes; lvl3, lvl5 copies),
    on the full specification range (−γ1, γ1] -/
theorem z_codec_17 (a : List Int) (hl : a.length = 256) (ha : ∀ x ∈ a, -131072 < x ∧ x ≤ 131072) :
    ∃ b, z_pack .l2 a = .ok b ∧ b.length = 576 ∧ z_unpack .l2 b = .ok a := z17_roundtrip a hl ha
theorem z_codec_19 (lv : Lvl) (hlv : lv = .l3 ∨ lv = .l5) (a : List Int) (hl : a.length = 256)
    (ha : ∀ x ∈ a, -524288 < x ∧ x ≤ 524288) :
    ∃ b, z_pack lv a = .ok b ∧ b.length = 640 ∧ z_unpack lv b = .ok a := z19_roundtrip lv hlv a hl ha

/-- the six parameter sets use exactly these copies with these ranges -/
theorem codec_params : ∀ p ∈ allParams,
    (p.eta = 2 ∧ (p.lvl = .l2 ∨ p.lvl = .l5) ∧ p.polyeta = 96 ∨ p.eta = 4 ∧ p.lvl = .l3 ∧ p.polyeta = 128) ∧
    (p.gamma1 = 131072 ∧ p.lvl = .l2 ∧ p.polyz = 576 ∨ p.gamma1 = 524288 ∧ (p.lvl = .l3 ∨ p.lvl = .l5) ∧ p.polyz = 640) := by
  decide

example : t1_unpack_group (t1_pack_group [1023, 0, 513, 1]) = [1023, 0, 513, 1] := by decide

/-! ## Containers: unpack ∘ pack = id (byte layout, offsets and the hint section) -/

open DV.Containers DV.HintCodec in
/-- public key: ρ ‖ t1Encode(t1) has PUBLICKEYBYTES − (its formula) bytes and decodes to (ρ, t1) -/
theorem pk_roundtrip (p : Params) (rho : List Nat) (t1 : PolyVec) (hr : rho.length = SEEDBYTES) (hl : t1.length = p.k)
    (ht : ∀ a ∈ t1, a.length = 256 ∧ ∀ x ∈ a, 0 ≤ x ∧ x < 1024) :
    ∃ pk, pack_pk p rho t1 = .ok pk ∧ pk.length = SEEDBYTES + p.k * POLYT1 ∧ unpack_pk p pk = .ok (rho, t1) :=
  unpack_pack_pk p rho t1 hr hl ht

open DV.Containers in
/-- secret key: ρ ‖ K ‖ tr ‖ s1 ‖ s2 ‖ t0 decodes to the six parts (η per level: 2, 4, 2) -/
theorem sk_roundtrip (p : Params) (hp : p ∈ allParams) (rho tr key : List Nat) (t0 s1 s2 : PolyVec)
    (hr : rho.length = SEEDBYTES) (hk : key.length = SEEDBYTES) (htr : tr.length = p.trBytes)
    (hl1 : s1.length = p.l) (hl2 : s2.length = p.k) (hl0 : t0.length = p.k)
    (h1 : ∀ a ∈ s1, a.length = 256 ∧ ∀ x ∈ a, -(etaB p.lvl) ≤ x ∧ x ≤ etaB p.lvl)
    (h2 : ∀ a ∈ s2, a.length = 256 ∧ ∀ x ∈ a, -(etaB p.lvl) ≤ x ∧ x ≤ etaB p.lvl)
    (h0 : ∀ a ∈ t0, a.length = 256 ∧ ∀ x ∈ a, -4096 < x ∧ x ≤ 4096) :
    ∃ sk, pack_sk p rho tr key t0 s1 s2 = .ok sk ∧ unpack_sk p sk = .ok (rho, tr, key, t0, s1, s2) :=
  unpack_pack_sk p hp rho tr key t0 s1 s2 hr hk htr hl1 hl2 hl0 h1 h2 h0

open DV.Containers DV.HintCodec in
/-- signature: c̃ ‖ z ‖ hints written into a zeroed SIGNBYTES buffer has SIGNBYTES bytes and decodes — with the hint
    decoder accepting — to exactly (c̃, z, h), for every z in (−γ1, γ1] and every 0/1 hint vector with at most ω ones
    (`idxOf h` = the index list that gets written). -/
theorem sig_roundtrip (p : Params) (hp : p ∈ allParams) (ct : List Nat) (z h : PolyVec) (hct : ct.length = p.ctilde)
    (hzl : z.length = p.l) (hz : ∀ a ∈ z, a.length = 256 ∧ ∀ x ∈ a, -(gamma1Of p.lvl) < x ∧ x ≤ gamma1Of p.lvl)
    (hhl : h.length = p.k) (hh : ∀ a ∈ h, Bits a) (hw : (idxOf h).length ≤ p.omega) :
    ∃ sig, pack_sig p (ct ++ List.replicate (p.sigBytes - p.ctilde) 0) none z h = .ok sig ∧ sig.length = p.sigBytes ∧
      unpack_sig p sig = .ok (true, ct, z, h) :=
  unpack_pack_sig p hp ct z h hct hzl hz hhl hh hw

open DV.HintCodec in
/-- the hint section by itself (FIPS 204 Alg. 20/21): what the packing loops write, and that the decoding loops return
    the vector it was written from -/
theorem hint_section_roundtrip (omega : Nat) (ho : omega ≤ 255) (h : List Poly) (hb : ∀ hp ∈ h, Bits hp) (hw : (idxOf h).length ≤ omega) :
    hint_area_go omega h 0 0 (List.replicate (omega + h.length) 0)
      = .ok (idxOf h ++ List.replicate (omega - (idxOf h).length) 0 ++ cumsOf 0 h) ∧
    unpack_hints_go omega (idxOf h ++ List.replicate (omega - (idxOf h).length) 0 ++ cumsOf 0 h) h.length 0 0 [] = .ok (some h) := by
  constructor
  · have := pack_hints omega ho h 0 0 [] [] rfl rfl (by omega) (fun a ha => (hb a ha).1)
    simpa [List.replicate_append_replicate] using this
  · have := unpack_hints omega ho h 0 0 [] [] [] rfl rfl (by omega) hb
    simpa using this

end DV.C16
