import DilithiumVerif.Impl.Packing
import DilithiumVerif.Lemmas.CodecsFull
import DilithiumVerif.Lemmas.Containers
import DilithiumVerif.Lemmas.EncodeSpec
import DilithiumVerif.Lemmas.DecodeSpec
/-
  C16 — Bit-packing is the specification's encoding and is lossless.
  Round trips are proved on the faithful Impl forms (i32 shifts/ORs/casts), per group of coefficients.
-/
namespace DV.C16
open DV

/-- standard sizes, re-checked on the constants generated from /repo -/
theorem sizes : ∀ p ∈ allParams,
    p.pkBytes = SEEDBYTES + p.k * POLYT1 ∧
    p.skBytes = 2 * SEEDBYTES + p.trBytes + (p.k + p.l) * p.polyeta + p.k * POLYT0 ∧
    p.sigBytes = p.ctilde + p.l * p.polyz + p.omega + p.k := by decide

/-- t1 codec, one group: decoding the 5 bytes emitted for 4 coefficients in [0, 2^10) returns them -/
theorem t1_group (c0 c1 c2 c3 : Int) (h0 : 0 ≤ c0 ∧ c0 < 1024) (h1 : 0 ≤ c1 ∧ c1 < 1024)
    (h2 : 0 ≤ c2 ∧ c2 < 1024) (h3 : 0 ≤ c3 ∧ c3 < 1024) :
    t1_unpack_group (t1_pack_group [c0, c1, c2, c3]) = [c0, c1, c2, c3]
    ∧ (t1_pack_group [c0, c1, c2, c3]).length = 5 :=
  ⟨t1_group_roundtrip c0 c1 c2 c3 h0 h1 h2 h3, rfl⟩

/-- t0 codec, one group: 8 coefficients in (−2^12, 2^12] ↔ 13 bytes, no overflow in either direction -/
theorem t0_group (c0 c1 c2 c3 c4 c5 c6 c7 : Int)
    (h0 : -4096 < c0 ∧ c0 ≤ 4096) (h1 : -4096 < c1 ∧ c1 ≤ 4096) (h2 : -4096 < c2 ∧ c2 ≤ 4096) (h3 : -4096 < c3 ∧ c3 ≤ 4096)
    (h4 : -4096 < c4 ∧ c4 ≤ 4096) (h5 : -4096 < c5 ∧ c5 ≤ 4096) (h6 : -4096 < c6 ∧ c6 ≤ 4096) (h7 : -4096 < c7 ∧ c7 ≤ 4096) :
    (t0_pack_group [c0, c1, c2, c3, c4, c5, c6, c7] >>= t0_unpack_group) = .ok [c0, c1, c2, c3, c4, c5, c6, c7] :=
  t0_group_roundtrip c0 c1 c2 c3 c4 c5 c6 c7 h0 h1 h2 h3 h4 h5 h6 h7

/-! ### whole polynomials (256 coefficients): standard length and lossless round trip, every in-range input -/

/-- t1 (10 bits): 320 bytes, decode ∘ encode = id on [0, 2^10)^256 -/
theorem t1_codec (a : List Int) (hl : a.length = 256) (ha : ∀ x ∈ a, 0 ≤ x ∧ x < 1024) :
    (t1_pack a).length = 320 ∧ t1_unpack (t1_pack a) = .ok a :=
  ⟨t1_pack_length a hl, t1_roundtrip a hl ha⟩

/-- t0 (13 bits): 416 bytes, on (−2^12, 2^12]^256, no arithmetic overflow in either direction -/
theorem t0_codec (a : List Int) (hl : a.length = 256) (ha : ∀ x ∈ a, -4096 < x ∧ x ≤ 4096) :
    ∃ b, t0_pack a = .ok b ∧ b.length = 416 ∧ t0_unpack b = .ok a := t0_roundtrip a hl ha

/-- η-bounded secrets: η = 2 (3 bits, 96 bytes; lvl2 and lvl5 copies), η = 4 (4 bits, 128 bytes; lvl3 copy) -/
theorem eta_codec_2 (lv : Lvl) (hlv : lv = .l2 ∨ lv = .l5) (a : List Int) (hl : a.length = 256) (ha : ∀ x ∈ a, -2 ≤ x ∧ x ≤ 2) :
    ∃ b, eta_pack lv a = .ok b ∧ b.length = 96 ∧ eta_unpack lv b = .ok a := eta2_roundtrip lv hlv a hl ha
theorem eta_codec_4 (a : List Int) (hl : a.length = 256) (ha : ∀ x ∈ a, -4 ≤ x ∧ x ≤ 4) :
    ∃ b, eta_pack .l3 a = .ok b ∧ b.length = 128 ∧ eta_unpack .l3 b = .ok a := eta4_roundtrip a hl ha

/-- γ1-bounded response: γ1 = 2^17 (18 bits, 576 bytes; lvl2 copy), γ1 = 2^19 (20 bits, 640 bytes; lvl3, lvl5 copies),
    on the full specification range (−γ1, γ1] -/
theorem z_codec_17 (a : List Int) (hl : a.length = 256) (ha : ∀ x ∈ a, -131072 < x ∧ x ≤ 131072) :
    ∃ b, z_pack .l2 a = .ok b ∧ b.length = 576 ∧ z_unpack .l2 b = .ok a := z17_roundtrip a hl ha
theorem z_codec_19 (lv : Lvl) (hlv : lv = .l3 ∨ lv = .l5) (a : List Int) (hl : a.length = 256)
    (ha : ∀ x ∈ a, -524288 < x ∧ x ≤ 524288) :
    ∃ b, z_pack lv a = .ok b ∧ b.length = 640 ∧ z_unpack lv b = .ok a := z19_roundtrip lv hlv a hl ha

/-- the six parameter sets use exactly these copies with these ranges -/
theorem codec_params : ∀ p ∈ allParams,
    (p.eta = 2 ∧ (p.lvl = .l2 ∨ p.lvl = .l5) ∧ p.polyeta = 96 ∨ p.eta = 4 ∧ p.lvl = .l3 ∧ p.polyeta = 128) ∧
    (p.gamma1 = 131072 ∧ p.lvl = .l2 ∧ p.polyz = 576 ∨ p.gamma1 = 524288 ∧ (p.lvl = .l3 ∨ p.lvl = .l5) ∧ p.polyz = 640) := by
  decide

example : t1_unpack_group (t1_pack_group [1023, 0, 513, 1]) = [1023, 0, 513, 1] := by decide

/-! ## Containers: unpack ∘ pack = id (byte layout, offsets and the hint section) -/

open DV.Containers DV.HintCodec in
/-- public key: ρ ‖ t1Encode(t1) has PUBLICKEYBYTES − (its formula) bytes and decodes to (ρ, t1) -/
theorem pk_roundtrip (p : Params) (rho : List Nat) (t1 : PolyVec) (hr : rho.length = SEEDBYTES) (hl : t1.length = p.k)
    (ht : ∀ a ∈ t1, a.length = 256 ∧ ∀ x ∈ a, 0 ≤ x ∧ x < 1024) :
    ∃ pk, pack_pk p rho t1 = .ok pk ∧ pk.length = SEEDBYTES + p.k * POLYT1 ∧ unpack_pk p pk = .ok (rho, t1) :=
  unpack_pack_pk p rho t1 hr hl ht

open DV.Containers in
/-- secret key: ρ ‖ K ‖ tr ‖ s1 ‖ s2 ‖ t0 decodes to the six parts (η per level: 2, 4, 2) -/
theorem sk_roundtrip (p : Params) (hp : p ∈ allParams) (rho tr key : List Nat) (t0 s1 s2 : PolyVec)
    (hr : rho.length = SEEDBYTES) (hk : key.length = SEEDBYTES) (htr : tr.length = p.trBytes)
    (hl1 : s1.length = p.l) (hl2 : s2.length = p.k) (hl0 : t0.length = p.k)
    (h1 : ∀ a ∈ s1, a.length = 256 ∧ ∀ x ∈ a, -(etaB p.lvl) ≤ x ∧ x ≤ etaB p.lvl)
    (h2 : ∀ a ∈ s2, a.length = 256 ∧ ∀ x ∈ a, -(etaB p.lvl) ≤ x ∧ x ≤ etaB p.lvl)
    (h0 : ∀ a ∈ t0, a.length = 256 ∧ ∀ x ∈ a, -4096 < x ∧ x ≤ 4096) :
    ∃ sk, pack_sk p rho tr key t0 s1 s2 = .ok sk ∧ unpack_sk p sk = .ok (rho, tr, key, t0, s1, s2) :=
  unpack_pack_sk p hp rho tr key t0 s1 s2 hr hk htr hl1 hl2 hl0 h1 h2 h0

open DV.Containers DV.HintCodec in
/-- signature: c̃ ‖ z ‖ hints written into a zeroed SIGNBYTES buffer has SIGNBYTES bytes and decodes — with the hint
    decoder accepting — to exactly (c̃, z, h), for every z in (−γ1, γ1] and every 0/1 hint vector with at most ω ones
    (`idxOf h` = the index list that gets written). -/
theorem sig_roundtrip (p : Params) (hp : p ∈ allParams) (ct : List Nat) (z h : PolyVec) (hct : ct.length = p.ctilde)
    (hzl : z.length = p.l) (hz : ∀ a ∈ z, a.length = 256 ∧ ∀ x ∈ a, -(gamma1Of p.lvl) < x ∧ x ≤ gamma1Of p.lvl)
    (hhl : h.length = p.k) (hh : ∀ a ∈ h, Bits a) (hw : (idxOf h).length ≤ p.omega) :
    ∃ sig, pack_sig p (ct ++ List.replicate (p.sigBytes - p.ctilde) 0) none z h = .ok sig ∧ sig.length = p.sigBytes ∧
      unpack_sig p sig = .ok (true, ct, z, h) :=
  unpack_pack_sig p hp ct z h hct hzl hz hhl hh hw

open DV.HintCodec in
/-- the hint section by itself (FIPS 204 Alg. 20/21): what the packing loops write, and that the decoding loops return
    the vector it was written from -/
theorem hint_section_roundtrip (omega : Nat) (ho : omega ≤ 255) (h : List Poly) (hb : ∀ hp ∈ h, Bits hp) (hw : (idxOf h).length ≤ omega) :
    hint_area_go omega h 0 0 (List.replicate (omega + h.length) 0)
      = .ok (idxOf h ++ List.replicate (omega - (idxOf h).length) 0 ++ cumsOf 0 h) ∧
    unpack_hints_go omega (idxOf h ++ List.replicate (omega - (idxOf h).length) 0 ++ cumsOf 0 h) h.length 0 0 [] = .ok (some h) := by
  constructor
  · have := pack_hints omega ho h 0 0 [] [] rfl rfl (by omega) (fun a ha => (hb a ha).1)
    simpa [List.replicate_append_replicate] using this
  · have := unpack_hints omega ho h 0 0 [] [] [] rfl rfl (by omega) hb
    simpa using this

/-! ### "is the specification's encoding": FIPS 204 §7.1 bit strings (IntegerToBits, BitsToBytes, SimpleBitPack, BitPack)

`BitSpec.intToBits x α` is Alg. 9 (α low bits, least significant first), `BitSpec.bitsToBytes` is Alg. 12 on a bit
string whose length is a multiple of 8 (bit 8i + j has weight 2^j in byte i), `simpleBitPack w b` packs every w_i with
`b` bits (Alg. 16), `bitPack w b bits` packs b − w_i (Alg. 17). -/

open DV.BitSpec DV.EncodeSpec DV.Containers in
/-- every coefficient encoder of the crate, on every polynomial in its range, emits exactly the specification's
    little-endian bit-packed bytes: t1 = SimpleBitPack(·, 10 bits), t0 = BitPack(·, 2^12 − 1, 2^12) on 13 bits,
    η-secrets = BitPack(·, η, η) on 3 / 4 bits, z = BitPack(·, γ1 − 1, γ1) on 18 / 20 bits, w1 = SimpleBitPack on 6 / 4 bits;
    the length is 32·bits bytes -/
theorem encoders_are_fips204_bitpack (lv : Lvl) (a : List Int) (hl : a.length = 256) :
    ((∀ x ∈ a, 0 ≤ x ∧ x < 1024) → t1_pack a = simpleBitPack (a.map Int.toNat) 10) ∧
    ((∀ x ∈ a, -4096 < x ∧ x ≤ 4096) → t0_pack a = .ok (bitPack a 4096 13)) ∧
    ((∀ x ∈ a, -(etaB lv) ≤ x ∧ x ≤ etaB lv) → eta_pack lv a = .ok (bitPack a (etaB lv) (etaBits lv))) ∧
    ((∀ x ∈ a, -(gamma1Of lv) < x ∧ x ≤ gamma1Of lv) → z_pack lv a = .ok (bitPack a (gamma1Of lv) (zBits lv))) ∧
    ((∀ x ∈ a, 0 ≤ x ∧ x < w1Card lv) → w1_pack lv a = simpleBitPack (a.map Int.toNat) (w1Bits lv)) ∧
    (∀ bits, (simpleBitPack (a.map Int.toNat) bits).length = 32 * bits) :=
  ⟨t1_pack_spec a hl, t0_pack_spec a hl, eta_pack_spec lv a hl, z_pack_spec lv a hl, w1_pack_spec lv a hl,
   fun bits => simpleBitPack_length _ bits (by rw [List.length_map, hl])⟩

open DV.BitSpec in
/-- the bit-string functions on a concrete value (a test of the definitions, not the theorem): 0x2A5 on 10 bits and the
    two-coefficient 4-bit packing of FIPS 204's w1 -/
example : intToBits 0x2A5 10 = [1, 0, 1, 0, 0, 1, 0, 1, 0, 1] ∧ simpleBitPack [3, 12] 4 = [0xC3] ∧
    bitPack [2, -2, 0, 1, -1, 2, 2, 2] 2 3 = [0xA0, 0x32, 0x00] := by decide

open DV.EncodeSpec DV.Containers DV.HintCodec in
/-- the three containers and the commitment encoding are pkEncode / skEncode / sigEncode / w1Encode (FIPS 204 Alg. 22,
    24, 26, 28): concatenations of the seeds with the bit-packed polynomials, the signature ending in HintBitPack(h)
    (Alg. 20: indices of the non-zero hint coefficients, zero padding up to ω, the k running totals) -/
theorem containers_are_fips204_encodings (p : Params) (hp : p ∈ allParams) :
    (∀ rho t1, rho.length = SEEDBYTES → (∀ a ∈ t1, a.length = 256 ∧ ∀ x ∈ a, 0 ≤ x ∧ x < 1024) →
        pack_pk p rho t1 = .ok (pkEncode rho t1)) ∧
    (∀ rho tr key t0 s1 s2, rho.length = SEEDBYTES → key.length = SEEDBYTES → tr.length = p.trBytes →
        (∀ a ∈ s1, a.length = 256 ∧ ∀ x ∈ a, -(etaB p.lvl) ≤ x ∧ x ≤ etaB p.lvl) →
        (∀ a ∈ s2, a.length = 256 ∧ ∀ x ∈ a, -(etaB p.lvl) ≤ x ∧ x ≤ etaB p.lvl) →
        (∀ a ∈ t0, a.length = 256 ∧ ∀ x ∈ a, -4096 < x ∧ x ≤ 4096) →
        pack_sk p rho tr key t0 s1 s2 = .ok (skEncode p.lvl rho key tr s1 s2 t0)) ∧
    (∀ buf ct z h, buf.length = p.sigBytes → ct.length = p.ctilde →
        (∀ a ∈ z, a.length = 256 ∧ ∀ x ∈ a, -(gamma1Of p.lvl) < x ∧ x ≤ gamma1Of p.lvl) →
        h.length = p.k → (∀ a ∈ h, a.length = 256) → (idxOf h).length ≤ p.omega →
        pack_sig p buf (some ct) z h = .ok (sigEncode p.lvl p.omega ct z h)) ∧
    (∀ w1, (∀ a ∈ w1, a.length = 256 ∧ ∀ x ∈ a, 0 ≤ x ∧ x < w1Card p.lvl) → k_pack_w1 p.lvl w1 = w1Encode p.lvl w1) :=
  ⟨fun rho t1 => pack_pk_spec p rho t1,
   fun rho tr key t0 s1 s2 => pack_sk_spec p rho tr key t0 s1 s2,
   fun buf ct z h => pack_sig_spec p hp buf ct z h,
   fun w1 => k_pack_w1_spec p.lvl w1⟩

/-- the per-set parameters of the encodings are the standard's: η and its bit length, γ1 and bitlen(2γ1 − 1),
    (q − 1)/(2γ2) and bitlen of its predecessor -/
theorem encoding_params : ∀ p ∈ allParams,
    (DV.Containers.etaB p.lvl = p.eta ∧ 2 * p.eta < 2 ^ DV.EncodeSpec.etaBits p.lvl ∧ 2 ^ DV.EncodeSpec.etaBits p.lvl ≤ 4 * p.eta) ∧
    (gamma1Of p.lvl = p.gamma1 ∧ 2 * p.gamma1 = 2 ^ DV.EncodeSpec.zBits p.lvl) ∧
    (DV.EncodeSpec.w1Card p.lvl = (Q - 1) / (2 * p.gamma2) ∧ DV.EncodeSpec.w1Card p.lvl ≤ 2 ^ DV.EncodeSpec.w1Bits p.lvl ∧
      2 ^ DV.EncodeSpec.w1Bits p.lvl < 2 * DV.EncodeSpec.w1Card p.lvl) := by decide

open DV.BitSpec DV.EncodeSpec DV.DecodeSpec in
/-- **the decoders are SimpleBitUnpack / BitUnpack** (FIPS 204 Alg. 18/19) on every byte string: what `t1_unpack` and
    `z_unpack` return is in range and re-encodes (SimpleBitPack / BitPack) to exactly the bytes read — the codecs are
    bijections between byte strings and in-range polynomials, so no byte string decodes to an out-of-range value and no
    two byte strings decode to the same polynomial -/
theorem decoders_are_bitunpack (lv : Lvl) (s : List Nat) (hb : ∀ b ∈ s, b < 256) :
    (s.length = POLYT1 → ∃ r, t1_unpack s = .ok r ∧ r.length = 256 ∧ (∀ x ∈ r, 0 ≤ x ∧ x < 1024) ∧
        simpleBitPack (r.map Int.toNat) 10 = s) ∧
    (s.length = polyzOf lv → ∃ r, z_unpack lv s = .ok r ∧ r.length = 256 ∧ (∀ x ∈ r, -(gamma1Of lv) < x ∧ x ≤ gamma1Of lv) ∧
        bitPack r (gamma1Of lv) (zBits lv) = s) :=
  ⟨fun h => t1_unpack_spec s h hb, fun h => z_unpack_spec lv s h hb⟩

end DV.C16
