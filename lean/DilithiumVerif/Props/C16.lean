import DilithiumVerif.Impl.Packing
import DilithiumVerif.Lemmas.CodecsFull
/-
  C16 — Bit-packing is the specification's encoding and is lossless.
  Round trips are proved on the faithful Impl forms (i32 shifts/ORs/casts), per group of coefficients.
-/
namespace DV.C16
open DV

/-- standard sizes, re-checked on the constants generated from /repo -/
theorem sizes : ∀ p ∈ allParams,
    p.pkBytes = SEEDBYTES + p.k * POLYT1 ∧
    p.skBytes = 2 * SEEDBYTES + p.trBytes + (p.k + p.l) * p.polyeta + p.k * POLYT0 ∧
    p.sigBytes = p.ctilde + p.l * p.polyz + p.omega + p.k := by decide

/-- t1 codec, one group: decoding the 5 bytes emitted for 4 coefficients in [0, 2^10) returns them -/
theorem t1_group (c0 c1 c2 c3 : Int) (h0 : 0 ≤ c0 ∧ c0 < 1024) (h1 : 0 ≤ c1 ∧ c1 < 1024)
    (h2 : 0 ≤ c2 ∧ c2 < 1024) (h3 : 0 ≤ c3 ∧ c3 < 1024) :
    t1_unpack_group (t1_pack_group [c0, c1, c2, c3]) = [c0, c1, c2, c3]
    ∧ (t1_pack_group [c0, c1, c2, c3]).length = 5 :=
  ⟨t1_group_roundtrip c0 c1 c2 c3 h0 h1 h2 h3, rfl⟩

/-- t0 codec, one group: 8 coefficients in (−2^12, 2^12] ↔ 13 bytes, no overflow in either direction -/
theorem t0_group (c0 c1 c2 c3 c4 c5 c6 c7 : Int)
    (h0 : -4096 < c0 ∧ c0 ≤ 4096) (h1 : -4096 < c1 ∧ c1 ≤ 4096) (h2 : -4096 < c2 ∧ c2 ≤ 4096) (h3 : -4096 < c3 ∧ c3 ≤ 4096)
    (h4 : -4096 < c4 ∧ c4 ≤ 4096) (h5 : -4096 < c5 ∧ c5 ≤ 4096) (h6 : -4096 < c6 ∧ c6 ≤ 4096) (h7 : -4096 < c7 ∧ c7 ≤ 4096) :
    (t0_pack_group [c0, c1, c2, c3, c4, c5, c6, c7] >>= t0_unpack_group) = .ok [c0, c1, c2, c3, c4, c5, c6, c7] :=
  t0_group_roundtrip c0 c1 c2 c3 c4 c5 c6 c7 h0 h1 h2 h3 h4 h5 h6 h7

/-! ### whole polynomials (256 coefficients): standard length and lossless round trip, every in-range input -/

/-- t1 (10 bits): 320 bytes, decode ∘ encode = id on [0, 2^10)^256 -/
theorem t1_codec (a : List Int) (hl : a.length = 256) (ha : ∀ x ∈ a, 0 ≤ x ∧ x < 1024) :
    (t1_pack a).length = 320 ∧ t1_unpack (t1_pack a) = .ok a :=
  ⟨t1_pack_length a hl, t1_roundtrip a hl ha⟩

/-- t0 (13 bits): 416 bytes, on (−2^12, 2^12]^256, no arithmetic overflow in either direction -/
theorem t0_codec (a : List Int) (hl : a.length = 256) (ha : ∀ x ∈ a, -4096 < x ∧ x ≤ 4096) :
    ∃ b, t0_pack a = .ok b ∧ b.length = 416 ∧ t0_unpack b = .ok a := t0_roundtrip a hl ha

/-- η-bounded secrets: η = 2 (3 bits, 96 bytes; lvl2 and lvl5 copies), η = 4 (4 bits, 128 bytes; lvl3 copy) -/
theorem eta_codec_2 (lv : Lvl) (hlv : lv = .l2 ∨ lv = .l5) (a : List Int) (hl : a.length = 256) (ha : ∀ x ∈ a, -2 ≤ x ∧ x ≤ 2) :
    ∃ b, eta_pack lv a = .ok b ∧ b.length = 96 ∧ eta_unpack lv b = .ok a := eta2_roundtrip lv hlv a hl ha
theorem eta_codec_4 (a : List Int) (hl : a.length = 256) (ha : ∀ x ∈ a, -4 ≤ x ∧ x ≤ 4) :
    ∃ b, eta_pack .l3 a = .ok b ∧ b.length = 128 ∧ eta_unpack .l3 b = .ok a := eta4_roundtrip a hl ha

/-- γ1-bounded response: γ1 = 2^17 (18 bits, 576 bytes; lvl2 copy), γ1 = 2^19 (20 bits, 640 bytes; lvl3, lvl5 copies),
    on the full specification range (−γ1, γ1] -/
theorem z_codec_17 (a : List Int) (hl : a.length = 256) (ha : ∀ x ∈ a, -131072 < x ∧ x ≤ 131072) :
    ∃ b, z_pack .l2 a = .ok b ∧ b.length = 576 ∧ z_unpack .l2 b = .ok a := z17_roundtrip a hl ha
theorem z_codec_19 (lv : Lvl) (hlv : lv = .l3 ∨ lv = .l5) (a : List Int) (hl : a.length = 256)
    (ha : ∀ x ∈ a, -524288 < x ∧ x ≤ 524288) :
    ∃ b, z_pack lv a = .ok b ∧ b.length = 640 ∧ z_unpack lv b = .ok a := z19_roundtrip lv hlv a hl ha

/-- the six parameter sets use exactly these copies with these ranges -/
theorem codec_params : ∀ p ∈ allParams,
    (p.eta = 2 ∧ (p.lvl = .l2 ∨ p.lvl = .l5) ∧ p.polyeta = 96 ∨ p.eta = 4 ∧ p.lvl = .l3 ∧ p.polyeta = 128) ∧
    (p.gamma1 = 131072 ∧ p.lvl = .l2 ∧ p.polyz = 576 ∨ p.gamma1 = 524288 ∧ (p.lvl = .l3 ∨ p.lvl = .l5) ∧ p.polyz = 640) := by
  decide

example : t1_unpack_group (t1_pack_group [1023, 0, 513, 1]) = [1023, 0, 513, 1] := by decide

end DV.C16
