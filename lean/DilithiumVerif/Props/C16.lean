import DilithiumVerif.Impl.Packing
import DilithiumVerif.Lemmas.Codecs
/-
  C16 — Bit-packing is the specification's encoding and is lossless.
  Round trips are proved on the faithful Impl forms (i32 shifts/ORs/casts), per group of coefficients.
-/
namespace DV.C16
open DV

/-- standard sizes, re-checked on the constants generated from /repo -/
theorem sizes : ∀ p ∈ allParams,
    p.pkBytes = SEEDBYTES + p.k * POLYT1 ∧
    p.skBytes = 2 * SEEDBYTES + p.trBytes + (p.k + p.l) * p.polyeta + p.k * POLYT0 ∧
    p.sigBytes = p.ctilde + p.l * p.polyz + p.omega + p.k := by decide

/-- t1 codec, one group: decoding the 5 bytes emitted for 4 coefficients in [0, 2^10) returns them -/
theorem t1_group (c0 c1 c2 c3 : Int) (h0 : 0 ≤ c0 ∧ c0 < 1024) (h1 : 0 ≤ c1 ∧ c1 < 1024)
    (h2 : 0 ≤ c2 ∧ c2 < 1024) (h3 : 0 ≤ c3 ∧ c3 < 1024) :
    t1_unpack_group (t1_pack_group [c0, c1, c2, c3]) = [c0, c1, c2, c3]
    ∧ (t1_pack_group [c0, c1, c2, c3]).length = 5 :=
  ⟨t1_group_roundtrip c0 c1 c2 c3 h0 h1 h2 h3, rfl⟩

/-- t0 codec, one group: 8 coefficients in (−2^12, 2^12] ↔ 13 bytes, no overflow in either direction -/
theorem t0_group (c0 c1 c2 c3 c4 c5 c6 c7 : Int)
    (h0 : -4096 < c0 ∧ c0 ≤ 4096) (h1 : -4096 < c1 ∧ c1 ≤ 4096) (h2 : -4096 < c2 ∧ c2 ≤ 4096) (h3 : -4096 < c3 ∧ c3 ≤ 4096)
    (h4 : -4096 < c4 ∧ c4 ≤ 4096) (h5 : -4096 < c5 ∧ c5 ≤ 4096) (h6 : -4096 < c6 ∧ c6 ≤ 4096) (h7 : -4096 < c7 ∧ c7 ≤ 4096) :
    (t0_pack_group [c0, c1, c2, c3, c4, c5, c6, c7] >>= t0_unpack_group) = .ok [c0, c1, c2, c3, c4, c5, c6, c7] :=
  t0_group_roundtrip c0 c1 c2 c3 c4 c5 c6 c7 h0 h1 h2 h3 h4 h5 h6 h7

example : t1_unpack_group (t1_pack_group [1023, 0, 513, 1]) = [1023, 0, 513, 1] := by decide

end DV.C16
