import DilithiumVerif.Impl.Reduce
import DilithiumVerif.Lemmas.Basic
/-
  C14 — Modular reduction kernels are correct on their whole documented domain.
  Statements are about `Impl.Reduce` (checked-build semantics): `= .ok r` means the
  overflow-checked build returns r without panicking, and (because no check fired) the
  wrapping build returns the same r.
-/
namespace DV.C14
open DV

/-- the constant the code uses really is q⁻¹ mod 2^32 (re-checked against the generated constants) -/
theorem qinv_correct : (Gen.Q_INV * Q) % 4294967296 = 1 := by decide

theorem Q_val : Q = 8380417 := by decide

/-- Montgomery reduction: for every |a| < 2^31·q the result r satisfies r·2^32 ≡ a (mod q), |r| < q,
    and no intermediate i64 operation overflows. -/
theorem montgomery_reduce_spec (a : Int) (h : -(2147483648 * Q) < a ∧ a < 2147483648 * Q) :
    ∃ r, montgomery_reduce a = .ok r ∧ (r * 4294967296 - a) % Q = 0 ∧ -Q < r ∧ r < Q := by
  rw [Q_val] at *
  have hq : Gen.Q_INV = 58728449 := by decide
  simp only [montgomery_reduce, hq, Q_val]
  have hw := wrap32_emod a
  have ht := wrap32_emod (wrap32 a * 58728449)
  have htr := wrap32_range (wrap32 a * 58728449)
  generalize wrap32 (wrap32 a * 58728449) = t at *
  generalize wrap32 a = w at *
  rw [wrap64_id _ (by omega)]
  have hdiv : (a - t * 8380417) % 4294967296 = 0 := by omega
  rw [sub64_ok _ _ (by omega)]
  simp only [bind, Except.bind, sar_eq, Int.reducePow]
  rw [wrap32_id _ (by omega)]
  refine ⟨_, rfl, ?_, ?_, ?_⟩ <;> omega

/-- Montgomery reduction, tight form: for |a| ≤ 2^32·C the result is at most C + (q−1)/2 in magnitude
    (r·2^32 = a − t·q with |t| ≤ 2^31). With C = F/2 this is what keeps the outputs of the inverse NTT far enough
    from ±q for the later additions. -/
theorem montgomery_reduce_tight (a C : Int) (hC : 0 ≤ C ∧ C ≤ 4190208) (h : -(4294967296 * C) ≤ a ∧ a ≤ 4294967296 * C) :
    ∃ r, montgomery_reduce a = .ok r ∧ (r * 4294967296 - a) % Q = 0 ∧ -(C + 4190209) < r ∧ r < C + 4190209 := by
  rw [Q_val] at *
  have hq : Gen.Q_INV = 58728449 := by decide
  simp only [montgomery_reduce, hq, Q_val]
  have hw := wrap32_emod a
  have ht := wrap32_emod (wrap32 a * 58728449)
  have htr := wrap32_range (wrap32 a * 58728449)
  generalize wrap32 (wrap32 a * 58728449) = t at *
  generalize wrap32 a = w at *
  rw [wrap64_id _ (by omega)]
  have hdiv : (a - t * 8380417) % 4294967296 = 0 := by omega
  rw [sub64_ok _ _ (by omega)]
  simp only [bind, Except.bind, sar_eq, Int.reducePow]
  rw [wrap32_id _ (by omega)]
  refine ⟨_, rfl, ?_, ?_, ?_⟩ <;> omega

/-- the checked build never panics on the documented domain, and the congruence is the stated one:
    r ≡ a·2^{-32}, expressed without division -/
theorem montgomery_reduce_no_fault (a : Int) (h : -(2147483648 * Q) < a ∧ a < 2147483648 * Q) :
    ∃ r, montgomery_reduce a = .ok r := by
  obtain ⟨r, hr, _⟩ := montgomery_reduce_spec a h; exact ⟨r, hr⟩

/-- 32-bit reduction: for every i32 a ≤ 2^31 − 2^22 − 1, r ≡ a (mod q) and |r| ≤ 6283009. -/
theorem reduce32_spec (a : Int) (h : -2147483648 ≤ a ∧ a ≤ 2147483648 - 4194304 - 1) :
    ∃ r, reduce32 a = .ok r ∧ (r - a) % Q = 0 ∧ -6283009 ≤ r ∧ r ≤ 6283009 := by
  rw [Q_val]
  simp only [reduce32, Q_val]
  rw [add32_ok _ _ (by omega)]
  simp only [bind, Except.bind, sar_eq, Int.reducePow]
  rw [wrap32_id _ (by omega), sub32_ok _ _ (by omega)]
  refine ⟨_, rfl, ?_, ?_, ?_⟩ <;> omega

/-- the documented upper bound of the domain is exact: one above it the checked build overflows -/
theorem reduce32_faults_above (a : Int) (h : 2147483648 - 4194304 - 1 < a ∧ a ≤ 2147483647) :
    reduce32 a = .error .overflow := by
  simp only [reduce32, add32]
  rw [chk32_err _ (by omega)]; rfl

/-- conditional addition of q: every a in (−q, q) is mapped to its representative in [0, q) -/
theorem caddq_spec (a : Int) (h : -Q < a ∧ a < Q) :
    ∃ r, caddq a = .ok r ∧ 0 ≤ r ∧ r < Q ∧ (r - a) % Q = 0 := by
  rw [Q_val] at *
  simp only [caddq, Q_val]
  rw [and32_signmask a 8380417 (by omega) (by omega)]
  split
  · rw [add32_ok _ _ (by omega)]; refine ⟨_, rfl, ?_, ?_, ?_⟩ <;> omega
  · rw [add32_ok _ _ (by omega)]; refine ⟨_, rfl, ?_, ?_, ?_⟩ <;> omega

/-- on the whole i32 range where the addition does not overflow, caddq is "add q iff negative" -/
theorem caddq_eq (a : Int) (h : -2147483648 ≤ a ∧ a ≤ 2147483647 - 8380417) :
    caddq a = .ok (if a < 0 then a + Q else a) := by
  rw [Q_val]
  simp only [caddq, Q_val]
  rw [and32_signmask a 8380417 (by omega) (by omega)]
  split <;> rw [add32_ok _ _ (by omega)] <;> simp

/-! non-vacuity: concrete points of each domain, including the extreme ones -/
example : montgomery_reduce 23 = .ok (-2635616) := by decide
example : montgomery_reduce (2147483648 * 8380417 - 1) = .ok 114592 := by decide
example : reduce32 (2147483648 - 4194304 - 1) = .ok 6283008 := by decide
example : reduce32 (-2147483648) = .ok (-2096896) := by decide
example : caddq (-8380416) = .ok 1 := by decide
example : caddq 8380416 = .ok 8380416 := by decide

end DV.C14
