import DilithiumVerif.Props.C01
/-
  C06 — Emitted signatures respect the rejection bounds that protect the secret key.
  Part 1: an emitted signature is the packing of an iteration for which none of the four rejection tests fired,
  the tests being applied to exactly the quantities the specification names (z, w0 − c·s2, c·t0, hint count).
-/
namespace DV.C06
open DV

/-- the four tests of one iteration, on the values the code computes -/
structure Passed (p : Params) (z w0' ct0 : PolyVec) (n : Int) : Prop where
  zOk : vec_chknorm z ((p.gamma1 : Int) - p.beta) = .ok 0
  r0Ok : vec_chknorm w0' ((p.gamma2 : Int) - p.beta) = .ok 0
  ct0Ok : vec_chknorm ct0 (p.gamma2 : Int) = .ok 0
  hintsOk : n ≤ p.omega

theorem chknorm_le_one (v : PolyVec) (b r : Int) (h : vec_chknorm v b = .ok r) (hr : ¬ 0 < r) : r = 0 := by
  induction v with
  | nil => simp [vec_chknorm] at h; omega
  | cons x xs ih =>
    unfold vec_chknorm at h
    obtain ⟨r1, h1, h⟩ := bind_eq_ok.mp h
    split at h
    · injection h with h; omega
    · exact ih h

/-- if an iteration is accepted then the response z, the low part w0 − c·s2, the product c·t0 and the hint count it
    computed all passed their norm tests, and the emitted bytes are the packing of (c̃, z, h) with
    c̃ = H(μ ‖ w1Encode(w1)) -/
theorem accept_passed_all_tests (p : Params) (mat : List PolyVec) (mu rp : List Nat) (s1h s2h t0h : PolyVec) (k : Int)
    (sig : List Nat) (h : sign_iteration p mat mu rp s1h s2h t0h k = .ok (.accept sig)) :
    ∃ ct z w0' ct0 hints n w1, Passed p z w0' ct0 n ∧
      compute_ctilde p mu (k_pack_w1 p.lvl w1) = .ok ct ∧
      pack_sig p (ct ++ List.replicate (p.sigBytes - p.ctilde) 0) none z hints = .ok sig := by
  unfold sign_iteration at h
  obtain ⟨y, _, h⟩ := bind_eq_ok.mp h
  obtain ⟨_, _, h⟩ := bind_eq_ok.mp h
  obtain ⟨_, _, h⟩ := bind_eq_ok.mp h
  obtain ⟨_, _, h⟩ := bind_eq_ok.mp h
  obtain ⟨_, _, h⟩ := bind_eq_ok.mp h
  obtain ⟨_, _, h⟩ := bind_eq_ok.mp h
  obtain ⟨_, _, h⟩ := bind_eq_ok.mp h
  obtain ⟨⟨w1, w0⟩, _, h⟩ := bind_eq_ok.mp h
  simp only at h
  obtain ⟨ct, hct, h⟩ := bind_eq_ok.mp h
  obtain ⟨_, _, h⟩ := bind_eq_ok.mp h
  obtain ⟨_, _, h⟩ := bind_eq_ok.mp h
  obtain ⟨_, _, h⟩ := bind_eq_ok.mp h
  obtain ⟨_, _, h⟩ := bind_eq_ok.mp h
  obtain ⟨_, _, h⟩ := bind_eq_ok.mp h
  obtain ⟨z, _, h⟩ := bind_eq_ok.mp h
  obtain ⟨rz, hrz, h⟩ := bind_eq_ok.mp h
  split at h
  · cases h
  rename_i hz
  obtain ⟨_, _, h⟩ := bind_eq_ok.mp h
  obtain ⟨_, _, h⟩ := bind_eq_ok.mp h
  obtain ⟨_, _, h⟩ := bind_eq_ok.mp h
  obtain ⟨w0', _, h⟩ := bind_eq_ok.mp h
  obtain ⟨r0, hr0, h⟩ := bind_eq_ok.mp h
  split at h
  · cases h
  rename_i h0
  obtain ⟨_, _, h⟩ := bind_eq_ok.mp h
  obtain ⟨_, _, h⟩ := bind_eq_ok.mp h
  obtain ⟨ct0, _, h⟩ := bind_eq_ok.mp h
  obtain ⟨rc, hrc, h⟩ := bind_eq_ok.mp h
  split at h
  · cases h
  rename_i hc
  obtain ⟨_, _, h⟩ := bind_eq_ok.mp h
  obtain ⟨⟨hints, n⟩, _, h⟩ := bind_eq_ok.mp h
  simp only at h
  split at h
  · cases h
  rename_i hn
  obtain ⟨s, hs, h⟩ := bind_eq_ok.mp h
  injection h with h; injection h with h; subst h
  refine ⟨ct, z, w0', ct0, hints, n, w1, ⟨?_, ?_, ?_, by omega⟩, hct, hs⟩
  · rw [hrz, chknorm_le_one z _ rz hrz hz]
  · rw [hr0, chknorm_le_one w0' _ r0 hr0 h0]
  · rw [hrc, chknorm_le_one ct0 _ rc hrc hc]

/-- every signature the loop returns comes from such an iteration -/
theorem emitted_passed_all_tests (p : Params) (mat : List PolyVec) (mu rp : List Nat) (s1h s2h t0h : PolyVec)
    (fuel : Nat) (sig : List Nat) (h : sign_loop p mat mu rp s1h s2h t0h fuel 0 = .ok (some sig)) :
    ∃ κ : Nat, κ < fuel ∧ ∃ ct z w0' ct0 hints n w1, Passed p z w0' ct0 n ∧
      compute_ctilde p mu (k_pack_w1 p.lvl w1) = .ok ct ∧
      pack_sig p (ct ++ List.replicate (p.sigBytes - p.ctilde) 0) none z hints = .ok sig := by
  obtain ⟨j, hj, hacc, _⟩ := C01.sign_loop_some p mat mu rp s1h s2h t0h fuel 0 sig h
  exact ⟨j, hj, accept_passed_all_tests p mat mu rp s1h s2h t0h _ sig hacc⟩

end DV.C06
