import DilithiumVerif.Props.C01
import DilithiumVerif.Lemmas.EndToEnd
import DilithiumVerif.Lemmas.SignFips
/-
  C06 — Emitted signatures respect the rejection bounds that protect the secret key.
  Part 1: an emitted signature is the packing of an iteration for which none of the four rejection tests fired,
  the tests being applied to exactly the quantities the specification names (z, w0 − c·s2, c·t0, hint count).
-/
namespace DV.C06
open DV

/-- the four tests of one iteration, on the values the code computes -/
structure Passed (p : Params) (z w0' ct0 : PolyVec) (n : Int) : Prop where
  zOk : vec_chknorm z ((p.gamma1 : Int) - p.beta) = .ok 0
  r0Ok : vec_chknorm w0' ((p.gamma2 : Int) - p.beta) = .ok 0
  ct0Ok : vec_chknorm ct0 (p.gamma2 : Int) = .ok 0
  hintsOk : n ≤ p.omega

theorem chknorm_le_one (v : PolyVec) (b r : Int) (h : vec_chknorm v b = .ok r) (hr : ¬ 0 < r) : r = 0 := by
  induction v with
  | nil => simp [vec_chknorm] at h; omega
  | cons x xs ih =>
    unfold vec_chknorm at h
    obtain ⟨r1, h1, h⟩ := bind_eq_ok.mp h
    split at h
    · injection h with h; omega
    · exact ih h

/-- if an iteration is accepted then the response z, the low part w0 − c·s2, the product c·t0 and the hint count it
    computed all passed their norm tests, and the emitted bytes are the packing of (c̃, z, h) with
    c̃ = H(μ ‖ w1Encode(w1)) -/
theorem accept_passed_all_tests (p : Params) (mat : List PolyVec) (mu rp : List Nat) (s1h s2h t0h : PolyVec) (k : Int)
    (sig : List Nat) (h : sign_iteration p mat mu rp s1h s2h t0h k = .ok (.accept sig)) :
    ∃ ct z w0' ct0 hints n w1, Passed p z w0' ct0 n ∧
      compute_ctilde p mu (k_pack_w1 p.lvl w1) = .ok ct ∧
      pack_sig p (ct ++ List.replicate (p.sigBytes - p.ctilde) 0) none z hints = .ok sig := by
  unfold sign_iteration at h
  obtain ⟨y, _, h⟩ := bind_eq_ok.mp h
  obtain ⟨_, _, h⟩ := bind_eq_ok.mp h
  obtain ⟨_, _, h⟩ := bind_eq_ok.mp h
  obtain ⟨_, _, h⟩ := bind_eq_ok.mp h
  obtain ⟨_, _, h⟩ := bind_eq_ok.mp h
  obtain ⟨_, _, h⟩ := bind_eq_ok.mp h
  obtain ⟨_, _, h⟩ := bind_eq_ok.mp h
  obtain ⟨⟨w1, w0⟩, _, h⟩ := bind_eq_ok.mp h
  simp only at h
  obtain ⟨ct, hct, h⟩ := bind_eq_ok.mp h
  obtain ⟨_, _, h⟩ := bind_eq_ok.mp h
  obtain ⟨_, _, h⟩ := bind_eq_ok.mp h
  obtain ⟨_, _, h⟩ := bind_eq_ok.mp h
  obtain ⟨_, _, h⟩ := bind_eq_ok.mp h
  obtain ⟨_, _, h⟩ := bind_eq_ok.mp h
  obtain ⟨z, _, h⟩ := bind_eq_ok.mp h
  obtain ⟨rz, hrz, h⟩ := bind_eq_ok.mp h
  split at h
  · cases h
  rename_i hz
  obtain ⟨_, _, h⟩ := bind_eq_ok.mp h
  obtain ⟨_, _, h⟩ := bind_eq_ok.mp h
  obtain ⟨_, _, h⟩ := bind_eq_ok.mp h
  obtain ⟨w0', _, h⟩ := bind_eq_ok.mp h
  obtain ⟨r0, hr0, h⟩ := bind_eq_ok.mp h
  split at h
  · cases h
  rename_i h0
  obtain ⟨_, _, h⟩ := bind_eq_ok.mp h
  obtain ⟨_, _, h⟩ := bind_eq_ok.mp h
  obtain ⟨ct0, _, h⟩ := bind_eq_ok.mp h
  obtain ⟨rc, hrc, h⟩ := bind_eq_ok.mp h
  split at h
  · cases h
  rename_i hc
  obtain ⟨_, _, h⟩ := bind_eq_ok.mp h
  obtain ⟨⟨hints, n⟩, _, h⟩ := bind_eq_ok.mp h
  simp only at h
  split at h
  · cases h
  rename_i hn
  obtain ⟨s, hs, h⟩ := bind_eq_ok.mp h
  injection h with h; injection h with h; subst h
  refine ⟨ct, z, w0', ct0, hints, n, w1, ⟨?_, ?_, ?_, by omega⟩, hct, hs⟩
  · rw [hrz, chknorm_le_one z _ rz hrz hz]
  · rw [hr0, chknorm_le_one w0' _ r0 hr0 h0]
  · rw [hrc, chknorm_le_one ct0 _ rc hrc hc]

/-- every signature the loop returns comes from such an iteration -/
theorem emitted_passed_all_tests (p : Params) (mat : List PolyVec) (mu rp : List Nat) (s1h s2h t0h : PolyVec)
    (fuel : Nat) (sig : List Nat) (h : sign_loop p mat mu rp s1h s2h t0h fuel 0 = .ok (some sig)) :
    ∃ κ : Nat, κ < fuel ∧ ∃ ct z w0' ct0 hints n w1, Passed p z w0' ct0 n ∧
      compute_ctilde p mu (k_pack_w1 p.lvl w1) = .ok ct ∧
      pack_sig p (ct ++ List.replicate (p.sigBytes - p.ctilde) 0) none z hints = .ok sig := by
  obtain ⟨j, hj, hacc, _⟩ := C01.sign_loop_some p mat mu rp s1h s2h t0h fuel 0 sig h
  exact ⟨j, hj, accept_passed_all_tests p mat mu rp s1h s2h t0h _ sig hacc⟩

/-! ## Part 2: the tested quantities are the ones the specification names (through the ring semantics of C13)

  `Complete.SignFacts` and `Complete.SignSecret` (Lemmas/Complete.lean) collect, for an accepted iteration with mask nonce κ:
  * z, h: ‖z‖∞ < γ1 − β; h is a 0/1 vector of 256·K entries with at most ω ones (`hw`, `hbits`); c̃ = H(μ ‖ w1Encode(w1));
  * y is the mask `ExpandMask(ρ′, κ)` and z = c·s1 + y (`mask`, `zy`: stated at the 256 NTT points, which determine the polynomial);
  * w = A·y with coefficients in [0, q) (`wy`, `wstd`), (w1, w0) = (HighBits, LowBits)(w) (`dec`);
  * for every coefficient, Decompose((w − c·s2) mod q) = (r0, w1) with |r0| < γ2 − β (`low`): the low bits of A·y − c·s2 are
    below γ2 − β and its high bits are those of A·y;
  * ‖c·t0‖∞ < γ2 (`ct0E`). -/

open DV.Complete in
/-- **Every emitted signature respects the rejection bounds.** For each of the six parameter sets, a key pair from
    `keypair`, any message and mode: a signature returned by `signature` decodes canonically (`unpack_sig` accepts it and
    returns (c̃, z, h)) and comes from an iteration κ < fuel for which all the facts above hold, with the secret
    (s1, s2, t0) being what the secret key decodes to and A the expansion of its ρ. -/
theorem emitted_signature_respects_bounds (p : Params) (hp : p ∈ allParams) (seed : Option (List Nat)) (tape : Tape) (pk sk : List Nat)
    (tape' : Tape) (hk : keypair p seed tape = .ok (pk, sk, tape'))
    (fuel : Nat) (msg : List Nat) (randomized : Bool) (tape2 : Tape) (sig : List Nat) (tape3 : Tape)
    (hs : signature p fuel msg sk randomized tape2 = .ok (some sig, tape3)) :
    ∃ (rho tr key : List Nat) (s1 s2 t1 t0 : PolyVec) (mat : List PolyVec) (mu rp : List Nat) (κ : Nat)
      (ct : List Nat) (cp : Poly) (z h w1 a0 y w w0 cs2 r0 ct0 : PolyVec),
      unpack_sk p sk = .ok (rho, tr, key, t0, s1, s2) ∧ matrix_expand p FUEL rho = .ok mat ∧ KeyFacts p mat s1 s2 t1 t0 ∧
      compute_mu tr p.trBytes msg = .ok mu ∧ κ < fuel ∧
      unpack_sig p sig = .ok (true, ct, z, h) ∧
      SignFacts p mat s1 s2 t0 mu sig ct cp z h w1 a0 ∧
      SignSecret p mat s1 s2 t0 rp (κ : Int) cp z w1 a0 y w w0 cs2 r0 ct0 :=
  emitted_signature_facts p hp seed tape pk sk tape' hk fuel msg randomized tape2 sig tape3 hs

open DV.SignFips DV.SignSpec DV.XofSpec DV.Complete in
/-- **in the specification's terms**: every emitted signature is the encoding of an iteration that the specification's
    Sign accepts (`SignSpec.Accepts`: ‖z‖∞ < γ1 − β, ‖LowBits(w − c·s2)‖∞ < γ2 − β, ‖c·t0‖∞ < γ2, at most ω hints = MakeHint(−c·t0,
    w − c·s2 + c·t0), c̃ = H(μ ‖ w1Encode(HighBits(A·y))), y the expanded mask) — the conditions under which the signature
    distribution is independent of the secret key -/
theorem emitted_signature_is_spec_accepted (p : Params) (hp : p ∈ allParams) (seed : Option (List Nat)) (tape : Tape) (pk sk : List Nat) (tape' : Tape)
    (hk : keypair p seed tape = .ok (pk, sk, tape'))
    (fuel : Nat) (msg : List Nat) (randomized : Bool) (tape2 : Tape) (sig : List Nat) (tape3 : Tape)
    (hs : signature p fuel msg sk randomized tape2 = .ok (some sig, tape3)) :
    ∃ (rho tr key : List Nat) (s1 s2 t1 t0 : PolyVec) (mat : List PolyVec) (r : Option (List Nat)) (κ : Nat),
      unpack_sk p sk = .ok (rho, tr, key, t0, s1, s2) ∧ matrix_expand p FUEL rho = .ok mat ∧ KeyFacts p mat s1 s2 t1 t0 ∧
      Accepts p mat s1 s2 t0 (SHAKE256 (tr ++ msg) CRHBYTES) (rhoPrimeSpec p key (SHAKE256 (tr ++ msg) CRHBYTES) r) κ sig := by
  obtain ⟨rho, tr, key, s1, s2, t1, t0, mat, r, κ, h1, _, h3, h4, _, _, _, h8, _⟩ :=
    signature_is_spec p hp seed tape pk sk tape' hk fuel msg randomized tape2 sig tape3 hs
  exact ⟨rho, tr, key, s1, s2, t1, t0, mat, r, κ, h1, h3, h4, h8.1⟩

end DV.C06
