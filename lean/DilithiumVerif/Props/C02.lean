import DilithiumVerif.Impl.Api
import DilithiumVerif.Lemmas.Basic
import DilithiumVerif.Props.C07
import DilithiumVerif.Lemmas.VerifyFips
/-
  C02 — Any alteration of signature, message, context, mode or key is rejected.
  What can be a theorem without a hardness assumption: the length gate (truncation / extension), and binding
  statements whose conclusion is an explicit SHAKE-256 collision.  That a *different* (c̃, z, h) for the same
  message is rejected is strong unforgeability — a computational assumption, not a collision — and is covered by
  the exhaustive bit-flip scan of the tie only (`sig_bitflip_partial`).
-/
namespace DV.C02
open DV

/-- truncated or extended signatures are rejected before anything is decoded -/
theorem verify_length_gate (p : Params) (sig m pk : List Nat) (h : sig.length ≠ p.sigBytes) :
    verify p sig m pk = .ok false := by
  unfold verify verify_core
  simp only [h, if_false, ok_bind]

theorem api_length_gate (p : Params) (pk msg sig : List Nat) (ctx : Option (List Nat)) (h : sig.length ≠ p.sigBytes) :
    mldsa_verify p pk msg sig ctx = .ok false ∧ dil_verify p pk msg sig = .ok false := by
  unfold mldsa_verify dil_verify
  simp only [h, ne_eq, not_false_eq_true, if_true, and_self]

/-- message binding: one signature accepted for two messages (under one key) exhibits colliding inputs
    (restated from C07; the messages here are the framed representatives, so this also covers context, mode and
    pre-hash alterations through the injectivity of the framing) -/
theorem message_binding (p : Params) (sig pk m1 m2 : List Nat)
    (a1 : verify p sig m1 pk = .ok true) (a2 : verify p sig m2 pk = .ok true) :
    ∃ trh w, ∃ mu1 mu2 c, compute_mu trh p.trBytes m1 = .ok mu1 ∧ compute_mu trh p.trBytes m2 = .ok mu2 ∧
      compute_ctilde p mu1 w = .ok c ∧ compute_ctilde p mu2 w = .ok c :=
  C07.cross_acceptance_collision p sig pk m1 m2 a1 a2

/-- the c̃ that verification compares against is the first c̃ bytes of the offered signature -/
theorem unpack_sig_c (p : Params) (sig : List Nat) (u : Bool × List Nat × PolyVec × PolyVec)
    (h : unpack_sig p sig = .ok u) : u.2.1 = sig.take p.ctilde := by
  unfold unpack_sig at h
  obtain ⟨c0, hc0, h⟩ := bind_eq_ok.mp h
  obtain ⟨_, _, h⟩ := bind_eq_ok.mp h
  obtain ⟨_, _, h⟩ := bind_eq_ok.mp h
  obtain ⟨r, _, h⟩ := bind_eq_ok.mp h
  unfold takeC at hc0
  split at hc0
  · injection hc0 with hc0
    cases r <;> (simp only at h; injection h with h; rw [← h, ← hc0])
  · cases hc0

theorem verify_core_c (p : Params) (sig pk trh c buf : List Nat)
    (h : verify_core p sig pk = .ok (some (trh, c, buf))) : c = sig.take p.ctilde := by
  unfold verify_core at h
  split at h
  · obtain ⟨rt, _, h⟩ := bind_eq_ok.mp h
    obtain ⟨u, hu, h⟩ := bind_eq_ok.mp h
    split at h
    · obtain ⟨r, _, h⟩ := bind_eq_ok.mp h
      split at h
      · cases h
      · obtain ⟨tb, _, h⟩ := bind_eq_ok.mp h
        injection h with h; injection h with h; injection h with _ h; injection h with h _
        rw [← h]; exact unpack_sig_c p sig u hu
    · cases h
  · cases h

/-- key binding: one (signature, message) accepted under two public keys: the two runs produce the same c̃ from
    (μ₁, w₁) and (μ₂, w₂) where μᵢ = H(H(pkᵢ) ‖ m).  All hash inputs are explicit. -/
theorem key_binding (p : Params) (sig m pk1 pk2 : List Nat)
    (a1 : verify p sig m pk1 = .ok true) (a2 : verify p sig m pk2 = .ok true) :
    ∃ trh1 trh2 w1 w2 mu1 mu2 c,
      verify_core p sig pk1 = .ok (some (trh1, c, w1)) ∧ verify_core p sig pk2 = .ok (some (trh2, c, w2)) ∧
      compute_mu trh1 p.trBytes m = .ok mu1 ∧ compute_mu trh2 p.trBytes m = .ok mu2 ∧
      compute_ctilde p mu1 w1 = .ok c ∧ compute_ctilde p mu2 w2 = .ok c := by
  have key : ∀ pk, verify p sig m pk = .ok true → ∃ trh w mu c, verify_core p sig pk = .ok (some (trh, c, w)) ∧
      compute_mu trh p.trBytes m = .ok mu ∧ compute_ctilde p mu w = .ok c ∧ c = sig.take p.ctilde := by
    intro pk a
    unfold verify at a
    obtain ⟨core, hc, a⟩ := bind_eq_ok.mp a
    match core, a, hc with
    | none, a, _ => simp at a
    | some (trh, c, buf), a, hc =>
      simp only at a
      obtain ⟨mu, hm, a⟩ := bind_eq_ok.mp a
      obtain ⟨c2, hc2, a⟩ := bind_eq_ok.mp a
      injection a with a
      have e : c = c2 := of_decide_eq_true a
      exact ⟨trh, buf, mu, c, hc, hm, e ▸ hc2, verify_core_c p sig pk trh c buf hc⟩
  obtain ⟨t1, w1, m1, c1, h1, hm1, hc1, e1⟩ := key pk1 a1
  obtain ⟨t2, w2, m2, c2, h2, hm2, hc2, e2⟩ := key pk2 a2
  have : c1 = c2 := by rw [e1, e2]
  subst this
  exact ⟨t1, t2, w1, w2, m1, m2, c1, h1, h2, hm1, hm2, hc1, hc2⟩

/-! ## No malleability of the encoding

Whether a *different* triple (c̃′, z′, h′) exists that satisfies the verification equation is the unforgeability of the
scheme (not a property of this code). What the code must guarantee is that a signature has exactly one accepted byte
representation: -/

open DV.VerifyFips DV.EncodeSpec DV.HintCodec in
/-- **an accepted byte string is the canonical encoding of its content**: if `verify` accepts σ it decodes to a triple
    (c̃, z, h) with σ = sigEncode(c̃, z, h); so two accepted strings with the same content are equal byte for byte — flipping a
    bit anywhere in an accepted signature (padding bytes of the hint section, unused index slots, the order of hint
    indices, high bits of a packed coefficient) either yields a rejected string or a different (c̃, z, h) -/
theorem accepted_signature_is_canonical (p : Params) (hp : p ∈ allParams) (sig m pk : List Nat) (hpk : pk.length = p.pkBytes)
    (hpb : ∀ b ∈ pk, b < 256) (hb : ∀ b ∈ sig, b < 256) (hv : verify p sig m pk = .ok true) :
    ∃ ct z h, unpack_sig p sig = .ok (true, ct, z, h) ∧ sig = sigEncode p.lvl p.omega ct z h ∧
      ∀ sig', (∀ b ∈ sig', b < 256) → sig'.length = p.sigBytes → unpack_sig p sig' = .ok (true, ct, z, h) → sig' = sig := by
  have hsl : sig.length = p.sigBytes := by
    by_cases h : sig.length = p.sigBytes
    · exact h
    · rw [verify_wrong_length p sig m pk h] at hv; injection hv with hv; cases hv
  obtain ⟨okv, c, z, h, husig, _, _, _, _⟩ := DecodeTotal.unpack_sig_total p hp sig hsl hb
  obtain ⟨rho, t1, hupk, _, _, _⟩ := DecodeTotal.unpack_pk_total p hp pk hpk
  cases okv with
  | false => rw [verify_rejected_decoding p sig m pk hsl rho t1 hupk c z h husig] at hv; injection hv with hv; cases hv
  | true =>
    have hE := (unpack_sig_spec p hp sig hsl hb c z h husig).2.2.2.2.2.2
    refine ⟨c, z, h, husig, hE, fun sig' hb' hl' hu' => ?_⟩
    rw [(unpack_sig_spec p hp sig' hl' hb' c z h hu').2.2.2.2.2.2, ← hE]

open DV.VerifyFips DV.EncodeSpec DV.XofSpec in
/-- **what a second accepted signature would be** (the part of the property that cannot be a theorem, delimited):
    if verification accepts two different byte strings σ ≠ σ′ for the same public key and message, then with their
    contents (c̃, z, h), (c̃′, z′, h′) and the commitments w1, w1′ that verification reconstructs from them, one of three
    things holds — (1) the challenges differ (a second, independent solution of the verification equation);
    (2) same challenge and the *same* reconstructed commitment from a different response (z, h) ≠ (z′, h′)
    — a short relation A·(z − z′) ≈ 0, the SelfTargetMSIS-type event strong unforgeability assumes away;
    (3) an explicit SHAKE-256 collision: two different inputs μ ‖ w1Encode(w1) ≠ μ ‖ w1Encode(w1′) with the same
    digest.  In no case does the code accept two encodings of one content (`accepted_signature_is_canonical`). -/
theorem second_accepted_signature (p : Params) (pk m sig sig' : List Nat)
    (h1 : IsAccepted p pk m sig) (h2 : IsAccepted p pk m sig') (hne : sig ≠ sig') :
    ∃ (ct ct' : List Nat) (z z' h h' w1 w1' : PolyVec),
      sig = sigEncode p.lvl p.omega ct z h ∧ sig' = sigEncode p.lvl p.omega ct' z' h' ∧
      (ct ≠ ct' ∨
       (ct = ct' ∧ (z, h) ≠ (z', h') ∧ w1Encode p.lvl w1 = w1Encode p.lvl w1') ∨
       (∃ x y : List Nat, x ≠ y ∧ SHAKE256 x p.ctilde = SHAKE256 y p.ctilde ∧
          x = SHAKE256 (SHAKE256 pk p.trBytes ++ m) CRHBYTES ++ w1Encode p.lvl w1 ∧
          y = SHAKE256 (SHAKE256 pk p.trBytes ++ m) CRHBYTES ++ w1Encode p.lvl w1')) := by
  obtain ⟨_, _, ct, z, h, _, _, _, w1, _, hs, _, _, _, _, _, hc⟩ := h1
  obtain ⟨_, _, ct', z', h', _, _, _, w1', _, hs', _, _, _, _, _, hc'⟩ := h2
  have hE := hs.2.2.2.2.2.2
  have hE' := hs'.2.2.2.2.2.2
  refine ⟨ct, ct', z, z', h, h', w1, w1', hE, hE', ?_⟩
  by_cases hct : ct = ct'
  · right
    by_cases hw : w1Encode p.lvl w1 = w1Encode p.lvl w1'
    · left
      refine ⟨hct, ?_, hw⟩
      intro hzh
      injection hzh with hz hh
      apply hne
      rw [hE, hE', hct, hz, hh]
    · right
      refine ⟨_, _, ?_, ?_, rfl, rfl⟩
      · intro he
        exact hw (List.append_cancel_left he)
      · rw [← hc, ← hc', hct]
  · left; exact hct

end DV.C02
