import DilithiumVerif.Impl.PolyVec
import DilithiumVerif.Lemmas.Basic
/-
  C18 — Infinity-norm check is exact on reduced coefficients.
  `iabs x` is |x|.  The theorems hold for every list length (in particular 256) and every position.
-/
namespace DV.C18
open DV

def iabs (x : Int) : Int := if x < 0 then -x else x

theorem Q_val : Q = 8380417 := by decide

theorem and32_neg_one (y : Int) (h : -2147483648 ≤ y ∧ y ≤ 2147483647) : and32 (-1) y = y := by
  unfold and32
  rw [toU32_neg_one]
  have h1 := Nat.and_two_pow_sub_one_eq_mod (toU32 y) 32
  have hlt := toU32_lt y
  rw [Nat.and_comm]
  simp only [Nat.reducePow, Nat.add_one_sub_one] at h1
  rw [show (4294967295 : Nat) = 4294967296 - 1 by decide, h1, Nat.mod_eq_of_lt hlt, ofU32_toU32 y h]

theorem and32_zero_left (y : Int) : and32 0 y = 0 := by
  unfold and32; rw [toU32_zero, Nat.zero_and]; decide

/-- the branch-free absolute value `a − ((a >> 31) & 2a)` on |a| < 2^30 -/
theorem abs_trick (x : Int) (h : -1073741824 < x ∧ x < 1073741824) :
    sub32 x (and32 (sar x 31) (2 * x)) = .ok (iabs x) := by
  rw [sar31 x (by omega)]
  unfold iabs
  split
  · rw [and32_neg_one _ (by omega), sub32_ok _ _ (by omega)]; congr 1; omega
  · rw [and32_zero_left, sub32_ok _ _ (by omega)]; congr 1; omega

theorem chknormGo_exact (b : Int) (a : List Int) (ha : ∀ x ∈ a, -1073741824 < x ∧ x < 1073741824) :
    chknormGo b a = .ok (if ∃ x ∈ a, b ≤ iabs x then 1 else 0) := by
  induction a with
  | nil => simp [chknormGo]
  | cons x xs ih =>
    have hx := ha x (List.mem_cons_self ..)
    unfold chknormGo
    rw [mul32_ok _ _ (by omega)]; simp only [ok_bind]
    rw [abs_trick x hx]; simp only [ok_bind]
    by_cases hb : b ≤ iabs x
    · rw [if_pos hb, if_pos ⟨x, List.mem_cons_self .., hb⟩]
    · rw [if_neg hb, ih (fun y hy => ha y (List.mem_cons_of_mem _ hy))]
      congr 1
      by_cases he : ∃ y ∈ xs, b ≤ iabs y
      · obtain ⟨y, hy, hby⟩ := he
        rw [if_pos ⟨y, hy, hby⟩, if_pos ⟨y, List.mem_cons_of_mem _ hy, hby⟩]
      · rw [if_neg he, if_neg]
        rintro ⟨y, hy, hby⟩
        rcases List.mem_cons.mp hy with rfl | hy
        · exact hb hby
        · exact he ⟨y, hy, hby⟩

/-- Exactness: for every bound B ≤ (q−1)/8 and every polynomial with |coefficients| < 2^30 (this includes the
    output range [−6283009, 6283009] of the 32-bit reduction), the check reports failure exactly when some
    coefficient — at whatever position — has absolute value at least B. No arithmetic overflow occurs. -/
theorem chknorm_exact (a : List Int) (b : Int) (ha : ∀ x ∈ a, -1073741824 < x ∧ x < 1073741824)
    (hb : b ≤ (Q - 1) / 8) :
    poly_chknorm a b = .ok (if ∃ x ∈ a, b ≤ iabs x then 1 else 0) := by
  unfold poly_chknorm
  rw [if_neg (by omega)]
  exact chknormGo_exact b a ha

/-- The gate: a bound above (q−1)/8 always reports failure. -/
theorem chknorm_gate (a : List Int) (b : Int) (hb : (Q - 1) / 8 < b) : poly_chknorm a b = .ok 1 := by
  unfold poly_chknorm; rw [if_pos hb]

/-- vector wrappers `l_chknorm` / `k_chknorm` (any number of components): failure exactly when some
    coefficient of some component reaches the bound -/
theorem vec_chknorm_exact (v : List (List Int)) (b : Int)
    (hv : ∀ p ∈ v, ∀ x ∈ p, -1073741824 < x ∧ x < 1073741824) (hb : b ≤ (Q - 1) / 8) :
    vec_chknorm v b = .ok (if ∃ p ∈ v, ∃ x ∈ p, b ≤ iabs x then 1 else 0) := by
  induction v with
  | nil => simp [vec_chknorm]
  | cons p ps ih =>
    unfold vec_chknorm
    rw [chknorm_exact p b (hv p (List.mem_cons_self ..)) hb]; simp only [ok_bind]
    by_cases hp : ∃ x ∈ p, b ≤ iabs x
    · rw [if_pos hp]; simp only [show (0:Int) < 1 by decide, if_true]
      rw [if_pos ⟨p, List.mem_cons_self .., hp⟩]
    · rw [if_neg hp]; simp only [show ¬ (0:Int) < 0 by decide, if_false]
      rw [ih (fun q hq => hv q (List.mem_cons_of_mem _ hq))]
      congr 1
      by_cases he : ∃ q ∈ ps, ∃ x ∈ q, b ≤ iabs x
      · obtain ⟨q, hq, hx⟩ := he
        rw [if_pos ⟨q, hq, hx⟩, if_pos ⟨q, List.mem_cons_of_mem _ hq, hx⟩]
      · rw [if_neg he, if_neg]
        rintro ⟨q, hq, hx⟩
        rcases List.mem_cons.mp hq with rfl | hq
        · exact hp hx
        · exact he ⟨q, hq, hx⟩

theorem vec_chknorm_gate (p : List Int) (ps : List (List Int)) (b : Int) (hb : (Q - 1) / 8 < b) :
    vec_chknorm (p :: ps) b = .ok 1 := by
  unfold vec_chknorm; rw [chknorm_gate p b hb]; simp only [ok_bind]; rfl

/-- every bound the six parameter sets pass to the check is ≤ (q−1)/8, so the signer's three rejection
    tests and the verifier's acceptance test are instances of `chknorm_exact` -/
theorem bounds_in_range : ∀ p ∈ allParams,
    ((p.gamma1 : Int) - p.beta ≤ (Q - 1) / 8) ∧ ((p.gamma2 : Int) - p.beta ≤ (Q - 1) / 8) ∧ ((p.gamma2 : Int) ≤ (Q - 1) / 8) := by
  decide

/-! non-vacuity -/
example : poly_chknorm [0, 5, -130994, 7] 130994 = .ok 1 := by decide
example : poly_chknorm [0, 5, -130993, 130993] 130994 = .ok 0 := by decide
example : poly_chknorm [0, 0] 1047553 = .ok 1 := by decide
example : vec_chknorm [[0, 1], [2, -6283009]] 1047552 = .ok 1 := by decide

end DV.C18
