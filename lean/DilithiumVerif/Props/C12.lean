import DilithiumVerif.Lemmas.Sponge
import DilithiumVerif.Lemmas.KeccakSpec
import DilithiumVerif.Lemmas.ShakeSmall
import DilithiumVerif.Lemmas.OneShot
import DilithiumVerif.Lemmas.Padding
import DilithiumVerif.Lemmas.XofSpec
/-
  C12 — SHAKE-128 and SHAKE-256 equal FIPS 202 for every input and every call pattern.
  Theorems about the sponge loops of the model (the repaired `keccak_squeeze`), generic in the permutation:
  the result does not depend on how the input is split across absorb calls or the output across squeeze calls.
  That the permutation and padding are FIPS 202's is validated on every run against hashlib (not proved here).
-/
namespace DV.C12
open DV

/-- rates as regenerated from the source are the FIPS 202 rates of SHAKE-128 / SHAKE-256 (multiples of 8) -/
theorem rates : R128 = 168 ∧ R256 = 136 := by decide
theorem rc_len : Gen.KECCAKF_ROUNDCONSTANTS.length = 24 := by decide

/-- Absorb is split-independent: absorbing `a` and then `b` leaves exactly the state of absorbing `a ++ b`
    in one call — for every permutation, every rate, every position carry and all lengths. -/
theorem absorb_split (f : Lanes → Lanes) (r : Nat) (st : KeccakState) (a b : List Nat) (hp : st.pos < r) :
    (keccak_absorb f r st a a.length >>= fun st' => keccak_absorb f r st' b b.length)
      = keccak_absorb f r st (a ++ b) (a ++ b).length := by
  rw [keccak_absorb_eq f r st a hp, keccak_absorb_eq f r st (a ++ b) hp]
  simp only [ok_bind]
  have hp' := absorbSpec_pos_lt f r a.length st.s st.pos a rfl hp
  rw [keccak_absorb_eq f r _ b hp', absorbSpec_append f r a.length st.s st.pos a b rfl hp]

/-- the same for the exposed SHAKE-256 / SHAKE-128 absorb functions -/
theorem shake256_absorb_split (st : KeccakState) (a b : List Nat) (hp : st.pos < R256) :
    (shake256_absorb st a a.length >>= fun st' => shake256_absorb st' b b.length)
      = shake256_absorb st (a ++ b) (a ++ b).length :=
  absorb_split keccakf R256 st a b hp
theorem shake128_absorb_split (st : KeccakState) (a b : List Nat) (hp : st.pos < R128) :
    (shake128_absorb st a a.length >>= fun st' => shake128_absorb st' b b.length)
      = shake128_absorb st (a ++ b) (a ++ b).length :=
  absorb_split keccakf R128 st a b hp

/-- what `shake256_squeeze` returns, without fuel -/
theorem shake256_squeeze_eq (n : Nat) (st : KeccakState) (hp : st.pos ≤ R256) :
    shake256_squeeze n n st = .ok ((squeezeSpec keccakf R256 st.s st.pos n).1,
      { s := (squeezeSpec keccakf R256 st.s st.pos n).2.1, pos := (squeezeSpec keccakf R256 st.s st.pos n).2.2 }) := by
  unfold shake256_squeeze keccak_squeeze
  simp only [Nat.le_refl, if_true, ok_bind]
  rw [squeeze_loop_eq keccakf R256 (by decide) _ [] n st.s st.pos hp (by omega)]
  simp only [List.nil_append]

theorem squeezeSpec_pos_le (f : Lanes → Lanes) (r : Nat) (hr : 0 < r) : ∀ (n : Nat) (s : Lanes) (pos : Nat), pos ≤ r →
    (squeezeSpec f r s pos n).2.2 ≤ r := by
  intro n
  induction n using Nat.strongRecOn with
  | _ n ih =>
    intro s pos hp
    by_cases hn : n = 0
    · subst hn; rw [squeezeSpec_zero]; exact hp
    · rw [squeezeSpec_step f r s pos n (by omega)]
      simp only
      apply ih
      · have : 0 < min (r - if pos = r then 0 else pos) n := by split <;> omega
        omega
      · split <;> omega

/-- Squeeze is split-independent: one request of n + m bytes — however many rate blocks it crosses — returns
    exactly the bytes of a request of n followed by a request of m, and leaves the same state. -/
theorem shake256_squeeze_split (n m : Nat) (st : KeccakState) (hp : st.pos ≤ R256) :
    shake256_squeeze (n + m) (n + m) st =
      (shake256_squeeze n n st >>= fun r1 => shake256_squeeze m m r1.2 >>= fun r2 => .ok (r1.1 ++ r2.1, r2.2)) := by
  rw [shake256_squeeze_eq (n + m) st hp, shake256_squeeze_eq n st hp]
  simp only [ok_bind]
  have hp' := squeezeSpec_pos_le keccakf R256 (by decide) n st.s st.pos hp
  rw [shake256_squeeze_eq m _ hp']
  simp only [ok_bind]
  rw [squeezeSpec_split keccakf R256 (by decide) n m st.s st.pos hp]

/-- `squeezeblocks` under its documented precondition (position at a block boundary) is the same stream:
    n blocks = a squeeze of n·rate bytes -/
theorem shake256_squeezeblocks_eq (n : Nat) (st : KeccakState) (hp : st.pos = R256) :
    shake256_squeezeblocks (n * R256) n st = .ok ((squeezeSpec keccakf R256 st.s R256 (n * R256)).1,
      { st with s := (squeezeSpec keccakf R256 st.s R256 (n * R256)).2.1 }) := by
  unfold shake256_squeezeblocks keccak_squeezeblocks
  have hc : n = 0 ∨ (n - 1) * R256 + 8 * (R256 / 8) ≤ n * R256 := by
    by_cases h0 : n = 0
    · exact Or.inl h0
    · right
      have e : 8 * (R256 / 8) = R256 := by decide
      rw [e]
      have : n = (n - 1) + 1 := by omega
      conv => rhs; rw [this, Nat.succ_mul]
      exact Nat.le_refl _
  simp only [hc, if_true, ok_bind]
  rw [squeezeblocks_loop_eq keccakf R256 (by decide) (by decide) n [] st.s]
  simp only [List.nil_append]

/-! non-vacuity / the defect that was repaired: with the index declared inside the block loop a 200-byte request
    after absorbing "abc" returned `cf0ea610…`; the model (repaired code) returns FIPS 202's `48336660…` -/
example : (do
    let st ← shake256_absorb KeccakState.init [0x61, 0x62, 0x63] 3
    let st ← shake256_finalize st
    let (o, _) ← shake256_squeeze 200 200 st
    .ok (o.take 4, (o.drop 196))) = (.ok ([0x48, 0x33, 0x66, 0x60], [0xf6, 0xbf, 0xe1, 0x19]) : Chk (List Nat × List Nat)) := by
  decide +kernel

/-! ## The permutation is Keccak-p[1600, 24] of FIPS 202 -/

open DV.KeccakSpec in
/-- the code's unrolled round on 25 named lanes = the FIPS 202 round ι(χ(π(ρ(θ(A)))), RC) written on lanes A[x, y]
    (θ: column parities, ρ: the rotation offsets of Table 2, π: (x, y) ↦ (y, 2x + 3y), χ, ι), for every state and constant -/
theorem round_is_fips202 (rc : UInt64) (a : St) : halfRound rc a = round rc a := halfRound_eq_round rc a

open DV.KeccakSpec in
/-- the 24 round constants regenerated from src/fips202.rs are the ones FIPS 202 Algorithm 5 derives from the LFSR
    x^8 + x^6 + x^5 + x^4 + 1 (bit 2^j − 1 of RC[i] is rc(j + 7i)) -/
theorem round_constants_are_fips202 : Gen.KECCAKF_ROUNDCONSTANTS = (List.range 24).map rcSpec := round_constants_spec

open DV.KeccakSpec in
/-- the permutation of the model = 24 FIPS 202 rounds with the FIPS 202 constants, for every state -/
theorem keccakf_is_fips202 (s : Lanes) :
    keccakf s = (((List.range 24).map rcSpec).foldl (fun a rc => round rc a) (St.ofLanes s)).toLanes := keccakf_eq_spec s

open DV.ShakeSmall in
/-- one-shot SHAKE-256 with fewer output bytes than the rate: the answer does not depend on the capacity of the output
    buffer and has exactly the requested length -/
theorem shake256_short_output (c1 c2 n : Nat) (inp : List Nat) (len : Nat) (hn : n < R256) (h1 : n ≤ c1) (h2 : n ≤ c2) :
    shake256 c1 n inp len = shake256 c2 n inp len ∧ ∀ out, shake256 c1 n inp len = .ok out → out.length = n :=
  ⟨shake256_cap_indep c1 c2 n inp len hn h1 h2, fun out h => shake256_small_length c1 n inp len hn h1 out h⟩

open DV.OneShot in
/-- **The one-shot and the incremental interfaces agree**: `shake256(out[..n], in)` = init, absorb(in), finalize,
    squeeze(n), for every input (any length, any number of rate blocks) and every output shorter than the rate (all uses
    in the crate: 32, 48, 64, 128 bytes). -/
theorem oneshot_eq_incremental (n : Nat) (inp : List Nat) (hn : n < R256) :
    shake256 n n inp inp.length =
      (shake256_absorb KeccakState.init inp inp.length >>= fun st => shake256_finalize st >>= fun st =>
        shake256_squeeze n n st >>= fun r => .ok r.1) := shake256_oneshot_eq_incremental n inp hn

open DV.Padding DV.ShakeTotal DV.ShakeSmall in
/-- **SHAKE-256 is the FIPS 202 sponge of the padded message**, for every message M and every output length n: the bytes
    returned by init / absorb(M) / finalize / squeeze(n) are the first n bytes of the output stream (read a rate block,
    permute, read the next …) of the state reached by absorbing  M ‖ pad  block by block with a permutation after every
    block, where pad = 0x1F ‖ 00…00 ‖ 0x80 (0x9F when one byte) fills the last block — the byte form of
    M ‖ 1111 ‖ pad10*1(r, |M| + 4) of FIPS 202 §6.2. -/
theorem shake256_is_padded_sponge (M : List Nat) (n : Nat) :
    ∃ st, (shake256_absorb KeccakState.init M M.length >>= shake256_finalize) = .ok st ∧
      ∃ out st', shake256_squeeze n n st = .ok (out, st') ∧
        out = (squeezeSpec keccakf R256 (absorbSpec keccakf R256 KeccakState.init.s 0 (M ++ padBytes R256 (M.length % R256))).s 0 n).1 :=
  DV.Padding.shake256_is_padded_sponge M n

open DV.Padding DV.ShakeTotal DV.ShakeSmall in
/-- the same padding statement for SHAKE-128 (rate 168), the XOF behind the matrix sampler: after absorb(M) and finalize
    the next permutation yields the state of the padded message -/
theorem shake128_finalize_is_padding (M : List Nat) :
    ∃ st, (shake128_absorb KeccakState.init M M.length >>= shake128_finalize) = .ok st ∧ st.pos = R128 ∧
      absorbSpec keccakf R128 KeccakState.init.s 0 (M ++ padBytes R128 (M.length % R128)) = { s := keccakf st.s, pos := 0 } :=
  finalize_is_padding128 M

/-- the padding is never empty, has the length that completes the block, starts with the SHAKE suffix 1111 followed by the
    first pad bit (0x1F) and ends with the final pad bit (0x80) -/
theorem padding_shape (rem : Nat) (h : rem < R256) :
    (DV.Padding.padBytes R256 rem).length = R256 - rem ∧
    (DV.Padding.padBytes R256 (R256 - 1)) = [0x9F] ∧
    (rem < R256 - 1 → DV.Padding.padBytes R256 rem = [0x1F] ++ List.replicate (R256 - rem - 2) 0 ++ [0x80]) :=
  ⟨DV.Padding.padBytes_length R256 rem h, by decide, fun h' => by unfold DV.Padding.padBytes; rw [if_neg (by omega)]⟩

/-! ## Every call pattern

`absorbAll` feeds the input in any number of pieces, `squeezeAll` asks for the output in any number of pieces (each of any
length, also longer than a rate block): the concatenated answers are SHAKE-256 of the concatenated input. -/

def absorbAll : KeccakState → List (List Nat) → Chk KeccakState
  | st, [] => .ok st
  | st, c :: cs => shake256_absorb st c c.length >>= fun st' => absorbAll st' cs

def squeezeAll : KeccakState → List Nat → Chk (List Nat × KeccakState)
  | st, [] => .ok ([], st)
  | st, n :: ns => shake256_squeeze n n st >>= fun r => squeezeAll r.2 ns >>= fun r2 => .ok (r.1 ++ r2.1, r2.2)

theorem absorbAll_eq : ∀ (chunks : List (List Nat)) (M : List Nat),
    absorbAll (absorbSpec keccakf R256 KeccakState.init.s 0 M) chunks = .ok (absorbSpec keccakf R256 KeccakState.init.s 0 (M ++ chunks.flatten))
  | [], M => by simp [absorbAll]
  | c :: cs, M => by
      have hp := absorbSpec_pos_lt keccakf R256 M.length KeccakState.init.s 0 M rfl (by decide : 0 < R256)
      unfold absorbAll shake256_absorb
      rw [keccak_absorb_eq keccakf R256 _ c hp, ok_bind,
        ← absorbSpec_append keccakf R256 M.length KeccakState.init.s 0 M c rfl (by decide), absorbAll_eq cs (M ++ c)]
      simp [List.append_assoc]

theorem squeezeAll_eq : ∀ (ns : List Nat) (st : KeccakState), st.pos ≤ R256 →
    ∃ st', squeezeAll st ns = .ok ((squeezeSpec keccakf R256 st.s st.pos ns.sum).1, st')
  | [], st, _ => ⟨st, by simp [squeezeAll, squeezeSpec_zero]⟩
  | n :: ns, st, hp => by
      have hp' := squeezeSpec_pos_le keccakf R256 (by decide) n st.s st.pos hp
      obtain ⟨st', h'⟩ := squeezeAll_eq ns { s := (squeezeSpec keccakf R256 st.s st.pos n).2.1, pos := (squeezeSpec keccakf R256 st.s st.pos n).2.2 } hp'
      refine ⟨st', ?_⟩
      unfold squeezeAll
      rw [shake256_squeeze_eq n st hp, ok_bind, h', ok_bind, List.sum_cons, squeezeSpec_split keccakf R256 (by decide) n ns.sum st.s st.pos hp]

open DV.XofSpec in
/-- **SHAKE-256 equals FIPS 202 for every call pattern**: absorb the input in any pieces, finalize, squeeze the output in
    any pieces — the bytes returned, concatenated, are the first Σ n_i bytes of SHAKE-256 of the concatenated input
    (the FIPS 202 sponge of the padded message, `XofSpec.SHAKE256`) -/
theorem shake256_every_call_pattern (chunks : List (List Nat)) (ns : List Nat) :
    ∃ st1 st2 st3, absorbAll KeccakState.init chunks = .ok st1 ∧ shake256_finalize st1 = .ok st2 ∧
      squeezeAll st2 ns = .ok (SHAKE256 chunks.flatten ns.sum, st3) := by
  have h0 : KeccakState.init = absorbSpec keccakf R256 KeccakState.init.s 0 [] := by
    rw [absorbSpec_tail keccakf R256 _ 0 [] (by simp; decide)]; rfl
  have ha := absorbAll_eq chunks []
  rw [← h0, List.nil_append] at ha
  obtain ⟨st2, hf, hpos, hs⟩ := finalize256_of_spec chunks.flatten
  obtain ⟨st3, hq⟩ := squeezeAll_eq ns st2 (by rw [hpos]; exact Nat.le_refl _)
  refine ⟨_, st2, st3, ha, hf, ?_⟩
  rw [hq, hpos]
  unfold SHAKE256
  rw [squeeze_from_final R256 (by decide), hs]

/-! the same for SHAKE-128, whose exposed output interface is `squeezeblocks` -/

def absorbAll128 : KeccakState → List (List Nat) → Chk KeccakState
  | st, [] => .ok st
  | st, c :: cs => shake128_absorb st c c.length >>= fun st' => absorbAll128 st' cs

def squeezeBlocksAll128 : KeccakState → List Nat → Chk (List Nat × KeccakState)
  | st, [] => .ok ([], st)
  | st, n :: ns => shake128_squeezeblocks (n * R128) n st >>= fun r => squeezeBlocksAll128 r.2 ns >>= fun r2 => .ok (r.1 ++ r2.1, r2.2)

theorem absorbAll128_eq : ∀ (chunks : List (List Nat)) (M : List Nat),
    absorbAll128 (absorbSpec keccakf R128 KeccakState.init.s 0 M) chunks = .ok (absorbSpec keccakf R128 KeccakState.init.s 0 (M ++ chunks.flatten))
  | [], M => by simp [absorbAll128]
  | c :: cs, M => by
      have hp := absorbSpec_pos_lt keccakf R128 M.length KeccakState.init.s 0 M rfl (by decide : 0 < R128)
      unfold absorbAll128 shake128_absorb
      rw [keccak_absorb_eq keccakf R128 _ c hp, ok_bind,
        ← absorbSpec_append keccakf R128 M.length KeccakState.init.s 0 M c rfl (by decide), absorbAll128_eq cs (M ++ c)]
      simp [List.append_assoc]

open DV.UniformStream in
theorem squeezeBlocksAll128_eq : ∀ (ns : List Nat) (st : KeccakState),
    ∃ st', squeezeBlocksAll128 st ns = .ok (stream128 st.s ns.sum, st')
  | [], st => ⟨st, by simp [squeezeBlocksAll128, stream_zero]⟩
  | n :: ns, st => by
      obtain ⟨st', h'⟩ := squeezeBlocksAll128_eq ns { st with s := after128 st.s n }
      refine ⟨st', ?_⟩
      unfold squeezeBlocksAll128
      rw [sq_blocks (n * R128) n st (Nat.le_refl _), ok_bind, h', ok_bind, List.sum_cons, stream_add]

open DV.XofSpec DV.UniformStream in
/-- **SHAKE-128 equals FIPS 202 for every call pattern** of its exposed interface: absorb in any pieces, finalize,
    squeeze any numbers of blocks in any number of calls -/
theorem shake128_every_call_pattern (chunks : List (List Nat)) (ns : List Nat) :
    ∃ st1 st2 st3, absorbAll128 KeccakState.init chunks = .ok st1 ∧ shake128_finalize st1 = .ok st2 ∧
      squeezeBlocksAll128 st2 ns = .ok (SHAKE128 chunks.flatten (ns.sum * R128), st3) := by
  have h0 : KeccakState.init = absorbSpec keccakf R128 KeccakState.init.s 0 [] := by
    rw [absorbSpec_tail keccakf R128 _ 0 [] (by simp; decide)]; rfl
  have ha := absorbAll128_eq chunks []
  rw [← h0, List.nil_append] at ha
  obtain ⟨st2, hf, hpos, hs⟩ := finalize128_of_spec chunks.flatten
  obtain ⟨st3, hq⟩ := squeezeBlocksAll128_eq ns st2
  refine ⟨_, st2, st3, ha, hf, ?_⟩
  rw [hq]
  unfold stream128 streamOf SHAKE128
  rw [squeezeblocks_loop_eq keccakf R128 (by decide) (by decide) ns.sum [] st2.s]
  simp only [List.nil_append]
  rw [squeeze_from_final R128 (by decide), hs]

end DV.C12
