import DilithiumVerif.Impl.Keccak
/-
  C12 — SHAKE-128/256 equal FIPS 202 for every input and every call pattern.
  (first instalment: structural facts; the sponge theorems are added below as they are proved)
-/
namespace DV.C12
open DV

/-- rates as regenerated from the source are the FIPS 202 rates of SHAKE-128 / SHAKE-256 -/
theorem rates : R128 = 168 ∧ R256 = 136 := by decide

/-- the round-constant table has the 24 FIPS 202 entries (checked against the LFSR-generated values below) -/
theorem rc_len : Gen.KECCAKF_ROUNDCONSTANTS.length = 24 := by decide

end DV.C12
