import DilithiumVerif.Impl.Api
import DilithiumVerif.Lemmas.Basic
/-
  C05 — Signing is the specification's function of key, message and randomness.
  Part 1: how randomness enters.  `signature_with` is signing with the value of ρ′ (Dilithium) / rnd (ML-DSA)
  given explicitly — the specification's Sign_internal interface; `signature` is exactly that function applied
  to the bytes it draws (or to the derived / all-zero value in deterministic mode).
-/
namespace DV.C05
open DV

/-- number of RNG bytes a signing call consumes -/
def drawn (p : Params) (randomized : Bool) : Nat :=
  if randomized then (if p.mldsa then SEEDBYTES else CRHBYTES) else 0

/-- ρ′ from explicit randomness `r` (ML-DSA: rnd, 32 bytes; Dilithium randomized: ρ′ itself, 64 bytes) -/
def rhoprime_of (p : Params) (key mu : List Nat) (r : Option (List Nat)) : Chk (List Nat) :=
  if p.mldsa then do
    let rnd := r.getD (List.replicate SEEDBYTES 0)
    let st ← shake256_absorb KeccakState.init key SEEDBYTES
    let st ← shake256_absorb st rnd SEEDBYTES
    let st ← shake256_absorb st mu CRHBYTES
    let st ← shake256_finalize st
    let (rp, _) ← shake256_squeeze CRHBYTES CRHBYTES st
    .ok rp
  else match r with
    | some rp => .ok rp
    | none => shake256n CRHBYTES (key ++ mu)

theorem derive_rhoprime_det (p : Params) (key mu : List Nat) (tape : Tape) :
    derive_rhoprime p key mu false tape = (rhoprime_of p key mu none).map (fun rp => (rp, tape)) := by
  unfold derive_rhoprime rhoprime_of
  by_cases hm : p.mldsa
  · simp only [hm, if_true, Bool.false_eq_true, if_false, ok_bind, Option.getD_none, map_bind_chk, map_ok_chk]
  · simp only [hm, Bool.false_eq_true, if_false, map_bind_chk, map_ok_chk]
    cases shake256n CRHBYTES (key ++ mu) <;> rfl

theorem derive_rhoprime_rand (p : Params) (key mu : List Nat) (tape : Tape) (h : drawn p true ≤ tape.length) :
    derive_rhoprime p key mu true tape =
      (rhoprime_of p key mu (some (tape.take (drawn p true)))).map (fun rp => (rp, tape.drop (drawn p true))) := by
  unfold derive_rhoprime rhoprime_of random_bytes drawn at *
  by_cases hm : p.mldsa
  · simp only [hm, if_true] at h ⊢
    simp only [h, if_true, ok_bind, Option.getD_some, map_bind_chk, map_ok_chk]
  · simp only [hm, Bool.false_eq_true, if_false, if_true] at h ⊢
    simp only [h, if_true]; rfl

/-- signing with explicit randomness: the specification's interface -/
def signature_with (p : Params) (fuel : Nat) (msg sk : List Nat) (r : Option (List Nat)) : Chk (Option (List Nat)) := do
  let (rho, tr, key, t0, s1, s2) ← unpack_sk p sk
  let mu ← compute_mu tr p.trBytes msg
  let rhoprime ← rhoprime_of p key mu r
  let mat ← matrix_expand p FUEL rho
  let s1h ← vec_ntt s1
  let s2h ← vec_ntt s2
  let t0h ← vec_ntt t0
  sign_loop p mat mu rhoprime s1h s2h t0h fuel 0

/-- Deterministic signing draws nothing and is `signature_with none`. -/
theorem signature_det (p : Params) (fuel : Nat) (msg sk : List Nat) (tape : Tape) :
    signature p fuel msg sk false tape = (signature_with p fuel msg sk none).map (fun s => (s, tape)) := by
  unfold signature signature_with
  cases unpack_sk p sk with
  | error e => rfl
  | ok v =>
    obtain ⟨rho, tr, key, t0, s1, s2⟩ := v
    simp only [ok_bind]
    cases compute_mu tr p.trBytes msg with
    | error e => rfl
    | ok mu =>
      simp only [ok_bind]
      rw [derive_rhoprime_det]
      cases rhoprime_of p key mu none with
      | error e => rfl
      | ok rp =>
        simp only [map_ok_chk, ok_bind, map_bind_chk]
        rfl

/-- Hedged ML-DSA signing (32 bytes) / randomized Dilithium signing (64 bytes) consumes exactly that many bytes
    from the RNG and is the specification's function of them: randomness enters only as rnd resp. ρ′. -/
theorem signature_rand (p : Params) (fuel : Nat) (msg sk : List Nat) (tape : Tape) (h : drawn p true ≤ tape.length) :
    signature p fuel msg sk true tape =
      (signature_with p fuel msg sk (some (tape.take (drawn p true)))).map (fun s => (s, tape.drop (drawn p true))) := by
  unfold signature signature_with
  cases unpack_sk p sk with
  | error e => rfl
  | ok v =>
    obtain ⟨rho, tr, key, t0, s1, s2⟩ := v
    simp only [ok_bind]
    cases compute_mu tr p.trBytes msg with
    | error e => rfl
    | ok mu =>
      simp only [ok_bind]
      rw [derive_rhoprime_rand _ _ _ _ h]
      cases rhoprime_of p key mu (some (tape.take (drawn p true))) with
      | error e => rfl
      | ok rp =>
        simp only [map_ok_chk, ok_bind, map_bind_chk]
        rfl

theorem drawn_values : drawn P_mldsa44 true = 32 ∧ drawn P_mldsa65 true = 32 ∧ drawn P_mldsa87 true = 32
    ∧ drawn P_lvl2 true = 64 ∧ drawn P_lvl3 true = 64 ∧ drawn P_lvl5 true = 64 ∧ ∀ p, drawn p false = 0 := by
  refine ⟨by decide, by decide, by decide, by decide, by decide, by decide, fun p => rfl⟩

end DV.C05
