import DilithiumVerif.Impl.Api
import DilithiumVerif.Lemmas.Basic
import DilithiumVerif.Lemmas.SignFips
/-
  C05 — Signing is the specification's function of key, message and randomness.
  Part 1: how randomness enters.  `signature_with` is signing with the value of ρ′ (Dilithium) / rnd (ML-DSA)
  given explicitly — the specification's Sign_internal interface; `signature` is exactly that function applied
  to the bytes it draws (or to the derived / all-zero value in deterministic mode).
  Part 2: `signing_is_spec_function` — the signature returned is the output of the specification's rejection loop
  (FIPS 204 Alg. 7 / Dilithium 3.1 Sign) on the decoded key, μ and ρ″, and that output is unique.
-/
namespace DV.C05
open DV

/-- number of RNG bytes a signing call consumes -/
def drawn (p : Params) (randomized : Bool) : Nat :=
  if randomized then (if p.mldsa then SEEDBYTES else CRHBYTES) else 0

/-- ρ′ from explicit randomness `r` (ML-DSA: rnd, 32 bytes; Dilithium randomized: ρ′ itself, 64 bytes) -/
def rhoprime_of (p : Params) (key mu : List Nat) (r : Option (List Nat)) : Chk (List Nat) :=
  if p.mldsa then do
    let rnd := r.getD (List.replicate SEEDBYTES 0)
    let st ← shake256_absorb KeccakState.init key SEEDBYTES
    let st ← shake256_absorb st rnd SEEDBYTES
    let st ← shake256_absorb st mu CRHBYTES
    let st ← shake256_finalize st
    let (rp, _) ← shake256_squeeze CRHBYTES CRHBYTES st
    .ok rp
  else match r with
    | some rp => .ok rp
    | none => shake256n CRHBYTES (key ++ mu)

theorem derive_rhoprime_det (p : Params) (key mu : List Nat) (tape : Tape) :
    derive_rhoprime p key mu false tape = (rhoprime_of p key mu none).map (fun rp => (rp, tape)) := by
  unfold derive_rhoprime rhoprime_of
  by_cases hm : p.mldsa
  · simp only [hm, if_true, Bool.false_eq_true, if_false, ok_bind, Option.getD_none, map_bind_chk, map_ok_chk]
  · simp only [hm, Bool.false_eq_true, if_false, map_bind_chk, map_ok_chk]
    cases shake256n CRHBYTES (key ++ mu) <;> rfl

theorem derive_rhoprime_rand (p : Params) (key mu : List Nat) (tape : Tape) (h : drawn p true ≤ tape.length) :
    derive_rhoprime p key mu true tape =
      (rhoprime_of p key mu (some (tape.take (drawn p true)))).map (fun rp => (rp, tape.drop (drawn p true))) := by
  unfold derive_rhoprime rhoprime_of random_bytes drawn at *
  by_cases hm : p.mldsa
  · simp only [hm, if_true] at h ⊢
    simp only [h, if_true, ok_bind, Option.getD_some, map_bind_chk, map_ok_chk]
  · simp only [hm, Bool.false_eq_true, if_false, if_true] at h ⊢
    simp only [h, if_true]; rfl

/-- signing with explicit randomness: the specification's interface -/
def signature_with (p : Params) (fuel : Nat) (msg sk : List Nat) (r : Option (List Nat)) : Chk (Option (List Nat)) := do
  let (rho, tr, key, t0, s1, s2) ← unpack_sk p sk
  let mu ← compute_mu tr p.trBytes msg
  let rhoprime ← rhoprime_of p key mu r
  let mat ← matrix_expand p FUEL rho
  let s1h ← vec_ntt s1
  let s2h ← vec_ntt s2
  let t0h ← vec_ntt t0
  sign_loop p mat mu rhoprime s1h s2h t0h fuel 0

/-- Deterministic signing draws nothing and is `signature_with none`. -/
theorem signature_det (p : Params) (fuel : Nat) (msg sk : List Nat) (tape : Tape) :
    signature p fuel msg sk false tape = (signature_with p fuel msg sk none).map (fun s => (s, tape)) := by
  unfold signature signature_with
  cases unpack_sk p sk with
  | error e => rfl
  | ok v =>
    obtain ⟨rho, tr, key, t0, s1, s2⟩ := v
    simp only [ok_bind]
    cases compute_mu tr p.trBytes msg with
    | error e => rfl
    | ok mu =>
      simp only [ok_bind]
      rw [derive_rhoprime_det]
      cases rhoprime_of p key mu none with
      | error e => rfl
      | ok rp =>
        simp only [map_ok_chk, ok_bind, map_bind_chk]
        rfl

/-- Hedged ML-DSA signing (32 bytes) / randomized Dilithium signing (64 bytes) consumes exactly that many bytes
    from the RNG and is the specification's function of them: randomness enters only as rnd resp. ρ′. -/
theorem signature_rand (p : Params) (fuel : Nat) (msg sk : List Nat) (tape : Tape) (h : drawn p true ≤ tape.length) :
    signature p fuel msg sk true tape =
      (signature_with p fuel msg sk (some (tape.take (drawn p true)))).map (fun s => (s, tape.drop (drawn p true))) := by
  unfold signature signature_with
  cases unpack_sk p sk with
  | error e => rfl
  | ok v =>
    obtain ⟨rho, tr, key, t0, s1, s2⟩ := v
    simp only [ok_bind]
    cases compute_mu tr p.trBytes msg with
    | error e => rfl
    | ok mu =>
      simp only [ok_bind]
      rw [derive_rhoprime_rand _ _ _ _ h]
      cases rhoprime_of p key mu (some (tape.take (drawn p true))) with
      | error e => rfl
      | ok rp =>
        simp only [map_ok_chk, ok_bind, map_bind_chk]
        rfl

theorem drawn_values : drawn P_mldsa44 true = 32 ∧ drawn P_mldsa65 true = 32 ∧ drawn P_mldsa87 true = 32
    ∧ drawn P_lvl2 true = 64 ∧ drawn P_lvl3 true = 64 ∧ drawn P_lvl5 true = 64 ∧ ∀ p, drawn p false = 0 := by
  refine ⟨by decide, by decide, by decide, by decide, by decide, by decide, fun p => rfl⟩

/-! ## Signing = the specification's Sign, byte for byte

`SignSpec.Accepts p A s1 s2 t0 μ ρ″ κ σ` (Lemmas/SignSpec.lean) transcribes one pass through the loop body of
ML-DSA.Sign_internal with specification-level objects only: y = ExpandMask(ρ″, κ) (BitUnpack of SHAKE-256 output),
w = A·y with coefficients in [0, q), w1 = HighBits(w), c̃ = H(μ ‖ w1Encode(w1)), c = SampleInBall(c̃), z = y + c·s1 with
‖z‖∞ < γ1 − β, ‖LowBits(w − c·s2)‖∞ < γ2 − β, ‖c·t0‖∞ < γ2, h = MakeHint(−c·t0, w − c·s2 + c·t0) with at most ω ones,
σ = sigEncode(c̃, z, h).  `SignFips.IsLoopOutput … κ σ` = accepted at κ and no σ′ is accepted at any j < κ.
The code's iteration returns `accept σ` exactly when the specification accepts with σ (`SignSpec.model_accept_is_spec`,
`SignSpec.spec_accept_forces` — the latter is where ‖c·s2‖∞ ≤ τ·η = β, `ConvBound.small_product`, is needed: the code tests
w0 − c·s2 instead of LowBits(w − c·s2)). -/

open DV.SignFips DV.EncodeSpec DV.XofSpec DV.Complete in
/-- **Signing is the specification's function of key, message and randomness** (all six sets, all three modes). For a key
    pair from `keypair` and any σ returned by `signature` on M′: with (ρ, K, tr, s1, s2, t0) the parts sk encodes
    (sk = skEncode of them), A = ExpandA(ρ), μ = H(tr ‖ M′, 64), ρ″ = H(K ‖ rnd ‖ μ, 64) for ML-DSA — rnd the 32 bytes drawn
    (hedged) or 32 zero bytes (deterministic) — and H(K ‖ μ, 64) or the 64 bytes drawn for Dilithium: σ is the output of
    the specification's rejection loop at some κ below the iteration bound, no earlier iteration is accepted by the
    specification, and any (κ′, σ′) with that property is (κ, σ). Randomness enters only as rnd / ρ″, and exactly the
    stated number of bytes is consumed. -/
theorem signing_is_spec_function (p : Params) (hp : p ∈ allParams) (seed : Option (List Nat)) (tape : Tape) (pk sk : List Nat) (tape' : Tape)
    (hk : keypair p seed tape = .ok (pk, sk, tape'))
    (fuel : Nat) (msg : List Nat) (randomized : Bool) (tape2 : Tape) (sig : List Nat) (tape3 : Tape)
    (hs : signature p fuel msg sk randomized tape2 = .ok (some sig, tape3)) :
    ∃ (rho tr key : List Nat) (s1 s2 t1 t0 : PolyVec) (mat : List PolyVec) (r : Option (List Nat)) (κ : Nat),
      unpack_sk p sk = .ok (rho, tr, key, t0, s1, s2) ∧ sk = skEncode p.lvl rho key tr s1 s2 t0 ∧
      matrix_expand p FUEL rho = .ok mat ∧ KeyFacts p mat s1 s2 t1 t0 ∧
      (randomized = false → r = none ∧ tape3 = tape2) ∧
      (randomized = true → ∃ n, n = (if p.mldsa = true then SEEDBYTES else CRHBYTES) ∧ n ≤ tape2.length ∧ r = some (tape2.take n) ∧
        tape3 = tape2.drop n) ∧
      κ < fuel ∧
      IsLoopOutput p mat s1 s2 t0 (SHAKE256 (tr ++ msg) CRHBYTES) (rhoPrimeSpec p key (SHAKE256 (tr ++ msg) CRHBYTES) r) κ sig ∧
      ∀ κ' σ', IsLoopOutput p mat s1 s2 t0 (SHAKE256 (tr ++ msg) CRHBYTES) (rhoPrimeSpec p key (SHAKE256 (tr ++ msg) CRHBYTES) r) κ' σ' →
        κ' = κ ∧ σ' = sig :=
  signature_is_spec p hp seed tape pk sk tape' hk fuel msg randomized tape2 sig tape3 hs

open DV.ConvBound DV.Ranges DV.Complete in
/-- ‖c·s‖∞ ≤ τ·η: the integer polynomial behind c·s2 (and c·s1) -/
theorem challenge_times_short_is_small (c s : List Int) (hc : Tern c) (hsl : s.length = 256) (E : Int) (hE : 0 ≤ E)
    (hs : ∀ x ∈ s, -E ≤ x ∧ x ≤ E) :
    ∃ T : List Int, T.length = 256 ∧ (∀ x ∈ T, -((nzCount c : Int) * E) ≤ x ∧ x ≤ (nzCount c : Int) * E) ∧
      ∀ i, i < 256 → (VecSem.El T i : K) = VecSem.El c i * VecSem.El s i :=
  small_product c s hc hsl E hE hs

/-! ### the public entry points: a signature returned through the API is `signature` on the framed message (C07), so
`signing_is_spec_function` applies to it with M′ = the frame -/

theorem mldsa_sign_is_signature (p : Params) (fuel : Nat) (sk msg : List Nat) (ctx : Option (List Nat)) (hedged : Bool) (tape : Tape)
    (sig : List Nat) (tape' : Tape) (h : mldsa_sign p fuel sk msg ctx hedged tape = .ok (some sig, tape')) :
    ∃ m, frame_pure msg ctx = some m ∧ signature p fuel m sk hedged tape = .ok (some sig, tape') := by
  unfold mldsa_sign at h
  cases hf : frame_pure msg ctx with
  | none => rw [hf] at h; injection h with h; injection h with h _; cases h
  | some m => rw [hf] at h; exact ⟨m, rfl, h⟩

theorem mldsa_prehash_sign_is_signature (p : Params) (fuel : Nat) (sk phm : List Nat) (ctx : Option (List Nat)) (hedged : Bool) (ph : PH)
    (tape : Tape) (sig : List Nat) (tape' : Tape) (h : mldsa_prehash_sign p fuel sk phm ctx hedged ph tape = .ok (some sig, tape')) :
    ∃ m, frame_prehash phm ctx ph = some m ∧ signature p fuel m sk hedged tape = .ok (some sig, tape') := by
  unfold mldsa_prehash_sign at h
  cases hf : frame_prehash phm ctx ph with
  | none => rw [hf] at h; injection h with h; injection h with h _; cases h
  | some m => rw [hf] at h; exact ⟨m, rfl, h⟩

theorem dil_sign_is_signature (p : Params) (fuel : Nat) (sk msg sig : List Nat) (h : dil_sign p fuel sk msg = .ok (some sig)) :
    ∃ tape', signature p fuel msg sk false [] = .ok (some sig, tape') := by
  unfold dil_sign at h
  obtain ⟨⟨r, t⟩, hs, h⟩ := bind_eq_ok.mp h
  simp only at h
  injection h with h; subst h
  exact ⟨t, hs⟩

end DV.C05
