import DilithiumVerif.Impl.PolyVec
import DilithiumVerif.Lemmas.Basic
import DilithiumVerif.Lemmas.Rej
/-
  C17 — Samplers are the specification's functions of their seeds and stay in range.
  Part 1: the byte-level acceptance maps and their ranges.
-/
namespace DV.C17
open DV

theorem Q_val : Q = 8380417 := by decide

/-- the 23-bit candidate built from three bytes is below 2^23; it is accepted iff below q, so every value
    `rej_uniform` writes lies in [0, q) -/
theorem cand23_lt (b0 b1 b2 : Nat) : (b0 ||| (b1 <<< 8) ||| (b2 <<< 16)) &&& 0x7FFFFF < 8388608 := by
  have : (0x7FFFFF : Nat) = 2 ^ 23 - 1 := by decide
  rw [this, Nat.and_two_pow_sub_one_eq_mod]; exact Nat.mod_lt _ (by decide)

/-- η = 2: for a nibble t < 15 the code's `t − (205·t >> 10)·5` is t mod 5, hence the coefficient 2 − (t mod 5) ∈ [−2, 2] -/
theorem eta2_map (t : Nat) (h : t < 15) : t - ((205 * t) >>> 10) * 5 = t % 5 := by
  rw [Nat.shiftRight_eq_div_pow]
  have : t = 0 ∨ t = 1 ∨ t = 2 ∨ t = 3 ∨ t = 4 ∨ t = 5 ∨ t = 6 ∨ t = 7 ∨ t = 8 ∨ t = 9 ∨ t = 10 ∨ t = 11 ∨ t = 12
      ∨ t = 13 ∨ t = 14 := by omega
  rcases this with h|h|h|h|h|h|h|h|h|h|h|h|h|h|h <;> subst h <;> decide

theorem eta2_range (t : Nat) (h : t < 15) : -2 ≤ (2 : Int) - ((t - ((205 * t) >>> 10) * 5 : Nat) : Int)
    ∧ (2 : Int) - ((t - ((205 * t) >>> 10) * 5 : Nat) : Int) ≤ 2 := by
  rw [eta2_map t h]; omega

/-- η = 4: a nibble t < 9 gives 4 − t ∈ [−4, 4] -/
theorem eta4_range (t : Nat) (h : t < 9) : -4 ≤ (4 : Int) - (t : Int) ∧ (4 : Int) - (t : Int) ≤ 4 := by omega

/-- block counts: matrix sampling starts with 5 SHAKE-128 blocks (840 bytes, a multiple of 3, so no carry-over bytes),
    secret sampling with one SHAKE-256 block, mask sampling with exactly the bytes of one packed polynomial -/
theorem block_counts : UNIFORM_NBLOCKS = 5 ∧ (UNIFORM_NBLOCKS * R128) % 3 = 0 ∧ R128 % 3 = 0 ∧ UNIFORM_ETA_NBLOCKS = 1
    ∧ UNIFORM_GAMMA1_NBLOCKS .l2 * R256 ≥ polyzOf .l2 ∧ UNIFORM_GAMMA1_NBLOCKS .l3 * R256 ≥ polyzOf .l3
    ∧ UNIFORM_GAMMA1_NBLOCKS .l5 * R256 ≥ polyzOf .l5 := by decide

/-- nonce layout of the vector samplers (ExpandA / ExpandMask indices fit in 16 bits) -/
theorem matrix_nonce (i j : Nat) (hi : i < 8) (hj : j < 7) : (asU16 (((i <<< 8) + j : Nat) : Int)).toNat = 256 * i + j := by
  unfold asU16; rw [Nat.shiftLeft_eq]; omega

/-- The byte-level rejection routine, for ANY buffer (also one too short to fill the output, a trailing partial
    sample, alen = 0): it returns exactly the accepted 23-bit candidates of the first `buflen` bytes, read three at a
    time in order, stopping after `alen` of them; the count is the number of values written; every value is in [0, q). -/
theorem rej_uniform_spec (alen acap : Nat) (buf : List Nat) (buflen : Nat) (hb : buflen ≤ buf.length) (hc : alen ≤ acap) :
    rej_uniform alen acap buf buflen = .ok (rejSpec alen (buf.take buflen) []) ∧
    (∀ x ∈ rejSpec alen (buf.take buflen) [], 0 ≤ x ∧ x < Q) ∧ (rejSpec alen (buf.take buflen) []).length ≤ alen := by
  refine ⟨rej_uniform_eq alen acap buf buflen hb hc, ?_⟩
  exact rejSpec_range alen (buf.take buflen) [] (by simp) (by simp)

example : rej_uniform 256 256 [0xFF, 0xFF, 0xFF, 0x01, 0x00, 0x00, 0x00, 0xE0, 0x7F, 0x05] 10 = .ok [1, 8380416] := by decide

end DV.C17
