import DilithiumVerif.Impl.PolyVec
import DilithiumVerif.Lemmas.Basic
import DilithiumVerif.Lemmas.Rej
import DilithiumVerif.Lemmas.RejEta
import DilithiumVerif.Lemmas.SamplerTotal
import DilithiumVerif.Lemmas.ChallengeWeight
import DilithiumVerif.Lemmas.UniformStream
import DilithiumVerif.Lemmas.EtaStream
import DilithiumVerif.Lemmas.SampleInBall
import DilithiumVerif.Lemmas.FuelMono
/-
  C17 — Samplers are the specification's functions of their seeds and stay in range.
  Part 1: the byte-level acceptance maps and their ranges.
-/
namespace DV.C17
open DV

theorem Q_val : Q = 8380417 := by decide

/-- the 23-bit candidate built from three bytes is below 2^23; it is accepted iff below q, so every value
    `rej_uniform` writes lies in [0, q) -/
theorem cand23_lt (b0 b1 b2 : Nat) : (b0 ||| (b1 <<< 8) ||| (b2 <<< 16)) &&& 0x7FFFFF < 8388608 := by
  have : (0x7FFFFF : Nat) = 2 ^ 23 - 1 := by decide
  rw [this, Nat.and_two_pow_sub_one_eq_mod]; exact Nat.mod_lt _ (by decide)

/-- η = 2: for a nibble t < 15 the code's `t − (205·t >> 10)·5` is t mod 5, hence the coefficient 2 − (t mod 5) ∈ [−2, 2] -/
theorem eta2_map (t : Nat) (h : t < 15) : t - ((205 * t) >>> 10) * 5 = t % 5 := by
  rw [Nat.shiftRight_eq_div_pow]
  have : t = 0 ∨ t = 1 ∨ t = 2 ∨ t = 3 ∨ t = 4 ∨ t = 5 ∨ t = 6 ∨ t = 7 ∨ t = 8 ∨ t = 9 ∨ t = 10 ∨ t = 11 ∨ t = 12
      ∨ t = 13 ∨ t = 14 := by omega
  rcases this with h|h|h|h|h|h|h|h|h|h|h|h|h|h|h <;> subst h <;> decide

theorem eta2_range (t : Nat) (h : t < 15) : -2 ≤ (2 : Int) - ((t - ((205 * t) >>> 10) * 5 : Nat) : Int)
    ∧ (2 : Int) - ((t - ((205 * t) >>> 10) * 5 : Nat) : Int) ≤ 2 := by
  rw [eta2_map t h]; omega

/-- η = 4: a nibble t < 9 gives 4 − t ∈ [−4, 4] -/
theorem eta4_range (t : Nat) (h : t < 9) : -4 ≤ (4 : Int) - (t : Int) ∧ (4 : Int) - (t : Int) ≤ 4 := by omega

/-- block counts: matrix sampling starts with 5 SHAKE-128 blocks (840 bytes, a multiple of 3, so no carry-over bytes),
    secret sampling with one SHAKE-256 block, mask sampling with exactly the bytes of one packed polynomial -/
theorem block_counts : UNIFORM_NBLOCKS = 5 ∧ (UNIFORM_NBLOCKS * R128) % 3 = 0 ∧ R128 % 3 = 0 ∧ UNIFORM_ETA_NBLOCKS = 1
    ∧ UNIFORM_GAMMA1_NBLOCKS .l2 * R256 ≥ polyzOf .l2 ∧ UNIFORM_GAMMA1_NBLOCKS .l3 * R256 ≥ polyzOf .l3
    ∧ UNIFORM_GAMMA1_NBLOCKS .l5 * R256 ≥ polyzOf .l5 := by decide

/-- nonce layout of the vector samplers (ExpandA / ExpandMask indices fit in 16 bits) -/
theorem matrix_nonce (i j : Nat) (hi : i < 8) (hj : j < 7) : (asU16 (((i <<< 8) + j : Nat) : Int)).toNat = 256 * i + j := by
  unfold asU16; rw [Nat.shiftLeft_eq]; omega

/-- The byte-level rejection routine, for ANY buffer (also one too short to fill the output, a trailing partial
    sample, alen = 0): it returns exactly the accepted 23-bit candidates of the first `buflen` bytes, read three at a
    time in order, stopping after `alen` of them; the count is the number of values written; every value is in [0, q). -/
theorem rej_uniform_spec (alen acap : Nat) (buf : List Nat) (buflen : Nat) (hb : buflen ≤ buf.length) (hc : alen ≤ acap) :
    rej_uniform alen acap buf buflen = .ok (rejSpec alen (buf.take buflen) []) ∧
    (∀ x ∈ rejSpec alen (buf.take buflen) [], 0 ≤ x ∧ x < Q) ∧ (rejSpec alen (buf.take buflen) []).length ≤ alen := by
  refine ⟨rej_uniform_eq alen acap buf buflen hb hc, ?_⟩
  exact rejSpec_range alen (buf.take buflen) [] (by simp) (by simp)

example : rej_uniform 256 256 [0xFF, 0xFF, 0xFF, 0x01, 0x00, 0x00, 0x00, 0xE0, 0x7F, 0x05] 10 = .ok [1, 8380416] := by decide

/-! ## The eta sampler, the ranges of all samplers, and their totality -/

/-- **`rej_eta` is the filter the specification describes**, for ANY buffer (FIPS 204 Alg. 33 / 15): the two half-bytes of
    each of the first `buflen` bytes, low nibble first, accepted when < 15 (η = 2, value 2 − (b mod 5)) resp. < 9
    (η = 4, value 4 − b), until `alen` values are found. -/
theorem rej_eta_spec (lv : Lvl) (alen : Nat) (buf : List Nat) (buflen : Nat) (hb : buflen ≤ buf.length) :
    rej_eta lv alen alen buf buflen = .ok (etaSpec lv alen (buf.take buflen) []) := rej_eta_eq lv alen buf buflen hb

/-- the code's branch-free `b − (205·b >> 10)·5` is b mod 5 on the accepted half-bytes -/
theorem eta2_is_mod5 (t : Nat) (h : t < 15) : (t - ((205 * t) >>> 10) * 5 : Nat) = t % 5 := halfByte_mod5 t h

open DV.Ranges in
/-- ranges of what the samplers return, for every seed and nonce on which they return: matrix entries in [0, q), secret
    coefficients in [−η, η] (η = 2, 4, 2), mask coefficients in (−γ1, γ1], challenge coefficients in {−1, 0, 1}; always
    exactly 256 coefficients -/
theorem sampler_ranges (p : Params) (fuel : Nat) (seed : List Nat) (nonce : Nat) :
    (∀ r, poly_uniform fuel seed nonce = .ok r → r.length = 256 ∧ ∀ x ∈ r, 0 ≤ x ∧ x < Q) ∧
    (∀ r, poly_uniform_eta p.lvl fuel seed nonce = .ok r → r.length = 256 ∧ ∀ x ∈ r, -(etaI p.lvl) ≤ x ∧ x ≤ etaI p.lvl) ∧
    (∀ r, poly_uniform_gamma1 p.lvl seed nonce = .ok r → r.length = 256 ∧ ∀ x ∈ r, -(gamma1Of p.lvl) < x ∧ x ≤ gamma1Of p.lvl) ∧
    (∀ r, poly_challenge p fuel seed = .ok r → r.length = 256 ∧ ∀ x ∈ r, x = -1 ∨ x = 0 ∨ x = 1) :=
  ⟨fun r h => poly_uniform_std fuel seed nonce r h, fun r h => poly_uniform_eta_small p.lvl fuel seed nonce r h,
   fun r h => uniform_gamma1_range p.lvl seed nonce r h, fun r h => challenge_tern p fuel seed r h⟩

open DV.SamplerTotal in
/-- the samplers never fault on seeds of the right length: they return a polynomial or the model's block budget runs out -/
theorem samplers_total (p : Params) (hp : p ∈ allParams) (fuel : Nat) (rho rhop ct : List Nat) (nonce : Nat)
    (h1 : rho.length = SEEDBYTES) (h2 : rhop.length = CRHBYTES) (h3 : ct.length = p.ctilde) :
    OkOrFuel (poly_uniform fuel rho nonce) (fun _ => True) ∧ OkOrFuel (poly_uniform_eta p.lvl fuel rhop nonce) (fun _ => True) ∧
    OkOrFuel (poly_challenge p fuel ct) (fun _ => True) :=
  ⟨(poly_uniform_total fuel rho nonce h1).mono (fun _ _ => trivial), (poly_uniform_eta_total p.lvl fuel rhop nonce h2).mono (fun _ _ => trivial),
   (poly_challenge_total p hp fuel ct h3).mono (fun _ _ => trivial)⟩

open DV.Ranges in
/-- **SampleInBall**: for each of the six parameter sets and every challenge seed on which it returns, the challenge has
    256 coefficients, all in {−1, 0, 1}, and exactly τ of them are non-zero. -/
theorem challenge_has_weight_tau (p : Params) (hp : p ∈ allParams) (fuel : Nat) (seed : List Nat) (c : List Int)
    (h : poly_challenge p fuel seed = .ok c) :
    (c.filter (fun x => x ≠ 0)).length = p.tau ∧ c.length = 256 ∧ ∀ x ∈ c, x = -1 ∨ x = 0 ∨ x = 1 := by
  obtain ⟨h1, h2⟩ := challenge_weight p hp fuel seed c h
  exact ⟨h1, h2.1, h2.2⟩

/-! ## The samplers as filters of the SHAKE output stream, including when further blocks are needed -/

open DV.UniformStream in
/-- **RejNTTPoly** (FIPS 204 Alg. 30): for every seed and nonce on which `poly::uniform` returns, the result is the first
    256 accepted 23-bit candidates (three stream bytes each, top bit dropped, accepted when < q: `cands`) of the first
    (5 + t)·168 bytes of the SHAKE-128 output stream of the absorbed seed ‖ nonce, t the number of extra blocks squeezed. -/
theorem matrix_sampler_is_stream_filter (fuel : Nat) (seed : List Nat) (nonce : Nat) (r : List Int)
    (h : poly_uniform fuel seed nonce = .ok r) :
    ∃ st t, shake128_stream_init seed nonce = .ok st ∧ r = (cands (stream128 st.s (5 + t))).take 256 ∧ r.length = 256 :=
  poly_uniform_is_stream_filter fuel seed nonce r h

open DV.EtaStream in
/-- **RejBoundedPoly** (FIPS 204 Alg. 31): for every seed and nonce on which `poly::uniform_eta` returns, the result is the
    first 256 accepted half-bytes (low nibble first, CoeffFromHalfByte: `etaCands`) of the first (1 + t)·136 bytes of the
    SHAKE-256 output stream, t the number of extra blocks squeezed. -/
theorem secret_sampler_is_stream_filter (lv : Lvl) (fuel : Nat) (seed : List Nat) (nonce : Nat) (r : List Int)
    (h : poly_uniform_eta lv fuel seed nonce = .ok r) :
    ∃ st t, shake256_stream_init seed nonce = .ok st ∧ r = (etaCands lv (stream256 st.s (1 + t))).take 256 ∧ r.length = 256 :=
  poly_uniform_eta_is_stream_filter lv fuel seed nonce r h

open DV.SampleInBall DV.XofSpec in
/-- **SampleInBall** (FIPS 204 Alg. 29): for every challenge seed c̃ on which `poly::<set>::challenge` returns, the result
    is `sampleInBall τ` of every sufficiently long prefix of the SHAKE-256 output stream H(c̃) — the first 8 bytes give
    the sign bits (little endian, least significant first), the following bytes feed the rejection sampling of
    j ∈ {0, …, i} for i = 256 − τ, …, 255 with c_i ← c_j, c_j ← ±1 — however many 136-byte blocks the loop had to squeeze. -/
theorem challenge_is_sample_in_ball (p : Params) (fuel : Nat) (seed : List Nat) (c : List Int) (hl : seed.length = p.ctilde)
    (h : poly_challenge p fuel seed = .ok c) :
    ∃ n, ∀ m, sampleInBall p.tau (SHAKE256 seed ((n + m) * R256)) = some c :=
  poly_challenge_is_sampleInBall p fuel seed c hl h

open DV.SampleInBall in
/-- the specification function on a concrete prefix (a test of the definition): τ = 2, sign bits 0b10, stream bytes
    0xFF (rejected: > 254), 3, 7 -/
example : sampleInBall 2 ([2, 0, 0, 0, 0, 0, 0, 0] ++ [0xFF, 3, 7]) =
    some ((((List.replicate 256 (0 : Int)).set 254 0).set 3 1).set 255 0 |>.set 7 (-1)) := by decide +kernel

/-- **the block budget of the model's rejection loops is immaterial**: whenever ExpandA, ExpandS (either half) or
    SampleInBall returns with budget `f`, it returns the same value with every larger budget. The constant `FUEL` with which
    key generation, signing and verification call them therefore decides only whether the model gives up (an outcome the
    Rust loops do not have), never what is returned. -/
theorem sampler_budget_irrelevant (p : Params) (f d : Nat) :
    (∀ rho m, matrix_expand p f rho = .ok m → matrix_expand p (f + d) rho = .ok m) ∧
    (∀ seed nonce v, l_uniform_eta p f seed nonce = .ok v → l_uniform_eta p (f + d) seed nonce = .ok v) ∧
    (∀ seed nonce v, k_uniform_eta p f seed nonce = .ok v → k_uniform_eta p (f + d) seed nonce = .ok v) ∧
    (∀ seed c, poly_challenge p f seed = .ok c → poly_challenge p (f + d) seed = .ok c) ∧
    (∀ seed nonce a, poly_uniform f seed nonce = .ok a → poly_uniform (f + d) seed nonce = .ok a) ∧
    (∀ lv seed nonce a, poly_uniform_eta lv f seed nonce = .ok a → poly_uniform_eta lv (f + d) seed nonce = .ok a) :=
  ⟨fun rho m h => FuelMono.matrix_expand_mono p f rho m h d,
   fun seed nonce v h => (FuelMono.uniform_eta_vec_mono p f seed nonce v d).1 h,
   fun seed nonce v h => (FuelMono.uniform_eta_vec_mono p f seed nonce v d).2 h,
   fun seed c h => FuelMono.poly_challenge_mono p f seed c h d,
   fun seed nonce a h => FuelMono.poly_uniform_mono f seed nonce a h d,
   fun lv seed nonce a h => FuelMono.poly_uniform_eta_mono lv f seed nonce a h d⟩

end DV.C17
