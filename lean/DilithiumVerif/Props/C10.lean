import DilithiumVerif.Props.C09
/-
  C10 — Operations are pure: results independent of call history.
  In the sequential machine of C09 the only state that survives a call is the RNG tape; operations that draw
  nothing neither read nor change it, so their result after any history equals their result in isolation.
  (The theorem is about the model; that the code has no other state is what the tie — interleaved execution on
  1..16 threads compared with isolated results — and the source scan check. The OS scheduler is not modelled.)
-/
namespace DV.C10
open DV DV.C09

/-- an operation that draws nothing returns the same output from every tape, and leaves the tape unchanged -/
theorem deterministic_op (op : Op) (h : draws op = 0) (t1 t2 : Tape) :
    (run t1 op).map (·.1) = (run t2 op).map (·.1) ∧ ∀ o t', run t1 op = .ok (o, t') → t' = t1 := by
  have e1 := run_spec t1 op (by omega)
  have e2 := run_spec t2 op (by omega)
  rw [h] at e1 e2
  simp only [List.take_zero, List.drop_zero] at e1 e2
  refine ⟨?_, ?_⟩
  · rw [e1, e2]; cases runWith [] op <;> rfl
  · intro o t' hr
    rw [e1] at hr
    cases hw : runWith [] op with
    | error e => rw [hw] at hr; cases hr
    | ok o' => rw [hw] at hr; injection hr with hr; injection hr with _ hr; exact hr.symm

/-- history independence: after any sequence of other operations (other keys, parameter sets, schemes) that
    completes, a drawing-free operation returns exactly what it returns from the initial state -/
theorem history_independent (history : List Op) (op : Op) (h : draws op = 0) (t0 t : Tape) (outs : List Out)
    (_hh : runAll t0 history = .ok (outs, t)) :
    (run t op).map (·.1) = (run t0 op).map (·.1) :=
  (deterministic_op op h t t0).1

/-- the drawing-free operations: seeded key generation, deterministic signing, verification -/
theorem drawing_free (p : Params) (fuel : Nat) (m sk sig pk s : List Nat) :
    draws (.keygen p (some s)) = 0 ∧ draws (.sign p fuel m sk false) = 0 ∧ draws (.verify p sig m pk) = 0 :=
  ⟨rfl, rfl, rfl⟩

end DV.C10
