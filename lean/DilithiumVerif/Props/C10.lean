import DilithiumVerif.Props.C09
import DilithiumVerif.Props.C02
/-
  C10 — Operations are pure: results independent of call history.
  In the sequential machine of C09 the only state that survives a call is the RNG tape; operations that draw
  nothing neither read nor change it, so their result after any history equals their result in isolation.
  (The theorem is about the model; that the code has no other state is what the tie — interleaved execution on
  1..16 threads compared with isolated results — and the source scan check. The OS scheduler is not modelled.)
-/
namespace DV.C10
open DV DV.C09

/-- an operation that draws nothing returns the same output from every tape, and leaves the tape unchanged -/
theorem deterministic_op (op : Op) (h : draws op = 0) (t1 t2 : Tape) :
    (run t1 op).map (·.1) = (run t2 op).map (·.1) ∧ ∀ o t', run t1 op = .ok (o, t') → t' = t1 := by
  have e1 := run_spec t1 op (by omega)
  have e2 := run_spec t2 op (by omega)
  rw [h] at e1 e2
  simp only [List.take_zero, List.drop_zero] at e1 e2
  refine ⟨?_, ?_⟩
  · rw [e1, e2]; cases runWith [] op <;> rfl
  · intro o t' hr
    rw [e1] at hr
    cases hw : runWith [] op with
    | error e => rw [hw] at hr; cases hr
    | ok o' => rw [hw] at hr; injection hr with hr; injection hr with _ hr; exact hr.symm

/-- history independence: after any sequence of other operations (other keys, parameter sets, schemes) that
    completes, a drawing-free operation returns exactly what it returns from the initial state -/
theorem history_independent (history : List Op) (op : Op) (h : draws op = 0) (t0 t : Tape) (outs : List Out)
    (_hh : runAll t0 history = .ok (outs, t)) :
    (run t op).map (·.1) = (run t0 op).map (·.1) :=
  (deterministic_op op h t t0).1

/-- the drawing-free operations: seeded key generation, deterministic signing, verification -/
theorem drawing_free (p : Params) (fuel : Nat) (m sk sig pk s : List Nat) :
    draws (.keygen p (some s)) = 0 ∧ draws (.sign p fuel m sk false) = 0 ∧ draws (.verify p sig m pk) = 0 :=
  ⟨rfl, rfl, rfl⟩

/-- the same at the API layer (containers, contexts, pre-hash, `Keypair` / `SecretKey` / `PublicKey` entry points): a call
    that draws nothing — seeded `Keypair::generate`, deterministic signing, ML-DSA signing refused for a long context,
    every verification — returns the same from every tape (that is: after any history) and leaves the tape as it was -/
theorem api_history_independent (op : ApiOp) (hp : ∀ p e, op = .generate p e → p ∈ allParams) (h : apiDraws op = 0) (t1 t2 : Tape) :
    (apiRun t1 op).map (·.1) = (apiRun t2 op).map (·.1) ∧ ∀ o t', apiRun t1 op = .ok (o, t') → t' = t1 := by
  have e1 := api_run_spec t1 op hp (by omega)
  have e2 := api_run_spec t2 op hp (by omega)
  rw [h] at e1 e2
  simp only [List.take_zero, List.drop_zero] at e1 e2
  refine ⟨?_, ?_⟩
  · rw [e1, e2]; cases apiRunWith [] op <;> rfl
  · intro o t' hr
    rw [e1] at hr
    cases hw : apiRunWith [] op with
    | error e => rw [hw] at hr; cases hr
    | ok o' => rw [hw] at hr; injection hr with hr; injection hr with _ hr; exact hr.symm

/-! ### Threads and schedules

  `rand::thread_rng()` is a per-thread generator, and the crate has no other state (source scan, the tie's
  interleaved runs): a pool of threads is therefore modelled as threads that each own their RNG tape and
  execute their operations atomically, in an order chosen by an arbitrary schedule (a list of thread numbers).
  What this model cannot exhibit is a data race *inside* an operation — there is no shared memory in the code
  for one to happen on; that is the assumption the source scan checks. -/

structure Thread where
  todo : List Op
  tape : Tape
  outs : List Out

/-- one thread performs its next operation (nothing left to do: unchanged) -/
def stepT (th : Thread) : Chk Thread :=
  match th.todo with
  | [] => .ok th
  | op :: rest =>
    match run th.tape op with
    | .error e => .error e
    | .ok (o, t') => .ok { todo := rest, tape := t', outs := th.outs ++ [o] }

def stepN : Nat → Thread → Chk Thread
  | 0, th => .ok th
  | n + 1, th =>
    match stepT th with
    | .error e => .error e
    | .ok th' => stepN n th'

abbrev Pool := Nat → Thread

/-- the scheduler lets thread `i` perform its next operation -/
def stepPool (s : Pool) (i : Nat) : Chk Pool :=
  match stepT (s i) with
  | .error e => .error e
  | .ok th' => .ok (fun j => if j = i then th' else s j)

def runSched : Pool → List Nat → Chk Pool
  | s, [] => .ok s
  | s, i :: rest =>
    match stepPool s i with
    | .error e => .error e
    | .ok s' => runSched s' rest

/-- **Schedule independence.** Whatever the schedule, every thread ends in the state it reaches by performing,
    on its own, as many of its operations as the schedule gave it turns: what other threads did, and when, has
    no influence on its outputs, its tape or its remaining work. -/
theorem schedule_independent (sched : List Nat) : ∀ (s s' : Pool), runSched s sched = .ok s' →
    ∀ i, stepN (sched.count i) (s i) = .ok (s' i) := by
  induction sched with
  | nil =>
    intro s s' h i
    simp only [runSched] at h
    injection h with h; subst h
    simp [stepN]
  | cons k rest ih =>
    intro s s' h i
    simp only [runSched] at h
    cases hp : stepPool s k with
    | error e => rw [hp] at h; cases h
    | ok s1 =>
      rw [hp] at h
      have hi := ih s1 s' h i
      unfold stepPool at hp
      cases ht : stepT (s k) with
      | error e => rw [ht] at hp; cases hp
      | ok th' =>
        rw [ht] at hp
        injection hp with hp; subst hp
        by_cases hik : i = k
        · subst hik
          simp only [List.count_cons_self, stepN, ht]
          simpa using hi
        · have hki : (k == i) = false := by simp; exact fun h => hik h.symm
          simp only [List.count_cons, hki] at *
          simpa [hik] using hi

/-- two schedules that give every thread the same number of turns (for instance: any two interleavings of the
    same per-thread programs) leave every thread in the same state -/
theorem schedule_irrelevant (s a b : Pool) (σ1 σ2 : List Nat)
    (h1 : runSched s σ1 = .ok a) (h2 : runSched s σ2 = .ok b) (hc : ∀ i, σ1.count i = σ2.count i) :
    ∀ i, a i = b i := by
  intro i
  have e1 := schedule_independent σ1 s a h1 i
  have e2 := schedule_independent σ2 s b h2 i
  rw [hc i, e2] at e1
  injection e1 with e1; exact e1.symm

/-- a thread on its own is the sequential machine of C09: performing all its operations gives `runAll` -/
theorem thread_is_sequential : ∀ (todo : List Op) (tape : Tape) (outs : List Out),
    stepN todo.length { todo := todo, tape := tape, outs := outs } =
      (runAll tape todo).map (fun r => { todo := [], tape := r.2, outs := outs ++ r.1 }) := by
  intro todo
  induction todo with
  | nil => intro tape outs; simp [stepN, runAll, Except.map]
  | cons op rest ih =>
    intro tape outs
    simp only [List.length_cons, stepN, stepT, runAll]
    cases hr : run tape op with
    | error e => simp [Except.map, bind, Except.bind]
    | ok r =>
      obtain ⟨o, t'⟩ := r
      simp only [ih t' (outs ++ [o])]
      cases hra : runAll t' rest with
      | error e => simp [Except.map, bind, Except.bind, hra]
      | ok r2 =>
        obtain ⟨os, t''⟩ := r2
        simp [Except.map, bind, Except.bind, hra, List.append_assoc]

/-- a drawing-free operation, whenever the scheduler lets its thread perform it and whatever that thread and all
    others did before: it appends exactly the output it has in isolation (from any tape `t0`) and leaves the
    thread's tape untouched -/
theorem pure_op_in_any_schedule (th th' : Thread) (op : Op) (rest : List Op) (t0 : Tape)
    (htodo : th.todo = op :: rest) (h : draws op = 0) (hs : stepT th = .ok th') :
    ∃ o, (run t0 op).map (·.1) = .ok o ∧ th'.outs = th.outs ++ [o] ∧ th'.tape = th.tape ∧ th'.todo = rest := by
  unfold stepT at hs
  rw [htodo] at hs
  simp only at hs
  cases hr : run th.tape op with
  | error e => rw [hr] at hs; cases hs
  | ok r =>
    obtain ⟨o, t'⟩ := r
    rw [hr] at hs
    injection hs with hs; subst hs
    have hd := deterministic_op op h th.tape t0
    refine ⟨o, ?_, rfl, hd.2 o t' hr, rfl⟩
    rw [← hd.1, hr]; rfl

/-- non-vacuity: a pool in which threads 0 and 1 verify (a drawing-free operation) under the schedule 0,1,1,0 -/
example : ∃ s', runSched (fun _ => { todo := [.verify P_lvl2 [] [] [], .verify P_lvl2 [] [] []], tape := [], outs := [] }) [0, 1, 1, 0] = .ok s' := by
  have hb : verify P_lvl2 [] [] [] = .ok false := C02.verify_length_gate P_lvl2 [] [] [] (by decide)
  simp [runSched, stepPool, stepT, run, hb, Except.map]

end DV.C10
