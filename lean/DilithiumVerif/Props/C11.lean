import DilithiumVerif.Impl.Api
import DilithiumVerif.Lemmas.Basic
/-
  C11 — Key containers serialize and deserialize losslessly.
  In the crate a key *is* its byte array: `to_bytes` clones it, `from_bytes` is `try_into().expect("")`.
  `.error` = the Rust panic (refused).
-/
namespace DV.C11
open DV

/-- from_bytes accepts exactly the byte strings of the advertised length and stores them unchanged -/
theorem from_bytes_iff (n : Nat) (b b' : List Nat) : from_bytes n b = .ok b' ↔ (b.length = n ∧ b' = b) := by
  unfold from_bytes
  by_cases h : b.length = n
  · simp [h, eq_comm]
  · simp [h]

/-- any other length is refused — never truncated or padded -/
theorem from_bytes_refuses (n : Nat) (b : List Nat) (h : b.length ≠ n) : from_bytes n b = .error .unwrap := by
  unfold from_bytes; simp [h]

/-- to_bytes ∘ from_bytes = id on accepted strings (to_bytes is the identity on the stored bytes) -/
theorem roundtrip (n : Nat) (b : List Nat) (h : b.length = n) : from_bytes n b = .ok b := by
  unfold from_bytes; simp [h]

/-- the pair's byte form is the secret key followed by the public key, and parsing splits exactly there -/
theorem keypair_from_to (p : Params) (sk pk : List Nat) (hs : sk.length = p.skBytes) (hp : pk.length = p.pkBytes) :
    keypair_from_bytes p (keypair_to_bytes sk pk) = .ok (sk, pk) := by
  unfold keypair_from_bytes keypair_to_bytes takeC dropC
  have h1 : p.skBytes ≤ (sk ++ pk).length := by simp [List.length_append, hs]
  simp only [h1, if_true, ok_bind]
  have ht : (sk ++ pk).take p.skBytes = sk := by rw [← hs]; exact List.take_left' rfl
  have hd : (sk ++ pk).drop p.skBytes = pk := by rw [← hs]; exact List.drop_left' rfl
  rw [ht, hd, roundtrip _ sk hs, roundtrip _ pk hp]; rfl

theorem keypair_to_from (p : Params) (b sk pk : List Nat) (h : keypair_from_bytes p b = .ok (sk, pk)) :
    keypair_to_bytes sk pk = b ∧ sk.length = p.skBytes ∧ pk.length = p.pkBytes ∧ b.length = p.skBytes + p.pkBytes := by
  unfold keypair_from_bytes at h
  obtain ⟨s, hs, h⟩ := bind_eq_ok.mp h
  obtain ⟨sk', hsk, h⟩ := bind_eq_ok.mp h
  obtain ⟨r, hr, h⟩ := bind_eq_ok.mp h
  obtain ⟨pk', hpk, h⟩ := bind_eq_ok.mp h
  injection h with h; injection h with h1 h2; subst h1; subst h2
  obtain ⟨hsl, rfl⟩ := (from_bytes_iff _ _ _).mp hsk
  obtain ⟨hrl, rfl⟩ := (from_bytes_iff _ _ _).mp hpk
  unfold takeC at hs; unfold dropC at hr
  by_cases hle : p.skBytes ≤ b.length
  · simp only [hle, if_true] at hs hr
    injection hs with hs; injection hr with hr; subst hs; subst hr
    refine ⟨by unfold keypair_to_bytes; exact List.take_append_drop _ _, hsl, hrl, ?_⟩
    simp only [List.length_drop] at hrl; omega
  · simp [hle] at hs

/-- a byte string of any other total length is refused -/
theorem keypair_refuses (p : Params) (b : List Nat) (h : b.length ≠ p.skBytes + p.pkBytes) :
    ∀ sk pk, keypair_from_bytes p b ≠ .ok (sk, pk) := by
  intro sk pk hk
  exact h (keypair_to_from p b sk pk hk).2.2.2

/-- the `Keypair` entry points answer as `SecretKey` / `PublicKey` do on the two halves of `Keypair::to_bytes`:
    signing (pure and pre-hash, ML-DSA and Dilithium) uses the secret half, verification the public half, nothing else -/
theorem keypair_entry_points (p : Params) (sk pk : List Nat) (hs : sk.length = p.skBytes) (hp : pk.length = p.pkBytes) :
    (∀ fuel msg ctx hedged tape, kp_mldsa_sign p fuel (keypair_to_bytes sk pk) msg ctx hedged tape = mldsa_sign p fuel sk msg ctx hedged tape) ∧
    (∀ fuel phm ctx hedged ph tape, kp_mldsa_prehash_sign p fuel (keypair_to_bytes sk pk) phm ctx hedged ph tape =
        mldsa_prehash_sign p fuel sk phm ctx hedged ph tape) ∧
    (∀ msg sig ctx, kp_mldsa_verify p (keypair_to_bytes sk pk) msg sig ctx = mldsa_verify p pk msg sig ctx) ∧
    (∀ phm sig ctx ph, kp_mldsa_prehash_verify p (keypair_to_bytes sk pk) phm sig ctx ph = mldsa_prehash_verify p pk phm sig ctx ph) ∧
    (∀ fuel msg, kp_dil_sign p fuel (keypair_to_bytes sk pk) msg = dil_sign p fuel sk msg) ∧
    (∀ msg sig, kp_dil_verify p (keypair_to_bytes sk pk) msg sig = dil_verify p pk msg sig) := by
  have h := keypair_from_to p sk pk hs hp
  refine ⟨?_, ?_, ?_, ?_, ?_, ?_⟩ <;> intros <;>
    simp only [kp_mldsa_sign, kp_mldsa_prehash_sign, kp_mldsa_verify, kp_mldsa_prehash_verify, kp_dil_sign, kp_dil_verify, h] <;> rfl

/-- a key pair of any other length is refused by every `Keypair` entry point (the `expect` of `from_bytes`, or the slice) -/
theorem keypair_entry_points_refuse (p : Params) (b : List Nat) (h : b.length ≠ p.skBytes + p.pkBytes) :
    (∀ msg sig ctx, ∃ e, kp_mldsa_verify p b msg sig ctx = .error e) ∧ (∀ msg sig, ∃ e, kp_dil_verify p b msg sig = .error e) := by
  obtain ⟨e, he⟩ : ∃ e, keypair_from_bytes p b = .error e := by
    cases hk : keypair_from_bytes p b with
    | error e => exact ⟨e, rfl⟩
    | ok r =>
      exfalso
      have := keypair_to_from p b r.1 r.2 hk
      exact h this.2.2.2
  refine ⟨fun _ _ _ => ⟨e, ?_⟩, fun _ _ => ⟨e, ?_⟩⟩ <;> simp only [kp_mldsa_verify, kp_dil_verify, he] <;> rfl

/-- standard lengths (regenerated from the source) -/
theorem standard_lengths :
    (P_lvl2.pkBytes, P_lvl2.skBytes, P_lvl2.sigBytes) = (1312, 2528, 2420) ∧
    (P_lvl3.pkBytes, P_lvl3.skBytes, P_lvl3.sigBytes) = (1952, 4000, 3293) ∧
    (P_lvl5.pkBytes, P_lvl5.skBytes, P_lvl5.sigBytes) = (2592, 4864, 4595) ∧
    (P_mldsa44.pkBytes, P_mldsa44.skBytes, P_mldsa44.sigBytes) = (1312, 2560, 2420) ∧
    (P_mldsa65.pkBytes, P_mldsa65.skBytes, P_mldsa65.sigBytes) = (1952, 4032, 3309) ∧
    (P_mldsa87.pkBytes, P_mldsa87.skBytes, P_mldsa87.sigBytes) = (2592, 4896, 4627) := by decide

example : from_bytes 3 [1, 2, 3] = .ok [1, 2, 3] ∧ from_bytes 3 [1, 2] = .error .unwrap := by decide

end DV.C11
