import DilithiumVerif.Props.C08
/-
  C03 — Verification decides exactly as the specification (strict decoding, bounds).
  Part 1: the decision logic stated outright on the model of `verify` — which inputs are rejected whatever
  the challenge hash says, and what acceptance means.  (The refinement of the arithmetic path to the FIPS 204
  ring operations is the subject of C13 and is not finished: partial.)
-/
namespace DV.C03
open DV

/-- a signature whose response has a coefficient of magnitude ≥ γ1−β is rejected — even when it is
    otherwise consistent with the challenge hash: the norm gate comes before the hash comparison -/
theorem rejects_large_z (p : Params) (sig m pk : List Nat) (rt : List Nat × PolyVec) (u : Bool × List Nat × PolyVec × PolyVec)
    (hl : sig.length = p.sigBytes) (hpk : unpack_pk p pk = .ok rt) (hu : unpack_sig p sig = .ok u) (hc : u.1 = true)
    (hz : vec_chknorm u.2.2.1 ((p.gamma1 : Int) - p.beta) = .ok 1) : verify p sig m pk = .ok false :=
  (C08.early_reject p sig m pk rt u hl hpk hu).2 hc hz

/-- a signature whose hint section is not the canonical encoding is rejected whatever else it contains -/
theorem rejects_noncanonical_hint (p : Params) (sig m pk : List Nat) (rt : List Nat × PolyVec) (u : Bool × List Nat × PolyVec × PolyVec)
    (hl : sig.length = p.sigBytes) (hpk : unpack_pk p pk = .ok rt) (hu : unpack_sig p sig = .ok u) (hc : u.1 = false) :
    verify p sig m pk = .ok false :=
  (C08.early_reject p sig m pk rt u hl hpk hu).1 hc

/-- what acceptance means: the length is exact, decoding succeeded canonically, the norm gate passed, and the
    challenge bytes of the signature equal H(μ ‖ w1Encode(w1′)) for the w1′ reconstructed from (sig, pk) -/
theorem accept_iff (p : Params) (sig m pk : List Nat) :
    verify p sig m pk = .ok true ↔
    ∃ trh c buf mu, verify_core p sig pk = .ok (some (trh, c, buf)) ∧ compute_mu trh p.trBytes m = .ok mu ∧
      compute_ctilde p mu buf = .ok c := by
  constructor
  · intro a
    unfold verify at a
    obtain ⟨core, hc, a⟩ := bind_eq_ok.mp a
    match core, a, hc with
    | none, a, _ => simp at a
    | some (trh, c, buf), a, hc =>
      simp only at a
      obtain ⟨mu, hm, a⟩ := bind_eq_ok.mp a
      obtain ⟨c2, hc2, a⟩ := bind_eq_ok.mp a
      injection a with a
      have e : c = c2 := of_decide_eq_true a
      exact ⟨trh, c, buf, mu, hc, hm, e ▸ hc2⟩
  · rintro ⟨trh, c, buf, mu, hc, hm, hc2⟩
    unfold verify
    rw [hc]; simp only [ok_bind, hm, hc2, decide_true]

/-- the core only produces a comparison when every gate passed -/
theorem core_some_gates (p : Params) (sig pk trh c buf : List Nat) (h : verify_core p sig pk = .ok (some (trh, c, buf))) :
    sig.length = p.sigBytes ∧ ∃ rt u, unpack_pk p pk = .ok rt ∧ unpack_sig p sig = .ok u ∧ u.1 = true ∧
      ∃ r, vec_chknorm u.2.2.1 ((p.gamma1 : Int) - p.beta) = .ok r ∧ ¬ 0 < r := by
  unfold verify_core at h
  split at h
  · rename_i hl
    obtain ⟨rt, hrt, h⟩ := bind_eq_ok.mp h
    obtain ⟨u, hu, h⟩ := bind_eq_ok.mp h
    split at h
    · rename_i hok
      obtain ⟨r, hr, h⟩ := bind_eq_ok.mp h
      split at h
      · cases h
      · rename_i hr0
        exact ⟨hl, rt, u, hrt, hu, hok, r, hr, hr0⟩
    · cases h
  · cases h

end DV.C03
