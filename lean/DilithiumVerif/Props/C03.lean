import DilithiumVerif.Props.C08
import DilithiumVerif.Impl.Api
import DilithiumVerif.Lemmas.VerifySpec
import DilithiumVerif.Lemmas.VerifyFips
/-
  C03 — Verification decides exactly as the specification (strict decoding, bounds).
  Part 1: the decision logic stated outright on the model of `verify` — which inputs are rejected whatever
  the challenge hash says, and what acceptance means.
  Part 2: `verify_iff_spec` — `verify` returns true exactly when FIPS 204 Alg. 8 / Dilithium 3.1 Verify accepts
  (`VerifyFips.IsAccepted`, stated with specification-level objects only), with strict decoding as a theorem.
-/
namespace DV.C03
open DV

/-- a signature whose response has a coefficient of magnitude ≥ γ1−β is rejected — even when it is
    otherwise consistent with the challenge hash: the norm gate comes before the hash comparison -/
theorem rejects_large_z (p : Params) (sig m pk : List Nat) (rt : List Nat × PolyVec) (u : Bool × List Nat × PolyVec × PolyVec)
    (hl : sig.length = p.sigBytes) (hpk : unpack_pk p pk = .ok rt) (hu : unpack_sig p sig = .ok u) (hc : u.1 = true)
    (hz : vec_chknorm u.2.2.1 ((p.gamma1 : Int) - p.beta) = .ok 1) : verify p sig m pk = .ok false :=
  (C08.early_reject p sig m pk rt u hl hpk hu).2 hc hz

/-- a signature whose hint section is not the canonical encoding is rejected whatever else it contains -/
theorem rejects_noncanonical_hint (p : Params) (sig m pk : List Nat) (rt : List Nat × PolyVec) (u : Bool × List Nat × PolyVec × PolyVec)
    (hl : sig.length = p.sigBytes) (hpk : unpack_pk p pk = .ok rt) (hu : unpack_sig p sig = .ok u) (hc : u.1 = false) :
    verify p sig m pk = .ok false :=
  (C08.early_reject p sig m pk rt u hl hpk hu).1 hc

/-- what acceptance means: the length is exact, decoding succeeded canonically, the norm gate passed, and the
    challenge bytes of the signature equal H(μ ‖ w1Encode(w1′)) for the w1′ reconstructed from (sig, pk) -/
theorem accept_iff (p : Params) (sig m pk : List Nat) :
    verify p sig m pk = .ok true ↔
    ∃ trh c buf mu, verify_core p sig pk = .ok (some (trh, c, buf)) ∧ compute_mu trh p.trBytes m = .ok mu ∧
      compute_ctilde p mu buf = .ok c := by
  constructor
  · intro a
    unfold verify at a
    obtain ⟨core, hc, a⟩ := bind_eq_ok.mp a
    match core, a, hc with
    | none, a, _ => simp at a
    | some (trh, c, buf), a, hc =>
      simp only at a
      obtain ⟨mu, hm, a⟩ := bind_eq_ok.mp a
      obtain ⟨c2, hc2, a⟩ := bind_eq_ok.mp a
      injection a with a
      have e : c = c2 := of_decide_eq_true a
      exact ⟨trh, c, buf, mu, hc, hm, e ▸ hc2⟩
  · rintro ⟨trh, c, buf, mu, hc, hm, hc2⟩
    unfold verify
    rw [hc]; simp only [ok_bind, hm, hc2, decide_true]

/-- the core only produces a comparison when every gate passed -/
theorem core_some_gates (p : Params) (sig pk trh c buf : List Nat) (h : verify_core p sig pk = .ok (some (trh, c, buf))) :
    sig.length = p.sigBytes ∧ ∃ rt u, unpack_pk p pk = .ok rt ∧ unpack_sig p sig = .ok u ∧ u.1 = true ∧
      ∃ r, vec_chknorm u.2.2.1 ((p.gamma1 : Int) - p.beta) = .ok r ∧ ¬ 0 < r := by
  unfold verify_core at h
  split at h
  · rename_i hl
    obtain ⟨rt, hrt, h⟩ := bind_eq_ok.mp h
    obtain ⟨u, hu, h⟩ := bind_eq_ok.mp h
    split at h
    · rename_i hok
      obtain ⟨r, hr, h⟩ := bind_eq_ok.mp h
      split at h
      · cases h
      · rename_i hr0
        exact ⟨hl, rt, u, hrt, hu, hok, r, hr, hr0⟩
    · cases h
  · cases h

/-! ## The decision in the specification's terms -/

open DV.Complete DV.RoundSem DV.VecSem DV.HintCodec in
/-- **Verification decides as the specification prescribes** (FIPS 204 Alg. 8 for ML-DSA, Dilithium 3.1 Verify for
    dilithium2/3/5), for each of the six sets and arbitrary bytes. For a public key of the right length decoding to
    (ρ, t1) with A = ExpandA(ρ), and a string of SIGNBYTES bytes that decodes canonically to (c̃, z, h) with
    c = SampleInBall(c̃): there is a unique w′ with coefficients in [0, q) equal to A·z − c·t1·2^13 in ℤ_q[X]/(X^256+1)
    (given by its 256 NTT-point values per row), w1′ = UseHint(h, w′) coefficient by coefficient (Spec.UseHint = FIPS 204
    Alg. 40), and
      verify = false                         if ‖z‖∞ ≥ γ1 − β,
      verify = [c̃ = H(μ ‖ w1Encode(w1′))]    otherwise,   μ = H(H(pk) ‖ M′).
    Together with `rejects_noncanonical_hint` (hint section not canonical ⇒ false) and
    `C08.wrong_length_is_false_not_fault` (any other length ⇒ false) this covers every byte string: in particular the
    boundary cases (‖z‖∞ = γ1 − β − 1, exactly ω hints) and signatures of other conforming signers are accepted exactly
    when the hash matches. -/
theorem verify_decides_as_spec (p : Params) (hp : p ∈ allParams) (sig m pk : List Nat) (hpk : pk.length = p.pkBytes)
    (hsl : sig.length = p.sigBytes) (hb : ∀ b ∈ sig, b < 256)
    (rho : List Nat) (t1 : PolyVec) (hupk : unpack_pk p pk = .ok (rho, t1))
    (mat : List PolyVec) (hme : matrix_expand p FUEL rho = .ok mat)
    (c : List Nat) (z h : PolyVec) (husig : unpack_sig p sig = .ok (true, c, z, h))
    (cp : Poly) (hcp : poly_challenge p FUEL c = .ok cp) :
    ∃ trh wv w1, shake256 CRHBYTES p.trBytes pk p.pkBytes = .ok trh ∧ wv.length = p.k ∧ (∀ a ∈ wv, Std a) ∧
      (∀ r, r < p.k → ∀ i, i < 256 →
        (El (wv.getD r []) i : K) = rowDot (mat.getD r []) z p.l i - ((8192 : Int) : K) * El cp i * El (t1.getD r []) i) ∧
      All3 (fun a hp' x => All3 (fun v u y => y = Spec.UseHint (gamma2Of p.lvl) u v) a hp' x) wv h w1 ∧
      verify p sig m pk =
        (if ∃ a ∈ z, ∃ x ∈ a, (p.gamma1 : Int) - p.beta ≤ C18.iabs x then .ok false
         else compute_mu trh p.trBytes m >>= fun mu => compute_ctilde p mu (k_pack_w1 p.lvl w1) >>= fun c2 => .ok (decide (c = c2))) :=
  verify_decision p hp sig m pk hpk hsl hb rho t1 hupk mat hme c z h husig cp hcp

/-! ## Verification = the specification's Verify, for arbitrary bytes -/

open DV.VerifyFips in
/-- **`verify` decides exactly as the specification.** For each of the six parameter sets, every public key of the
    standard length, every message (for ML-DSA: the framed M′ of C07) and every byte string offered as a signature — any
    length, any content: if `verify` returns b then b = true ⇔ `IsAccepted p pk M σ`, i.e. ⇔ σ = sigEncode(c̃, z, h) for a
    z in range and a 0/1 hint vector h of weight ≤ ω (strict decoding: no other byte string is accepted), pk =
    pkEncode(ρ, t1), ‖z‖∞ < γ1 − β and c̃ = H(H(H(pk) ‖ M) ‖ w1Encode(UseHint(h, A·z − c·t1·2^13))) with A = ExpandA(ρ)
    and c = SampleInBall(c̃) as functions of the SHAKE streams. -/
theorem verify_iff_spec (p : Params) (hp : p ∈ allParams) (sig m pk : List Nat) (hpk : pk.length = p.pkBytes)
    (hpb : ∀ b ∈ pk, b < 256) (hb : ∀ b ∈ sig, b < 256) (b : Bool) (hv : verify p sig m pk = .ok b) :
    b = true ↔ IsAccepted p pk m sig :=
  verify_iff_accepted p hp sig m pk hpk hpb hb b hv

open DV.HintCodec in
/-- **strict hint decoding** (FIPS 204 Alg. 21): whenever the decoder accepts an (ω + k)-byte hint section, that section
    is HintBitPack of the returned 0/1 vector — indices strictly increasing within each polynomial, running totals
    non-decreasing and ≤ ω, unused index bytes zero; every other byte string is refused -/
theorem hint_decoder_is_strict (omega : Nat) (ho : omega ≤ 255) (hs : List Nat) (k : Nat) (H : List Poly)
    (h : unpack_hints_go omega hs k 0 0 [] = .ok (some H)) (hl : hs.length = omega + k) :
    H.length = k ∧ (∀ hp ∈ H, Bits hp) ∧ (idxOf H).length ≤ omega ∧
      hs = idxOf H ++ List.replicate (omega - (idxOf H).length) 0 ++ cumsOf 0 H :=
  HintDecode.accepted_is_canonical omega ho hs k H h hl

open DV.VerifyFips DV.EncodeSpec DV.HintCodec in
/-- **sigDecode / pkDecode are the inverses of the encoders on every byte string of the right length** -/
theorem decoders_are_inverse_of_encoders (p : Params) (hp : p ∈ allParams) :
    (∀ pk rho t1, pk.length = p.pkBytes → (∀ b ∈ pk, b < 256) → unpack_pk p pk = .ok (rho, t1) →
        rho.length = SEEDBYTES ∧ t1.length = p.k ∧ (∀ a ∈ t1, Complete.T1OK a) ∧ pk = pkEncode rho t1) ∧
    (∀ sig ct z h, sig.length = p.sigBytes → (∀ b ∈ sig, b < 256) → unpack_sig p sig = .ok (true, ct, z, h) →
        ct.length = p.ctilde ∧ z.length = p.l ∧ (∀ a ∈ z, a.length = 256 ∧ ∀ x ∈ a, -(gamma1Of p.lvl) < x ∧ x ≤ gamma1Of p.lvl) ∧
        h.length = p.k ∧ (∀ a ∈ h, Bits a) ∧ (idxOf h).length ≤ p.omega ∧ sig = sigEncode p.lvl p.omega ct z h) :=
  ⟨fun pk rho t1 h1 h2 h3 => unpack_pk_spec p hp pk h1 h2 rho t1 h3,
   fun sig ct z h h1 h2 h3 => unpack_sig_spec p hp sig h1 h2 ct z h h3⟩

/-! ### the public entry points -/

open DV.VerifyFips in
theorem accepted_has_signature_length (p : Params) (hp : p ∈ allParams) (sig m pk : List Nat) (hpk : pk.length = p.pkBytes)
    (hb : ∀ b ∈ sig, b < 256) (h : IsAccepted p pk m sig) : sig.length = p.sigBytes := by
  by_cases hl : sig.length = p.sigBytes
  · exact hl
  · have := accepted_verify_true p hp sig m pk hpk hb false (verify_wrong_length p sig m pk hl) h
    cases this

open DV.VerifyFips in
/-- ML-DSA.Verify (FIPS 204 Alg. 3) and HashML-DSA.Verify (Alg. 5) through the API: true exactly when the context is at most
    255 bytes and Verify_internal accepts the framed message M′ (C07: M′ = 0 ‖ |ctx| ‖ ctx ‖ M, resp. 1 ‖ |ctx| ‖ ctx ‖ OID ‖ PH(M)) -/
theorem mldsa_verify_iff_spec (p : Params) (hp : p ∈ allParams) (pk msg sig : List Nat) (ctx : Option (List Nat))
    (hpk : pk.length = p.pkBytes) (hpb : ∀ b ∈ pk, b < 256) (hb : ∀ b ∈ sig, b < 256) (b : Bool)
    (hv : mldsa_verify p pk msg sig ctx = .ok b) :
    b = true ↔ ∃ m, frame_pure msg ctx = some m ∧ IsAccepted p pk m sig := by
  unfold mldsa_verify at hv
  by_cases hl : sig.length ≠ p.sigBytes
  · rw [if_pos hl] at hv; injection hv with hv; subst hv
    refine ⟨fun h => (by cases h), fun ⟨m, _, hA⟩ => absurd (accepted_has_signature_length p hp sig m pk hpk hb hA) hl⟩
  · rw [if_neg hl] at hv
    cases hf : frame_pure msg ctx with
    | none => rw [hf] at hv; injection hv with hv; subst hv; exact ⟨fun h => (by cases h), fun ⟨m, hm, _⟩ => by cases hm⟩
    | some m =>
      rw [hf] at hv
      simp only at hv
      have := verify_iff_accepted p hp sig m pk hpk hpb hb b hv
      exact ⟨fun h => ⟨m, rfl, this.mp h⟩, fun ⟨m', hm', hA⟩ => by injection hm' with hm'; subst hm'; exact this.mpr hA⟩

open DV.VerifyFips in
theorem mldsa_prehash_verify_iff_spec (p : Params) (hp : p ∈ allParams) (pk phm sig : List Nat) (ctx : Option (List Nat)) (ph : PH)
    (hpk : pk.length = p.pkBytes) (hpb : ∀ b ∈ pk, b < 256) (hb : ∀ b ∈ sig, b < 256) (b : Bool)
    (hv : mldsa_prehash_verify p pk phm sig ctx ph = .ok b) :
    b = true ↔ ∃ m, frame_prehash phm ctx ph = some m ∧ IsAccepted p pk m sig := by
  unfold mldsa_prehash_verify at hv
  by_cases hl : sig.length ≠ p.sigBytes
  · rw [if_pos hl] at hv; injection hv with hv; subst hv
    refine ⟨fun h => (by cases h), fun ⟨m, _, hA⟩ => absurd (accepted_has_signature_length p hp sig m pk hpk hb hA) hl⟩
  · rw [if_neg hl] at hv
    cases hf : frame_prehash phm ctx ph with
    | none => rw [hf] at hv; injection hv with hv; subst hv; exact ⟨fun h => (by cases h), fun ⟨m, hm, _⟩ => by cases hm⟩
    | some m =>
      rw [hf] at hv
      simp only at hv
      have := verify_iff_accepted p hp sig m pk hpk hpb hb b hv
      exact ⟨fun h => ⟨m, rfl, this.mp h⟩, fun ⟨m', hm', hA⟩ => by injection hm' with hm'; subst hm'; exact this.mpr hA⟩

open DV.VerifyFips in
/-- Dilithium 3.1 Verify through the API -/
theorem dil_verify_iff_spec (p : Params) (hp : p ∈ allParams) (pk msg sig : List Nat)
    (hpk : pk.length = p.pkBytes) (hpb : ∀ b ∈ pk, b < 256) (hb : ∀ b ∈ sig, b < 256) (b : Bool)
    (hv : dil_verify p pk msg sig = .ok b) : b = true ↔ IsAccepted p pk msg sig := by
  unfold dil_verify at hv
  by_cases hl : sig.length ≠ p.sigBytes
  · rw [if_pos hl] at hv; injection hv with hv; subst hv
    exact ⟨fun h => (by cases h), fun hA => absurd (accepted_has_signature_length p hp sig msg pk hpk hb hA) hl⟩
  · rw [if_neg hl] at hv
    exact verify_iff_accepted p hp sig msg pk hpk hpb hb b hv

end DV.C03
