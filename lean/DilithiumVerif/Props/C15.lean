import DilithiumVerif.Lemmas.Rounding
/-
  C15 — Rounding reconstructs, and hints recover exactly the signer's high bits.
  Impl functions return `(a0, a1)` (Rust order); Spec functions return `(r1, r0)` (FIPS 204 order).
  `= .ok v` : the overflow-checked build returns v without panicking (hence so does the wrapping build).
  Helper lemmas (pure forms, arithmetic cores) are in Lemmas/Rounding.lean.
-/
namespace DV.C15
open DV

/-- parameter identities the code relies on, re-checked on the constants generated from /repo -/
theorem gamma2_88 : (Q - 1) = 88 * gamma2Of .l2 := by decide
theorem gamma2_32 : (Q - 1) = 32 * gamma2Of .l3 ∧ (Q - 1) = 32 * gamma2Of .l5 := by decide
theorem q_is : Q = Spec.q := by decide

/-- Power-of-two rounding: a = a1·2^13 + a0 with −2^12 < a0 ≤ 2^12 for every a in [0, q). -/
theorem power2round_spec (a : Int) (h : 0 ≤ a ∧ a < Q) :
    ∃ a0 a1, power2round a = .ok (a0, a1) ∧ a = a1 * 8192 + a0 ∧ -4096 < a0 ∧ a0 ≤ 4096
      ∧ 0 ≤ a1 ∧ a1 ≤ 1023 := by
  refine ⟨(p2r a).1, (p2r a).2, power2round_eq a h, ?_⟩
  rw [Q_val] at h; simp only [p2r]; omega

/-- … and it is the standard's Power2Round (FIPS 204 Alg. 35) -/
theorem power2round_eq_spec (a : Int) (h : 0 ≤ a ∧ a < Q) :
    power2round a = .ok ((Spec.Power2Round a).2, (Spec.Power2Round a).1) := by
  rw [power2round_eq a h]; rw [Q_val] at h
  simp only [p2r, Spec.Power2Round, Spec.modpm, Spec.q, Int.reduceDiv, Int.emod_eq_of_lt h.1 h.2]
  generalize hm : a % 8192 = m
  congr 2
  · split <;> omega
  · split <;> omega

/-- High/low decomposition, γ2 = (q−1)/88: a1 ∈ [0,44), a ≡ a1·2γ2 + a0 (mod q), |a0| ≤ γ2; the value
    a0 = −γ2 occurs only in the wrap-around at q−1, which is mapped to a1 = 0. -/
theorem decompose88_spec (a : Int) (h : 0 ≤ a ∧ a < Q) :
    ∃ a0 a1, decompose .l2 a = .ok (a0, a1) ∧ 0 ≤ a1 ∧ a1 < 44 ∧ (a1 * (2 * 95232) + a0 - a) % Q = 0
      ∧ -95232 ≤ a0 ∧ a0 ≤ 95232 ∧ (a0 = -95232 → a1 = 0 ∧ Q - 1 - 95232 < a) := by
  refine ⟨(dec88 a).1, (dec88 a).2, decompose88_eq a h, ?_⟩
  rw [Q_val] at *
  have hc := dec88_char a h
  generalize (dec88 a).1 = r0 at *
  generalize (dec88 a).2 = r1 at *
  omega

/-- the same for γ2 = (q−1)/32 (lvl3 and lvl5 copies): a1 ∈ [0,16) -/
theorem decompose32_spec (lv : Lvl) (hl : lv = .l3 ∨ lv = .l5) (a : Int) (h : 0 ≤ a ∧ a < Q) :
    ∃ a0 a1, decompose lv a = .ok (a0, a1) ∧ 0 ≤ a1 ∧ a1 < 16 ∧ (a1 * (2 * 261888) + a0 - a) % Q = 0
      ∧ -261888 ≤ a0 ∧ a0 ≤ 261888 ∧ (a0 = -261888 → a1 = 0 ∧ Q - 1 - 261888 < a) := by
  refine ⟨(dec32 a).1, (dec32 a).2, decompose32_eq lv hl a h, ?_⟩
  rw [Q_val] at *
  have hc := dec32_char a h
  generalize (dec32 a).1 = r0 at *
  generalize (dec32 a).2 = r1 at *
  omega

/-- decompose = FIPS 204 Algorithm 36, γ2 = (q−1)/88 -/
theorem decompose88_eq_spec (a : Int) (h : 0 ≤ a ∧ a < Q) :
    decompose .l2 a = .ok ((Spec.Decompose 95232 a).2, (Spec.Decompose 95232 a).1) := by
  rw [decompose88_eq a h, dec88_eq_spec a (by rw [Q_val] at h; exact h)]

/-- decompose = FIPS 204 Algorithm 36, γ2 = (q−1)/32 -/
theorem decompose32_eq_spec (lv : Lvl) (hl : lv = .l3 ∨ lv = .l5) (a : Int) (h : 0 ≤ a ∧ a < Q) :
    decompose lv a = .ok ((Spec.Decompose 261888 a).2, (Spec.Decompose 261888 a).1) := by
  rw [decompose32_eq lv hl a h, dec32_eq_spec a (by rw [Q_val] at h; exact h)]

/-- UseHint ∘ MakeHint recovers the signer's high bits (γ2 = (q−1)/88): for every w1 ∈ [0,44) and every
    low-part sum |a0| < 2γ2 (a superset of what the signer can emit, |a0| < 2γ2 − β), applying the hint the
    signer computes to the verifier's value (w1·2γ2 + a0) mod q returns exactly w1. -/
theorem use_hint_make_hint_88 (w1 a0 : Int) (hw : 0 ≤ w1 ∧ w1 < 44) (ha : -(2 * 95232) < a0 ∧ a0 < 2 * 95232) :
    use_hint .l2 ((w1 * (2 * 95232) + a0) % Q) (make_hint .l2 a0 w1) = .ok w1 := by
  rw [Q_val]
  rw [use_hint88_eq _ _ (by rw [Q_val]; omega), make_hint_l2]
  have := uh88_mh w1 a0 hw (by omega)
  simp only [Int.reduceMul] at this ⊢
  rw [this]

/-- the same for γ2 = (q−1)/32 (lvl3 and lvl5 copies) -/
theorem use_hint_make_hint_32 (lv : Lvl) (hl : lv = .l3 ∨ lv = .l5) (w1 a0 : Int) (hw : 0 ≤ w1 ∧ w1 < 16)
    (ha : -(2 * 261888) < a0 ∧ a0 < 2 * 261888) :
    use_hint lv ((w1 * (2 * 261888) + a0) % Q) (make_hint lv a0 w1) = .ok w1 := by
  rw [Q_val]
  rw [use_hint32_eq lv hl _ _ (by rw [Q_val]; omega), make_hint_l3 lv hl]
  have := uh32_mh w1 a0 hw (by omega)
  simp only [Int.reduceMul] at this ⊢
  rw [this]

/-- the signer's hint bit is the specification's: it is 1 exactly when the high bits of the verifier's
    value differ from w1 (FIPS 204 MakeHint(−ct0, w − cs2 + ct0) with HighBits(w − cs2) = w1) -/
theorem make_hint_eq_spec_88 (w1 a0 : Int) (hw : 0 ≤ w1 ∧ w1 < 44) (ha : -(2 * 95232) < a0 ∧ a0 < 2 * 95232) :
    make_hint .l2 a0 w1 = 1 ↔ Spec.HighBits 95232 ((w1 * (2 * 95232) + a0) % Spec.q) ≠ w1 := by
  rw [make_hint_l2]
  have := mh88_iff w1 a0 hw (by omega)
  simpa only [Int.reduceMul, Spec.q] using this

theorem make_hint_eq_spec_32 (lv : Lvl) (hl : lv = .l3 ∨ lv = .l5) (w1 a0 : Int) (hw : 0 ≤ w1 ∧ w1 < 16)
    (ha : -(2 * 261888) < a0 ∧ a0 < 2 * 261888) :
    make_hint lv a0 w1 = 1 ↔ Spec.HighBits 261888 ((w1 * (2 * 261888) + a0) % Spec.q) ≠ w1 := by
  rw [make_hint_l3 lv hl]
  have := mh32_iff w1 a0 hw (by omega)
  simpa only [Int.reduceMul, Spec.q] using this

/-- make_hint only ever returns 0 or 1 -/
theorem make_hint_bit (lv : Lvl) (a0 a1 : Int) : make_hint lv a0 a1 = 0 ∨ make_hint lv a0 a1 = 1 := by
  simp only [make_hint]; split <;> simp

/-- hint application = FIPS 204 Algorithm 40 for every a ∈ [0,q) and hint bit, result in [0, m) -/
theorem use_hint_eq_spec_88 (a hint : Int) (h : 0 ≤ a ∧ a < Q) (hh : hint = 0 ∨ hint = 1) :
    use_hint .l2 a hint = .ok (Spec.UseHint 95232 hint a)
    ∧ 0 ≤ Spec.UseHint 95232 hint a ∧ Spec.UseHint 95232 hint a < 44 := by
  have h' : 0 ≤ a ∧ a < 8380417 := by rw [Q_val] at h; exact h
  rw [use_hint88_eq a hint h, ← uh88_eq_spec a hint h' hh]
  exact ⟨rfl, uh88_range a hint h'⟩

theorem use_hint_eq_spec_32 (lv : Lvl) (hl : lv = .l3 ∨ lv = .l5) (a hint : Int) (h : 0 ≤ a ∧ a < Q)
    (hh : hint = 0 ∨ hint = 1) :
    use_hint lv a hint = .ok (Spec.UseHint 261888 hint a)
    ∧ 0 ≤ Spec.UseHint 261888 hint a ∧ Spec.UseHint 261888 hint a < 16 := by
  have h' : 0 ≤ a ∧ a < 8380417 := by rw [Q_val] at h; exact h
  rw [use_hint32_eq lv hl a hint h, ← uh32_eq_spec a hint h' hh]
  exact ⟨rfl, uh32_range a hint h'⟩

/-! non-vacuity: the corners named in DESIGN.md -/
example : decompose .l2 8380416 = .ok (-1, 0) := by decide            -- a = q−1 (wrap)
example : decompose .l2 (8380416 - 95232) = .ok (95232, 43) := by decide  -- a = q−1−γ2
example : decompose .l2 (8380416 - 95231) = .ok (-95232, 0) := by decide  -- a0 = −γ2 only in the wrap
example : decompose .l3 8380416 = .ok (-1, 0) := by decide
example : decompose .l5 (8380416 - 261887) = .ok (-261888, 0) := by decide
example : use_hint .l2 ((43 * 190464 + 95233) % 8380417) (make_hint .l2 95233 43) = .ok 43 := by decide
example : make_hint .l2 (-95232) 0 = 0 ∧ make_hint .l2 (-95232) 5 = 1 ∧ make_hint .l2 (-95233) 0 = 1 := by decide
example : power2round 8380416 = .ok (0, 1023) := by decide

end DV.C15
