import DilithiumVerif.Impl.Api
import DilithiumVerif.Lemmas.Basic
/-
  C07 — ML-DSA context and mode framing gives domain separation.
-/
namespace DV.C07
open DV

/-- the pure-mode message representative is FIPS 204's 0 ‖ |ctx| ‖ ctx ‖ M, an absent context being the empty one -/
theorem frame_pure_some (msg ctx : List Nat) (h : ctx.length ≤ 255) :
    frame_pure msg (some ctx) = some ([0, ctx.length] ++ ctx ++ msg) := by
  simp only [frame_pure]
  rw [if_neg (by omega), Nat.mod_eq_of_lt (by omega)]
theorem frame_pure_none (msg : List Nat) : frame_pure msg none = frame_pure msg (some []) := by
  unfold frame_pure; simp

/-- the pre-hash representative is 1 ‖ |ctx| ‖ ctx ‖ OID(H) ‖ H(M) -/
theorem frame_prehash_some (phm ctx : List Nat) (ph : PH) (h : ctx.length ≤ 255) :
    frame_prehash phm (some ctx) ph = some ([1, ctx.length] ++ ctx ++ oidOf ph ++ phm) := by
  simp only [frame_prehash]
  rw [if_neg (by omega), Nat.mod_eq_of_lt (by omega)]
theorem frame_prehash_none (phm : List Nat) (ph : PH) : frame_prehash phm none ph = frame_prehash phm (some []) ph := by
  unfold frame_prehash; simp

/-- the OIDs of the model are the DER encodings of id-sha256 / id-sha512 (2.16.840.1.101.3.4.2.{1,3}), and every
    OID-shaped literal found anywhere in /repo/src (regenerated constants: 11-entry byte arrays starting with the DER
    tag 0x06, wherever the code keeps them) is one of the two. (That the code *uses* them in the framing is the tie.) -/
theorem oids : oidOf .sha256 = [0x06, 0x09, 0x60, 0x86, 0x48, 0x01, 0x65, 0x03, 0x04, 0x02, 0x01]
    ∧ oidOf .sha512 = [0x06, 0x09, 0x60, 0x86, 0x48, 0x01, 0x65, 0x03, 0x04, 0x02, 0x03]
    ∧ ∀ o ∈ Gen.OIDS_all, o = oidOf .sha256 ∨ o = oidOf .sha512 := by decide

/-- a context longer than 255 bytes: signing returns no signature (and draws nothing), verification returns false -/
theorem ctx_too_long (p : Params) (fuel : Nat) (sk pk msg sig ctx : List Nat) (hedged : Bool) (tape : Tape) (ph : PH)
    (h : 255 < ctx.length) :
    mldsa_sign p fuel sk msg (some ctx) hedged tape = .ok (none, tape) ∧
    mldsa_prehash_sign p fuel sk msg (some ctx) hedged ph tape = .ok (none, tape) ∧
    mldsa_verify p pk msg sig (some ctx) = .ok false ∧
    mldsa_prehash_verify p pk msg sig (some ctx) ph = .ok false := by
  have h1 : frame_pure msg (some ctx) = none := by simp only [frame_pure]; rw [if_pos h]
  have h2 : frame_prehash msg (some ctx) ph = none := by simp only [frame_prehash]; rw [if_pos h]
  refine ⟨?_, ?_, ?_, ?_⟩
  · unfold mldsa_sign; rw [h1]
  · unfold mldsa_prehash_sign; rw [h2]
  · unfold mldsa_verify; rw [h1]; split <;> rfl
  · unfold mldsa_prehash_verify; rw [h2]; split <;> rfl

theorem append_inj_len {α} (a b c d : List α) (h : a ++ c = b ++ d) (hl : a.length = b.length) : a = b ∧ c = d :=
  List.append_inj h hl

/-- pure-mode framing is injective: different (ctx, message) pairs give different representatives,
    even when ctx ‖ M is the same byte string -/
theorem frame_pure_injective (m1 m2 c1 c2 : List Nat) (h1 : c1.length ≤ 255) (h2 : c2.length ≤ 255)
    (h : frame_pure m1 (some c1) = frame_pure m2 (some c2)) : c1 = c2 ∧ m1 = m2 := by
  rw [frame_pure_some _ _ h1, frame_pure_some _ _ h2] at h
  injection h with h
  simp only [List.cons_append, List.nil_append, List.cons.injEq, true_and] at h
  obtain ⟨hl, h⟩ := h
  exact List.append_inj h hl

/-- pre-hash framing is injective in (ctx, hash function, digest) for digests of equal length -/
theorem frame_prehash_injective (d1 d2 c1 c2 : List Nat) (p1 p2 : PH) (h1 : c1.length ≤ 255) (h2 : c2.length ≤ 255)
    (h : frame_prehash d1 (some c1) p1 = frame_prehash d2 (some c2) p2) : c1 = c2 ∧ p1 = p2 ∧ d1 = d2 := by
  rw [frame_prehash_some _ _ _ h1, frame_prehash_some _ _ _ h2] at h
  injection h with h
  simp only [List.cons_append, List.nil_append, List.cons.injEq, true_and, List.append_assoc] at h
  obtain ⟨hl, h⟩ := h
  obtain ⟨hc, h⟩ := List.append_inj h hl
  have hol : (oidOf p1).length = (oidOf p2).length := by cases p1 <;> cases p2 <;> rfl
  obtain ⟨ho, hd⟩ := List.append_inj h hol
  refine ⟨hc, ?_, hd⟩
  cases p1 <;> cases p2 <;> first | rfl | (exfalso; revert ho; decide)

theorem frame_pure_head (m : List Nat) (c : Option (List Nat)) (x : List Nat) (h : frame_pure m c = some x) :
    x.head? = some 0 := by
  unfold frame_pure at h
  cases c with
  | none => simp only at h; injection h with h; subst h; rfl
  | some c =>
    simp only at h
    split at h
    · cases h
    · injection h with h; subst h; rfl

theorem frame_prehash_head (d : List Nat) (c : Option (List Nat)) (ph : PH) (x : List Nat)
    (h : frame_prehash d c ph = some x) : x.head? = some 1 := by
  unfold frame_prehash at h
  cases c with
  | none => simp only at h; injection h with h; subst h; rfl
  | some c =>
    simp only at h
    split at h
    · cases h
    · injection h with h; subst h; rfl

/-- the two modes never produce the same representative (first byte 0 vs 1) -/
theorem pure_ne_prehash (m d : List Nat) (c1 c2 : Option (List Nat)) (ph : PH) (x : List Nat)
    (h1 : frame_pure m c1 = some x) (h2 : frame_prehash d c2 ph = some x) : False := by
  have a := frame_pure_head m c1 x h1
  have b := frame_prehash_head d c2 ph x h2
  rw [a] at b; cases b

/-- Domain separation as a collision statement.  If one signature is accepted for two *different* message
    representatives under the same public key, then the two accepting runs exhibit a SHAKE-256 collision:
    either μ = H(tr ‖ M′) coincides for M′₁ ≠ M′₂, or c̃ = H(μ ‖ w1) coincides for μ₁ ≠ μ₂. Both colliding
    inputs are explicit. (Acceptance under another (ctx, mode, hash) is such a pair by the injectivity theorems.) -/
theorem cross_acceptance_collision (p : Params) (sig pk m1 m2 : List Nat)
    (a1 : verify p sig m1 pk = .ok true) (a2 : verify p sig m2 pk = .ok true) :
    ∃ trh w, ∃ mu1 mu2 c, compute_mu trh p.trBytes m1 = .ok mu1 ∧ compute_mu trh p.trBytes m2 = .ok mu2 ∧
      compute_ctilde p mu1 w = .ok c ∧ compute_ctilde p mu2 w = .ok c := by
  unfold verify at a1 a2
  obtain ⟨core, hc, a1⟩ := bind_eq_ok.mp a1
  obtain ⟨core', hc', a2⟩ := bind_eq_ok.mp a2
  rw [hc] at hc'; injection hc' with hc'; subst hc'
  match core, a1, a2 with
  | none, a1, _ => simp at a1
  | some (trh, c, buf), a1, a2 =>
    simp only at a1 a2
    obtain ⟨mu1, hm1, a1⟩ := bind_eq_ok.mp a1
    obtain ⟨c1, hc1, a1⟩ := bind_eq_ok.mp a1
    obtain ⟨mu2, hm2, a2⟩ := bind_eq_ok.mp a2
    obtain ⟨c2, hc2, a2⟩ := bind_eq_ok.mp a2
    injection a1 with a1; injection a2 with a2
    have e1 : c = c1 := of_decide_eq_true a1
    have e2 : c = c2 := of_decide_eq_true a2
    exact ⟨trh, buf, mu1, mu2, c, hm1, hm2, e1 ▸ hc1, e2 ▸ hc2⟩

example : frame_pure [0x63] (some [0x61, 0x62]) ≠ frame_pure [0x62, 0x63] (some [0x61]) := by decide

end DV.C07
