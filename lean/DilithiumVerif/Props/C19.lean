import DilithiumVerif.Impl.PolyVec
import DilithiumVerif.Lemmas.Basic
/-
  C19 — Vector and matrix operations are exact component-wise lifts.
  The Rust loops `for i in 0..K { op(&mut v.vec[i]) }` are modelled with `mapL` / `zipL`; the theorems
  below say what a successful run of such a loop returns: one result per component, in order, each the
  polynomial operation applied to the corresponding component(s), and nothing else.
-/
namespace DV.C19
open DV

theorem mapL_spec {α β} (f : α → Chk β) : ∀ (l : List α) (r : List β), mapL f l = .ok r →
    r.length = l.length ∧ ∀ i (h : i < l.length) (h' : i < r.length), f l[i] = .ok r[i] := by
  intro l
  induction l with
  | nil => intro r h; simp [mapL] at h; subst h; simp
  | cons x xs ih =>
    intro r h
    unfold mapL at h
    obtain ⟨y, hy, h⟩ := bind_eq_ok.mp h
    obtain ⟨ys, hys, h⟩ := bind_eq_ok.mp h
    injection h with h; subst h
    obtain ⟨hl, hi⟩ := ih ys hys
    refine ⟨by simp [hl], ?_⟩
    intro i h1 h2
    cases i with
    | zero => simpa using hy
    | succ j => simpa using hi j (by simpa using h1) (by simpa using h2)

theorem zipL_spec {α β γ} (f : α → β → Chk γ) : ∀ (a : List α) (b : List β) (r : List γ), zipL f a b = .ok r →
    a.length = b.length ∧ r.length = a.length ∧
    ∀ i (h : i < a.length) (hb : i < b.length) (h' : i < r.length), f a[i] b[i] = .ok r[i] := by
  intro a
  induction a with
  | nil =>
    intro b r h
    cases b with
    | nil => simp [zipL] at h; subst h; simp
    | cons _ _ => simp [zipL] at h
  | cons x xs ih =>
    intro b r h
    cases b with
    | nil => simp [zipL] at h
    | cons y ys =>
      unfold zipL at h
      obtain ⟨z, hz, h⟩ := bind_eq_ok.mp h
      obtain ⟨zs, hzs, h⟩ := bind_eq_ok.mp h
      injection h with h; subst h
      obtain ⟨hl, hr, hi⟩ := ih ys zs hzs
      refine ⟨by simp [hl], by simp [hr], ?_⟩
      intro i h1 h2 h3
      cases i with
      | zero => simpa using hz
      | succ j => simpa using hi j (by simpa using h1) (by simpa using h2) (by simpa using h3)

/-- unary lifts: l_reduce / k_reduce / k_caddq / l_ntt / k_ntt / l_invntt_tomont / k_invntt_tomont -/
theorem vec_unary_lift (v r : PolyVec) :
    (vec_reduce v = .ok r → r.length = v.length ∧ ∀ i (h : i < v.length) (h' : i < r.length), poly_reduce v[i] = .ok r[i]) ∧
    (vec_caddq v = .ok r → r.length = v.length ∧ ∀ i (h : i < v.length) (h' : i < r.length), poly_caddq v[i] = .ok r[i]) ∧
    (vec_ntt v = .ok r → r.length = v.length ∧ ∀ i (h : i < v.length) (h' : i < r.length), poly_ntt v[i] = .ok r[i]) ∧
    (vec_invntt_tomont v = .ok r → r.length = v.length ∧ ∀ i (h : i < v.length) (h' : i < r.length), poly_invntt_tomont v[i] = .ok r[i]) :=
  ⟨mapL_spec _ v r, mapL_spec _ v r, mapL_spec _ v r, mapL_spec _ v r⟩

/-- binary lifts: l_add / k_add / k_sub / k_use_hint -/
theorem vec_binary_lift (lv : Lvl) (w v r : PolyVec) :
    (vec_add w v = .ok r → w.length = v.length ∧ r.length = w.length ∧
      ∀ i (h : i < w.length) (hb : i < v.length) (h' : i < r.length), poly_add w[i] v[i] = .ok r[i]) ∧
    (vec_sub w v = .ok r → w.length = v.length ∧ r.length = w.length ∧
      ∀ i (h : i < w.length) (hb : i < v.length) (h' : i < r.length), poly_sub w[i] v[i] = .ok r[i]) ∧
    (k_use_hint lv w v = .ok r → w.length = v.length ∧ r.length = w.length ∧
      ∀ i (h : i < w.length) (hb : i < v.length) (h' : i < r.length), poly_use_hint lv w[i] v[i] = .ok r[i]) :=
  ⟨zipL_spec _ w v r, zipL_spec _ w v r, zipL_spec _ w v r⟩

/-- multiplication of every component by one polynomial -/
theorem vec_pointwise_poly_lift (a : Poly) (v r : PolyVec) (h : vec_pointwise_poly_montgomery a v = .ok r) :
    r.length = v.length ∧ ∀ i (h1 : i < v.length) (h2 : i < r.length), poly_pointwise_montgomery a v[i] = .ok r[i] :=
  mapL_spec _ v r h

/-- shift by 2^13 is a total component-wise map -/
theorem vec_shiftl_lift (v : PolyVec) : vec_shiftl v = v.map poly_shiftl := rfl

/-- the matrix-vector product is row-wise -/
theorem matrix_rowwise (mat : List PolyVec) (v t : PolyVec) (h : matrix_pointwise_montgomery mat v = .ok t) :
    t.length = mat.length ∧ ∀ i (h1 : i < mat.length) (h2 : i < t.length), l_pointwise_acc_montgomery mat[i] v = .ok t[i] :=
  mapL_spec _ mat t h

/-- each row is the accumulated sum, in the order j = 0, 1, …, of the pointwise Montgomery products -/
theorem acc_unfold (u0 v0 : Poly) (us vs : PolyVec) :
    l_pointwise_acc_montgomery (u0 :: us) (v0 :: vs) =
      (poly_pointwise_montgomery u0 v0 >>= fun w => l_pointwise_acc_go us vs w) := rfl

theorem acc_step (u v : Poly) (us vs : PolyVec) (w : Poly) :
    l_pointwise_acc_go (u :: us) (v :: vs) w =
      (poly_pointwise_montgomery u v >>= fun t => poly_add w t >>= fun w' => l_pointwise_acc_go us vs w') := rfl

theorem acc_done (w : Poly) : l_pointwise_acc_go [] [] w = .ok w := rfl

/-- after vector decomposition the first result holds the high parts, the second the low parts -/
theorem k_decompose_high_low (lv : Lvl) (v v1 v0 : PolyVec) (h : k_decompose lv v = .ok (v1, v0)) :
    v1.length = v.length ∧ v0.length = v.length ∧
    ∀ i (h1 : i < v.length), ∃ r : List (Int × Int), mapL (decompose lv) v[i] = .ok r ∧
      v1[i]? = some (r.map (·.2)) ∧ v0[i]? = some (r.map (·.1)) := by
  unfold k_decompose at h
  obtain ⟨r, hr, h⟩ := bind_eq_ok.mp h
  injection h with h; injection h with ha hb; subst ha; subst hb
  obtain ⟨hl, hi⟩ := mapL_spec _ v r hr
  refine ⟨by simp [hl], by simp [hl], ?_⟩
  intro i h1
  have := hi i h1 (by omega)
  unfold poly_decompose at this
  obtain ⟨rr, hrr, h2⟩ := bind_eq_ok.mp this
  injection h2 with h2
  refine ⟨rr, hrr, ?_, ?_⟩
  · simp only [List.getElem?_map, List.getElem?_eq_getElem (show i < r.length by omega), ← h2, Option.map_some]
  · simp only [List.getElem?_map, List.getElem?_eq_getElem (show i < r.length by omega), ← h2, Option.map_some]

/-- w1 packing is the concatenation of the K encodings -/
theorem k_pack_w1_concat (lv : Lvl) (a : PolyVec) : k_pack_w1 lv a = (a.map (w1_pack lv)).flatten := by
  unfold k_pack_w1; rw [List.flatMap_def]

end DV.C19
