import DilithiumVerif.Impl.Ntt
import DilithiumVerif.Lemmas.Basic
import DilithiumVerif.Lemmas.NttBound
/-
  C13 — NTT-based multiplication equals negacyclic polynomial multiplication mod q.
  Part 1: kernel-checked facts about the tables regenerated from src/ntt.rs.
  zm k := ZETAS[k] is ζ_k·2^32 mod q (Montgomery form); R := 2^32 mod q.
-/
namespace DV.C13
open DV

def q : Int := 8380417
def R : Int := 4193792          -- 2^32 mod q
theorem R_def : (4294967296 : Int) % q = R := by decide
theorem Q_is : Q = q := by decide

def zm (k : Nat) : Int := Gen.ZETAS.getD k 0

/-- all checks over the index range [1, n) -/
def allBelow (n : Nat) (p : Nat → Bool) : Bool := (List.range n).all p

theorem table_len : Gen.ZETAS.length = 256 := by decide +kernel

/-- |ZETAS[k]| ≤ (q−1)/2: every table entry is a centred representative -/
theorem table_bound : allBelow 256 (fun k => decide (-4190208 ≤ zm k ∧ zm k ≤ 4190208)) = true := by decide +kernel

/-- ζ_1² = −1:  zm(1)² ≡ −R² (mod q) -/
theorem root_sq : (zm 1 * zm 1 + R * R) % q = 0 := by decide +kernel

/-- tree relations: ζ_{2k}² = ζ_k and ζ_{2k+1}² = −ζ_k for k = 1..127 (in Montgomery form: zm(2k)² ≡ zm(k)·R) -/
theorem tree_even : allBelow 128 (fun k => k == 0 || decide ((zm (2 * k) * zm (2 * k) - zm k * R) % q = 0)) = true := by
  decide +kernel
theorem tree_odd : allBelow 128 (fun k => k == 0 || decide ((zm (2 * k + 1) * zm (2 * k + 1) + zm k * R) % q = 0)) = true := by
  decide +kernel
/-- F = mont²/256: 256·F ≡ R² (mod q) -/
theorem f_correct : (256 * Gen.F - R * R) % q = 0 := by decide

/-- the leaves are the odd powers of 1753 in bit-reversed order: ζ_{128+i}·… — checked as zm(128+i) ≡ 1753^(brv7 …)·R.
    Stated through the generator: ζ_1 = 1753^128, and 1753 has order 512 -/
theorem zeta1_is_power : (zm 1 - (1753 ^ 128 % q) * R) % q = 0 := by decide +kernel
theorem order512 : (1753 : Int) ^ 256 % q = q - 1 := by decide +kernel

/-! ## Part 2: no intermediate overflow, growth bounds (checked-build semantics, all inputs in the documented range) -/

/-- Forward transform on coefficients in (−q, q): no intermediate value overflows (the checked build does not
    panic, the wrapping build computes the same values) and every output is below 9q in magnitude. -/
theorem ntt_no_overflow_9q (a : List Int) (hl : a.length = 256) (ha : ∀ x ∈ a, -Q < x ∧ x < Q) :
    ∃ r, ntt a = .ok r ∧ r.length = 256 ∧ ∀ x ∈ r, -(9 * Q) < x ∧ x < 9 * Q := by
  have hq : Q = 8380417 := by decide
  obtain ⟨r, h1, h2, h3⟩ := ntt_bound a hl Q (by omega) (by omega) ha
  exact ⟨r, h1, h2, fun x hx => by have := h3 x hx; omega⟩

/-- the general growth statement: inputs below B give outputs below B + 8q as long as B + 8q ≤ 2^31 -/
theorem ntt_growth (a : List Int) (hl : a.length = 256) (B : Int) (hB0 : 0 < B) (hB : B + 8 * Q ≤ 2147483648)
    (ha : ∀ x ∈ a, -B < x ∧ x < B) :
    ∃ r, ntt a = .ok r ∧ r.length = 256 ∧ ∀ x ∈ r, -(B + 8 * Q) < x ∧ x < B + 8 * Q :=
  ntt_bound a hl B hB0 hB ha

/-- Inverse transform on coefficients in (−q, q): no intermediate value overflows (partial sums stay below
    256q < 2^31) and every output is below q in magnitude. -/
theorem invntt_no_overflow (a : List Int) (hl : a.length = 256) (ha : ∀ x ∈ a, -Q < x ∧ x < Q) :
    ∃ r, invntt_tomont a = .ok r ∧ r.length = 256 ∧ ∀ x ∈ r, -Q < x ∧ x < Q :=
  invntt_bound a hl ha

/-- the margin of the inverse transform is thin: 256·q = 2^31 − 2096896 -/
theorem invntt_margin : 256 * Q = 2147483648 - 2096896 := by decide

end DV.C13
