import DilithiumVerif.Impl.Ntt
import DilithiumVerif.Lemmas.Basic
import DilithiumVerif.Lemmas.NttBound
import DilithiumVerif.Lemmas.NttZ
/-
  C13 — NTT-based multiplication equals negacyclic polynomial multiplication mod q.
  Part 1: kernel-checked facts about the tables regenerated from src/ntt.rs.
  zm k := ZETAS[k] is ζ_k·2^32 mod q (Montgomery form); R := 2^32 mod q.
-/
namespace DV.C13
open DV

def q : Int := 8380417
def R : Int := 4193792          -- 2^32 mod q
theorem R_def : (4294967296 : Int) % q = R := by decide
theorem Q_is : Q = q := by decide

def zm (k : Nat) : Int := Gen.ZETAS.getD k 0

/-- all checks over the index range [1, n) -/
def allBelow (n : Nat) (p : Nat → Bool) : Bool := (List.range n).all p

theorem table_len : Gen.ZETAS.length = 256 := by decide +kernel

/-- |ZETAS[k]| ≤ (q−1)/2: every table entry is a centred representative -/
theorem table_bound : allBelow 256 (fun k => decide (-4190208 ≤ zm k ∧ zm k ≤ 4190208)) = true := by decide +kernel

/-- ζ_1² = −1:  zm(1)² ≡ −R² (mod q) -/
theorem root_sq : (zm 1 * zm 1 + R * R) % q = 0 := by decide +kernel

/-- tree relations: ζ_{2k}² = ζ_k and ζ_{2k+1}² = −ζ_k for k = 1..127 (in Montgomery form: zm(2k)² ≡ zm(k)·R) -/
theorem tree_even : allBelow 128 (fun k => k == 0 || decide ((zm (2 * k) * zm (2 * k) - zm k * R) % q = 0)) = true := by
  decide +kernel
theorem tree_odd : allBelow 128 (fun k => k == 0 || decide ((zm (2 * k + 1) * zm (2 * k + 1) + zm k * R) % q = 0)) = true := by
  decide +kernel
/-- F = mont²/256: 256·F ≡ R² (mod q) -/
theorem f_correct : (256 * Gen.F - R * R) % q = 0 := by decide

/-- the leaves are the odd powers of 1753 in bit-reversed order: ζ_{128+i}·… — checked as zm(128+i) ≡ 1753^(brv7 …)·R.
    Stated through the generator: ζ_1 = 1753^128, and 1753 has order 512 -/
theorem zeta1_is_power : (zm 1 - (1753 ^ 128 % q) * R) % q = 0 := by decide +kernel
theorem order512 : (1753 : Int) ^ 256 % q = q - 1 := by decide +kernel

/-! ## Part 2: no intermediate overflow, growth bounds (checked-build semantics, all inputs in the documented range) -/

/-- Forward transform on coefficients in (−q, q): no intermediate value overflows (the checked build does not
    panic, the wrapping build computes the same values) and every output is below 9q in magnitude. -/
theorem ntt_no_overflow_9q (a : List Int) (hl : a.length = 256) (ha : ∀ x ∈ a, -Q < x ∧ x < Q) :
    ∃ r, ntt a = .ok r ∧ r.length = 256 ∧ ∀ x ∈ r, -(9 * Q) < x ∧ x < 9 * Q := by
  have hq : Q = 8380417 := by decide
  obtain ⟨r, h1, h2, h3⟩ := ntt_bound a hl Q (by omega) (by omega) ha
  exact ⟨r, h1, h2, fun x hx => by have := h3 x hx; omega⟩

/-- the general growth statement: inputs below B give outputs below B + 8q as long as B + 8q ≤ 2^31 -/
theorem ntt_growth (a : List Int) (hl : a.length = 256) (B : Int) (hB0 : 0 < B) (hB : B + 8 * Q ≤ 2147483648)
    (ha : ∀ x ∈ a, -B < x ∧ x < B) :
    ∃ r, ntt a = .ok r ∧ r.length = 256 ∧ ∀ x ∈ r, -(B + 8 * Q) < x ∧ x < B + 8 * Q :=
  ntt_bound a hl B hB0 hB ha

/-- Inverse transform on coefficients in (−q, q): no intermediate value overflows (partial sums stay below
    256q < 2^31) and every output is below q in magnitude. -/
theorem invntt_no_overflow (a : List Int) (hl : a.length = 256) (ha : ∀ x ∈ a, -Q < x ∧ x < Q) :
    ∃ r, invntt_tomont a = .ok r ∧ r.length = 256 ∧ ∀ x ∈ r, -Q < x ∧ x < Q :=
  invntt_bound a hl ha

/-- the margin of the inverse transform is thin: 256·q = 2^31 − 2096896 -/
theorem invntt_margin : 256 * Q = 2147483648 - 2096896 := by decide

/-! ## Part 3: what the transforms compute (all inputs in the documented range)

  The semantic theorems are proved once for every commutative ring K in which q = 0 and 2^32 is invertible
  (`NttSem.ModQ K`; Lemmas/NttAlg, NttSem, NttEval, NttInv, NttInvSem, NttMul) and instantiated at ℤ/q
  (Lemmas/NttZ), where they become congruences between integers.  `peval a x` is Σ a[j]·x^j, `brv8` reverses the
  eight bits of an index, `negmul a b` is the schoolbook product of the two coefficient lists over ℤ folded by
  X^256 = −1 (`nfold 256 (pmul a b)`). -/

open DV.NttAlg DV.NttEval DV.NttMul DV.NttZ in
/-- Forward transform: output i ≡ a(1753^(2·brv8(i)+1)) (mod q) — the 256 odd powers of the 512-th root of unity 1753,
    in bit-reversed order. -/
theorem ntt_evaluates (a r : List Int) (hl : a.length = 256) (ha : ∀ x ∈ a, -Q < x ∧ x < Q) (h : ntt a = .ok r)
    (i : Nat) (hi : i < 256) :
    (r.getD i 0 - peval a ((1753 : Int) ^ (2 * brv8 i + 1))) % 8380417 = 0 := by
  have hq : Q = 8380417 := by decide
  exact ntt_eval_Z a r hl Q (by omega) (by omega) ha h i hi

open DV.NttEval in
/-- brv8 is the 8-bit reversal, checked on the whole index range against the bit formula -/
theorem brv8_is_bit_reversal : allBelow 256 (fun i => brv8 i ==
    (i % 2) * 128 + (i / 2 % 2) * 64 + (i / 4 % 2) * 32 + (i / 8 % 2) * 16 + (i / 16 % 2) * 8 + (i / 32 % 2) * 4 + (i / 64 % 2) * 2 + (i / 128 % 2)) = true := by
  decide +kernel

/-- the evaluation points are exactly the odd powers: i ↦ 2·brv8(i)+1 hits every odd exponent below 512 once
    (brv8 is an involution on [0, 256)) -/
theorem brv8_involution : allBelow 256 (fun i => decide (DV.NttEval.brv8 (DV.NttEval.brv8 i) = i ∧ DV.NttEval.brv8 i < 256)) = true := by
  decide +kernel

open DV.NttZ in
/-- Inverse transform inverts the forward transform up to the Montgomery factor: for every a in range and every
    reduced representative b of ntt(a) (|b[i]| < q, b[i] ≡ ntt(a)[i]), invntt_tomont(b)[i] ≡ 2^32·a[i] (mod q);
    by `invntt_no_overflow` the outputs are below q in magnitude. -/
theorem invntt_inverts (a y b r : List Int) (hl : a.length = 256) (ha : ∀ x ∈ a, -Q < x ∧ x < Q) (hy : ntt a = .ok y)
    (hbl : b.length = 256) (hbb : ∀ x ∈ b, -Q < x ∧ x < Q)
    (hby : ∀ i, i < 256 → (b.getD i 0 - y.getD i 0) % 8380417 = 0) (h : invntt_tomont b = .ok r) (i : Nat) :
    (r.getD i 0 - 4294967296 * a.getD i 0) % 8380417 = 0 := by
  have hq : Q = 8380417 := by decide
  exact invntt_ntt_Z a y b r hl Q (by omega) (by omega) ha hy hbl hbb hby h i

open DV.NttMul DV.NttZ in
/-- Transform, pointwise product, inverse transform = multiplication in ℤ_q[X]/(X^256+1): for all a, b with coefficients
    in (−q, q) the four steps succeed (no overflow anywhere), the result lies in (−q, q)^256 and is congruent mod q,
    coefficient by coefficient, to the negacyclic product computed over ℤ. -/
theorem ntt_mul_correct (a b : List Int) (hla : a.length = 256) (hlb : b.length = 256)
    (ha : ∀ x ∈ a, -Q < x ∧ x < Q) (hb : ∀ x ∈ b, -Q < x ∧ x < Q) :
    ∃ ya yb w r, ntt a = .ok ya ∧ ntt b = .ok yb ∧ poly_pointwise_montgomery ya yb = .ok w ∧ invntt_tomont w = .ok r ∧
      r.length = 256 ∧ (∀ x ∈ r, -Q < x ∧ x < Q) ∧ ∀ i, (r.getD i 0 - (negmul a b).getD i 0) % 8380417 = 0 :=
  ntt_mul_Z a b hla hlb ha hb

open DV.NttMul in
/-- `negmul` is what it should be on a small instance that wraps around: (X^255)·(X) = X^256 = −1 -/
example : negmul ((List.replicate 255 (0:Int)) ++ [1]) (0 :: 1 :: List.replicate 254 0) = (-1) :: List.replicate 255 0 := by
  decide +kernel

/-- the hypotheses of the ring-generic theorems are satisfiable by a non-trivial ring (ℤ/q, 1 ≠ 0) -/
theorem ring_instance_nontrivial : (1 : ZMod 8380417) ≠ 0 := DV.NttZ.zmod_nontrivial

end DV.C13
