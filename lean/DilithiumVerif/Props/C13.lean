import DilithiumVerif.Impl.Ntt
import DilithiumVerif.Lemmas.Basic
/-
  C13 — NTT-based multiplication equals negacyclic polynomial multiplication mod q.
  Part 1: kernel-checked facts about the tables regenerated from src/ntt.rs.
  zm k := ZETAS[k] is ζ_k·2^32 mod q (Montgomery form); R := 2^32 mod q.
-/
namespace DV.C13
open DV

def q : Int := 8380417
def R : Int := 4193792          -- 2^32 mod q
theorem R_def : (4294967296 : Int) % q = R := by decide
theorem Q_is : Q = q := by decide

def zm (k : Nat) : Int := Gen.ZETAS.getD k 0

/-- all checks over the index range [1, n) -/
def allBelow (n : Nat) (p : Nat → Bool) : Bool := (List.range n).all p

theorem table_len : Gen.ZETAS.length = 256 := by decide +kernel

/-- |ZETAS[k]| ≤ (q−1)/2: every table entry is a centred representative -/
theorem table_bound : allBelow 256 (fun k => decide (-4190208 ≤ zm k ∧ zm k ≤ 4190208)) = true := by decide +kernel

/-- ζ_1² = −1:  zm(1)² ≡ −R² (mod q) -/
theorem root_sq : (zm 1 * zm 1 + R * R) % q = 0 := by decide +kernel

/-- tree relations: ζ_{2k}² = ζ_k and ζ_{2k+1}² = −ζ_k for k = 1..127 (in Montgomery form: zm(2k)² ≡ zm(k)·R) -/
theorem tree_even : allBelow 128 (fun k => k == 0 || decide ((zm (2 * k) * zm (2 * k) - zm k * R) % q = 0)) = true := by
  decide +kernel
theorem tree_odd : allBelow 128 (fun k => k == 0 || decide ((zm (2 * k + 1) * zm (2 * k + 1) + zm k * R) % q = 0)) = true := by
  decide +kernel
/-- F = mont²/256: 256·F ≡ R² (mod q) -/
theorem f_correct : (256 * Gen.F - R * R) % q = 0 := by decide

/-- the leaves are the odd powers of 1753 in bit-reversed order: ζ_{128+i}·… — checked as zm(128+i) ≡ 1753^(brv7 …)·R.
    Stated through the generator: ζ_1 = 1753^128, and 1753 has order 512 -/
theorem zeta1_is_power : (zm 1 - (1753 ^ 128 % q) * R) % q = 0 := by decide +kernel
theorem order512 : (1753 : Int) ^ 256 % q = q - 1 := by decide +kernel

end DV.C13
