import DilithiumVerif.Impl.Sign
import DilithiumVerif.Lemmas.Basic
/-
  C04 — Key generation is the specification's function of the seed.
  (first instalment: structural theorems about the model's keypair; Spec.KeyGen refinement follows)
-/
namespace DV.C04
open DV

/-- seeded generation draws nothing from the RNG tape and refuses seeds of the wrong length -/
theorem keypair_seeded_tape (p : Params) (seed : List Nat) (tape : Tape) (pk sk : List Nat) (tape' : Tape)
    (h : keypair p (some seed) tape = .ok (pk, sk, tape')) : tape' = tape ∧ seed.length = SEEDBYTES := by
  unfold keypair at h
  by_cases hl : seed.length = SEEDBYTES
  · simp only [hl, if_true, ok_bind] at h
    obtain ⟨_, _, h⟩ := bind_eq_ok.mp h
    obtain ⟨_, _, h⟩ := bind_eq_ok.mp h
    obtain ⟨_, _, h⟩ := bind_eq_ok.mp h
    obtain ⟨_, _, h⟩ := bind_eq_ok.mp h
    injection h with h; injection h with _ h; injection h with _ h
    exact ⟨h.symm, hl⟩
  · simp only [hl, if_false, err_bind] at h; cases h

/-- unseeded generation is seeded generation on the next 32 tape bytes -/
theorem keypair_unseeded (p : Params) (tape : Tape) (h : SEEDBYTES ≤ tape.length) :
    keypair p none tape = (keypair p (some (tape.take SEEDBYTES)) (tape.drop SEEDBYTES)) := by
  unfold keypair random_bytes
  have hl : (tape.take SEEDBYTES).length = SEEDBYTES := by simp [List.length_take, Nat.min_eq_left h]
  simp only [h, if_true, hl]

end DV.C04
