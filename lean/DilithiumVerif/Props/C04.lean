import DilithiumVerif.Impl.Sign
import DilithiumVerif.Lemmas.Basic
import DilithiumVerif.Lemmas.KeygenRel
/-
  C04 — Key generation is the specification's function of the seed.
  (first instalment: structural theorems about the model's keypair; Spec.KeyGen refinement follows)
-/
namespace DV.C04
open DV

/-- seeded generation draws nothing from the RNG tape and refuses seeds of the wrong length -/
theorem keypair_seeded_tape (p : Params) (seed : List Nat) (tape : Tape) (pk sk : List Nat) (tape' : Tape)
    (h : keypair p (some seed) tape = .ok (pk, sk, tape')) : tape' = tape ∧ seed.length = SEEDBYTES := by
  unfold keypair at h
  by_cases hl : seed.length = SEEDBYTES
  · simp only [hl, if_true, ok_bind] at h
    obtain ⟨_, _, h⟩ := bind_eq_ok.mp h
    obtain ⟨_, _, h⟩ := bind_eq_ok.mp h
    obtain ⟨_, _, h⟩ := bind_eq_ok.mp h
    obtain ⟨_, _, h⟩ := bind_eq_ok.mp h
    injection h with h; injection h with _ h; injection h with _ h
    exact ⟨h.symm, hl⟩
  · simp only [hl, if_false, err_bind] at h; cases h

/-- unseeded generation is seeded generation on the next 32 tape bytes -/
theorem keypair_unseeded (p : Params) (tape : Tape) (h : SEEDBYTES ≤ tape.length) :
    keypair p none tape = (keypair p (some (tape.take SEEDBYTES)) (tape.drop SEEDBYTES)) := by
  unfold keypair random_bytes
  have hl : (tape.take SEEDBYTES).length = SEEDBYTES := by simp [List.length_take, Nat.min_eq_left h]
  simp only [h, if_true, hl]

/-! ## The algebraic relation between the two keys -/

open DV.Complete in
/-- **Key relation.** For each of the six parameter sets and every seed on which the key-generation core returns
    (ρ, K, s1, s2, t1, t0): expanding ρ gives a well-formed K×L matrix Â with entries in [0, q); s1 ∈ [−4,4]^{256·L},
    s2 ∈ [−4,4]^{256·K}; t1 ∈ [0, 2^10)^{256·K}, t0 ∈ (−2^12, 2^12]^{256·K}; and for every row r and every NTT point i
      2^13·t1_r(ρ_i) + t0_r(ρ_i) = Σ_j Â_{r,j}[i]·s1_j(ρ_i) + s2_r(ρ_i)   in ℤ/q
    (`Complete.KeyRel`), i.e. t1·2^13 + t0 = A·s1 + s2 in ℤ_q[X]/(X^256+1) by C13 (the 256 evaluations determine the
    polynomial: `PolySem.Ev_inj`). No arithmetic step of key generation overflows (the statement is about the
    checked-semantics model: a fault would make `keygen_core` return an error, and each step is shown to succeed). -/
theorem keygen_relation (p : Params) (hp : p ∈ allParams) (seed rho key : List Nat) (s1 s2 t1 t0 : PolyVec)
    (h : keygen_core p seed = .ok (rho, key, s1, s2, t1, t0)) :
    ∃ mat, matrix_expand p FUEL rho = .ok mat ∧ KeyFacts p mat s1 s2 t1 t0 :=
  keygen_facts p hp seed rho key s1 s2 t1 t0 h

end DV.C04
