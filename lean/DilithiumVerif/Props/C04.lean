import DilithiumVerif.Impl.Sign
import DilithiumVerif.Lemmas.Basic
import DilithiumVerif.Lemmas.KeygenRel
import DilithiumVerif.Lemmas.KeygenSpec
/-
  C04 — Key generation is the specification's function of the seed.
  Structural theorems about the model's keypair, the algebraic key relation, and the refinement to the
  specification's KeyGen (`KeygenSpec.IsKeyGen`: FIPS 204 Alg. 6 / Dilithium 3.1 Gen as a relation).
-/
namespace DV.C04
open DV

/-- seeded generation draws nothing from the RNG tape and refuses seeds of the wrong length -/
theorem keypair_seeded_tape (p : Params) (seed : List Nat) (tape : Tape) (pk sk : List Nat) (tape' : Tape)
    (h : keypair p (some seed) tape = .ok (pk, sk, tape')) : tape' = tape ∧ seed.length = SEEDBYTES := by
  unfold keypair at h
  by_cases hl : seed.length = SEEDBYTES
  · simp only [hl, if_true, ok_bind] at h
    obtain ⟨_, _, h⟩ := bind_eq_ok.mp h
    obtain ⟨_, _, h⟩ := bind_eq_ok.mp h
    obtain ⟨_, _, h⟩ := bind_eq_ok.mp h
    obtain ⟨_, _, h⟩ := bind_eq_ok.mp h
    injection h with h; injection h with _ h; injection h with _ h
    exact ⟨h.symm, hl⟩
  · simp only [hl, if_false, err_bind] at h; cases h

/-- unseeded generation is seeded generation on the next 32 tape bytes -/
theorem keypair_unseeded (p : Params) (tape : Tape) (h : SEEDBYTES ≤ tape.length) :
    keypair p none tape = (keypair p (some (tape.take SEEDBYTES)) (tape.drop SEEDBYTES)) := by
  unfold keypair random_bytes
  have hl : (tape.take SEEDBYTES).length = SEEDBYTES := by simp [List.length_take, Nat.min_eq_left h]
  simp only [h, if_true, hl]

/-! ## The algebraic relation between the two keys -/

open DV.Complete in
/-- **Key relation.** For each of the six parameter sets and every seed on which the key-generation core returns
    (ρ, K, s1, s2, t1, t0): expanding ρ gives a well-formed K×L matrix Â with entries in [0, q); s1 ∈ [−4,4]^{256·L},
    s2 ∈ [−4,4]^{256·K}; t1 ∈ [0, 2^10)^{256·K}, t0 ∈ (−2^12, 2^12]^{256·K}; and for every row r and every NTT point i
      2^13·t1_r(ρ_i) + t0_r(ρ_i) = Σ_j Â_{r,j}[i]·s1_j(ρ_i) + s2_r(ρ_i)   in ℤ/q
    (`Complete.KeyRel`), i.e. t1·2^13 + t0 = A·s1 + s2 in ℤ_q[X]/(X^256+1) by C13 (the 256 evaluations determine the
    polynomial: `PolySem.Ev_inj`). No arithmetic step of key generation overflows (the statement is about the
    checked-semantics model: a fault would make `keygen_core` return an error, and each step is shown to succeed). -/
theorem keygen_relation (p : Params) (hp : p ∈ allParams) (seed rho key : List Nat) (s1 s2 t1 t0 : PolyVec)
    (h : keygen_core p seed = .ok (rho, key, s1, s2, t1, t0)) :
    ∃ mat, matrix_expand p FUEL rho = .ok mat ∧ KeyFacts p mat s1 s2 t1 t0 :=
  keygen_facts p hp seed rho key s1 s2 t1 t0 h

/-! ## Key generation is the specification's function of the seed

`KeygenSpec.IsKeyGen p ξ pk sk` (Lemmas/KeygenSpec.lean) transcribes ML-DSA.KeyGen_internal / Dilithium Gen using only
specification-level objects: SHAKE-128/256 as the FIPS 202 sponge function of the padded message (`XofSpec`, C12),
RejNTTPoly / RejBoundedPoly as the first 256 accepted candidates of the XOF output stream (C17), t = Â∘NTT(s1) + s2 read
at the 256 roots with coefficients in [0, q) and Power2Round ranges (C13, C15), pkEncode / skEncode as bit strings (C16),
and the per-set domain separation ξ ‖ k ‖ l of FIPS 204. -/

open DV.KeygenSpec in
/-- **the keys `keypair` returns are the specification's** (all six sets, every 32-byte seed on which it returns) -/
theorem keypair_meets_spec (p : Params) (hp : p ∈ allParams) (xi : List Nat) (tape : Tape) (pk sk : List Nat) (tape' : Tape)
    (hk : keypair p (some xi) tape = .ok (pk, sk, tape')) : IsKeyGen p xi pk sk :=
  KeygenSpec.keypair_meets_spec p hp xi tape pk sk tape' hk

open DV.KeygenSpec in
/-- **the specification determines both keys** -/
theorem keygen_spec_functional (p : Params) (xi pk sk pk' sk' : List Nat)
    (h : IsKeyGen p xi pk sk) (h' : IsKeyGen p xi pk' sk') : pk = pk' ∧ sk = sk' :=
  IsKeyGen_functional p xi pk sk pk' sk' h h'

open DV.KeygenSpec in
/-- **Key generation is the specification's function of the seed**: any (pk′, sk′) that the specification relates to ξ
    is, byte for byte, what `keypair` returned — seeded, or unseeded on the 32 bytes it drew. -/
theorem keypair_is_spec_function (p : Params) (hp : p ∈ allParams) (xi : List Nat) (tape : Tape) (pk sk : List Nat) (tape' : Tape)
    (hk : keypair p (some xi) tape = .ok (pk, sk, tape')) (pk' sk' : List Nat) (hs : IsKeyGen p xi pk' sk') :
    pk' = pk ∧ sk' = sk :=
  IsKeyGen_functional p xi pk' sk' pk sk hs (KeygenSpec.keypair_meets_spec p hp xi tape pk sk tape' hk)

open DV.KeygenSpec in
theorem keypair_unseeded_is_spec_function (p : Params) (hp : p ∈ allParams) (tape : Tape) (h32 : SEEDBYTES ≤ tape.length)
    (pk sk : List Nat) (tape' : Tape) (hk : keypair p none tape = .ok (pk, sk, tape')) :
    IsKeyGen p (tape.take SEEDBYTES) pk sk ∧ tape' = tape.drop SEEDBYTES := by
  rw [keypair_unseeded p tape h32] at hk
  exact ⟨KeygenSpec.keypair_meets_spec p hp _ _ pk sk tape' hk, (keypair_seeded_tape p _ _ pk sk tape' hk).1⟩

end DV.C04
