import DilithiumVerif.Impl.Api
import DilithiumVerif.Lemmas.Basic
import DilithiumVerif.Lemmas.IterComplete
import DilithiumVerif.Lemmas.SignLoop
import DilithiumVerif.Lemmas.EndToEnd
import DilithiumVerif.Lemmas.VerifyFips
import DilithiumVerif.Props.C11
import DilithiumVerif.Lemmas.SignTerm
/-
  C01 — Every signature the library produces verifies (all sets, all modes).
  Part 1 (loop logic): the signing loop can end only by returning the signature packed by an accepted
  iteration, namely the first accepted one; with fuel n it returns `none` exactly when the first n
  iterations are all rejected.  Termination for every input is not a theorem (it is a statement about SHAKE
  outputs); see DESIGN.md §5/C01.
-/
namespace DV.C01
open DV

/-- `sign_loop` from nonce κ₀ with fuel n returns `some σ` iff some iteration κ₀+j (j < n) is accepted, all earlier
    ones are rejected (without fault), and σ is that iteration's output -/
theorem loop_returns_first_accepted (p : Params) (mat : List PolyVec) (mu rp : List Nat) (s1h s2h t0h : PolyVec)
    (fuel : Nat) (k0 : Int) (sig : List Nat) (h : sign_loop p mat mu rp s1h s2h t0h fuel k0 = .ok (some sig)) :
    ∃ j, j < fuel ∧ sign_iteration p mat mu rp s1h s2h t0h (k0 + j) = .ok (.accept sig) ∧
      ∀ i, i < j → ∃ r, sign_iteration p mat mu rp s1h s2h t0h (k0 + i) = .ok r ∧ accepted r = none :=
  sign_loop_some p mat mu rp s1h s2h t0h fuel k0 sig h

/-- with fuel n the loop gives up (`none`) only if all n iterations were rejected -/
theorem loop_gives_up_only_after_rejections (p : Params) (mat : List PolyVec) (mu rp : List Nat) (s1h s2h t0h : PolyVec)
    (fuel : Nat) (k0 : Int) (h : sign_loop p mat mu rp s1h s2h t0h fuel k0 = .ok none) :
    ∀ i, i < fuel → ∃ r, sign_iteration p mat mu rp s1h s2h t0h (k0 + i) = .ok r ∧ accepted r = none :=
  sign_loop_none p mat mu rp s1h s2h t0h fuel k0 h

/-! ## Part 2 (completeness of one iteration — the algebra of the scheme, on the model of the code)

  `Complete.KeyFacts p mat s1 s2 t1 t0` is what key generation establishes (theorem `C04.keygen_relation`): a well-formed
  matrix, short s1, s2, t1 and t0 in range, and t1·2^13 + t0 = A·s1 + s2 in ℤ_q[X]/(X^256+1) (read at the 256 NTT points).
  The theorem below follows every arithmetic step of `sign_iteration` and of `verify_tail` on the checked-semantics
  model — transforms, Montgomery products, lazy reductions, Decompose, MakeHint/UseHint — with the range analysis that
  shows no step overflows, through the NTT theorems of C13 and the rounding theorems of C15/C18. -/

open DV.Complete in
/-- **An accepted iteration verifies.** For each of the six parameter sets, any key satisfying the key-generation facts,
    any μ, ρ′ and nonce: if `sign_iteration` accepts and emits `sig`, then `sig` is the packing of some (c̃, z, h) with
    c̃ = H(μ ‖ w1Encode(w1)), ‖z‖∞ < γ1 − β, and the verifier's reconstruction (`verify_tail`: A·z − c·t1·2^13, UseHint,
    w1Encode) on (c̃, z, h) and the public t1 succeeds — no overflow, no out-of-range access — and returns exactly
    w1Encode(w1): the bytes whose hash with μ is c̃. -/
theorem accepted_iteration_verifies (p : Params) (hp : p ∈ allParams) (mat : List PolyVec) (s1 s2 t1 t0 s1h s2h t0h : PolyVec)
    (kf : KeyFacts p mat s1 s2 t1 t0)
    (e1 : vec_ntt s1 = .ok s1h) (e2 : vec_ntt s2 = .ok s2h) (e0 : vec_ntt t0 = .ok t0h)
    (mu rp : List Nat) (nonce : Int) (sig : List Nat)
    (hacc : sign_iteration p mat mu rp s1h s2h t0h nonce = .ok (.accept sig)) :
    ∃ ct z h w1, compute_ctilde p mu (k_pack_w1 p.lvl w1) = .ok ct ∧
      pack_sig p (ct ++ List.replicate (p.sigBytes - p.ctilde) 0) none z h = .ok sig ∧
      z.length = p.l ∧ (∀ a ∈ z, a.length = 256 ∧ ∀ x ∈ a, -((p.gamma1 : Int) - p.beta) < x ∧ x < (p.gamma1 : Int) - p.beta) ∧
      h.length = p.k ∧ (∀ a ∈ h, HintCodec.Bits a) ∧ (HintCodec.idxOf h).length ≤ p.omega ∧
      ∀ pk rho trh, shake256 CRHBYTES p.trBytes pk p.pkBytes = .ok trh → matrix_expand p FUEL rho = .ok mat →
        verify_tail p pk rho t1 ct z h = .ok (trh, k_pack_w1 p.lvl w1) :=
  iteration_complete p hp mat s1 s2 t1 t0 s1h s2h t0h kf e1 e2 e0 mu rp nonce sig hacc

/-! ## Part 3 (end to end, on the model of the whole crate)

  Container round trips (pk, sk, signature incl. the hint section — Lemmas/Containers, Lemmas/HintCodec), the key relation
  (C04), the iteration theorem above and the loop logic compose to the statement of the property for the model. -/

open DV.Complete in
/-- **Every signature produced verifies.** For each of the six parameter sets, any seed — explicit or drawn from the RNG
    tape —, any message (any length, incl. empty), deterministic or hedged/randomized signing with any RNG tape, and any
    bound on the number of loop iterations: if `keypair` returned (pk, sk) and `signature` under sk returned `some sig`,
    then `verify sig msg pk` returns `true` (without fault) and `sig` has exactly SIGNBYTES bytes. -/
theorem sign_then_verify (p : Params) (hp : p ∈ allParams) (seed : Option (List Nat)) (tape : Tape) (pk sk : List Nat) (tape' : Tape)
    (hk : keypair p seed tape = .ok (pk, sk, tape'))
    (fuel : Nat) (msg : List Nat) (randomized : Bool) (tape2 : Tape) (sig : List Nat) (tape3 : Tape)
    (hs : signature p fuel msg sk randomized tape2 = .ok (some sig, tape3)) :
    verify p sig msg pk = .ok true ∧ sig.length = p.sigBytes :=
  Complete.sign_then_verify p hp seed tape pk sk tape' hk fuel msg randomized tape2 sig tape3 hs

/-- ML-DSA entry points, pure mode: every context (≤ 255 bytes, or absent), hedged or deterministic -/
theorem mldsa_sign_then_verify (p : Params) (hp : p ∈ allParams) (seed : Option (List Nat)) (tape : Tape) (pk sk : List Nat) (tape' : Tape)
    (hk : keypair p seed tape = .ok (pk, sk, tape'))
    (fuel : Nat) (msg : List Nat) (ctx : Option (List Nat)) (hedged : Bool) (tape2 : Tape) (sig : List Nat) (tape3 : Tape)
    (hs : mldsa_sign p fuel sk msg ctx hedged tape2 = .ok (some sig, tape3)) :
    mldsa_verify p pk msg sig ctx = .ok true := by
  unfold mldsa_sign at hs
  unfold mldsa_verify
  cases hf : frame_pure msg ctx with
  | none => rw [hf] at hs; simp at hs
  | some m =>
    rw [hf] at hs
    simp only at hs
    obtain ⟨h1, h2⟩ := sign_then_verify p hp seed tape pk sk tape' hk fuel m hedged tape2 sig tape3 hs
    rw [if_neg (by rw [h2]; simp)]
    exact h1

/-- ML-DSA entry points, pre-hash mode (SHA-256 or SHA-512; the digest is computed by the external sha2 crate and
    enters the model as the parameter `phm` on both sides) -/
theorem mldsa_prehash_sign_then_verify (p : Params) (hp : p ∈ allParams) (seed : Option (List Nat)) (tape : Tape) (pk sk : List Nat)
    (tape' : Tape) (hk : keypair p seed tape = .ok (pk, sk, tape'))
    (fuel : Nat) (phm : List Nat) (ctx : Option (List Nat)) (hedged : Bool) (ph : PH) (tape2 : Tape) (sig : List Nat) (tape3 : Tape)
    (hs : mldsa_prehash_sign p fuel sk phm ctx hedged ph tape2 = .ok (some sig, tape3)) :
    mldsa_prehash_verify p pk phm sig ctx ph = .ok true := by
  unfold mldsa_prehash_sign at hs
  unfold mldsa_prehash_verify
  cases hf : frame_prehash phm ctx ph with
  | none => rw [hf] at hs; simp at hs
  | some m =>
    rw [hf] at hs
    simp only at hs
    obtain ⟨h1, h2⟩ := sign_then_verify p hp seed tape pk sk tape' hk fuel m hedged tape2 sig tape3 hs
    rw [if_neg (by rw [h2]; simp)]
    exact h1

/-- Dilithium entry points -/
theorem dil_sign_then_verify (p : Params) (hp : p ∈ allParams) (seed : Option (List Nat)) (tape : Tape) (pk sk : List Nat) (tape' : Tape)
    (hk : keypair p seed tape = .ok (pk, sk, tape')) (fuel : Nat) (msg sig : List Nat)
    (hs : dil_sign p fuel sk msg = .ok (some sig)) : dil_verify p pk msg sig = .ok true := by
  unfold dil_sign at hs
  obtain ⟨⟨r, tp⟩, h1, hs⟩ := bind_eq_ok.mp hs
  simp only at hs
  injection hs with hs; subst hs
  obtain ⟨h1', h2⟩ := sign_then_verify p hp seed tape pk sk tape' hk fuel msg false [] sig tp h1
  unfold dil_verify
  rw [if_neg (by rw [h2]; simp)]
  exact h1'

open DV.VerifyFips in
/-- **in the specification's terms**: every signature the code returns under a generated key is accepted by the
    specification's Verify (FIPS 204 Alg. 8 / Dilithium 3.1) — `VerifyFips.IsAccepted` — for the matching public key and
    message; with `C05.signing_is_spec_function` (the signature is the specification's Sign output) and
    `C04.keypair_is_spec_function` this is the correctness of the scheme itself on the runs of the code that return -/
theorem emitted_signature_spec_verifies (p : Params) (hp : p ∈ allParams) (seed : Option (List Nat)) (tape : Tape) (pk sk : List Nat) (tape' : Tape)
    (hk : keypair p seed tape = .ok (pk, sk, tape'))
    (fuel : Nat) (msg : List Nat) (randomized : Bool) (tape2 : Tape) (sig : List Nat) (tape3 : Tape)
    (hs : signature p fuel msg sk randomized tape2 = .ok (some sig, tape3))
    (hpb : ∀ b ∈ pk, b < 256) (hb : ∀ b ∈ sig, b < 256) : IsAccepted p pk msg sig :=
  VerifyFips.emitted_signature_spec_verifies p hp seed tape pk sk tape' hk fuel msg randomized tape2 sig tape3 hs hpb hb

/-- what `Keypair::generate` returns is what `keypair` returned (the containers take the two keys as they are) -/
theorem generate_is_keypair (p : Params) (e : Option (List Nat)) (tape : Tape) (sk pk : List Nat) (tape' : Tape)
    (hg : keypair_generate p e tape = .ok (sk, pk, tape')) :
    keypair p e tape = .ok (pk, sk, tape') ∧ sk.length = p.skBytes ∧ pk.length = p.pkBytes := by
  unfold keypair_generate at hg
  obtain ⟨⟨pk0, sk0, t0⟩, hk, hg⟩ := bind_eq_ok.mp hg
  simp only at hg
  obtain ⟨sk1, h1, hg⟩ := bind_eq_ok.mp hg
  obtain ⟨pk1, h2, hg⟩ := bind_eq_ok.mp hg
  injection hg with hg; injection hg with e1 hg; injection hg with e2 e3
  obtain ⟨l1, rfl⟩ := (C11.from_bytes_iff _ _ _).mp h1
  obtain ⟨l2, rfl⟩ := (C11.from_bytes_iff _ _ _).mp h2
  subst e1; subst e2; subst e3
  exact ⟨hk, l1, l2⟩

/-- **the `Keypair` object**: a key pair made by `Keypair::generate` (seeded or not), stored and reloaded through
    `to_bytes` / `from_bytes`, verifies with `Keypair::verify` / `prehash_verify` every signature that
    `Keypair::sign` / `prehash_sign` returns under it — ML-DSA (any context, hedged or not, either pre-hash) and Dilithium -/
theorem keypair_object_sign_then_verify (p : Params) (hp : p ∈ allParams) (e : Option (List Nat)) (tape : Tape) (sk pk : List Nat)
    (tape' : Tape) (hg : keypair_generate p e tape = .ok (sk, pk, tape')) :
    (∀ fuel msg ctx hedged t2 sig t3, kp_mldsa_sign p fuel (keypair_to_bytes sk pk) msg ctx hedged t2 = .ok (some sig, t3) →
        kp_mldsa_verify p (keypair_to_bytes sk pk) msg sig ctx = .ok true) ∧
    (∀ fuel phm ctx hedged ph t2 sig t3, kp_mldsa_prehash_sign p fuel (keypair_to_bytes sk pk) phm ctx hedged ph t2 = .ok (some sig, t3) →
        kp_mldsa_prehash_verify p (keypair_to_bytes sk pk) phm sig ctx ph = .ok true) ∧
    (∀ fuel msg sig, kp_dil_sign p fuel (keypair_to_bytes sk pk) msg = .ok (some sig) →
        kp_dil_verify p (keypair_to_bytes sk pk) msg sig = .ok true) := by
  obtain ⟨hk, ls, lp⟩ := generate_is_keypair p e tape sk pk tape' hg
  obtain ⟨a1, a2, a3, a4, a5, a6⟩ := C11.keypair_entry_points p sk pk ls lp
  refine ⟨?_, ?_, ?_⟩
  · intro fuel msg ctx hedged t2 sig t3 hs
    rw [a1] at hs; rw [a3]
    exact mldsa_sign_then_verify p hp e tape pk sk tape' hk fuel msg ctx hedged t2 sig t3 hs
  · intro fuel phm ctx hedged ph t2 sig t3 hs
    rw [a2] at hs; rw [a4]
    exact mldsa_prehash_sign_then_verify p hp e tape pk sk tape' hk fuel phm ctx hedged ph t2 sig t3 hs
  · intro fuel msg sig hs
    rw [a5] at hs; rw [a6]
    exact dil_sign_then_verify p hp e tape pk sk tape' hk fuel msg sig hs

open DV.SignFips DV.SignSpec DV.XofSpec DV.Complete in
/-- **termination, as far as it can be a theorem**: the code's signing loop stops exactly where the specification's does.
    For a key pair from `keypair` and a call of `signature` that comes back (with a signature, or with `none` after `fuel`
    attempts; `fuel` within the code's u16 nonce budget): with (ρ, K, tr, s1, s2, t0) the decoding of sk, A = ExpandA(ρ),
    μ = H(tr ‖ M′, 64) and ρ″ derived from K, μ and the drawn bytes — if the specification's rejection loop
    (FIPS 204 Alg. 7 / Dilithium 3.1 Sign) stops at some κ < fuel with σ, then the call returned `some σ`.
    With `C08.signature_total` (no fault in any iteration) and `C05.signing_is_spec_function` (what is returned is the
    specification's output) this leaves open only whether the *specification's* loop has an accepting iteration — a
    statement about SHAKE-256 outputs (probability about 1/4 per iteration), observed at volume, not proved. -/
theorem signing_stops_where_the_specification_stops (p : Params) (hp : p ∈ allParams) (seed : Option (List Nat)) (tape : Tape)
    (pk sk : List Nat) (tape' : Tape) (hk : keypair p seed tape = .ok (pk, sk, tape'))
    (fuel : Nat) (hf : (p.l : Int) * (fuel : Int) ≤ 65535) (msg : List Nat) (randomized : Bool) (tape2 : Tape)
    (res : Option (List Nat)) (tape3 : Tape)
    (hs : signature p fuel msg sk randomized tape2 = .ok (res, tape3)) :
    ∃ (rho tr key : List Nat) (s1 s2 t1 t0 : PolyVec) (mat : List PolyVec) (r : Option (List Nat)),
      unpack_sk p sk = .ok (rho, tr, key, t0, s1, s2) ∧ matrix_expand p FUEL rho = .ok mat ∧ KeyFacts p mat s1 s2 t1 t0 ∧
      (randomized = false → r = none) ∧
      (randomized = true → ∃ n, n = (if p.mldsa = true then SEEDBYTES else CRHBYTES) ∧ r = some (tape2.take n)) ∧
      ∀ κ σ, κ < fuel →
        IsLoopOutput p mat s1 s2 t0 (SHAKE256 (tr ++ msg) CRHBYTES) (rhoPrimeSpec p key (SHAKE256 (tr ++ msg) CRHBYTES) r) κ σ →
        res = some σ :=
  SignTerm.signature_returns_spec_output p hp seed tape pk sk tape' hk fuel hf msg randomized tape2 res tape3 hs

end DV.C01
