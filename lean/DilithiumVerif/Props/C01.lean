import DilithiumVerif.Impl.Api
import DilithiumVerif.Lemmas.Basic
import DilithiumVerif.Lemmas.IterComplete
/-
  C01 — Every signature the library produces verifies (all sets, all modes).
  Part 1 (loop logic): the signing loop can end only by returning the signature packed by an accepted
  iteration, namely the first accepted one; with fuel n it returns `none` exactly when the first n
  iterations are all rejected.  Termination for every input is not a theorem (it is a statement about SHAKE
  outputs); see DESIGN.md §5/C01.
-/
namespace DV.C01
open DV

def accepted : IterResult → Option (List Nat)
  | .accept s => some s
  | _ => none

/-- `sign_loop` from nonce κ₀ with fuel n returns `some σ` iff some iteration κ₀+j (j < n) is accepted, all earlier
    ones are rejected (without fault), and σ is that iteration's output -/
theorem sign_loop_some (p : Params) (mat : List PolyVec) (mu rp : List Nat) (s1h s2h t0h : PolyVec) :
    ∀ (fuel : Nat) (k0 : Int) (sig : List Nat),
      sign_loop p mat mu rp s1h s2h t0h fuel k0 = .ok (some sig) →
      ∃ j, j < fuel ∧ sign_iteration p mat mu rp s1h s2h t0h (k0 + j) = .ok (.accept sig) ∧
        ∀ i, i < j → ∃ r, sign_iteration p mat mu rp s1h s2h t0h (k0 + i) = .ok r ∧ accepted r = none := by
  intro fuel
  induction fuel with
  | zero => intro k0 sig h; simp [sign_loop] at h
  | succ n ih =>
    intro k0 sig h
    unfold sign_loop at h
    obtain ⟨r, hr, h⟩ := bind_eq_ok.mp h
    cases r with
    | accept s =>
      simp only at h; injection h with h; injection h with h; subst h
      exact ⟨0, by omega, by simpa using hr, by intro i hi; omega⟩
    | rejZ | rejR0 | rejCt0 | rejHint =>
      simp only at h
      obtain ⟨j, hj, hacc, hrej⟩ := ih (k0 + 1) sig h
      refine ⟨j + 1, by omega, ?_, ?_⟩
      · have : k0 + ((j + 1 : Nat) : Int) = k0 + 1 + (j : Int) := by omega
        rw [this]; exact hacc
      · intro i hi
        cases i with
        | zero => exact ⟨_, by simpa using hr, rfl⟩
        | succ i' =>
          obtain ⟨r', h1, h2⟩ := hrej i' (by omega)
          have : k0 + ((i' + 1 : Nat) : Int) = k0 + 1 + (i' : Int) := by omega
          exact ⟨r', by rw [this]; exact h1, h2⟩

/-- with fuel n the loop gives up (`none`) only if all n iterations were rejected -/
theorem sign_loop_none (p : Params) (mat : List PolyVec) (mu rp : List Nat) (s1h s2h t0h : PolyVec) :
    ∀ (fuel : Nat) (k0 : Int),
      sign_loop p mat mu rp s1h s2h t0h fuel k0 = .ok none →
      ∀ i, i < fuel → ∃ r, sign_iteration p mat mu rp s1h s2h t0h (k0 + i) = .ok r ∧ accepted r = none := by
  intro fuel
  induction fuel with
  | zero => intro k0 _ i hi; omega
  | succ n ih =>
    intro k0 h i hi
    unfold sign_loop at h
    obtain ⟨r, hr, h⟩ := bind_eq_ok.mp h
    cases r with
    | accept s => simp at h
    | rejZ | rejR0 | rejCt0 | rejHint =>
      simp only at h
      cases i with
      | zero => exact ⟨_, by simpa using hr, rfl⟩
      | succ i' =>
        obtain ⟨r', h1, h2⟩ := ih (k0 + 1) h i' (by omega)
        have : k0 + ((i' + 1 : Nat) : Int) = k0 + 1 + (i' : Int) := by omega
        exact ⟨r', by rw [this]; exact h1, h2⟩

/-- an accepted iteration passed all four rejection tests, in the order of the code -/
theorem iteration_accept_only_after_checks (r : IterResult) (s : List Nat) (h : accepted r = some s) : r = .accept s := by
  cases r <;> simp [accepted] at h; subst h; rfl

/-! ## Part 2 (completeness of one iteration — the algebra of the scheme, on the model of the code)

  `Complete.KeyFacts p mat s1 s2 t1 t0` is what key generation establishes (theorem `C04.keygen_relation`): a well-formed
  matrix, short s1, s2, t1 and t0 in range, and t1·2^13 + t0 = A·s1 + s2 in ℤ_q[X]/(X^256+1) (read at the 256 NTT points).
  The theorem below follows every arithmetic step of `sign_iteration` and of `verify_tail` on the checked-semantics
  model — transforms, Montgomery products, lazy reductions, Decompose, MakeHint/UseHint — with the range analysis that
  shows no step overflows, through the NTT theorems of C13 and the rounding theorems of C15/C18. -/

open DV.Complete in
/-- **An accepted iteration verifies.** For each of the six parameter sets, any key satisfying the key-generation facts,
    any μ, ρ′ and nonce: if `sign_iteration` accepts and emits `sig`, then `sig` is the packing of some (c̃, z, h) with
    c̃ = H(μ ‖ w1Encode(w1)), ‖z‖∞ < γ1 − β, and the verifier's reconstruction (`verify_tail`: A·z − c·t1·2^13, UseHint,
    w1Encode) on (c̃, z, h) and the public t1 succeeds — no overflow, no out-of-range access — and returns exactly
    w1Encode(w1): the bytes whose hash with μ is c̃. -/
theorem accepted_iteration_verifies (p : Params) (hp : p ∈ allParams) (mat : List PolyVec) (s1 s2 t1 t0 s1h s2h t0h : PolyVec)
    (kf : KeyFacts p mat s1 s2 t1 t0)
    (e1 : vec_ntt s1 = .ok s1h) (e2 : vec_ntt s2 = .ok s2h) (e0 : vec_ntt t0 = .ok t0h)
    (mu rp : List Nat) (nonce : Int) (sig : List Nat)
    (hacc : sign_iteration p mat mu rp s1h s2h t0h nonce = .ok (.accept sig)) :
    ∃ ct z h w1, compute_ctilde p mu (k_pack_w1 p.lvl w1) = .ok ct ∧
      pack_sig p (ct ++ List.replicate (p.sigBytes - p.ctilde) 0) none z h = .ok sig ∧
      z.length = p.l ∧ (∀ a ∈ z, a.length = 256 ∧ ∀ x ∈ a, -((p.gamma1 : Int) - p.beta) < x ∧ x < (p.gamma1 : Int) - p.beta) ∧
      ∀ pk rho trh, shake256 CRHBYTES p.trBytes pk p.pkBytes = .ok trh → matrix_expand p FUEL rho = .ok mat →
        verify_tail p pk rho t1 ct z h = .ok (trh, k_pack_w1 p.lvl w1) :=
  iteration_complete p hp mat s1 s2 t1 t0 s1h s2h t0h kf e1 e2 e0 mu rp nonce sig hacc

end DV.C01
