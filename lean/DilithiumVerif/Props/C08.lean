import DilithiumVerif.Props.C02
import DilithiumVerif.Lemmas.VerifyTotal
import DilithiumVerif.Lemmas.SignTotal
/-
  C08 — Verification is total on untrusted bytes; no operation panics or overflows.
  The model has the semantics of the overflow-checked build: `.ok b` means "returned b without any panic,
  overflow or out-of-bounds access".  Part 1: the gates that make `verify` answer `false` (never a fault) before
  any arithmetic is done.  Part 2: `verify_total` — the range analysis of the whole arithmetic path (decoder ranges → NTT
  bounds → Montgomery products → reductions → UseHint → w1Encode → hashes), for arbitrary signature bytes.
-/
namespace DV.C08
open DV

/-- any byte string whose length is not SIGNBYTES — in particular lengths 0..SIGNBYTES−1 and every extension — is
    answered `false` without touching the key or the signature bytes -/
theorem wrong_length_is_false_not_fault (p : Params) (sig m pk : List Nat) (h : sig.length ≠ p.sigBytes) :
    verify p sig m pk = .ok false := C02.verify_length_gate p sig m pk h

/-- a signature whose hint section is rejected by the decoder, or whose z fails the norm gate, is answered `false`
    (given that decoding itself completed): no arithmetic on attacker-controlled polynomials happens before these gates -/
theorem early_reject (p : Params) (sig m pk : List Nat) (rt : List Nat × PolyVec) (u : Bool × List Nat × PolyVec × PolyVec)
    (hl : sig.length = p.sigBytes) (hpk : unpack_pk p pk = .ok rt) (hu : unpack_sig p sig = .ok u) :
    (u.1 = false → verify p sig m pk = .ok false) ∧
    (u.1 = true → vec_chknorm u.2.2.1 ((p.gamma1 : Int) - p.beta) = .ok 1 → verify p sig m pk = .ok false) := by
  constructor
  · intro hf
    unfold verify verify_core
    simp only [hl, if_true, hpk, hu, ok_bind, hf, Bool.false_eq_true, if_false]
  · intro ht hn
    unfold verify verify_core
    simp only [hl, if_true, hpk, hu, ok_bind, ht, hn, show (0:Int) < 1 by decide]

/-- the signing loop's u16 nonce arithmetic cannot overflow before iteration ⌊65535/L⌋ (the documented limit
    shared with the reference implementation; unreachable in practice) -/
theorem nonce_budget : ∀ p ∈ allParams, ∀ κ : Nat, κ < 65535 / p.l → (p.l : Int) * κ + (p.l - 1 : Nat) ≤ 65535 := by
  intro p hp κ hk
  simp only [allParams, List.mem_cons, List.mem_nil_iff, or_false] at hp
  rcases hp with rfl | rfl | rfl | rfl | rfl | rfl <;>
    (simp only [P_lvl2, P_lvl3, P_lvl5, P_mldsa44, P_mldsa65, P_mldsa87, Gen.lvl2.L, Gen.lvl3.L, Gen.lvl5.L,
      Gen.ml_dsa_44.L, Gen.ml_dsa_65.L, Gen.ml_dsa_87.L] at hk ⊢; omega)

/-! ## Part 2: totality on arbitrary bytes -/

open DV.Complete DV.SamplerTotal in
/-- **Verification is total on untrusted bytes.** For each of the six parameter sets, every public key of
    PUBLICKEYBYTES bytes (any byte values), every message and every list of bytes of ANY length offered as a signature,
    `verify` returns a boolean: on no path is there an arithmetic overflow, an index out of range or a failed slice
    conversion (the model has the semantics of the overflow-checked build; `OkOrFuel` adds the one outcome the Rust code
    does not have: the model's rejection-sampling block budget FUEL = 1000 running out). -/
theorem verify_total (p : Params) (hp : p ∈ allParams) (sig m pk : List Nat) (hpk : pk.length = p.pkBytes) (hb : ∀ b ∈ sig, b < 256) :
    OkOrFuel (verify p sig m pk) (fun _ => True) :=
  Complete.verify_total p hp sig m pk hpk hb

open DV.Complete DV.SamplerTotal in
/-- the ML-DSA entry point: any context (of any length), any signature bytes -/
theorem mldsa_verify_total (p : Params) (hp : p ∈ allParams) (pk msg sig : List Nat) (ctx : Option (List Nat))
    (hpk : pk.length = p.pkBytes) (hb : ∀ b ∈ sig, b < 256) :
    OkOrFuel (mldsa_verify p pk msg sig ctx) (fun _ => True) := by
  unfold mldsa_verify
  split
  · exact OkOrFuel.of_ok false rfl trivial
  · split
    · exact OkOrFuel.of_ok false rfl trivial
    · exact Complete.verify_total p hp sig _ pk hpk hb

open DV.Complete DV.SamplerTotal in
/-- the Dilithium entry point -/
theorem dil_verify_total (p : Params) (hp : p ∈ allParams) (pk msg sig : List Nat)
    (hpk : pk.length = p.pkBytes) (hb : ∀ b ∈ sig, b < 256) :
    OkOrFuel (dil_verify p pk msg sig) (fun _ => True) := by
  unfold dil_verify
  split
  · exact OkOrFuel.of_ok false rfl trivial
  · exact Complete.verify_total p hp sig msg pk hpk hb

/-! ## Part 3: the honest path — key generation and signing complete without overflow -/

open DV.Complete DV.SamplerTotal in
/-- **Key generation from any 32-byte seed is total**, for each of the six parameter sets: no intermediate arithmetic
    overflows, no index is out of range, and the keys have exactly PUBLICKEYBYTES and SECRETKEYBYTES bytes; the RNG tape
    is not touched. -/
theorem keypair_total (p : Params) (hp : p ∈ allParams) (seed : List Nat) (hs : seed.length = SEEDBYTES) (tape : Tape) :
    OkOrFuel (keypair p (some seed) tape) (fun r => r.1.length = p.pkBytes ∧ r.2.1.length = p.skBytes ∧ r.2.2 = tape) :=
  Complete.keypair_total p hp seed hs tape

open DV.Complete DV.SamplerTotal in
/-- **Signing with any generated key on any message is total**: for a key pair returned by `keypair` (seeded or not),
    deterministic signing — or randomized/hedged signing with 64 bytes left on the RNG tape — within the u16 nonce budget
    of the code (L·iterations ≤ 2^16 − 1: beyond it the Rust code itself overflows its `u16` counter, which the model
    reproduces as a fault) completes with no overflow in any intermediate arithmetic of any iteration, rejected or accepted. -/
theorem signature_total (p : Params) (hp : p ∈ allParams) (seed : Option (List Nat)) (tape : Tape) (pk sk : List Nat) (tape' : Tape)
    (hk : keypair p seed tape = .ok (pk, sk, tape'))
    (fuel : Nat) (hf : (p.l : Int) * fuel ≤ 65535) (msg : List Nat) (randomized : Bool) (tape2 : Tape)
    (ht : randomized = true → CRHBYTES ≤ tape2.length) :
    OkOrFuel (signature p fuel msg sk randomized tape2) (fun _ => True) :=
  Complete.signature_total p hp seed tape pk sk tape' hk fuel hf msg randomized tape2 ht

open DV.Complete DV.SamplerTotal in
/-- one iteration, for any key in the key-generation ranges and any nonce within the budget -/
theorem sign_iteration_total (p : Params) (hp : p ∈ allParams) (mat : List PolyVec) (hmat : MatOK p mat)
    (s1 s2 t0 s1h s2h t0h : PolyVec) (kd : KeyData p s1 s2 t0 s1h s2h t0h)
    (mu rp : List Nat) (hmu : mu.length = CRHBYTES) (hrp : rp.length = CRHBYTES) (nonce : Int)
    (h0 : 0 ≤ nonce) (hn : (p.l : Int) * nonce + p.l ≤ 65535) :
    OkOrFuel (sign_iteration p mat mu rp s1h s2h t0h nonce) (fun _ => True) :=
  Complete.sign_iteration_total p hp mat hmat s1 s2 t0 s1h s2h t0h kd mu rp hmu hrp nonce h0 hn

end DV.C08
