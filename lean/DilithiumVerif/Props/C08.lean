import DilithiumVerif.Props.C02
/-
  C08 — Verification is total on untrusted bytes; no operation panics or overflows.
  The model has the semantics of the overflow-checked build: `.ok b` means "returned b without any panic,
  overflow or out-of-bounds access".  Part 1: the gates that make `verify` answer `false` (never a fault) before
  any arithmetic is done.  The range analysis of the arithmetic path (unpack ranges → NTT bounds → reduce → …)
  is not finished (`verify_total` is future work): partial.
-/
namespace DV.C08
open DV

/-- any byte string whose length is not SIGNBYTES — in particular lengths 0..SIGNBYTES−1 and every extension — is
    answered `false` without touching the key or the signature bytes -/
theorem wrong_length_is_false_not_fault (p : Params) (sig m pk : List Nat) (h : sig.length ≠ p.sigBytes) :
    verify p sig m pk = .ok false := C02.verify_length_gate p sig m pk h

/-- a signature whose hint section is rejected by the decoder, or whose z fails the norm gate, is answered `false`
    (given that decoding itself completed): no arithmetic on attacker-controlled polynomials happens before these gates -/
theorem early_reject (p : Params) (sig m pk : List Nat) (rt : List Nat × PolyVec) (u : Bool × List Nat × PolyVec × PolyVec)
    (hl : sig.length = p.sigBytes) (hpk : unpack_pk p pk = .ok rt) (hu : unpack_sig p sig = .ok u) :
    (u.1 = false → verify p sig m pk = .ok false) ∧
    (u.1 = true → vec_chknorm u.2.2.1 ((p.gamma1 : Int) - p.beta) = .ok 1 → verify p sig m pk = .ok false) := by
  constructor
  · intro hf
    unfold verify verify_core
    simp only [hl, if_true, hpk, hu, ok_bind, hf, Bool.false_eq_true, if_false]
  · intro ht hn
    unfold verify verify_core
    simp only [hl, if_true, hpk, hu, ok_bind, ht, hn, show (0:Int) < 1 by decide]

/-- the signing loop's u16 nonce arithmetic cannot overflow before iteration ⌊65535/L⌋ (the documented limit
    shared with the reference implementation; unreachable in practice) -/
theorem nonce_budget : ∀ p ∈ allParams, ∀ κ : Nat, κ < 65535 / p.l → (p.l : Int) * κ + (p.l - 1 : Nat) ≤ 65535 := by
  intro p hp κ hk
  simp only [allParams, List.mem_cons, List.mem_nil_iff, or_false] at hp
  rcases hp with rfl | rfl | rfl | rfl | rfl | rfl <;>
    (simp only [P_lvl2, P_lvl3, P_lvl5, P_mldsa44, P_mldsa65, P_mldsa87, Gen.lvl2.L, Gen.lvl3.L, Gen.lvl5.L,
      Gen.ml_dsa_44.L, Gen.ml_dsa_65.L, Gen.ml_dsa_87.L] at hk ⊢; omega)

end DV.C08
