/-
  Spec.Rounding — FIPS 204 §7.4 (Algorithms 35–40), transcribed with mathematical integers.
  The Dilithium 3.1 specification defines the same functions.
  q = 8380417, d = 13.  Results are returned in the standard's order (r1, r0).
-/
namespace DV.Spec

def q : Int := 8380417

/-- `r mod± α` for even α: the representative in (−α/2, α/2] -/
def modpm (r α : Int) : Int :=
  let r0 := r % α
  if α / 2 < r0 then r0 - α else r0

/-- Algorithm 35 Power2Round: r ↦ (r1, r0) with r ≡ r1·2^d + r0 -/
def Power2Round (r : Int) : Int × Int :=
  let rp := r % q
  let r0 := modpm rp 8192
  ((rp - r0) / 8192, r0)

/-- Algorithm 36 Decompose: r ↦ (r1, r0) -/
def Decompose (γ2 : Int) (r : Int) : Int × Int :=
  let rp := r % q
  let r0 := modpm rp (2 * γ2)
  if rp - r0 = q - 1 then (0, r0 - 1) else ((rp - r0) / (2 * γ2), r0)

/-- Algorithm 37 -/
def HighBits (γ2 r : Int) : Int := (Decompose γ2 r).1
/-- Algorithm 38 -/
def LowBits (γ2 r : Int) : Int := (Decompose γ2 r).2

/-- Algorithm 39 MakeHint(z, r): 1 iff adding z to r changes the high bits -/
def MakeHint (γ2 z r : Int) : Int :=
  if HighBits γ2 r ≠ HighBits γ2 (r + z) then 1 else 0

/-- Algorithm 40 UseHint(h, r) -/
def UseHint (γ2 h r : Int) : Int :=
  let m := (q - 1) / (2 * γ2)
  let (r1, r0) := Decompose γ2 r
  if h = 1 ∧ 0 < r0 then (r1 + 1) % m
  else if h = 1 ∧ r0 ≤ 0 then (r1 - 1) % m
  else r1

end DV.Spec
