import DilithiumVerif.Impl.Packing
/-
  Impl.Sign — src/sign/<set>.rs: keypair, signature, verify; one model over `Params`.
  `rand::thread_rng()` is an input tape (`List Nat` of unread bytes); every function that may draw
  returns the remaining tape.  Loops that end only with probability 1 take `fuel`.
  ML-DSA key generation is modelled as FIPS 204 prescribes (seed ‖ K ‖ L) for all three ML-DSA sets
  (repaired code, see known_findings.txt F2).
-/
namespace DV

abbrev Tape := List Nat

/-- `random_bytes(bytes, n)`: the next n bytes of the RNG tape -/
def random_bytes (tape : Tape) (n : Nat) : Chk (List Nat × Tape) :=
  if n ≤ tape.length then .ok (tape.take n, tape.drop n) else .error .unwrap

/-- default rejection-sampling fuel: far more XOF blocks than any real stream needs -/
def FUEL : Nat := 1000

structure KeyMaterial where
  rho : List Nat
  key : List Nat
  tr : List Nat
  s1 : PolyVec
  s2 : PolyVec
  t1 : PolyVec
  t0 : PolyVec

/-- everything `keypair` computes before packing -/
def keygen_core (p : Params) (init_seed : List Nat) : Chk (List Nat × List Nat × PolyVec × PolyVec × PolyVec × PolyVec) := do
  let seedbuf ← shake256n (2 * SEEDBYTES + CRHBYTES) init_seed
  let rho := seedbuf.take SEEDBYTES
  let rhoprime := (seedbuf.drop SEEDBYTES).take CRHBYTES
  let key := seedbuf.drop (SEEDBYTES + CRHBYTES)
  let mat ← matrix_expand p FUEL rho
  let s1 ← l_uniform_eta p FUEL rhoprime 0
  let s2 ← k_uniform_eta p FUEL rhoprime p.l
  let s1hat ← vec_ntt s1
  let t1 ← matrix_pointwise_montgomery mat s1hat
  let t1 ← vec_reduce t1
  let t1 ← vec_invntt_tomont t1
  let t1 ← vec_add t1 s2
  let t1 ← vec_caddq t1
  let (t1, t0) ← k_power2round t1
  .ok (rho, key, s1, s2, t1, t0)

/-- `sign::<set>::keypair(pk, sk, seed)`; returns (pk, sk, remaining tape) -/
def keypair (p : Params) (seed : Option (List Nat)) (tape : Tape) : Chk (List Nat × List Nat × Tape) := do
  let (s, tape) ← (match seed with
    | some x => if x.length = SEEDBYTES then .ok (x, tape) else .error .len
    | none => random_bytes tape SEEDBYTES)
  let init_seed := if p.mldsa then s ++ [p.k % 256, p.l % 256] else s
  let (rho, key, s1, s2, t1, t0) ← keygen_core p init_seed
  let pk ← pack_pk p rho t1
  let tr ← shake256n p.trBytes pk
  let sk ← pack_sk p rho tr key t0 s1 s2
  .ok (pk, sk, tape)

/-- μ = H(tr ‖ M, 64) through the incremental interface, as the code computes it -/
def compute_mu (tr : List Nat) (trLen : Nat) (msg : List Nat) : Chk (List Nat) := do
  let st ← shake256_absorb KeccakState.init tr trLen
  let st ← shake256_absorb st msg msg.length
  let st ← shake256_finalize st
  let (mu, _) ← shake256_squeeze CRHBYTES CRHBYTES st
  .ok mu

/-- c̃ = H(μ ‖ w1Encode(w1), ctilde) -/
def compute_ctilde (p : Params) (mu : List Nat) (w1packed : List Nat) : Chk (List Nat) := do
  let st ← shake256_absorb KeccakState.init mu CRHBYTES
  let st ← shake256_absorb st w1packed (p.k * p.polyw1)
  let st ← shake256_finalize st
  let (c, _) ← shake256_squeeze p.ctilde p.ctilde st
  .ok c

inductive IterResult where
  | rejZ | rejR0 | rejCt0 | rejHint
  | accept (sig : List Nat)

/-- one iteration of the signing `loop` for a given mask nonce κ -/
def sign_iteration (p : Params) (mat : List PolyVec) (mu rhoprime : List Nat) (s1h s2h t0h : PolyVec) (nonce : Int) : Chk IterResult := do
  let y ← l_uniform_gamma1 p rhoprime nonce
  let _ ← chkU16 (nonce + 1)          -- `nonce += 1` (u16, checked) right after sampling y
  let z ← vec_ntt y
  let w1 ← matrix_pointwise_montgomery mat z
  let w1 ← vec_reduce w1
  let w1 ← vec_invntt_tomont w1
  let w1 ← vec_caddq w1
  let (w1, w0) ← k_decompose p.lvl w1
  let w1p := k_pack_w1 p.lvl w1
  let ct ← compute_ctilde p mu w1p
  let cp ← poly_challenge p FUEL ct
  let cp ← poly_ntt cp
  let z ← vec_pointwise_poly_montgomery cp s1h
  let z ← vec_invntt_tomont z
  let z ← vec_add z y
  let z ← vec_reduce z
  let r ← vec_chknorm z ((p.gamma1 : Int) - p.beta)
  if 0 < r then .ok .rejZ else
  let h ← vec_pointwise_poly_montgomery cp s2h
  let h ← vec_invntt_tomont h
  let w0 ← vec_sub w0 h
  let w0 ← vec_reduce w0
  let r ← vec_chknorm w0 ((p.gamma2 : Int) - p.beta)
  if 0 < r then .ok .rejR0 else
  let h ← vec_pointwise_poly_montgomery cp t0h
  let h ← vec_invntt_tomont h
  let h ← vec_reduce h
  let r ← vec_chknorm h (p.gamma2 : Int)
  if 0 < r then .ok .rejCt0 else
  let w0 ← vec_add w0 h
  let (h, n) ← k_make_hint p.lvl w0 w1
  if (p.omega : Int) < n then .ok .rejHint else
  let sigbuf := ct ++ List.replicate (p.sigBytes - p.ctilde) 0
  let sig ← pack_sig p sigbuf none z h
  .ok (.accept sig)

def sign_loop (p : Params) (mat : List PolyVec) (mu rhoprime : List Nat) (s1h s2h t0h : PolyVec) : Nat → Int → Chk (Option (List Nat))
  | 0, _ => .ok none
  | fuel + 1, nonce => do
      let r ← sign_iteration p mat mu rhoprime s1h s2h t0h nonce
      match r with
      | .accept sig => .ok (some sig)
      | _ => sign_loop p mat mu rhoprime s1h s2h t0h fuel (nonce + 1)

/-- ρ′ as the code derives it: Dilithium: random 64 bytes or H(K ‖ μ); ML-DSA: H(K ‖ rnd ‖ μ) with
    rnd = 32 fresh bytes (hedged) or 32 zero bytes -/
def derive_rhoprime (p : Params) (key mu : List Nat) (randomized : Bool) (tape : Tape) : Chk (List Nat × Tape) := do
  if p.mldsa then
    let (rnd, tape) ← (if randomized then random_bytes tape SEEDBYTES else .ok (List.replicate SEEDBYTES 0, tape))
    let st ← shake256_absorb KeccakState.init key SEEDBYTES
    let st ← shake256_absorb st rnd SEEDBYTES
    let st ← shake256_absorb st mu CRHBYTES
    let st ← shake256_finalize st
    let (rp, _) ← shake256_squeeze CRHBYTES CRHBYTES st
    .ok (rp, tape)
  else if randomized then random_bytes tape CRHBYTES
  else do
    let rp ← shake256n CRHBYTES (key ++ mu)
    .ok (rp, tape)

/-- `sign::<set>::signature(sig, msg, sk, randomized)` for a SIGNBYTES-sized `sig` buffer;
    `none` = fuel exhausted (never observed on the real code) -/
def signature (p : Params) (fuel : Nat) (msg sk : List Nat) (randomized : Bool) (tape : Tape) : Chk (Option (List Nat) × Tape) := do
  let (rho, tr, key, t0, s1, s2) ← unpack_sk p sk
  let mu ← compute_mu tr p.trBytes msg
  let (rhoprime, tape) ← derive_rhoprime p key mu randomized tape
  let mat ← matrix_expand p FUEL rho
  let s1h ← vec_ntt s1
  let s2h ← vec_ntt s2
  let t0h ← vec_ntt t0
  let r ← sign_loop p mat mu rhoprime s1h s2h t0h fuel 0
  .ok (r, tape)

/-- reconstruction of w1 from the decoded signature and public key: returns (H(pk), w1Encode(w1')) -/
def verify_tail (p : Params) (pk rho : List Nat) (t1 : PolyVec) (c : List Nat) (z h : PolyVec) : Chk (List Nat × List Nat) := do
  let trh ← shake256 CRHBYTES p.trBytes pk p.pkBytes
  let cp ← poly_challenge p FUEL c
  let mat ← matrix_expand p FUEL rho
  let z ← vec_ntt z
  let w1 ← matrix_pointwise_montgomery mat z
  let cp ← poly_ntt cp
  let t1 := vec_shiftl t1
  let t1 ← vec_ntt t1
  let t1 ← vec_pointwise_poly_montgomery cp t1
  let w1 ← vec_sub w1 t1
  let w1 ← vec_reduce w1
  let w1 ← vec_invntt_tomont w1
  let w1 ← vec_caddq w1
  let w1 ← k_use_hint p.lvl w1 h
  .ok (trh, k_pack_w1 p.lvl w1)

/-- the part of `verify` that does not depend on the message: length gate, decoding, the norm gate, then
    `verify_tail`.  `none` = rejected before the hash comparison.
    Returns (tr-hash of pk, c̃ from the signature, w1Encode(w1')). -/
def verify_core (p : Params) (sig pk : List Nat) : Chk (Option (List Nat × List Nat × List Nat)) :=
  if sig.length = p.sigBytes then
    unpack_pk p pk >>= fun rt =>
    unpack_sig p sig >>= fun u =>
    if u.1 = true then
      vec_chknorm u.2.2.1 ((p.gamma1 : Int) - p.beta) >>= fun r =>
      if 0 < r then .ok none else
      verify_tail p pk rt.1 rt.2 u.2.1 u.2.2.1 u.2.2.2 >>= fun tb => .ok (some (tb.1, u.2.1, tb.2))
    else .ok none
  else .ok none

/-- `sign::<set>::verify(sig, m, pk) -> bool`.
    (The Rust code computes μ = H(tr ‖ m) between the norm gate and the challenge expansion; μ does not feed
    into the reconstruction of w1, so computing it afterwards gives the same value and the same
    fault/no-fault outcome.) -/
def verify (p : Params) (sig m pk : List Nat) : Chk Bool := do
  let core ← verify_core p sig pk
  match core with
  | none => .ok false
  | some (trh, c, buf) =>
    let mu ← compute_mu trh p.trBytes m
    let c2 ← compute_ctilde p mu buf
    .ok (decide (c = c2))

end DV
