import DilithiumVerif.Impl.PolyLvl
/-
  Impl.PolyVec — src/polyvec/{lvl2,lvl3,lvl5}.rs.  A vector is a `List Poly` (length K or L);
  a matrix is a list of K rows, each a vector of length L.  `p : Params` supplies K, L and the level.
-/
namespace DV

abbrev PolyVec := List Poly

/-- `for i in 0..n { out[i] = f(i)? }` -/
def forRange {α} (n : Nat) (f : Nat → Chk α) : Chk (List α) := mapL f (List.range n)

/-- `matrix_expand(mat, rho)`: mat[i][j] = uniform(rho, (i << 8) + j) -/
def matrix_expand (p : Params) (fuel : Nat) (rho : List Nat) : Chk (List PolyVec) :=
  forRange p.k fun i => forRange p.l fun j => poly_uniform fuel rho (asU16 ((i <<< 8) + j : Nat)).toNat

/-- `l_pointwise_acc_montgomery(w, u, v)`: w = pw(u[0],v[0]); for i in 1..L { t = pw(u[i],v[i]); w += t } -/
def l_pointwise_acc_go : List Poly → List Poly → Poly → Chk Poly
  | u :: us, v :: vs, w => do
      let t ← poly_pointwise_montgomery u v
      let w ← poly_add w t
      l_pointwise_acc_go us vs w
  | [], [], w => .ok w
  | _, _, _ => .error .len

def l_pointwise_acc_montgomery (u v : PolyVec) : Chk Poly :=
  match u, v with
  | u0 :: us, v0 :: vs => do
      let w ← poly_pointwise_montgomery u0 v0
      l_pointwise_acc_go us vs w
  | _, _ => .error .oob

/-- `matrix_pointwise_montgomery(t, mat, v)`: t[i] = l_pointwise_acc_montgomery(mat[i], v) -/
def matrix_pointwise_montgomery (mat : List PolyVec) (v : PolyVec) : Chk PolyVec :=
  mapL (fun row => l_pointwise_acc_montgomery row v) mat

/-- `l_uniform_eta(v, seed, nonce)` / `k_uniform_eta`: `nonce += 1` after each polynomial (checked u16) -/
def vec_uniform_eta_go (lv : Lvl) (fuel : Nat) (seed : List Nat) : Nat → Int → Chk (List Poly)
  | 0, _ => .ok []
  | n + 1, nonce => do
      let a ← poly_uniform_eta lv fuel seed nonce.toNat
      let nonce ← chkU16 (nonce + 1)
      let rest ← vec_uniform_eta_go lv fuel seed n nonce
      .ok (a :: rest)

def l_uniform_eta (p : Params) (fuel : Nat) (seed : List Nat) (nonce : Int) : Chk PolyVec :=
  vec_uniform_eta_go p.lvl fuel seed p.l nonce
def k_uniform_eta (p : Params) (fuel : Nat) (seed : List Nat) (nonce : Int) : Chk PolyVec :=
  vec_uniform_eta_go p.lvl fuel seed p.k nonce

/-- `l_uniform_gamma1(v, seed, nonce)`: v[i] = uniform_gamma1(seed, L as u16 * nonce + i as u16) -/
def l_uniform_gamma1 (p : Params) (seed : List Nat) (nonce : Int) : Chk PolyVec :=
  forRange p.l fun i => do
    let m ← chkU16 ((p.l : Int) * nonce)
    let n ← chkU16 (m + (i : Int))
    poly_uniform_gamma1 p.lvl seed n.toNat

def vec_reduce (v : PolyVec) : Chk PolyVec := mapL poly_reduce v
def vec_caddq (v : PolyVec) : Chk PolyVec := mapL poly_caddq v
def vec_add (w v : PolyVec) : Chk PolyVec := zipL poly_add w v
def vec_sub (w v : PolyVec) : Chk PolyVec := zipL poly_sub w v
def vec_shiftl (v : PolyVec) : PolyVec := v.map poly_shiftl
def vec_ntt (v : PolyVec) : Chk PolyVec := mapL poly_ntt v
def vec_invntt_tomont (v : PolyVec) : Chk PolyVec := mapL poly_invntt_tomont v
/-- `{l,k}_pointwise_poly_montgomery(r, a, v)` -/
def vec_pointwise_poly_montgomery (a : Poly) (v : PolyVec) : Chk PolyVec :=
  mapL (fun x => poly_pointwise_montgomery a x) v

/-- `{l,k}_chknorm(v, bound) -> u8` -/
def vec_chknorm : PolyVec → Int → Chk Int
  | [], _ => .ok 0
  | x :: xs, b => do
      let r ← poly_chknorm x b
      if 0 < r then .ok 1 else vec_chknorm xs b

/-- `k_power2round(v1, v0)`: returns (v1, v0) -/
def k_power2round (v : PolyVec) : Chk (PolyVec × PolyVec) := do
  let r ← mapL poly_power2round v
  .ok (r.map (·.1), r.map (·.2))

/-- `k_decompose(v1, v0)`: per polynomial `decompose(v1[i], v0[i])`, then `swap(v1, v0)`.
    Returns (v1, v0) after the swap: v1 = high parts, v0 = low parts. -/
def k_decompose (lv : Lvl) (v : PolyVec) : Chk (PolyVec × PolyVec) := do
  let r ← mapL (poly_decompose lv) v
  let v1 := r.map (·.1)   -- after the loop: first operand holds the low parts
  let v0 := r.map (·.2)   -- second operand holds the high parts
  .ok (v0, v1)            -- swap(v1, v0)

/-- `k_make_hint(h, v0, v1) -> i32` -/
def k_make_hint_go (lv : Lvl) : List Poly → List Poly → Int → Chk (List Poly × Int)
  | x :: xs, y :: ys, s => do
      let (h, n) ← poly_make_hint lv x y
      let s ← add32 s n
      let (hs, s) ← k_make_hint_go lv xs ys s
      .ok (h :: hs, s)
  | [], [], s => .ok ([], s)
  | _, _, _ => .error .len

def k_make_hint (lv : Lvl) (v0 v1 : PolyVec) : Chk (PolyVec × Int) := k_make_hint_go lv v0 v1 0

def k_use_hint (lv : Lvl) (a hint : PolyVec) : Chk PolyVec := zipL (poly_use_hint lv) a hint

/-- `k_pack_w1(r, a)`: the K encodings at stride POLYW1_PACKEDBYTES -/
def k_pack_w1 (lv : Lvl) (a : PolyVec) : List Nat := a.flatMap (w1_pack lv)

end DV
