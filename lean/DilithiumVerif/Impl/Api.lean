import DilithiumVerif.Impl.Sign
/-
  Impl.Api — src/{dilithium2,dilithium3,dilithium5,ml_dsa_44,ml_dsa_65,ml_dsa_87}.rs:
  the key containers and the message framing of the ML-DSA entry points.
  SHA-2 is external (crate `sha2`): the pre-hash digest `phm` is a parameter.
-/
namespace DV

inductive PH where | sha256 | sha512
  deriving Repr, DecidableEq

def oidOf : PH → List Nat
  | .sha256 => [0x06, 0x09, 0x60, 0x86, 0x48, 0x01, 0x65, 0x03, 0x04, 0x02, 0x01]
  | .sha512 => [0x06, 0x09, 0x60, 0x86, 0x48, 0x01, 0x65, 0x03, 0x04, 0x02, 0x03]

/-- `SecretKey::from_bytes` / `PublicKey::from_bytes`: `bytes.try_into().expect("")` -/
def from_bytes (n : Nat) (bytes : List Nat) : Chk (List Nat) :=
  if bytes.length = n then .ok bytes else .error .unwrap

/-- `Keypair::from_bytes`: secret = bytes[..SK], public = bytes[SK..]; returns (sk, pk) -/
def keypair_from_bytes (p : Params) (bytes : List Nat) : Chk (List Nat × List Nat) := do
  let s ← takeC bytes p.skBytes
  let sk ← from_bytes p.skBytes s
  let r ← dropC bytes p.skBytes
  let pk ← from_bytes p.pkBytes r
  .ok (sk, pk)

/-- `Keypair::to_bytes`: sk ‖ pk -/
def keypair_to_bytes (sk pk : List Nat) : List Nat := sk ++ pk

/-- `Keypair::generate(entropy)`; returns (sk, pk, tape) -/
def keypair_generate (p : Params) (entropy : Option (List Nat)) (tape : Tape) : Chk (List Nat × List Nat × Tape) := do
  let (pk, sk, tape) ← keypair p entropy tape
  let sk ← from_bytes p.skBytes sk
  let pk ← from_bytes p.pkBytes pk
  .ok (sk, pk, tape)

/-- the message representative built by `SecretKey::sign` / `PublicKey::verify` (pure mode);
    `none` = context longer than 255 bytes -/
def frame_pure (msg : List Nat) (ctx : Option (List Nat)) : Option (List Nat) :=
  match ctx with
  | some x => if x.length > 255 then none else some ([0, x.length % 256] ++ x ++ msg)
  | none => some ([0, 0] ++ msg)

/-- the message representative in pre-hash mode; `phm` = H(msg) computed by the external sha2 crate -/
def frame_prehash (phm : List Nat) (ctx : Option (List Nat)) (ph : PH) : Option (List Nat) :=
  match ctx with
  | some x => if x.length > 255 then none else some ([1, x.length % 256] ++ x ++ oidOf ph ++ phm)
  | none => some ([1, 0] ++ oidOf ph ++ phm)

/-- ML-DSA `SecretKey::sign(msg, ctx, hedged) -> Option<Signature>` -/
def mldsa_sign (p : Params) (fuel : Nat) (skBytes msg : List Nat) (ctx : Option (List Nat)) (hedged : Bool) (tape : Tape) :
    Chk (Option (List Nat) × Tape) :=
  match frame_pure msg ctx with
  | none => .ok (none, tape)
  | some m => signature p fuel m skBytes hedged tape

/-- ML-DSA `SecretKey::prehash_sign(msg, ctx, hedged, ph)` with phm = ph(msg) -/
def mldsa_prehash_sign (p : Params) (fuel : Nat) (skBytes phm : List Nat) (ctx : Option (List Nat)) (hedged : Bool) (ph : PH) (tape : Tape) :
    Chk (Option (List Nat) × Tape) :=
  match frame_prehash phm ctx ph with
  | none => .ok (none, tape)
  | some m => signature p fuel m skBytes hedged tape

/-- ML-DSA `PublicKey::verify(msg, sig, ctx) -> bool` -/
def mldsa_verify (p : Params) (pkBytes msg sig : List Nat) (ctx : Option (List Nat)) : Chk Bool :=
  if sig.length ≠ p.sigBytes then .ok false else
  match frame_pure msg ctx with
  | none => .ok false
  | some m => verify p sig m pkBytes

/-- ML-DSA `PublicKey::prehash_verify(msg, sig, ctx, ph)` -/
def mldsa_prehash_verify (p : Params) (pkBytes phm sig : List Nat) (ctx : Option (List Nat)) (ph : PH) : Chk Bool :=
  if sig.length ≠ p.sigBytes then .ok false else
  match frame_prehash phm ctx ph with
  | none => .ok false
  | some m => verify p sig m pkBytes

/-- Dilithium `SecretKey::sign(msg)` (always deterministic) -/
def dil_sign (p : Params) (fuel : Nat) (skBytes msg : List Nat) : Chk (Option (List Nat)) := do
  let (r, _) ← signature p fuel msg skBytes false []
  .ok r

/-- Dilithium `PublicKey::verify(msg, sig)` -/
def dil_verify (p : Params) (pkBytes msg sig : List Nat) : Chk Bool :=
  if sig.length ≠ p.sigBytes then .ok false else verify p sig msg pkBytes

/-! `Keypair::{sign, prehash_sign, verify, prehash_verify}`: `self.secret.sign(..)` / `self.public.verify(..)` on the two
    halves stored by `Keypair::from_bytes` (first argument here: the bytes `Keypair::to_bytes` returns, sk ‖ pk). -/

def kp_mldsa_sign (p : Params) (fuel : Nat) (kpBytes msg : List Nat) (ctx : Option (List Nat)) (hedged : Bool) (tape : Tape) :
    Chk (Option (List Nat) × Tape) := do
  let (sk, _) ← keypair_from_bytes p kpBytes
  mldsa_sign p fuel sk msg ctx hedged tape

def kp_mldsa_prehash_sign (p : Params) (fuel : Nat) (kpBytes phm : List Nat) (ctx : Option (List Nat)) (hedged : Bool) (ph : PH)
    (tape : Tape) : Chk (Option (List Nat) × Tape) := do
  let (sk, _) ← keypair_from_bytes p kpBytes
  mldsa_prehash_sign p fuel sk phm ctx hedged ph tape

def kp_mldsa_verify (p : Params) (kpBytes msg sig : List Nat) (ctx : Option (List Nat)) : Chk Bool := do
  let (_, pk) ← keypair_from_bytes p kpBytes
  mldsa_verify p pk msg sig ctx

def kp_mldsa_prehash_verify (p : Params) (kpBytes phm sig : List Nat) (ctx : Option (List Nat)) (ph : PH) : Chk Bool := do
  let (_, pk) ← keypair_from_bytes p kpBytes
  mldsa_prehash_verify p pk phm sig ctx ph

def kp_dil_sign (p : Params) (fuel : Nat) (kpBytes msg : List Nat) : Chk (Option (List Nat)) := do
  let (sk, _) ← keypair_from_bytes p kpBytes
  dil_sign p fuel sk msg

def kp_dil_verify (p : Params) (kpBytes msg sig : List Nat) : Chk Bool := do
  let (_, pk) ← keypair_from_bytes p kpBytes
  dil_verify p pk msg sig

end DV
