import DilithiumVerif.Impl.Reduce
/-
  Impl.Ntt — src/ntt.rs.  The three nested `while` loops become: layers (len = 128 … 1),
  blocks of 2·len consecutive coefficients, and the butterfly over the two halves of a block.
  Each butterfly touches only a[j] and a[j+len], so processing a block half-by-half yields the
  same values and the same overflow behaviour as the Rust order.
-/
namespace DV

abbrev Poly := List Int

def zeta (k : Nat) : Int := Gen.ZETAS.getD k 0

/-- t = montgomery_reduce(zeta.wrapping_mul(x as i64)) -/
def mulZeta (z x : Int) : Chk Int := montgomery_reduce (wrap64 (z * x))

/-- forward butterfly on one block (lo, hi halves): hi' = lo − t, lo' = lo + t, t = mont(zeta·hi) -/
def nttBlock (z : Int) (blk : List Int) (len : Nat) : Chk (List Int) := do
  let lo := blk.take len
  let hi := blk.drop len
  let t ← mapL (mulZeta z) hi
  let hi' ← zipL sub32 lo t
  let lo' ← zipL add32 lo t
  .ok (lo' ++ hi')

/-- one layer: blocks of 2·len, block i uses ZETAS[k0 + 1 + i] -/
def nttLayerGo (len : Nat) : Nat → List (List Int) → Chk (List Int)
  | _, [] => .ok []
  | k, b :: bs => do
      let b' ← nttBlock (zeta k) b len
      let rest ← nttLayerGo len (k + 1) bs
      .ok (b' ++ rest)

def nttLayer (len k0 : Nat) (a : List Int) : Chk (List Int) :=
  nttLayerGo len (k0 + 1) (chunks (2 * len) a)

/-- `ntt::ntt(a)`: len = 128, 64, …, 1; k runs 1..255 -/
def ntt (a : Poly) : Chk Poly := do
  if a.length ≠ 256 then .error .len else
  let a ← nttLayer 128 0 a
  let a ← nttLayer 64 1 a
  let a ← nttLayer 32 3 a
  let a ← nttLayer 16 7 a
  let a ← nttLayer 8 15 a
  let a ← nttLayer 4 31 a
  let a ← nttLayer 2 63 a
  nttLayer 1 127 a

/-- inverse butterfly: lo' = lo + hi; hi' = mont((−zeta)·(lo − hi)) -/
def invBlock (z : Int) (blk : List Int) (len : Nat) : Chk (List Int) := do
  let lo := blk.take len
  let hi := blk.drop len
  let lo' ← zipL add32 lo hi
  let d ← zipL sub32 lo hi
  let hi' ← mapL (mulZeta z) d
  .ok (lo' ++ hi')

/-- block i of a layer uses −ZETAS[k0 − 1 − i] -/
def invLayerGo (len : Nat) : Nat → List (List Int) → Chk (List Int)
  | _, [] => .ok []
  | k, b :: bs => do
      let z ← sub32 0 (zeta (k - 1))
      let b' ← invBlock z b len
      let rest ← invLayerGo len (k - 1) bs
      .ok (b' ++ rest)

def invLayer (len k0 : Nat) (a : List Int) : Chk (List Int) :=
  invLayerGo len k0 (chunks (2 * len) a)

/-- `ntt::invntt_tomont(a)`: len = 1, 2, …, 128; k runs 255..1; final scaling by F = mont²/256 -/
def invntt_tomont (a : Poly) : Chk Poly := do
  if a.length ≠ 256 then .error .len else
  let a ← invLayer 1 256 a
  let a ← invLayer 2 128 a
  let a ← invLayer 4 64 a
  let a ← invLayer 8 32 a
  let a ← invLayer 16 16 a
  let a ← invLayer 32 8 a
  let a ← invLayer 64 4 a
  let a ← invLayer 128 2 a
  mapL (mulZeta Gen.F) a

end DV
