import DilithiumVerif.Gen.Constants
import DilithiumVerif.Impl.Basic
/-
  Parameter sets.  The Rust crate has six textual copies (lvl2, lvl3, lvl5,
  ml_dsa_44, ml_dsa_65, ml_dsa_87); the model is one function over `Params`.
  All numbers come from `Gen.Constants`, i.e. from /repo/src at check time.
-/
namespace DV

def Q : Int := Gen.Q
def N : Nat := Gen.N
def D : Nat := Gen.D
def SEEDBYTES : Nat := Gen.SEEDBYTES
def CRHBYTES : Nat := Gen.CRHBYTES
def POLYT1 : Nat := Gen.POLYT1_PACKEDBYTES
def POLYT0 : Nat := Gen.POLYT0_PACKEDBYTES

/-- which textual copy of `rounding::*` / `poly::*` is used -/
inductive Lvl where | l2 | l3 | l5
  deriving Repr, DecidableEq, Inhabited

structure Params where
  name : String
  lvl : Lvl            -- which rounding / polyvec module the set uses
  mldsa : Bool          -- FIPS 204 flavour (64-byte tr, rnd mixing, λ/4-byte c̃, seed domain separation)
  k : Nat
  l : Nat
  eta : Nat
  tau : Nat
  beta : Nat
  gamma1 : Nat
  gamma2 : Nat
  omega : Nat
  ctilde : Nat          -- C_DASH_BYTES resp. SEEDBYTES
  trBytes : Nat
  polyz : Nat
  polyw1 : Nat
  polyeta : Nat
  pkBytes : Nat
  skBytes : Nat
  sigBytes : Nat
  deriving Repr, Inhabited

open Gen in
def P_lvl2 : Params where
  name := "lvl2"
  lvl := .l2
  mldsa := false
  k := lvl2.K
  l := lvl2.L
  eta := lvl2.ETA
  tau := lvl2.TAU
  beta := lvl2.BETA
  gamma1 := lvl2.GAMMA1
  gamma2 := lvl2.GAMMA2
  omega := lvl2.OMEGA
  ctilde := lvl2.C_DASH_BYTES
  trBytes := lvl2.TRBYTES
  polyz := lvl2.POLYZ_PACKEDBYTES
  polyw1 := lvl2.POLYW1_PACKEDBYTES
  polyeta := lvl2.POLYETA_PACKEDBYTES
  pkBytes := lvl2.PUBLICKEYBYTES
  skBytes := lvl2.SECRETKEYBYTES
  sigBytes := lvl2.SIGNBYTES
open Gen in
def P_lvl3 : Params where
  name := "lvl3"
  lvl := .l3
  mldsa := false
  k := lvl3.K
  l := lvl3.L
  eta := lvl3.ETA
  tau := lvl3.TAU
  beta := lvl3.BETA
  gamma1 := lvl3.GAMMA1
  gamma2 := lvl3.GAMMA2
  omega := lvl3.OMEGA
  ctilde := lvl3.C_DASH_BYTES
  trBytes := lvl3.TRBYTES
  polyz := lvl3.POLYZ_PACKEDBYTES
  polyw1 := lvl3.POLYW1_PACKEDBYTES
  polyeta := lvl3.POLYETA_PACKEDBYTES
  pkBytes := lvl3.PUBLICKEYBYTES
  skBytes := lvl3.SECRETKEYBYTES
  sigBytes := lvl3.SIGNBYTES
open Gen in
def P_lvl5 : Params where
  name := "lvl5"
  lvl := .l5
  mldsa := false
  k := lvl5.K
  l := lvl5.L
  eta := lvl5.ETA
  tau := lvl5.TAU
  beta := lvl5.BETA
  gamma1 := lvl5.GAMMA1
  gamma2 := lvl5.GAMMA2
  omega := lvl5.OMEGA
  ctilde := lvl5.C_DASH_BYTES
  trBytes := lvl5.TRBYTES
  polyz := lvl5.POLYZ_PACKEDBYTES
  polyw1 := lvl5.POLYW1_PACKEDBYTES
  polyeta := lvl5.POLYETA_PACKEDBYTES
  pkBytes := lvl5.PUBLICKEYBYTES
  skBytes := lvl5.SECRETKEYBYTES
  sigBytes := lvl5.SIGNBYTES
open Gen in
def P_mldsa44 : Params where
  name := "ml_dsa_44"
  lvl := .l2
  mldsa := true
  k := ml_dsa_44.K
  l := ml_dsa_44.L
  eta := ml_dsa_44.ETA
  tau := ml_dsa_44.TAU
  beta := ml_dsa_44.BETA
  gamma1 := ml_dsa_44.GAMMA1
  gamma2 := ml_dsa_44.GAMMA2
  omega := ml_dsa_44.OMEGA
  ctilde := ml_dsa_44.C_DASH_BYTES
  trBytes := ml_dsa_44.TRBYTES
  polyz := ml_dsa_44.POLYZ_PACKEDBYTES
  polyw1 := ml_dsa_44.POLYW1_PACKEDBYTES
  polyeta := ml_dsa_44.POLYETA_PACKEDBYTES
  pkBytes := ml_dsa_44.PUBLICKEYBYTES
  skBytes := ml_dsa_44.SECRETKEYBYTES
  sigBytes := ml_dsa_44.SIGNBYTES
open Gen in
def P_mldsa65 : Params where
  name := "ml_dsa_65"
  lvl := .l3
  mldsa := true
  k := ml_dsa_65.K
  l := ml_dsa_65.L
  eta := ml_dsa_65.ETA
  tau := ml_dsa_65.TAU
  beta := ml_dsa_65.BETA
  gamma1 := ml_dsa_65.GAMMA1
  gamma2 := ml_dsa_65.GAMMA2
  omega := ml_dsa_65.OMEGA
  ctilde := ml_dsa_65.C_DASH_BYTES
  trBytes := ml_dsa_65.TRBYTES
  polyz := ml_dsa_65.POLYZ_PACKEDBYTES
  polyw1 := ml_dsa_65.POLYW1_PACKEDBYTES
  polyeta := ml_dsa_65.POLYETA_PACKEDBYTES
  pkBytes := ml_dsa_65.PUBLICKEYBYTES
  skBytes := ml_dsa_65.SECRETKEYBYTES
  sigBytes := ml_dsa_65.SIGNBYTES
open Gen in
def P_mldsa87 : Params where
  name := "ml_dsa_87"
  lvl := .l5
  mldsa := true
  k := ml_dsa_87.K
  l := ml_dsa_87.L
  eta := ml_dsa_87.ETA
  tau := ml_dsa_87.TAU
  beta := ml_dsa_87.BETA
  gamma1 := ml_dsa_87.GAMMA1
  gamma2 := ml_dsa_87.GAMMA2
  omega := ml_dsa_87.OMEGA
  ctilde := ml_dsa_87.C_DASH_BYTES
  trBytes := ml_dsa_87.TRBYTES
  polyz := ml_dsa_87.POLYZ_PACKEDBYTES
  polyw1 := ml_dsa_87.POLYW1_PACKEDBYTES
  polyeta := ml_dsa_87.POLYETA_PACKEDBYTES
  pkBytes := ml_dsa_87.PUBLICKEYBYTES
  skBytes := ml_dsa_87.SECRETKEYBYTES
  sigBytes := ml_dsa_87.SIGNBYTES

def allParams : List Params := [P_lvl2, P_lvl3, P_lvl5, P_mldsa44, P_mldsa65, P_mldsa87]

def paramsOf (s : String) : Option Params := allParams.find? (·.name == s)

/-- parameters of the three `rounding::lvlX` / `poly::lvlX` / `polyvec::lvlX` modules -/
def lvlParams : Lvl → Params
  | .l2 => P_lvl2 | .l3 => P_lvl3 | .l5 => P_lvl5

def lvlOf (s : String) : Option Lvl :=
  match s with
  | "lvl2" => some .l2 | "lvl3" => some .l3 | "lvl5" => some .l5 | _ => none

end DV
