import DilithiumVerif.Impl.Params
/-
  Impl.Keccak — src/fips202.rs.  Lanes are native UInt64; bytes are `Nat` (< 256).
  `keccak_squeeze` is modelled as the *repaired* code (output index declared before the
  block loop, see known_findings.txt F1); everything else is the pinned source, function for function.
-/
namespace DV

abbrev Lanes := Array UInt64

structure KeccakState where
  s : Lanes
  pos : Nat
  deriving Inhabited

def KeccakState.init : KeccakState := { s := Array.replicate 25 0, pos := 0 }

/-- fn rol(a, offset) = (a << offset) ^ (a >> (64 - offset)),  0 < offset < 64 -/
@[inline] def rol (a : UInt64) (offset : UInt64) : UInt64 := (a <<< offset) ^^^ (a >>> (64 - offset))

structure St where
  aba : UInt64
  abe : UInt64
  abi : UInt64
  abo : UInt64
  abu : UInt64
  aga : UInt64
  age : UInt64
  agi : UInt64
  ago : UInt64
  agu : UInt64
  aka : UInt64
  ake : UInt64
  aki : UInt64
  ako : UInt64
  aku : UInt64
  ama : UInt64
  ame : UInt64
  ami : UInt64
  amo : UInt64
  amu : UInt64
  asa : UInt64
  ase : UInt64
  asi : UInt64
  aso : UInt64
  asu : UInt64

/-- one half of the unrolled double round: prepareTheta, thetaRhoPiChiIota(round) : A -> E -/
@[inline] def halfRound (rc : UInt64) (a : St) : St :=
  let bca := a.aba ^^^ a.aga ^^^ a.aka ^^^ a.ama ^^^ a.asa
  let bce := a.abe ^^^ a.age ^^^ a.ake ^^^ a.ame ^^^ a.ase
  let bci := a.abi ^^^ a.agi ^^^ a.aki ^^^ a.ami ^^^ a.asi
  let bco := a.abo ^^^ a.ago ^^^ a.ako ^^^ a.amo ^^^ a.aso
  let bcu := a.abu ^^^ a.agu ^^^ a.aku ^^^ a.amu ^^^ a.asu
  let da := bcu ^^^ rol bce 1
  let de := bca ^^^ rol bci 1
  let di := bce ^^^ rol bco 1
  let d_o := bci ^^^ rol bcu 1
  let du := bco ^^^ rol bca 1
  -- row b
  let bca := a.aba ^^^ da
  let bce := rol (a.age ^^^ de) 44
  let bci := rol (a.aki ^^^ di) 43
  let bco := rol (a.amo ^^^ d_o) 21
  let bcu := rol (a.asu ^^^ du) 14
  let eba := (bca ^^^ ((~~~bce) &&& bci)) ^^^ rc
  let ebe := bce ^^^ ((~~~bci) &&& bco)
  let ebi := bci ^^^ ((~~~bco) &&& bcu)
  let ebo := bco ^^^ ((~~~bcu) &&& bca)
  let ebu := bcu ^^^ ((~~~bca) &&& bce)
  -- row g
  let bca := rol (a.abo ^^^ d_o) 28
  let bce := rol (a.agu ^^^ du) 20
  let bci := rol (a.aka ^^^ da) 3
  let bco := rol (a.ame ^^^ de) 45
  let bcu := rol (a.asi ^^^ di) 61
  let ega := bca ^^^ ((~~~bce) &&& bci)
  let ege := bce ^^^ ((~~~bci) &&& bco)
  let egi := bci ^^^ ((~~~bco) &&& bcu)
  let ego := bco ^^^ ((~~~bcu) &&& bca)
  let egu := bcu ^^^ ((~~~bca) &&& bce)
  -- row k
  let bca := rol (a.abe ^^^ de) 1
  let bce := rol (a.agi ^^^ di) 6
  let bci := rol (a.ako ^^^ d_o) 25
  let bco := rol (a.amu ^^^ du) 8
  let bcu := rol (a.asa ^^^ da) 18
  let eka := bca ^^^ ((~~~bce) &&& bci)
  let eke := bce ^^^ ((~~~bci) &&& bco)
  let eki := bci ^^^ ((~~~bco) &&& bcu)
  let eko := bco ^^^ ((~~~bcu) &&& bca)
  let eku := bcu ^^^ ((~~~bca) &&& bce)
  -- row m
  let bca := rol (a.abu ^^^ du) 27
  let bce := rol (a.aga ^^^ da) 36
  let bci := rol (a.ake ^^^ de) 10
  let bco := rol (a.ami ^^^ di) 15
  let bcu := rol (a.aso ^^^ d_o) 56
  let ema := bca ^^^ ((~~~bce) &&& bci)
  let eme := bce ^^^ ((~~~bci) &&& bco)
  let emi := bci ^^^ ((~~~bco) &&& bcu)
  let emo := bco ^^^ ((~~~bcu) &&& bca)
  let emu := bcu ^^^ ((~~~bca) &&& bce)
  -- row s
  let bca := rol (a.abi ^^^ di) 62
  let bce := rol (a.ago ^^^ d_o) 55
  let bci := rol (a.aku ^^^ du) 39
  let bco := rol (a.ama ^^^ da) 41
  let bcu := rol (a.ase ^^^ de) 2
  let esa := bca ^^^ ((~~~bce) &&& bci)
  let ese := bce ^^^ ((~~~bci) &&& bco)
  let esi := bci ^^^ ((~~~bco) &&& bcu)
  let eso := bco ^^^ ((~~~bcu) &&& bca)
  let esu := bcu ^^^ ((~~~bca) &&& bce)
  { aba := eba, abe := ebe, abi := ebi, abo := ebo, abu := ebu,
    aga := ega, age := ege, agi := egi, ago := ego, agu := egu,
    aka := eka, ake := eke, aki := eki, ako := eko, aku := eku,
    ama := ema, ame := eme, ami := emi, amo := emo, amu := emu,
    asa := esa, ase := ese, asi := esi, aso := eso, asu := esu }

def St.ofLanes (s : Lanes) : St :=
  { aba := s[0]!, abe := s[1]!, abi := s[2]!, abo := s[3]!, abu := s[4]!,
    aga := s[5]!, age := s[6]!, agi := s[7]!, ago := s[8]!, agu := s[9]!,
    aka := s[10]!, ake := s[11]!, aki := s[12]!, ako := s[13]!, aku := s[14]!,
    ama := s[15]!, ame := s[16]!, ami := s[17]!, amo := s[18]!, amu := s[19]!,
    asa := s[20]!, ase := s[21]!, asi := s[22]!, aso := s[23]!, asu := s[24]! }

def St.toLanes (a : St) : Lanes :=
  #[a.aba, a.abe, a.abi, a.abo, a.abu, a.aga, a.age, a.agi, a.ago, a.agu,
    a.aka, a.ake, a.aki, a.ako, a.aku, a.ama, a.ame, a.ami, a.amo, a.amu,
    a.asa, a.ase, a.asi, a.aso, a.asu]

/-- `keccakf1600_statepermute`: 12 double rounds over the round-constant table.
    (The Rust double round is exactly two applications of `halfRound`: the second half is the first
    with the roles of the A and E variables exchanged.) -/
def keccakf (s : Lanes) : Lanes :=
  (Gen.KECCAKF_ROUNDCONSTANTS.foldl (fun a rc => halfRound rc a) (St.ofLanes s)).toLanes

/-! ### sponge, generic in the permutation -/

@[inline] def xorByte (s : Lanes) (i : Nat) (b : Nat) : Lanes :=
  s.modify (i / 8) (fun w => w ^^^ ((UInt64.ofNat b) <<< (UInt64.ofNat (8 * (i % 8)))))

/-- `for i in pos..pos+bytes.len() { s[i/8] ^= (b as u64) << 8*(i%8) }` -/
def xorBytes (s : Lanes) (pos : Nat) : List Nat → Lanes
  | [] => s
  | b :: bs => xorBytes (xorByte s pos b) (pos + 1) bs

@[inline] def getByte (s : Lanes) (i : Nat) : Nat :=
  ((s[i / 8]! >>> (UInt64.ofNat (8 * (i % 8)))).toNat) % 256

/-- fn keccak_absorb(state, r, input, inlen): incremental absorb.
    `fuel` bounds the number of loop iterations (inlen + 2 suffices: every iteration but possibly the first consumes a byte). -/
def keccak_absorb_loop (f : Lanes → Lanes) (r : Nat) : Nat → Lanes → Nat → List Nat → Nat → Chk KeccakState
  | 0, _, _, _, _ => .error .fuel
  | fuel + 1, s, pos, input, inlen =>
    if pos + inlen ≥ r then do
      -- for i in pos..r { s[i/8] ^= input[idx] << ..; idx += 1 }
      let blk ← takeC input (r - pos)
      let s := xorBytes s pos blk
      keccak_absorb_loop f r fuel (f s) 0 (input.drop (r - pos)) (inlen - (r - pos))
    else do
      let blk ← takeC input inlen
      .ok { s := xorBytes s pos blk, pos := pos + inlen }

def keccak_absorb (f : Lanes → Lanes) (r : Nat) (st : KeccakState) (input : List Nat) (inlen : Nat) : Chk KeccakState :=
  keccak_absorb_loop f r (inlen + 2) st.s st.pos input inlen

/-- fn keccak_finalize(s, pos, r, p) -/
def keccak_finalize (s : Lanes) (pos r : Nat) (p : Nat) : Chk Lanes :=
  if pos / 8 < 25 ∧ 1 ≤ r / 8 ∧ r / 8 - 1 < 25 then
    let s := xorByte s pos p
    .ok (s.modify (r / 8 - 1) (fun w => w ^^^ ((1 : UInt64) <<< 63)))
  else .error .oob

/-- fn keccak_squeeze(out, outlen, s, pos, r) -> pos   (repaired: `idx` lives across blocks).
    Returns the bytes written, the new lanes and position. -/
def keccak_squeeze_loop (f : Lanes → Lanes) (r : Nat) : Nat → List Nat → Nat → Lanes → Nat → (List Nat × Lanes × Nat)
  | 0, acc, _, s, pos => (acc, s, pos)
  | fuel + 1, acc, outlen, s, pos =>
    if outlen = 0 then (acc, s, pos) else
    let (s, pos) := if pos = r then (f s, 0) else (s, pos)
    let n := min (r - pos) outlen
    let bytes := (List.range n).map (fun j => getByte s (pos + j))
    keccak_squeeze_loop f r fuel (acc ++ bytes) (outlen - n) s (pos + n)

def keccak_squeeze (f : Lanes → Lanes) (r : Nat) (outcap outlen : Nat) (s : Lanes) (pos : Nat) : Chk (List Nat × Lanes × Nat) :=
  if outlen ≤ outcap then .ok (keccak_squeeze_loop f r (outlen + 2) [] outlen s pos) else .error .oob

/-- fn keccak_absorb_once(s, r, input, inlen, p) -/
def keccak_absorb_once_loop (f : Lanes → Lanes) (r : Nat) : Nat → Lanes → List Nat → Nat → Chk (Lanes × List Nat × Nat)
  | 0, _, _, _ => .error .fuel
  | fuel + 1, s, input, inlen =>
    if inlen ≥ r then do
      let blk ← takeC input r
      keccak_absorb_once_loop f r fuel (f (xorBytes s 0 blk)) (input.drop r) (inlen - r)
    else .ok (s, input, inlen)

def keccak_absorb_once (f : Lanes → Lanes) (r : Nat) (input : List Nat) (inlen : Nat) (p : Nat) : Chk Lanes := do
  let (s, rest, rem) ← keccak_absorb_once_loop f r (inlen + 2) (Array.replicate 25 0) input inlen
  let blk ← takeC rest rem
  let s := xorBytes s 0 blk
  let s := xorByte s rem p
  .ok (s.modify ((r - 1) / 8) (fun w => w ^^^ ((1 : UInt64) <<< 63)))

/-- fn keccak_squeezeblocks(out, nblocks, s, r): `nblocks` full blocks, permuting before each -/
def keccak_squeezeblocks_loop (f : Lanes → Lanes) (r : Nat) : Nat → List Nat → Lanes → (List Nat × Lanes)
  | 0, acc, s => (acc, s)
  | n + 1, acc, s =>
    let s := f s
    let bytes := (List.range (8 * (r / 8))).map (fun j => getByte s j)
    keccak_squeezeblocks_loop f r n (acc ++ bytes) s

def keccak_squeezeblocks (f : Lanes → Lanes) (r : Nat) (outcap nblocks : Nat) (s : Lanes) : Chk (List Nat × Lanes) :=
  if nblocks = 0 ∨ (nblocks - 1) * r + 8 * (r / 8) ≤ outcap then .ok (keccak_squeezeblocks_loop f r nblocks [] s)
  else .error .oob

/-! ### the public SHAKE interface of the crate -/

def R128 : Nat := Gen.SHAKE128_RATE
def R256 : Nat := Gen.SHAKE256_RATE

def shake128_absorb (st : KeccakState) (input : List Nat) (inlen : Nat) : Chk KeccakState :=
  keccak_absorb keccakf R128 st input inlen
def shake256_absorb (st : KeccakState) (input : List Nat) (inlen : Nat) : Chk KeccakState :=
  keccak_absorb keccakf R256 st input inlen

def shake128_finalize (st : KeccakState) : Chk KeccakState := do
  let s ← keccak_finalize st.s st.pos R128 0x1F
  .ok { s := s, pos := R128 }
def shake256_finalize (st : KeccakState) : Chk KeccakState := do
  let s ← keccak_finalize st.s st.pos R256 0x1F
  .ok { s := s, pos := R256 }

/-- returns (bytes written, new state); `outcap` = length of the output slice -/
def shake128_squeezeblocks (outcap nblocks : Nat) (st : KeccakState) : Chk (List Nat × KeccakState) := do
  let (o, s) ← keccak_squeezeblocks keccakf R128 outcap nblocks st.s
  .ok (o, { st with s := s })
def shake256_squeezeblocks (outcap nblocks : Nat) (st : KeccakState) : Chk (List Nat × KeccakState) := do
  let (o, s) ← keccak_squeezeblocks keccakf R256 outcap nblocks st.s
  .ok (o, { st with s := s })

def shake256_squeeze (outcap outlen : Nat) (st : KeccakState) : Chk (List Nat × KeccakState) := do
  let (o, s, pos) ← keccak_squeeze keccakf R256 outcap outlen st.s st.pos
  .ok (o, { s := s, pos := pos })

def shake256_absorb_once (input : List Nat) (inlen : Nat) : Chk KeccakState := do
  let s ← keccak_absorb_once keccakf R256 input inlen 0x1F
  .ok { s := s, pos := R256 }

/-- fn shake256(output, outlen, input, inlen): one-shot. `outcap` = output.len() -/
def shake256 (outcap outlen : Nat) (input : List Nat) (inlen : Nat) : Chk (List Nat) := do
  let st ← shake256_absorb_once input inlen
  let nblocks := outlen / R256
  let (o1, st) ← shake256_squeezeblocks outcap nblocks st
  let outlen' := outlen - nblocks * R256
  let idx := nblocks * R256
  if idx > outcap then .error .oob else
  let (o2, _) ← shake256_squeeze (outcap - idx) outlen' st
  .ok (o1 ++ o2)

/-- convenience: SHAKE256(input) truncated to n bytes, exact-size output buffer -/
def shake256n (n : Nat) (input : List Nat) : Chk (List Nat) := shake256 n n input input.length

def shake128_stream_init (seed : List Nat) (nonce : Nat) : Chk KeccakState := do
  let t := [nonce % 256, (nonce / 256) % 256]
  let st ← shake128_absorb KeccakState.init seed SEEDBYTES
  let st ← shake128_absorb st t 2
  shake128_finalize st

def shake256_stream_init (seed : List Nat) (nonce : Nat) : Chk KeccakState := do
  let t := [nonce % 256, (nonce / 256) % 256]
  let st ← shake256_absorb KeccakState.init seed CRHBYTES
  let st ← shake256_absorb st t 2
  shake256_finalize st

end DV
