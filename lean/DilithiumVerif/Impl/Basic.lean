/-
  Impl.Basic — the checked-build semantics of the Rust integer types used by
  Quantum-Blockchains/dilithium, on unbounded `Int` / `Nat`.

  `+ - *` on i32/i64/u16/usize fault (`Fault.overflow`) outside the type's range,
  exactly where the overflow-checked build panics; `wrapping_mul`, `as` casts and
  `<<` wrap silently, exactly as Rust defines. No Mathlib imports (the driver is a lean_exe).
-/
namespace DV

inductive Fault where
  | overflow | oob | len | unwrap | fuel
  deriving Repr, DecidableEq, Inhabited

abbrev Chk := Except Fault

def Chk.fault {α} (f : Fault) : Chk α := .error f

instance {α} [DecidableEq α] : DecidableEq (Chk α) := fun a b =>
  match a, b with
  | .ok x, .ok y => if h : x = y then isTrue (by rw [h]) else isFalse (by intro e; cases e; exact h rfl)
  | .error x, .error y => if h : x = y then isTrue (by rw [h]) else isFalse (by intro e; cases e; exact h rfl)
  | .ok _, .error _ => isFalse (by intro e; cases e)
  | .error _, .ok _ => isFalse (by intro e; cases e)

/-! ### ranges -/
def I32MIN : Int := -2147483648
def I32MAX : Int := 2147483647
def I64MIN : Int := -9223372036854775808
def I64MAX : Int := 9223372036854775807

def inI32 (x : Int) : Prop := -2147483648 ≤ x ∧ x ≤ 2147483647
def inI64 (x : Int) : Prop := -9223372036854775808 ≤ x ∧ x ≤ 9223372036854775807
instance (x : Int) : Decidable (inI32 x) := by unfold inI32; infer_instance
instance (x : Int) : Decidable (inI64 x) := by unfold inI64; infer_instance

/-- result of a checked i32 operation -/
def chk32 (x : Int) : Chk Int := if -2147483648 ≤ x ∧ x ≤ 2147483647 then .ok x else .error .overflow
/-- result of a checked i64 operation -/
def chk64 (x : Int) : Chk Int := if -9223372036854775808 ≤ x ∧ x ≤ 9223372036854775807 then .ok x else .error .overflow
/-- result of a checked u16 operation -/
def chkU16 (x : Int) : Chk Int := if 0 ≤ x ∧ x ≤ 65535 then .ok x else .error .overflow
/-- result of a checked u32 operation -/
def chkU32 (x : Int) : Chk Int := if 0 ≤ x ∧ x ≤ 4294967295 then .ok x else .error .overflow

/-! ### wrapping conversions (`as`, `wrapping_*`, `<<`) -/
def wrap32 (x : Int) : Int := (Int32.ofInt x).toInt
def wrap64 (x : Int) : Int := (Int64.ofInt x).toInt
/-- `x as u8` for any integer type -/
def asU8 (x : Int) : Nat := (x % 256).toNat
/-- `x as u16` -/
def asU16 (x : Int) : Int := x % 65536
/-- two's-complement bit pattern of an i32 as a natural number < 2^32 -/
def toU32 (x : Int) : Nat := (x % 4294967296).toNat
/-- reinterpret a 32-bit pattern as i32 -/
def ofU32 (n : Nat) : Int := wrap32 (Int.ofNat n)

/-- arithmetic shift right on signed values: floor division -/
def sar (x : Int) (k : Nat) : Int := x >>> k
/-- `x << k` on i32: bits shifted out are dropped silently (no overflow check in Rust) -/
def shl32 (x : Int) (k : Nat) : Int := wrap32 (x <<< k)

/-- `a & b` on i32 -/
def and32 (a b : Int) : Int := ofU32 (toU32 a &&& toU32 b)
/-- `a | b` on i32 -/
def or32 (a b : Int) : Int := ofU32 (toU32 a ||| toU32 b)
/-- `a ^ b` on i32 -/
def xor32 (a b : Int) : Int := ofU32 (toU32 a ^^^ toU32 b)

/-! ### checked arithmetic -/
def add32 (a b : Int) : Chk Int := chk32 (a + b)
def sub32 (a b : Int) : Chk Int := chk32 (a - b)
def mul32 (a b : Int) : Chk Int := chk32 (a * b)
def add64 (a b : Int) : Chk Int := chk64 (a + b)
def sub64 (a b : Int) : Chk Int := chk64 (a - b)
def mul64 (a b : Int) : Chk Int := chk64 (a * b)

/-! ### list helpers in `Chk` -/

/-- `for x in l { out.push(f(x)?) }` -/
def mapL {α β} (f : α → Chk β) : List α → Chk (List β)
  | [] => .ok []
  | x :: xs => do
      let y ← f x
      let ys ← mapL f xs
      .ok (y :: ys)

/-- `for i in 0..n { out[i] = f(a[i], b[i])? }` for equal-length lists -/
def zipL {α β γ} (f : α → β → Chk γ) : List α → List β → Chk (List γ)
  | x :: xs, y :: ys => do
      let z ← f x y
      let zs ← zipL f xs ys
      .ok (z :: zs)
  | [], [] => .ok []
  | _, _ => .error .len

/-- bounds-checked read -/
def getC {α} (l : List α) (i : Nat) : Chk α :=
  match l[i]? with
  | some x => .ok x
  | none => .error .oob

/-- `&v[a..]` (panics when a > len) -/
def dropC {α} (l : List α) (a : Nat) : Chk (List α) :=
  if a ≤ l.length then .ok (l.drop a) else .error .oob

/-- `&v[a..b]` -/
def sliceC {α} (l : List α) (a b : Nat) : Chk (List α) :=
  if a ≤ b ∧ b ≤ l.length then .ok ((l.drop a).take (b - a)) else .error .oob

/-- `v[..n].copy_from_slice(src)` style: first `n` bytes must exist -/
def takeC {α} (l : List α) (n : Nat) : Chk (List α) :=
  if n ≤ l.length then .ok (l.take n) else .error .oob

/-- functional update of a region: `dst[off..off+src.len()] = src` -/
def blit {α} (dst : List α) (off : Nat) (src : List α) : Chk (List α) :=
  if off + src.length ≤ dst.length then
    .ok (dst.take off ++ src ++ dst.drop (off + src.length))
  else .error .oob

def setC {α} (l : List α) (i : Nat) (x : α) : Chk (List α) :=
  if i < l.length then .ok (l.set i x) else .error .oob

/-- split a list into consecutive groups of `n` (last group may be short) -/
def chunks {α} (n : Nat) (l : List α) : List (List α) :=
  if _h : n = 0 ∨ l = [] then [] else
    l.take n :: chunks n (l.drop n)
termination_by l.length
decreasing_by
  simp only [List.length_drop]
  have : l.length ≠ 0 := by
    intro hl; exact _h (Or.inr (List.eq_nil_of_length_eq_zero hl))
  omega

end DV
