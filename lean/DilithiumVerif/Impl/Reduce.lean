import DilithiumVerif.Impl.Params
/- Impl.Reduce — src/reduce.rs, function for function, checked-build semantics. -/
namespace DV

/-- `reduce::montgomery_reduce(a: i64) -> i32`
    let mut t = (a as i32).wrapping_mul(Q_INV) as i64;
    t = (a as i64 - t.wrapping_mul(Q as i64)) >> 32;  t as i32 -/
def montgomery_reduce (a : Int) : Chk Int := do
  let t := wrap32 (wrap32 a * Gen.Q_INV)
  let d ← sub64 a (wrap64 (t * Q))
  .ok (wrap32 (sar d 32))

/-- `reduce::reduce32(a: i32) -> i32`
    let mut t = (a + (1 << 22)) >> 23;  t = a - t.wrapping_mul(Q); -/
def reduce32 (a : Int) : Chk Int := do
  let s ← add32 a 4194304
  let t := sar s 23
  sub32 a (wrap32 (t * Q))

/-- `reduce::caddq(a: i32) -> i32`:  a + ((a >> 31) & Q) -/
def caddq (a : Int) : Chk Int :=
  add32 a (and32 (sar a 31) Q)

end DV
