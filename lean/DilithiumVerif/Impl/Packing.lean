import DilithiumVerif.Impl.PolyVec
/-
  Impl.Packing — src/packing/<set>.rs.  Output buffers are modelled as the exact-size byte strings
  the callers allocate (PUBLICKEYBYTES, SECRETKEYBYTES, SIGNBYTES).
-/
namespace DV

/-- `pack_pk(pk, rho, t1)` -/
def pack_pk (_p : Params) (rho : List Nat) (t1 : PolyVec) : Chk (List Nat) := do
  let r ← takeC rho SEEDBYTES
  .ok (r ++ t1.flatMap t1_pack)

/-- `unpack_pk(rho, t1, pk)` -/
def unpack_pk (p : Params) (pk : List Nat) : Chk (List Nat × PolyVec) := do
  let rho ← takeC pk SEEDBYTES
  let t1 ← forRange p.k fun i => do
    let s ← dropC pk (SEEDBYTES + i * POLYT1)
    t1_unpack s
  .ok (rho, t1)

/-- `pack_sk(sk, rho, tr, key, t0, s1, s2)`: layout rho ‖ key ‖ tr ‖ s1 ‖ s2 ‖ t0 -/
def pack_sk (p : Params) (rho tr key : List Nat) (t0 s1 s2 : PolyVec) : Chk (List Nat) := do
  let r ← takeC rho SEEDBYTES
  let k ← takeC key SEEDBYTES
  let t ← takeC tr p.trBytes
  let e1 ← mapL (eta_pack p.lvl) s1
  let e2 ← mapL (eta_pack p.lvl) s2
  let e0 ← mapL t0_pack t0
  .ok (r ++ k ++ t ++ e1.flatten ++ e2.flatten ++ e0.flatten)

/-- `unpack_sk(rho, tr, key, t0, s1, s2, sk)`; returns (rho, tr, key, t0, s1, s2) -/
def unpack_sk (p : Params) (sk : List Nat) : Chk (List Nat × List Nat × List Nat × PolyVec × PolyVec × PolyVec) := do
  let rho ← takeC sk SEEDBYTES
  let idx := SEEDBYTES
  let key ← sliceC sk idx (idx + SEEDBYTES)
  let idx := idx + SEEDBYTES
  let tr ← sliceC sk idx (idx + p.trBytes)
  let idx := idx + p.trBytes
  let s1 ← forRange p.l fun i => do
    let s ← dropC sk (idx + i * p.polyeta)
    eta_unpack p.lvl s
  let idx := idx + p.l * p.polyeta
  let s2 ← forRange p.k fun i => do
    let s ← dropC sk (idx + i * p.polyeta)
    eta_unpack p.lvl s
  let idx := idx + p.k * p.polyeta
  let t0 ← forRange p.k fun i => do
    let s ← dropC sk (idx + i * POLYT0)
    t0_unpack s
  .ok (rho, tr, key, t0, s1, s2)

/-- the two nested loops of `pack_sig` on the (ω+K)-byte hint area (initially zero):
    `sig[idx + k] = j as u8; k += 1` for every non-zero coefficient, `sig[idx + ω + i] = k as u8` after
    polynomial i.  A write at offset ≥ ω+K is past the end of the SIGNBYTES buffer: Rust panics. -/
def hint_area_go (omega : Nat) : List Poly → Nat → Nat → List Nat → Chk (List Nat)
  | [], _, _, area => .ok area
  | hp :: rest, i, k, area => do
      let nz := (List.range hp.length).filter (fun j => hp.getD j 0 ≠ 0)
      let (area, k) ← nz.foldlM (fun (st : List Nat × Nat) j => do
          let a ← setC st.1 st.2 (j % 256)
          .ok (a, st.2 + 1)) (area, k)
      let area ← setC area (omega + i) (k % 256)
      hint_area_go omega rest (i + 1) k area

/-- `pack_sig(sig, c, z, h)` for a `sig` buffer of exactly SIGNBYTES bytes (what every caller in the
    crate passes).  `c = none` leaves the first c̃ bytes of `sig` as they are. -/
def pack_sig (p : Params) (sig : List Nat) (c : Option (List Nat)) (z : PolyVec) (h : PolyVec) : Chk (List Nat) := do
  if sig.length ≠ p.sigBytes then .error .len else
  let ct ← (match c with
    | some ch => takeC ch p.ctilde
    | none => .ok (sig.take p.ctilde))
  let zs ← mapL (z_pack p.lvl) z
  let area ← hint_area_go p.omega h 0 0 (List.replicate (p.omega + p.k) 0)
  .ok (ct ++ zs.flatten ++ area)

/-- the hint-decoding loop of `unpack_sig`; `hs` = the ω+K hint bytes. Returns none when rejected. -/
def unpack_hints_go (omega : Nat) (hs : List Nat) : Nat → Nat → Nat → List Poly → Chk (Option (List Poly))
  | 0, _, k, acc =>
      -- for j in k..OMEGA { if sig[idx+j] > 0 { return false } }
      if ((List.range omega).drop k).all (fun j => hs.getD j 0 = 0) then .ok (some acc.reverse) else .ok none
  | n + 1, i, k, acc => do
      let cnt ← getC hs (omega + i)
      if cnt < k % 256 ∨ cnt > omega % 256 then .ok none else
      -- for j in k..cnt { if j > k && sig[j] <= sig[j-1] return false; h[sig[j]] = 1 }
      let rec inner (fuel j : Nat) (hp : Poly) : Chk (Option Poly) :=
        match fuel with
        | 0 => .ok (some hp)
        | fuel + 1 =>
          if j < cnt then do
            let b ← getC hs j
            let ok ← (if j > k then do
                let pb ← getC hs (j - 1)
                .ok (decide (¬ (b ≤ pb)))
              else .ok true)
            if ¬ ok then .ok none else
            let hp ← setC hp b 1
            inner fuel (j + 1) hp
          else .ok (some hp)
      let r ← inner (cnt - k + 1) k (List.replicate N 0)
      match r with
      | none => .ok none
      | some hp => unpack_hints_go omega hs n (i + 1) cnt (hp :: acc)

/-- `unpack_sig(c, z, h, sig) -> bool`; returns (ok, c, z, h) — on `false` the partially filled
    outputs are not modelled (the callers discard them). -/
def unpack_sig (p : Params) (sig : List Nat) : Chk (Bool × List Nat × PolyVec × PolyVec) := do
  let c ← takeC sig p.ctilde
  let idx := p.ctilde
  let z ← forRange p.l fun i => do
    let s ← dropC sig (idx + i * p.polyz)
    z_unpack p.lvl s
  let idx := idx + p.l * p.polyz
  let hs ← sliceC sig idx (idx + p.omega + p.k)
  let r ← unpack_hints_go p.omega hs p.k 0 0 []
  match r with
  | none => .ok (false, c, z, [])
  | some h => .ok (true, c, z, h)

end DV
