import DilithiumVerif.Impl.Ntt
import DilithiumVerif.Impl.Rounding
import DilithiumVerif.Impl.Keccak
/-
  Impl.Poly — src/poly.rs (parameter-set independent part).
  A polynomial is a `List Int` of length 256; byte strings are `List Nat`.
  In-place Rust functions return the new value; functions with two out-parameters
  return them in the order of the Rust parameter list.
-/
namespace DV

/-- `poly::reduce` -/
def poly_reduce (a : Poly) : Chk Poly := mapL reduce32 a
/-- `poly::caddq` -/
def poly_caddq (a : Poly) : Chk Poly := mapL caddq a
/-- `poly::add`, `poly::add_ip` -/
def poly_add (a b : Poly) : Chk Poly := zipL add32 a b
/-- `poly::sub`, `poly::sub_ip` -/
def poly_sub (a b : Poly) : Chk Poly := zipL sub32 a b
/-- `poly::shiftl`: `*coeff <<= D` (a shift never panics; high bits are dropped) -/
def poly_shiftl (a : Poly) : Poly := a.map (fun x => shl32 x D)
/-- `poly::ntt` -/
def poly_ntt (a : Poly) : Chk Poly := ntt a
/-- `poly::invntt_tomont` -/
def poly_invntt_tomont (a : Poly) : Chk Poly := invntt_tomont a
/-- `poly::pointwise_montgomery(c, a, b)`: c[i] = montgomery_reduce(a[i] as i64 * b[i] as i64) -/
def poly_pointwise_montgomery (a b : Poly) : Chk Poly :=
  zipL (fun x y => do let p ← mul64 x y; montgomery_reduce p) a b

/-- `poly::power2round(a1, a0)`: (a0[i], a1[i]) = power2round(a1[i]); returns (a1, a0) -/
def poly_power2round (a : Poly) : Chk (Poly × Poly) := do
  let r ← mapL power2round a
  .ok (r.map (·.2), r.map (·.1))

/-- `poly::chknorm(a, b) -> i32` -/
def chknormGo (b : Int) : List Int → Chk Int
  | [] => .ok 0
  | x :: xs => do
      let t := sar x 31
      let d ← mul32 2 x
      let t ← sub32 x (and32 t d)
      if b ≤ t then .ok 1 else chknormGo b xs

def poly_chknorm (a : Poly) (b : Int) : Chk Int :=
  if (Q - 1) / 8 < b then .ok 1 else chknormGo b a

/-- `poly::rej_uniform(a, alen, buf, buflen) -> usize`; `acap` = a.len().
    Returns the accepted values in order (the written prefix of `a`); ctr = its length. -/
def rej_uniform_loop (alen acap : Nat) (buf : List Nat) (buflen : Nat) : Nat → Nat → List Int → Chk (List Int)
  | 0, _, acc => .ok acc
  | fuel + 1, pos, acc =>
    if acc.length < alen ∧ pos + 3 ≤ buflen then do
      let b0 ← getC buf pos
      let b1 ← getC buf (pos + 1)
      let b2 ← getC buf (pos + 2)
      let t := (b0 ||| (b1 <<< 8) ||| (b2 <<< 16)) &&& 0x7FFFFF
      if (t : Int) < Q then
        if acc.length < acap then rej_uniform_loop alen acap buf buflen fuel (pos + 3) (acc ++ [(t : Int)])
        else .error .oob
      else rej_uniform_loop alen acap buf buflen fuel (pos + 3) acc
    else .ok acc

def rej_uniform (alen acap : Nat) (buf : List Nat) (buflen : Nat) : Chk (List Int) :=
  rej_uniform_loop alen acap buf buflen (buflen / 3 + 1) 0 []

def UNIFORM_NBLOCKS : Nat := (767 + R128) / R128

/-- the refill loop of `poly::uniform` -/
def uniform_loop : Nat → KeccakState → List Nat → Nat → List Int → Chk (List Int)
  | 0, _, _, _, _ => .error .fuel
  | fuel + 1, st, buf, buflen, acc =>
    if acc.length < N then do
      let off := buflen % 3
      -- for i in 0..off { buf[i] = buf[buflen - off + i] }
      let tail ← sliceC buf (buflen - off) buflen
      let buf ← blit buf 0 tail
      let buflen := R128 + off
      let (blk, st) ← shake128_squeezeblocks (buf.length - off) 1 st
      let buf ← blit buf off blk
      let more ← rej_uniform (N - acc.length) (N - acc.length) buf buflen
      uniform_loop fuel st buf buflen (acc ++ more)
    else .ok acc

/-- `poly::uniform(a, seed, nonce)`; `fuel` bounds the number of extra blocks -/
def poly_uniform (fuel : Nat) (seed : List Nat) (nonce : Nat) : Chk Poly := do
  let st ← shake128_stream_init seed nonce
  let cap := UNIFORM_NBLOCKS * R128 + 2
  let (blk, st) ← shake128_squeezeblocks cap UNIFORM_NBLOCKS st
  let buf := blk ++ List.replicate (cap - blk.length) 0
  let buflen := UNIFORM_NBLOCKS * R128
  let acc ← rej_uniform N N buf buflen
  uniform_loop fuel st buf buflen acc

/-! ### t1 / t0 codecs -/

/-- `poly::t1_pack(r, a)`: 4 coefficients → 5 bytes -/
def t1_pack_group (c : List Int) : List Nat :=
  match c with
  | [c0, c1, c2, c3] =>
    [ asU8 (sar c0 0),
      asU8 (or32 (sar c0 8) (shl32 c1 2)),
      asU8 (or32 (sar c1 6) (shl32 c2 4)),
      asU8 (or32 (sar c2 4) (shl32 c3 6)),
      asU8 (sar c3 2) ]
  | _ => []

def t1_pack (a : Poly) : List Nat := (chunks 4 a).flatMap t1_pack_group

/-- `poly::t1_unpack(r, a)`: 5 bytes → 4 coefficients (u32 arithmetic) -/
def t1_unpack_group (b : List Nat) : List Int :=
  match b with
  | [b0, b1, b2, b3, b4] =>
    [ (((b0 >>> 0) ||| (b1 <<< 8)) &&& 0x3FF : Nat),
      (((b1 >>> 2) ||| (b2 <<< 6)) &&& 0x3FF : Nat),
      (((b2 >>> 4) ||| (b3 <<< 4)) &&& 0x3FF : Nat),
      (((b3 >>> 6) ||| (b4 <<< 2)) &&& 0x3FF : Nat) ]
  | _ => []

def t1_unpack (a : List Nat) : Chk Poly := do
  let a ← takeC a POLYT1
  .ok ((chunks 5 a).flatMap t1_unpack_group)

def D_SHL : Int := 4096

/-- `poly::t0_pack(r, a)`: 8 coefficients → 13 bytes -/
def t0_pack_group (c : List Int) : Chk (List Nat) := do
  let t ← mapL (fun x => sub32 D_SHL x) c
  match t with
  | [t0, t1, t2, t3, t4, t5, t6, t7] =>
    .ok [ asU8 t0,
          asU8 (sar t0 8) ||| asU8 (shl32 t1 5),
          asU8 (sar t1 3),
          asU8 (sar t1 11) ||| asU8 (shl32 t2 2),
          asU8 (sar t2 6) ||| asU8 (shl32 t3 7),
          asU8 (sar t3 1),
          asU8 (sar t3 9) ||| asU8 (shl32 t4 4),
          asU8 (sar t4 4),
          asU8 (sar t4 12) ||| asU8 (shl32 t5 1),
          asU8 (sar t5 7) ||| asU8 (shl32 t6 6),
          asU8 (sar t6 2),
          asU8 (sar t6 10) ||| asU8 (shl32 t7 3),
          asU8 (sar t7 5) ]
  | _ => .error .len

def t0_pack (a : Poly) : Chk (List Nat) := do
  let g ← mapL t0_pack_group (chunks 8 a)
  .ok g.flatten

/-- `poly::t0_unpack(r, a)`: 13 bytes → 8 coefficients (i32 arithmetic on byte values) -/
def t0_unpack_group (b : List Nat) : Chk (List Int) :=
  match b with
  | [b0, b1, b2, b3, b4, b5, b6, b7, b8, b9, b10, b11, b12] =>
    let r0 := (b0 ||| (b1 <<< 8)) &&& 0x1FFF
    let r1 := ((b1 >>> 5) ||| (b2 <<< 3) ||| (b3 <<< 11)) &&& 0x1FFF
    let r2 := ((b3 >>> 2) ||| (b4 <<< 6)) &&& 0x1FFF
    let r3 := ((b4 >>> 7) ||| (b5 <<< 1) ||| (b6 <<< 9)) &&& 0x1FFF
    let r4 := ((b6 >>> 4) ||| (b7 <<< 4) ||| (b8 <<< 12)) &&& 0x1FFF
    let r5 := ((b8 >>> 1) ||| (b9 <<< 7)) &&& 0x1FFF
    let r6 := ((b9 >>> 6) ||| (b10 <<< 2) ||| (b11 <<< 10)) &&& 0x1FFF
    let r7 := ((b11 >>> 3) ||| (b12 <<< 5)) &&& 0x1FFF
    mapL (fun (r : Nat) => sub32 D_SHL r) [r0, r1, r2, r3, r4, r5, r6, r7]
  | _ => .error .len

def t0_unpack (a : List Nat) : Chk Poly := do
  let a ← takeC a POLYT0
  let g ← mapL t0_unpack_group (chunks 13 a)
  .ok g.flatten

end DV
