import DilithiumVerif.Impl.Reduce
/- Impl.Rounding — src/rounding.rs and src/rounding/lvl{2,3,5}.rs.
   All functions return the tuple in the Rust order `(a0, a1)`. -/
namespace DV

/-- `rounding::power2round(a) -> (a0, a1)`
    a1 = (a + (1 << (D-1)) - 1) >> D;  a0 = a - (a1 << D) -/
def power2round (a : Int) : Chk (Int × Int) := do
  let s ← add32 a 4096
  let s ← sub32 s 1
  let a1 := sar s 13
  let a0 ← sub32 a (shl32 a1 13)
  .ok (a0, a1)

/-- `rounding::lvl2::decompose` (γ2 = (q−1)/88) -/
def decompose88 (a : Int) : Chk (Int × Int) := do
  let s ← add32 a 127
  let a1 := sar s 7
  let m ← mul32 a1 11275
  let m ← add32 m 8388608
  let a1 := sar m 24
  let d ← sub32 43 a1
  let a1 := xor32 a1 (and32 (sar d 31) a1)
  let p ← mul32 a1 2
  let p ← mul32 p (Gen.lvl2.GAMMA2 : Nat)
  let a0 ← sub32 a p
  let e ← sub32 ((Q - 1) / 2) a0
  let a0 ← sub32 a0 (and32 (sar e 31) Q)
  .ok (a0, a1)

/-- `rounding::lvl3::decompose`, `rounding::lvl5::decompose` (γ2 = (q−1)/32) -/
def decompose32 (g2 : Int) (a : Int) : Chk (Int × Int) := do
  let s ← add32 a 127
  let a1 := sar s 7
  let m ← mul32 a1 1025
  let m ← add32 m 2097152
  let a1 := sar m 22
  let a1 := and32 a1 15
  let p ← mul32 a1 2
  let p ← mul32 p g2
  let a0 ← sub32 a p
  let e ← sub32 ((Q - 1) / 2) a0
  let a0 ← sub32 a0 (and32 (sar e 31) Q)
  .ok (a0, a1)

def gamma2Of : Lvl → Int
  | .l2 => (Gen.lvl2.GAMMA2 : Nat) | .l3 => (Gen.lvl3.GAMMA2 : Nat) | .l5 => (Gen.lvl5.GAMMA2 : Nat)

def decompose (lv : Lvl) (a : Int) : Chk (Int × Int) :=
  match lv with
  | .l2 => decompose88 a
  | .l3 => decompose32 (gamma2Of .l3) a
  | .l5 => decompose32 (gamma2Of .l5) a

/-- `rounding::lvlX::make_hint(a0, a1) -> i32` -/
def make_hint (lv : Lvl) (a0 a1 : Int) : Int :=
  let g := gamma2Of lv
  if g < a0 ∨ a0 < -g ∨ (a0 = -g ∧ a1 ≠ 0) then 1 else 0

/-- `rounding::lvlX::use_hint(a, hint) -> i32` -/
def use_hint (lv : Lvl) (a hint : Int) : Chk Int := do
  let (a0, a1) ← decompose lv a
  if hint = 0 then .ok a1 else
  match lv with
  | .l2 =>
    if 0 < a0 then (if a1 = 43 then .ok 0 else add32 a1 1)
    else (if a1 = 0 then .ok 43 else sub32 a1 1)
  | _ =>
    if 0 < a0 then do let s ← add32 a1 1; .ok (and32 s 15)
    else do let s ← sub32 a1 1; .ok (and32 s 15)

end DV
