import DilithiumVerif.Impl.Poly
/-
  Impl.PolyLvl — src/poly/{lvl2,lvl3,lvl5,ml_dsa_44,ml_dsa_65,ml_dsa_87}.rs.
  The code path (which textual copy) is selected by `p.lvl`; the ml_dsa copies differ from the lvl
  copies only in the number of challenge-seed bytes absorbed (`p.ctilde`).
-/
namespace DV

/-- `poly::<set>::decompose(a1, a0)`: (a1[i], a0[i]) = rounding::decompose(a1[i]) — note the order:
    the first out-parameter receives the *low* parts, the second the *high* parts. Returns (a1, a0). -/
def poly_decompose (lv : Lvl) (a : Poly) : Chk (Poly × Poly) := do
  let r ← mapL (decompose lv) a
  .ok (r.map (·.1), r.map (·.2))

/-- `poly::<set>::make_hint(h, a0, a1) -> i32`: returns (h, number of ones) -/
def poly_make_hint_go (lv : Lvl) : List Int → List Int → Int → Chk (List Int × Int)
  | x :: xs, y :: ys, s => do
      let h := make_hint lv x y
      let s ← add32 s h
      let (hs, s) ← poly_make_hint_go lv xs ys s
      .ok (h :: hs, s)
  | [], [], s => .ok ([], s)
  | _, _, _ => .error .len

def poly_make_hint (lv : Lvl) (a0 a1 : Poly) : Chk (Poly × Int) := poly_make_hint_go lv a0 a1 0

/-- `poly::<set>::use_hint(a, hint)` (and `use_hint_ip`) -/
def poly_use_hint (lv : Lvl) (a hint : Poly) : Chk Poly := zipL (use_hint lv) a hint

def etaOf : Lvl → Nat
  | .l2 => 2 | .l3 => 4 | .l5 => 2

/-- `poly::<set>::rej_eta(a, alen, buf, buflen)`; returns the accepted values in order -/
def rej_eta_loop (lv : Lvl) (alen acap : Nat) (buf : List Nat) (buflen : Nat) : Nat → Nat → List Int → Chk (List Int)
  | 0, _, acc => .ok acc
  | fuel + 1, pos, acc =>
    if acc.length < alen ∧ pos < buflen then do
      let b ← getC buf pos
      let t0 := b &&& 0x0F
      let t1 := b >>> 4
      match lv with
      | .l3 =>
        let acc ← (if t0 < 9 then (if acc.length < acap then .ok (acc ++ [(4 : Int) - (t0 : Nat)]) else .error .oob) else .ok acc)
        let acc ← (if t1 < 9 ∧ acc.length < alen then (if acc.length < acap then .ok (acc ++ [(4 : Int) - (t1 : Nat)]) else .error .oob) else .ok acc)
        rej_eta_loop lv alen acap buf buflen fuel (pos + 1) acc
      | _ =>
        -- t = t - (205*t >> 10)*5  (u32 arithmetic, no overflow for t < 16)
        let m (t : Nat) : Int := (2 : Int) - ((t - ((205 * t) >>> 10) * 5 : Nat) : Int)
        let acc ← (if t0 < 15 then (if acc.length < acap then .ok (acc ++ [m t0]) else .error .oob) else .ok acc)
        let acc ← (if t1 < 15 ∧ acc.length < alen then (if acc.length < acap then .ok (acc ++ [m t1]) else .error .oob) else .ok acc)
        rej_eta_loop lv alen acap buf buflen fuel (pos + 1) acc
    else .ok acc

def rej_eta (lv : Lvl) (alen acap : Nat) (buf : List Nat) (buflen : Nat) : Chk (List Int) :=
  rej_eta_loop lv alen acap buf buflen (buflen + 1) 0 []

def UNIFORM_ETA_NBLOCKS : Nat := (135 + R256) / R256

def uniform_eta_loop (lv : Lvl) : Nat → KeccakState → List Int → Chk (List Int)
  | 0, _, _ => .error .fuel
  | fuel + 1, st, acc =>
    if acc.length < N then do
      let (buf, st) ← shake256_squeezeblocks (UNIFORM_ETA_NBLOCKS * R256) 1 st
      let more ← rej_eta lv (N - acc.length) (N - acc.length) buf R256
      uniform_eta_loop lv fuel st (acc ++ more)
    else .ok acc

/-- `poly::<set>::uniform_eta(a, seed, nonce)` -/
def poly_uniform_eta (lv : Lvl) (fuel : Nat) (seed : List Nat) (nonce : Nat) : Chk Poly := do
  let st ← shake256_stream_init seed nonce
  let (buf, st) ← shake256_squeezeblocks (UNIFORM_ETA_NBLOCKS * R256) UNIFORM_ETA_NBLOCKS st
  let acc ← rej_eta lv N N buf (UNIFORM_ETA_NBLOCKS * R256)
  uniform_eta_loop lv fuel st acc

/-! ### z codec (γ1 = 2^17: 4 coefficients ↔ 9 bytes; γ1 = 2^19: 2 coefficients ↔ 5 bytes) -/

def gamma1Of : Lvl → Int
  | .l2 => (Gen.lvl2.GAMMA1 : Nat) | .l3 => (Gen.lvl3.GAMMA1 : Nat) | .l5 => (Gen.lvl5.GAMMA1 : Nat)
def polyzOf : Lvl → Nat
  | .l2 => Gen.lvl2.POLYZ_PACKEDBYTES | .l3 => Gen.lvl3.POLYZ_PACKEDBYTES | .l5 => Gen.lvl5.POLYZ_PACKEDBYTES
def polyw1Of : Lvl → Nat
  | .l2 => Gen.lvl2.POLYW1_PACKEDBYTES | .l3 => Gen.lvl3.POLYW1_PACKEDBYTES | .l5 => Gen.lvl5.POLYW1_PACKEDBYTES
def polyetaOf : Lvl → Nat
  | .l2 => Gen.lvl2.POLYETA_PACKEDBYTES | .l3 => Gen.lvl3.POLYETA_PACKEDBYTES | .l5 => Gen.lvl5.POLYETA_PACKEDBYTES

/-- the 9 bytes written for four 18-bit values t = γ1 − coefficient (i32 values) -/
def z17_bytes (t0 t1 t2 t3 : Int) : List Nat :=
  [ asU8 t0, asU8 (sar t0 8),
    asU8 (sar t0 16) ||| asU8 (shl32 t1 2),
    asU8 (sar t1 6),
    asU8 (sar t1 14) ||| asU8 (shl32 t2 4),
    asU8 (sar t2 4),
    asU8 (sar t2 12) ||| asU8 (shl32 t3 6),
    asU8 (sar t3 2), asU8 (sar t3 10) ]

def z_pack_group17 (g1 : Int) (c : List Int) : Chk (List Nat) := do
  let t ← mapL (fun x => sub32 g1 x) c
  match t with
  | [t0, t1, t2, t3] => .ok (z17_bytes t0 t1 t2 t3)
  | _ => .error .len

/-- the 5 bytes written for two 20-bit values -/
def z19_bytes (t0 t1 : Int) : List Nat :=
  [ asU8 t0, asU8 (sar t0 8),
    asU8 (sar t0 16) ||| asU8 (shl32 t1 4),
    asU8 (sar t1 4), asU8 (sar t1 12) ]

def z_pack_group19 (g1 : Int) (c : List Int) : Chk (List Nat) := do
  let t ← mapL (fun x => sub32 g1 x) c
  match t with
  | [t0, t1] => .ok (z19_bytes t0 t1)
  | _ => .error .len

/-- `poly::<set>::z_pack(r, a)` -/
def z_pack (lv : Lvl) (a : Poly) : Chk (List Nat) := do
  match lv with
  | .l2 => let g ← mapL (z_pack_group17 (gamma1Of lv)) (chunks 4 a); .ok g.flatten
  | _ => let g ← mapL (z_pack_group19 (gamma1Of lv)) (chunks 2 a); .ok g.flatten

/-- the four 18-bit fields read from 9 bytes -/
def z17_fields (b0 b1 b2 b3 b4 b5 b6 b7 b8 : Nat) : List Nat :=
  [ (b0 ||| (b1 <<< 8) ||| (b2 <<< 16)) &&& 0x3FFFF,
    ((b2 >>> 2) ||| (b3 <<< 6) ||| (b4 <<< 14)) &&& 0x3FFFF,
    ((b4 >>> 4) ||| (b5 <<< 4) ||| (b6 <<< 12)) &&& 0x3FFFF,
    ((b6 >>> 6) ||| (b7 <<< 2) ||| (b8 <<< 10)) &&& 0x3FFFF ]

def z_unpack_group17 (g1 : Int) (b : List Nat) : Chk (List Int) :=
  match b with
  | [b0, b1, b2, b3, b4, b5, b6, b7, b8] =>
    mapL (fun (r : Nat) => sub32 g1 r) (z17_fields b0 b1 b2 b3 b4 b5 b6 b7 b8)
  | _ => .error .len

/-- γ1 = 2^19: the source masks coefficient 0 twice and coefficient 1 never (it cannot exceed 20 bits) -/
def z19_fields (b0 b1 b2 b3 b4 : Nat) : List Nat :=
  [ ((b0 ||| (b1 <<< 8) ||| (b2 <<< 16)) &&& 0xFFFFF) &&& 0xFFFFF,
    (b2 >>> 4) ||| (b3 <<< 4) ||| (b4 <<< 12) ]

def z_unpack_group19 (g1 : Int) (b : List Nat) : Chk (List Int) :=
  match b with
  | [b0, b1, b2, b3, b4] => mapL (fun (r : Nat) => sub32 g1 r) (z19_fields b0 b1 b2 b3 b4)
  | _ => .error .len

/-- `poly::<set>::z_unpack(r, a)` -/
def z_unpack (lv : Lvl) (a : List Nat) : Chk Poly := do
  let a ← takeC a (polyzOf lv)
  match lv with
  | .l2 => let g ← mapL (z_unpack_group17 (gamma1Of lv)) (chunks 9 a); .ok g.flatten
  | _ => let g ← mapL (z_unpack_group19 (gamma1Of lv)) (chunks 5 a); .ok g.flatten

def UNIFORM_GAMMA1_NBLOCKS (lv : Lvl) : Nat := (polyzOf lv + R256 - 1) / R256

/-- `poly::<set>::uniform_gamma1(a, seed, nonce)` -/
def poly_uniform_gamma1 (lv : Lvl) (seed : List Nat) (nonce : Nat) : Chk Poly := do
  let st ← shake256_stream_init seed nonce
  let (buf, _) ← shake256_squeezeblocks (UNIFORM_GAMMA1_NBLOCKS lv * R256) (UNIFORM_GAMMA1_NBLOCKS lv) st
  z_unpack lv buf

/-! ### challenge -/

/-- inner `loop` of `challenge`: next byte b ≤ i, refilling the 136-byte buffer from the XOF -/
def challenge_next : Nat → Nat → KeccakState → List Nat → Nat → Chk (Nat × KeccakState × List Nat × Nat)
  | 0, _, _, _, _ => .error .fuel
  | fuel + 1, i, st, buf, pos => do
    let (st, buf, pos) ← (if pos ≥ R256 then do
        let (nb, st) ← shake256_squeezeblocks R256 1 st
        .ok (st, nb, 0)
      else .ok (st, buf, pos))
    let b ← getC buf pos
    if b ≤ i then .ok (b, st, buf, pos + 1) else challenge_next fuel i st buf (pos + 1)

def challenge_go (fuel : Nat) : Nat → Nat → List Int → UInt64 → KeccakState → List Nat → Nat → Chk (List Int)
  | 0, _, c, _, _, _, _ => .ok c
  | n + 1, i, c, signs, st, buf, pos => do
    let (b, st, buf, pos) ← challenge_next fuel i st buf pos
    let cb ← getC c b
    let c ← setC c i cb
    let c ← setC c b ((1 : Int) - 2 * ((signs &&& 1).toNat : Int))
    challenge_go fuel n (i + 1) c (signs >>> 1) st buf pos

/-- `poly::<set>::challenge(c, seed)`; absorbs `p.ctilde` bytes of `seed` -/
def poly_challenge (p : Params) (fuel : Nat) (seed : List Nat) : Chk Poly := do
  let st ← shake256_absorb KeccakState.init seed p.ctilde
  let st ← shake256_finalize st
  let (buf, st) ← shake256_squeezeblocks R256 1 st
  let signs := (List.range 8).foldl (fun (acc : UInt64) i => acc ||| ((UInt64.ofNat (buf.getD i 0)) <<< (UInt64.ofNat (8 * i)))) 0
  challenge_go fuel p.tau (N - p.tau) (List.replicate N 0) signs st buf 8

/-! ### eta codec -/

/-- the 3 bytes written for eight 3-bit values (u8 arithmetic: `<<` drops the bits shifted out) -/
def eta2_bytes (t0 t1 t2 t3 t4 t5 t6 t7 : Nat) : List Nat :=
  [ ((t0 >>> 0) ||| ((t1 <<< 3) % 256) ||| ((t2 <<< 6) % 256)),
    ((t2 >>> 2) ||| ((t3 <<< 1) % 256) ||| ((t4 <<< 4) % 256) ||| ((t5 <<< 7) % 256)),
    ((t5 >>> 1) ||| ((t6 <<< 2) % 256) ||| ((t7 <<< 5) % 256)) ]

def eta_pack_group2 (c : List Int) : Chk (List Nat) := do
  let t ← mapL (fun x => do let d ← sub32 2 x; .ok (asU8 d)) c
  match t with
  | [t0, t1, t2, t3, t4, t5, t6, t7] => .ok (eta2_bytes t0 t1 t2 t3 t4 t5 t6 t7)
  | _ => .error .len

def eta4_bytes (t0 t1 : Nat) : List Nat := [ t0 ||| ((t1 <<< 4) % 256) ]

def eta_pack_group4 (c : List Int) : Chk (List Nat) := do
  let t ← mapL (fun x => do let d ← sub32 4 x; .ok (asU8 d)) c
  match t with
  | [t0, t1] => .ok (eta4_bytes t0 t1)
  | _ => .error .len

/-- `poly::<set>::eta_pack(r, a)` -/
def eta_pack (lv : Lvl) (a : Poly) : Chk (List Nat) := do
  match lv with
  | .l3 => let g ← mapL eta_pack_group4 (chunks 2 a); .ok g.flatten
  | _ => let g ← mapL eta_pack_group2 (chunks 8 a); .ok g.flatten

/-- the eight 3-bit fields read from 3 bytes -/
def eta2_fields (b0 b1 b2 : Nat) : List Nat :=
  [ b0 &&& 7, (b0 >>> 3) &&& 7, ((b0 >>> 6) ||| ((b1 <<< 2) % 256)) &&& 7, (b1 >>> 1) &&& 7,
    (b1 >>> 4) &&& 7, ((b1 >>> 7) ||| ((b2 <<< 1) % 256)) &&& 7, (b2 >>> 2) &&& 7, (b2 >>> 5) &&& 7 ]

def eta_unpack_group2 (b : List Nat) : Chk (List Int) :=
  match b with
  | [b0, b1, b2] => mapL (fun (x : Nat) => sub32 2 x) (eta2_fields b0 b1 b2)
  | _ => .error .len

def eta4_fields (b0 : Nat) : List Nat := [b0 &&& 0x0F, b0 >>> 4]

def eta_unpack_group4 (b : List Nat) : Chk (List Int) :=
  match b with
  | [b0] => mapL (fun (x : Nat) => sub32 4 x) (eta4_fields b0)
  | _ => .error .len

/-- `poly::<set>::eta_unpack(r, a)` -/
def eta_unpack (lv : Lvl) (a : List Nat) : Chk Poly := do
  let a ← takeC a (polyetaOf lv)
  match lv with
  | .l3 => let g ← mapL eta_unpack_group4 (chunks 1 a); .ok g.flatten
  | _ => let g ← mapL eta_unpack_group2 (chunks 3 a); .ok g.flatten

/-! ### w1 codec -/

def w1_pack_group6 (c : List Int) : List Nat :=
  match c with
  | [c0, c1, c2, c3] =>
    [ asU8 c0 ||| asU8 (shl32 c1 6),
      asU8 (sar c1 2) ||| asU8 (shl32 c2 4),
      asU8 (sar c2 4) ||| asU8 (shl32 c3 2) ]
  | _ => []

def w1_pack_group4 (c : List Int) : List Nat :=
  match c with
  | [c0, c1] => [ asU8 (or32 c0 (shl32 c1 4)) ]
  | _ => []

/-- `poly::<set>::w1_pack(r, a)` -/
def w1_pack (lv : Lvl) (a : Poly) : List Nat :=
  match lv with
  | .l2 => (chunks 4 a).flatMap w1_pack_group6
  | _ => (chunks 2 a).flatMap w1_pack_group4

end DV
