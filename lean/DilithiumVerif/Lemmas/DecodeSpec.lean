import DilithiumVerif.Lemmas.BitSpec
import DilithiumVerif.Lemmas.EncodeSpec
import DilithiumVerif.Lemmas.DecodeTotal
/-
  Lemmas.DecodeSpec — the decoders are the inverses of the specification's encoders on *every* byte string:
  re-encoding what `t1_unpack` / `z_unpack` return gives the bytes back (BitUnpack / SimpleBitUnpack, FIPS 204 Alg. 18/19).
-/
set_option linter.unusedSimpArgs false
set_option maxRecDepth 8000
namespace DV.DecodeSpec
open DV DV.BitSpec DV.EncodeSpec DV.Ranges DV.DecodeTotal

theorem list_len5 {α} (c : List α) (h : c.length = 5) : ∃ a b d e f, c = [a, b, d, e, f] := by
  match c, h with
  | [a, b, d, e, f], _ => exact ⟨a, b, d, e, f, rfl⟩
theorem list_len9 {α} (c : List α) (h : c.length = 9) : ∃ a0 a1 a2 a3 a4 a5 a6 a7 a8, c = [a0, a1, a2, a3, a4, a5, a6, a7, a8] := by
  match c, h with
  | [a0, a1, a2, a3, a4, a5, a6, a7, a8], _ => exact ⟨a0, a1, a2, a3, a4, a5, a6, a7, a8, rfl⟩

/-! ### groups -/
theorem t1_fields_spec (b0 b1 b2 b3 b4 : Nat) (h0 : b0 < 256) (h1 : b1 < 256) (h2 : b2 < 256) (h3 : b3 < 256) (h4 : b4 < 256) :
    simpleBitPack ((t1_unpack_group [b0, b1, b2, b3, b4]).map Int.toNat) 10 = [b0, b1, b2, b3, b4] := by
  simp only [t1_unpack_group, List.map_cons, List.map_nil, Int.toNat_natCast]
  bits2arith
  unfold_spec
  omega

theorem z17_fields_spec (b0 b1 b2 b3 b4 b5 b6 b7 b8 : Nat) (h0 : b0 < 256) (h1 : b1 < 256) (h2 : b2 < 256) (h3 : b3 < 256)
    (h4 : b4 < 256) (h5 : b5 < 256) (h6 : b6 < 256) (h7 : b7 < 256) (h8 : b8 < 256) :
    simpleBitPack (z17_fields b0 b1 b2 b3 b4 b5 b6 b7 b8) 18 = [b0, b1, b2, b3, b4, b5, b6, b7, b8] := by
  simp only [z17_fields]
  bits2arith
  unfold_spec
  refine ⟨?_, ?_, ?_, ?_, ?_, ?_, ?_, ?_, ?_⟩ <;> omega

theorem z19_fields_spec (b0 b1 b2 b3 b4 : Nat) (h0 : b0 < 256) (h1 : b1 < 256) (h2 : b2 < 256) (h3 : b3 < 256) (h4 : b4 < 256) :
    simpleBitPack (z19_fields b0 b1 b2 b3 b4) 20 = [b0, b1, b2, b3, b4] := by
  simp only [z19_fields]
  bits2arith
  unfold_spec
  refine ⟨?_, ?_, ?_, ?_, ?_⟩ <;> omega

theorem z17_fields_lt (b0 b1 b2 b3 b4 b5 b6 b7 b8 : Nat) : ∀ f ∈ z17_fields b0 b1 b2 b3 b4 b5 b6 b7 b8, f < 262144 := by
  intro f hf
  simp only [z17_fields, List.mem_cons, List.not_mem_nil, or_false] at hf
  rcases hf with rfl | rfl | rfl | rfl <;> (rw [mask_18]; omega)

theorem z19_fields_lt (b0 b1 b2 b3 b4 : Nat) (h2 : b2 < 256) (h3 : b3 < 256) (h4 : b4 < 256) : ∀ f ∈ z19_fields b0 b1 b2 b3 b4, f < 1048576 := by
  intro f hf
  simp only [z19_fields, List.mem_cons, List.not_mem_nil, or_false] at hf
  rcases hf with rfl | rfl
  · rw [mask_20]; omega
  · bits2arith; omega

/-- decoding a list of in-range fields: c_i = g − f_i, and BitPack(c, ·, g) packs the fields again -/
theorem sub_fields (g : Int) (B : Nat) (hB : (B : Int) ≤ 2 * g) (hg : 0 < g ∧ g ≤ 1073741824) : ∀ (fs : List Nat), (∀ f ∈ fs, f < B) →
    ∃ c, mapL (fun (r : Nat) => sub32 g r) fs = .ok c ∧ c.length = fs.length ∧ c.map (fun x => (g - x).toNat) = fs
  | [], _ => ⟨[], rfl, rfl, rfl⟩
  | f :: fs, h => by
      obtain ⟨c, hc, hl, hm⟩ := sub_fields g B hB hg fs (fun x hx => h x (List.mem_cons_of_mem _ hx))
      have hf := h f (List.mem_cons_self ..)
      refine ⟨(g - (f : Int)) :: c, ?_, by simp [hl], ?_⟩
      · unfold mapL
        rw [sub32_ok _ _ (by omega), ok_bind, hc, ok_bind]
      · simp only [List.map_cons, hm]
        congr 1
        omega

theorem z17_group_decode (b : List Nat) (hl : b.length = 9) (hb : ∀ x ∈ b, x < 256) :
    ∃ c, z_unpack_group17 131072 b = .ok c ∧ c.length = 4 ∧ bitPack c 131072 18 = b := by
  obtain ⟨b0, b1, b2, b3, b4, b5, b6, b7, b8, rfl⟩ := list_len9 b hl
  obtain ⟨c, hc, hcl, hm⟩ := sub_fields 131072 262144 (by omega) (by omega) _ (z17_fields_lt b0 b1 b2 b3 b4 b5 b6 b7 b8)
  refine ⟨c, hc, by rw [hcl]; rfl, ?_⟩
  unfold bitPack
  rw [hm]
  exact z17_fields_spec b0 b1 b2 b3 b4 b5 b6 b7 b8 (hb _ (by simp)) (hb _ (by simp)) (hb _ (by simp)) (hb _ (by simp))
    (hb _ (by simp)) (hb _ (by simp)) (hb _ (by simp)) (hb _ (by simp)) (hb _ (by simp))

theorem z19_group_decode (b : List Nat) (hl : b.length = 5) (hb : ∀ x ∈ b, x < 256) :
    ∃ c, z_unpack_group19 524288 b = .ok c ∧ c.length = 2 ∧ bitPack c 524288 20 = b := by
  obtain ⟨b0, b1, b2, b3, b4, rfl⟩ := list_len5 b hl
  obtain ⟨c, hc, hcl, hm⟩ := sub_fields 524288 1048576 (by omega) (by omega) _
    (z19_fields_lt b0 b1 b2 b3 b4 (hb _ (by simp)) (hb _ (by simp)) (hb _ (by simp)))
  refine ⟨c, hc, by rw [hcl]; rfl, ?_⟩
  unfold bitPack
  rw [hm]
  exact z19_fields_spec b0 b1 b2 b3 b4 (hb _ (by simp)) (hb _ (by simp)) (hb _ (by simp)) (hb _ (by simp)) (hb _ (by simp))

/-! ### lifting to whole byte strings -/
theorem decode_lift (n m bits : Nat) (hm : 0 < m) (h8 : (n * bits) % 8 = 0) (tr : Int → Nat) (unpack : List Nat → Chk (List Int))
    (hg : ∀ g, g.length = m → (∀ b ∈ g, b < 256) → ∃ c, unpack g = .ok c ∧ c.length = n ∧ simpleBitPack (c.map tr) bits = g)
    (a : List Nat) (hl : a.length % m = 0) (hb : ∀ b ∈ a, b < 256) :
    ∃ gs, mapL unpack (chunks m a) = .ok gs ∧ simpleBitPack (gs.flatten.map tr) bits = a := by
  have hmem := chunks_mem m hm a.length a rfl hl
  obtain ⟨gs, hgs, hrel⟩ := mapL_total unpack (fun g => g.length = m ∧ ∀ b ∈ g, b < 256)
    (fun g c => c.length = n ∧ simpleBitPack (c.map tr) bits = g) (fun g hG => hg g hG.1 hG.2) (chunks m a)
    (fun g hgm => ⟨(hmem g hgm).1, fun b hb' => hb b ((hmem g hgm).2 b hb')⟩)
  refine ⟨gs, hgs, ?_⟩
  rw [← groups_spec n bits tr h8 gs (hrel.right (B := fun (c : List Int) => c.length = n) (fun _ _ h => h.1))]
  have : gs.map (fun g => simpleBitPack (g.map tr) bits) = (chunks m a).map id :=
    All2.map_eq (hrel.mono (fun _ _ h => h.2))
  rw [this, List.map_id, chunks_flatten m hm a.length a rfl]

/-- **SimpleBitUnpack, t1**: for every 320-byte string, `t1_unpack` returns the polynomial whose SimpleBitPack is that string -/
theorem t1_unpack_spec (s : List Nat) (hs : s.length = POLYT1) (hb : ∀ b ∈ s, b < 256) :
    ∃ r, t1_unpack s = .ok r ∧ r.length = 256 ∧ (∀ x ∈ r, 0 ≤ x ∧ x < 1024) ∧ simpleBitPack (r.map Int.toNat) 10 = s := by
  obtain ⟨r, hr, hl, hrange⟩ := t1_unpack_total s (Nat.le_of_eq hs.symm)
  refine ⟨r, hr, hl, hrange, ?_⟩
  have hP : POLYT1 = 320 := by decide
  unfold t1_unpack takeC at hr
  rw [if_pos (Nat.le_of_eq hs.symm), ok_bind, List.take_of_length_le (Nat.le_of_eq hs)] at hr
  injection hr with hr
  obtain ⟨gs, hgs, hsp⟩ := decode_lift 4 5 10 (by decide) (by decide) Int.toNat (fun g => .ok (t1_unpack_group g))
    (fun g hgl hgb => by
      obtain ⟨b0, b1, b2, b3, b4, rfl⟩ := list_len5 g hgl
      exact ⟨_, rfl, rfl, t1_fields_spec b0 b1 b2 b3 b4 (hgb _ (by simp)) (hgb _ (by simp)) (hgb _ (by simp)) (hgb _ (by simp)) (hgb _ (by simp))⟩)
    s (by rw [hs, hP]) hb
  have : gs = (chunks 5 s).map t1_unpack_group := by
    have := DV.mapL_ok (fun g => (.ok (t1_unpack_group g) : Chk (List Int))) t1_unpack_group (chunks 5 s) (fun _ _ => rfl)
    rw [this] at hgs; injection hgs with hgs; exact hgs.symm
  rw [← hr, List.flatMap_def, ← this]
  exact hsp

/-- **BitUnpack, z**: for every byte string of 32·bits bytes, `z_unpack` returns the polynomial with coefficients in
    (−γ1, γ1] whose BitPack(·, γ1 − 1, γ1) is that string -/
theorem z_unpack_spec (lv : Lvl) (s : List Nat) (hs : s.length = polyzOf lv) (hb : ∀ b ∈ s, b < 256) :
    ∃ r, z_unpack lv s = .ok r ∧ r.length = 256 ∧ (∀ x ∈ r, -(gamma1Of lv) < x ∧ x ≤ gamma1Of lv) ∧
      bitPack r (gamma1Of lv) (zBits lv) = s := by
  obtain ⟨r, hr, hl, hrange⟩ := z_unpack_total lv s (Nat.le_of_eq hs.symm) hb
  refine ⟨r, hr, hl, hrange, ?_⟩
  obtain ⟨g2, g3, g5⟩ := gamma1_vals
  obtain ⟨p2, p3, p5⟩ := polyz_vals
  unfold z_unpack takeC at hr
  rw [if_pos (Nat.le_of_eq hs.symm), ok_bind, List.take_of_length_le (Nat.le_of_eq hs)] at hr
  have h19 : ∀ (g : Int), g = 524288 → s.length = 640 →
      (mapL (z_unpack_group19 g) (chunks 5 s) >>= fun g => (.ok g.flatten : Chk (List Int))) = .ok r → bitPack r 524288 20 = s := by
    intro g hg hsl h
    subst hg
    obtain ⟨gs, hgs, hsp⟩ := decode_lift 2 5 20 (by decide) (by decide) (fun x => ((524288 : Int) - x).toNat) (z_unpack_group19 524288)
      (fun g hgl hgb => z19_group_decode g hgl hgb) s (by rw [hsl]) hb
    rw [hgs, ok_bind] at h
    injection h with h
    rw [← h]; exact hsp
  cases lv with
  | l2 =>
    simp only at hr
    obtain ⟨gs, hgs, hsp⟩ := decode_lift 4 9 18 (by decide) (by decide) (fun x => ((131072 : Int) - x).toNat) (z_unpack_group17 131072)
      (fun g hgl hgb => z17_group_decode g hgl hgb) s (by rw [hs, p2]) hb
    rw [g2] at hr ⊢
    rw [hgs, ok_bind] at hr
    injection hr with hr
    rw [← hr]; exact hsp
  | l3 => simp only at hr; rw [g3]; exact h19 _ g3 (by rw [hs, p3]) hr
  | l5 => simp only at hr; rw [g5]; exact h19 _ g5 (by rw [hs, p5]) hr

end DV.DecodeSpec
