import DilithiumVerif.Lemmas.NttMul
/-
  Lemmas.NttRev — the other composition: forward layers applied to inverse layers give 2^m as well, hence the
  inverse transform of the model, evaluated at the 256 roots, returns 2^32 times its input (for ANY input list, not
  only for outputs of the forward transform).
-/
namespace DV.NttRev
open DV DV.NttAlg DV.NttSem DV.NttEval DV.NttInv DV.NttMul

variable {R : Type} [CommRing R]

theorem ibfly_length (c : R) (len : Nat) (b : List R) (hb : b.length = 2 * len) : (ibfly c len b).length = 2 * len := by
  have hlo : (b.take len).length = len := by simp [List.length_take, hb]; omega
  have hhi : (b.drop len).length = len := by simp [List.length_drop, hb]; omega
  unfold ibfly
  rw [List.length_append, zipWith_len _ _ _ (by rw [hlo, hhi]), zipWith_len _ _ _ (by rw [hlo, hhi]), hlo]; omega

theorem lo_part (c c' s : R) (hcc : c * c' = 1) : ∀ (lo hi : List R), lo.length = hi.length →
    bflyLo c ((List.zipWith (fun u v => u + v) lo hi).map (fun x => s * x)) ((List.zipWith (fun u v => c' * (u - v)) lo hi).map (fun x => s * x))
      = lo.map (fun x => (2 * s) * x)
  | [], [], _ => by simp [bflyLo]
  | x :: xs, y :: ys, h => by
      have ih := lo_part c c' s hcc xs ys (by simpa using h)
      simp only [bflyLo, List.zipWith_cons_cons, List.map_cons] at ih ⊢
      rw [ih]; congr 1
      calc s * (x + y) + c * (s * (c' * (x - y))) = s * (x + y) + s * (x - y) * (c * c') := by ring
        _ = 2 * s * x := by rw [hcc]; ring
  | [], _ :: _, h => by simp at h
  | _ :: _, [], h => by simp at h

theorem hi_part (c c' s : R) (hcc : c * c' = 1) : ∀ (lo hi : List R), lo.length = hi.length →
    bflyHi c ((List.zipWith (fun u v => u + v) lo hi).map (fun x => s * x)) ((List.zipWith (fun u v => c' * (u - v)) lo hi).map (fun x => s * x))
      = hi.map (fun x => (2 * s) * x)
  | [], [], _ => by simp [bflyHi]
  | x :: xs, y :: ys, h => by
      have ih := hi_part c c' s hcc xs ys (by simpa using h)
      simp only [bflyHi, List.zipWith_cons_cons, List.map_cons] at ih ⊢
      rw [ih]; congr 1
      calc s * (x + y) + -c * (s * (c' * (x - y))) = s * (x + y) - s * (x - y) * (c * c') := by ring
        _ = 2 * s * y := by rw [hcc]; ring
  | [], _ :: _, h => by simp at h
  | _ :: _, [], h => by simp at h

theorem bfly_ibfly (c c' s : R) (hcc : c * c' = 1) (len : Nat) (b : List R) (hb : b.length = 2 * len) :
    bfly c len ((ibfly c' len b).map (fun x => s * x)) = b.map (fun x => (2 * s) * x) := by
  have hlo : (b.take len).length = len := by simp [List.length_take, hb]; omega
  have hhi : (b.drop len).length = len := by simp [List.length_drop, hb]; omega
  have hL : (List.zipWith (fun u v => u + v) (b.take len) (b.drop len)).length = len := by
    rw [zipWith_len _ _ _ (by rw [hlo, hhi]), hlo]
  unfold bfly ibfly
  rw [List.map_append, List.take_append_of_le_length (by rw [List.length_map, hL]), List.drop_append_of_le_length (by rw [List.length_map, hL])]
  have e1 : List.take len (List.map (fun x => s * x) (List.zipWith (fun u v => u + v) (b.take len) (b.drop len)))
      = List.map (fun x => s * x) (List.zipWith (fun u v => u + v) (b.take len) (b.drop len)) :=
    List.take_of_length_le (by rw [List.length_map, hL])
  have e2 : List.drop len (List.map (fun x => s * x) (List.zipWith (fun u v => u + v) (b.take len) (b.drop len))) = [] :=
    List.drop_eq_nil_of_le (by rw [List.length_map, hL])
  rw [e1, e2, List.nil_append, lo_part c c' s hcc _ _ (by rw [hlo, hhi]), hi_part c c' s hcc _ _ (by rw [hlo, hhi]),
    ← List.map_append, List.take_append_drop]

/-- the blocks produced by one inverse layer -/
def ilayerBlocks (w : Nat → R) (len : Nat) : Nat → List (List R) → List (List R)
  | _, [] => []
  | k, b :: bs => ibfly (w (k - 1)) len b :: ilayerBlocks w len (k - 1) bs

theorem ilayerGo_blocks (w : Nat → R) (len : Nat) : ∀ (k : Nat) (bs : List (List R)),
    ilayerGo w len k bs = (ilayerBlocks w len k bs).flatten := by
  intro k bs
  induction bs generalizing k with
  | nil => rfl
  | cons b bs ih => simp only [ilayerGo, ilayerBlocks, List.flatten_cons, ih]

theorem ilayerBlocks_lengths (w : Nat → R) (len : Nat) : ∀ (k : Nat) (bs : List (List R)), (∀ b ∈ bs, b.length = 2 * len) →
    ∀ c ∈ ilayerBlocks w len k bs, c.length = 2 * len := by
  intro k bs
  induction bs generalizing k with
  | nil => intro _ c hc; cases hc
  | cons b bs ih =>
    intro h c hc
    simp only [ilayerBlocks, List.mem_cons] at hc
    rcases hc with rfl | hc
    · exact ibfly_length _ _ _ (h b (List.mem_cons_self ..))
    · exact ih (k - 1) (fun x hx => h x (List.mem_cons_of_mem _ hx)) c hc

theorem layer_ilayer (z w : Nat → R) (len : Nat) (s : R) : ∀ (bs : List (List R)) (kf ki : Nat),
    (∀ b ∈ bs, b.length = 2 * len) → bs.length ≤ ki → (∀ j, j < bs.length → z (kf + j) * w (ki - 1 - j) = 1) →
    layerGo z len kf ((ilayerBlocks w len ki bs).map (List.map (fun x => s * x))) = (bs.map (List.map (fun x => (2 * s) * x))).flatten := by
  intro bs
  induction bs with
  | nil => intro kf ki _ _ _; rfl
  | cons b bs ih =>
    intro kf ki hlen hki hp
    simp only [ilayerBlocks, List.map_cons, layerGo, List.flatten_cons]
    have h0 := hp 0 (by simp)
    simp only [Nat.add_zero, Nat.sub_zero] at h0
    rw [bfly_ibfly (z kf) (w (ki - 1)) s h0 len b (hlen b (List.mem_cons_self ..))]
    congr 1
    apply ih (kf + 1) (ki - 1) (fun x hx => hlen x (List.mem_cons_of_mem _ hx)) (by simp at hki; omega)
    intro j hj
    have := hp (j + 1) (by simp; omega)
    have e1 : kf + (j + 1) = kf + 1 + j := by omega
    have e2 : ki - 1 - (j + 1) = ki - 1 - 1 - j := by omega
    rw [e1, e2] at this; exact this

/-- halves of consecutive blocks -/
def halves (len : Nat) : List (List R) → List (List R)
  | [] => []
  | b :: bs => b.take len :: b.drop len :: halves len bs

theorem halves_flatten (len : Nat) : ∀ (bs : List (List R)), (halves len bs).flatten = bs.flatten
  | [] => rfl
  | b :: bs => by simp only [halves, List.flatten_cons, halves_flatten len bs, ← List.append_assoc, List.take_append_drop]

theorem halves_length (len : Nat) : ∀ (bs : List (List R)), (halves len bs).length = 2 * bs.length
  | [] => rfl
  | b :: bs => by simp only [halves, List.length_cons, halves_length len bs]; omega

theorem halves_lengths (len : Nat) : ∀ (bs : List (List R)), (∀ b ∈ bs, b.length = 2 * len) → ∀ c ∈ halves len bs, c.length = len
  | [], _, c, hc => by cases hc
  | b :: bs, h, c, hc => by
      have hb := h b (List.mem_cons_self ..)
      simp only [halves, List.mem_cons] at hc
      rcases hc with rfl | rfl | hc
      · simp [List.length_take, hb]; omega
      · simp [List.length_drop, hb]; omega
      · exact halves_lengths len bs (fun x hx => h x (List.mem_cons_of_mem _ hx)) c hc

theorem inttBF_length (w : Nat → R) : ∀ (m ki : Nat) (bs : List (List R)), (∀ b ∈ bs, b.length = 2^m) →
    (inttBF w m ki bs.flatten).length = bs.length * 2^m := by
  intro m
  induction m with
  | zero =>
    intro ki bs h
    simp only [inttBF, pow_zero, Nat.mul_one]
    induction bs with
    | nil => rfl
    | cons b bs ih =>
      rw [List.flatten_cons, List.length_append, ih (fun x hx => h x (List.mem_cons_of_mem _ hx)), h b (List.mem_cons_self ..)]
      simp; omega
  | succ m ih =>
    intro ki bs h
    have h2 : (2:Nat)^(m+1) = 2 * 2^m := by ring
    have hlen' : ∀ b ∈ bs, b.length = 2 * 2^m := fun b hb => by rw [h b hb, h2]
    simp only [inttBF]
    have hY := ih (2 * ki) (halves (2^m) bs) (halves_lengths (2^m) bs hlen')
    rw [halves_flatten, halves_length] at hY
    have hdiv : (inttBF w m (2 * ki) bs.flatten).length % (2^(m+1)) = 0 := by
      rw [hY, h2]; rw [show 2 * bs.length * 2^m = bs.length * (2 * 2^m) by ring]; exact Nat.mul_mod_left _ _
    have hmem := DV.chunks_mem (2^(m+1)) (Nat.pow_pos (by decide)) _ _ rfl hdiv
    rw [ilayerGo_blocks]
    have hbl := ilayerBlocks_lengths w (2^m) ki _ (fun b hb => by rw [(hmem b hb).1, h2])
    have hcl := DV.chunks_length (2^(m+1)) (Nat.pow_pos (by decide)) _ _ rfl hdiv
    have : ∀ (L : List (List R)) (n : Nat), (∀ c ∈ L, c.length = n) → L.flatten.length = L.length * n := by
      intro L n hL
      induction L with
      | nil => simp
      | cons a L ihL =>
        rw [List.flatten_cons, List.length_append, ihL (fun x hx => hL x (List.mem_cons_of_mem _ hx)), hL a (List.mem_cons_self ..)]
        simp [Nat.succ_mul]; omega
    rw [this _ (2 * 2^m) hbl]
    have hibl : ∀ (k : Nat) (L : List (List R)), (ilayerBlocks w (2^m) k L).length = L.length := by
      intro k L
      induction L generalizing k with
      | nil => rfl
      | cons a L ihL => simp only [ilayerBlocks, List.length_cons, ihL]
    rw [hibl, hcl, hY, h2]
    rw [show 2 * bs.length * 2^m = bs.length * (2 * 2^m) by ring, Nat.mul_div_cancel _ (by positivity)]

/-- forward layers after inverse layers: 2^m as well -/
theorem nttBF_inttBF (z w : Nat → R) : ∀ (m kf : Nat) (bs : List (List R)) (s : R), (∀ b ∈ bs, b.length = 2^m) →
    (∀ t j, t < m → j < bs.length * 2^t → z (kf * 2^t + j) * w ((kf + bs.length) * 2^t - 1 - j) = 1) →
    nttBF z m kf ((inttBF w m (kf + bs.length) bs.flatten).map (fun x => s * x)) = bs.flatten.map (fun x => ((2:R)^m * s) * x) := by
  intro m
  induction m with
  | zero =>
    intro kf bs s _ _
    simp only [inttBF, nttBF, pow_zero, one_mul]
  | succ m ih =>
    intro kf bs s hlen hp
    have h2 : (2:Nat)^(m+1) = 2 * 2^m := by ring
    have hlen' : ∀ b ∈ bs, b.length = 2 * 2^m := fun b hb => by rw [hlen b hb, h2]
    simp only [inttBF, nttBF]
    -- Y = the inner inverse layers
    have hYl := inttBF_length w m (2 * (kf + bs.length)) (halves (2^m) bs) (halves_lengths (2^m) bs hlen')
    rw [halves_flatten, halves_length] at hYl
    have hdiv : (inttBF w m (2 * (kf + bs.length)) bs.flatten).length % (2^(m+1)) = 0 := by
      rw [hYl, h2]; rw [show 2 * bs.length * 2^m = bs.length * (2 * 2^m) by ring]; exact Nat.mul_mod_left _ _
    have hmem := DV.chunks_mem (2^(m+1)) (Nat.pow_pos (by decide)) _ _ rfl hdiv
    have hcl := DV.chunks_length (2^(m+1)) (Nat.pow_pos (by decide)) _ _ rfl hdiv
    have hcn : (DV.chunks (2^(m+1)) (inttBF w m (2 * (kf + bs.length)) bs.flatten)).length = bs.length := by
      rw [hcl, hYl, h2, show 2 * bs.length * 2^m = bs.length * (2 * 2^m) by ring, Nat.mul_div_cancel _ (by positivity)]
    rw [ilayerGo_blocks, map_flatten', DV.chunks_flatten_fixed (2^(m+1)) (Nat.pow_pos (by decide))]
    · have hkey := layer_ilayer z w (2^m) s (DV.chunks (2^(m+1)) (inttBF w m (2 * (kf + bs.length)) bs.flatten)) kf (kf + bs.length)
        (fun b hb => by rw [(hmem b hb).1, h2]) (by rw [hcn]; omega)
        (by intro j hj
            rw [hcn] at hj
            have := hp 0 j (by omega) (by simpa using hj)
            simpa using this)
      rw [hkey, ← map_flatten', DV.chunks_flatten (2^(m+1)) (Nat.pow_pos (by decide)) _ _ rfl]
      have e1 : 2 * (kf + bs.length) = 2 * kf + (halves (2^m) bs).length := by rw [halves_length]; ring
      have hih := ih (2 * kf) (halves (2^m) bs) (2 * s) (halves_lengths (2^m) bs hlen')
        (by intro t j ht hj
            rw [halves_length] at hj ⊢
            have := hp (t + 1) j (by omega) (by rw [pow_succ]; rw [show bs.length * (2^t * 2) = 2 * bs.length * 2^t by ring]; exact hj)
            have e2 : kf * 2^(t+1) = 2 * kf * 2^t := by ring
            have e3 : (kf + bs.length) * 2^(t+1) = (2 * kf + 2 * bs.length) * 2^t := by ring
            rw [e2, e3] at this; exact this)
      rw [halves_flatten, ← e1] at hih
      rw [hih]
      congr 1
      funext x
      ring
    · intro b hb
      obtain ⟨c, hc, rfl⟩ := List.mem_map.mp hb
      rw [List.length_map, ilayerBlocks_lengths w (2^m) (kf + bs.length) _ (fun b hb => by rw [(hmem b hb).1, h2]) c hc, h2]

end DV.NttRev
