import DilithiumVerif.Lemmas.VerifyTotal
/-
  Lemmas.KeygenTotal — key generation from any 32-byte seed completes without a fault (or the sampling budget of the
  model runs out) and returns keys of the standard sizes.
-/
namespace DV.Complete
open DV DV.NttSem DV.PolySem DV.VecSem DV.RoundSem DV.NttMul DV.NttZ DV.Ranges DV.Containers DV.ShakeSmall DV.ShakeTotal
open DV.SamplerTotal DV.DecodeTotal DV.HintCodec

theorem kg_facts : ∀ p ∈ allParams, p.l + p.k ≤ 15 ∧ p.skBytes = 2 * SEEDBYTES + p.trBytes + (p.l + p.k) * p.polyeta + p.k * POLYT0 ∧
    p.pkBytes = SEEDBYTES + p.k * POLYT1 := by decide

set_option maxHeartbeats 1600000 in
theorem keygen_core_total (p : Params) (hp : p ∈ allParams) (seed : List Nat) :
    OkOrFuel (keygen_core p seed) (fun _ => True) := by
  have hq : Q = 8380417 := Q_val'
  obtain ⟨hl0, hl7, hk0, hk8, _⟩ := params_facts p hp
  have hS : SEEDBYTES = 32 := by decide
  have hC : CRHBYTES = 64 := by decide
  unfold keygen_core
  obtain ⟨seedbuf, hsb, lsb⟩ := shake256_small_total (2 * SEEDBYTES + CRHBYTES) (2 * SEEDBYTES + CRHBYTES) seed (by decide) (Nat.le_refl _)
  have hsb' : shake256n (2 * SEEDBYTES + CRHBYTES) seed = .ok seedbuf := hsb
  rw [hsb', ok_bind]
  dsimp only
  have hrho : (seedbuf.take SEEDBYTES).length = SEEDBYTES := by rw [List.length_take, lsb, hS, hC]; rfl
  have hrp : ((seedbuf.drop SEEDBYTES).take CRHBYTES).length = CRHBYTES := by
    rw [List.length_take, List.length_drop, lsb, hS, hC]; rfl
  apply OkOrFuel.bind (matrix_expand_total p FUEL _ hrho)
  intro mat hmat
  have hmatok : MatOK p mat := ⟨hmat.1, fun row hrow => ⟨(hmat.2 row hrow).1, fun a ha => (hmat.2 row hrow).2 a ha⟩⟩
  apply OkOrFuel.bind (vec_uniform_eta_total p.lvl FUEL _ hrp p.l 0 (Int.le_refl _) (by omega))
  intro s1 hs1
  apply OkOrFuel.bind (vec_uniform_eta_total p.lvl FUEL _ hrp p.k p.l (by omega) (by omega))
  intro s2 hs2
  obtain ⟨yh, wA, wB, wC, e1, e2, e3, e4, hwCl, hwCb, _⟩ := Av_sem p hp mat hmatok s1 5 (by omega) (by rw [hq]; omega) hs1.1
    (fun a ha => small_polyOK (hs1.2 a ha) 5 (by omega))
  rw [e1, ok_bind, e2, ok_bind, e3, ok_bind, e4, ok_bind]
  obtain ⟨tA, e5, r5⟩ := vec_add_sem (R := K) 4211199 5 (by omega) wC s2 (by rw [hwCl, hs2.1]) hwCb
    (fun a ha => small_polyOK (hs2.2 a ha) 5 (by omega))
  rw [e5, ok_bind]
  obtain ⟨t, e6, r6⟩ := vec_caddq_sem MK tA (r5.out (fun _ _ _ h => h.1.mono (by rw [hq]; omega)))
  rw [e6, ok_bind]
  obtain ⟨v1, v0, e7, _⟩ := k_power2round_sem t (r6.right (fun _ _ h => h.1))
  rw [e7, ok_bind]
  exact OkOrFuel.of_ok _ rfl trivial

set_option maxHeartbeats 1600000 in
/-- **Key generation is total.** From any 32-byte seed, for each of the six parameter sets, `keypair` completes without
    overflow or out-of-range access and returns a public key of PUBLICKEYBYTES and a secret key of SECRETKEYBYTES bytes. -/
theorem keypair_total (p : Params) (hp : p ∈ allParams) (seed : List Nat) (hs : seed.length = SEEDBYTES) (tape : Tape) :
    OkOrFuel (keypair p (some seed) tape) (fun r => r.1.length = p.pkBytes ∧ r.2.1.length = p.skBytes ∧ r.2.2 = tape) := by
  obtain ⟨hlk, hskb, hpkb⟩ := kg_facts p hp
  obtain ⟨_, htrR, _, _, _⟩ := e2e_facts p hp
  obtain ⟨hpe, _⟩ := Containers.sk_facts p hp
  have hS : SEEDBYTES = 32 := by decide
  have hT0 : POLYT0 = 416 := by decide
  unfold keypair
  simp only [hs, if_true, ok_bind]
  rcases keygen_core_total p hp (if p.mldsa then seed ++ [p.k % 256, p.l % 256] else seed) with ⟨⟨rho, key, s1, s2, t1, t0⟩, hcore, _⟩ | he
  swap
  · right; rw [he]; rfl
  rw [hcore, ok_bind]
  simp only
  obtain ⟨mat, hme, kf⟩ := keygen_facts p hp _ rho key s1 s2 t1 t0 hcore
  obtain ⟨hrl, hkl⟩ := keygen_core_lengths p _ rho key s1 s2 t1 t0 hcore
  obtain ⟨pk, hpk, hpkl, _⟩ := unpack_pack_pk p rho t1 hrl kf.t1l (fun a ha => kf.t1s a ha)
  rw [hpk, ok_bind]
  obtain ⟨tr, htr, ltr⟩ := shake256_small_total p.trBytes p.trBytes pk htrR (Nat.le_refl _)
  have htr' : shake256n p.trBytes pk = .ok tr := htr
  rw [htr', ok_bind]
  obtain ⟨sk, hsk, husk⟩ := unpack_pack_sk p hp rho tr key t0 s1 s2 hrl hkl ltr kf.s1l kf.s2l kf.t0l
    (fun a ha => by rw [etaB_eq]; exact kf.s1s a ha) (fun a ha => by rw [etaB_eq]; exact kf.s2s a ha) kf.t0s
  rw [hsk, ok_bind]
  refine OkOrFuel.of_ok _ rfl ⟨by rw [hpkl, hpkb], ?_, rfl⟩
  -- the secret key has the standard size: read it off the packing
  unfold pack_sk takeC at hsk
  simp only [hrl, hkl, ltr, Nat.le_refl, if_true, ok_bind] at hsk
  obtain ⟨e1, he1, hsk⟩ := bind_eq_ok.mp hsk
  obtain ⟨e2, he2, hsk⟩ := bind_eq_ok.mp hsk
  obtain ⟨e0, he0, hsk⟩ := bind_eq_ok.mp hsk
  injection hsk with hsk
  have l1 := mapL_rel_ok (eta_pack p.lvl) (fun a => a.length = 256 ∧ ∀ x ∈ a, -(Containers.etaB p.lvl) ≤ x ∧ x ≤ Containers.etaB p.lvl)
    (fun _ b => b.length = p.polyeta)
    (fun a b ha hb => by
      obtain ⟨b', hb', lb', _⟩ := eta_roundtrip p.lvl a ha.1 ha.2
      rw [hb] at hb'; injection hb' with hb'; subst hb'; rw [lb', hpe]) s1 e1
    (fun a ha => by rw [etaB_eq]; exact kf.s1s a ha) he1
  have l2 := mapL_rel_ok (eta_pack p.lvl) (fun a => a.length = 256 ∧ ∀ x ∈ a, -(Containers.etaB p.lvl) ≤ x ∧ x ≤ Containers.etaB p.lvl)
    (fun _ b => b.length = p.polyeta)
    (fun a b ha hb => by
      obtain ⟨b', hb', lb', _⟩ := eta_roundtrip p.lvl a ha.1 ha.2
      rw [hb] at hb'; injection hb' with hb'; subst hb'; rw [lb', hpe]) s2 e2
    (fun a ha => by rw [etaB_eq]; exact kf.s2s a ha) he2
  have l0 := mapL_rel_ok t0_pack (fun a => a.length = 256 ∧ ∀ x ∈ a, -4096 < x ∧ x ≤ 4096) (fun _ b => b.length = POLYT0)
    (fun a b ha hb => by
      obtain ⟨b', hb', lb', _⟩ := t0_roundtrip a ha.1 ha.2
      rw [hb] at hb'; injection hb' with hb'; subst hb'; rw [lb', hT0]) t0 e0 kf.t0s he0
  have f1 := flatten_length p.polyeta e1 (All2.right (B := fun (b : List Nat) => b.length = p.polyeta) (fun _ _ h => h) l1)
  have f2 := flatten_length p.polyeta e2 (All2.right (B := fun (b : List Nat) => b.length = p.polyeta) (fun _ _ h => h) l2)
  have f0 := flatten_length POLYT0 e0 (All2.right (B := fun (b : List Nat) => b.length = POLYT0) (fun _ _ h => h) l0)
  rw [← hsk]
  simp only [List.length_append, List.length_take, hrl, hkl, ltr, Nat.min_self, f1, f2, f0, l1.length, l2.length, l0.length,
    kf.s1l, kf.s2l, kf.t0l, hskb]
  rw [Nat.add_mul]; omega

end DV.Complete
