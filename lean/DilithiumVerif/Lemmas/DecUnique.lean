import DilithiumVerif.Lemmas.RoundSem
/-
  Lemmas.DecUnique — uniqueness of the decomposition: a value congruent to w1·2γ2 + r0 with 0 ≤ w1 < m and |r0| < γ2 has
  HighBits w1 and LowBits r0 (including the wrap-around corner w1 = 0, r0 < 0).
-/
namespace DV.RoundSem
open DV

theorem dec88_unique (w1 r0 : Int) (hw : 0 ≤ w1 ∧ w1 < 44) (hr : -95232 < r0 ∧ r0 < 95232) :
    dec88 ((w1 * 190464 + r0) % 8380417) = (r0, w1) := by
  have hr0 : 0 ≤ (w1 * 190464 + r0) % 8380417 ∧ (w1 * 190464 + r0) % 8380417 < 8380417 := by omega
  have hc := dec88_char _ hr0
  have hm : (w1 * 190464 + r0) % 8380417 = w1 * 190464 + r0 ∨ (w1 * 190464 + r0) % 8380417 = w1 * 190464 + r0 + 8380417 := by omega
  generalize (w1 * 190464 + r0) % 8380417 = r at *
  apply Prod.ext
  · show (dec88 r).1 = r0
    generalize (dec88 r).1 = x0 at *
    generalize (dec88 r).2 = x1 at *
    omega
  · show (dec88 r).2 = w1
    generalize (dec88 r).1 = x0 at *
    generalize (dec88 r).2 = x1 at *
    omega

theorem dec32_unique (w1 r0 : Int) (hw : 0 ≤ w1 ∧ w1 < 16) (hr : -261888 < r0 ∧ r0 < 261888) :
    dec32 ((w1 * 523776 + r0) % 8380417) = (r0, w1) := by
  have hr0 : 0 ≤ (w1 * 523776 + r0) % 8380417 ∧ (w1 * 523776 + r0) % 8380417 < 8380417 := by omega
  have hc := dec32_char _ hr0
  have hm : (w1 * 523776 + r0) % 8380417 = w1 * 523776 + r0 ∨ (w1 * 523776 + r0) % 8380417 = w1 * 523776 + r0 + 8380417 := by omega
  generalize (w1 * 523776 + r0) % 8380417 = r at *
  apply Prod.ext
  · show (dec32 r).1 = r0
    generalize (dec32 r).1 = x0 at *
    generalize (dec32 r).2 = x1 at *
    omega
  · show (dec32 r).2 = w1
    generalize (dec32 r).1 = x0 at *
    generalize (dec32 r).2 = x1 at *
    omega

/-- level-generic: Decompose of (w1·2γ2 + r0) mod q is (LowBits, HighBits) = (r0, w1) -/
theorem decompose_unique (lv : Lvl) (w1 r0 : Int) (hw : 0 ≤ w1 ∧ w1 < mOf lv) (hr : -(gamma2Of lv) < r0 ∧ r0 < gamma2Of lv) :
    decompose lv ((w1 * (2 * gamma2Of lv) + r0) % Q) = .ok (r0, w1) := by
  obtain ⟨g2, g3, g5⟩ := gamma2_vals
  have hq : Q = 8380417 := by decide
  cases lv with
  | l2 =>
    rw [g2] at hr ⊢
    rw [decompose88_eq _ (by rw [hq]; omega), hq]
    have := dec88_unique w1 r0 hw hr
    simp only [show (2 : Int) * 95232 = 190464 by decide]
    rw [this]
  | l3 =>
    rw [g3] at hr ⊢
    rw [decompose32_eq .l3 (Or.inl rfl) _ (by rw [hq]; omega), hq]
    have := dec32_unique w1 r0 hw hr
    simp only [show (2 : Int) * 261888 = 523776 by decide]
    rw [this]
  | l5 =>
    rw [g5] at hr ⊢
    rw [decompose32_eq .l5 (Or.inr rfl) _ (by rw [hq]; omega), hq]
    have := dec32_unique w1 r0 hw hr
    simp only [show (2 : Int) * 261888 = 523776 by decide]
    rw [this]

end DV.RoundSem
