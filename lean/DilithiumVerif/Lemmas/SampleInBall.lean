import DilithiumVerif.Lemmas.XofSpec
import DilithiumVerif.Lemmas.ChallengeWeight
import DilithiumVerif.Lemmas.Bits
/-
  Lemmas.SampleInBall — `poly::<set>::challenge` is SampleInBall (FIPS 204 Alg. 29) as a function of the SHAKE-256
  output stream of c̃, including when further stream blocks are needed.
-/
namespace DV.SampleInBall
open DV DV.EtaStream DV.XofSpec DV.Ranges

/-- Alg. 29 lines 7-10: the next stream byte j ≤ i (rejection sampling in {0, …, i}); returns j and the unread bytes -/
def sibNext (i : Nat) : List Nat → Option (Nat × List Nat)
  | [] => none
  | b :: rest => if b ≤ i then some (b, rest) else sibNext i rest

/-- Alg. 29 lines 6-13: for i from 256 − τ to 255: c_i ← c_j; c_j ← (−1)^{h[i+τ−256]}; the sign bits are read from
    `signs`, least significant first -/
def sibGo : Nat → Nat → List Int → Nat → List Nat → Option (List Int)
  | 0, _, c, _, _ => some c
  | n + 1, i, c, signs, bytes =>
    match sibNext i bytes with
    | none => none
    | some (j, rest) => sibGo n (i + 1) ((c.set i (c.getD j 0)).set j (1 - 2 * ((signs % 2 : Nat) : Int))) (signs / 2) rest

/-- little-endian value of a byte string -/
def leNat : List Nat → Nat
  | [] => 0
  | b :: rest => b + 256 * leNat rest

/-- SampleInBall on a finite prefix of the stream H(c̃): the first 8 bytes are the sign bits, the rest feeds the
    rejection sampling; `none` when the prefix is too short -/
def sampleInBall (tau : Nat) (stream : List Nat) : Option (List Int) :=
  sibGo tau (256 - tau) (List.replicate 256 0) (leNat (stream.take 8)) (stream.drop 8)

/-! ### more stream never changes the answer -/
theorem sibNext_append (i : Nat) : ∀ (A X : List Nat) (b : Nat) (rest : List Nat), sibNext i A = some (b, rest) →
    sibNext i (A ++ X) = some (b, rest ++ X)
  | [], _, _, _, h => by simp [sibNext] at h
  | a :: A, X, b, rest, h => by
      simp only [sibNext, List.cons_append] at h ⊢
      split
      · rename_i hle; rw [if_pos hle] at h; injection h with h; injection h with h1 h2; subst h1; subst h2; rfl
      · rename_i hle; rw [if_neg hle] at h; exact sibNext_append i A X b rest h

theorem sibGo_append : ∀ (n i : Nat) (c : List Int) (signs : Nat) (A X : List Nat) (r : List Int),
    sibGo n i c signs A = some r → sibGo n i c signs (A ++ X) = some r := by
  intro n
  induction n with
  | zero => intro i c signs A X r h; simpa [sibGo] using h
  | succ n ih =>
    intro i c signs A X r h
    unfold sibGo at h ⊢
    cases hn : sibNext i A with
    | none => rw [hn] at h; cases h
    | some v =>
      obtain ⟨j, rest⟩ := v
      rw [hn] at h
      rw [sibNext_append i A X j rest hn]
      exact ih _ _ _ _ X r h

/-! ### the model's loops against the stream -/

theorem stream_one_add' (s : Lanes) (k : Nat) : stream256 s (1 + k) = stream256 s 1 ++ stream256 (after256 s 1) k := by
  rw [Nat.add_comm]; exact stream_one_add keccakf R256 s k

theorem challenge_next_stream : ∀ (fuel i : Nat) (st : KeccakState) (buf : List Nat) (pos : Nat) (b : Nat) (st' : KeccakState)
    (buf' : List Nat) (pos' : Nat), challenge_next fuel i st buf pos = .ok (b, st', buf', pos') → buf.length = R256 → pos ≤ R256 →
    buf'.length = R256 ∧ pos' ≤ R256 ∧
    ∃ k, ∀ m, sibNext i (buf.drop pos ++ stream256 st.s (k + m)) = some (b, buf'.drop pos' ++ stream256 st'.s m) := by
  intro fuel
  induction fuel with
  | zero => intro i st buf pos b st' buf' pos' h; simp [challenge_next] at h
  | succ n ih =>
    intro i st buf pos b st' buf' pos' h hbl hpos
    unfold challenge_next at h
    by_cases hge : pos ≥ R256
    · -- refill
      rw [if_pos hge, sq_blocks256 R256 1 st (by omega)] at h
      simp only [ok_bind] at h
      have hnl : (stream256 st.s 1).length = R256 := by rw [stream256_len]; omega
      obtain ⟨x, hx, h⟩ := bind_eq_ok.mp h
      obtain ⟨hx0, hxv⟩ := getC_val _ 0 x 0 hx
      have hdrop : buf.drop pos = [] := List.drop_eq_nil_of_le (by omega)
      have hcons : stream256 st.s 1 = x :: (stream256 st.s 1).drop 1 := by
        cases hs : stream256 st.s 1 with
        | nil => rw [hs] at hx0; simp at hx0
        | cons y ys => rw [hs] at hxv; simp at hxv; subst hxv; rfl
      split at h
      · rename_i hle
        injection h with h; injection h with h1 h; injection h with h2 h; injection h with h3 h4
        subst h1; subst h2; subst h3; subst h4
        refine ⟨hnl, by omega, 1, fun m => ?_⟩
        rw [hdrop, List.nil_append, stream_one_add', hcons]
        simp only [List.cons_append, sibNext, if_pos hle]
        rfl
      · rename_i hle
        obtain ⟨l1, l2, k, hk⟩ := ih i _ _ _ b st' buf' pos' h hnl (by omega)
        refine ⟨l1, l2, 1 + k, fun m => ?_⟩
        rw [hdrop, List.nil_append, Nat.add_assoc, stream_one_add', hcons]
        simp only [List.cons_append, sibNext, if_neg hle]
        have := hk m
        simp only at this
        exact this
    · rw [if_neg hge] at h
      simp only [ok_bind] at h
      obtain ⟨x, hx, h⟩ := bind_eq_ok.mp h
      obtain ⟨hx0, hxv⟩ := getC_val _ pos x 0 hx
      have hcons : buf.drop pos = x :: buf.drop (pos + 1) := by
        rw [List.drop_eq_getElem_cons hx0]
        congr 1
        rw [hxv, List.getD_eq_getElem?_getD, List.getElem?_eq_getElem hx0]; rfl
      split at h
      · rename_i hle
        injection h with h; injection h with h1 h; injection h with h2 h; injection h with h3 h4
        subst h1; subst h2; subst h3; subst h4
        refine ⟨hbl, by omega, 0, fun m => ?_⟩
        rw [hcons, Nat.zero_add]
        simp only [List.cons_append, sibNext, if_pos hle]
      · rename_i hle
        obtain ⟨l1, l2, k, hk⟩ := ih i st buf (pos + 1) b st' buf' pos' h hbl (by omega)
        refine ⟨l1, l2, k, fun m => ?_⟩
        rw [hcons]
        simp only [List.cons_append, sibNext, if_neg hle]
        exact hk m

theorem and_one_toNat (s : UInt64) : (s &&& 1).toNat = s.toNat % 2 := by
  rw [UInt64.toNat_and]
  exact Nat.and_one_is_mod _

theorem shr_one_toNat (s : UInt64) : (s >>> 1).toNat = s.toNat / 2 := by
  rw [UInt64.toNat_shiftRight]
  simp [Nat.shiftRight_eq_div_pow]

theorem challenge_go_stream (fuel : Nat) : ∀ (n i : Nat) (c : List Int) (signs : UInt64) (st : KeccakState) (buf : List Nat) (pos : Nat)
    (r : List Int), challenge_go fuel n i c signs st buf pos = .ok r → buf.length = R256 → pos ≤ R256 →
    ∃ k, ∀ m, sibGo n i c signs.toNat (buf.drop pos ++ stream256 st.s (k + m)) = some r := by
  intro n
  induction n with
  | zero => intro i c signs st buf pos r h _ _; simp [challenge_go] at h; subst h; exact ⟨0, fun _ => rfl⟩
  | succ n ih =>
    intro i c signs st buf pos r h hbl hpos
    unfold challenge_go at h
    obtain ⟨⟨b, st', buf', pos'⟩, hnext, h⟩ := bind_eq_ok.mp h
    simp only at h
    obtain ⟨cb, hcb, h⟩ := bind_eq_ok.mp h
    obtain ⟨c1, hc1, h⟩ := bind_eq_ok.mp h
    obtain ⟨c2, hc2, h⟩ := bind_eq_ok.mp h
    obtain ⟨_, hcbv⟩ := getC_val c b cb 0 hcb
    obtain ⟨_, e1⟩ := setC_val c i cb c1 hc1
    obtain ⟨_, e2⟩ := setC_val c1 b _ c2 hc2
    obtain ⟨l1, l2, k1, hk1⟩ := challenge_next_stream fuel i st buf pos b st' buf' pos' hnext hbl hpos
    obtain ⟨k2, hk2⟩ := ih (i + 1) c2 (signs >>> 1) st' buf' pos' r h l1 l2
    refine ⟨k1 + k2, fun m => ?_⟩
    unfold sibGo
    rw [Nat.add_assoc, hk1 (k2 + m)]
    simp only
    have := hk2 m
    rw [shr_one_toNat] at this
    rw [e2, e1, hcbv, and_one_toNat] at this
    exact this

/-- the 64 sign bits: the first 8 stream bytes, little endian -/
theorem signs_toNat (b0 b1 b2 b3 b4 b5 b6 b7 : Nat) (rest : List Nat)
    (h0 : b0 < 256) (h1 : b1 < 256) (h2 : b2 < 256) (h3 : b3 < 256) (h4 : b4 < 256) (h5 : b5 < 256) (h6 : b6 < 256) (h7 : b7 < 256) :
    ((List.range 8).foldl (fun (acc : UInt64) i =>
        acc ||| ((UInt64.ofNat ((b0 :: b1 :: b2 :: b3 :: b4 :: b5 :: b6 :: b7 :: rest).getD i 0)) <<< (UInt64.ofNat (8 * i)))) 0).toNat
      = leNat [b0, b1, b2, b3, b4, b5, b6, b7] := by
  have hr : List.range 8 = [0, 1, 2, 3, 4, 5, 6, 7] := by decide
  rw [hr]
  simp only [List.foldl_cons, List.foldl_nil, List.getD_cons_zero, List.getD_cons_succ, leNat]
  simp only [UInt64.toNat_or, UInt64.toNat_shiftLeft, UInt64.toNat_ofNat', UInt64.toNat_zero, Nat.zero_or, Nat.mul_zero,
    Nat.mul_one, Nat.reduceMul, Nat.reduceMod, Nat.reducePow, Nat.shiftLeft_eq, Nat.mod_eq_of_lt (Nat.lt_trans h0 (by decide : 256 < 18446744073709551616)),
    Nat.mod_eq_of_lt (Nat.lt_trans h1 (by decide : 256 < 18446744073709551616)), Nat.mod_eq_of_lt (Nat.lt_trans h2 (by decide : 256 < 18446744073709551616)),
    Nat.mod_eq_of_lt (Nat.lt_trans h3 (by decide : 256 < 18446744073709551616)), Nat.mod_eq_of_lt (Nat.lt_trans h4 (by decide : 256 < 18446744073709551616)),
    Nat.mod_eq_of_lt (Nat.lt_trans h5 (by decide : 256 < 18446744073709551616)), Nat.mod_eq_of_lt (Nat.lt_trans h6 (by decide : 256 < 18446744073709551616)),
    Nat.mod_eq_of_lt (Nat.lt_trans h7 (by decide : 256 < 18446744073709551616))]
  have M : (18446744073709551616 : Nat) = 2 ^ 64 := by decide
  rw [Nat.mod_eq_of_lt (by omega : b1 * 256 < 18446744073709551616), Nat.mod_eq_of_lt (by omega : b2 * 65536 < 18446744073709551616),
    Nat.mod_eq_of_lt (by omega : b3 * 16777216 < 18446744073709551616), Nat.mod_eq_of_lt (by omega : b4 * 4294967296 < 18446744073709551616),
    Nat.mod_eq_of_lt (by omega : b5 * 1099511627776 < 18446744073709551616), Nat.mod_eq_of_lt (by omega : b6 * 281474976710656 < 18446744073709551616),
    Nat.mod_eq_of_lt (by omega : b7 * 72057594037927936 < 18446744073709551616)]
  rw [or_eq_add b0 (b1 * 256) 8 (by omega) (by omega)]
  rw [or_eq_add (b0 + b1 * 256) (b2 * 65536) 16 (by omega) (by omega)]
  rw [or_eq_add (b0 + b1 * 256 + b2 * 65536) (b3 * 16777216) 24 (by omega) (by omega)]
  rw [or_eq_add (b0 + b1 * 256 + b2 * 65536 + b3 * 16777216) (b4 * 4294967296) 32 (by omega) (by omega)]
  rw [or_eq_add (b0 + b1 * 256 + b2 * 65536 + b3 * 16777216 + b4 * 4294967296) (b5 * 1099511627776) 40 (by omega) (by omega)]
  rw [or_eq_add (b0 + b1 * 256 + b2 * 65536 + b3 * 16777216 + b4 * 4294967296 + b5 * 1099511627776) (b6 * 281474976710656) 48 (by omega) (by omega)]
  rw [or_eq_add (b0 + b1 * 256 + b2 * 65536 + b3 * 16777216 + b4 * 4294967296 + b5 * 1099511627776 + b6 * 281474976710656)
    (b7 * 72057594037927936) 56 (by omega) (by omega)]
  omega

theorem list_len_ge8 (l : List Nat) (h : 8 ≤ l.length) : ∃ b0 b1 b2 b3 b4 b5 b6 b7 rest, l = b0 :: b1 :: b2 :: b3 :: b4 :: b5 :: b6 :: b7 :: rest := by
  match l, h with
  | b0 :: b1 :: b2 :: b3 :: b4 :: b5 :: b6 :: b7 :: rest, _ => exact ⟨b0, b1, b2, b3, b4, b5, b6, b7, rest, rfl⟩

/-- c is SampleInBall of the SHAKE-256 stream of the seed: some finite prefix of the stream suffices and yields c -/
def IsSampleInBall (tau : Nat) (seed : List Nat) (c : List Int) : Prop :=
  ∃ n, ∀ m, sampleInBall tau (SHAKE256 seed ((n + m) * R256)) = some c

/-- **`poly::<set>::challenge` is SampleInBall of H(c̃)**, for every seed on which it returns, however many stream blocks
    the rejection loop consumed -/
theorem poly_challenge_is_sampleInBall (p : Params) (fuel : Nat) (seed : List Nat) (c : List Int) (hl : seed.length = p.ctilde)
    (h : poly_challenge p fuel seed = .ok c) : IsSampleInBall p.tau seed c := by
  have hN : N = 256 := by decide
  have hR : R256 = 136 := by decide
  unfold poly_challenge at h
  unfold shake256_absorb at h
  rw [← hl, keccak_absorb_eq keccakf R256 KeccakState.init seed (by decide), ok_bind] at h
  have hip : KeccakState.init.pos = 0 := rfl
  rw [hip] at h
  obtain ⟨st2, hfin, _, hsp⟩ := finalize256_of_spec seed
  rw [hfin, ok_bind, sq_blocks256 R256 1 st2 (by omega)] at h
  simp only [ok_bind] at h
  have hbl : (stream256 st2.s 1).length = R256 := by rw [stream256_len]; omega
  obtain ⟨k, hk⟩ := challenge_go_stream fuel p.tau (N - p.tau) _ _ _ _ 8 c h hbl (by rw [hR]; omega)
  refine ⟨1 + k, fun m => ?_⟩
  simp only at hk
  -- the stream prefix
  have hS : SHAKE256 seed ((1 + k + m) * R256) = stream256 st2.s 1 ++ stream256 (after256 st2.s 1) (k + m) := by
    rw [← stream_one_add', ← Nat.add_assoc]
    unfold stream256 streamOf SHAKE256
    rw [squeezeblocks_loop_eq keccakf R256 (by decide) (by decide) (1 + k + m) [] st2.s]
    simp only [List.nil_append]
    rw [squeeze_from_final R256 (by decide), hsp]
  obtain ⟨b0, b1, b2, b3, b4, b5, b6, b7, rest, hbuf⟩ := list_len_ge8 (stream256 st2.s 1) (by rw [hbl, hR]; omega)
  have hbytes : ∀ b ∈ stream256 st2.s 1, b < 256 := by
    have := squeezeblocks_loop_bytes keccakf R256 1 [] st2.s (by intro b hb; cases hb)
    exact this
  rw [hbuf] at hbytes
  unfold sampleInBall
  rw [hS]
  have e8 : (stream256 st2.s 1 ++ stream256 (after256 st2.s 1) (k + m)).take 8 = [b0, b1, b2, b3, b4, b5, b6, b7] := by
    rw [hbuf]; rfl
  have ed : (stream256 st2.s 1 ++ stream256 (after256 st2.s 1) (k + m)).drop 8 = (stream256 st2.s 1).drop 8 ++ stream256 (after256 st2.s 1) (k + m) := by
    rw [hbuf]; rfl
  rw [e8, ed]
  have hsg := signs_toNat b0 b1 b2 b3 b4 b5 b6 b7 rest (hbytes b0 (by simp)) (hbytes b1 (by simp)) (hbytes b2 (by simp))
    (hbytes b3 (by simp)) (hbytes b4 (by simp)) (hbytes b5 (by simp)) (hbytes b6 (by simp)) (hbytes b7 (by simp))
  have := hk m
  rw [hN] at this
  rw [← hsg, ← hbuf]
  exact this

/-- SampleInBall is a function of the seed: two results for the same seed and weight coincide -/
theorem IsSampleInBall_unique (tau : Nat) (seed : List Nat) (c c' : List Int) (h : IsSampleInBall tau seed c) (h' : IsSampleInBall tau seed c') :
    c = c' := by
  obtain ⟨n, hn⟩ := h
  obtain ⟨n', hn'⟩ := h'
  have a := hn n'
  have b := hn' n
  rw [Nat.add_comm n' n] at b
  rw [a] at b
  injection b

end DV.SampleInBall
