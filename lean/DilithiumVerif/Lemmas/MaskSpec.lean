import DilithiumVerif.Lemmas.XofSpec
import DilithiumVerif.Lemmas.DecodeSpec
/-
  Lemmas.MaskSpec — ExpandMask (FIPS 204 Alg. 34): `poly::<set>::uniform_gamma1` returns the polynomial whose
  BitPack(·, γ1 − 1, γ1) is the first 32·bitlen bytes of SHAKE-256(ρ″ ‖ IntegerToBytes(nonce, 2)).
-/
namespace DV.MaskSpec
open DV DV.XofSpec DV.BitSpec DV.EncodeSpec DV.DecodeSpec DV.Ranges DV.EtaStream DV.Containers

theorem stream_bytes (s : Lanes) (n : Nat) : ∀ b ∈ stream256 s n, b < 256 :=
  squeezeblocks_loop_bytes keccakf R256 n [] s (by intro b hb; cases hb)

theorem gamma1_blocks (lv : Lvl) : polyzOf lv ≤ UNIFORM_GAMMA1_NBLOCKS lv * R256 := by cases lv <;> decide

/-- **ExpandMask, one polynomial** -/
theorem poly_uniform_gamma1_spec (lv : Lvl) (seed : List Nat) (nonce : Nat) (y : List Int) (hl : seed.length = CRHBYTES)
    (h : poly_uniform_gamma1 lv seed nonce = .ok y) :
    y.length = 256 ∧ (∀ x ∈ y, -(gamma1Of lv) < x ∧ x ≤ gamma1Of lv) ∧
      bitPack y (gamma1Of lv) (zBits lv) = SHAKE256 (seed ++ [nonce % 256, (nonce / 256) % 256]) (polyzOf lv) := by
  unfold poly_uniform_gamma1 at h
  obtain ⟨st, hst, h⟩ := bind_eq_ok.mp h
  rw [sq_blocks256 _ (UNIFORM_GAMMA1_NBLOCKS lv) st (Nat.le_refl _), ok_bind] at h
  simp only at h
  have hblk := gamma1_blocks lv
  have hlen : polyzOf lv ≤ (stream256 st.s (UNIFORM_GAMMA1_NBLOCKS lv)).length := by rw [stream256_len]; exact hblk
  rw [z_unpack_take lv _ hlen] at h
  obtain ⟨r, hr, hrl, hrr, hsp⟩ := z_unpack_spec lv ((stream256 st.s (UNIFORM_GAMMA1_NBLOCKS lv)).take (polyzOf lv))
    (by rw [List.length_take, Nat.min_eq_left hlen]) (fun b hb => stream_bytes _ _ b (List.mem_of_mem_take hb))
  rw [h] at hr; injection hr with hr; subst hr
  refine ⟨hrl, hrr, ?_⟩
  rw [hsp, stream256_spec seed nonce st hl hst]
  obtain ⟨d, hd⟩ : ∃ d, UNIFORM_GAMMA1_NBLOCKS lv * R256 = polyzOf lv + d := ⟨_, (Nat.add_sub_cancel' hblk).symm⟩
  rw [hd, SHAKE256_prefix]

/-- the polynomial is determined by the bytes: BitPack is injective on (−γ1, γ1]^256 -/
theorem bitPack_z_injective (lv : Lvl) (y y' : List Int) (hl : y.length = 256) (hl' : y'.length = 256)
    (hr : ∀ x ∈ y, -(gamma1Of lv) < x ∧ x ≤ gamma1Of lv) (hr' : ∀ x ∈ y', -(gamma1Of lv) < x ∧ x ≤ gamma1Of lv)
    (h : bitPack y (gamma1Of lv) (zBits lv) = bitPack y' (gamma1Of lv) (zBits lv)) : y = y' := by
  obtain ⟨b, hb, _, hub⟩ := z_roundtrip lv y hl hr
  obtain ⟨b', hb', _, hub'⟩ := z_roundtrip lv y' hl' hr'
  rw [z_pack_spec lv y hl hr] at hb; injection hb with hb
  rw [z_pack_spec lv y' hl' hr'] at hb'; injection hb' with hb'
  rw [← hb, h, hb', hub'] at hub
  injection hub with hub
  exact hub.symm

end DV.MaskSpec
