import DilithiumVerif.Lemmas.ShakeTotal
/-
  Lemmas.OneShot — the one-shot interface agrees with the incremental one:
  shake256(out, in) = init; absorb(in); finalize; squeeze(out), for every input and every output length.
-/
namespace DV.OneShot
open DV DV.ShakeSmall DV.ShakeTotal

/-- the block loop of `absorb_once` leaves exactly the state and tail that the incremental absorb keeps -/
theorem once_loop_spec (f : Lanes → Lanes) (r : Nat) (hr : 0 < r) : ∀ (n fuel : Nat) (s : Lanes) (input : List Nat),
    input.length = n → n + 1 ≤ fuel →
    ∃ s' rest, keccak_absorb_once_loop f r fuel s input n = .ok (s', rest, rest.length) ∧ rest.length < r ∧
      absorbSpec f r s 0 input = { s := xorBytes s' 0 rest, pos := rest.length } := by
  intro n
  induction n using Nat.strongRecOn with
  | _ n ih =>
    intro fuel s input hl hf
    obtain ⟨fuel', rfl⟩ : ∃ m, fuel = m + 1 := ⟨fuel - 1, by omega⟩
    unfold keccak_absorb_once_loop
    by_cases hge : n ≥ r
    · rw [if_pos hge]
      unfold takeC
      rw [if_pos (by omega), ok_bind]
      obtain ⟨s', rest, h1, h2, h3⟩ := ih (n - r) (by omega) fuel' (f (xorBytes s 0 (input.take r))) (input.drop r)
        (by rw [List.length_drop, hl]) (by omega)
      refine ⟨s', rest, h1, h2, ?_⟩
      rw [absorbSpec_block f r s 0 input ⟨hr, by rw [hl]; omega⟩, Nat.sub_zero]
      exact h3
    · rw [if_neg hge]
      refine ⟨s, input, by rw [hl], by omega, ?_⟩
      rw [absorbSpec_tail f r s 0 input (by rw [hl]; omega), Nat.zero_add]

/-- one-shot absorb = incremental absorb from the initial state, then finalize (rates that are multiples of 8) -/
theorem absorb_once_eq (f : Lanes → Lanes) (r : Nat) (hr : 0 < r) (h8 : r % 8 = 0) (hr200 : r ≤ 200) (inp : List Nat) (p : Nat) :
    keccak_absorb_once f r inp inp.length p =
      (keccak_absorb f r KeccakState.init inp inp.length >>= fun st => keccak_finalize st.s st.pos r p) := by
  rw [keccak_absorb_eq f r KeccakState.init inp (by rw [init_pos]; exact hr), ok_bind]
  unfold keccak_absorb_once
  obtain ⟨s', rest, h1, h2, h3⟩ := once_loop_spec f r hr inp.length (inp.length + 2) (Array.replicate 25 0) inp rfl (by omega)
  rw [h1, ok_bind]
  simp only
  unfold takeC
  rw [if_pos (Nat.le_refl _), ok_bind, List.take_length]
  have hs : KeccakState.init.s = Array.replicate 25 0 := rfl
  have hp : KeccakState.init.pos = 0 := rfl
  rw [hs, hp, h3]
  unfold keccak_finalize
  simp only
  rw [if_pos ⟨by omega, by omega, by omega⟩]
  have e : (r - 1) / 8 = r / 8 - 1 := by omega
  rw [e]

theorem shake256_absorb_once_eq (inp : List Nat) :
    shake256_absorb_once inp inp.length = (shake256_absorb KeccakState.init inp inp.length >>= shake256_finalize) := by
  unfold shake256_absorb_once shake256_absorb shake256_finalize
  rw [absorb_once_eq keccakf R256 (by decide) (by decide) (by decide) inp 0x1F]
  cases keccak_absorb keccakf R256 KeccakState.init inp inp.length with
  | error e => rfl
  | ok st => rfl

/-- **One-shot = incremental**, short outputs: `shake256(out[..n], in)` is init, absorb, finalize, squeeze n. -/
theorem shake256_oneshot_eq_incremental (n : Nat) (inp : List Nat) (hn : n < R256) :
    shake256 n n inp inp.length =
      (shake256_absorb KeccakState.init inp inp.length >>= fun st => shake256_finalize st >>= fun st =>
        shake256_squeeze n n st >>= fun r => .ok r.1) := by
  rw [shake256_small n n inp inp.length hn (Nat.le_refl _), shake256_absorb_once_eq]
  obtain ⟨st1, h1, p1⟩ := absorb256_total KeccakState.init inp (by rw [init_pos]; decide)
  rw [h1, ok_bind, ok_bind]
  obtain ⟨st2, h2, p2⟩ := finalize256_total st1 p1
  rw [h2, ok_bind, ok_bind]
  have hsq : shake256_squeeze n n st2 = .ok ((squeezeSpec keccakf R256 st2.s st2.pos n).1,
      { s := (squeezeSpec keccakf R256 st2.s st2.pos n).2.1, pos := (squeezeSpec keccakf R256 st2.s st2.pos n).2.2 }) := by
    unfold shake256_squeeze keccak_squeeze
    rw [if_pos (Nat.le_refl _), ok_bind]
    rw [squeeze_loop_eq keccakf R256 (by decide) _ [] n st2.s st2.pos (by rw [p2]; exact Nat.le_refl _) (by omega)]
    simp only [List.nil_append]
  rw [hsq, ok_bind, p2]

end DV.OneShot
