import DilithiumVerif.Lemmas.ShakeTotal
import DilithiumVerif.Lemmas.Rej
/-
  Lemmas.SamplerTotal — the rejection samplers either return a well-formed polynomial or stop because the block budget
  (`fuel`, a parameter of the model; the Rust loops have none) is exhausted: they never fault.
-/
namespace DV.SamplerTotal
open DV DV.ShakeTotal DV.Ranges

/-- `x` succeeds with a value satisfying P, or stops for lack of fuel -/
def OkOrFuel {α} (x : Chk α) (P : α → Prop) : Prop := (∃ a, x = .ok a ∧ P a) ∨ x = .error .fuel

theorem OkOrFuel.bind {α β} {x : Chk α} {P : α → Prop} {f : α → Chk β} {Q : β → Prop}
    (hx : OkOrFuel x P) (hf : ∀ a, P a → OkOrFuel (f a) Q) : OkOrFuel (x >>= f) Q := by
  rcases hx with ⟨a, ha, hp⟩ | he
  · rw [ha, ok_bind]; exact hf a hp
  · right; rw [he]; rfl

theorem OkOrFuel.of_ok {α} {x : Chk α} {P : α → Prop} (a : α) (h : x = .ok a) (hp : P a) : OkOrFuel x P := Or.inl ⟨a, h, hp⟩

theorem OkOrFuel.mono {α} {x : Chk α} {P Q : α → Prop} (h : OkOrFuel x P) (hpq : ∀ a, P a → Q a) : OkOrFuel x Q := by
  rcases h with ⟨a, ha, hp⟩ | he
  · exact Or.inl ⟨a, ha, hpq a hp⟩
  · exact Or.inr he

/-! ### challenge -/

theorem challenge_next_total : ∀ (fuel i : Nat) (st : KeccakState) (buf : List Nat) (pos : Nat), buf.length = R256 → pos ≤ R256 →
    OkOrFuel (challenge_next fuel i st buf pos) (fun r => r.1 ≤ i ∧ r.2.2.1.length = R256 ∧ r.2.2.2 ≤ R256) := by
  intro fuel
  induction fuel with
  | zero => intro i st buf pos _ _; right; rfl
  | succ n ih =>
    intro i st buf pos hb hp
    unfold challenge_next
    have hstep : ∀ (st' : KeccakState) (buf' : List Nat) (pos' : Nat), buf'.length = R256 → pos' < R256 →
        OkOrFuel (do
          let b ← getC buf' pos'
          if b ≤ i then (Except.ok (b, st', buf', pos' + 1) : Chk _) else challenge_next n i st' buf' (pos' + 1))
          (fun r => r.1 ≤ i ∧ r.2.2.1.length = R256 ∧ r.2.2.2 ≤ R256) := by
      intro st' buf' pos' hb' hp'
      rw [getC_ok buf' pos' 0 (by rw [hb']; exact hp'), ok_bind]
      split
      · rename_i hle
        exact OkOrFuel.of_ok _ rfl ⟨hle, hb', by show pos' + 1 ≤ R256; omega⟩
      · exact ih i st' buf' (pos' + 1) hb' (by omega)
    by_cases hge : pos ≥ R256
    · rw [if_pos hge]
      obtain ⟨nb, st', h1, h2, _, _⟩ := squeezeblocks256_total R256 1 st (by omega)
      rw [h1, ok_bind, ok_bind]
      simp only
      exact hstep st' nb 0 (by rw [h2]; omega) (by decide)
    · rw [if_neg hge, ok_bind]
      simp only
      exact hstep st buf pos hb (by omega)

theorem setC_ok' {α} (l : List α) (i : Nat) (x : α) (h : i < l.length) : setC l i x = .ok (l.set i x) := by
  unfold setC; rw [if_pos h]

theorem challenge_go_total (fuel : Nat) : ∀ (n i : Nat) (c : List Int) (signs : UInt64) (st : KeccakState) (buf : List Nat) (pos : Nat),
    c.length = 256 → i + n ≤ 256 → buf.length = R256 → pos ≤ R256 →
    OkOrFuel (challenge_go fuel n i c signs st buf pos) (fun _ => True) := by
  intro n
  induction n with
  | zero => intro i c signs st buf pos _ _ _ _; exact OkOrFuel.of_ok c rfl trivial
  | succ n ih =>
    intro i c signs st buf pos hc hi hb hp
    unfold challenge_go
    apply OkOrFuel.bind (challenge_next_total fuel i st buf pos hb hp)
    intro ⟨b, st', buf', pos'⟩ ⟨hbi, hb', hp'⟩
    simp only at hbi hb' hp' ⊢
    rw [getC_ok c b 0 (by omega), ok_bind, setC_ok' c i _ (by omega), ok_bind,
      setC_ok' _ b _ (by rw [List.length_set]; omega), ok_bind]
    exact ih (i + 1) _ _ st' buf' pos' (by rw [List.length_set, List.length_set]; exact hc) (by omega) hb' hp'

theorem challenge_facts : ∀ p ∈ allParams, p.tau ≤ 256 ∧ N = 256 := by decide

theorem poly_challenge_total (p : Params) (hp : p ∈ allParams) (fuel : Nat) (seed : List Nat) (hs : seed.length = p.ctilde) :
    OkOrFuel (poly_challenge p fuel seed) Tern := by
  obtain ⟨htau, hN⟩ := challenge_facts p hp
  have key : OkOrFuel (poly_challenge p fuel seed) (fun _ => True) := by
    unfold poly_challenge
    obtain ⟨st1, h1, p1⟩ := absorb256_total KeccakState.init seed (by rw [init_pos]; decide)
    rw [← hs, h1, ok_bind]
    obtain ⟨st2, h2, p2⟩ := finalize256_total st1 p1
    rw [h2, ok_bind]
    obtain ⟨buf, st3, h3, l3, _, _⟩ := squeezeblocks256_total R256 1 st2 (by omega)
    rw [h3, ok_bind]
    simp only
    exact challenge_go_total fuel _ _ _ _ st3 buf 8 (by rw [List.length_replicate, hN]) (by rw [hN]; omega) (by rw [l3]; omega) (by decide)
  rcases key with ⟨c, hc, _⟩ | he
  · exact Or.inl ⟨c, hc, challenge_tern p fuel seed c hc⟩
  · exact Or.inr he

end DV.SamplerTotal

namespace DV.SamplerTotal
open DV DV.ShakeTotal DV.Ranges

/-! ### uniform sampling of the matrix entries -/

theorem blit_ok {α} (dst : List α) (off : Nat) (src : List α) (h : off + src.length ≤ dst.length) :
    ∃ r, blit dst off src = .ok r ∧ r.length = dst.length := by
  unfold blit
  rw [if_pos h]
  refine ⟨_, rfl, ?_⟩
  simp only [List.length_append, List.length_take, List.length_drop]
  omega

theorem stream_init128_total (seed : List Nat) (nonce : Nat) (hs : seed.length = SEEDBYTES) :
    ∃ st, shake128_stream_init seed nonce = .ok st ∧ st.pos = R128 := by
  unfold shake128_stream_init
  obtain ⟨st1, h1, p1⟩ := absorb128_total KeccakState.init seed (by rw [init_pos]; decide)
  rw [← hs, h1, ok_bind]
  obtain ⟨st2, h2, p2⟩ := absorb128_total st1 [nonce % 256, (nonce / 256) % 256] p1
  have : ([nonce % 256, (nonce / 256) % 256] : List Nat).length = 2 := rfl
  rw [this] at h2
  rw [h2, ok_bind]
  exact finalize128_total st2 p2

theorem uniform_consts : UNIFORM_NBLOCKS = 5 ∧ R128 = 168 ∧ N = 256 := by decide

theorem uniform_loop_total : ∀ (fuel : Nat) (st : KeccakState) (buf : List Nat) (buflen : Nat) (acc : List Int),
    buf.length = 842 → buflen ≤ 842 → OkOrFuel (uniform_loop fuel st buf buflen acc) (fun _ => True) := by
  obtain ⟨_, hR, hN⟩ := uniform_consts
  intro fuel
  induction fuel with
  | zero => intro st buf buflen acc _ _; right; rfl
  | succ n ih =>
    intro st buf buflen acc hb hl
    unfold uniform_loop
    by_cases hlt : acc.length < N
    · rw [if_pos hlt]
      dsimp only
      have hoff : buflen % 3 < 3 := Nat.mod_lt _ (by decide)
      have hoffle : buflen % 3 ≤ buflen := Nat.mod_le _ _
      have hsl : sliceC buf (buflen - buflen % 3) buflen = .ok ((buf.drop (buflen - buflen % 3)).take (buflen - (buflen - buflen % 3))) := by
        unfold sliceC; rw [if_pos ⟨by omega, by omega⟩]
      rw [hsl, ok_bind]
      have htl : ((buf.drop (buflen - buflen % 3)).take (buflen - (buflen - buflen % 3))).length = buflen % 3 := by
        rw [List.length_take, List.length_drop]; omega
      obtain ⟨buf1, hb1, l1⟩ := blit_ok buf 0 _ (by rw [htl]; omega)
      rw [hb1, ok_bind]
      obtain ⟨blk, st1, hsq, lblk, _⟩ := squeezeblocks128_total (buf1.length - buflen % 3) 1 st (by rw [l1, hb, hR]; omega)
      rw [hsq, ok_bind]
      simp only
      obtain ⟨buf2, hb2, l2⟩ := blit_ok buf1 (buflen % 3) blk (by rw [lblk, l1, hb, hR]; omega)
      rw [hb2, ok_bind]
      rw [rej_uniform_eq _ _ buf2 (R128 + buflen % 3) (by rw [l2, l1, hb, hR]; omega) (Nat.le_refl _), ok_bind]
      exact ih st1 buf2 (R128 + buflen % 3) _ (by rw [l2, l1, hb]) (by rw [hR]; omega)
    · rw [if_neg hlt]
      exact OkOrFuel.of_ok acc rfl trivial

theorem poly_uniform_total (fuel : Nat) (seed : List Nat) (nonce : Nat) (hs : seed.length = SEEDBYTES) :
    OkOrFuel (poly_uniform fuel seed nonce) (fun r => r.length = 256 ∧ ∀ x ∈ r, 0 ≤ x ∧ x < Q) := by
  obtain ⟨hNB, hR, hN⟩ := uniform_consts
  have key : OkOrFuel (poly_uniform fuel seed nonce) (fun _ => True) := by
    unfold poly_uniform
    obtain ⟨st, h1, _⟩ := stream_init128_total seed nonce hs
    rw [h1, ok_bind]
    dsimp only
    obtain ⟨blk, st1, hsq, lblk, _⟩ := squeezeblocks128_total (UNIFORM_NBLOCKS * R128 + 2) UNIFORM_NBLOCKS st (by omega)
    rw [hsq, ok_bind]
    simp only
    have hbl : (blk ++ List.replicate (UNIFORM_NBLOCKS * R128 + 2 - blk.length) 0).length = 842 := by
      rw [List.length_append, List.length_replicate, lblk, hNB, hR]
    rw [rej_uniform_eq _ _ _ (UNIFORM_NBLOCKS * R128) (by rw [hbl, hNB, hR]; omega) (Nat.le_refl _), ok_bind]
    exact uniform_loop_total fuel st1 _ _ _ hbl (by rw [hNB, hR]; omega)
  rcases key with ⟨r, hr, _⟩ | he
  · exact Or.inl ⟨r, hr, poly_uniform_std fuel seed nonce r hr⟩
  · exact Or.inr he

theorem mapL_okOrFuel {α β} (f : α → Chk β) (P : β → Prop) : ∀ (l : List α), (∀ x ∈ l, OkOrFuel (f x) P) →
    OkOrFuel (mapL f l) (fun r => r.length = l.length ∧ ∀ y ∈ r, P y)
  | [], _ => OkOrFuel.of_ok [] rfl ⟨rfl, by intro y hy; cases hy⟩
  | x :: xs, h => by
      unfold mapL
      apply OkOrFuel.bind (h x (List.mem_cons_self ..))
      intro y hy
      apply OkOrFuel.bind (mapL_okOrFuel f P xs (fun z hz => h z (List.mem_cons_of_mem _ hz)))
      intro ys hys
      exact OkOrFuel.of_ok _ rfl ⟨by simp [hys.1], fun z hz => by
        rcases List.mem_cons.mp hz with rfl | hz
        · exact hy
        · exact hys.2 z hz⟩

theorem matrix_expand_total (p : Params) (fuel : Nat) (rho : List Nat) (hr : rho.length = SEEDBYTES) :
    OkOrFuel (matrix_expand p fuel rho) (fun mat => mat.length = p.k ∧ ∀ row ∈ mat, row.length = p.l ∧
      ∀ a ∈ row, a.length = 256 ∧ ∀ x ∈ a, 0 ≤ x ∧ x < Q) := by
  unfold matrix_expand forRange
  have := mapL_okOrFuel (fun i => mapL (fun j => poly_uniform fuel rho (asU16 ((i <<< 8) + j : Nat)).toNat) (List.range p.l))
    (fun (row : PolyVec) => row.length = p.l ∧ ∀ a ∈ row, a.length = 256 ∧ ∀ x ∈ a, 0 ≤ x ∧ x < Q) (List.range p.k)
    (fun i _ => by
      have := mapL_okOrFuel (fun j => poly_uniform fuel rho (asU16 ((i <<< 8) + j : Nat)).toNat)
        (fun (a : Poly) => a.length = 256 ∧ ∀ x ∈ a, 0 ≤ x ∧ x < Q) (List.range p.l)
        (fun j _ => poly_uniform_total fuel rho _ hr)
      exact this.mono (fun r hr' => ⟨by rw [hr'.1, List.length_range], hr'.2⟩))
  exact this.mono (fun r hr' => ⟨by rw [hr'.1, List.length_range], hr'.2⟩)

end DV.SamplerTotal

namespace DV.SamplerTotal
open DV DV.ShakeTotal DV.Ranges

/-! ### the eta sampler -/

theorem stream_init256_total (seed : List Nat) (nonce : Nat) (hs : seed.length = CRHBYTES) :
    ∃ st, shake256_stream_init seed nonce = .ok st ∧ st.pos = R256 := by
  unfold shake256_stream_init
  obtain ⟨st1, h1, p1⟩ := absorb256_total KeccakState.init seed (by rw [init_pos]; decide)
  rw [← hs, h1, ok_bind]
  obtain ⟨st2, h2, p2⟩ := absorb256_total st1 [nonce % 256, (nonce / 256) % 256] p1
  have : ([nonce % 256, (nonce / 256) % 256] : List Nat).length = 2 := rfl
  rw [this] at h2
  rw [h2, ok_bind]
  exact finalize256_total st2 p2

/-- a conditional push never overruns the output: capacity = requested length -/
theorem push_total (c : Prop) [Decidable c] (acc : List Int) (v : Int) (alen : Nat) (hc : c → acc.length < alen) :
    ∃ acc', (if c then (if acc.length < alen then (.ok (acc ++ [v]) : Chk (List Int)) else .error .oob) else .ok acc) = .ok acc' := by
  by_cases h : c
  · rw [if_pos h, if_pos (hc h)]; exact ⟨_, rfl⟩
  · rw [if_neg h]; exact ⟨_, rfl⟩

theorem rej_eta_loop_total (lv : Lvl) (alen : Nat) (buf : List Nat) (buflen : Nat) (hb : buflen ≤ buf.length) :
    ∀ (fuel pos : Nat) (acc : List Int), ∃ r, rej_eta_loop lv alen alen buf buflen fuel pos acc = .ok r := by
  intro fuel
  induction fuel with
  | zero => intro pos acc; exact ⟨acc, rfl⟩
  | succ n ih =>
    intro pos acc
    unfold rej_eta_loop
    by_cases hc : acc.length < alen ∧ pos < buflen
    · rw [if_pos hc, getC_ok buf pos 0 (by omega), ok_bind]
      simp only
      cases lv with
      | l3 =>
        simp only
        obtain ⟨a1, h1⟩ := push_total (buf.getD pos 0 &&& 0x0F < 9) acc ((4 : Int) - ((buf.getD pos 0 &&& 0x0F : Nat) : Int)) alen (fun _ => hc.1)
        rw [h1, ok_bind]
        obtain ⟨a2, h2⟩ := push_total (buf.getD pos 0 >>> 4 < 9 ∧ a1.length < alen) a1 ((4 : Int) - ((buf.getD pos 0 >>> 4 : Nat) : Int)) alen (fun h => h.2)
        rw [h2, ok_bind]
        exact ih _ _
      | l2 =>
        simp only
        obtain ⟨a1, h1⟩ := push_total (buf.getD pos 0 &&& 0x0F < 15) acc _ alen (fun _ => hc.1)
        rw [h1, ok_bind]
        obtain ⟨a2, h2⟩ := push_total (buf.getD pos 0 >>> 4 < 15 ∧ a1.length < alen) a1 _ alen (fun h => h.2)
        rw [h2, ok_bind]
        exact ih _ _
      | l5 =>
        simp only
        obtain ⟨a1, h1⟩ := push_total (buf.getD pos 0 &&& 0x0F < 15) acc _ alen (fun _ => hc.1)
        rw [h1, ok_bind]
        obtain ⟨a2, h2⟩ := push_total (buf.getD pos 0 >>> 4 < 15 ∧ a1.length < alen) a1 _ alen (fun h => h.2)
        rw [h2, ok_bind]
        exact ih _ _
    · rw [if_neg hc]; exact ⟨acc, rfl⟩

theorem eta_consts : UNIFORM_ETA_NBLOCKS = 1 ∧ R256 = 136 ∧ N = 256 := by decide

theorem uniform_eta_loop_total (lv : Lvl) : ∀ (fuel : Nat) (st : KeccakState) (acc : List Int),
    OkOrFuel (uniform_eta_loop lv fuel st acc) (fun _ => True) := by
  obtain ⟨hNB, hR, hN⟩ := eta_consts
  intro fuel
  induction fuel with
  | zero => intro st acc; right; rfl
  | succ n ih =>
    intro st acc
    unfold uniform_eta_loop
    by_cases hlt : acc.length < N
    · rw [if_pos hlt]
      obtain ⟨buf, st1, hsq, lb, _, _⟩ := squeezeblocks256_total (UNIFORM_ETA_NBLOCKS * R256) 1 st (by rw [hNB]; omega)
      rw [hsq, ok_bind]
      simp only
      obtain ⟨more, hm⟩ := rej_eta_loop_total lv (N - acc.length) buf R256 (by rw [lb]; omega) (R256 + 1) 0 []
      have : rej_eta lv (N - acc.length) (N - acc.length) buf R256 = .ok more := hm
      rw [this, ok_bind]
      exact ih st1 _
    · rw [if_neg hlt]; exact OkOrFuel.of_ok acc rfl trivial

theorem poly_uniform_eta_total (lv : Lvl) (fuel : Nat) (seed : List Nat) (nonce : Nat) (hs : seed.length = CRHBYTES) :
    OkOrFuel (poly_uniform_eta lv fuel seed nonce) (fun r => r.length = 256 ∧ SmallE (etaI lv) r) := by
  obtain ⟨hNB, hR, hN⟩ := eta_consts
  have key : OkOrFuel (poly_uniform_eta lv fuel seed nonce) (fun _ => True) := by
    unfold poly_uniform_eta
    obtain ⟨st, h1, _⟩ := stream_init256_total seed nonce hs
    rw [h1, ok_bind]
    obtain ⟨buf, st1, hsq, lb, _, _⟩ := squeezeblocks256_total (UNIFORM_ETA_NBLOCKS * R256) UNIFORM_ETA_NBLOCKS st (Nat.le_refl _)
    rw [hsq, ok_bind]
    simp only
    obtain ⟨acc, ha⟩ := rej_eta_loop_total lv N buf (UNIFORM_ETA_NBLOCKS * R256) (by rw [lb]; exact Nat.le_refl _) (UNIFORM_ETA_NBLOCKS * R256 + 1) 0 []
    have : rej_eta lv N N buf (UNIFORM_ETA_NBLOCKS * R256) = .ok acc := ha
    rw [this, ok_bind]
    exact uniform_eta_loop_total lv fuel st1 acc
  rcases key with ⟨r, hr, _⟩ | he
  · exact Or.inl ⟨r, hr, poly_uniform_eta_small lv fuel seed nonce r hr⟩
  · exact Or.inr he

theorem vec_uniform_eta_total (lv : Lvl) (fuel : Nat) (seed : List Nat) (hs : seed.length = CRHBYTES) : ∀ (n : Nat) (nonce : Int),
    0 ≤ nonce → nonce + n ≤ 65535 →
    OkOrFuel (vec_uniform_eta_go lv fuel seed n nonce) (fun v => v.length = n ∧ ∀ a ∈ v, a.length = 256 ∧ SmallE (etaI lv) a) := by
  intro n
  induction n with
  | zero => intro nonce _ _; exact OkOrFuel.of_ok [] rfl ⟨rfl, by intro a ha; cases ha⟩
  | succ n ih =>
    intro nonce h0 h1
    unfold vec_uniform_eta_go
    apply OkOrFuel.bind (poly_uniform_eta_total lv fuel seed nonce.toNat hs)
    intro a ha
    have hck : chkU16 (nonce + 1) = .ok (nonce + 1) := by
      unfold chkU16; rw [if_pos (by push_cast at h1; omega)]
    rw [hck, ok_bind]
    apply OkOrFuel.bind (ih (nonce + 1) (by omega) (by push_cast at h1 ⊢; omega))
    intro rest hrest
    exact OkOrFuel.of_ok _ rfl ⟨by simp [hrest.1], fun x hx => by
      rcases List.mem_cons.mp hx with rfl | hx
      · exact ha
      · exact hrest.2 x hx⟩

end DV.SamplerTotal
