import DilithiumVerif.Lemmas.Rej
import DilithiumVerif.Lemmas.Ranges
/-
  Lemmas.RejEta — the byte-level rejection routine `rej_eta` as a function of the byte list (FIPS 204 Alg. 15
  CoeffFromHalfByte applied to the two nibbles of each byte, low nibble first, stopping after `alen` values), for ANY buffer.
-/
namespace DV

/-- CoeffFromHalfByte: η = 2: b < 15 ↦ 2 − (b mod 5); η = 4: b < 9 ↦ 4 − b (the code computes b mod 5 as b − (205·b >> 10)·5) -/
def halfByte (lv : Lvl) (t : Nat) : Option Int :=
  match lv with
  | .l3 => if t < 9 then some ((4 : Int) - (t : Nat)) else none
  | _ => if t < 15 then some ((2 : Int) - ((t - ((205 * t) >>> 10) * 5 : Nat) : Int)) else none

theorem halfByte_mod5 (t : Nat) (h : t < 15) : (t - ((205 * t) >>> 10) * 5 : Nat) = t % 5 := by
  have : ∀ t : Fin 15, (t.val - ((205 * t.val) >>> 10) * 5 : Nat) = t.val % 5 := by decide
  exact this ⟨t, h⟩

def pushOpt (acc : List Int) (v : Option Int) : List Int :=
  match v with
  | some x => acc ++ [x]
  | none => acc

/-- one byte: low nibble, then (if there is still room) high nibble -/
def etaStep (lv : Lvl) (alen : Nat) (b : Nat) (acc : List Int) : List Int :=
  let a1 := pushOpt acc (halfByte lv (b &&& 0x0F))
  if a1.length < alen then pushOpt a1 (halfByte lv (b >>> 4)) else a1

def etaSpec (lv : Lvl) (alen : Nat) : List Nat → List Int → List Int
  | b :: rest, acc => if acc.length < alen then etaSpec lv alen rest (etaStep lv alen b acc) else acc
  | [], acc => acc

theorem body_gen (T : Nat) (m : Nat → Int) (alen t0 t1 : Nat) (acc : List Int) (hlt : acc.length < alen) (k : List Int → Chk (List Int)) :
    (do
      let acc ← (if t0 < T then (.ok (acc ++ [m t0]) : Chk (List Int)) else .ok acc)
      let acc ← (if t1 < T ∧ acc.length < alen then (if acc.length < alen then (.ok (acc ++ [m t1]) : Chk (List Int)) else .error .oob) else .ok acc)
      k acc) =
    k (if (if t0 < T then acc ++ [m t0] else acc).length < alen then
        (if t1 < T then (if t0 < T then acc ++ [m t0] else acc) ++ [m t1] else (if t0 < T then acc ++ [m t0] else acc))
       else (if t0 < T then acc ++ [m t0] else acc)) := by
  by_cases h0 : t0 < T
  · simp only [h0, if_true, ok_bind]
    by_cases h2 : (acc ++ [m t0]).length < alen
    · by_cases h1 : t1 < T
      · simp only [h1, h2, and_self, if_true, ok_bind]
      · simp only [h1, h2, false_and, if_false, if_true, ok_bind]
    · by_cases h1 : t1 < T
      · simp only [h1, h2, and_false, if_false, ok_bind]
      · simp only [h1, h2, and_false, if_false, ok_bind]
  · simp only [h0, if_false, ok_bind]
    by_cases h1 : t1 < T
    · simp only [h1, hlt, and_self, if_true, ok_bind]
    · simp only [h1, hlt, false_and, if_false, if_true, ok_bind]

theorem etaStep_l3 (alen b : Nat) (acc : List Int) : etaStep .l3 alen b acc =
    (if (if b &&& 0x0F < 9 then acc ++ [(4 : Int) - ((b &&& 0x0F : Nat) : Int)] else acc).length < alen then
      (if b >>> 4 < 9 then (if b &&& 0x0F < 9 then acc ++ [(4 : Int) - ((b &&& 0x0F : Nat) : Int)] else acc) ++ [(4 : Int) - ((b >>> 4 : Nat) : Int)]
        else (if b &&& 0x0F < 9 then acc ++ [(4 : Int) - ((b &&& 0x0F : Nat) : Int)] else acc))
     else (if b &&& 0x0F < 9 then acc ++ [(4 : Int) - ((b &&& 0x0F : Nat) : Int)] else acc)) := by
  simp only [etaStep, halfByte, pushOpt]
  by_cases h0 : b &&& 0x0F < 9 <;> by_cases h1 : b >>> 4 < 9 <;> simp [h0, h1]

theorem etaStep_2 (lv : Lvl) (hlv : lv = .l2 ∨ lv = .l5) (alen b : Nat) (acc : List Int) : etaStep lv alen b acc =
    (if (if b &&& 0x0F < 15 then acc ++ [(2 : Int) - (((b &&& 0x0F) - ((205 * (b &&& 0x0F)) >>> 10) * 5 : Nat) : Int)] else acc).length < alen then
      (if b >>> 4 < 15 then (if b &&& 0x0F < 15 then acc ++ [(2 : Int) - (((b &&& 0x0F) - ((205 * (b &&& 0x0F)) >>> 10) * 5 : Nat) : Int)] else acc)
          ++ [(2 : Int) - ((b >>> 4 - ((205 * (b >>> 4)) >>> 10) * 5 : Nat) : Int)]
        else (if b &&& 0x0F < 15 then acc ++ [(2 : Int) - (((b &&& 0x0F) - ((205 * (b &&& 0x0F)) >>> 10) * 5 : Nat) : Int)] else acc))
     else (if b &&& 0x0F < 15 then acc ++ [(2 : Int) - (((b &&& 0x0F) - ((205 * (b &&& 0x0F)) >>> 10) * 5 : Nat) : Int)] else acc)) := by
  rcases hlv with rfl | rfl <;> simp only [etaStep, halfByte, pushOpt] <;>
    by_cases h0 : b &&& 0x0F < 15 <;> by_cases h1 : b >>> 4 < 15 <;> simp [h0, h1]

/-- the fuelled loop computes `etaSpec` on the unread bytes -/
theorem rej_eta_loop_eq (lv : Lvl) (alen : Nat) (buf : List Nat) (buflen : Nat) (hb : buflen ≤ buf.length) :
    ∀ (fuel pos : Nat) (acc : List Int), buflen - pos + 1 ≤ fuel →
      rej_eta_loop lv alen alen buf buflen fuel pos acc = .ok (etaSpec lv alen ((buf.take buflen).drop pos) acc) := by
  intro fuel
  induction fuel with
  | zero => intro pos acc h; omega
  | succ n ih =>
    intro pos acc hf
    unfold rej_eta_loop
    by_cases hc : acc.length < alen ∧ pos < buflen
    · rw [if_pos hc, getC_ok buf pos 0 (by omega), ok_bind]
      have hdrop : (buf.take buflen).drop pos = buf.getD pos 0 :: (buf.take buflen).drop (pos + 1) := by
        rw [drop_cons_getD (buf.take buflen) pos 0 (by rw [List.length_take]; omega), getD_take buf buflen pos 0 hc.2]
      rw [hdrop]
      simp only [etaSpec, hc.1, if_true]
      cases lv with
      | l3 =>
        simp only
        rw [body_gen 9 (fun t => (4 : Int) - (t : Nat)) alen (buf.getD pos 0 &&& 0x0F) (buf.getD pos 0 >>> 4) acc hc.1, ← etaStep_l3]
        exact ih (pos + 1) _ (by omega)
      | l2 =>
        simp only
        rw [body_gen 15 (fun t => (2 : Int) - ((t - ((205 * t) >>> 10) * 5 : Nat) : Int)) alen (buf.getD pos 0 &&& 0x0F) (buf.getD pos 0 >>> 4) acc hc.1,
          ← etaStep_2 .l2 (Or.inl rfl)]
        exact ih (pos + 1) _ (by omega)
      | l5 =>
        simp only
        rw [body_gen 15 (fun t => (2 : Int) - ((t - ((205 * t) >>> 10) * 5 : Nat) : Int)) alen (buf.getD pos 0 &&& 0x0F) (buf.getD pos 0 >>> 4) acc hc.1,
          ← etaStep_2 .l5 (Or.inr rfl)]
        exact ih (pos + 1) _ (by omega)
    · rw [if_neg hc]
      congr 1
      by_cases hl : acc.length < alen
      · have hp : ¬ pos < buflen := fun h => hc ⟨hl, h⟩
        have : (buf.take buflen).drop pos = [] := List.drop_eq_nil_of_le (by rw [List.length_take]; omega)
        rw [this]; rfl
      · cases hd : (buf.take buflen).drop pos with
        | nil => rfl
        | cons b rest => simp only [etaSpec, hl, if_false]

/-- **`rej_eta` is the specification's filter**, for any buffer: the accepted half-bytes of the first `buflen` bytes, low
    nibble first, mapped by CoeffFromHalfByte, until `alen` values are found -/
theorem rej_eta_eq (lv : Lvl) (alen : Nat) (buf : List Nat) (buflen : Nat) (hb : buflen ≤ buf.length) :
    rej_eta lv alen alen buf buflen = .ok (etaSpec lv alen (buf.take buflen) []) := by
  unfold rej_eta
  rw [rej_eta_loop_eq lv alen buf buflen hb _ 0 [] (by omega), List.drop_zero]

end DV
