import DilithiumVerif.Lemmas.KeygenTotal
/-
  Lemmas.SignTotal — one signing iteration never faults: for a key with the key-generation ranges and a nonce below
  the u16 budget every arithmetic step, decode and encode succeeds (or the model's sampling budget runs out).
-/
namespace DV.Complete
open DV DV.NttSem DV.PolySem DV.VecSem DV.RoundSem DV.NttMul DV.NttZ DV.Ranges DV.Containers DV.ShakeSmall DV.ShakeTotal
open DV.SamplerTotal DV.DecodeTotal DV.HintCodec

theorem poly_make_hint_go_total (lv : Lvl) : ∀ (a0 a1 : List Int) (s : Int), a0.length = a1.length → 0 ≤ s → s + a0.length ≤ 1000000 →
    ∃ h n, poly_make_hint_go lv a0 a1 s = .ok (h, n) ∧ 0 ≤ n ∧ n ≤ s + a0.length
  | [], [], s, _, h0, _ => ⟨[], s, rfl, h0, by simp⟩
  | [], _ :: _, _, h, _, _ => by simp at h
  | _ :: _, [], _, h, _, _ => by simp at h
  | x :: xs, y :: ys, s, hl, h0, hb => by
      have hbit : make_hint lv x y = 0 ∨ make_hint lv x y = 1 := by simp only [make_hint]; split <;> simp
      simp only [List.length_cons] at hb
      obtain ⟨h, n, hr, hn0, hn⟩ := poly_make_hint_go_total lv xs ys (s + make_hint lv x y) (by simpa using hl)
        (by rcases hbit with e | e <;> rw [e] <;> omega) (by rcases hbit with e | e <;> rw [e] <;> push_cast at hb ⊢ <;> omega)
      refine ⟨make_hint lv x y :: h, n, ?_, hn0, by simp only [List.length_cons]; rcases hbit with e | e <;> rw [e] at hn <;> push_cast <;> omega⟩
      unfold poly_make_hint_go
      dsimp only
      rw [add32_ok _ _ (by rcases hbit with e | e <;> rw [e] <;> push_cast at hb <;> omega), ok_bind, hr]; rfl

theorem k_make_hint_go_total (lv : Lvl) : ∀ (v0 v1 : List Poly) (s : Int), v0.length = v1.length → 0 ≤ s →
    (∀ a ∈ v0, a.length = 256) → (∀ a ∈ v1, a.length = 256) → s + 256 * v0.length ≤ 100000 →
    ∃ h n, k_make_hint_go lv v0 v1 s = .ok (h, n)
  | [], [], s, _, _, _, _, _ => ⟨[], s, rfl⟩
  | [], _ :: _, _, h, _, _, _, _ => by simp at h
  | _ :: _, [], _, h, _, _, _, _ => by simp at h
  | x :: xs, y :: ys, s, hl, h0, hx, hy, hb => by
      simp only [List.length_cons] at hb
      have lx := hx x (List.mem_cons_self ..)
      have ly := hy y (List.mem_cons_self ..)
      obtain ⟨hp, c, hr, hc0, hc⟩ := poly_make_hint_go_total lv x y 0 (by rw [lx, ly]) (Int.le_refl _) (by rw [lx]; decide)
      rw [lx] at hc
      obtain ⟨h, n, hr2⟩ := k_make_hint_go_total lv xs ys (s + c) (by simpa using hl) (by omega)
        (fun a ha => hx a (List.mem_cons_of_mem _ ha)) (fun a ha => hy a (List.mem_cons_of_mem _ ha)) (by push_cast at hb hc ⊢; omega)
      refine ⟨hp :: h, n, ?_⟩
      unfold k_make_hint_go
      have hr' : poly_make_hint lv x y = .ok (hp, c) := hr
      rw [hr', ok_bind]
      simp only
      rw [add32_ok _ _ (by push_cast at hb hc; omega), ok_bind, hr2]; rfl

theorem gamma1_blocks : ∀ lv : Lvl, polyzOf lv ≤ UNIFORM_GAMMA1_NBLOCKS lv * R256 := by
  intro lv; cases lv <;> decide

theorem poly_uniform_gamma1_total (lv : Lvl) (seed : List Nat) (nonce : Nat) (hs : seed.length = CRHBYTES) :
    ∃ r, poly_uniform_gamma1 lv seed nonce = .ok r := by
  unfold poly_uniform_gamma1
  obtain ⟨st, h1, _⟩ := stream_init256_total seed nonce hs
  rw [h1, ok_bind]
  obtain ⟨buf, st1, hsq, lb, hbb, _⟩ := squeezeblocks256_total (UNIFORM_GAMMA1_NBLOCKS lv * R256) (UNIFORM_GAMMA1_NBLOCKS lv) st (Nat.le_refl _)
  rw [hsq, ok_bind]
  simp only
  obtain ⟨r, hr, _⟩ := z_unpack_total lv buf (by rw [lb]; exact gamma1_blocks lv) hbb
  exact ⟨r, hr⟩

theorem l_uniform_gamma1_total (p : Params) (seed : List Nat) (nonce : Int) (hs : seed.length = CRHBYTES)
    (h0 : 0 ≤ nonce) (hn : (p.l : Int) * nonce + p.l ≤ 65535) : ∃ y, l_uniform_gamma1 p seed nonce = .ok y := by
  obtain ⟨y, hy, _⟩ := forRange_total p.l (fun i => do
      let m ← chkU16 ((p.l : Int) * nonce)
      let n ← chkU16 (m + (i : Int))
      poly_uniform_gamma1 p.lvl seed n.toNat) (fun _ => True)
    (fun i hi => by
      have hm : 0 ≤ (p.l : Int) * nonce := Int.mul_nonneg (by omega) h0
      have h1 : chkU16 ((p.l : Int) * nonce) = .ok ((p.l : Int) * nonce) := by
        unfold chkU16; rw [if_pos ⟨hm, by omega⟩]
      have h2 : chkU16 ((p.l : Int) * nonce + (i : Int)) = .ok ((p.l : Int) * nonce + (i : Int)) := by
        unfold chkU16; rw [if_pos ⟨by omega, by omega⟩]
      rw [h1, ok_bind, h2, ok_bind]
      obtain ⟨r, hr⟩ := poly_uniform_gamma1_total p.lvl seed _ hs
      exact ⟨r, hr, trivial⟩)
  exact ⟨y, hy⟩

end DV.Complete

namespace DV.Complete
open DV DV.NttSem DV.PolySem DV.VecSem DV.RoundSem DV.NttMul DV.NttZ DV.Ranges DV.Containers DV.ShakeSmall DV.ShakeTotal
open DV.SamplerTotal DV.DecodeTotal DV.HintCodec

set_option maxHeartbeats 3200000 in
/-- **A signing iteration never faults.** For each parameter set, a well-formed matrix, secret vectors in the
    key-generation ranges, a 64-byte μ and ρ′ and a nonce with L·κ + L ≤ 2^16 − 1 (the u16 budget of the code):
    `sign_iteration` returns one of its five outcomes; no overflow, no out-of-range access. -/
theorem sign_iteration_total (p : Params) (hp : p ∈ allParams) (mat : List PolyVec) (hmat : MatOK p mat)
    (s1 s2 t0 s1h s2h t0h : PolyVec) (kd : KeyData p s1 s2 t0 s1h s2h t0h)
    (mu rp : List Nat) (hmu : mu.length = CRHBYTES) (hrp : rp.length = CRHBYTES) (nonce : Int)
    (h0 : 0 ≤ nonce) (hn : (p.l : Int) * nonce + p.l ≤ 65535) :
    OkOrFuel (sign_iteration p mat mu rp s1h s2h t0h nonce) (fun _ => True) := by
  have hq : Q = 8380417 := Q_val'
  obtain ⟨hl0, hl7, hk0, hk8, hg1, hg2, hg1u, hg1l, hb0, hbu, hg2u, hg2l⟩ := params_facts p hp
  obtain ⟨s1h', es1, rs1⟩ := vec_ntt_sem MK 8192 (by omega) (by rw [hq]; omega) s1 kd.s1b
  rw [kd.e1] at es1; injection es1 with es1; subst es1
  obtain ⟨s2h', es2, rs2⟩ := vec_ntt_sem MK 8192 (by omega) (by rw [hq]; omega) s2 kd.s2b
  rw [kd.e2] at es2; injection es2 with es2; subst es2
  obtain ⟨t0h', et0, rt0⟩ := vec_ntt_sem MK 8192 (by omega) (by rw [hq]; omega) t0 kd.t0b
  rw [kd.e0] at et0; injection et0 with et0; subst et0
  have h9 : ∀ {v vh : PolyVec}, All2 (fun a y => PolyOK (8192 + 8 * Q) y ∧ ∀ i, i < 256 → (Vl y i : K) = El a i) v vh →
      ∀ a ∈ vh, PolyOK (9 * Q) a := fun r => r.right (fun _ _ h => h.1.mono (by rw [hq]; omega))
  unfold sign_iteration
  obtain ⟨y, hy⟩ := l_uniform_gamma1_total p rp nonce hrp h0 hn
  rw [hy, ok_bind]
  have hyr := l_uniform_gamma1_range p rp nonce y hy
  have hyl := hyr.1
  have hyb : ∀ a ∈ y, PolyOK ((p.gamma1 : Int) + 1) a := fun a ha =>
    ⟨(hyr.2 a ha).1, fun x hx => by have := (hyr.2 a ha).2 x hx; rw [hg1]; omega⟩
  have hck : chkU16 (nonce + 1) = .ok (nonce + 1) := by
    unfold chkU16
    have : nonce ≤ (p.l : Int) * nonce := by
      have : (1 : Int) ≤ p.l := by omega
      nlinarith
    rw [if_pos ⟨by omega, by omega⟩]
  rw [hck, ok_bind]
  obtain ⟨yh, wA, wB, wC, w, e1, e2, e3, e4, e5, hwl, hwstd, _⟩ :=
    sign_w_sem p hp mat hmat y ((p.gamma1 : Int) + 1) (by omega) (by rw [hq]; omega) hyl hyb
  rw [e1, ok_bind, e2, ok_bind, e3, ok_bind, e4, ok_bind, e5, ok_bind]
  obtain ⟨w1, w0, e6, rdec⟩ := k_decompose_sem p.lvl w hwstd
  rw [e6, ok_bind]
  simp only
  have hw1len : ∀ a ∈ w1, a.length = 256 := rdec.mid (B := fun (a : Poly) => a.length = 256) (fun _ _ _ h => h.2.length.1.trans h.1)
  have hw1l : w1.length = p.k := by rw [rdec.length.1, hwl]
  have hw0l : w0.length = p.k := by rw [rdec.length.2, hwl]
  obtain ⟨ct, hct, lct⟩ := compute_ctilde_total p mu (k_pack_w1 p.lvl w1) hmu (by rw [k_pack_w1_length p.lvl w1 hw1len, hw1l, w1_facts p hp])
  rw [hct, ok_bind]
  apply OkOrFuel.bind (poly_challenge_total p hp FUEL ct lct)
  intro cp hcpT
  have hcp2 : PolyOK 2 cp := ⟨hcpT.1, fun x hx => by have := hcpT.2 x hx; omega⟩
  obtain ⟨cph, e7, lcph, bcph, ecph⟩ := ntt_sem MK cp hcp2.1 2 (by omega) (by rw [hq]; omega) hcp2.2
  have e7' : poly_ntt cp = .ok cph := e7
  rw [e7', ok_bind]
  have hc9 : PolyOK (9 * Q) cph := ⟨lcph, Bd_mono _ _ (by rw [hq]; omega) cph bcph⟩
  obtain ⟨zA, zB, e8, e9, rz⟩ := cs_sem cph hc9 (fun i => El cp i) ecph s1h (h9 rs1)
  rw [e8, ok_bind, e9, ok_bind]
  have hzBl : zB.length = p.l := by rw [rz.length, rs1.length, kd.s1l]
  obtain ⟨zC, e10, rzC⟩ := vec_add_sem (R := K) Q ((p.gamma1 : Int) + 1) (by rw [hq]; omega) zB y (by rw [hzBl, hyl])
    (rz.right (fun _ _ h => h.1)) hyb
  rw [e10, ok_bind]
  obtain ⟨z, e11, rzR⟩ := vec_reduce_sem MK zC (rzC.out (fun _ _ _ h => h.1.mono (by rw [hq]; omega)))
  rw [e11, ok_bind]
  have hzl : z.length = p.l := by rw [rzR.length, rzC.length.2, hzBl]
  obtain ⟨rn, e12, hpassz⟩ := chknorm_pass z ((p.gamma1 : Int) - p.beta) 6283010 (by omega) (rzR.right (fun _ _ h => h.1))
    (by rw [hq]; omega)
  rw [e12, ok_bind]
  split
  · exact OkOrFuel.of_ok _ rfl trivial
  rename_i hnz
  have hzb := hpassz hnz
  obtain ⟨sA, cs2, e13, e14, rs⟩ := cs_sem cph hc9 (fun i => El cp i) ecph s2h (h9 rs2)
  rw [e13, ok_bind, e14, ok_bind]
  have hw0b : ∀ a ∈ w0, PolyOK ((p.gamma2 : Int) + 1) a := by
    refine rdec.out (C := fun lo => PolyOK ((p.gamma2 : Int) + 1) lo) ?_
    intro a hi lo h3
    exact ⟨h3.2.length.2.trans h3.1, h3.2.out (fun _ _ _ hd => by rw [hg2]; have := hd.2.2.2; omega)⟩
  have hcs2l : cs2.length = p.k := by rw [rs.length, rs2.length, kd.s2l]
  obtain ⟨rA, e15, rrA⟩ := vec_sub_sem (R := K) ((p.gamma2 : Int) + 1) Q (by rw [hq]; omega) w0 cs2 (by rw [hw0l, hcs2l])
    hw0b (rs.right (fun _ _ h => h.1))
  rw [e15, ok_bind]
  obtain ⟨r0, e16, rr0⟩ := vec_reduce_sem MK rA (rrA.out (fun _ _ _ h => h.1.mono (by rw [hq]; omega)))
  rw [e16, ok_bind]
  obtain ⟨rn0, e17, hpass0⟩ := chknorm_pass r0 ((p.gamma2 : Int) - p.beta) 6283010 (by omega) (rr0.right (fun _ _ h => h.1))
    (by rw [hq]; omega)
  rw [e17, ok_bind]
  split
  · exact OkOrFuel.of_ok _ rfl trivial
  rename_i hn0
  have hr0b := hpass0 hn0
  have hr0l : r0.length = p.k := by rw [rr0.length, rrA.length.2, hw0l]
  obtain ⟨tA, tB, e18, e19, rt⟩ := cs_sem cph hc9 (fun i => El cp i) ecph t0h (h9 rt0)
  rw [e18, ok_bind, e19, ok_bind]
  obtain ⟨ct0, e20, rct0⟩ := vec_reduce_sem MK tB (rt.right (fun _ _ h => h.1.mono (by rw [hq]; omega)))
  rw [e20, ok_bind]
  obtain ⟨rnc, e21, hpassc⟩ := chknorm_pass ct0 (p.gamma2 : Int) 6283010 (by omega) (rct0.right (fun _ _ h => h.1))
    (by rw [hq]; omega)
  rw [e21, ok_bind]
  split
  · exact OkOrFuel.of_ok _ rfl trivial
  rename_i hnc
  have hct0b := hpassc hnc
  have hct0l : ct0.length = p.k := by rw [rct0.length, rt.length, rt0.length, kd.t0l]
  obtain ⟨a0, e22, ra0⟩ := vec_add_sem (R := K) ((p.gamma2 : Int) - p.beta) (p.gamma2 : Int) (by omega) r0 ct0 (by rw [hr0l, hct0l])
    hr0b hct0b
  rw [e22, ok_bind]
  have ha0l : a0.length = p.k := by rw [ra0.length.2, hr0l]
  obtain ⟨h, n, ehint⟩ := k_make_hint_go_total p.lvl a0 w1 0 (by rw [ha0l, hw1l]) (Int.le_refl _)
    (ra0.out (C := fun (x : Poly) => x.length = 256) (fun _ _ _ h => h.1.1)) hw1len (by rw [ha0l]; push_cast; omega)
  have ehint' : k_make_hint p.lvl a0 w1 = .ok (h, n) := ehint
  rw [ehint', ok_bind]
  simp only
  split
  · exact OkOrFuel.of_ok _ rfl trivial
  rename_i hnw
  -- packing
  have hrel := k_make_hint_rel p.lvl a0 w1 h n ehint'
  have hcount := HintCodec.k_make_hint_count p.lvl a0 w1 0 h n ehint'
  have hbits : ∀ hp' ∈ h, HintCodec.Bits hp' := by
    intro hp' hhp
    refine ⟨?_, hcount.2 hp' hhp⟩
    obtain ⟨r, hr, rfl⟩ := List.mem_iff_getElem.mp hhp
    have hr' : r < a0.length := by rw [← hrel.length.2]; exact hr
    have f := hrel.getD [] [] [] r hr'
    have e : h.getD r [] = h[r] := by rw [List.getD_eq_getElem?_getD, List.getElem?_eq_getElem hr]; rfl
    rw [← e, f.length.2]
    exact (ra0.out (C := fun x => PolyOK ((p.gamma2 : Int) - p.beta + p.gamma2) x) (fun _ _ _ h => h.1) _ (getD_mem a0 r [] hr')).1
  have hwt : (HintCodec.idxOf h).length ≤ p.omega := by
    have := hcount.1
    omega
  obtain ⟨sig, hpack, _, _⟩ := unpack_pack_sig p hp ct z h lct hzl
    (fun a ha => ⟨(hzb a ha).1, fun x hx => by have := (hzb a ha).2 x hx; rw [← hg1]; omega⟩)
    (by rw [hrel.length.2, ha0l]) hbits hwt
  rw [hpack, ok_bind]
  exact OkOrFuel.of_ok _ rfl trivial

end DV.Complete

namespace DV.Complete
open DV DV.NttSem DV.PolySem DV.VecSem DV.RoundSem DV.NttMul DV.NttZ DV.Ranges DV.Containers DV.ShakeSmall DV.ShakeTotal
open DV.SamplerTotal DV.DecodeTotal DV.HintCodec

theorem sign_loop_total (p : Params) (hp : p ∈ allParams) (mat : List PolyVec) (hmat : MatOK p mat)
    (s1 s2 t0 s1h s2h t0h : PolyVec) (kd : KeyData p s1 s2 t0 s1h s2h t0h)
    (mu rp : List Nat) (hmu : mu.length = CRHBYTES) (hrp : rp.length = CRHBYTES) :
    ∀ (fuel : Nat) (nonce : Int), 0 ≤ nonce → (p.l : Int) * (nonce + fuel) ≤ 65535 →
      OkOrFuel (sign_loop p mat mu rp s1h s2h t0h fuel nonce) (fun _ => True) := by
  intro fuel
  induction fuel with
  | zero => intro nonce _ _; exact OkOrFuel.of_ok none rfl trivial
  | succ n ih =>
    intro nonce h0 hn
    unfold sign_loop
    apply OkOrFuel.bind (sign_iteration_total p hp mat hmat s1 s2 t0 s1h s2h t0h kd mu rp hmu hrp nonce h0 (by
      push_cast at hn
      have : (p.l : Int) * (nonce + (n + 1)) = (p.l : Int) * nonce + (p.l : Int) * n + p.l := by ring
      have h2 : 0 ≤ (p.l : Int) * n := Int.mul_nonneg (by omega) (by omega)
      omega))
    intro r _
    cases r with
    | accept sig => exact OkOrFuel.of_ok _ rfl trivial
    | rejZ | rejR0 | rejCt0 | rejHint =>
      have hn' : (p.l : Int) * (nonce + 1 + (n : Int)) ≤ 65535 := by
        push_cast at hn
        have : nonce + 1 + (n : Int) = nonce + ((n : Int) + 1) := by ring
        rw [this]; exact hn
      exact ih (nonce + 1) (by omega) hn'

theorem derive_rhoprime_total (p : Params) (key mu : List Nat) (hk : key.length = SEEDBYTES) (hm : mu.length = CRHBYTES)
    (randomized : Bool) (tape : Tape) (ht : randomized = true → CRHBYTES ≤ tape.length) :
    ∃ rp tp, derive_rhoprime p key mu randomized tape = .ok (rp, tp) ∧ rp.length = CRHBYTES := by
  have hS : SEEDBYTES = 32 := by decide
  have hC : CRHBYTES = 64 := by decide
  unfold derive_rhoprime
  by_cases hml : p.mldsa = true
  · rw [if_pos hml]
    have hrnd : ∃ rnd tp, (if randomized = true then random_bytes tape SEEDBYTES else .ok (List.replicate SEEDBYTES 0, tape)) = .ok (rnd, tp) ∧
        rnd.length = SEEDBYTES := by
      by_cases hr : randomized = true
      · rw [if_pos hr]
        unfold random_bytes
        have := ht hr
        rw [if_pos (by omega)]
        exact ⟨_, _, rfl, by rw [List.length_take]; omega⟩
      · rw [if_neg hr]; exact ⟨_, _, rfl, List.length_replicate ..⟩
    obtain ⟨rnd, tp, h1, lr⟩ := hrnd
    rw [h1, ok_bind]
    simp only
    obtain ⟨st1, e1, p1⟩ := absorb256_total KeccakState.init key (by rw [init_pos]; decide)
    rw [← hk, e1, ok_bind]
    obtain ⟨st2, e2, p2⟩ := absorb256_total st1 rnd p1
    rw [hk, ← lr, e2, ok_bind]
    obtain ⟨st3, e3, p3⟩ := absorb256_total st2 mu p2
    rw [← hm, e3, ok_bind]
    obtain ⟨st4, e4, p4⟩ := finalize256_total st3 p3
    rw [e4, ok_bind]
    obtain ⟨out, st5, e5, l5⟩ := squeeze256_total mu.length mu.length st4 (Nat.le_refl _) (by rw [p4])
    rw [e5, ok_bind]
    exact ⟨_, _, rfl, by rw [l5, hm]⟩
  · rw [if_neg hml]
    by_cases hr : randomized = true
    · rw [if_pos hr]
      unfold random_bytes
      rw [if_pos (ht hr)]
      exact ⟨_, _, rfl, by rw [List.length_take]; have := ht hr; omega⟩
    · rw [if_neg hr]
      obtain ⟨out, ho, lo⟩ := shake256_small_total CRHBYTES CRHBYTES (key ++ mu) (by decide) (Nat.le_refl _)
      have ho' : shake256n CRHBYTES (key ++ mu) = .ok out := ho
      rw [ho', ok_bind]
      exact ⟨_, _, rfl, lo⟩

set_option maxHeartbeats 1600000 in
/-- **Signing with a generated key is total.** For a key pair returned by `keypair`, any message, deterministic mode (or
    randomized with 64 bytes of RNG tape) and any iteration bound within the u16 nonce budget, `signature` completes
    without a fault (or the model's sampling budget runs out). -/
theorem signature_total (p : Params) (hp : p ∈ allParams) (seed : Option (List Nat)) (tape : Tape) (pk sk : List Nat) (tape' : Tape)
    (hk : keypair p seed tape = .ok (pk, sk, tape'))
    (fuel : Nat) (hf : (p.l : Int) * fuel ≤ 65535) (msg : List Nat) (randomized : Bool) (tape2 : Tape)
    (ht : randomized = true → CRHBYTES ≤ tape2.length) :
    OkOrFuel (signature p fuel msg sk randomized tape2) (fun _ => True) := by
  obtain ⟨_, htrR, _, _, _⟩ := e2e_facts p hp
  -- key generation, as in the end-to-end theorem
  unfold keypair at hk
  obtain ⟨⟨s, tp⟩, _, hk⟩ := bind_eq_ok.mp hk
  simp only at hk
  obtain ⟨⟨rho, key, s1, s2, t1, t0⟩, hcore, hk⟩ := bind_eq_ok.mp hk
  simp only at hk
  obtain ⟨pk0, hpk, hk⟩ := bind_eq_ok.mp hk
  obtain ⟨tr, htr, hk⟩ := bind_eq_ok.mp hk
  obtain ⟨sk0, hsk, hk⟩ := bind_eq_ok.mp hk
  injection hk with hk; injection hk with hpk0 hk; injection hk with hsk0 _
  subst hpk0; subst hsk0
  obtain ⟨mat, hme, kf⟩ := keygen_facts p hp _ rho key s1 s2 t1 t0 hcore
  obtain ⟨hrl, hkl⟩ := keygen_core_lengths p _ rho key s1 s2 t1 t0 hcore
  have htrl : tr.length = p.trBytes := by
    unfold shake256n at htr
    exact shake256_small_length _ _ _ _ htrR (Nat.le_refl _) tr htr
  obtain ⟨sk', hsk', husk⟩ := unpack_pack_sk p hp rho tr key t0 s1 s2 hrl hkl htrl kf.s1l kf.s2l kf.t0l
    (fun a ha => by rw [etaB_eq]; exact kf.s1s a ha) (fun a ha => by rw [etaB_eq]; exact kf.s2s a ha) kf.t0s
  rw [hsk] at hsk'; injection hsk' with hsk'; subst hsk'
  unfold signature
  rw [husk, ok_bind]
  simp only
  obtain ⟨mu, hmu, lmu⟩ := compute_mu_total tr msg
  rw [← htrl, hmu, ok_bind]
  obtain ⟨rp, tp2, hrp, lrp⟩ := derive_rhoprime_total p key mu hkl lmu randomized tape2 ht
  rw [hrp, ok_bind]
  simp only
  rw [hme, ok_bind]
  have hq : Q = 8380417 := Q_val'
  have b1 : ∀ a ∈ s1, PolyOK 8192 a := fun a ha => small_polyOK (kf.s1s a ha) 8192 (by omega)
  have b2 : ∀ a ∈ s2, PolyOK 8192 a := fun a ha => small_polyOK (kf.s2s a ha) 8192 (by omega)
  have b0 : ∀ a ∈ t0, PolyOK 8192 a := fun a ha => ⟨(kf.t0s a ha).1, fun x hx => by have := (kf.t0s a ha).2 x hx; omega⟩
  obtain ⟨s1h, e1, _⟩ := vec_ntt_sem MK 8192 (by omega) (by rw [hq]; omega) s1 b1
  obtain ⟨s2h, e2, _⟩ := vec_ntt_sem MK 8192 (by omega) (by rw [hq]; omega) s2 b2
  obtain ⟨t0h, e0, _⟩ := vec_ntt_sem MK 8192 (by omega) (by rw [hq]; omega) t0 b0
  rw [e1, ok_bind, e2, ok_bind, e0, ok_bind]
  apply OkOrFuel.bind (sign_loop_total p hp mat kf.mat_ok s1 s2 t0 s1h s2h t0h ⟨kf.s1l, kf.s2l, kf.t0l, b1, b2, b0, e1, e2, e0⟩
    mu rp lmu lrp fuel 0 (Int.le_refl _) (by simpa using hf))
  intro r _
  exact OkOrFuel.of_ok _ rfl trivial

end DV.Complete
