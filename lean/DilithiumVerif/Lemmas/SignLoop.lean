import DilithiumVerif.Impl.Api
import DilithiumVerif.Lemmas.Basic
/-
  Lemmas.SignLoop — logic of the signing loop (used by C01, C06 and the end-to-end theorem); declared in namespace
  DV.C01 and restated as property theorems in Props/C01.lean.
-/
namespace DV.C01
open DV

def accepted : IterResult → Option (List Nat)
  | .accept s => some s
  | _ => none

/-- `sign_loop` from nonce κ₀ with fuel n returns `some σ` iff some iteration κ₀+j (j < n) is accepted, all earlier
    ones are rejected (without fault), and σ is that iteration's output -/
theorem sign_loop_some (p : Params) (mat : List PolyVec) (mu rp : List Nat) (s1h s2h t0h : PolyVec) :
    ∀ (fuel : Nat) (k0 : Int) (sig : List Nat),
      sign_loop p mat mu rp s1h s2h t0h fuel k0 = .ok (some sig) →
      ∃ j, j < fuel ∧ sign_iteration p mat mu rp s1h s2h t0h (k0 + j) = .ok (.accept sig) ∧
        ∀ i, i < j → ∃ r, sign_iteration p mat mu rp s1h s2h t0h (k0 + i) = .ok r ∧ accepted r = none := by
  intro fuel
  induction fuel with
  | zero => intro k0 sig h; simp [sign_loop] at h
  | succ n ih =>
    intro k0 sig h
    unfold sign_loop at h
    obtain ⟨r, hr, h⟩ := bind_eq_ok.mp h
    cases r with
    | accept s =>
      simp only at h; injection h with h; injection h with h; subst h
      exact ⟨0, by omega, by simpa using hr, by intro i hi; omega⟩
    | rejZ | rejR0 | rejCt0 | rejHint =>
      simp only at h
      obtain ⟨j, hj, hacc, hrej⟩ := ih (k0 + 1) sig h
      refine ⟨j + 1, by omega, ?_, ?_⟩
      · have : k0 + ((j + 1 : Nat) : Int) = k0 + 1 + (j : Int) := by omega
        rw [this]; exact hacc
      · intro i hi
        cases i with
        | zero => exact ⟨_, by simpa using hr, rfl⟩
        | succ i' =>
          obtain ⟨r', h1, h2⟩ := hrej i' (by omega)
          have : k0 + ((i' + 1 : Nat) : Int) = k0 + 1 + (i' : Int) := by omega
          exact ⟨r', by rw [this]; exact h1, h2⟩

/-- with fuel n the loop gives up (`none`) only if all n iterations were rejected -/
theorem sign_loop_none (p : Params) (mat : List PolyVec) (mu rp : List Nat) (s1h s2h t0h : PolyVec) :
    ∀ (fuel : Nat) (k0 : Int),
      sign_loop p mat mu rp s1h s2h t0h fuel k0 = .ok none →
      ∀ i, i < fuel → ∃ r, sign_iteration p mat mu rp s1h s2h t0h (k0 + i) = .ok r ∧ accepted r = none := by
  intro fuel
  induction fuel with
  | zero => intro k0 _ i hi; omega
  | succ n ih =>
    intro k0 h i hi
    unfold sign_loop at h
    obtain ⟨r, hr, h⟩ := bind_eq_ok.mp h
    cases r with
    | accept s => simp at h
    | rejZ | rejR0 | rejCt0 | rejHint =>
      simp only at h
      cases i with
      | zero => exact ⟨_, by simpa using hr, rfl⟩
      | succ i' =>
        obtain ⟨r', h1, h2⟩ := ih (k0 + 1) h i' (by omega)
        have : k0 + ((i' + 1 : Nat) : Int) = k0 + 1 + (i' : Int) := by omega
        exact ⟨r', by rw [this]; exact h1, h2⟩

/-- an accepted iteration passed all four rejection tests, in the order of the code -/
theorem iteration_accept_only_after_checks (r : IterResult) (s : List Nat) (h : accepted r = some s) : r = .accept s := by
  cases r <;> simp [accepted] at h; subst h; rfl

end DV.C01
