import DilithiumVerif.Impl.Ntt
import DilithiumVerif.Props.C14
import DilithiumVerif.Lemmas.Chunks
/-
  Lemmas.NttBound — no intermediate overflow and coefficient growth of the forward / inverse NTT.
  `Bd C l` : every element of l is strictly below C in absolute value.
-/
namespace DV

def Bd (C : Int) (l : List Int) : Prop := ∀ x ∈ l, -C < x ∧ x < C

theorem Q_val' : Q = 8380417 := by decide

/-- |ZETAS[k]| ≤ (q−1)/2 for every index (also 0 for out-of-range k) -/
theorem zeta_bound (k : Nat) : -4190208 ≤ zeta k ∧ zeta k ≤ 4190208 := by
  by_cases hk : k < 256
  · have h : ∀ k : Fin 256, -4190208 ≤ zeta k.val ∧ zeta k.val ≤ 4190208 := by decide +kernel
    exact h ⟨k, hk⟩
  · unfold zeta
    have hlen : Gen.ZETAS.length = 256 := by decide +kernel
    rw [List.getD_eq_getElem?_getD, List.getElem?_eq_none (by omega)]
    decide

/-- one Montgomery multiplication by a table-sized constant: no overflow, |t| < q, t·2^32 ≡ z·x -/
theorem mulZeta_spec (z x : Int) (hz : -4190208 ≤ z ∧ z ≤ 4190208) (hx : -2147483648 ≤ x ∧ x ≤ 2147483647) :
    ∃ t, mulZeta z x = .ok t ∧ -Q < t ∧ t < Q ∧ (t * 4294967296 - z * x) % Q = 0 := by
  unfold mulZeta
  have hprod : -8998403161718784 ≤ z * x ∧ z * x ≤ 8998403161718784 := by
    have h1 : -(4190208 * 2147483648) ≤ z * x ∧ z * x ≤ 4190208 * 2147483648 := by
      constructor
      · rcases Int.le_total 0 z with hz0 | hz0 <;> rcases Int.le_total 0 x with hx0 | hx0
        · have := Int.mul_nonneg hz0 hx0; omega
        · have : z * x ≥ 4190208 * x := by
            have := Int.mul_le_mul_of_nonpos_right (show z ≤ 4190208 from hz.2) hx0; omega
          omega
        · have : z * x ≥ z * 2147483648 := by
            have := Int.mul_le_mul_of_nonpos_left hz0 (show x ≤ 2147483648 by omega); omega
          omega
        · have := Int.mul_nonneg_of_nonpos_of_nonpos hz0 hx0; omega
      · rcases Int.le_total 0 z with hz0 | hz0 <;> rcases Int.le_total 0 x with hx0 | hx0
        · have : z * x ≤ 4190208 * x := Int.mul_le_mul_of_nonneg_right hz.2 hx0
          omega
        · have := Int.mul_nonpos_of_nonneg_of_nonpos hz0 hx0; omega
        · have := Int.mul_nonpos_of_nonpos_of_nonneg hz0 hx0; omega
        · have : z * x ≤ (-4190208) * x := Int.mul_le_mul_of_nonpos_right hz.1 hx0
          omega
    omega
  rw [wrap64_id _ (by omega)]
  have := C14.montgomery_reduce_spec (z * x) (by rw [Q_val']; omega)
  obtain ⟨r, hr, hc, hl, hu⟩ := this
  exact ⟨r, hr, hl, hu, hc⟩

theorem mapL_mulZeta (z : Int) (hz : -4190208 ≤ z ∧ z ≤ 4190208) : ∀ (l : List Int), Bd 2147483648 l →
    ∃ t, mapL (mulZeta z) l = .ok t ∧ t.length = l.length ∧ Bd Q t := by
  intro l
  induction l with
  | nil => intro _; exact ⟨[], rfl, rfl, by intro x hx; cases hx⟩
  | cons x xs ih =>
    intro h
    have hx := h x (List.mem_cons_self ..)
    obtain ⟨t, ht, hl, hu, _⟩ := mulZeta_spec z x hz (by omega)
    obtain ⟨ts, hts, hlen, hb⟩ := ih (fun y hy => h y (List.mem_cons_of_mem _ hy))
    refine ⟨t :: ts, by unfold mapL; rw [ht, hts]; rfl, by simp [hlen], ?_⟩
    intro y hy
    rcases List.mem_cons.mp hy with rfl | hy
    · exact ⟨hl, hu⟩
    · exact hb y hy

/-- `zipL add32 / sub32` of a C-bounded and a q-bounded list: no overflow, result (C+q)-bounded -/
theorem zip_addsub (C : Int) (hC : C + Q ≤ 2147483648) : ∀ (a t : List Int), a.length = t.length → Bd C a → Bd Q t →
    (∃ r, zipL add32 a t = .ok r ∧ r.length = a.length ∧ Bd (C + Q) r) ∧
    (∃ r, zipL sub32 a t = .ok r ∧ r.length = a.length ∧ Bd (C + Q) r) := by
  intro a
  induction a with
  | nil =>
    intro t hl _ _
    have : t = [] := List.eq_nil_of_length_eq_zero (by simpa using hl.symm)
    subst this
    exact ⟨⟨[], rfl, rfl, by intro x hx; cases hx⟩, ⟨[], rfl, rfl, by intro x hx; cases hx⟩⟩
  | cons x xs ih =>
    intro t hl ha ht
    cases t with
    | nil => simp at hl
    | cons y ys =>
      have hx := ha x (List.mem_cons_self ..)
      have hy := ht y (List.mem_cons_self ..)
      obtain ⟨⟨r1, h1, l1, b1⟩, ⟨r2, h2, l2, b2⟩⟩ := ih ys (by simpa using hl)
        (fun z hz => ha z (List.mem_cons_of_mem _ hz)) (fun z hz => ht z (List.mem_cons_of_mem _ hz))
      constructor
      · refine ⟨(x + y) :: r1, ?_, by simp [l1], ?_⟩
        · unfold zipL; rw [add32_ok _ _ (by omega), h1]; rfl
        · intro z hz; rcases List.mem_cons.mp hz with rfl | hz
          · omega
          · exact b1 z hz
      · refine ⟨(x - y) :: r2, ?_, by simp [l2], ?_⟩
        · unfold zipL; rw [sub32_ok _ _ (by omega), h2]; rfl
        · intro z hz; rcases List.mem_cons.mp hz with rfl | hz
          · omega
          · exact b2 z hz

theorem Bd_append (C : Int) (a b : List Int) (ha : Bd C a) (hb : Bd C b) : Bd C (a ++ b) := by
  intro x hx; rcases List.mem_append.mp hx with h | h
  · exact ha x h
  · exact hb x h

/-- forward butterfly on one block of 2·len coefficients -/
theorem nttBlock_bound (z : Int) (hz : -4190208 ≤ z ∧ z ≤ 4190208) (C : Int) (hC : C + Q ≤ 2147483648) (hC0 : 0 < C)
    (blk : List Int) (len : Nat) (hl : blk.length = 2 * len) (hb : Bd C blk) :
    ∃ r, nttBlock z blk len = .ok r ∧ r.length = 2 * len ∧ Bd (C + Q) r := by
  unfold nttBlock
  have hhi : Bd 2147483648 (blk.drop len) := by
    intro x hx; have := hb x (List.mem_of_mem_drop hx); rw [Q_val'] at hC; omega
  obtain ⟨t, ht, htl, htb⟩ := mapL_mulZeta z hz (blk.drop len) hhi
  have hlo : Bd C (blk.take len) := fun x hx => hb x (List.mem_of_mem_take hx)
  have hlen : (blk.take len).length = t.length := by rw [htl]; simp [List.length_take, List.length_drop]; omega
  obtain ⟨⟨ra, ha, la, ba⟩, ⟨rs, hs, ls, bs⟩⟩ := zip_addsub C hC (blk.take len) t hlen hlo htb
  refine ⟨ra ++ rs, ?_, ?_, Bd_append _ _ _ ba bs⟩
  · simp only [ht, ok_bind, hs, ha]
  · simp only [List.length_append, la, ls, List.length_take]; omega

/-- one layer over a list of blocks -/
theorem nttLayerGo_bound (len : Nat) (C : Int) (hC : C + Q ≤ 2147483648) (hC0 : 0 < C) : ∀ (blocks : List (List Int)) (k : Nat),
    (∀ b ∈ blocks, b.length = 2 * len ∧ Bd C b) →
    ∃ r, nttLayerGo len k blocks = .ok r ∧ r.length = blocks.length * (2 * len) ∧ Bd (C + Q) r := by
  intro blocks
  induction blocks with
  | nil => intro k _; exact ⟨[], rfl, by simp, by intro x hx; cases hx⟩
  | cons b bs ih =>
    intro k h
    obtain ⟨hbl, hbb⟩ := h b (List.mem_cons_self ..)
    obtain ⟨r1, h1, l1, b1⟩ := nttBlock_bound (zeta k) (zeta_bound k) C hC hC0 b len hbl hbb
    obtain ⟨r2, h2, l2, b2⟩ := ih (k + 1) (fun x hx => h x (List.mem_cons_of_mem _ hx))
    refine ⟨r1 ++ r2, ?_, ?_, Bd_append _ _ _ b1 b2⟩
    · unfold nttLayerGo; rw [h1, h2]; rfl
    · simp only [List.length_append, l1, l2, List.length_cons, Nat.succ_mul]; omega

theorem nttLayer_bound (len k0 : Nat) (hlen : 0 < len) (C : Int) (hC : C + Q ≤ 2147483648) (hC0 : 0 < C) (a : List Int)
    (hd : a.length % (2 * len) = 0) (hb : Bd C a) :
    ∃ r, nttLayer len k0 a = .ok r ∧ r.length = a.length ∧ Bd (C + Q) r := by
  unfold nttLayer
  have hmem := chunks_mem (2 * len) (by omega) a.length a rfl hd
  obtain ⟨r, h1, h2, h3⟩ := nttLayerGo_bound len C hC hC0 (chunks (2 * len) a) (k0 + 1)
    (fun b hb' => ⟨(hmem b hb').1, fun x hx => hb x ((hmem b hb').2 x hx)⟩)
  refine ⟨r, h1, ?_, h3⟩
  rw [h2, chunks_length (2 * len) (by omega) a.length a rfl hd]
  exact Nat.div_mul_cancel (Nat.dvd_of_mod_eq_zero hd)

/-- Forward NTT: for coefficients below B in magnitude with B + 8q ≤ 2^31, no intermediate operation overflows
    and every output is below B + 8q in magnitude. -/
theorem ntt_bound (a : List Int) (hl : a.length = 256) (B : Int) (hB0 : 0 < B) (hB : B + 8 * Q ≤ 2147483648) (hb : Bd B a) :
    ∃ r, ntt a = .ok r ∧ r.length = 256 ∧ Bd (B + 8 * Q) r := by
  have hq : Q = 8380417 := Q_val'
  unfold ntt
  simp only [hl, ne_eq, not_true_eq_false, if_false]
  obtain ⟨r1, h1, l1, b1⟩ := nttLayer_bound 128 0 (by decide) B (by omega) hB0 a (by rw [hl]) hb
  obtain ⟨r2, h2, l2, b2⟩ := nttLayer_bound 64 1 (by decide) (B + Q) (by omega) (by omega) r1 (by rw [l1, hl]) b1
  obtain ⟨r3, h3, l3, b3⟩ := nttLayer_bound 32 3 (by decide) (B + Q + Q) (by omega) (by omega) r2 (by rw [l2, l1, hl]) b2
  obtain ⟨r4, h4, l4, b4⟩ := nttLayer_bound 16 7 (by decide) (B + Q + Q + Q) (by omega) (by omega) r3 (by rw [l3, l2, l1, hl]) b3
  obtain ⟨r5, h5, l5, b5⟩ := nttLayer_bound 8 15 (by decide) (B + Q + Q + Q + Q) (by omega) (by omega) r4 (by rw [l4, l3, l2, l1, hl]) b4
  obtain ⟨r6, h6, l6, b6⟩ := nttLayer_bound 4 31 (by decide) (B + Q + Q + Q + Q + Q) (by omega) (by omega) r5 (by rw [l5, l4, l3, l2, l1, hl]) b5
  obtain ⟨r7, h7, l7, b7⟩ := nttLayer_bound 2 63 (by decide) (B + Q + Q + Q + Q + Q + Q) (by omega) (by omega) r6 (by rw [l6, l5, l4, l3, l2, l1, hl]) b6
  obtain ⟨r8, h8, l8, b8⟩ := nttLayer_bound 1 127 (by decide) (B + Q + Q + Q + Q + Q + Q + Q) (by omega) (by omega) r7 (by rw [l7, l6, l5, l4, l3, l2, l1, hl]) b7
  refine ⟨r8, ?_, by rw [l8, l7, l6, l5, l4, l3, l2, l1, hl], ?_⟩
  · simp only [h1, ok_bind, h2, h3, h4, h5, h6, h7, h8]
  · intro x hx; have := b8 x hx; omega

end DV

namespace DV

/-- `zipL add32 / sub32` of two C-bounded lists with 2C ≤ 2^31: no overflow, result 2C-bounded -/
theorem zip_addsub2 (C : Int) (hC : 2 * C ≤ 2147483648) : ∀ (a b : List Int), a.length = b.length → Bd C a → Bd C b →
    (∃ r, zipL add32 a b = .ok r ∧ r.length = a.length ∧ Bd (2 * C) r) ∧
    (∃ r, zipL sub32 a b = .ok r ∧ r.length = a.length ∧ Bd (2 * C) r) := by
  intro a
  induction a with
  | nil =>
    intro t hl _ _
    have : t = [] := List.eq_nil_of_length_eq_zero (by simpa using hl.symm)
    subst this
    exact ⟨⟨[], rfl, rfl, by intro x hx; cases hx⟩, ⟨[], rfl, rfl, by intro x hx; cases hx⟩⟩
  | cons x xs ih =>
    intro t hl ha ht
    cases t with
    | nil => simp at hl
    | cons y ys =>
      have hx := ha x (List.mem_cons_self ..)
      have hy := ht y (List.mem_cons_self ..)
      obtain ⟨⟨r1, h1, l1, b1⟩, ⟨r2, h2, l2, b2⟩⟩ := ih ys (by simpa using hl)
        (fun z hz => ha z (List.mem_cons_of_mem _ hz)) (fun z hz => ht z (List.mem_cons_of_mem _ hz))
      constructor
      · refine ⟨(x + y) :: r1, ?_, by simp [l1], ?_⟩
        · unfold zipL; rw [add32_ok _ _ (by omega), h1]; rfl
        · intro z hz; rcases List.mem_cons.mp hz with rfl | hz
          · omega
          · exact b1 z hz
      · refine ⟨(x - y) :: r2, ?_, by simp [l2], ?_⟩
        · unfold zipL; rw [sub32_ok _ _ (by omega), h2]; rfl
        · intro z hz; rcases List.mem_cons.mp hz with rfl | hz
          · omega
          · exact b2 z hz

theorem Bd_mono (C D : Int) (h : C ≤ D) (l : List Int) (hb : Bd C l) : Bd D l := by
  intro x hx; have := hb x hx; omega

/-- inverse butterfly on one block -/
theorem invBlock_bound (z : Int) (hz : -4190208 ≤ z ∧ z ≤ 4190208) (C : Int) (hC : 2 * C ≤ 2147483648) (hCq : Q ≤ 2 * C)
    (blk : List Int) (len : Nat) (hl : blk.length = 2 * len) (hb : Bd C blk) :
    ∃ r, invBlock z blk len = .ok r ∧ r.length = 2 * len ∧ Bd (2 * C) r := by
  unfold invBlock
  have hlo : Bd C (blk.take len) := fun x hx => hb x (List.mem_of_mem_take hx)
  have hhi : Bd C (blk.drop len) := fun x hx => hb x (List.mem_of_mem_drop hx)
  have hlen : (blk.take len).length = (blk.drop len).length := by simp [List.length_take, List.length_drop]; omega
  obtain ⟨⟨ra, ha, la, ba⟩, ⟨rd, hd, ld, bd⟩⟩ := zip_addsub2 C hC (blk.take len) (blk.drop len) hlen hlo hhi
  obtain ⟨t, ht, htl, htb⟩ := mapL_mulZeta z hz rd (Bd_mono _ _ hC rd bd)
  refine ⟨ra ++ t, ?_, ?_, Bd_append _ _ _ ba (Bd_mono _ _ hCq t htb)⟩
  · simp only [ha, ok_bind, hd, ht]
  · simp only [List.length_append, la, htl, ld, List.length_take]; omega

theorem invLayerGo_bound (len : Nat) (C : Int) (hC : 2 * C ≤ 2147483648) (hCq : Q ≤ 2 * C) : ∀ (blocks : List (List Int)) (k : Nat),
    (∀ b ∈ blocks, b.length = 2 * len ∧ Bd C b) →
    ∃ r, invLayerGo len k blocks = .ok r ∧ r.length = blocks.length * (2 * len) ∧ Bd (2 * C) r := by
  intro blocks
  induction blocks with
  | nil => intro k _; exact ⟨[], rfl, by simp, by intro x hx; cases hx⟩
  | cons b bs ih =>
    intro k h
    obtain ⟨hbl, hbb⟩ := h b (List.mem_cons_self ..)
    have hzb := zeta_bound (k - 1)
    obtain ⟨r1, h1, l1, b1⟩ := invBlock_bound (0 - zeta (k - 1)) (by omega) C hC hCq b len hbl hbb
    obtain ⟨r2, h2, l2, b2⟩ := ih (k - 1) (fun x hx => h x (List.mem_cons_of_mem _ hx))
    refine ⟨r1 ++ r2, ?_, ?_, Bd_append _ _ _ b1 b2⟩
    · unfold invLayerGo; rw [sub32_ok _ _ (by omega)]; simp only [ok_bind]; rw [h1, h2]; rfl
    · simp only [List.length_append, l1, l2, List.length_cons, Nat.succ_mul]; omega

theorem invLayer_bound (len k0 : Nat) (hlen : 0 < len) (C : Int) (hC : 2 * C ≤ 2147483648) (hCq : Q ≤ 2 * C) (a : List Int)
    (hd : a.length % (2 * len) = 0) (hb : Bd C a) :
    ∃ r, invLayer len k0 a = .ok r ∧ r.length = a.length ∧ Bd (2 * C) r := by
  unfold invLayer
  have hmem := chunks_mem (2 * len) (by omega) a.length a rfl hd
  obtain ⟨r, h1, h2, h3⟩ := invLayerGo_bound len C hC hCq (chunks (2 * len) a) k0
    (fun b hb' => ⟨(hmem b hb').1, fun x hx => hb x ((hmem b hb').2 x hx)⟩)
  refine ⟨r, h1, ?_, h3⟩
  rw [h2, chunks_length (2 * len) (by omega) a.length a rfl hd]
  exact Nat.div_mul_cancel (Nat.dvd_of_mod_eq_zero hd)

/-- Inverse NTT: for inputs below q in magnitude no intermediate operation overflows (the running sums stay below
    2^l·q ≤ 256q < 2^31) and every output is below q in magnitude. -/
theorem invntt_bound (a : List Int) (hl : a.length = 256) (hb : Bd Q a) :
    ∃ r, invntt_tomont a = .ok r ∧ r.length = 256 ∧ Bd Q r := by
  have hq : Q = 8380417 := Q_val'
  unfold invntt_tomont
  simp only [hl, ne_eq, not_true_eq_false, if_false]
  obtain ⟨r1, h1, l1, b1⟩ := invLayer_bound 1 256 (by decide) Q (by omega) (by omega) a (by rw [hl]) hb
  obtain ⟨r2, h2, l2, b2⟩ := invLayer_bound 2 128 (by decide) (2 * Q) (by omega) (by omega) r1 (by rw [l1, hl]) b1
  obtain ⟨r3, h3, l3, b3⟩ := invLayer_bound 4 64 (by decide) (2 * (2 * Q)) (by omega) (by omega) r2 (by rw [l2, l1, hl]) b2
  obtain ⟨r4, h4, l4, b4⟩ := invLayer_bound 8 32 (by decide) (2 * (2 * (2 * Q))) (by omega) (by omega) r3 (by rw [l3, l2, l1, hl]) b3
  obtain ⟨r5, h5, l5, b5⟩ := invLayer_bound 16 16 (by decide) (2 * (2 * (2 * (2 * Q)))) (by omega) (by omega) r4 (by rw [l4, l3, l2, l1, hl]) b4
  obtain ⟨r6, h6, l6, b6⟩ := invLayer_bound 32 8 (by decide) (2 * (2 * (2 * (2 * (2 * Q))))) (by omega) (by omega) r5 (by rw [l5, l4, l3, l2, l1, hl]) b5
  obtain ⟨r7, h7, l7, b7⟩ := invLayer_bound 64 4 (by decide) (2 * (2 * (2 * (2 * (2 * (2 * Q)))))) (by omega) (by omega) r6 (by rw [l6, l5, l4, l3, l2, l1, hl]) b6
  obtain ⟨r8, h8, l8, b8⟩ := invLayer_bound 128 2 (by decide) (2 * (2 * (2 * (2 * (2 * (2 * (2 * Q))))))) (by omega) (by omega) r7 (by rw [l7, l6, l5, l4, l3, l2, l1, hl]) b7
  have hF : -4190208 ≤ Gen.F ∧ Gen.F ≤ 4190208 := by decide
  obtain ⟨t, ht, htl, htb⟩ := mapL_mulZeta Gen.F hF r8 (Bd_mono _ _ (by omega) r8 b8)
  refine ⟨t, ?_, by rw [htl, l8, l7, l6, l5, l4, l3, l2, l1, hl], htb⟩
  simp only [h1, ok_bind, h2, h3, h4, h5, h6, h7, h8, ht]

/-- the final scaling by F = 41978: |F·x| ≤ 2^32·20989 for every i32 x, so by the tight Montgomery bound the outputs of the
    inverse transform stay below (q−1)/2 + 20990, far from ±q -/
theorem mulF_tight (x t : Int) (hx : -2147483648 ≤ x ∧ x ≤ 2147483648) (h : mulZeta Gen.F x = .ok t) :
    -4211199 < t ∧ t < 4211199 := by
  have hF : Gen.F = 41978 := by decide
  unfold mulZeta at h
  rw [hF] at h
  rw [wrap64_id _ (by omega)] at h
  obtain ⟨r, hr, _, h1, h2⟩ := C14.montgomery_reduce_tight (41978 * x) 20989 (by omega) (by omega)
  rw [hr] at h; injection h with h; subst h
  omega

theorem mapL_mulF_tight : ∀ (l t : List Int), Bd 2147483648 l → mapL (mulZeta Gen.F) l = .ok t → Bd 4211199 t := by
  intro l
  induction l with
  | nil => intro t _ h; simp [mapL] at h; subst h; intro x hx; cases hx
  | cons x xs ih =>
    intro t hb h
    unfold mapL at h
    obtain ⟨y, hy, h⟩ := bind_eq_ok.mp h
    obtain ⟨ys, hys, h⟩ := bind_eq_ok.mp h
    injection h with h; subst h
    have hx := hb x (List.mem_cons_self ..)
    intro z hz
    rcases List.mem_cons.mp hz with rfl | hz
    · exact mulF_tight x z (by omega) hy
    · exact ih ys (fun w hw => hb w (List.mem_cons_of_mem _ hw)) hys z hz

/-- Inverse NTT, tight output bound: every output is below (q−1)/2 + 20991 in magnitude. -/
theorem invntt_tight (a r : List Int) (hl : a.length = 256) (hb : Bd Q a) (h : invntt_tomont a = .ok r) : Bd 4211199 r := by
  have hq : Q = 8380417 := Q_val'
  unfold invntt_tomont at h
  simp only [hl, ne_eq, not_true_eq_false, if_false] at h
  obtain ⟨r1, h1, l1, b1⟩ := invLayer_bound 1 256 (by decide) Q (by omega) (by omega) a (by rw [hl]) hb
  obtain ⟨r2, h2, l2, b2⟩ := invLayer_bound 2 128 (by decide) (2 * Q) (by omega) (by omega) r1 (by rw [l1, hl]) b1
  obtain ⟨r3, h3, l3, b3⟩ := invLayer_bound 4 64 (by decide) (2 * (2 * Q)) (by omega) (by omega) r2 (by rw [l2, l1, hl]) b2
  obtain ⟨r4, h4, l4, b4⟩ := invLayer_bound 8 32 (by decide) (2 * (2 * (2 * Q))) (by omega) (by omega) r3 (by rw [l3, l2, l1, hl]) b3
  obtain ⟨r5, h5, l5, b5⟩ := invLayer_bound 16 16 (by decide) (2 * (2 * (2 * (2 * Q)))) (by omega) (by omega) r4 (by rw [l4, l3, l2, l1, hl]) b4
  obtain ⟨r6, h6, l6, b6⟩ := invLayer_bound 32 8 (by decide) (2 * (2 * (2 * (2 * (2 * Q))))) (by omega) (by omega) r5 (by rw [l5, l4, l3, l2, l1, hl]) b5
  obtain ⟨r7, h7, l7, b7⟩ := invLayer_bound 64 4 (by decide) (2 * (2 * (2 * (2 * (2 * (2 * Q)))))) (by omega) (by omega) r6 (by rw [l6, l5, l4, l3, l2, l1, hl]) b6
  obtain ⟨r8, h8, l8, b8⟩ := invLayer_bound 128 2 (by decide) (2 * (2 * (2 * (2 * (2 * (2 * (2 * Q))))))) (by omega) (by omega) r7 (by rw [l7, l6, l5, l4, l3, l2, l1, hl]) b7
  simp only [h1, ok_bind, h2, h3, h4, h5, h6, h7, h8] at h
  exact mapL_mulF_tight r8 r (Bd_mono _ _ (by omega) r8 b8) h

end DV
