import Mathlib.Tactic.Linarith
import DilithiumVerif.Lemmas.NttInvSem
import DilithiumVerif.Impl.Poly
/-
  Lemmas.NttMul — transform, pointwise Montgomery product, inverse transform = multiplication in R[X]/(X^256 + 1).
  Polynomials over R are coefficient lists (lowest degree first); `pmul` is the schoolbook product and `nfold n`
  reduces modulo X^n + 1.
-/
namespace DV.NttMul
open DV DV.NttAlg DV.NttSem DV.NttEval DV.NttInv

variable {R : Type} [CommRing R]


/-- coefficient-wise sum, the longer list is kept to its end -/
def padd : List R → List R → List R
  | [], b => b
  | a, [] => a
  | x :: xs, y :: ys => (x + y) :: padd xs ys

theorem padd_nil_right (a : List R) : padd a [] = a := by cases a <;> rfl

theorem peval_padd (x : R) : ∀ (a b : List R), peval (padd a b) x = peval a x + peval b x
  | [], b => by simp [padd, peval_nil]
  | a :: as, [] => by simp [padd, peval_nil]
  | a :: as, b :: bs => by
      simp only [padd, peval_cons, peval_padd x as bs]; ring

theorem padd_length : ∀ (a b : List R), (padd a b).length = max a.length b.length
  | [], b => by simp [padd]
  | a :: as, [] => by simp [padd]
  | a :: as, b :: bs => by simp only [padd, List.length_cons, padd_length as bs]; omega

/-- schoolbook product of coefficient lists -/
def pmul : List R → List R → List R
  | [], _ => []
  | x :: xs, b => padd (b.map (fun v => x * v)) (0 :: pmul xs b)

theorem peval_map_mul (c x : R) : ∀ (b : List R), peval (b.map (fun v => c * v)) x = c * peval b x
  | [] => by simp [peval_nil]
  | b :: bs => by simp only [List.map_cons, peval_cons, peval_map_mul c x bs]; ring

theorem peval_pmul (x : R) : ∀ (a b : List R), peval (pmul a b) x = peval a x * peval b x
  | [], b => by simp [pmul, peval_nil]
  | a :: as, b => by
      simp only [pmul, peval_padd, peval_map_mul, peval_cons, peval_pmul x as b]; ring

theorem pmul_length : ∀ (a b : List R), a ≠ [] → b ≠ [] → (pmul a b).length = a.length + b.length - 1
  | [], _, h, _ => absurd rfl h
  | [x], b, _, hb => by
      have : 0 < b.length := List.length_pos_iff.mpr hb
      simp only [pmul, padd_length, List.length_map, List.length_cons, List.length_nil]; omega
  | x :: y :: ys, b, _, hb => by
      have : 0 < b.length := List.length_pos_iff.mpr hb
      have ih := pmul_length (y :: ys) b (by simp) hb
      simp only [List.length_cons] at ih
      rw [pmul, padd_length, List.length_map, List.length_cons, ih]
      simp only [List.length_cons]; omega

/-- reduction modulo X^n + 1 of a list of at most 2n coefficients: low part minus high part -/
def nfold (n : Nat) (c : List R) : List R := padd (c.take n) ((c.drop n).map (fun v => -v))

theorem peval_map_neg (x : R) : ∀ (b : List R), peval (b.map (fun v => -v)) x = - peval b x
  | [] => by simp [peval_nil]
  | b :: bs => by simp only [List.map_cons, peval_cons, peval_map_neg x bs]; ring

theorem peval_nfold (n : Nat) (c : List R) (x : R) (hx : x ^ n = -1) : peval (nfold n c) x = peval c x := by
  unfold nfold
  rw [peval_padd, peval_map_neg]
  conv_rhs => rw [← List.take_append_drop n c, peval_append]
  by_cases h : n ≤ c.length
  · rw [List.length_take, Nat.min_eq_left h, hx]; ring
  · have : c.drop n = [] := List.drop_eq_nil_of_le (by omega)
    rw [this]; simp [peval_nil]

/-- multiplication in R[X]/(X^256 + 1) on coefficient lists -/
def negmul (a b : List R) : List R := nfold 256 (pmul a b)

theorem negmul_length (a b : List R) (ha : a.length = 256) (hb : b.length = 256) : (negmul a b).length = 256 := by
  have hl := pmul_length a b (by intro h; rw [h] at ha; cases ha) (by intro h; rw [h] at hb; cases hb)
  unfold negmul nfold
  rw [padd_length, List.length_map, List.length_take, List.length_drop, hl, ha, hb]
  decide

/-! ### the transform, in R, is evaluation at roots with ρ^256 = −1 -/

def rho (R : Type) [CommRing R] (i : Nat) : R := ((1753 : Int) : R) ^ (2 * brv8 i + 1)

theorem nttBF_eval (M : ModQ R) (A : List R) (hA : A.length = 2 ^ 8) (i : Nat) (hi : i < 256) :
    (nttBF (zR M) 8 1 A).getD i 0 = peval A (rho R i) := by
  rw [nttBF_single (zR M) 8 1 A hA]
  have he := nttRec_eval (rR M) (zR M) 8 (tree M) 8 1 1 A (by decide) (by decide) (by decide) hA i (by simpa using hi)
  rw [psi_leaf (rR M) 8 1 i (by simpa using hi)] at he
  have e256 : 1 * 2 ^ 8 + i = 256 + i := by norm_num
  rw [e256, leaf_root M i hi] at he
  exact he

theorem rho_pow (M : ModQ R) (i : Nat) (hi : i < 256) : (rho R i) ^ 256 = -1 := by
  have h := psi_pow (rR M) (zR M) 8 (tree M) 8 1 1 i (by decide) (by decide) (by decide)
  rw [psi_leaf (rR M) 8 1 i (by simpa using hi)] at h
  have e256 : 1 * 2 ^ 8 + i = 256 + i := by norm_num
  rw [e256, leaf_root M i hi] at h
  have e : (2:Nat)^8 = 256 := by norm_num
  rw [e] at h
  unfold rho
  rw [h]
  simp [rR]

theorem nttBF_length (z : Nat → R) (A : List R) (hA : A.length = 2 ^ 8) : (nttBF z 8 1 A).length = 256 := by
  rw [nttBF_single z 8 1 A hA, nttRec_length z 8 1 A hA]; norm_num

theorem ext_getD (n : Nat) : ∀ (l1 l2 : List R), l1.length = n → l2.length = n → (∀ i, i < n → l1.getD i 0 = l2.getD i 0) → l1 = l2 := by
  intro l1 l2 h1 h2 h
  apply List.ext_getElem (by rw [h1, h2])
  intro i hi1 hi2
  have := h i (by omega)
  simp only [List.getD_eq_getElem?_getD, List.getElem?_eq_getElem hi1, List.getElem?_eq_getElem hi2, Option.getD_some] at this
  exact this

theorem castL_getD (l : List Int) (i : Nat) : (castL l : List R).getD i 0 = ((l.getD i 0 : Int) : R) := by
  simp only [castL, List.getD_eq_getElem?_getD, List.getElem?_map]
  cases l[i]? <;> simp

theorem zipWith_getD (f : R → R → R) : ∀ (a b : List R) (i : Nat), i < a.length → i < b.length →
    (List.zipWith f a b).getD i 0 = f (a.getD i 0) (b.getD i 0)
  | [], _, _, h, _ => by simp at h
  | _ :: _, [], _, _, h => by simp at h
  | x :: xs, y :: ys, 0, _, _ => by simp
  | x :: xs, y :: ys, i + 1, h1, h2 => by
      have := zipWith_getD f xs ys i (by simpa using h1) (by simpa using h2)
      simpa using this

/-- The inverse transform of the model applied to any list that, read in R, is the layered forward transform of X
    gives 2^32·X. -/
theorem invntt_of_nttBF (M : ModQ R) (b r : List Int) (X : List R) (hX : X.length = 2 ^ 8) (hbl : b.length = 256) (hbb : Bd Q b)
    (hby : (castL b : List R) = nttBF (zR M) 8 1 X) (h : invntt_tomont b = .ok r) :
    (castL r : List R) = X.map (fun v => ((4294967296 : Int) : R) * v) := by
  rw [invntt_cast M b r hbl hbb h, hby]
  have key := inttBF_nttBF (zR M) (wR M) 8 1 [X] (1 : R) (by intro b hb; simp at hb; subst hb; exact hX)
    (by intro t j ht hj
        have := pair_R M t j ht (by simpa using hj)
        have e1 : 1 * 2^t + j = 2^t + j := by rw [Nat.one_mul]
        have e2 : (1 + [X].length) * 2^t - 1 - j = 2^(t+1) - 1 - j := by simp [pow_succ]; ring_nf
        rw [e1, e2]; exact this)
  simp only [List.flatten_cons, List.flatten_nil, List.append_nil, List.length_cons, List.length_nil, one_mul, mul_one] at key
  have e0 : (fun x : R => x) = id := rfl
  rw [e0, List.map_id] at key
  rw [show (1 + (0 + 1) : Nat) = 2 from rfl] at key
  rw [key, List.map_map]
  congr 1
  funext v
  simp only [Function.comp]
  rw [← mul_assoc, F_R M]

/-! ### the pointwise product of the model -/

theorem mul_bound (x y C D : Int) (hx : -C < x ∧ x < C) (hy : -D < y ∧ y < D) : -(C * D) < x * y ∧ x * y < C * D := by
  constructor <;> nlinarith [mul_pos (show 0 < C - x by omega) (show 0 < D + y by omega),
    mul_pos (show 0 < C + x by omega) (show 0 < D - y by omega),
    mul_pos (show 0 < C - x by omega) (show 0 < D - y by omega),
    mul_pos (show 0 < C + x by omega) (show 0 < D + y by omega)]

/-- one coefficient: for |x|, |y| < 9q the product fits i64, the Montgomery reduction does not overflow, |r| < q and
    r = x·y·2^{-32} in R -/
theorem pw_coeff (M : ModQ R) (x y : Int) (hx : -(9 * Q) < x ∧ x < 9 * Q) (hy : -(9 * Q) < y ∧ y < 9 * Q) :
    ∃ r, (do let p ← mul64 x y; montgomery_reduce p) = .ok r ∧ -Q < r ∧ r < Q ∧
      ((r : Int) : R) = M.u * ((x : Int) : R) * ((y : Int) : R) := by
  have hq : Q = 8380417 := Q_val'
  have hp := mul_bound x y (9 * Q) (9 * Q) hx hy
  rw [hq] at hp hx hy
  rw [mul64_ok x y (by omega), ok_bind]
  obtain ⟨r, hr, hc, hl, hu⟩ := C14.montgomery_reduce_spec (x * y) (by rw [hq]; omega)
  refine ⟨r, hr, hl, hu, ?_⟩
  rw [hq] at hc
  have h0 := cast_of_dvd M _ hc
  rw [Int.cast_sub, Int.cast_mul, Int.cast_mul] at h0
  have h1 : ((r : Int) : R) * ((4294967296 : Int) : R) = ((x : Int) : R) * ((y : Int) : R) := sub_eq_zero.mp h0
  calc ((r : Int) : R) = ((r : Int) : R) * (M.u * ((4294967296 : Int) : R)) := by rw [M.hu, mul_one]
    _ = (((r : Int) : R) * ((4294967296 : Int) : R)) * M.u := by ring
    _ = M.u * ((x : Int) : R) * ((y : Int) : R) := by rw [h1]; ring

theorem pointwise_spec (M : ModQ R) : ∀ (a b : List Int), a.length = b.length → Bd (9 * Q) a → Bd (9 * Q) b →
    ∃ w, poly_pointwise_montgomery a b = .ok w ∧ w.length = a.length ∧ Bd Q w ∧
      (castL w : List R) = List.zipWith (fun u v => M.u * u * v) (castL a) (castL b) := by
  intro a
  induction a with
  | nil =>
    intro b hl _ _
    have : b = [] := List.eq_nil_of_length_eq_zero (by simpa using hl.symm)
    subst this
    exact ⟨[], rfl, rfl, (fun x hx => by cases hx), rfl⟩
  | cons x xs ih =>
    intro b hl ha hb
    cases b with
    | nil => simp at hl
    | cons y ys =>
      obtain ⟨w, hw, hwl, hwb, hwc⟩ := ih ys (by simpa using hl) (fun z hz => ha z (List.mem_cons_of_mem _ hz))
        (fun z hz => hb z (List.mem_cons_of_mem _ hz))
      obtain ⟨r, hr, hrl, hru, hrc⟩ := pw_coeff M x y (ha x (List.mem_cons_self ..)) (hb y (List.mem_cons_self ..))
      refine ⟨r :: w, ?_, by simp [hwl], ?_, ?_⟩
      · unfold poly_pointwise_montgomery at hw ⊢
        unfold zipL
        rw [hr, ok_bind, hw]; rfl
      · intro z hz; rcases List.mem_cons.mp hz with rfl | hz
        · exact ⟨hrl, hru⟩
        · exact hwb z hz
      · simp only [castL, List.map_cons, List.zipWith_cons_cons] at hwc ⊢
        rw [hrc, hwc]

/-- **Transform, pointwise product, inverse transform = negacyclic product.** For a, b with coefficients in (−q, q):
    every step of ntt(a), ntt(b), pointwise_montgomery, invntt_tomont succeeds without overflow, the result has
    coefficients in (−q, q), and read in R (q = 0, 2^32 invertible) it is a·b in R[X]/(X^256 + 1). -/
theorem ntt_mul (M : ModQ R) (a b : List Int) (hla : a.length = 256) (hlb : b.length = 256) (ha : Bd Q a) (hb : Bd Q b) :
    ∃ ya yb w r, ntt a = .ok ya ∧ ntt b = .ok yb ∧ poly_pointwise_montgomery ya yb = .ok w ∧ invntt_tomont w = .ok r ∧
      r.length = 256 ∧ Bd Q r ∧ (castL r : List R) = negmul (castL a) (castL b) := by
  have hq : Q = 8380417 := Q_val'
  obtain ⟨ya, hya, lya, bya⟩ := ntt_bound a hla Q (by omega) (by omega) ha
  obtain ⟨yb, hyb, lyb, byb⟩ := ntt_bound b hlb Q (by omega) (by omega) hb
  have e9 : Q + 8 * Q = 9 * Q := by ring
  rw [e9] at bya byb
  obtain ⟨w, hw, lw, bw, cw⟩ := pointwise_spec M ya yb (by rw [lya, lyb]) bya byb
  obtain ⟨r, hr, lr, br⟩ := invntt_bound w (by rw [lw, lya]) bw
  refine ⟨ya, yb, w, r, hya, hyb, hw, hr, lr, br, ?_⟩
  have hA : (castL a : List R).length = 2 ^ 8 := by simp [castL, hla]
  have hB : (castL b : List R).length = 2 ^ 8 := by simp [castL, hlb]
  have hC : (negmul (castL a) (castL b) : List R).length = 256 := negmul_length _ _ (by simpa using hA) (by simpa using hB)
  -- w, read in R, is the transform of u·(a·b)
  have hwX : (castL w : List R) = nttBF (zR M) 8 1 ((negmul (castL a) (castL b)).map (fun v => M.u * v)) := by
    apply ext_getD 256
    · simp [castL, lw, lya]
    · exact nttBF_length _ _ (by simp [hC])
    · intro i hi
      rw [nttBF_eval M _ (by simp [hC]) i hi, peval_map_mul, negmul, peval_nfold 256 _ _ (rho_pow M i hi), peval_pmul, cw,
        zipWith_getD _ _ _ i (by simp [castL, lya]; exact hi) (by simp [castL, lyb]; exact hi), castL_getD, castL_getD,
        ntt_eval M a ya hla Q (by omega) (by omega) ha hya i hi, ntt_eval M b yb hlb Q (by omega) (by omega) hb hyb i hi]
      unfold rho; ring
  rw [invntt_of_nttBF M w r _ (by simp [hC]) (by rw [lw, lya]) bw hwX hr, List.map_map]
  have : ((fun v => ((4294967296 : Int) : R) * v) ∘ fun v => M.u * v) = id := by
    funext v
    simp only [Function.comp, id]
    rw [← mul_assoc, mul_comm _ M.u, M.hu, one_mul]
  rw [this, List.map_id]

end DV.NttMul
