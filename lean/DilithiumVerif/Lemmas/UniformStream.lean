import DilithiumVerif.Lemmas.SamplerTotal
/-
  Lemmas.UniformStream — `poly::uniform` (RejNTTPoly) is the rejection filter applied to the SHAKE-128 output stream,
  block after block, including when more than the initial five blocks are needed: the result is the first 256 accepted
  candidates of the first (5 + t)·168 stream bytes, t the number of extra blocks that were squeezed.
-/
namespace DV.UniformStream
open DV DV.ShakeTotal DV.SamplerTotal DV.ShakeSmall

/-- all accepted 23-bit candidates of a byte string, three bytes at a time (CoeffFromThreeBytes) -/
def cands : List Nat → List Int
  | b0 :: b1 :: b2 :: rest => (if ((cand23 b0 b1 b2 : Nat) : Int) < Q then [((cand23 b0 b1 b2 : Nat) : Int)] else []) ++ cands rest
  | _ => []

theorem cands_short (l : List Nat) (h : l.length < 3) : cands l = [] := by
  match l, h with
  | [], _ => rfl
  | [_], _ => rfl
  | [_, _], _ => rfl

/-- the quota-limited filter of the code = accumulator ++ the first (quota − |acc|) accepted candidates -/
theorem rejSpec_cands (alen : Nat) (l : List Nat) (acc : List Int) (hle : acc.length ≤ alen) :
    rejSpec alen l acc = acc ++ (cands l).take (alen - acc.length) := by
  fun_induction rejSpec alen l acc with
  | case1 b0 b1 b2 rest acc hlt hq ih =>
    rw [ih (by simp; omega)]
    simp only [cands, if_pos hq, List.length_append, List.length_singleton, List.singleton_append, List.append_assoc]
    obtain ⟨k, hk⟩ : ∃ k, alen - acc.length = k + 1 := ⟨alen - acc.length - 1, by omega⟩
    rw [hk, List.take_succ_cons]
    have : alen - (acc.length + 1) = k := by omega
    rw [this]
  | case2 b0 b1 b2 rest acc hlt hq ih =>
    rw [ih hle]
    simp only [cands, if_neg hq, List.nil_append]
  | case3 b0 b1 b2 rest acc hlt =>
    have : alen - acc.length = 0 := by omega
    rw [this, List.take_zero, List.append_nil]
  | case4 l acc hne =>
    have : cands l = [] := by
      match l, hne with
      | [], _ => rfl
      | [_], _ => rfl
      | [_, _], _ => rfl
      | b0 :: b1 :: b2 :: rest, h => exact absurd rfl (h b0 b1 b2 rest)
    rw [this, List.take_nil, List.append_nil]

theorem cands_append : ∀ (n : Nat) (A B : List Nat), A.length = 3 * n → cands (A ++ B) = cands A ++ cands B := by
  intro n
  induction n with
  | zero => intro A B h; have : A = [] := List.eq_nil_of_length_eq_zero (by omega); subst this; simp [cands]
  | succ n ih =>
    intro A B h
    match A, h with
    | b0 :: b1 :: b2 :: rest, h =>
      simp only [List.cons_append, cands, List.append_assoc]
      rw [ih rest B (by simp at h; omega)]

end DV.UniformStream

namespace DV.UniformStream
open DV DV.ShakeTotal DV.SamplerTotal DV.ShakeSmall

/-- the first n rate blocks of the output stream of a sponge with permutation f from a finalized state -/
def streamOf (f : Lanes → Lanes) (r : Nat) (s : Lanes) (n : Nat) : List Nat := (keccak_squeezeblocks_loop f r n [] s).1
def afterOf (f : Lanes → Lanes) (r : Nat) (s : Lanes) (n : Nat) : Lanes := (keccak_squeezeblocks_loop f r n [] s).2

theorem loop_acc (f : Lanes → Lanes) (r : Nat) : ∀ (n : Nat) (acc : List Nat) (s : Lanes),
    keccak_squeezeblocks_loop f r n acc s = (acc ++ streamOf f r s n, afterOf f r s n) := by
  intro n
  induction n with
  | zero => intro acc s; simp [keccak_squeezeblocks_loop, streamOf, afterOf]
  | succ n ih =>
    intro acc s
    unfold streamOf afterOf
    unfold keccak_squeezeblocks_loop
    simp only [List.nil_append]
    rw [ih (acc ++ _), ih (List.map _ _)]
    simp only [List.append_assoc]

/-- 1 + k blocks = one block, then k blocks from the state it left -/
theorem stream_one_add (f : Lanes → Lanes) (r : Nat) (s : Lanes) (k : Nat) :
    streamOf f r s (k + 1) = streamOf f r s 1 ++ streamOf f r (afterOf f r s 1) k ∧
    afterOf f r s (k + 1) = afterOf f r (afterOf f r s 1) k := by
  have e1 : keccak_squeezeblocks_loop f r (k + 1) [] s =
      keccak_squeezeblocks_loop f r k ([] ++ (List.range (8 * (r / 8))).map (fun j => getByte (f s) j)) (f s) := by
    rw [keccak_squeezeblocks_loop]
  have e2 : keccak_squeezeblocks_loop f r 1 [] s = ([] ++ (List.range (8 * (r / 8))).map (fun j => getByte (f s) j), f s) := by
    rw [keccak_squeezeblocks_loop, keccak_squeezeblocks_loop]
  unfold streamOf afterOf
  rw [e1, e2, loop_acc]
  exact ⟨rfl, rfl⟩

def stream128 (s : Lanes) (n : Nat) : List Nat := streamOf keccakf R128 s n
def after128 (s : Lanes) (n : Nat) : Lanes := afterOf keccakf R128 s n

theorem stream_len (s : Lanes) (n : Nat) : (stream128 s n).length = n * R128 := by
  unfold stream128 streamOf
  rw [squeezeblocks_loop_eq keccakf R128 (by decide) (by decide) n [] s]
  simp only [List.nil_append]
  exact squeezeSpec_length keccakf R128 (by decide) (n * R128) s R128 (Nat.le_refl _)

theorem sq_blocks (cap n : Nat) (st : KeccakState) (hc : n * R128 ≤ cap) :
    shake128_squeezeblocks cap n st = .ok (stream128 st.s n, { st with s := after128 st.s n }) := by
  have hr : R128 = 168 := by decide
  have hcond : n = 0 ∨ (n - 1) * R128 + 8 * (R128 / 8) ≤ cap := by
    by_cases h0 : n = 0
    · exact Or.inl h0
    · right
      have e8 : 8 * (R128 / 8) = R128 := by rw [hr]
      rw [e8]
      have : (n - 1) * R128 + R128 = n * R128 := by
        obtain ⟨m, rfl⟩ : ∃ m, n = m + 1 := ⟨n - 1, by omega⟩
        rw [Nat.add_sub_cancel, Nat.succ_mul]
      omega
  unfold shake128_squeezeblocks keccak_squeezeblocks
  rw [if_pos hcond]; rfl

theorem blit_zero_nil {α} (dst : List α) : blit dst 0 ([] : List α) = .ok dst := by
  unfold blit
  rw [if_pos (by simp)]
  simp

theorem stream_zero (s : Lanes) : stream128 s 0 = [] := by
  unfold stream128 streamOf; rw [keccak_squeezeblocks_loop]

/-- the refill loop: every extra block is filtered with the remaining quota and appended -/
theorem uniform_loop_stream : ∀ (fuel : Nat) (st : KeccakState) (buf : List Nat) (buflen : Nat) (acc r : List Int),
    buf.length = 842 → buflen % 3 = 0 → buflen ≤ 842 → acc.length ≤ N → uniform_loop fuel st buf buflen acc = .ok r →
    ∃ t, r = acc ++ (cands (stream128 st.s t)).take (N - acc.length) := by
  have hR : R128 = 168 := by decide
  intro fuel
  induction fuel with
  | zero => intro st buf buflen acc r _ _ _ _ h; simp [uniform_loop] at h
  | succ n ih =>
    intro st buf buflen acc r hb hoff hbl hacc h
    unfold uniform_loop at h
    by_cases hlt : acc.length < N
    · rw [if_pos hlt] at h
      dsimp only at h
      rw [hoff] at h
      have hsl : sliceC buf (buflen - 0) buflen = .ok [] := by
        unfold sliceC; rw [if_pos ⟨by omega, by rw [hb]; exact hbl⟩]; simp
      rw [hsl, ok_bind, blit_zero_nil, ok_bind, sq_blocks (buf.length - 0) 1 st (by rw [hb, hR]; omega), ok_bind] at h
      simp only at h
      have hs1 : (stream128 st.s 1).length = 168 := by rw [stream_len, hR]
      obtain ⟨buf2, hb2, l2⟩ := blit_ok buf 0 (stream128 st.s 1) (by rw [hs1, hb]; omega)
      rw [hb2, ok_bind] at h
      have hbuf2 : buf2.take (R128 + 0) = stream128 st.s 1 := by
        unfold blit at hb2
        rw [if_pos (by rw [hs1, hb]; omega)] at hb2
        injection hb2 with hb2
        rw [← hb2, List.take_zero, List.nil_append, Nat.add_zero, hR, ← hs1, List.take_append_of_le_length (Nat.le_refl _), List.take_length]
      rw [rej_uniform_eq _ _ buf2 (R128 + 0) (by rw [l2, hb, hR]; omega) (Nat.le_refl _), ok_bind, hbuf2] at h
      rw [rejSpec_cands _ _ [] (by simp)] at h
      simp only [List.nil_append, List.length_nil, Nat.sub_zero] at h
      obtain ⟨t, ht⟩ := ih { st with s := after128 st.s 1 } buf2 (R128 + 0) _ r (by rw [l2, hb]) (by decide) (by rw [hR]; omega)
        (by rw [List.length_append, List.length_take]; omega) h
      refine ⟨t + 1, ?_⟩
      have hsplit : stream128 st.s (t + 1) = stream128 st.s 1 ++ stream128 (after128 st.s 1) t :=
        (stream_one_add keccakf R128 st.s t).1
      have e : N - (acc ++ List.take (N - acc.length) (cands (stream128 st.s 1))).length
          = N - acc.length - (cands (stream128 st.s 1)).length := by
        rw [List.length_append, List.length_take]; omega
      rw [ht, hsplit, cands_append 56 _ _ (by rw [hs1]), List.append_assoc, e, List.take_append]
    · rw [if_neg hlt] at h
      injection h with h; subst h
      refine ⟨0, ?_⟩
      rw [stream_zero]
      simp [cands]

end DV.UniformStream

namespace DV.UniformStream
open DV DV.ShakeTotal DV.SamplerTotal DV.ShakeSmall DV.Ranges

theorem stream_add_gen (f : Lanes → Lanes) (r : Nat) : ∀ (a : Nat) (s : Lanes) (b : Nat),
    streamOf f r s (a + b) = streamOf f r s a ++ streamOf f r (afterOf f r s a) b ∧
    afterOf f r s (a + b) = afterOf f r (afterOf f r s a) b := by
  intro a
  induction a with
  | zero =>
    intro s b
    have h0 : afterOf f r s 0 = s := by unfold afterOf; rw [keccak_squeezeblocks_loop]
    have h1 : streamOf f r s 0 = [] := by unfold streamOf; rw [keccak_squeezeblocks_loop]
    rw [Nat.zero_add, h1, List.nil_append, h0]; exact ⟨rfl, rfl⟩
  | succ a ih =>
    intro s b
    have e : a + 1 + b = (a + b) + 1 := by omega
    obtain ⟨x1, x2⟩ := stream_one_add f r s (a + b)
    obtain ⟨y1, y2⟩ := stream_one_add f r s a
    obtain ⟨z1, z2⟩ := ih (afterOf f r s 1) b
    rw [e, x1, x2, y1, y2, z1, z2, List.append_assoc]
    exact ⟨rfl, rfl⟩

theorem stream_add (s : Lanes) (a b : Nat) : stream128 s (a + b) = stream128 s a ++ stream128 (after128 s a) b :=
  (stream_add_gen keccakf R128 a s b).1

theorem init_filter (s : Lanes) (hs5 : (stream128 s 5).length = 840) :
    rej_uniform N N (stream128 s 5 ++ List.replicate 2 0) 840 = .ok ((cands (stream128 s 5)).take N) := by
  rw [rej_uniform_eq _ _ _ 840 (by rw [List.length_append, hs5]; simp) (Nat.le_refl _)]
  have e : (840 : Nat) = (stream128 s 5).length := hs5.symm
  rw [e, List.take_append_of_le_length (Nat.le_refl _), List.take_length, rejSpec_cands _ _ [] (Nat.zero_le _)]
  rw [List.nil_append, List.length_nil, Nat.sub_zero]

theorem poly_uniform_unfold (fuel : Nat) (seed : List Nat) (nonce : Nat) (r : List Int) (h : poly_uniform fuel seed nonce = .ok r) :
    ∃ st, shake128_stream_init seed nonce = .ok st ∧
      uniform_loop fuel { st with s := after128 st.s 5 } (stream128 st.s 5 ++ List.replicate 2 0) 840 ((cands (stream128 st.s 5)).take N) = .ok r := by
  have hR : R128 = 168 := by decide
  have hNB : UNIFORM_NBLOCKS = 5 := by decide
  unfold poly_uniform at h
  obtain ⟨st, hst, h⟩ := bind_eq_ok.mp h
  refine ⟨st, hst, ?_⟩
  dsimp only at h
  have hs5 : (stream128 st.s 5).length = 840 := by rw [stream_len, hR]
  rw [hNB, hR] at h
  rw [sq_blocks (5 * 168 + 2) 5 st (by rw [hR]; omega), ok_bind] at h
  dsimp only at h
  rw [hs5] at h
  have e2 : 5 * 168 + 2 - 840 = 2 := by decide
  have e3 : 5 * 168 = 840 := by decide
  rw [e2, e3, init_filter st.s hs5, ok_bind] at h
  exact h

/-- **RejNTTPoly** (FIPS 204 Alg. 30 / the Dilithium matrix-entry sampler): `poly::uniform(ρ, nonce)` is the first 256
    accepted 23-bit candidates of the SHAKE-128 stream of ρ ‖ nonce, read three bytes at a time; the number of blocks read is
    5 + t for the number t of refills the loop needed. -/
theorem poly_uniform_is_stream_filter (fuel : Nat) (seed : List Nat) (nonce : Nat) (r : List Int)
    (h : poly_uniform fuel seed nonce = .ok r) :
    ∃ st t, shake128_stream_init seed nonce = .ok st ∧ r = (cands (stream128 st.s (5 + t))).take 256 ∧ r.length = 256 := by
  have hR : R128 = 168 := by decide
  have hN : N = 256 := by decide
  have hlen := (poly_uniform_std fuel seed nonce r h).1
  obtain ⟨st, hst, hloop⟩ := poly_uniform_unfold fuel seed nonce r h
  have hs5 : (stream128 st.s 5).length = 840 := by rw [stream_len, hR]
  obtain ⟨t, ht⟩ := uniform_loop_stream fuel { st with s := after128 st.s 5 } _ 840 _ r
    (by rw [List.length_append, hs5, List.length_replicate]) (by decide) (by decide) (by rw [List.length_take]; omega) hloop
  refine ⟨st, t, hst, ?_, hlen⟩
  have e : N - (List.take N (cands (stream128 st.s 5))).length = N - (cands (stream128 st.s 5)).length := by
    rw [List.length_take]; omega
  rw [ht, stream_add st.s 5 t, cands_append 280 _ _ hs5, e, ← List.take_append, hN]

end DV.UniformStream
