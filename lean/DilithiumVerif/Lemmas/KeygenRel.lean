import DilithiumVerif.Lemmas.Complete
import DilithiumVerif.Lemmas.Ranges
/-
  Lemmas.KeygenRel — what key generation establishes: t1·2^13 + t0 = A·s1 + s2 (read at the 256 roots, in ℤ/q),
  with the ranges of all parts.
-/
namespace DV.Complete
open DV DV.NttSem DV.PolySem DV.VecSem DV.RoundSem DV.NttMul DV.NttZ DV.Ranges

/-- A·v for a vector of small polynomials: transform, row products, reduction, inverse transform -/
theorem Av_sem (p : Params) (hp : p ∈ allParams) (mat : List PolyVec) (hmat : MatOK p mat) (y : PolyVec) (B : Int)
    (hB0 : 0 < B) (hBQ : B ≤ Q) (hyl : y.length = p.l) (hy : ∀ a ∈ y, PolyOK B a) :
    ∃ yh wA wB wC, vec_ntt y = .ok yh ∧ matrix_pointwise_montgomery mat yh = .ok wA ∧ vec_reduce wA = .ok wB ∧
      vec_invntt_tomont wB = .ok wC ∧ wC.length = p.k ∧ (∀ a ∈ wC, PolyOK 4211199 a) ∧
      ∀ r, r < p.k → ∀ i, i < 256 → (El (wC.getD r []) i : K) = rowDot (mat.getD r []) y p.l i := by
  have hq : Q = 8380417 := Q_val'
  obtain ⟨hl0, hl7, hk0, hk8, _⟩ := params_facts p hp
  obtain ⟨yh, e1, r1⟩ := vec_ntt_sem MK B hB0 (by rw [hq] at hBQ ⊢; omega) y hy
  have hyhl : yh.length = p.l := by rw [r1.length, hyl]
  have hyh9 : ∀ a ∈ yh, PolyOK (9 * Q) a := r1.right (fun _ _ h => h.1.mono (by rw [hq] at hBQ ⊢; omega))
  obtain ⟨wA, e2, r2⟩ := matrix_sem MK mat yh (by rw [hyhl]; exact hl0) (by rw [hyhl]; omega)
    (fun row hrow => ⟨by rw [(hmat.2 row hrow).1, hyhl], fun a ha => (Std.polyOK ((hmat.2 row hrow).2 a ha)).mono (by rw [hq]; omega)⟩) hyh9
  obtain ⟨wB, e3, r3⟩ := vec_reduce_sem MK wA (r2.right (fun _ _ h => h.1.mono (by rw [hq]; omega)))
  obtain ⟨wC, e4, r4⟩ := vec_invntt_sem MK wB (r3.right (fun _ _ h => h.1.mono (by rw [hq]; omega)))
  have hwBq : ∀ a ∈ wB, PolyOK Q a := r3.right (fun _ _ h => h.1.mono (by rw [hq]; omega))
  have htight := vec_invntt_tight wB wC hwBq e4
  refine ⟨yh, wA, wB, wC, e1, e2, e3, e4, ?_, fun a ha => ⟨(All2.right (B := PolyOK Q) (fun _ _ h => h.1) r4 a ha).1, htight a ha⟩, ?_⟩
  · rw [r4.length, r3.length, r2.length, hmat.1]
  · intro r hr i hi
    have hrm : r < mat.length := by rw [hmat.1]; exact hr
    have f2 := r2.getD [] [] r hrm
    have f3 := r3.getD [] [] r (by rw [r2.length]; exact hrm)
    have f4 := r4.getD [] [] r (by rw [r3.length, r2.length]; exact hrm)
    rw [f4.2 i hi, Vl_congr _ _ f3.2 i, f2.2 i hi]
    have hrow := hmat.2 (mat.getD r []) (getD_mem mat r [] hrm)
    rw [dotV_rowDot (mat.getD r []) y yh i hi (by rw [hrow.1, hyhl]) (r1.mono (fun _ _ h => h.2)), hrow.1]
    have hu : MK.u * ((4294967296 : Int) : K) = 1 := MK.hu
    calc ((4294967296 : Int) : K) * (MK.u * rowDot (mat.getD r []) y p.l i)
        = (MK.u * ((4294967296 : Int) : K)) * rowDot (mat.getD r []) y p.l i := by ring
      _ = rowDot (mat.getD r []) y p.l i := by rw [hu, one_mul]

/-- coefficient relation of Power2Round -/
def P2C (a hi lo : Int) : Prop := a = hi * 8192 + lo ∧ -4096 < lo ∧ lo ≤ 4096 ∧ 0 ≤ hi ∧ hi < 1024

theorem poly_power2round_sem (a : List Int) (ha : Std a) :
    ∃ hi lo, poly_power2round a = .ok (hi, lo) ∧ All3 P2C a hi lo := by
  obtain ⟨r, hr, h2⟩ := mapL_total power2round (fun x => 0 ≤ x ∧ x < Q) (fun x (y : Int × Int) => P2C x y.2 y.1)
    (fun x hx => by
      obtain ⟨a0, a1, h1, h2, h3, h4, h5, h6⟩ := C15.power2round_spec x hx
      exact ⟨(a0, a1), h1, h2, h3, h4, h5, by omega⟩) a ha.2
  refine ⟨r.map (·.2), r.map (·.1), ?_, ?_⟩
  · unfold poly_power2round; rw [hr]; rfl
  · have h3 : All2 (fun x (bc : Int × Int) => (fun x lo hi => P2C x hi lo) x bc.1 bc.2) a r := h2
    exact All3.swap23 (all2_unzip (P := fun x lo hi => P2C x hi lo) h3)

theorem k_power2round_sem (v : PolyVec) (hv : ∀ a ∈ v, Std a) :
    ∃ v1 v0, k_power2round v = .ok (v1, v0) ∧ All3 (fun a hi lo => a.length = 256 ∧ All3 P2C a hi lo) v v1 v0 := by
  obtain ⟨r, hr, h2⟩ := mapL_total poly_power2round Std (fun a (y : Poly × Poly) => a.length = 256 ∧ All3 P2C a y.1 y.2)
    (fun a ha => by
      obtain ⟨hi, lo, h1, h2⟩ := poly_power2round_sem a ha
      exact ⟨(hi, lo), h1, ha.1, h2⟩) v hv
  refine ⟨r.map (·.1), r.map (·.2), ?_, all2_unzip (P := fun a hi lo => a.length = 256 ∧ All3 P2C a hi lo) h2⟩
  unfold k_power2round; rw [hr]; rfl

theorem p2_cast : ∀ {a hi lo : List Int}, All3 P2C a hi lo →
    (castL a : List K) = List.zipWith (fun u v => u + v) ((castL hi).map (fun v => ((8192 : Int) : K) * v)) (castL lo)
  | _, _, _, .nil => rfl
  | _, _, _, .cons h t => by
      have ih := p2_cast t
      simp only [castL, List.map_cons, List.zipWith_cons_cons] at ih ⊢
      rw [ih, h.1]
      congr 1
      push_cast; ring

/-- what the arithmetic of key generation establishes -/
structure KeyFacts (p : Params) (mat : List PolyVec) (s1 s2 t1 t0 : PolyVec) : Prop where
  mat_ok : MatOK p mat
  s1l : s1.length = p.l
  s2l : s2.length = p.k
  t1l : t1.length = p.k
  t0l : t0.length = p.k
  s1s : ∀ a ∈ s1, a.length = 256 ∧ SmallE (etaI p.lvl) a
  s2s : ∀ a ∈ s2, a.length = 256 ∧ SmallE (etaI p.lvl) a
  t1s : ∀ a ∈ t1, T1OK a
  t0s : ∀ a ∈ t0, a.length = 256 ∧ ∀ x ∈ a, -4096 < x ∧ x ≤ 4096
  rel : KeyRel p mat s1 s2 t0 t1
  /-- t = t1·2^13 + t0 is the representative of A·s1 + s2 with coefficients in [0, q) -/
  tstd : ∀ r, r < p.k → ∀ j, j < 256 → 0 ≤ (t1.getD r []).getD j 0 * 8192 + (t0.getD r []).getD j 0 ∧
    (t1.getD r []).getD j 0 * 8192 + (t0.getD r []).getD j 0 < Q

theorem etaI_le (lv : Lvl) : 0 ≤ etaI lv ∧ etaI lv ≤ 4 := by cases lv <;> decide

theorem small_polyOK {lv : Lvl} {a : List Int} (h : a.length = 256 ∧ SmallE (etaI lv) a) (C : Int) (hC : 5 ≤ C) : PolyOK C a :=
  ⟨h.1, fun x hx => by have := h.2 x hx; have := etaI_le lv; omega⟩

set_option maxHeartbeats 1600000 in
/-- **Key generation** (C04): for every seed on which `keygen_core` succeeds, the public matrix is well formed, the
    secret vectors are short, t1 and t0 are in range and t1·2^13 + t0 = A·s1 + s2 in ℤ_q[X]/(X^256+1), read at
    the 256 roots. -/
theorem keygen_facts (p : Params) (hp : p ∈ allParams) (seed rho key : List Nat) (s1 s2 t1 t0 : PolyVec)
    (h : keygen_core p seed = .ok (rho, key, s1, s2, t1, t0)) :
    ∃ mat, matrix_expand p FUEL rho = .ok mat ∧ KeyFacts p mat s1 s2 t1 t0 := by
  have hq : Q = 8380417 := Q_val'
  obtain ⟨hl0, hl7, hk0, hk8, _⟩ := params_facts p hp
  unfold keygen_core at h
  obtain ⟨seedbuf, _, h⟩ := bind_eq_ok.mp h
  simp only at h
  obtain ⟨mat, hme, h⟩ := bind_eq_ok.mp h
  obtain ⟨s1', hs1, h⟩ := bind_eq_ok.mp h
  obtain ⟨s2', hs2, h⟩ := bind_eq_ok.mp h
  have hmat : MatOK p mat := by
    have := matrix_expand_ok p FUEL _ mat hme
    exact ⟨this.1, fun row hrow => ⟨(this.2 row hrow).1, fun a ha => (this.2 row hrow).2 a ha⟩⟩
  have hs1r := vec_uniform_eta_small p.lvl FUEL _ p.l 0 s1' hs1
  have hs2r := vec_uniform_eta_small p.lvl FUEL _ p.k _ s2' hs2
  obtain ⟨yh, wA, wB, wC, e1, e2, e3, e4, hwCl, hwCb, hwCE⟩ := Av_sem p hp mat hmat s1' 5 (by omega) (by rw [hq]; omega) hs1r.1
    (fun a ha => small_polyOK (hs1r.2 a ha) 5 (by omega))
  obtain ⟨_, h', h⟩ := bind_eq_ok.mp h; rw [e1] at h'; injection h' with h'; subst h'
  obtain ⟨_, h', h⟩ := bind_eq_ok.mp h; rw [e2] at h'; injection h' with h'; subst h'
  obtain ⟨_, h', h⟩ := bind_eq_ok.mp h; rw [e3] at h'; injection h' with h'; subst h'
  obtain ⟨_, h', h⟩ := bind_eq_ok.mp h; rw [e4] at h'; injection h' with h'; subst h'
  obtain ⟨tA, e5, r5⟩ := vec_add_sem (R := K) 4211199 5 (by omega) wC s2' (by rw [hwCl, hs2r.1]) hwCb
    (fun a ha => small_polyOK (hs2r.2 a ha) 5 (by omega))
  obtain ⟨_, h', h⟩ := bind_eq_ok.mp h; rw [e5] at h'; injection h' with h'; subst h'
  obtain ⟨t, e6, r6⟩ := vec_caddq_sem MK tA (r5.out (fun _ _ _ h => h.1.mono (by rw [hq]; omega)))
  obtain ⟨_, h', h⟩ := bind_eq_ok.mp h; rw [e6] at h'; injection h' with h'; subst h'
  obtain ⟨v1, v0, e7, r7⟩ := k_power2round_sem t (r6.right (fun _ _ h => h.1))
  obtain ⟨⟨t1', t0'⟩, h', h⟩ := bind_eq_ok.mp h
  rw [e7] at h'; injection h' with h'; injection h' with h1' h2'; subst h1'; subst h2'
  simp only at h
  injection h with h
  injection h with hrho h
  injection h with hkey h
  injection h with hs1e h
  injection h with hs2e h
  injection h with ht1e ht0e
  rw [← hrho, ← hs1e, ← hs2e, ← ht1e, ← ht0e]
  have htAl : tA.length = p.k := by rw [r5.length.2, hwCl]
  have htl : t.length = p.k := by rw [r6.length, htAl]
  refine ⟨mat, hme, ⟨hmat, hs1r.1, hs2r.1, by rw [r7.length.1, htl], by rw [r7.length.2, htl], hs1r.2, hs2r.2, ?_, ?_, ?_, ?_⟩⟩
  · exact r7.mid (B := T1OK) (fun a hi lo h3 => ⟨h3.2.length.1.trans h3.1, h3.2.mid (fun _ _ _ hd => ⟨hd.2.2.2.1, hd.2.2.2.2⟩)⟩)
  · exact r7.out (C := fun lo => lo.length = 256 ∧ ∀ x ∈ lo, -4096 < x ∧ x ≤ 4096)
      (fun a hi lo h3 => ⟨h3.2.length.2.trans h3.1, h3.2.out (fun _ _ _ hd => ⟨hd.2.1, hd.2.2.1⟩)⟩)
  · intro r hr i hi
    have f5 := r5.getD [] [] [] r (by rw [hwCl]; exact hr)
    have f6 := r6.getD [] [] r (by rw [htAl]; exact hr)
    have f7 := r7.getD [] [] [] r (by rw [htl]; exact hr)
    have hwCr := hwCb _ (getD_mem wC r [] (by rw [hwCl]; exact hr))
    have hs2r' := hs2r.2 _ (getD_mem s2' r [] (by rw [hs2r.1]; exact hr))
    have l1 : (v1.getD r []).length = 256 := f7.2.length.1.trans f7.1
    have l0 : (v0.getD r []).length = 256 := f7.2.length.2.trans f7.1
    have E_t : (El (t.getD r []) i : K) = ((8192 : Int) : K) * El (v1.getD r []) i + El (v0.getD r []) i := by
      unfold El
      rw [p2_cast f7.2, Ev_add _ _ (by simp only [castL, List.length_map]; rw [l1, l0]), Ev_smul]
    have E_t2 : (El (t.getD r []) i : K) = El (wC.getD r []) i + El (s2'.getD r []) i := by
      rw [El_congr _ _ f6.2 i, El_add _ _ _ (by rw [hwCr.1, hs2r'.1]) f5.2 i]
    rw [← E_t, E_t2, hwCE r hr i hi]
  · intro r hr j hj
    have f7 := r7.getD [] [] [] r (by rw [htl]; exact hr)
    have hstd : Std (t.getD r []) := (r6.right (B := Std) (fun _ _ h => h.1)) _ (getD_mem t r [] (by rw [htl]; exact hr))
    have g := f7.2.getD 0 0 0 j (by rw [f7.1]; exact hj)
    have hx := hstd.2 _ (getD_mem (t.getD r []) j 0 (by rw [hstd.1]; exact hj))
    rw [← g.1]
    exact hx

end DV.Complete
