import DilithiumVerif.Lemmas.SignSpec
import DilithiumVerif.Lemmas.EndToEnd
/-
  Lemmas.SignFips — signing is the specification's function: the signature returned by `signature` is the output of
  ML-DSA.Sign_internal's rejection loop (FIPS 204 Alg. 7) / Dilithium 3.1 Sign on the decoded key, μ and ρ″: the
  encoding of the first iteration κ the specification accepts, every earlier iteration being rejected by the
  specification as well; and that output is unique.
-/
namespace DV.SignFips
open DV DV.NttSem DV.PolySem DV.VecSem DV.NttMul DV.NttZ DV.Ranges DV.Containers DV.Complete DV.XofSpec DV.EncodeSpec
  DV.SignSpec DV.ShakeSmall

/-- the output of the specification's loop: accepted at κ, rejected before -/
def IsLoopOutput (p : Params) (mat : List PolyVec) (s1 s2 t0 : PolyVec) (mu rp : List Nat) (κ : Nat) (sig : List Nat) : Prop :=
  Accepts p mat s1 s2 t0 mu rp κ sig ∧ ∀ j, j < κ → ∀ σ', ¬ Accepts p mat s1 s2 t0 mu rp j σ'

set_option maxHeartbeats 1600000 in
theorem sign_loop_is_spec (p : Params) (hp : p ∈ allParams) (mat : List PolyVec) (s1 s2 t1 t0 s1h s2h t0h : PolyVec)
    (kf : KeyFacts p mat s1 s2 t1 t0) (e1 : vec_ntt s1 = .ok s1h) (e2 : vec_ntt s2 = .ok s2h) (e0 : vec_ntt t0 = .ok t0h)
    (mu rp : List Nat) (hmu : mu.length = CRHBYTES) (hrp : rp.length = CRHBYTES) (fuel : Nat) (sig : List Nat)
    (hloop : sign_loop p mat mu rp s1h s2h t0h fuel 0 = .ok (some sig)) :
    ∃ κ, κ < fuel ∧ IsLoopOutput p mat s1 s2 t0 mu rp κ sig ∧
      ∀ κ' σ', IsLoopOutput p mat s1 s2 t0 mu rp κ' σ' → κ' = κ ∧ σ' = sig := by
  obtain ⟨_, _, _, _, hg1, _⟩ := params_facts p hp
  obtain ⟨j, hj, hacc, hrej⟩ := C01.sign_loop_some p mat mu rp s1h s2h t0h fuel 0 sig hloop
  have kd := keyData_of_facts p mat s1 s2 t1 t0 s1h s2h t0h kf e1 e2 e0
  have key : SignKey p s2 := ⟨hp, kf.s2l, kf.s2s⟩
  have Hy : ∀ (n : Int) y, l_uniform_gamma1 p rp n = .ok y → y.length = p.l ∧ ∀ a ∈ y, PolyOK ((p.gamma1 : Int) + 1) a := by
    intro n y hy
    have := l_uniform_gamma1_range p rp _ y hy
    exact ⟨this.1, fun a ha => ⟨(this.2 a ha).1, fun x hx => by have := (this.2 a ha).2 x hx; rw [hg1]; omega⟩⟩
  have Hc : ∀ ct cp, poly_challenge p FUEL ct = .ok cp → PolyOK 2 cp := by
    intro ct cp h
    have := challenge_tern p FUEL ct cp h
    exact ⟨this.1, fun x hx => by have := this.2 x hx; omega⟩
  have iter : ∀ (i : Nat) (out : IterResult), sign_iteration p mat mu rp s1h s2h t0h ((0 : Int) + (i : Int)) = .ok out →
      (∀ σ, Accepts p mat s1 s2 t0 mu rp i σ → out = .accept σ) ∧ (∀ σ, out = .accept σ → Accepts p mat s1 s2 t0 mu rp i σ) := by
    intro i out hit
    have e : ((0 : Int) + (i : Int)) = ((i : Nat) : Int) := by omega
    rw [e] at hit
    obtain ⟨y, w, w1, w0, ct, cp, z, core, outc⟩ := sign_iteration_sem p hp mat kf.mat_ok s1 s2 t0 s1h s2h t0h kd mu rp _ out
      (Hy _) Hc hit
    refine ⟨fun σ hA => spec_accept_forces p mat s1 s2 t0 key mu rp hmu hrp i y w w1 w0 ct cp z core out outc σ hA, fun σ ho => ?_⟩
    subst ho
    exact model_accept_is_spec p hp mat s1 s2 t0 mu rp hmu hrp i y w w1 w0 ct cp z core σ outc
  have hAj : Accepts p mat s1 s2 t0 mu rp j sig := (iter j _ hacc).2 sig rfl
  have hbefore : ∀ i, i < j → ∀ σ', ¬ Accepts p mat s1 s2 t0 mu rp i σ' := by
    intro i hi σ' hA
    obtain ⟨r, hr, hnone⟩ := hrej i hi
    have := (iter i r hr).1 σ' hA
    subst this
    simp [C01.accepted] at hnone
  refine ⟨j, hj, ⟨hAj, hbefore⟩, fun κ' σ' ⟨hA', hb'⟩ => ?_⟩
  have hκ : κ' = j := by
    rcases Nat.lt_trichotomy κ' j with h | h | h
    · exact absurd hA' (hbefore κ' h σ')
    · exact h
    · exact absurd hAj (hb' j h sig)
  subst hκ
  have := (iter κ' _ hacc).1 σ' hA'
  injection this with this
  exact ⟨rfl, this.symm⟩

/-- ρ″ as the specification derives it: ML-DSA: H(K ‖ rnd ‖ μ, 64) with rnd the 32 drawn bytes (hedged) or 32 zero bytes
    (deterministic); Dilithium: H(K ‖ μ, 64) (deterministic) or the 64 drawn bytes (randomized) -/
def rhoPrimeSpec (p : Params) (key mu : List Nat) (r : Option (List Nat)) : List Nat :=
  if p.mldsa = true then SHAKE256 (key ++ r.getD (List.replicate SEEDBYTES 0) ++ mu) CRHBYTES
  else match r with
    | some rp => rp
    | none => SHAKE256 (key ++ mu) CRHBYTES

/-- what `derive_rhoprime` returns, in the specification's terms, together with what it drew -/
theorem derive_rhoprime_spec (p : Params) (key mu : List Nat) (hk : key.length = SEEDBYTES) (hm : mu.length = CRHBYTES)
    (randomized : Bool) (tape : Tape) (rp : List Nat) (tp : Tape) (h : derive_rhoprime p key mu randomized tape = .ok (rp, tp)) :
    ∃ r : Option (List Nat), rp = rhoPrimeSpec p key mu r ∧ rp.length = CRHBYTES ∧
      (randomized = false → r = none ∧ tp = tape) ∧
      (randomized = true → ∃ n, n = (if p.mldsa = true then SEEDBYTES else CRHBYTES) ∧ n ≤ tape.length ∧ r = some (tape.take n) ∧ tp = tape.drop n) := by
  have hS : SEEDBYTES = 32 := by decide
  have hC : CRHBYTES = 64 := by decide
  unfold derive_rhoprime at h
  by_cases hml : p.mldsa = true
  · rw [if_pos hml] at h
    obtain ⟨⟨rnd, tp'⟩, hrnd, h⟩ := bind_eq_ok.mp h
    simp only at h
    have hspec : ∀ (rnd : List Nat), rnd.length = SEEDBYTES →
        (shake256_absorb KeccakState.init key SEEDBYTES >>= fun st => shake256_absorb st rnd SEEDBYTES >>= fun st =>
          shake256_absorb st mu CRHBYTES >>= fun st => shake256_finalize st >>= fun st =>
          shake256_squeeze CRHBYTES CRHBYTES st >>= fun r => (.ok r.1 : Chk (List Nat))) = .ok (SHAKE256 (key ++ rnd ++ mu) CRHBYTES) := by
      intro rnd hr
      have := absorb3_spec key rnd mu CRHBYTES
      rw [hk, hr, hm] at this
      exact this
    by_cases hr : randomized = true
    · rw [if_pos hr] at hrnd
      unfold random_bytes at hrnd
      split at hrnd
      · rename_i hle
        injection hrnd with hrnd; injection hrnd with e1 e2; subst e1; subst e2
        have hl : (tape.take SEEDBYTES).length = SEEDBYTES := by rw [List.length_take, Nat.min_eq_left hle]
        have hs := hspec _ hl
        obtain ⟨st1, h1, h⟩ := bind_eq_ok.mp h
        obtain ⟨st2, h2, h⟩ := bind_eq_ok.mp h
        obtain ⟨st3, h3, h⟩ := bind_eq_ok.mp h
        obtain ⟨st4, h4, h⟩ := bind_eq_ok.mp h
        obtain ⟨⟨o, st5⟩, h5, h⟩ := bind_eq_ok.mp h
        simp only at h
        injection h with h; injection h with e1 e2; subst e1; subst e2
        rw [h1, ok_bind, h2, ok_bind, h3, ok_bind, h4, ok_bind, h5, ok_bind] at hs
        injection hs with hs
        simp only at hs
        have hlen : o.length = CRHBYTES := by rw [hs, SHAKE256_length]
        have hA : randomized = false → some (tape.take SEEDBYTES) = none ∧ tape.drop SEEDBYTES = tape := fun hf => by rw [hr] at hf; cases hf
        have hn : SEEDBYTES = (if p.mldsa = true then SEEDBYTES else CRHBYTES) := by rw [if_pos hml]
        have hB : randomized = true → ∃ n, n = (if p.mldsa = true then SEEDBYTES else CRHBYTES) ∧ n ≤ tape.length ∧
            some (tape.take SEEDBYTES) = some (tape.take n) ∧ tape.drop SEEDBYTES = tape.drop n := fun _ => ⟨SEEDBYTES, hn, hle, rfl, rfl⟩
        have hE : o = rhoPrimeSpec p key mu (some (tape.take SEEDBYTES)) := by
          unfold rhoPrimeSpec
          rw [if_pos hml]; exact hs
        exact ⟨some (tape.take SEEDBYTES), hE, hlen, hA, hB⟩
      · cases hrnd
    · have hrf : randomized = false := by cases randomized <;> simp_all
      rw [if_neg hr] at hrnd
      injection hrnd with hrnd; injection hrnd with e1 e2; subst e1; subst e2
      have hs := hspec (List.replicate SEEDBYTES 0) (List.length_replicate ..)
      obtain ⟨st1, h1, h⟩ := bind_eq_ok.mp h
      obtain ⟨st2, h2, h⟩ := bind_eq_ok.mp h
      obtain ⟨st3, h3, h⟩ := bind_eq_ok.mp h
      obtain ⟨st4, h4, h⟩ := bind_eq_ok.mp h
      obtain ⟨⟨o, st5⟩, h5, h⟩ := bind_eq_ok.mp h
      simp only at h
      injection h with h; injection h with e1 e2; subst e1; subst e2
      rw [h1, ok_bind, h2, ok_bind, h3, ok_bind, h4, ok_bind, h5, ok_bind] at hs
      injection hs with hs
      simp only at hs
      have hlen : o.length = CRHBYTES := by rw [hs, SHAKE256_length]
      have hA : randomized = false → (none : Option (List Nat)) = none ∧ tape = tape := fun _ => ⟨rfl, rfl⟩
      have hB : randomized = true → ∃ n, n = (if p.mldsa = true then SEEDBYTES else CRHBYTES) ∧ n ≤ tape.length ∧
          (none : Option (List Nat)) = some (tape.take n) ∧ tape = tape.drop n := fun ht => by rw [hrf] at ht; cases ht
      have hE : o = rhoPrimeSpec p key mu none := by
        unfold rhoPrimeSpec
        rw [if_pos hml]; exact hs
      exact ⟨none, hE, hlen, hA, hB⟩
  · rw [if_neg hml] at h
    by_cases hr : randomized = true
    · rw [if_pos hr] at h
      unfold random_bytes at h
      split at h
      · rename_i hle
        injection h with h; injection h with e1 e2; subst e1; subst e2
        have hlen : (tape.take CRHBYTES).length = CRHBYTES := by rw [List.length_take, Nat.min_eq_left hle]
        have hA : randomized = false → some (tape.take CRHBYTES) = none ∧ tape.drop CRHBYTES = tape := fun hf => by rw [hr] at hf; cases hf
        have hn : CRHBYTES = (if p.mldsa = true then SEEDBYTES else CRHBYTES) := by rw [if_neg hml]
        have hB : randomized = true → ∃ n, n = (if p.mldsa = true then SEEDBYTES else CRHBYTES) ∧ n ≤ tape.length ∧
            some (tape.take CRHBYTES) = some (tape.take n) ∧ tape.drop CRHBYTES = tape.drop n := fun _ => ⟨CRHBYTES, hn, hle, rfl, rfl⟩
        have hE : tape.take CRHBYTES = rhoPrimeSpec p key mu (some (tape.take CRHBYTES)) := by
          unfold rhoPrimeSpec
          rw [if_neg hml]
        exact ⟨some (tape.take CRHBYTES), hE, hlen, hA, hB⟩
      · cases h
    · have hrf : randomized = false := by cases randomized <;> simp_all
      rw [if_neg hr] at h
      obtain ⟨o, ho, h⟩ := bind_eq_ok.mp h
      injection h with h; injection h with e1 e2; subst e1; subst e2
      rw [shake256n_spec _ _ (by decide)] at ho
      injection ho with ho
      have hlen : o.length = CRHBYTES := by rw [← ho, SHAKE256_length]
      have hA : randomized = false → (none : Option (List Nat)) = none ∧ tape = tape := fun _ => ⟨rfl, rfl⟩
      have hB : randomized = true → ∃ n, n = (if p.mldsa = true then SEEDBYTES else CRHBYTES) ∧ n ≤ tape.length ∧
          (none : Option (List Nat)) = some (tape.take n) ∧ tape = tape.drop n := fun ht => by rw [hrf] at ht; cases ht
      have hE : o = rhoPrimeSpec p key mu none := by
        unfold rhoPrimeSpec
        rw [if_neg hml]; exact ho.symm
      exact ⟨none, hE, hlen, hA, hB⟩

set_option maxHeartbeats 1600000 in
/-- **Signing is the specification's function of key, message and randomness.** For a key pair from `keypair` and any
    signature σ returned by `signature` (deterministic, hedged or randomized): with (ρ, K, tr, s1, s2, t0) the decoding of
    sk (which is skEncode of exactly these parts), A = ExpandA(ρ), μ = H(tr ‖ M′, 64) and ρ″ = `rhoPrimeSpec` of K, μ and the
    drawn bytes, σ is the output of the specification's rejection loop — accepted at some κ, every earlier iteration
    rejected by the specification — and that output is unique. -/
theorem signature_is_spec (p : Params) (hp : p ∈ allParams) (seed : Option (List Nat)) (tape : Tape) (pk sk : List Nat) (tape' : Tape)
    (hk : keypair p seed tape = .ok (pk, sk, tape'))
    (fuel : Nat) (msg : List Nat) (randomized : Bool) (tape2 : Tape) (sig : List Nat) (tape3 : Tape)
    (hs : signature p fuel msg sk randomized tape2 = .ok (some sig, tape3)) :
    ∃ (rho tr key : List Nat) (s1 s2 t1 t0 : PolyVec) (mat : List PolyVec) (r : Option (List Nat)) (κ : Nat),
      unpack_sk p sk = .ok (rho, tr, key, t0, s1, s2) ∧ sk = skEncode p.lvl rho key tr s1 s2 t0 ∧
      matrix_expand p FUEL rho = .ok mat ∧ KeyFacts p mat s1 s2 t1 t0 ∧
      (randomized = false → r = none ∧ tape3 = tape2) ∧
      (randomized = true → ∃ n, n = (if p.mldsa = true then SEEDBYTES else CRHBYTES) ∧ n ≤ tape2.length ∧ r = some (tape2.take n) ∧
        tape3 = tape2.drop n) ∧
      κ < fuel ∧
      IsLoopOutput p mat s1 s2 t0 (SHAKE256 (tr ++ msg) CRHBYTES) (rhoPrimeSpec p key (SHAKE256 (tr ++ msg) CRHBYTES) r) κ sig ∧
      ∀ κ' σ', IsLoopOutput p mat s1 s2 t0 (SHAKE256 (tr ++ msg) CRHBYTES) (rhoPrimeSpec p key (SHAKE256 (tr ++ msg) CRHBYTES) r) κ' σ' →
        κ' = κ ∧ σ' = sig := by
  obtain ⟨_, htrR, _, _, _⟩ := e2e_facts p hp
  unfold keypair at hk
  obtain ⟨⟨s, tp⟩, _, hk⟩ := bind_eq_ok.mp hk
  simp only at hk
  obtain ⟨⟨rho, key, s1, s2, t1, t0⟩, hcore, hk⟩ := bind_eq_ok.mp hk
  simp only at hk
  obtain ⟨pk0, hpk, hk⟩ := bind_eq_ok.mp hk
  obtain ⟨tr, htr, hk⟩ := bind_eq_ok.mp hk
  obtain ⟨sk0, hsk, hk⟩ := bind_eq_ok.mp hk
  injection hk with hk; injection hk with hpk0 hk; injection hk with hsk0 _
  subst hpk0; subst hsk0
  obtain ⟨mat, hme, kf⟩ := keygen_facts p hp _ rho key s1 s2 t1 t0 hcore
  obtain ⟨hrl, hkl⟩ := keygen_core_lengths p _ rho key s1 s2 t1 t0 hcore
  have htrl : tr.length = p.trBytes := by
    unfold shake256n at htr
    exact shake256_small_length _ _ _ _ htrR (Nat.le_refl _) tr htr
  obtain ⟨sk', hsk', husk⟩ := unpack_pack_sk p hp rho tr key t0 s1 s2 hrl hkl htrl kf.s1l kf.s2l kf.t0l
    (fun a ha => by rw [etaB_eq]; exact kf.s1s a ha) (fun a ha => by rw [etaB_eq]; exact kf.s2s a ha) kf.t0s
  rw [hsk] at hsk'; injection hsk' with hsk'; subst hsk'
  have hskE := pack_sk_spec p rho tr key t0 s1 s2 hrl hkl htrl
    (fun a ha => by rw [etaB_eq]; exact kf.s1s a ha) (fun a ha => by rw [etaB_eq]; exact kf.s2s a ha) kf.t0s
  rw [hsk] at hskE; injection hskE with hskE
  unfold signature at hs
  rw [husk, ok_bind] at hs
  simp only at hs
  obtain ⟨mu, hmu, hs⟩ := bind_eq_ok.mp hs
  rw [← htrl, VerifyFips.compute_mu_spec tr msg] at hmu
  injection hmu with hmu
  have hmul : mu.length = CRHBYTES := by rw [← hmu, SHAKE256_length]
  obtain ⟨⟨rhoprime, tp2⟩, hrp, hs⟩ := bind_eq_ok.mp hs
  simp only at hs
  rw [hme, ok_bind] at hs
  obtain ⟨s1h, e1, hs⟩ := bind_eq_ok.mp hs
  obtain ⟨s2h, e2, hs⟩ := bind_eq_ok.mp hs
  obtain ⟨t0h, e0, hs⟩ := bind_eq_ok.mp hs
  obtain ⟨rr, hloop, hs⟩ := bind_eq_ok.mp hs
  injection hs with hs; injection hs with hr ht; subst hr; subst ht
  obtain ⟨r, hrE, hrl', hdet, hrand⟩ := derive_rhoprime_spec p key mu hkl hmul randomized tape2 rhoprime tp2 hrp
  obtain ⟨κ, hκ, hout, huniq⟩ := sign_loop_is_spec p hp mat s1 s2 t1 t0 s1h s2h t0h kf e1 e2 e0 mu rhoprime hmul hrl' fuel sig hloop
  rw [hrE, ← hmu] at hout huniq
  exact ⟨rho, tr, key, s1, s2, t1, t0, mat, r, κ, husk, hskE, hme, kf, hdet, hrand, hκ, hout, huniq⟩

end DV.SignFips
