import DilithiumVerif.Lemmas.SamplerTotal
import DilithiumVerif.Lemmas.DecodeTotal
import DilithiumVerif.Lemmas.EndToEnd
/-
  Lemmas.VerifyTotal — `verify` is total on untrusted bytes: for a public key of the right length and ANY byte string
  offered as a signature it returns a boolean; no arithmetic overflow, no out-of-range index, no failed conversion.
  (The only non-boolean outcome of the model is exhaustion of the rejection-sampling block budget `FUEL`, which the
  Rust loops do not have.)
-/
namespace DV.Complete
open DV DV.NttSem DV.PolySem DV.VecSem DV.RoundSem DV.NttMul DV.NttZ DV.Ranges DV.Containers DV.ShakeSmall DV.ShakeTotal
open DV.SamplerTotal DV.DecodeTotal DV.HintCodec

theorem compute_mu_total (tr : List Nat) (msg : List Nat) : ∃ mu, compute_mu tr tr.length msg = .ok mu ∧ mu.length = CRHBYTES := by
  unfold compute_mu
  obtain ⟨st1, h1, p1⟩ := absorb256_total KeccakState.init tr (by rw [init_pos]; decide)
  rw [h1, ok_bind]
  obtain ⟨st2, h2, p2⟩ := absorb256_total st1 msg p1
  rw [h2, ok_bind]
  obtain ⟨st3, h3, p3⟩ := finalize256_total st2 p2
  rw [h3, ok_bind]
  obtain ⟨out, st4, h4, l4⟩ := squeeze256_total CRHBYTES CRHBYTES st3 (Nat.le_refl _) (by rw [p3])
  rw [h4, ok_bind]
  exact ⟨out, rfl, l4⟩

theorem compute_ctilde_total (p : Params) (mu w : List Nat) (hm : mu.length = CRHBYTES) (hw : w.length = p.k * p.polyw1) :
    ∃ ct, compute_ctilde p mu w = .ok ct ∧ ct.length = p.ctilde := by
  unfold compute_ctilde
  obtain ⟨st1, h1, p1⟩ := absorb256_total KeccakState.init mu (by rw [init_pos]; decide)
  rw [← hm, h1, ok_bind]
  obtain ⟨st2, h2, p2⟩ := absorb256_total st1 w p1
  rw [← hw, h2, ok_bind]
  obtain ⟨st3, h3, p3⟩ := finalize256_total st2 p2
  rw [h3, ok_bind]
  obtain ⟨out, st4, h4, l4⟩ := squeeze256_total p.ctilde p.ctilde st3 (Nat.le_refl _) (by rw [p3])
  rw [h4, ok_bind]
  exact ⟨out, rfl, l4⟩

theorem w1_facts : ∀ p ∈ allParams, p.polyw1 = polyw1Of p.lvl := by decide
theorem polyw1_vals : polyw1Of .l2 = 192 ∧ polyw1Of .l3 = 128 ∧ polyw1Of .l5 = 128 := by decide

theorem w1_pack_length (lv : Lvl) (a : List Int) (hl : a.length = 256) : (w1_pack lv a).length = polyw1Of lv := by
  obtain ⟨v2, v3, v5⟩ := polyw1_vals
  have h4 : ((chunks 4 a).flatMap w1_pack_group6).length = 192 := by
    have hmem := chunks_mem 4 (by decide) _ a rfl (by rw [hl])
    rw [flatMap_length_const w1_pack_group6 3 (chunks 4 a) (fun c hc => by
      match c, (hmem c hc).1 with
      | [c0, c1, c2, c3], _ => rfl)]
    rw [chunks_length 4 (by decide) _ a rfl (by rw [hl]), hl]
  have h2 : ((chunks 2 a).flatMap w1_pack_group4).length = 128 := by
    have hmem := chunks_mem 2 (by decide) _ a rfl (by rw [hl])
    rw [flatMap_length_const w1_pack_group4 1 (chunks 2 a) (fun c hc => by
      match c, (hmem c hc).1 with
      | [c0, c1], _ => rfl)]
    rw [chunks_length 2 (by decide) _ a rfl (by rw [hl]), hl]
  cases lv with
  | l2 => rw [v2]; exact h4
  | l3 => rw [v3]; exact h2
  | l5 => rw [v5]; exact h2

theorem k_pack_w1_length (lv : Lvl) : ∀ (v : PolyVec), (∀ a ∈ v, a.length = 256) → (k_pack_w1 lv v).length = v.length * polyw1Of lv
  | [], _ => by simp [k_pack_w1]
  | a :: v, h => by
      have ih := k_pack_w1_length lv v (fun x hx => h x (List.mem_cons_of_mem _ hx))
      unfold k_pack_w1 at ih ⊢
      rw [List.flatMap_cons, List.length_append, ih, w1_pack_length lv a (h a (List.mem_cons_self ..)), List.length_cons, Nat.succ_mul]
      omega

theorem use_hint_total (lv : Lvl) (a hint : Int) (ha : 0 ≤ a ∧ a < Q) (hh : hint = 0 ∨ hint = 1) : ∃ r, use_hint lv a hint = .ok r := by
  cases lv with
  | l2 => exact ⟨_, (C15.use_hint_eq_spec_88 a hint ha hh).1⟩
  | l3 => exact ⟨_, (C15.use_hint_eq_spec_32 .l3 (Or.inl rfl) a hint ha hh).1⟩
  | l5 => exact ⟨_, (C15.use_hint_eq_spec_32 .l5 (Or.inr rfl) a hint ha hh).1⟩

theorem k_use_hint_total (lv : Lvl) (w h : PolyVec) (hl : w.length = h.length) (hw : ∀ a ∈ w, Std a) (hh : ∀ a ∈ h, Bits a) :
    ∃ r, k_use_hint lv w h = .ok r ∧ r.length = w.length ∧ ∀ a ∈ r, a.length = 256 := by
  obtain ⟨r, hr, h3⟩ := zipL_total (poly_use_hint lv) Std Bits (fun _ _ x => x.length = 256)
    (fun a hp ha hhp => by
      obtain ⟨x, hx, h3'⟩ := zipL_total (use_hint lv) (fun v => 0 ≤ v ∧ v < Q) (fun v => v = 0 ∨ v = 1) (fun _ _ _ => True)
        (fun v u hv hu => by obtain ⟨y, hy⟩ := use_hint_total lv v u hv hu; exact ⟨y, hy, trivial⟩)
        a hp (by rw [ha.1, hhp.1]) ha.2 hhp.2
      exact ⟨x, hx, by rw [h3'.length.2, ha.1]⟩) w h hl hw hh
  exact ⟨r, hr, h3.length.2, h3.out (C := fun (x : Poly) => x.length = 256) (fun _ _ _ h => h)⟩

set_option maxHeartbeats 1600000 in
/-- **Verification is total on untrusted bytes.** For each parameter set, every public key of PUBLICKEYBYTES bytes, every
    message and every list of bytes of ANY length offered as a signature, `verify` returns a boolean (or the model's
    sampling budget runs out): no overflow, no index out of range, no failed slice conversion on any path. -/
theorem verify_total (p : Params) (hp : p ∈ allParams) (sig m pk : List Nat) (hpk : pk.length = p.pkBytes) (hb : ∀ b ∈ sig, b < 256) :
    OkOrFuel (verify p sig m pk) (fun _ => True) := by
  obtain ⟨hl0, hl7, hk0, hk8, hg1, hg2, hg1u, hg1l, hb0, hbu, hg2u, hg2l⟩ := params_facts p hp
  obtain ⟨_, htrR, htrC, _, _⟩ := e2e_facts p hp
  have hq : Q = 8380417 := Q_val'
  unfold verify verify_core
  by_cases hsl : sig.length = p.sigBytes
  swap
  · rw [if_neg hsl, ok_bind]; exact OkOrFuel.of_ok false rfl trivial
  rw [if_pos hsl]
  obtain ⟨rho, t1, hupk, hrl, ht1l, ht1⟩ := unpack_pk_total p hp pk hpk
  obtain ⟨okv, c, z, h, husig, hcl, hzl, hz, hh⟩ := unpack_sig_total p hp sig hsl hb
  simp only [bind_assoc]
  rw [hupk, ok_bind, husig, ok_bind]
  simp only
  cases okv with
  | false => simp only [Bool.false_eq_true, if_false, ok_bind]; exact OkOrFuel.of_ok false rfl trivial
  | true =>
    simp only [if_true]
    obtain ⟨hhl, hhb⟩ := hh rfl
    have hzok : ∀ a ∈ z, PolyOK ((p.gamma1 : Int) + 1) a := fun a ha =>
      ⟨(hz a ha).1, fun x hx => by have := (hz a ha).2 x hx; rw [hg1]; omega⟩
    obtain ⟨rn, hrn, _⟩ := chknorm_pass z ((p.gamma1 : Int) - p.beta) ((p.gamma1 : Int) + 1) (by omega) hzok (by rw [hq]; omega)
    rw [hrn, ok_bind]
    split
    · rw [ok_bind]; exact OkOrFuel.of_ok false rfl trivial
    -- verify_tail
    have htail : OkOrFuel (verify_tail p pk rho t1 c z h) (fun tb => tb.1.length = p.trBytes ∧ tb.2.length = p.k * p.polyw1) := by
      unfold verify_tail
      obtain ⟨trh, htr, ltr⟩ := shake256_small_total CRHBYTES p.trBytes pk htrR htrC
      rw [← hpk, htr, ok_bind]
      apply OkOrFuel.bind (poly_challenge_total p hp FUEL c hcl)
      intro cp hcp
      apply OkOrFuel.bind (matrix_expand_total p FUEL rho hrl)
      intro mat hmat
      have hmatok : MatOK p mat := ⟨hmat.1, fun row hrow => ⟨(hmat.2 row hrow).1, fun a ha => (hmat.2 row hrow).2 a ha⟩⟩
      have hcp2 : PolyOK 2 cp := ⟨hcp.1, fun x hx => by have := hcp.2 x hx; omega⟩
      obtain ⟨cph, e7, lcph, bcph, ecph⟩ := ntt_sem MK cp hcp2.1 2 (by omega) (by rw [hq]; omega) hcp2.2
      have hc9 : PolyOK (9 * Q) cph := ⟨lcph, Bd_mono _ _ (by rw [hq]; omega) cph bcph⟩
      obtain ⟨zh, wA, t1h, ct1, wS, wR, wI, wv, e1, e2, e3, e4, e5, e6, e8, e9, hwvl, hwvstd, _⟩ :=
        verify_w_sem p hp mat hmatok z ((p.gamma1 : Int) + 1) (by omega) (by rw [hq]; omega) hzl hzok
          cph hc9 (fun i => El cp i) ecph t1 ht1l (fun a ha => ht1 a ha)
      have e7' : poly_ntt cp = .ok cph := e7
      obtain ⟨w1, hw1, lw1, bw1⟩ := k_use_hint_total p.lvl wv h (by rw [hwvl, hhl]) hwvstd hhb
      rw [e1, ok_bind, e2, ok_bind, e7', ok_bind]
      dsimp only
      rw [e3, ok_bind, e4, ok_bind, e5, ok_bind, e6, ok_bind, e8, ok_bind, e9, ok_bind, hw1, ok_bind]
      exact OkOrFuel.of_ok _ rfl ⟨ltr, by rw [k_pack_w1_length p.lvl w1 bw1, lw1, hwvl, w1_facts p hp]⟩
    simp only [bind_assoc]
    apply OkOrFuel.bind htail
    intro ⟨trh, buf⟩ ⟨ltr, lbuf⟩
    simp only at ltr lbuf ⊢
    rw [ok_bind]
    simp only
    obtain ⟨mu, hmu, lmu⟩ := compute_mu_total trh m
    rw [← ltr, hmu, ok_bind]
    obtain ⟨c2, hc2, _⟩ := compute_ctilde_total p mu buf lmu lbuf
    rw [hc2, ok_bind]
    exact OkOrFuel.of_ok _ rfl trivial

end DV.Complete
