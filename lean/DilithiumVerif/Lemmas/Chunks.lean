import DilithiumVerif.Impl.Basic
import DilithiumVerif.Lemmas.Basic
/-
  Lemmas.Chunks — `chunks n l` (consecutive groups of n) and lifting of per-group round trips to whole lists.
-/
namespace DV

theorem chunks_nil {α} (n : Nat) : chunks n ([] : List α) = [] := by
  rw [chunks]; simp

theorem chunks_cons {α} (n : Nat) (l : List α) (hn : 0 < n) (hl : l ≠ []) :
    chunks n l = l.take n :: chunks n (l.drop n) := by
  rw [chunks]
  have : ¬ (n = 0 ∨ l = []) := by
    intro h; rcases h with h | h
    · omega
    · exact hl h
  simp only [this, dite_false]

/-- the groups concatenate back to the list -/
theorem chunks_flatten {α} (n : Nat) (hn : 0 < n) : ∀ (k : Nat) (l : List α), l.length = k → (chunks n l).flatten = l := by
  intro k
  induction k using Nat.strongRecOn with
  | _ k ih =>
    intro l hk
    by_cases hl : l = []
    · subst hl; simp [chunks_nil]
    · rw [chunks_cons n l hn hl, List.flatten_cons]
      have hlen : 0 < l.length := List.length_pos_iff.mpr hl
      rw [ih (l.drop n).length (by simp; omega) (l.drop n) rfl, List.take_append_drop]

/-- when n divides the length every group has exactly n elements, all of them from the list -/
theorem chunks_mem {α} (n : Nat) (hn : 0 < n) : ∀ (k : Nat) (l : List α), l.length = k → l.length % n = 0 →
    ∀ c ∈ chunks n l, c.length = n ∧ ∀ x ∈ c, x ∈ l := by
  intro k
  induction k using Nat.strongRecOn with
  | _ k ih =>
    intro l hk hd c hc
    by_cases hl : l = []
    · subst hl; rw [chunks_nil] at hc; cases hc
    · rw [chunks_cons n l hn hl] at hc
      have hlen : 0 < l.length := List.length_pos_iff.mpr hl
      have hge : n ≤ l.length := by
        have := Nat.le_of_dvd hlen (Nat.dvd_of_mod_eq_zero hd); exact this
      rcases List.mem_cons.mp hc with rfl | hc'
      · exact ⟨by simp [List.length_take]; omega, fun x hx => List.mem_of_mem_take hx⟩
      · have hd' : (l.drop n).length % n = 0 := by
          simp only [List.length_drop]
          have := Nat.sub_mod_eq_zero_of_mod_eq (m := l.length) (n := n) (k := n) (by simp [hd])
          exact this
        obtain ⟨h1, h2⟩ := ih (l.drop n).length (by simp; omega) (l.drop n) rfl hd' c hc'
        exact ⟨h1, fun x hx => List.mem_of_mem_drop (h2 x hx)⟩

/-- chunking a concatenation of equal-size pieces gives the pieces back -/
theorem chunks_flatMap {α β} (m : Nat) (hm : 0 < m) (g : α → List β) : ∀ (L : List α), (∀ x ∈ L, (g x).length = m) →
    chunks m (L.flatMap g) = L.map g := by
  intro L
  induction L with
  | nil => intro _; simp [chunks_nil]
  | cons x xs ih =>
    intro h
    have hx := h x (List.mem_cons_self ..)
    rw [List.flatMap_cons]
    have hne : g x ++ xs.flatMap g ≠ [] := by
      intro he
      have : (g x ++ xs.flatMap g).length = 0 := by rw [he]; rfl
      simp only [List.length_append] at this; omega
    rw [chunks_cons m _ hm hne]
    have e1 : (g x ++ xs.flatMap g).take m = g x := by rw [← hx]; exact List.take_left' rfl
    have e2 : (g x ++ xs.flatMap g).drop m = xs.flatMap g := by rw [← hx]; exact List.drop_left' rfl
    rw [e1, e2, ih (fun y hy => h y (List.mem_cons_of_mem _ hy))]
    rfl

/-- lifting a per-group round trip (pure encoder, pure decoder) to the whole list -/
theorem roundtrip_lift {P : Int → Prop} (n m : Nat) (hn : 0 < n) (hm : 0 < m) (pack : List Int → List Nat) (unpack : List Nat → List Int)
    (hlen : ∀ c : List Int, c.length = n → (pack c).length = m)
    (hrt : ∀ c : List Int, c.length = n → (∀ x ∈ c, P x) → unpack (pack c) = c)
    (a : List Int) (hd : a.length % n = 0) (ha : ∀ x ∈ a, P x) :
    (chunks m ((chunks n a).flatMap pack)).flatMap unpack = a := by
  have hmem := chunks_mem n hn a.length a rfl hd
  rw [chunks_flatMap m hm pack (chunks n a) (fun c hc => hlen c (hmem c hc).1)]
  rw [List.flatMap_def, List.map_map]
  have : (chunks n a).map (unpack ∘ pack) = chunks n a := by
    conv => rhs; rw [← List.map_id (chunks n a)]
    apply List.map_congr_left
    intro c hc
    simp only [Function.comp, id]
    exact hrt c (hmem c hc).1 (fun x hx => ha x ((hmem c hc).2 x hx))
  rw [this, chunks_flatten n hn a.length a rfl]

theorem flatMap_length_const {α β} (g : α → List β) (m : Nat) : ∀ (L : List α), (∀ x ∈ L, (g x).length = m) →
    (L.flatMap g).length = L.length * m := by
  intro L
  induction L with
  | nil => intro _; simp
  | cons x xs ih =>
    intro h
    rw [List.flatMap_cons, List.length_append, h x (List.mem_cons_self ..), ih (fun y hy => h y (List.mem_cons_of_mem _ hy))]
    simp only [List.length_cons, Nat.succ_mul]; omega

theorem chunks_length {α} (n : Nat) (hn : 0 < n) : ∀ (k : Nat) (l : List α), l.length = k → l.length % n = 0 →
    (chunks n l).length = l.length / n := by
  intro k
  induction k using Nat.strongRecOn with
  | _ k ih =>
    intro l hk hd
    by_cases hl : l = []
    · subst hl; simp [chunks_nil]
    · rw [chunks_cons n l hn hl, List.length_cons]
      have hlen : 0 < l.length := List.length_pos_iff.mpr hl
      have hge : n ≤ l.length := Nat.le_of_dvd hlen (Nat.dvd_of_mod_eq_zero hd)
      have hd' : (l.drop n).length % n = 0 := by
        simp only [List.length_drop]
        exact Nat.sub_mod_eq_zero_of_mod_eq (by simp [hd])
      rw [ih (l.drop n).length (by simp; omega) (l.drop n) rfl hd']
      simp only [List.length_drop]
      have : l.length = (l.length - n) + n := by omega
      conv => rhs; rw [this, Nat.add_div_right _ hn]

end DV

namespace DV

theorem chunks_flatten_fixed {β} (m : Nat) (hm : 0 < m) (bs : List (List β)) (h : ∀ b ∈ bs, b.length = m) :
    chunks m bs.flatten = bs := by
  have := chunks_flatMap m hm (fun (b : List β) => b) bs h
  have e : bs.map (fun (b : List β) => b) = bs := List.map_id' bs
  rw [List.flatMap_def, e] at this
  exact this

/-- per-group round trip in `Chk` lifted to a list of groups -/
theorem groups_roundtripM {α β} (m : Nat) (pack : List α → Chk (List β)) (unpack : List β → Chk (List α)) (G : List α → Prop)
    (hg : ∀ c, G c → ∃ b, pack c = .ok b ∧ b.length = m ∧ unpack b = .ok c) :
    ∀ (L : List (List α)), (∀ c ∈ L, G c) →
      ∃ bs, mapL pack L = .ok bs ∧ (∀ b ∈ bs, b.length = m) ∧ bs.length = L.length ∧ mapL unpack bs = .ok L := by
  intro L
  induction L with
  | nil => intro _; exact ⟨[], rfl, by simp, rfl, rfl⟩
  | cons c cs ih =>
    intro h
    obtain ⟨b, hb, hbl, hub⟩ := hg c (h c (List.mem_cons_self ..))
    obtain ⟨bs, hbs, hall, hlen, hus⟩ := ih (fun x hx => h x (List.mem_cons_of_mem _ hx))
    refine ⟨b :: bs, ?_, ?_, by simp [hlen], ?_⟩
    · unfold mapL; rw [hb, hbs]; rfl
    · intro x hx; rcases List.mem_cons.mp hx with rfl | hx
      · exact hbl
      · exact hall x hx
    · unfold mapL; rw [hub, hus]; rfl

/-- whole-list round trip for a codec given per group in `Chk`:
    pack = flatten ∘ mapL packGroup ∘ chunks n,  unpack = flatten ∘ mapL unpackGroup ∘ chunks m -/
theorem roundtrip_liftM (n m : Nat) (hn : 0 < n) (hm : 0 < m) (pack : List Int → Chk (List Nat)) (unpack : List Nat → Chk (List Int))
    (P : Int → Prop)
    (hg : ∀ c : List Int, c.length = n → (∀ x ∈ c, P x) → ∃ b, pack c = .ok b ∧ b.length = m ∧ unpack b = .ok c)
    (a : List Int) (hd : a.length % n = 0) (ha : ∀ x ∈ a, P x) :
    ∃ bs, mapL pack (chunks n a) = .ok bs ∧ bs.flatten.length = a.length / n * m ∧
      mapL unpack (chunks m bs.flatten) = .ok (chunks n a) := by
  have hmem := chunks_mem n hn a.length a rfl hd
  obtain ⟨bs, h1, h2, h3, h4⟩ := groups_roundtripM m pack unpack (fun c => c.length = n ∧ ∀ x ∈ c, P x)
    (fun c hc => hg c hc.1 hc.2) (chunks n a) (fun c hc => ⟨(hmem c hc).1, fun x hx => ha x ((hmem c hc).2 x hx)⟩)
  refine ⟨bs, h1, ?_, ?_⟩
  · have := flatMap_length_const (fun (b : List Nat) => b) m bs h2
    have e : bs.map (fun (b : List Nat) => b) = bs := List.map_id' bs
    rw [List.flatMap_def, e] at this
    rw [this, h3, chunks_length n hn a.length a rfl hd]
  · rw [chunks_flatten_fixed m hm bs h2, h4]

theorem list_len4 {α} (c : List α) (h : c.length = 4) : ∃ a b d e, c = [a, b, d, e] := by
  match c, h with
  | [a, b, d, e], _ => exact ⟨a, b, d, e, rfl⟩
theorem list_len2 {α} (c : List α) (h : c.length = 2) : ∃ a b, c = [a, b] := by
  match c, h with
  | [a, b], _ => exact ⟨a, b, rfl⟩
theorem list_len8 {α} (c : List α) (h : c.length = 8) : ∃ a0 a1 a2 a3 a4 a5 a6 a7, c = [a0, a1, a2, a3, a4, a5, a6, a7] := by
  match c, h with
  | [a0, a1, a2, a3, a4, a5, a6, a7], _ => exact ⟨a0, a1, a2, a3, a4, a5, a6, a7, rfl⟩

end DV
