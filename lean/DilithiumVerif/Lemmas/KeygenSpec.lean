import DilithiumVerif.Lemmas.EndToEnd
import DilithiumVerif.Lemmas.XofSpec
import DilithiumVerif.Lemmas.EncodeSpec
import DilithiumVerif.Lemmas.KeygenRel
/-
  Lemmas.KeygenSpec — key generation is the specification's function of the seed.
  `IsKeyGen p ξ pk sk` transcribes FIPS 204 Alg. 6 (ML-DSA.KeyGen_internal) / Dilithium 3.1 Gen as a relation built only
  from specification-level objects (SHAKE as the sponge function of Lemmas.XofSpec, the rejection samplers as filters
  of the output stream, arithmetic in ℤ_q[X]/(X^256+1) read at the 256 roots, Power2Round ranges, the bit-string
  encoders of Lemmas.BitSpec).  `keypair_meets_spec`: what `keypair` returns satisfies it.  `IsKeyGen_functional`: it
  determines pk and sk uniquely.
-/
namespace DV.KeygenSpec
open DV DV.NttSem DV.PolySem DV.VecSem DV.NttMul DV.NttZ DV.Ranges DV.Containers DV.Complete DV.XofSpec DV.EncodeSpec
  DV.UniformStream DV.EtaStream

/-! ### generic -/
theorem forRange_getD {α} (n : Nat) (f : Nat → Chk α) (r : List α) (d : α) (h : forRange n f = .ok r) :
    r.length = n ∧ ∀ i, i < n → f i = .ok (r.getD i d) := by
  unfold forRange at h
  have := mapL_rel_ok f (fun _ => True) (fun i y => f i = .ok y) (fun i y _ hy => hy) (List.range n) r (fun _ _ => trivial) h
  refine ⟨by rw [this.length, List.length_range], fun i hi => ?_⟩
  have g := this.getD 0 d i (by rw [List.length_range]; exact hi)
  rw [List.getD_eq_getElem?_getD, List.getElem?_range hi] at g
  exact g

/-! ### the rejection samplers as relations on the XOF output -/

/-- RejNTTPoly (FIPS 204 Alg. 30): the first 256 accepted 23-bit candidates of the SHAKE-128 stream of the 34-byte seed -/
def IsRejNTT (B : List Nat) (a : List Int) : Prop := ∃ n, a = (cands (SHAKE128 B (n * R128))).take 256 ∧ a.length = 256
/-- RejBoundedPoly (Alg. 31): the first 256 accepted half-bytes of the SHAKE-256 stream of the 66-byte seed -/
def IsRejBounded (lv : Lvl) (B : List Nat) (a : List Int) : Prop :=
  ∃ n, a = (etaCands lv (SHAKE256 B (n * R256))).take 256 ∧ a.length = 256

theorem take_of_prefix {α} (A X : List α) (k : Nat) (h : k ≤ A.length) : (A ++ X).take k = A.take k := by
  rw [List.take_append_of_le_length h]

theorem IsRejNTT_le (B : List Nat) (a a' : List Int) (n n' : Nat) (hn : n ≤ n')
    (h : a = (cands (SHAKE128 B (n * R128))).take 256 ∧ a.length = 256)
    (h' : a' = (cands (SHAKE128 B (n' * R128))).take 256) : a = a' := by
  obtain ⟨d, rfl⟩ : ∃ d, n' = n + d := ⟨n' - n, by omega⟩
  have e : SHAKE128 B ((n + d) * R128) = SHAKE128 B (n * R128) ++ (SHAKE128 B ((n + d) * R128)).drop (n * R128) := by
    have := SHAKE128_prefix B (n * R128) (d * R128)
    rw [← Nat.add_mul] at this
    conv => lhs; rw [← List.take_append_drop (n * R128) (SHAKE128 B ((n + d) * R128)), this]
  have hR : R128 = 168 := by decide
  rw [h', e, cands_append (56 * n) _ _ (by rw [SHAKE128_length, hR]; omega)]
  have hlen : 256 ≤ (cands (SHAKE128 B (n * R128))).length := by
    have := h.2; rw [h.1, List.length_take] at this; omega
  rw [take_of_prefix _ _ 256 hlen]
  exact h.1

theorem IsRejNTT_unique (B : List Nat) (a a' : List Int) (h : IsRejNTT B a) (h' : IsRejNTT B a') : a = a' := by
  obtain ⟨n, hn⟩ := h
  obtain ⟨n', hn'⟩ := h'
  by_cases hle : n ≤ n'
  · exact IsRejNTT_le B a a' n n' hle hn hn'.1
  · exact (IsRejNTT_le B a' a n' n (by omega) hn' hn.1).symm

theorem IsRejBounded_le (lv : Lvl) (B : List Nat) (a a' : List Int) (n n' : Nat) (hn : n ≤ n')
    (h : a = (etaCands lv (SHAKE256 B (n * R256))).take 256 ∧ a.length = 256)
    (h' : a' = (etaCands lv (SHAKE256 B (n' * R256))).take 256) : a = a' := by
  obtain ⟨d, rfl⟩ : ∃ d, n' = n + d := ⟨n' - n, by omega⟩
  have e : SHAKE256 B ((n + d) * R256) = SHAKE256 B (n * R256) ++ (SHAKE256 B ((n + d) * R256)).drop (n * R256) := by
    have := SHAKE256_prefix B (n * R256) (d * R256)
    rw [← Nat.add_mul] at this
    conv => lhs; rw [← List.take_append_drop (n * R256) (SHAKE256 B ((n + d) * R256)), this]
  rw [h', e, etaCands_append]
  have hlen : 256 ≤ (etaCands lv (SHAKE256 B (n * R256))).length := by
    have := h.2; rw [h.1, List.length_take] at this; omega
  rw [take_of_prefix _ _ 256 hlen]
  exact h.1

theorem IsRejBounded_unique (lv : Lvl) (B : List Nat) (a a' : List Int) (h : IsRejBounded lv B a) (h' : IsRejBounded lv B a') : a = a' := by
  obtain ⟨n, hn⟩ := h
  obtain ⟨n', hn'⟩ := h'
  by_cases hle : n ≤ n'
  · exact IsRejBounded_le lv B a a' n n' hle hn hn'.1
  · exact (IsRejBounded_le lv B a' a n' n (by omega) hn' hn.1).symm

/-- `poly::uniform` is RejNTTPoly of seed ‖ IntegerToBytes(nonce, 2) -/
theorem poly_uniform_isRejNTT (fuel : Nat) (seed : List Nat) (nonce : Nat) (a : List Int) (hl : seed.length = SEEDBYTES)
    (h : poly_uniform fuel seed nonce = .ok a) : IsRejNTT (seed ++ [nonce % 256, (nonce / 256) % 256]) a := by
  obtain ⟨st, t, hst, ha, hlen⟩ := poly_uniform_is_stream_filter fuel seed nonce a h
  exact ⟨5 + t, by rw [← stream128_spec seed nonce st hl hst]; exact ha, hlen⟩

theorem poly_uniform_eta_isRejBounded (lv : Lvl) (fuel : Nat) (seed : List Nat) (nonce : Nat) (a : List Int) (hl : seed.length = CRHBYTES)
    (h : poly_uniform_eta lv fuel seed nonce = .ok a) : IsRejBounded lv (seed ++ [nonce % 256, (nonce / 256) % 256]) a := by
  obtain ⟨st, t, hst, ha, hlen⟩ := poly_uniform_eta_is_stream_filter lv fuel seed nonce a h
  exact ⟨1 + t, by rw [← stream256_spec seed nonce st hl hst]; exact ha, hlen⟩

/-! ### the specification of key generation as a relation -/

/-- H(ξ ‖ IntegerToBytes(k, 1) ‖ IntegerToBytes(l, 1), 128) for ML-DSA (FIPS 204 Alg. 6 line 1), H(ξ, 128) for Dilithium 3.1 -/
def seedsOf (p : Params) (xi : List Nat) : List Nat :=
  SHAKE256 (if p.mldsa = true then xi ++ [p.k, p.l] else xi) (2 * SEEDBYTES + CRHBYTES)
def rhoOf (p : Params) (xi : List Nat) : List Nat := (seedsOf p xi).take SEEDBYTES
def rhoPrimeOf (p : Params) (xi : List Nat) : List Nat := ((seedsOf p xi).drop SEEDBYTES).take CRHBYTES
def keyOf (p : Params) (xi : List Nat) : List Nat := (seedsOf p xi).drop (SEEDBYTES + CRHBYTES)

/-- (hi, lo) = Power2Round(t) of some t ∈ [0, q):  t = hi·2^13 + lo, lo ∈ (−2^12, 2^12] -/
def P2Range (hi lo : Int) : Prop := 0 ≤ hi ∧ hi < 1024 ∧ -4096 < lo ∧ lo ≤ 4096 ∧ 0 ≤ hi * 8192 + lo ∧ hi * 8192 + lo < Q

/-- **ML-DSA.KeyGen_internal(ξ)** (FIPS 204 Alg. 6) / Dilithium 3.1 Gen as a relation between the seed and the two keys:
    (ρ, ρ′, K) ← H(ξ ‖ k ‖ l, 128);  Â[r][c] ← RejNTTPoly(ρ ‖ c ‖ r);  s1[j] ← RejBoundedPoly(ρ′ ‖ IntegerToBytes(j, 2)),
    s2[i] ← RejBoundedPoly(ρ′ ‖ IntegerToBytes(l + i, 2));  t ← NTT⁻¹(Â ∘ NTT(s1)) + s2 with coefficients in [0, q),
    (t1, t0) ← Power2Round(t) — stated as: t1·2^13 + t0 has coefficients in [0, q), t0 ∈ (−2^12, 2^12], and
    2^13·t1_r(ζ_i) + t0_r(ζ_i) = Σ_c Â[r][c][i]·s1_c(ζ_i) + s2_r(ζ_i) at all 256 roots (`KeyRel`);
    pk ← pkEncode(ρ, t1);  tr ← H(pk, |tr|);  sk ← skEncode(ρ, K, tr, s1, s2, t0). -/
def IsKeyGen (p : Params) (xi pk sk : List Nat) : Prop :=
  ∃ (mat : List PolyVec) (s1 s2 t1 t0 : PolyVec),
    (mat.length = p.k ∧ ∀ r, r < p.k → (mat.getD r []).length = p.l ∧
        ∀ c, c < p.l → IsRejNTT (rhoOf p xi ++ [c, r]) ((mat.getD r []).getD c [])) ∧
    (s1.length = p.l ∧ ∀ j, j < p.l → IsRejBounded p.lvl (rhoPrimeOf p xi ++ [j, 0]) (s1.getD j [])) ∧
    (s2.length = p.k ∧ ∀ i, i < p.k → IsRejBounded p.lvl (rhoPrimeOf p xi ++ [p.l + i, 0]) (s2.getD i [])) ∧
    (t1.length = p.k ∧ t0.length = p.k ∧ ∀ r, r < p.k → (t1.getD r []).length = 256 ∧ (t0.getD r []).length = 256 ∧
        ∀ j, j < 256 → P2Range ((t1.getD r []).getD j 0) ((t0.getD r []).getD j 0)) ∧
    KeyRel p mat s1 s2 t0 t1 ∧
    pk = pkEncode (rhoOf p xi) t1 ∧
    sk = skEncode p.lvl (rhoOf p xi) (keyOf p xi) (SHAKE256 pk p.trBytes) s1 s2 t0

theorem small_params : ∀ p ∈ allParams, p.k % 256 = p.k ∧ p.l % 256 = p.l ∧ p.k ≤ 8 ∧ p.l ≤ 7 ∧ p.trBytes < R256 := by decide

theorem nonce_bytes (i j : Nat) (hi : i < 256) (hj : j < 256) :
    [(asU16 ((i <<< 8) + j : Nat)).toNat % 256, ((asU16 ((i <<< 8) + j : Nat)).toNat / 256) % 256] = [j, i] := by
  rw [Nat.shiftLeft_eq]
  unfold asU16
  simp only [Nat.reducePow, List.cons.injEq, and_true]
  constructor <;> omega

theorem vec_uniform_eta_getD (lv : Lvl) (fuel : Nat) (seed : List Nat) : ∀ (n : Nat) (nonce : Int) (v : List Poly),
    vec_uniform_eta_go lv fuel seed n nonce = .ok v → 0 ≤ nonce →
    ∀ j, j < n → poly_uniform_eta lv fuel seed (nonce.toNat + j) = .ok (v.getD j []) := by
  intro n
  induction n with
  | zero => intro nonce v _ _ j hj; omega
  | succ n ih =>
    intro nonce v h h0 j hj
    unfold vec_uniform_eta_go at h
    obtain ⟨a, ha, h⟩ := bind_eq_ok.mp h
    obtain ⟨nn, hnn, h⟩ := bind_eq_ok.mp h
    obtain ⟨rest, hrest, h⟩ := bind_eq_ok.mp h
    injection h with h; subst h
    unfold chkU16 at hnn
    split at hnn
    · injection hnn with hnn; subst hnn
      cases j with
      | zero => simpa using ha
      | succ j =>
        have := ih (nonce + 1) rest hrest (by omega) j (by omega)
        rw [List.getD_cons_succ]
        have e : (nonce + 1).toNat + j = nonce.toNat + (j + 1) := by omega
        rw [← e]; exact this
    · cases hnn

set_option maxHeartbeats 1600000 in
/-- **Key generation meets its specification**: whatever `keypair` returns on a 32-byte seed ξ — for each of the six
    parameter sets — is related to ξ by `IsKeyGen`. -/
theorem keypair_meets_spec (p : Params) (hp : p ∈ allParams) (xi : List Nat) (tape : Tape) (pk sk : List Nat) (tape' : Tape)
    (hk : keypair p (some xi) tape = .ok (pk, sk, tape')) : IsKeyGen p xi pk sk := by
  obtain ⟨hk256, hl256, hk8, hl7, htrR⟩ := small_params p hp
  have hS : SEEDBYTES = 32 := by decide
  have hC : CRHBYTES = 64 := by decide
  unfold keypair at hk
  obtain ⟨⟨s, tp⟩, hseed, hk⟩ := bind_eq_ok.mp hk
  simp only at hk hseed
  split at hseed
  case isFalse => cases hseed
  rename_i hxl
  injection hseed with hseed; injection hseed with hs _; subst hs
  obtain ⟨⟨rho, key, s1, s2, t1, t0⟩, hcore, hk⟩ := bind_eq_ok.mp hk
  simp only at hk
  obtain ⟨pk0, hpk, hk⟩ := bind_eq_ok.mp hk
  obtain ⟨tr, htr, hk⟩ := bind_eq_ok.mp hk
  obtain ⟨sk0, hsk, hk⟩ := bind_eq_ok.mp hk
  injection hk with hk; injection hk with hpk0 hk; injection hk with hsk0 _
  subst hpk0; subst hsk0
  rw [hk256, hl256] at hcore
  obtain ⟨mat, hme, kf⟩ := keygen_facts p hp _ rho key s1 s2 t1 t0 hcore
  obtain ⟨hrl, hkl⟩ := keygen_core_lengths p _ rho key s1 s2 t1 t0 hcore
  -- the seeds
  have hcore' := hcore
  unfold keygen_core at hcore'
  obtain ⟨seedbuf, hsb, hcore'⟩ := bind_eq_ok.mp hcore'
  simp only at hcore'
  obtain ⟨mat', hme', hcore'⟩ := bind_eq_ok.mp hcore'
  obtain ⟨s1', hs1, hcore'⟩ := bind_eq_ok.mp hcore'
  obtain ⟨s2', hs2, hcore'⟩ := bind_eq_ok.mp hcore'
  obtain ⟨_, _, hcore'⟩ := bind_eq_ok.mp hcore'
  obtain ⟨_, _, hcore'⟩ := bind_eq_ok.mp hcore'
  obtain ⟨_, _, hcore'⟩ := bind_eq_ok.mp hcore'
  obtain ⟨_, _, hcore'⟩ := bind_eq_ok.mp hcore'
  obtain ⟨_, _, hcore'⟩ := bind_eq_ok.mp hcore'
  obtain ⟨_, _, hcore'⟩ := bind_eq_ok.mp hcore'
  obtain ⟨⟨t1', t0'⟩, _, hcore'⟩ := bind_eq_ok.mp hcore'
  simp only at hcore'
  injection hcore' with hcore'
  injection hcore' with hrho hcore'
  injection hcore' with hkey hcore'
  injection hcore' with hs1e hcore'
  injection hcore' with hs2e _
  subst hs1e; subst hs2e
  rw [shake256n_spec _ _ (by decide)] at hsb
  injection hsb with hsb
  have hrhoE : rho = rhoOf p xi := by rw [← hrho, ← hsb]; rfl
  have hkeyE : key = keyOf p xi := by rw [← hkey, ← hsb]; rfl
  have hrpE : (seedbuf.drop SEEDBYTES).take CRHBYTES = rhoPrimeOf p xi := by rw [← hsb]; rfl
  have hrpl : ((seedbuf.drop SEEDBYTES).take CRHBYTES).length = CRHBYTES := by
    rw [← hsb, List.length_take, List.length_drop, SHAKE256_length, hS, hC]; rfl
  rw [hrho] at hme'
  rw [hme] at hme'; injection hme' with hme'; subst hme'
  rw [hrpE] at hs1 hs2 hrpl
  -- tr
  rw [shake256n_spec _ _ htrR] at htr
  injection htr with htr
  -- encodings
  have hpkE := pack_pk_spec p rho t1 hrl kf.t1s
  rw [hpk] at hpkE; injection hpkE with hpkE
  have hskE := pack_sk_spec p rho tr key t0 s1' s2' hrl hkl (by rw [← htr, SHAKE256_length])
    (fun a ha => by rw [etaB_eq]; exact kf.s1s a ha) (fun a ha => by rw [etaB_eq]; exact kf.s2s a ha) kf.t0s
  rw [hsk] at hskE; injection hskE with hskE
  refine ⟨mat, s1', s2', t1, t0, ?_, ?_, ?_, ?_, kf.rel, by rw [hpkE, hrhoE], by rw [hskE, ← htr, hrhoE, hkeyE]⟩
  · -- the matrix
    unfold matrix_expand at hme
    obtain ⟨hml, hrows⟩ := forRange_getD p.k _ mat [] hme
    refine ⟨hml, fun r hr => ?_⟩
    obtain ⟨hrl', hent⟩ := forRange_getD p.l _ (mat.getD r []) [] (hrows r hr)
    refine ⟨hrl', fun c hc => ?_⟩
    have := poly_uniform_isRejNTT FUEL rho _ _ hrl (hent c hc)
    rw [nonce_bytes r c (by omega) (by omega), hrhoE] at this
    exact this
  · -- s1
    refine ⟨kf.s1l, fun j hj => ?_⟩
    have := vec_uniform_eta_getD p.lvl FUEL _ p.l 0 s1' hs1 (Int.le_refl _) j hj
    have := poly_uniform_eta_isRejBounded p.lvl FUEL _ _ _ hrpl this
    have e : [((0 : Int).toNat + j) % 256, (((0 : Int).toNat + j) / 256) % 256] = [j, 0] := by
      simp only [Int.toNat_zero, Nat.zero_add, List.cons.injEq, and_true]; constructor <;> omega
    rw [e] at this
    exact this
  · -- s2
    refine ⟨kf.s2l, fun i hi => ?_⟩
    have := vec_uniform_eta_getD p.lvl FUEL _ p.k (p.l : Int) s2' hs2 (Int.natCast_nonneg _) i hi
    have := poly_uniform_eta_isRejBounded p.lvl FUEL _ _ _ hrpl this
    have e : [(((p.l : Int)).toNat + i) % 256, ((((p.l : Int)).toNat + i) / 256) % 256] = [p.l + i, 0] := by
      simp only [Int.toNat_natCast, List.cons.injEq, and_true]; constructor <;> omega
    rw [e] at this
    exact this
  · -- t1, t0
    refine ⟨kf.t1l, kf.t0l, fun r hr => ?_⟩
    have h1 := kf.t1s _ (getD_mem t1 r [] (by rw [kf.t1l]; exact hr))
    have h0 := kf.t0s _ (getD_mem t0 r [] (by rw [kf.t0l]; exact hr))
    refine ⟨h1.1, h0.1, fun j hj => ?_⟩
    have a1 := h1.2 _ (getD_mem (t1.getD r []) j 0 (by rw [h1.1]; exact hj))
    have a0 := h0.2 _ (getD_mem (t0.getD r []) j 0 (by rw [h0.1]; exact hj))
    have at' := kf.tstd r hr j hj
    exact ⟨a1.1, a1.2, a0.1, a0.2, at'.1, at'.2⟩

/-! ### the relation is functional -/

theorem list_ext_getD {α} (d : α) (n : Nat) (l1 l2 : List α) (h1 : l1.length = n) (h2 : l2.length = n)
    (h : ∀ i, i < n → l1.getD i d = l2.getD i d) : l1 = l2 := by
  apply List.ext_getElem (by rw [h1, h2])
  intro i hi1 hi2
  have := h i (by omega)
  simp only [List.getD_eq_getElem?_getD, List.getElem?_eq_getElem hi1, List.getElem?_eq_getElem hi2, Option.getD_some] at this
  exact this

/-- t1·2^13 + t0 as a list of integers -/
def comb (a b : List Int) : List Int := List.zipWith (fun u v => u * 8192 + v) a b

theorem cast_comb : ∀ (a b : List Int),
    (castL (comb a b) : List K) = List.zipWith (fun u v => u + v) ((castL a).map (fun v => ((8192 : Int) : K) * v)) (castL b)
  | [], _ => by simp [comb, castL]
  | _ :: _, [] => by simp [comb, castL]
  | x :: xs, y :: ys => by
      have ih := cast_comb xs ys
      simp only [comb, castL, List.zipWith_cons_cons, List.map_cons] at ih ⊢
      rw [ih]
      congr 1
      push_cast; ring

theorem El_comb (a b : List Int) (hl : a.length = b.length) (i : Nat) :
    (El (comb a b) i : K) = ((8192 : Int) : K) * El a i + El b i := by
  unfold El
  rw [cast_comb, Ev_add _ _ (by simp only [castL, List.length_map]; exact hl), Ev_smul]

/-- two pairs (t1, t0) in the Power2Round ranges whose combinations agree at the 256 roots are equal -/
theorem p2_unique (a b a' b' : List Int) (ha : a.length = 256) (hb : b.length = 256) (ha' : a'.length = 256) (hb' : b'.length = 256)
    (hr : ∀ j, j < 256 → P2Range (a.getD j 0) (b.getD j 0)) (hr' : ∀ j, j < 256 → P2Range (a'.getD j 0) (b'.getD j 0))
    (h : ∀ i, i < 256 → ((8192 : Int) : K) * El a i + El b i = ((8192 : Int) : K) * El a' i + El b' i) : a = a' ∧ b = b' := by
  have hq : Q = 8380417 := Q_val'
  have hc : (castL (comb a b) : List K) = castL (comb a' b') := by
    apply Ev_inj MK
    · simp only [castL, comb, List.length_map, List.length_zipWith, ha, hb]; rfl
    · simp only [castL, comb, List.length_map, List.length_zipWith, ha', hb']; rfl
    · intro i hi
      have e1 := El_comb a b (by rw [ha, hb]) i
      have e2 := El_comb a' b' (by rw [ha', hb']) i
      unfold El at e1 e2
      rw [e1, e2]
      exact h i hi
  have key : ∀ j, j < 256 → a.getD j 0 = a'.getD j 0 ∧ b.getD j 0 = b'.getD j 0 := by
    intro j hj
    have := cong_of_castL _ _ hc j
    unfold comb at this
    rw [zipWith_getD _ a b j (by omega) (by omega), zipWith_getD _ a' b' j (by omega) (by omega)] at this
    have r1 := hr j hj
    have r2 := hr' j hj
    unfold P2Range at r1 r2
    rw [hq] at r1 r2
    constructor <;> omega
  exact ⟨list_ext_getD 0 256 a a' ha ha' (fun j hj => (key j hj).1), list_ext_getD 0 256 b b' hb hb' (fun j hj => (key j hj).2)⟩

/-- **The specification determines the keys**: for a given parameter set and seed at most one (pk, sk) satisfies
    `IsKeyGen`.  With `keypair_meets_spec`: `keypair` computes the specification's function of the seed. -/
theorem IsKeyGen_functional (p : Params) (xi pk sk pk' sk' : List Nat)
    (h : IsKeyGen p xi pk sk) (h' : IsKeyGen p xi pk' sk') : pk = pk' ∧ sk = sk' := by
  obtain ⟨mat, s1, s2, t1, t0, hm, h1, h2, ht, hrel, hpk, hsk⟩ := h
  obtain ⟨mat', s1', s2', t1', t0', hm', h1', h2', ht', hrel', hpk', hsk'⟩ := h'
  have em : mat = mat' := by
    apply list_ext_getD [] p.k mat mat' hm.1 hm'.1
    intro r hr
    apply list_ext_getD [] p.l _ _ (hm.2 r hr).1 (hm'.2 r hr).1
    intro c hc
    exact IsRejNTT_unique _ _ _ ((hm.2 r hr).2 c hc) ((hm'.2 r hr).2 c hc)
  have e1 : s1 = s1' := list_ext_getD [] p.l s1 s1' h1.1 h1'.1 (fun j hj => IsRejBounded_unique _ _ _ _ (h1.2 j hj) (h1'.2 j hj))
  have e2 : s2 = s2' := list_ext_getD [] p.k s2 s2' h2.1 h2'.1 (fun i hi => IsRejBounded_unique _ _ _ _ (h2.2 i hi) (h2'.2 i hi))
  subst em; subst e1; subst e2
  have et : ∀ r, r < p.k → t1.getD r [] = t1'.getD r [] ∧ t0.getD r [] = t0'.getD r [] := by
    intro r hr
    obtain ⟨l1, l0, hr1⟩ := ht.2.2 r hr
    obtain ⟨l1', l0', hr1'⟩ := ht'.2.2 r hr
    exact p2_unique _ _ _ _ l1 l0 l1' l0' hr1 hr1' (fun i hi => by rw [hrel r hr i hi, hrel' r hr i hi])
  have et1 : t1 = t1' := list_ext_getD [] p.k t1 t1' ht.1 ht'.1 (fun r hr => (et r hr).1)
  have et0 : t0 = t0' := list_ext_getD [] p.k t0 t0' ht.2.1 ht'.2.1 (fun r hr => (et r hr).2)
  subst et1; subst et0
  have epk : pk = pk' := by rw [hpk, hpk']
  subst epk
  exact ⟨rfl, by rw [hsk, hsk']⟩

end DV.KeygenSpec
