import DilithiumVerif.Impl.Rounding
import DilithiumVerif.Spec.Rounding
import DilithiumVerif.Lemmas.Basic
/-
  Lemmas.Rounding — pure integer forms of the branch-free rounding code and the arithmetic core
  of the hint lemmas.  Property-level statements are in Props/C15.lean.
-/
namespace DV
theorem Q_val : Q = 8380417 := by decide
theorem g2_l2 : gamma2Of .l2 = 95232 := by decide
theorem g2_l3 : gamma2Of .l3 = 261888 := by decide
theorem g2_l5 : gamma2Of .l5 = 261888 := by decide
/-- what `power2round` computes, as plain integer arithmetic -/
def p2r (a : Int) : Int × Int :=
  let a1 := (a + 4095) / 8192
  (a - a1 * 8192, a1)

theorem power2round_eq (a : Int) (h : 0 ≤ a ∧ a < Q) : power2round a = .ok (p2r a) := by
  rw [Q_val] at h
  simp only [power2round, p2r]
  rw [add32_ok _ _ (by omega)]; simp only [ok_bind]
  rw [sub32_ok _ _ (by omega)]; simp only [ok_bind, sar_eq, shl32_eq, Int.reducePow]
  rw [wrap32_id, sub32_ok]
  · simp only [ok_bind]; congr 2 <;> omega
  · omega
  · omega


def dec88 (a : Int) : Int × Int :=
  let a1 := (a + 127) / 128
  let a1 := (a1 * 11275 + 8388608) / 16777216
  let a1 := if 43 < a1 then 0 else a1
  let a0 := a - a1 * 190464
  let a0 := if 4190208 < a0 then a0 - 8380417 else a0
  (a0, a1)
def dec32 (a : Int) : Int × Int :=
  let a1 := (a + 127) / 128
  let a1 := (a1 * 1025 + 2097152) / 4194304
  let a1 := a1 % 16
  let a0 := a - a1 * 523776
  let a0 := if 4190208 < a0 then a0 - 8380417 else a0
  (a0, a1)
theorem decompose88_eq (a : Int) (h : 0 ≤ a ∧ a < Q) : decompose .l2 a = .ok (dec88 a) := by
  rw [Q_val] at h
  have hg : ((Gen.lvl2.GAMMA2 : Nat) : Int) = 95232 := by decide
  simp only [decompose, decompose88, dec88, hg, Q_val, sar_eq, Int.reducePow]
  rw [add32_ok _ _ (by omega)]; simp only [ok_bind]
  rw [mul32_ok _ _ (by omega)]; simp only [ok_bind]
  rw [add32_ok _ _ (by omega)]; simp only [ok_bind]
  rw [sub32_ok _ _ (by omega)]; simp only [ok_bind]
  rw [and32_signmask' _ _ (by omega) (by omega)]
  generalize hB : (((a + 127) / 128) * 11275 + 8388608) / 16777216 = B
  have hBr : 0 ≤ B ∧ B ≤ 44 := by omega
  have hx : xor32 B (if 43 - B < 0 then B else 0) = if 43 < B then 0 else B := by
    split
    · rw [xor32_self, if_pos (by omega)]
    · rw [xor32_zero _ (by omega), if_neg (by omega)]
  rw [hx]
  generalize hA : (if 43 < B then (0:Int) else B) = A
  have hAr : 0 ≤ A ∧ A ≤ 43 ∧ (A = B ∨ (A = 0 ∧ B = 44)) := by subst hA; split <;> omega
  rw [mul32_ok _ _ (by omega)]; simp only [ok_bind]
  rw [mul32_ok _ _ (by omega)]; simp only [ok_bind]
  have hA0 : -8380417 < a - A * 2 * 95232 ∧ a - A * 2 * 95232 < 8380417 := by omega
  rw [sub32_ok _ _ (by omega)]; simp only [ok_bind]
  rw [sub32_ok _ _ (by omega)]; simp only [ok_bind]
  rw [and32_signmask' _ _ (by omega) (by omega)]
  rw [sub32_ok _ _ (by split <;> omega)]
  simp only [ok_bind]
  congr 2
  split <;> split <;> omega

theorem decompose32_eq (lv : Lvl) (hl : lv = .l3 ∨ lv = .l5) (a : Int) (h : 0 ≤ a ∧ a < Q) :
    decompose lv a = .ok (dec32 a) := by
  rw [Q_val] at h
  have hd : decompose lv a = decompose32 261888 a := by
    rcases hl with rfl | rfl <;> rfl
  rw [hd]
  simp only [decompose32, dec32, Q_val, sar_eq, Int.reducePow]
  rw [add32_ok _ _ (by omega)]; simp only [ok_bind]
  rw [mul32_ok _ _ (by omega)]; simp only [ok_bind]
  rw [add32_ok _ _ (by omega)]; simp only [ok_bind]
  rw [and32_15 _ (by omega)]
  generalize hA : ((((a + 127) / 128) * 1025 + 2097152) / 4194304) % 16 = A
  have hAr : 0 ≤ A ∧ A ≤ 15 := by omega
  rw [mul32_ok _ _ (by omega)]; simp only [ok_bind]
  rw [mul32_ok _ _ (by omega)]; simp only [ok_bind]
  have hA0 : -8380417 < a - A * 2 * 261888 ∧ a - A * 2 * 261888 < 8380417 := by omega
  rw [sub32_ok _ _ (by omega)]; simp only [ok_bind]
  rw [sub32_ok _ _ (by omega)]; simp only [ok_bind]
  rw [and32_signmask' _ _ (by omega) (by omega)]
  rw [sub32_ok _ _ (by split <;> omega)]
  simp only [ok_bind]
  congr 2
  split <;> split <;> omega

/-- disjunctive contract: normal case / wrap-around case -/
theorem dec88_char (a : Int) (h : 0 ≤ a ∧ a < 8380417) :
    (a = (dec88 a).2 * 190464 + (dec88 a).1 ∧ -95232 < (dec88 a).1 ∧ (dec88 a).1 ≤ 95232 ∧ 0 ≤ (dec88 a).2 ∧ (dec88 a).2 ≤ 43)
    ∨ ((dec88 a).2 = 0 ∧ (dec88 a).1 = a - 8380417 ∧ 8380416 - 95232 < a) := by
  simp only [dec88]
  split <;> split <;> omega

theorem dec32_char (a : Int) (h : 0 ≤ a ∧ a < 8380417) :
    (a = (dec32 a).2 * 523776 + (dec32 a).1 ∧ -261888 < (dec32 a).1 ∧ (dec32 a).1 ≤ 261888 ∧ 0 ≤ (dec32 a).2 ∧ (dec32 a).2 ≤ 15)
    ∨ ((dec32 a).2 = 0 ∧ (dec32 a).1 = a - 8380417 ∧ 8380416 - 261888 < a) := by
  simp only [dec32]
  generalize hc : (((a + 127) / 128) * 1025 + 2097152) / 4194304 = c
  have hcr : 0 ≤ c ∧ c ≤ 16 := by omega
  have hcs : c = 0 ∨ c = 1 ∨ c = 2 ∨ c = 3 ∨ c = 4 ∨ c = 5 ∨ c = 6 ∨ c = 7 ∨ c = 8 ∨ c = 9 ∨ c = 10
      ∨ c = 11 ∨ c = 12 ∨ c = 13 ∨ c = 14 ∨ c = 15 ∨ c = 16 := by omega
  rcases hcs with rfl|rfl|rfl|rfl|rfl|rfl|rfl|rfl|rfl|rfl|rfl|rfl|rfl|rfl|rfl|rfl|rfl <;> (split <;> omega)

def uh88 (a hint : Int) : Int :=
  let d := dec88 a
  if hint = 0 then d.2
  else if 0 < d.1 then (if d.2 = 43 then 0 else d.2 + 1)
  else (if d.2 = 0 then 43 else d.2 - 1)

def uh32 (a hint : Int) : Int :=
  let d := dec32 a
  if hint = 0 then d.2
  else if 0 < d.1 then (d.2 + 1) % 16
  else (d.2 - 1) % 16

theorem use_hint88_eq (a hint : Int) (h : 0 ≤ a ∧ a < Q) : use_hint .l2 a hint = .ok (uh88 a hint) := by
  have hc := dec88_char a (by rw [Q_val] at h; exact h)
  simp only [use_hint, decompose88_eq a h, ok_bind, uh88]
  generalize (dec88 a).1 = r0 at *
  generalize (dec88 a).2 = r1 at *
  split
  · rfl
  · split
    · split
      · rfl
      · rw [add32_ok _ _ (by omega)]
    · split
      · rfl
      · rw [sub32_ok _ _ (by omega)]

theorem use_hint32_eq (lv : Lvl) (hl : lv = .l3 ∨ lv = .l5) (a hint : Int) (h : 0 ≤ a ∧ a < Q) :
    use_hint lv a hint = .ok (uh32 a hint) := by
  have hc := dec32_char a (by rw [Q_val] at h; exact h)
  have hd := decompose32_eq lv hl a h
  rcases hl with rfl | rfl <;>
  · simp only [use_hint, hd, ok_bind, uh32]
    generalize (dec32 a).1 = r0 at *
    generalize (dec32 a).2 = r1 at *
    split
    · rfl
    · split
      · rw [add32_ok _ _ (by omega)]; simp only [ok_bind]; rw [and32_15 _ (by omega)]
      · rw [sub32_ok _ _ (by omega)]; simp only [ok_bind]; rw [and32_15 _ (by omega)]

def mh (g a0 a1 : Int) : Int := if g < a0 ∨ a0 < -g ∨ (a0 = -g ∧ a1 ≠ 0) then 1 else 0
theorem make_hint_l2 (a0 a1 : Int) : make_hint .l2 a0 a1 = mh 95232 a0 a1 := by
  simp only [make_hint, g2_l2, mh]
theorem make_hint_l3 (lv : Lvl) (hl : lv = .l3 ∨ lv = .l5) (a0 a1 : Int) : make_hint lv a0 a1 = mh 261888 a0 a1 := by
  rcases hl with rfl | rfl <;> simp only [make_hint, g2_l3, g2_l5, mh]

/-- UseHint ∘ MakeHint recovers w1 (γ2 = (q−1)/88): pure core -/
theorem uh88_mh (w1 a0 : Int) (hw : 0 ≤ w1 ∧ w1 < 44) (ha : -190464 < a0 ∧ a0 < 190464) :
    uh88 ((w1 * 190464 + a0) % 8380417) (mh 95232 a0 w1) = w1 := by
  have hr0 : 0 ≤ (w1 * 190464 + a0) % 8380417 ∧ (w1 * 190464 + a0) % 8380417 < 8380417 := by omega
  have hc := dec88_char _ hr0
  have hm : (w1 * 190464 + a0) % 8380417 = w1 * 190464 + a0 ∨ (w1 * 190464 + a0) % 8380417 = w1 * 190464 + a0 + 8380417
      ∨ (w1 * 190464 + a0) % 8380417 = w1 * 190464 + a0 - 8380417 := by omega
  simp only [uh88, mh]
  generalize (w1 * 190464 + a0) % 8380417 = r at *
  generalize (dec88 r).1 = r0 at *
  generalize (dec88 r).2 = r1 at *
  by_cases hh : (95232 < a0 ∨ a0 < -95232 ∨ a0 = -95232 ∧ w1 ≠ 0)
  · simp only [if_pos hh, show (1:Int) ≠ 0 by decide, if_false]
    split <;> split <;> omega
  · simp only [if_neg hh, if_true]
    omega

theorem uh32_mh (w1 a0 : Int) (hw : 0 ≤ w1 ∧ w1 < 16) (ha : -523776 < a0 ∧ a0 < 523776) :
    uh32 ((w1 * 523776 + a0) % 8380417) (mh 261888 a0 w1) = w1 := by
  have hr0 : 0 ≤ (w1 * 523776 + a0) % 8380417 ∧ (w1 * 523776 + a0) % 8380417 < 8380417 := by omega
  have hc := dec32_char _ hr0
  have hm : (w1 * 523776 + a0) % 8380417 = w1 * 523776 + a0 ∨ (w1 * 523776 + a0) % 8380417 = w1 * 523776 + a0 + 8380417
      ∨ (w1 * 523776 + a0) % 8380417 = w1 * 523776 + a0 - 8380417 := by omega
  simp only [uh32, mh]
  generalize (w1 * 523776 + a0) % 8380417 = r at *
  generalize (dec32 r).1 = r0 at *
  generalize (dec32 r).2 = r1 at *
  by_cases hh : (261888 < a0 ∨ a0 < -261888 ∨ a0 = -261888 ∧ w1 ≠ 0)
  · simp only [if_pos hh, show (1:Int) ≠ 0 by decide, if_false]
    split <;> omega
  · simp only [if_neg hh, if_true]
    omega

theorem dec88_eq_spec (a : Int) (h : 0 ≤ a ∧ a < 8380417) :
    dec88 a = ((Spec.Decompose 95232 a).2, (Spec.Decompose 95232 a).1) := by
  simp only [dec88, Spec.Decompose, Spec.modpm, Spec.q, Int.reduceMul, Int.reduceDiv, Int.reduceSub, Int.emod_eq_of_lt h.1 h.2]
  generalize hm : a % 190464 = m
  generalize hB : (((a + 127) / 128) * 11275 + 8388608) / 16777216 = B
  congr 1
  · split <;> split <;> split <;> split <;> simp only [] <;> omega
  · split <;> split <;> split <;> simp only [] <;> omega

theorem dec32_eq_spec (a : Int) (h : 0 ≤ a ∧ a < 8380417) :
    dec32 a = ((Spec.Decompose 261888 a).2, (Spec.Decompose 261888 a).1) := by
  have hc := dec32_char a h
  simp only [Spec.Decompose, Spec.modpm, Spec.q, Int.reduceMul, Int.reduceDiv, Int.reduceSub, Int.emod_eq_of_lt h.1 h.2]
  generalize hm : a % 523776 = m
  generalize (dec32 a) = d at *
  obtain ⟨d0, d1⟩ := d
  simp only at hc
  congr 1
  · split <;> split <;> simp only [] <;> omega
  · split <;> split <;> simp only [] <;> omega

theorem highbits88 (a : Int) (h : 0 ≤ a ∧ a < 8380417) : Spec.HighBits 95232 a = (dec88 a).2 := by
  rw [dec88_eq_spec a h]; rfl
theorem lowbits88 (a : Int) (h : 0 ≤ a ∧ a < 8380417) : Spec.LowBits 95232 a = (dec88 a).1 := by
  rw [dec88_eq_spec a h]; rfl

/-- make_hint = [HighBits((w1·α + a0) mod q) ≠ w1] -/
theorem mh88_iff (w1 a0 : Int) (hw : 0 ≤ w1 ∧ w1 < 44) (ha : -190464 < a0 ∧ a0 < 190464) :
    mh 95232 a0 w1 = 1 ↔ Spec.HighBits 95232 ((w1 * 190464 + a0) % 8380417) ≠ w1 := by
  have hr0 : 0 ≤ (w1 * 190464 + a0) % 8380417 ∧ (w1 * 190464 + a0) % 8380417 < 8380417 := by omega
  rw [highbits88 _ hr0]
  have hc := dec88_char _ hr0
  have hm : (w1 * 190464 + a0) % 8380417 = w1 * 190464 + a0 ∨ (w1 * 190464 + a0) % 8380417 = w1 * 190464 + a0 + 8380417
      ∨ (w1 * 190464 + a0) % 8380417 = w1 * 190464 + a0 - 8380417 := by omega
  simp only [mh]
  generalize (w1 * 190464 + a0) % 8380417 = r at *
  generalize (dec88 r).1 = r0 at *
  generalize (dec88 r).2 = r1 at *
  by_cases hh : (95232 < a0 ∨ a0 < -95232 ∨ a0 = -95232 ∧ w1 ≠ 0)
  · simp only [if_pos hh, true_iff]; omega
  · simp only [if_neg hh]; constructor
    · intro h; omega
    · intro h; exfalso; apply h; omega

theorem highbits32 (a : Int) (h : 0 ≤ a ∧ a < 8380417) : Spec.HighBits 261888 a = (dec32 a).2 := by
  rw [dec32_eq_spec a h]; rfl
theorem lowbits32 (a : Int) (h : 0 ≤ a ∧ a < 8380417) : Spec.LowBits 261888 a = (dec32 a).1 := by
  rw [dec32_eq_spec a h]; rfl

theorem mh32_iff (w1 a0 : Int) (hw : 0 ≤ w1 ∧ w1 < 16) (ha : -523776 < a0 ∧ a0 < 523776) :
    mh 261888 a0 w1 = 1 ↔ Spec.HighBits 261888 ((w1 * 523776 + a0) % 8380417) ≠ w1 := by
  have hr0 : 0 ≤ (w1 * 523776 + a0) % 8380417 ∧ (w1 * 523776 + a0) % 8380417 < 8380417 := by omega
  rw [highbits32 _ hr0]
  have hc := dec32_char _ hr0
  have hm : (w1 * 523776 + a0) % 8380417 = w1 * 523776 + a0 ∨ (w1 * 523776 + a0) % 8380417 = w1 * 523776 + a0 + 8380417
      ∨ (w1 * 523776 + a0) % 8380417 = w1 * 523776 + a0 - 8380417 := by omega
  simp only [mh]
  generalize (w1 * 523776 + a0) % 8380417 = r at *
  generalize (dec32 r).1 = r0 at *
  generalize (dec32 r).2 = r1 at *
  by_cases hh : (261888 < a0 ∨ a0 < -261888 ∨ a0 = -261888 ∧ w1 ≠ 0)
  · simp only [if_pos hh, true_iff]; omega
  · simp only [if_neg hh]; constructor
    · intro h; omega
    · intro h; exfalso; apply h; omega

/-- the pure use_hint is FIPS 204 Algorithm 40 (γ2 = (q−1)/88, m = 44) -/
theorem uh88_eq_spec (a hint : Int) (h : 0 ≤ a ∧ a < 8380417) (hh : hint = 0 ∨ hint = 1) :
    uh88 a hint = Spec.UseHint 95232 hint a := by
  have hc := dec88_char a h
  have hd := dec88_eq_spec a h
  simp only [uh88, Spec.UseHint, Spec.q, Int.reduceMul, Int.reduceSub, Int.reduceDiv]
  generalize Spec.Decompose 95232 a = sd at *
  obtain ⟨s1, s0⟩ := sd
  rw [hd] at hc ⊢
  simp only at hc ⊢
  rcases hh with rfl | rfl
  · simp only [if_true]
    rw [if_neg (show ¬ ((0:Int) = 1 ∧ 0 < s0) by omega), if_neg (show ¬ ((0:Int) = 1 ∧ s0 ≤ 0) by omega)]
  · simp only [show (1:Int) ≠ 0 by decide, if_false, true_and]
    split
    · split <;> omega
    · rw [if_pos (show s0 ≤ 0 by omega)]; split <;> omega

theorem uh32_eq_spec (a hint : Int) (h : 0 ≤ a ∧ a < 8380417) (hh : hint = 0 ∨ hint = 1) :
    uh32 a hint = Spec.UseHint 261888 hint a := by
  have hc := dec32_char a h
  have hd := dec32_eq_spec a h
  simp only [uh32, Spec.UseHint, Spec.q, Int.reduceMul, Int.reduceSub, Int.reduceDiv]
  generalize Spec.Decompose 261888 a = sd at *
  obtain ⟨s1, s0⟩ := sd
  rw [hd] at hc ⊢
  simp only at hc ⊢
  rcases hh with rfl | rfl
  · simp only [if_true]
    rw [if_neg (show ¬ ((0:Int) = 1 ∧ 0 < s0) by omega), if_neg (show ¬ ((0:Int) = 1 ∧ s0 ≤ 0) by omega)]
  · simp only [show (1:Int) ≠ 0 by decide, if_false, true_and]
    split
    · rfl
    · rw [if_pos (show s0 ≤ 0 by omega)]

theorem uh88_range (a hint : Int) (h : 0 ≤ a ∧ a < 8380417) : 0 ≤ uh88 a hint ∧ uh88 a hint < 44 := by
  have hc := dec88_char a h
  simp only [uh88]
  generalize (dec88 a).1 = r0 at *
  generalize (dec88 a).2 = r1 at *
  split
  · omega
  · split <;> split <;> omega

theorem uh32_range (a hint : Int) (_h : 0 ≤ a ∧ a < 8380417) : 0 ≤ uh32 a hint ∧ uh32 a hint < 16 := by
  have hc := dec32_char a _h
  simp only [uh32]
  generalize (dec32 a).1 = r0 at *
  generalize (dec32 a).2 = r1 at *
  split
  · omega
  · split <;> omega

end DV
