import DilithiumVerif.Lemmas.CodecsFull
import DilithiumVerif.Lemmas.Lift
import DilithiumVerif.Impl.Packing
import DilithiumVerif.Lemmas.HintCodec
/-
  Lemmas.Containers — round trips of the byte containers: unpack_pk ∘ pack_pk, unpack_sk ∘ pack_sk,
  unpack_sig ∘ pack_sig (including the hint section), built from the per-polynomial round trips of CodecsFull.
-/
namespace DV.Containers
open DV

/-! ### generic slicing -/

theorem forRange_eq {α} (n : Nat) (f : Nat → Chk α) (l : List α) (d : α) (hl : l.length = n)
    (h : ∀ i, i < n → f i = .ok (l.getD i d)) : forRange n f = .ok l := by
  unfold forRange
  rw [mapL_ok f (fun i => l.getD i d) (List.range n) (fun i hi => h i (List.mem_range.mp hi))]
  congr 1
  apply List.ext_getElem (by simp [hl])
  intro i h1 h2
  simp only [List.getElem_map, List.getElem_range]
  rw [List.getD_eq_getElem?_getD, List.getElem?_eq_getElem h2]; rfl

theorem flatten_slice {α} (m : Nat) : ∀ (bs : List (List α)) (post : List α) (i : Nat), (∀ b ∈ bs, b.length = m) → i < bs.length →
    ((bs.flatten ++ post).drop (i * m)).take m = bs.getD i []
  | [], _, _, _, h => by simp at h
  | b :: bs, post, 0, hm, _ => by
      simp only [Nat.zero_mul, List.drop_zero, List.flatten_cons, List.append_assoc, List.getD_cons_zero]
      rw [List.take_append_of_le_length (Nat.le_of_eq (hm b (List.mem_cons_self ..)).symm), List.take_of_length_le (Nat.le_of_eq (hm b (List.mem_cons_self ..)))]
  | b :: bs, post, i + 1, hm, h => by
      have hb := hm b (List.mem_cons_self ..)
      simp only [List.flatten_cons, List.append_assoc, List.getD_cons_succ]
      have e : (i + 1) * m = b.length + i * m := by rw [hb, Nat.succ_mul]; omega
      rw [e, List.drop_append, List.drop_of_length_le (by omega), List.nil_append]
      have e2 : b.length + i * m - b.length = i * m := by omega
      rw [e2]
      exact flatten_slice m bs post i (fun x hx => hm x (List.mem_cons_of_mem _ hx)) (by simpa using h)

theorem slice_of_flatten {α} (m : Nat) (pre post : List α) (bs : List (List α)) (i : Nat) (hm : ∀ b ∈ bs, b.length = m) (hi : i < bs.length) :
    ((pre ++ bs.flatten ++ post).drop (pre.length + i * m)).take m = bs.getD i [] := by
  rw [List.append_assoc, List.drop_append, List.drop_of_length_le (by omega), List.nil_append]
  have e : pre.length + i * m - pre.length = i * m := by omega
  rw [e]
  exact flatten_slice m bs post i hm hi

theorem flatten_length {α} (m : Nat) : ∀ (bs : List (List α)), (∀ b ∈ bs, b.length = m) → bs.flatten.length = bs.length * m
  | [], _ => by simp
  | b :: bs, h => by
      rw [List.flatten_cons, List.length_append, flatten_length m bs (fun x hx => h x (List.mem_cons_of_mem _ hx)), h b (List.mem_cons_self ..)]
      simp [Nat.succ_mul]; omega

/-! ### public key -/

theorem t1_unpack_take (s : List Nat) (h : POLYT1 ≤ s.length) : t1_unpack s = t1_unpack (s.take POLYT1) := by
  unfold t1_unpack takeC
  simp only [h, if_true, List.length_take, Nat.min_eq_left h, Nat.le_refl, ok_bind, List.take_take, Nat.min_self]

theorem unpack_pack_pk (p : Params) (rho : List Nat) (t1 : PolyVec) (hr : rho.length = SEEDBYTES) (hl : t1.length = p.k)
    (ht : ∀ a ∈ t1, a.length = 256 ∧ ∀ x ∈ a, 0 ≤ x ∧ x < 1024) :
    ∃ pk, pack_pk p rho t1 = .ok pk ∧ pk.length = SEEDBYTES + p.k * POLYT1 ∧ unpack_pk p pk = .ok (rho, t1) := by
  have hP : POLYT1 = 320 := by decide
  let bs := t1.map t1_pack
  have hbs : ∀ b ∈ bs, b.length = POLYT1 := by
    intro b hb
    obtain ⟨a, ha, rfl⟩ := List.mem_map.mp hb
    rw [hP]; exact t1_pack_length a (ht a ha).1
  have hflat : t1.flatMap t1_pack = bs.flatten := by simp [bs, List.flatMap_def]
  have hbl : bs.length = p.k := by simp [bs, hl]
  refine ⟨rho ++ bs.flatten, ?_, ?_, ?_⟩
  · unfold pack_pk takeC
    simp only [hr, Nat.le_refl, if_true, ok_bind, hflat]
    rw [List.take_of_length_le (Nat.le_of_eq hr)]
  · rw [List.length_append, flatten_length POLYT1 bs hbs, hbl, hr]
  · unfold unpack_pk takeC
    have hlen : (rho ++ bs.flatten).length = SEEDBYTES + p.k * POLYT1 := by rw [List.length_append, flatten_length POLYT1 bs hbs, hbl, hr]
    have h1 : SEEDBYTES ≤ (rho ++ bs.flatten).length := by rw [hlen]; omega
    simp only [h1, if_true, ok_bind]
    rw [List.take_append_of_le_length (Nat.le_of_eq hr.symm), List.take_of_length_le (Nat.le_of_eq hr)]
    rw [forRange_eq p.k _ t1 [] hl]
    · rfl
    · intro i hi
      unfold dropC
      have h2 : SEEDBYTES + i * POLYT1 ≤ (rho ++ bs.flatten).length := by
        rw [hlen]; have : i * POLYT1 ≤ p.k * POLYT1 := Nat.mul_le_mul_right _ (by omega)
        omega
      simp only [h2, if_true, ok_bind]
      have h3 : POLYT1 ≤ ((rho ++ bs.flatten).drop (SEEDBYTES + i * POLYT1)).length := by
        rw [List.length_drop, hlen]
        have : (i + 1) * POLYT1 ≤ p.k * POLYT1 := Nat.mul_le_mul_right _ (by omega)
        have e : (i + 1) * POLYT1 = i * POLYT1 + POLYT1 := Nat.succ_mul i POLYT1
        omega
      rw [t1_unpack_take _ h3]
      have := slice_of_flatten POLYT1 rho [] bs i hbs (by rw [hbl]; exact hi)
      rw [List.append_nil, hr] at this
      rw [this]
      have hget : bs.getD i [] = t1_pack (t1.getD i []) := by
        simp only [bs, List.getD_eq_getElem?_getD, List.getElem?_map]
        rw [List.getElem?_eq_getElem (by rw [hl]; exact hi)]; rfl
      rw [hget]
      have hmem : t1.getD i [] ∈ t1 := by
        rw [List.getD_eq_getElem?_getD, List.getElem?_eq_getElem (by rw [hl]; exact hi)]; simp
      exact t1_roundtrip _ (ht _ hmem).1 (ht _ hmem).2

end DV.Containers

namespace DV.Containers
open DV

/-! ### secret key -/

def etaB : Lvl → Int
  | .l3 => 4
  | _ => 2

theorem polyeta_vals : polyetaOf .l2 = 96 ∧ polyetaOf .l3 = 128 ∧ polyetaOf .l5 = 96 := by decide

theorem eta_roundtrip (lv : Lvl) (a : List Int) (hl : a.length = 256) (ha : ∀ x ∈ a, -(etaB lv) ≤ x ∧ x ≤ etaB lv) :
    ∃ b, eta_pack lv a = .ok b ∧ b.length = polyetaOf lv ∧ eta_unpack lv b = .ok a := by
  obtain ⟨p2, p3, p5⟩ := polyeta_vals
  cases lv with
  | l2 => rw [p2]; exact eta2_roundtrip .l2 (Or.inl rfl) a hl ha
  | l3 => rw [p3]; exact eta4_roundtrip a hl ha
  | l5 => rw [p5]; exact eta2_roundtrip .l5 (Or.inr rfl) a hl ha

theorem eta_unpack_take (lv : Lvl) (s : List Nat) (h : polyetaOf lv ≤ s.length) : eta_unpack lv s = eta_unpack lv (s.take (polyetaOf lv)) := by
  unfold eta_unpack takeC
  simp only [h, if_true, List.length_take, Nat.min_eq_left h, Nat.le_refl, ok_bind, List.take_take, Nat.min_self]

theorem t0_unpack_take (s : List Nat) (h : POLYT0 ≤ s.length) : t0_unpack s = t0_unpack (s.take POLYT0) := by
  unfold t0_unpack takeC
  simp only [h, if_true, List.length_take, Nat.min_eq_left h, Nat.le_refl, ok_bind, List.take_take, Nat.min_self]

/-- pack every polynomial of a vector; the results have the fixed size and unpack to the originals -/
theorem pack_vec {β} (pack : List Int → Chk (List β)) (unpack : List β → Chk (List Int)) (m : Nat) (G : List Int → Prop)
    (hrt : ∀ a, G a → ∃ b, pack a = .ok b ∧ b.length = m ∧ unpack b = .ok a) (v : List (List Int)) (hv : ∀ a ∈ v, G a) :
    ∃ bs, mapL pack v = .ok bs ∧ bs.length = v.length ∧ (∀ b ∈ bs, b.length = m) ∧
      ∀ i, i < v.length → unpack (bs.getD i []) = .ok (v.getD i []) := by
  obtain ⟨bs, h1, h2⟩ := mapL_total pack G (fun a b => b.length = m ∧ unpack b = .ok a) (fun a ha => hrt a ha) v hv
  exact ⟨bs, h1, h2.length, All2.right (B := fun b => b.length = m) (fun _ _ h => h.1) h2, fun i hi => (h2.getD [] [] i hi).2⟩

/-- reading slice i (of width m) out of pre ++ bs.flatten ++ post and decoding it -/
theorem unpack_slices {β} (unpack : List β → Chk (List Int)) (m : Nat)
    (htake : ∀ s, m ≤ s.length → unpack s = unpack (s.take m))
    (pre post : List β) (bs : List (List β)) (v : List (List Int)) (off : Nat) (hoff : off = pre.length)
    (hbl : bs.length = v.length) (hbs : ∀ b ∈ bs, b.length = m)
    (hun : ∀ i, i < v.length → unpack (bs.getD i []) = .ok (v.getD i [])) :
    forRange v.length (fun i => do let s ← dropC (pre ++ bs.flatten ++ post) (off + i * m); unpack s) = .ok v := by
  apply forRange_eq v.length _ v [] rfl
  intro i hi
  have hfl := flatten_length m bs hbs
  have hle : (i + 1) * m ≤ bs.length * m := Nat.mul_le_mul_right _ (by omega)
  have e : (i + 1) * m = i * m + m := Nat.succ_mul i m
  have hlen : (pre ++ bs.flatten ++ post).length = pre.length + bs.length * m + post.length := by
    simp only [List.length_append, hfl]
  unfold dropC
  have h2 : off + i * m ≤ (pre ++ bs.flatten ++ post).length := by rw [hlen, hoff]; omega
  simp only [h2, if_true, ok_bind]
  rw [htake _ (by rw [List.length_drop, hlen, hoff]; omega), hoff, slice_of_flatten m pre post bs i hbs (by rw [hbl]; exact hi)]
  exact hun i hi

theorem sk_facts : ∀ p ∈ allParams, p.polyeta = polyetaOf p.lvl ∧ (p.trBytes = 32 ∨ p.trBytes = 64) := by decide

theorem unpack_pack_sk (p : Params) (hp : p ∈ allParams) (rho tr key : List Nat) (t0 s1 s2 : PolyVec)
    (hr : rho.length = SEEDBYTES) (hk : key.length = SEEDBYTES) (htr : tr.length = p.trBytes)
    (hl1 : s1.length = p.l) (hl2 : s2.length = p.k) (hl0 : t0.length = p.k)
    (h1 : ∀ a ∈ s1, a.length = 256 ∧ ∀ x ∈ a, -(etaB p.lvl) ≤ x ∧ x ≤ etaB p.lvl)
    (h2 : ∀ a ∈ s2, a.length = 256 ∧ ∀ x ∈ a, -(etaB p.lvl) ≤ x ∧ x ≤ etaB p.lvl)
    (h0 : ∀ a ∈ t0, a.length = 256 ∧ ∀ x ∈ a, -4096 < x ∧ x ≤ 4096) :
    ∃ sk, pack_sk p rho tr key t0 s1 s2 = .ok sk ∧ unpack_sk p sk = .ok (rho, tr, key, t0, s1, s2) := by
  obtain ⟨hpe, _⟩ := sk_facts p hp
  have hS : SEEDBYTES = 32 := by decide
  have hT0 : POLYT0 = 416 := by decide
  obtain ⟨e1, p1, l1, m1, u1⟩ := pack_vec (eta_pack p.lvl) (eta_unpack p.lvl) p.polyeta
    (fun a => a.length = 256 ∧ ∀ x ∈ a, -(etaB p.lvl) ≤ x ∧ x ≤ etaB p.lvl)
    (fun a ha => by rw [hpe]; exact eta_roundtrip p.lvl a ha.1 ha.2) s1 h1
  obtain ⟨e2, p2, l2, m2, u2⟩ := pack_vec (eta_pack p.lvl) (eta_unpack p.lvl) p.polyeta
    (fun a => a.length = 256 ∧ ∀ x ∈ a, -(etaB p.lvl) ≤ x ∧ x ≤ etaB p.lvl)
    (fun a ha => by rw [hpe]; exact eta_roundtrip p.lvl a ha.1 ha.2) s2 h2
  obtain ⟨e0, p0, l0, m0, u0⟩ := pack_vec t0_pack t0_unpack POLYT0
    (fun a => a.length = 256 ∧ ∀ x ∈ a, -4096 < x ∧ x ≤ 4096)
    (fun a ha => by rw [hT0]; exact t0_roundtrip a ha.1 ha.2) t0 h0
  refine ⟨rho ++ key ++ tr ++ e1.flatten ++ e2.flatten ++ e0.flatten, ?_, ?_⟩
  · unfold pack_sk takeC
    simp only [hr, hk, htr, Nat.le_refl, if_true, ok_bind, p1, p2, p0]
    rw [List.take_of_length_le (Nat.le_of_eq hr), List.take_of_length_le (Nat.le_of_eq hk), List.take_of_length_le (Nat.le_of_eq htr)]
  · have f1 := flatten_length p.polyeta e1 m1
    have f2 := flatten_length p.polyeta e2 m2
    have f0 := flatten_length POLYT0 e0 m0
    unfold unpack_sk takeC sliceC
    have hlen : (rho ++ key ++ tr ++ e1.flatten ++ e2.flatten ++ e0.flatten).length
        = 64 + p.trBytes + e1.length * p.polyeta + e2.length * p.polyeta + e0.length * POLYT0 := by
      simp only [List.length_append, hr, hk, htr, f1, f2, f0, hS]
    have c1 : SEEDBYTES ≤ (rho ++ key ++ tr ++ e1.flatten ++ e2.flatten ++ e0.flatten).length := by rw [hlen, hS]; omega
    have c2 : SEEDBYTES ≤ SEEDBYTES + SEEDBYTES ∧ SEEDBYTES + SEEDBYTES ≤ (rho ++ key ++ tr ++ e1.flatten ++ e2.flatten ++ e0.flatten).length := by
      rw [hlen, hS]; omega
    have c3 : SEEDBYTES + SEEDBYTES ≤ SEEDBYTES + SEEDBYTES + p.trBytes ∧
        SEEDBYTES + SEEDBYTES + p.trBytes ≤ (rho ++ key ++ tr ++ e1.flatten ++ e2.flatten ++ e0.flatten).length := by
      rw [hlen, hS]; omega
    simp only [c1, c2, c3, if_true, and_self, ok_bind]
    -- the three fixed fields
    have t1 : (rho ++ key ++ tr ++ e1.flatten ++ e2.flatten ++ e0.flatten).take SEEDBYTES = rho := by
      simp only [List.append_assoc]
      rw [List.take_append_of_le_length (Nat.le_of_eq hr.symm), List.take_of_length_le (Nat.le_of_eq hr)]
    have t2 : ((rho ++ key ++ tr ++ e1.flatten ++ e2.flatten ++ e0.flatten).drop SEEDBYTES).take (SEEDBYTES + SEEDBYTES - SEEDBYTES) = key := by
      simp only [List.append_assoc]
      rw [List.drop_append, List.drop_of_length_le (Nat.le_of_eq hr), List.nil_append, hr, Nat.sub_self, List.drop_zero,
        Nat.add_sub_cancel, List.take_append_of_le_length (Nat.le_of_eq hk.symm), List.take_of_length_le (Nat.le_of_eq hk)]
    have t3 : ((rho ++ key ++ tr ++ e1.flatten ++ e2.flatten ++ e0.flatten).drop (SEEDBYTES + SEEDBYTES)).take
        (SEEDBYTES + SEEDBYTES + p.trBytes - (SEEDBYTES + SEEDBYTES)) = tr := by
      have hrk : (rho ++ key).length = SEEDBYTES + SEEDBYTES := by rw [List.length_append, hr, hk]
      have : rho ++ key ++ tr ++ e1.flatten ++ e2.flatten ++ e0.flatten = (rho ++ key) ++ (tr ++ (e1.flatten ++ (e2.flatten ++ e0.flatten))) := by
        simp only [List.append_assoc]
      rw [this, List.drop_append, List.drop_of_length_le (Nat.le_of_eq hrk), List.nil_append, hrk, Nat.sub_self, List.drop_zero,
        Nat.add_sub_cancel_left, List.take_append_of_le_length (Nat.le_of_eq htr.symm), List.take_of_length_le (Nat.le_of_eq htr)]
    rw [t1, t2, t3]
    -- the three vectors
    have hpre1 : (rho ++ key ++ tr).length = SEEDBYTES + SEEDBYTES + p.trBytes := by simp only [List.length_append, hr, hk, htr]
    have s1eq := unpack_slices (eta_unpack p.lvl) p.polyeta (fun s hs => by rw [hpe] at hs ⊢; exact eta_unpack_take p.lvl s hs)
      (rho ++ key ++ tr) (e2.flatten ++ e0.flatten) e1 s1 (SEEDBYTES + SEEDBYTES + p.trBytes) hpre1.symm l1 m1 u1
    have hpre2 : (rho ++ key ++ tr ++ e1.flatten).length = SEEDBYTES + SEEDBYTES + p.trBytes + p.l * p.polyeta := by
      simp only [List.length_append, hr, hk, htr, f1, l1, hl1]
    have s2eq := unpack_slices (eta_unpack p.lvl) p.polyeta (fun s hs => by rw [hpe] at hs ⊢; exact eta_unpack_take p.lvl s hs)
      (rho ++ key ++ tr ++ e1.flatten) e0.flatten e2 s2 (SEEDBYTES + SEEDBYTES + p.trBytes + p.l * p.polyeta) hpre2.symm l2 m2 u2
    have hpre3 : (rho ++ key ++ tr ++ e1.flatten ++ e2.flatten).length = SEEDBYTES + SEEDBYTES + p.trBytes + p.l * p.polyeta + p.k * p.polyeta := by
      simp only [List.length_append, hr, hk, htr, f1, f2, l1, l2, hl1, hl2]
    have s0eq := unpack_slices t0_unpack POLYT0 (fun s hs => t0_unpack_take s hs)
      (rho ++ key ++ tr ++ e1.flatten ++ e2.flatten) [] e0 t0 (SEEDBYTES + SEEDBYTES + p.trBytes + p.l * p.polyeta + p.k * p.polyeta) hpre3.symm l0 m0 u0
    rw [hl1] at s1eq; rw [hl2] at s2eq; rw [hl0] at s0eq
    simp only [List.append_nil, List.append_assoc] at s1eq s2eq s0eq ⊢
    rw [s1eq, ok_bind, s2eq, ok_bind, s0eq, ok_bind]

end DV.Containers

namespace DV.Containers
open DV DV.HintCodec

/-! ### signature -/

theorem z_roundtrip (lv : Lvl) (a : List Int) (hl : a.length = 256) (ha : ∀ x ∈ a, -(gamma1Of lv) < x ∧ x ≤ gamma1Of lv) :
    ∃ b, z_pack lv a = .ok b ∧ b.length = polyzOf lv ∧ z_unpack lv b = .ok a := by
  have g : gamma1Of .l2 = 131072 ∧ gamma1Of .l3 = 524288 ∧ gamma1Of .l5 = 524288 := by decide
  have pz : polyzOf .l2 = 576 ∧ polyzOf .l3 = 640 ∧ polyzOf .l5 = 640 := by decide
  cases lv with
  | l2 => rw [pz.1]; rw [g.1] at ha; exact z17_roundtrip a hl ha
  | l3 => rw [pz.2.1]; rw [g.2.1] at ha; exact z19_roundtrip .l3 (Or.inl rfl) a hl ha
  | l5 => rw [pz.2.2]; rw [g.2.2] at ha; exact z19_roundtrip .l5 (Or.inr rfl) a hl ha

theorem z_unpack_take (lv : Lvl) (s : List Nat) (h : polyzOf lv ≤ s.length) : z_unpack lv s = z_unpack lv (s.take (polyzOf lv)) := by
  unfold z_unpack takeC
  simp only [h, if_true, List.length_take, Nat.min_eq_left h, Nat.le_refl, ok_bind, List.take_take, Nat.min_self]

theorem sig_facts : ∀ p ∈ allParams, p.polyz = polyzOf p.lvl ∧ p.omega ≤ 255 ∧ p.ctilde ≤ p.sigBytes ∧
    p.sigBytes = p.ctilde + p.l * p.polyz + p.omega + p.k := by decide

/-- `unpack_sig ∘ pack_sig`: a signature packed from (c̃, z, h) — z in (−γ1, γ1], h a 0/1 vector with at most ω ones —
    decodes to exactly (c̃, z, h) and the decoder accepts the hint section. -/
theorem unpack_pack_sig (p : Params) (hp : p ∈ allParams) (ct : List Nat) (z h : PolyVec) (hct : ct.length = p.ctilde)
    (hzl : z.length = p.l) (hz : ∀ a ∈ z, a.length = 256 ∧ ∀ x ∈ a, -(gamma1Of p.lvl) < x ∧ x ≤ gamma1Of p.lvl)
    (hhl : h.length = p.k) (hh : ∀ a ∈ h, Bits a) (hw : (idxOf h).length ≤ p.omega) :
    ∃ sig, pack_sig p (ct ++ List.replicate (p.sigBytes - p.ctilde) 0) none z h = .ok sig ∧ sig.length = p.sigBytes ∧
      unpack_sig p sig = .ok (true, ct, z, h) := by
  obtain ⟨hpz, ho, hcs, hsb⟩ := sig_facts p hp
  obtain ⟨zs, pzs, lzs, mzs, uzs⟩ := pack_vec (z_pack p.lvl) (z_unpack p.lvl) p.polyz
    (fun a => a.length = 256 ∧ ∀ x ∈ a, -(gamma1Of p.lvl) < x ∧ x ≤ gamma1Of p.lvl)
    (fun a ha => by rw [hpz]; exact z_roundtrip p.lvl a ha.1 ha.2) z hz
  have hpack := pack_hints p.omega ho h 0 0 [] [] rfl rfl (by omega) (fun a ha => (hh a ha).1)
  simp only [List.nil_append, Nat.sub_zero, List.append_nil] at hpack
  rw [hhl, List.replicate_append_replicate] at hpack
  have hunp := unpack_hints p.omega ho h 0 0 [] [] [] rfl rfl (by omega) hh
  simp only [List.nil_append, Nat.sub_zero, List.append_nil, List.reverse_nil] at hunp
  rw [hhl] at hunp
  let area := idxOf h ++ List.replicate (p.omega - (idxOf h).length) 0 ++ cumsOf 0 h
  have harea : area.length = p.omega + p.k := by
    simp only [area, List.length_append, List.length_replicate, cumsOf_length, hhl]; omega
  have hzfl := flatten_length p.polyz zs mzs
  refine ⟨ct ++ zs.flatten ++ area, ?_, ?_, ?_⟩
  · unfold pack_sig
    rw [if_neg (by simp only [List.length_append, List.length_replicate, hct]; omega)]
    simp only [ok_bind, pzs, hpack]
    rw [List.take_append_of_le_length (Nat.le_of_eq hct.symm), List.take_of_length_le (Nat.le_of_eq hct)]
  · simp only [List.length_append, hct, hzfl, lzs, hzl, harea, hsb]; omega
  · have hlen : (ct ++ zs.flatten ++ area).length = p.ctilde + p.l * p.polyz + (p.omega + p.k) := by
      simp only [List.length_append, hct, hzfl, lzs, hzl, harea]
    unfold unpack_sig takeC sliceC
    have c1 : p.ctilde ≤ (ct ++ zs.flatten ++ area).length := by rw [hlen]; omega
    simp only [c1, if_true, ok_bind]
    have t1 : (ct ++ zs.flatten ++ area).take p.ctilde = ct := by
      rw [List.append_assoc, List.take_append_of_le_length (Nat.le_of_eq hct.symm), List.take_of_length_le (Nat.le_of_eq hct)]
    rw [t1]
    have zeq := unpack_slices (z_unpack p.lvl) p.polyz (fun s hs => by rw [hpz] at hs ⊢; exact z_unpack_take p.lvl s hs)
      ct area zs z p.ctilde hct.symm lzs mzs uzs
    rw [hzl] at zeq
    rw [zeq, ok_bind]
    have c2 : p.ctilde + p.l * p.polyz ≤ p.ctilde + p.l * p.polyz + p.omega + p.k ∧
        p.ctilde + p.l * p.polyz + p.omega + p.k ≤ (ct ++ zs.flatten ++ area).length := by rw [hlen]; omega
    simp only [c2, and_self, if_true, ok_bind]
    have t2 : ((ct ++ zs.flatten ++ area).drop (p.ctilde + p.l * p.polyz)).take (p.ctilde + p.l * p.polyz + p.omega + p.k - (p.ctilde + p.l * p.polyz)) = area := by
      have hpl : (ct ++ zs.flatten).length = p.ctilde + p.l * p.polyz := by simp only [List.length_append, hct, hzfl, lzs, hzl]
      rw [List.drop_append, List.drop_of_length_le (Nat.le_of_eq hpl), List.nil_append, hpl, Nat.sub_self, List.drop_zero]
      rw [List.take_of_length_le (by rw [harea]; omega)]
    rw [t2]
    show (unpack_hints_go p.omega area p.k 0 0 [] >>= _) = _
    rw [hunp, ok_bind]

end DV.Containers
