import Mathlib.Tactic.Ring
import Mathlib.Algebra.Ring.Defs
import DilithiumVerif.Lemmas.Chunks
/-
  Lemmas.NttAlg — the algebra of the NTT over an arbitrary commutative ring with a "zeta tree":
  depth-first transform = evaluation at the leaf roots; breadth-first (layered, as the code runs) = depth-first.
  (imports two Mathlib modules for `ring`; nothing here is part of the executable model)
-/
namespace DV.NttAlg

variable {R : Type} [CommRing R]

def peval (a : List R) (x : R) : R := a.foldr (fun c acc => c + x * acc) 0

@[simp] theorem peval_nil (x : R) : peval ([] : List R) x = 0 := rfl
@[simp] theorem peval_cons (c : R) (a : List R) (x : R) : peval (c :: a) x = c + x * peval a x := rfl

theorem peval_append (a b : List R) (x : R) : peval (a ++ b) x = peval a x + x ^ a.length * peval b x := by
  induction a with
  | nil => simp
  | cons c a ih => simp [ih, pow_succ]; ring

/-- one butterfly: (lo, hi) ↦ (lo + c·hi, lo − c·hi) as two lists -/
def bflyLo (c : R) (lo hi : List R) : List R := List.zipWith (fun u v => u + c * v) lo hi
def bflyHi (c : R) (lo hi : List R) : List R := List.zipWith (fun u v => u + (-c) * v) lo hi

theorem peval_zipWith (c : R) : ∀ (lo hi : List R), lo.length = hi.length → ∀ x,
    peval (List.zipWith (fun u v => u + c * v) lo hi) x = peval lo x + c * peval hi x
  | [], [], _, x => by simp
  | u :: lo, v :: hi, h, x => by
      simp only [List.zipWith_cons_cons, peval_cons]
      rw [peval_zipWith c lo hi (by simpa using h) x]; ring
  | [], _ :: _, h, _ => by simp at h
  | _ :: _, [], h, _ => by simp at h

/-- depth-first NTT over a zeta tree: node k has children 2k, 2k+1 -/
def nttRec (z : Nat → R) : Nat → Nat → List R → List R
  | 0, _, a => a
  | m+1, k, a =>
      nttRec z m (2*k) (bflyLo (z k) (a.take (2^m)) (a.drop (2^m))) ++
      nttRec z m (2*k+1) (bflyHi (z k) (a.take (2^m)) (a.drop (2^m)))

/-- evaluation point of output position i under node k at height m; r = root attached to a node -/
def psi (r : Nat → R) : Nat → Nat → Nat → R
  | 0, k, _ => r k
  | m+1, k, i => if i < 2^m then psi r m (2*k) i else psi r m (2*k+1) (i - 2^m)

theorem nttRec_length (z : Nat → R) : ∀ m k (a : List R), a.length = 2^m → (nttRec z m k a).length = 2^m
  | 0, _, a, h => by simpa [nttRec] using h
  | m+1, k, a, h => by
      have h2 : (2:Nat)^(m+1) = 2^m + 2^m := by ring
      simp only [nttRec, List.length_append, bflyLo, bflyHi]
      rw [nttRec_length z m _ _ (by simp [h, h2]), nttRec_length z m _ _ (by simp [h, h2])]
      omega

/-- the zeta-tree hypotheses; the square relation is needed only for the internal nodes k < 2^H -/
structure Tree (r z : Nat → R) (H : Nat) : Prop where
  hl : ∀ k, 0 < k → r (2*k) = z k
  hr : ∀ k, 0 < k → r (2*k+1) = - z k
  hz : ∀ k, k < 2^H → z k ^ 2 = r k

theorem node_internal (H m d k : Nat) (hmd : m + 1 + d = H + 1) (hk : k < 2^d) : k < 2^H := by
  have : d ≤ H := by omega
  exact Nat.lt_of_lt_of_le hk (Nat.pow_le_pow_right (by decide) this)

theorem child_bound (d k : Nat) (hk : k < 2^d) : 2*k < 2^(d+1) ∧ 2*k+1 < 2^(d+1) := by
  rw [Nat.pow_succ]; omega

theorem psi_pow (r z : Nat → R) (H : Nat) (T : Tree r z H) : ∀ m d k i, m + d = H + 1 → k < 2^d → 0 < k → psi r m k i ^ (2^m) = r k
  | 0, _, k, i, _, _, _ => by simp [psi]
  | m+1, d, k, i, hmd, hk, hk0 => by
      have hkK : k < 2^H := node_internal H m d k hmd hk
      have hc := child_bound d k hk
      simp only [psi]
      split
      · rw [pow_succ, pow_mul, psi_pow r z H T m (d+1) (2*k) i (by omega) hc.1 (by omega), T.hl k hk0, T.hz k hkK]
      · rw [pow_succ, pow_mul, psi_pow r z H T m (d+1) (2*k+1) _ (by omega) hc.2 (by omega), T.hr k hk0, neg_pow, T.hz k hkK]; simp

theorem nttRec_eval (r z : Nat → R) (H : Nat) (T : Tree r z H) : ∀ m d k (a : List R), m + d = H + 1 → k < 2^d → 0 < k → a.length = 2^m →
    ∀ i, i < 2^m → (nttRec z m k a).getD i 0 = peval a (psi r m k i) := by
  intro m
  induction m with
  | zero =>
    intro d k a _ _ _ h i hi
    have : i = 0 := by omega
    subst this
    match a, h with
    | [c], _ => simp [nttRec, psi]
  | succ m ih =>
    intro d k a hmd hk hk0 h i hi
    have h2 : (2:Nat)^(m+1) = 2^m + 2^m := by ring
    have hlo : (a.take (2^m)).length = 2^m := by simp [h, h2]
    have hhi : (a.drop (2^m)).length = 2^m := by simp [h, h2]
    have hsplit : a = a.take (2^m) ++ a.drop (2^m) := (List.take_append_drop _ _).symm
    have hc := child_bound d k hk
    simp only [nttRec, psi, bflyLo, bflyHi]
    split
    · rename_i hlt
      rw [List.getD_eq_getElem?_getD, List.getElem?_append_left (by rw [nttRec_length z m _ _ (by simp [hlo, hhi])]; exact hlt), ← List.getD_eq_getElem?_getD]
      rw [ih (d+1) _ _ (by omega) hc.1 (by omega) (by simp [hlo, hhi]) i hlt, peval_zipWith _ _ _ (by rw [hlo, hhi])]
      conv_rhs => rw [hsplit, peval_append, hlo, psi_pow r z H T m (d+1) (2*k) i (by omega) hc.1 (by omega), T.hl k hk0]
    · rename_i hge
      have hlen := nttRec_length z m (2*k) (List.zipWith (fun u v => u + z k * v) (a.take (2^m)) (a.drop (2^m))) (by simp [hlo, hhi])
      rw [List.getD_eq_getElem?_getD, List.getElem?_append_right (by rw [hlen]; omega), hlen, ← List.getD_eq_getElem?_getD]
      rw [ih (d+1) _ _ (by omega) hc.2 (by omega) (by simp [hlo, hhi]) (i - 2^m) (by omega), peval_zipWith _ _ _ (by rw [hlo, hhi])]
      conv_rhs => rw [hsplit, peval_append, hlo, psi_pow r z H T m (d+1) (2*k+1) _ (by omega) hc.2 (by omega), T.hr k hk0]


/-! ### breadth-first (layer by layer, as the code runs) = depth-first -/

/-- butterfly of one block of 2·len elements: (lo + c·hi) ++ (lo − c·hi) -/
def bfly (c : R) (len : Nat) (b : List R) : List R :=
  bflyLo c (b.take len) (b.drop len) ++ bflyHi c (b.take len) (b.drop len)

/-- one layer over consecutive blocks, block i using z (k + i) -/
def layerGo (z : Nat → R) (len : Nat) : Nat → List (List R) → List R
  | _, [] => []
  | k, b :: bs => bfly (z k) len b ++ layerGo z len (k + 1) bs

/-- the blocks of the next layer -/
def split2 (z : Nat → R) (len : Nat) : Nat → List (List R) → List (List R)
  | _, [] => []
  | k, b :: bs => bflyLo (z k) (b.take len) (b.drop len) :: bflyHi (z k) (b.take len) (b.drop len) :: split2 z len (k + 1) bs

theorem layerGo_eq (z : Nat → R) (len : Nat) : ∀ (k : Nat) (bs : List (List R)),
    layerGo z len k bs = (split2 z len k bs).flatten := by
  intro k bs
  induction bs generalizing k with
  | nil => rfl
  | cons b bs ih => simp only [layerGo, split2, List.flatten_cons, bfly, ih, List.append_assoc]

/-- depth-first transform of consecutive blocks at consecutive nodes -/
def dfAll (z : Nat → R) (m : Nat) : Nat → List (List R) → List R
  | _, [] => []
  | k, b :: bs => nttRec z m k b ++ dfAll z m (k + 1) bs

theorem dfAll_split2 (z : Nat → R) (m : Nat) : ∀ (k : Nat) (bs : List (List R)),
    dfAll z m (2 * k) (split2 z (2^m) k bs) = dfAll z (m + 1) k bs := by
  intro k bs
  induction bs generalizing k with
  | nil => rfl
  | cons b bs ih =>
    simp only [split2, dfAll, nttRec]
    have : 2 * k + 1 + 1 = 2 * (k + 1) := by omega
    rw [this, ih (k + 1), List.append_assoc]

theorem split2_lengths (z : Nat → R) (len : Nat) : ∀ (k : Nat) (bs : List (List R)), (∀ b ∈ bs, b.length = 2 * len) →
    ∀ c ∈ split2 z len k bs, c.length = len := by
  intro k bs
  induction bs generalizing k with
  | nil => intro _ c hc; cases hc
  | cons b bs ih =>
    intro h c hc
    have hb := h b (List.mem_cons_self ..)
    simp only [split2, List.mem_cons] at hc
    rcases hc with rfl | rfl | hc
    · simp [bflyLo, List.length_zipWith, List.length_take, List.length_drop, hb]; omega
    · simp [bflyHi, List.length_zipWith, List.length_take, List.length_drop, hb]; omega
    · exact ih (k + 1) (fun x hx => h x (List.mem_cons_of_mem _ hx)) c hc

/-- breadth-first transform: the top layer on all blocks, then the remaining layers -/
def nttBF (z : Nat → R) : Nat → Nat → List R → List R
  | 0, _, a => a
  | m+1, k, a => nttBF z m (2 * k) (layerGo z (2^m) k (DV.chunks (2^(m+1)) a))

theorem dfAll_zero (z : Nat → R) : ∀ (k : Nat) (bs : List (List R)), dfAll z 0 k bs = bs.flatten := by
  intro k bs
  induction bs generalizing k with
  | nil => rfl
  | cons b bs ih => simp only [dfAll, nttRec, List.flatten_cons, ih]

theorem nttBF_eq (z : Nat → R) : ∀ (m k : Nat) (bs : List (List R)), (∀ b ∈ bs, b.length = 2^m) →
    nttBF z m k bs.flatten = dfAll z m k bs := by
  intro m
  induction m with
  | zero => intro k bs _; simp only [nttBF, dfAll_zero]
  | succ m ih =>
    intro k bs h
    simp only [nttBF]
    rw [DV.chunks_flatten_fixed (2^(m+1)) (Nat.pow_pos (by decide)) bs h, layerGo_eq]
    have h2 : (2:Nat)^(m+1) = 2 * 2^m := by ring
    rw [ih (2 * k) (split2 z (2^m) k bs) (split2_lengths z (2^m) k bs (fun b hb => by rw [h b hb, h2])), dfAll_split2]

/-- for a single block: the layered transform is the depth-first transform -/
theorem nttBF_single (z : Nat → R) (m k : Nat) (a : List R) (h : a.length = 2^m) : nttBF z m k a = nttRec z m k a := by
  have := nttBF_eq z m k [a] (by intro b hb; simp at hb; subst hb; exact h)
  simpa [dfAll] using this


/-- the evaluation point of output i under node k is the root attached to leaf k·2^m + i -/
theorem psi_leaf (r : Nat → R) : ∀ m k i, i < 2^m → psi r m k i = r (k * 2^m + i)
  | 0, k, i, hi => by have : i = 0 := by omega
                      subst this; simp [psi]
  | m+1, k, i, hi => by
      have h2 : (2:Nat)^(m+1) = 2 * 2^m := by ring
      simp only [psi]
      split
      · rename_i hlt
        rw [psi_leaf r m (2*k) i hlt]; congr 1; rw [h2]; ring
      · rename_i hge
        rw [psi_leaf r m (2*k+1) (i - 2^m) (by omega)]; congr 1
        rw [h2]
        have e : (2 * k + 1) * 2 ^ m = k * (2 * 2 ^ m) + 2 ^ m := by ring
        rw [e]; omega

end DV.NttAlg
