import DilithiumVerif.Impl.Basic
/- Lemmas.Basic — arithmetic facts about the checked/wrapping encodings of `Impl.Basic`. -/
namespace DV

@[simp] theorem ok_bind {α β} (x : α) (f : α → Chk β) : (Except.ok x : Chk α) >>= f = f x := rfl
@[simp] theorem err_bind {α β} (e : Fault) (f : α → Chk β) : (Except.error e : Chk α) >>= f = .error e := rfl

theorem bind_eq_ok {α β} {x : Chk α} {f : α → Chk β} {b : β} :
    (x >>= f) = .ok b ↔ ∃ a, x = .ok a ∧ f a = .ok b := by
  cases x with
  | error e => simp [bind, Except.bind]
  | ok a => simp [bind, Except.bind]

theorem map_bind_chk {α β γ} (x : Chk α) (f : α → Chk β) (g : β → γ) :
    Except.map g (x >>= f) = x >>= (fun a => Except.map g (f a)) := by cases x <;> rfl
@[simp] theorem map_ok_chk {β γ} (b : β) (g : β → γ) : Except.map g (Except.ok b : Chk β) = .ok (g b) := rfl

theorem wrap32_eq_bmod (x : Int) : wrap32 x = Int.bmod x 4294967296 := by
  simp only [wrap32, Int32.toInt_ofInt]
theorem wrap64_eq_bmod (x : Int) : wrap64 x = Int.bmod x 18446744073709551616 := by
  simp only [wrap64, Int64.toInt_ofInt]

theorem wrap32_range (x : Int) : -2147483648 ≤ wrap32 x ∧ wrap32 x ≤ 2147483647 := by
  rw [wrap32_eq_bmod]; constructor
  · have := Int.le_bmod (x := x) (m := 4294967296) (by decide); omega
  · have := Int.bmod_lt (x := x) (m := 4294967296) (by decide); omega
theorem wrap32_emod (x : Int) : wrap32 x % 4294967296 = x % 4294967296 := by
  rw [wrap32_eq_bmod]; exact Int.bmod_emod
theorem wrap32_id (x : Int) (h : -2147483648 ≤ x ∧ x ≤ 2147483647) : wrap32 x = x := by
  rw [wrap32_eq_bmod]; apply Int.bmod_eq_of_le <;> omega
theorem wrap64_range (x : Int) : -9223372036854775808 ≤ wrap64 x ∧ wrap64 x ≤ 9223372036854775807 := by
  rw [wrap64_eq_bmod]; constructor
  · have := Int.le_bmod (x := x) (m := 18446744073709551616) (by decide); omega
  · have := Int.bmod_lt (x := x) (m := 18446744073709551616) (by decide); omega
theorem wrap64_emod (x : Int) : wrap64 x % 18446744073709551616 = x % 18446744073709551616 := by
  rw [wrap64_eq_bmod]; exact Int.bmod_emod
theorem wrap64_id (x : Int) (h : -9223372036854775808 ≤ x ∧ x ≤ 9223372036854775807) : wrap64 x = x := by
  rw [wrap64_eq_bmod]; apply Int.bmod_eq_of_le <;> omega

theorem chk32_ok (x : Int) (h : -2147483648 ≤ x ∧ x ≤ 2147483647) : chk32 x = .ok x := by
  unfold chk32; rw [if_pos h]
theorem chk32_err (x : Int) (h : ¬ (-2147483648 ≤ x ∧ x ≤ 2147483647)) : chk32 x = .error .overflow := by
  unfold chk32; rw [if_neg h]
theorem chk64_ok (x : Int) (h : -9223372036854775808 ≤ x ∧ x ≤ 9223372036854775807) : chk64 x = .ok x := by
  unfold chk64; rw [if_pos h]
theorem chk64_err (x : Int) (h : ¬ (-9223372036854775808 ≤ x ∧ x ≤ 9223372036854775807)) : chk64 x = .error .overflow := by
  unfold chk64; rw [if_neg h]

theorem add32_ok (a b : Int) (h : -2147483648 ≤ a + b ∧ a + b ≤ 2147483647) : add32 a b = .ok (a + b) := chk32_ok _ h
theorem sub32_ok (a b : Int) (h : -2147483648 ≤ a - b ∧ a - b ≤ 2147483647) : sub32 a b = .ok (a - b) := chk32_ok _ h
theorem mul32_ok (a b : Int) (h : -2147483648 ≤ a * b ∧ a * b ≤ 2147483647) : mul32 a b = .ok (a * b) := chk32_ok _ h
theorem sub64_ok (a b : Int) (h : -9223372036854775808 ≤ a - b ∧ a - b ≤ 9223372036854775807) : sub64 a b = .ok (a - b) := chk64_ok _ h
theorem mul64_ok (a b : Int) (h : -9223372036854775808 ≤ a * b ∧ a * b ≤ 9223372036854775807) : mul64 a b = .ok (a * b) := chk64_ok _ h

theorem sar_eq (x : Int) (k : Nat) : sar x k = x / (2 : Int) ^ k := by
  unfold sar; rw [Int.shiftRight_eq_div_pow x k, Int.natCast_pow]; rfl

theorem shl32_eq (x : Int) (k : Nat) : shl32 x k = wrap32 (x * (2 : Int) ^ k) := by
  unfold shl32; rw [Int.shiftLeft_eq]

/-! ### bit patterns -/

theorem toU32_lt (x : Int) : toU32 x < 4294967296 := by
  unfold toU32; omega

theorem toU32_nonneg (x : Int) (h : 0 ≤ x ∧ x < 4294967296) : toU32 x = x.toNat := by
  unfold toU32; congr 1; omega

theorem toU32_neg_one : toU32 (-1) = 4294967295 := by decide
theorem toU32_zero : toU32 0 = 0 := by decide

theorem ofU32_small (n : Nat) (h : n < 2147483648) : ofU32 n = n := by
  unfold ofU32; rw [wrap32_id]; · rfl
  · constructor <;> (simp only [Int.ofNat_eq_natCast]; omega)

/-- the sign mask: `a >> 31` is 0 for non-negative and −1 for negative i32 -/
theorem sar31 (a : Int) (h : -2147483648 ≤ a ∧ a ≤ 2147483647) :
    sar a 31 = if a < 0 then -1 else 0 := by
  rw [sar_eq]; split <;> (simp only [Int.reducePow] <;> omega)

/-- `(a >> 31) & x` selects `x` exactly for negative `a` (for 0 ≤ x < 2^31) -/
theorem and32_signmask (a x : Int) (h : -2147483648 ≤ a ∧ a ≤ 2147483647) (hx : 0 ≤ x ∧ x < 2147483648) :
    and32 (sar a 31) x = if a < 0 then x else 0 := by
  rw [sar31 a h]; unfold and32
  split
  · rw [toU32_neg_one, toU32_nonneg x (by omega)]
    have : (4294967295 : Nat) &&& x.toNat = x.toNat := by
      have h1 := Nat.and_two_pow_sub_one_eq_mod x.toNat 32
      rw [Nat.and_comm]; simp only [Nat.reducePow, Nat.add_one_sub_one] at h1
      rw [h1]; omega
    rw [this, ofU32_small _ (by omega)]; omega
  · rw [toU32_zero, Nat.zero_and]; decide

/-- the same with the shift already written as a division -/
theorem and32_signmask' (a x : Int) (h : -2147483648 ≤ a ∧ a ≤ 2147483647) (hx : 0 ≤ x ∧ x < 2147483648) :
    and32 (a / 2147483648) x = if a < 0 then x else 0 := by
  have := and32_signmask a x h hx
  rw [sar_eq] at this; simpa only [Int.reducePow] using this

/-- `x & (2^k − 1)` on a non-negative i32 value is `x % 2^k` -/
theorem and32_mask (x : Int) (k : Nat) (hk : k ≤ 31) (h : 0 ≤ x ∧ x ≤ 2147483647) :
    and32 x ((2 ^ k : Nat) - 1 : Int) = x % ((2 ^ k : Nat) : Int) := by
  have hp : (2 ^ k : Nat) ≤ 2147483648 := by
    calc 2 ^ k ≤ 2 ^ 31 := Nat.pow_le_pow_right (by decide) hk
    _ = 2147483648 := by decide
  have hpos : 0 < 2 ^ k := Nat.pow_pos (by decide)
  unfold and32
  rw [toU32_nonneg x (by omega), toU32_nonneg _ (by omega)]
  have e : (((2 ^ k : Nat) : Int) - 1).toNat = 2 ^ k - 1 := by omega
  rw [e, Nat.and_two_pow_sub_one_eq_mod]
  have : x.toNat % 2 ^ k < 2147483648 := by
    have := Nat.mod_lt x.toNat hpos; omega
  rw [ofU32_small _ this]
  have hx : (x.toNat : Int) = x := by omega
  rw [Int.natCast_emod, hx]

theorem ofU32_toU32 (a : Int) (h : -2147483648 ≤ a ∧ a ≤ 2147483647) : ofU32 (toU32 a) = a := by
  unfold ofU32 toU32
  rw [wrap32_eq_bmod]
  have : ((a % 4294967296).toNat : Int) = a % 4294967296 := by omega
  simp only [Int.ofNat_eq_natCast, this]
  rw [Int.bmod_def]
  split <;> omega

theorem xor32_self (a : Int) : xor32 a a = 0 := by
  unfold xor32; rw [Nat.xor_self]; decide

theorem xor32_zero (a : Int) (h : -2147483648 ≤ a ∧ a ≤ 2147483647) : xor32 a 0 = a := by
  unfold xor32; rw [toU32_zero, Nat.xor_zero, ofU32_toU32 a h]

/-- `x & 15` on any i32 is `x mod 16` (non-negative remainder) -/
theorem and32_15 (x : Int) (h : -2147483648 ≤ x ∧ x ≤ 2147483647) : and32 x 15 = x % 16 := by
  unfold and32
  have e15 : toU32 15 = 2 ^ 4 - 1 := by decide
  rw [e15, Nat.and_two_pow_sub_one_eq_mod]
  have hlt : toU32 x % 2 ^ 4 < 2147483648 := by
    have := Nat.mod_lt (toU32 x) (show 0 < 2 ^ 4 by decide); omega
  rw [ofU32_small _ hlt]
  unfold toU32
  have : ((x % 4294967296).toNat : Int) = x % 4294967296 := by omega
  have e16 : ((2 ^ 4 : Nat) : Int) = 16 := by decide
  rw [Int.natCast_emod, this, e16]; omega

end DV
