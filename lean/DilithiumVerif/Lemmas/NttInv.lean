import DilithiumVerif.Lemmas.NttEval
/-
  Lemmas.NttInv — the inverse NTT of the model, read in R, undoes the forward layers:
  invntt_tomont (ntt a) = 2^32 · a  (the documented Montgomery factor).
-/
namespace DV.NttInv
open DV DV.NttAlg DV.NttSem DV.NttEval

variable {R : Type} [CommRing R]

/-- inverse butterfly on one block: (lo + hi) ++ c·(lo − hi) -/
def ibfly (c : R) (len : Nat) (b : List R) : List R :=
  List.zipWith (fun u v => u + v) (b.take len) (b.drop len) ++ List.zipWith (fun u v => c * (u - v)) (b.take len) (b.drop len)

/-- inverse layer: block j uses w (k − 1 − j) -/
def ilayerGo (w : Nat → R) (len : Nat) : Nat → List (List R) → List R
  | _, [] => []
  | k, b :: bs => ibfly (w (k - 1)) len b ++ ilayerGo w len (k - 1) bs

/-- −ζ_k in R (the constants the inverse transform multiplies by) -/
def wR (M : ModQ R) (k : Nat) : R := ((-(zeta k) : Int) : R) * M.u

theorem zipWith_len {α β γ} (f : α → β → γ) (a : List α) (b : List β) (h : a.length = b.length) :
    (List.zipWith f a b).length = a.length := by simp [List.length_zipWith, h]

theorem sum_part (c s : R) : ∀ (lo hi : List R), lo.length = hi.length →
    List.zipWith (fun u v => u + v) ((bflyLo c lo hi).map (fun x => s * x)) ((bflyHi c lo hi).map (fun x => s * x))
      = lo.map (fun x => (2 * s) * x)
  | [], [], _ => by simp [bflyLo, bflyHi]
  | x :: xs, y :: ys, h => by
      simp only [bflyLo, bflyHi, List.zipWith_cons_cons, List.map_cons]
      have ih := sum_part c s xs ys (by simpa using h)
      simp only [bflyLo, bflyHi] at ih
      rw [ih]; congr 1; ring
  | [], _ :: _, h => by simp at h
  | _ :: _, [], h => by simp at h

theorem diff_part (c c' s : R) (hcc : c * c' = 1) : ∀ (lo hi : List R), lo.length = hi.length →
    List.zipWith (fun u v => c' * (u - v)) ((bflyLo c lo hi).map (fun x => s * x)) ((bflyHi c lo hi).map (fun x => s * x))
      = hi.map (fun x => (2 * s) * x)
  | [], [], _ => by simp [bflyLo, bflyHi]
  | x :: xs, y :: ys, h => by
      simp only [bflyLo, bflyHi, List.zipWith_cons_cons, List.map_cons]
      have ih := diff_part c c' s hcc xs ys (by simpa using h)
      simp only [bflyLo, bflyHi] at ih
      rw [ih]; congr 1
      calc c' * (s * (x + c * y) - s * (x + -c * y)) = 2 * s * y * (c * c') := by ring
        _ = 2 * s * y := by rw [hcc, mul_one]
  | [], _ :: _, h => by simp at h
  | _ :: _, [], h => by simp at h

/-- a forward butterfly followed by the inverse butterfly with the inverse constant doubles the block
    (stated with an extra scalar s so that the layers can be chained) -/
theorem ibfly_bfly (c c' s : R) (hcc : c * c' = 1) (len : Nat) (b : List R) (hb : b.length = 2 * len) :
    ibfly c' len ((bfly c len b).map (fun x => s * x)) = b.map (fun x => (2 * s) * x) := by
  have hlo : (b.take len).length = len := by simp [List.length_take, hb]; omega
  have hhi : (b.drop len).length = len := by simp [List.length_drop, hb]; omega
  have hL : (bflyLo c (b.take len) (b.drop len)).length = len := by unfold bflyLo; rw [zipWith_len _ _ _ (by rw [hlo, hhi]), hlo]
  unfold ibfly bfly
  rw [List.map_append, List.take_append_of_le_length (by simp [hL]), List.drop_append_of_le_length (by simp [hL])]
  have e1 : ((bflyLo c (b.take len) (b.drop len)).map (fun x => s * x)).take len = (bflyLo c (b.take len) (b.drop len)).map (fun x => s * x) := by
    apply List.take_of_length_le; simp [hL]
  have e2 : ((bflyLo c (b.take len) (b.drop len)).map (fun x => s * x)).drop len = [] := by
    apply List.drop_of_length_le; simp [hL]
  rw [e1, e2, List.nil_append, sum_part c s _ _ (by rw [hlo, hhi]), diff_part c c' s hcc _ _ (by rw [hlo, hhi])]
  rw [← List.map_append, List.take_append_drop]


/-- the blocks produced by one forward layer -/
def layerBlocks (z : Nat → R) (len : Nat) : Nat → List (List R) → List (List R)
  | _, [] => []
  | k, b :: bs => bfly (z k) len b :: layerBlocks z len (k + 1) bs

theorem layerGo_blocks (z : Nat → R) (len : Nat) : ∀ (k : Nat) (bs : List (List R)),
    layerGo z len k bs = (layerBlocks z len k bs).flatten := by
  intro k bs
  induction bs generalizing k with
  | nil => rfl
  | cons b bs ih => simp only [layerGo, layerBlocks, List.flatten_cons, ih]

theorem bfly_length (c : R) (len : Nat) (b : List R) (hb : b.length = 2 * len) : (bfly c len b).length = 2 * len := by
  have hlo : (b.take len).length = len := by simp [List.length_take, hb]; omega
  have hhi : (b.drop len).length = len := by simp [List.length_drop, hb]; omega
  unfold bfly bflyLo bflyHi
  rw [List.length_append, zipWith_len _ _ _ (by rw [hlo, hhi]), zipWith_len _ _ _ (by rw [hlo, hhi]), hlo]; omega

theorem layerBlocks_lengths (z : Nat → R) (len : Nat) : ∀ (k : Nat) (bs : List (List R)), (∀ b ∈ bs, b.length = 2 * len) →
    ∀ c ∈ layerBlocks z len k bs, c.length = 2 * len := by
  intro k bs
  induction bs generalizing k with
  | nil => intro _ c hc; cases hc
  | cons b bs ih =>
    intro h c hc
    simp only [layerBlocks, List.mem_cons] at hc
    rcases hc with rfl | hc
    · exact bfly_length _ _ _ (h b (List.mem_cons_self ..))
    · exact ih (k + 1) (fun x hx => h x (List.mem_cons_of_mem _ hx)) c hc

/-- one inverse layer applied to the (scaled) blocks of the matching forward layer doubles the data -/
theorem ilayer_layer (z w : Nat → R) (len : Nat) (s : R) : ∀ (bs : List (List R)) (kf ki : Nat),
    (∀ b ∈ bs, b.length = 2 * len) → bs.length ≤ ki → (∀ j, j < bs.length → z (kf + j) * w (ki - 1 - j) = 1) →
    ilayerGo w len ki ((layerBlocks z len kf bs).map (List.map (fun x => s * x))) = (bs.map (List.map (fun x => (2 * s) * x))).flatten := by
  intro bs
  induction bs with
  | nil => intro kf ki _ _ _; rfl
  | cons b bs ih =>
    intro kf ki hlen hki hp
    simp only [layerBlocks, List.map_cons, ilayerGo, List.flatten_cons]
    have h0 := hp 0 (by simp)
    simp only [Nat.add_zero, Nat.sub_zero] at h0
    rw [ibfly_bfly (z kf) (w (ki - 1)) s h0 len b (hlen b (List.mem_cons_self ..))]
    congr 1
    apply ih (kf + 1) (ki - 1) (fun x hx => hlen x (List.mem_cons_of_mem _ hx)) (by simp at hki; omega)
    intro j hj
    have := hp (j + 1) (by simp; omega)
    have e1 : kf + (j + 1) = kf + 1 + j := by omega
    have e2 : ki - 1 - (j + 1) = ki - 1 - 1 - j := by omega
    rw [e1, e2] at this; exact this


theorem split2_length (z : Nat → R) (len : Nat) : ∀ (k : Nat) (bs : List (List R)), (split2 z len k bs).length = 2 * bs.length := by
  intro k bs
  induction bs generalizing k with
  | nil => rfl
  | cons b bs ih => simp only [split2, List.length_cons, ih]; omega

/-- the inverse layers, innermost (len = 1) first: layer of half-length 2^m starts its zeta index at ki -/
def inttBF (w : Nat → R) : Nat → Nat → List R → List R
  | 0, _, a => a
  | m+1, ki, a => ilayerGo w (2^m) ki (DV.chunks (2^(m+1)) (inttBF w m (2 * ki) a))

theorem map_flatten' {α β} (f : α → β) (L : List (List α)) : L.flatten.map f = (L.map (List.map f)).flatten := by
  induction L with
  | nil => rfl
  | cons a L ih => simp [ih]

/-- The m inverse layers undo the m forward layers up to the factor 2^m (on every group of blocks), provided the
    constant of each inverse block is the inverse of the constant of the forward block it meets. -/
theorem inttBF_nttBF (z w : Nat → R) : ∀ (m kf : Nat) (bs : List (List R)) (s : R), (∀ b ∈ bs, b.length = 2^m) →
    (∀ t j, t < m → j < bs.length * 2^t → z (kf * 2^t + j) * w ((kf + bs.length) * 2^t - 1 - j) = 1) →
    inttBF w m (kf + bs.length) ((nttBF z m kf bs.flatten).map (fun x => s * x)) = bs.flatten.map (fun x => ((2:R)^m * s) * x) := by
  intro m
  induction m with
  | zero =>
    intro kf bs s _ _
    simp only [inttBF, nttBF, pow_zero, one_mul]
  | succ m ih =>
    intro kf bs s hlen hp
    have h2 : (2:Nat)^(m+1) = 2 * 2^m := by ring
    have hlen' : ∀ b ∈ bs, b.length = 2 * 2^m := fun b hb => by rw [hlen b hb, h2]
    simp only [inttBF, nttBF]
    rw [DV.chunks_flatten_fixed (2^(m+1)) (Nat.pow_pos (by decide)) bs hlen, layerGo_eq]
    have hsl := split2_length z (2^m) kf bs
    have e1 : 2 * (kf + bs.length) = 2 * kf + (split2 z (2^m) kf bs).length := by rw [hsl]; ring
    rw [e1, ih (2 * kf) (split2 z (2^m) kf bs) s (split2_lengths z (2^m) kf bs hlen')]
    · rw [← layerGo_eq, layerGo_blocks, map_flatten',
        DV.chunks_flatten_fixed (2^(m+1)) (Nat.pow_pos (by decide))]
      · rw [ilayer_layer z w (2^m) ((2:R)^m * s) bs kf (kf + bs.length) hlen' (by omega)]
        · rw [map_flatten']
          congr 2
          funext l
          congr 1
          funext x
          ring
        · intro j hj
          have := hp 0 j (by omega) (by simpa using hj)
          simpa using this
      · intro b hb
        obtain ⟨c, hc, rfl⟩ := List.mem_map.mp hb
        rw [List.length_map, layerBlocks_lengths z (2^m) kf bs hlen' c hc, h2]
    · intro t j ht hj
      rw [hsl] at hj ⊢
      have := hp (t + 1) j (by omega) (by rw [pow_succ]; rw [show bs.length * (2^t * 2) = 2 * bs.length * 2^t by ring]; exact hj)
      have e2 : kf * 2^(t+1) = 2 * kf * 2^t := by ring
      have e3 : (kf + bs.length) * 2^(t+1) = (2 * kf + 2 * bs.length) * 2^t := by ring
      rw [e2, e3] at this; exact this

end DV.NttInv
