import DilithiumVerif.Lemmas.Containers
import DilithiumVerif.Lemmas.Ranges
/-
  Lemmas.DecodeTotal — the decoders never fault on byte strings of the right length: unpack_pk, z_unpack, the hint
  decoder, unpack_sig; with the ranges of what they return.
-/
namespace DV.DecodeTotal
open DV DV.Ranges DV.Containers DV.HintCodec

theorem forRange_total {α} (n : Nat) (f : Nat → Chk α) (P : α → Prop) (h : ∀ i, i < n → ∃ y, f i = .ok y ∧ P y) :
    ∃ r, forRange n f = .ok r ∧ r.length = n ∧ ∀ y ∈ r, P y := by
  unfold forRange
  obtain ⟨r, hr, h2⟩ := mapL_total f (fun i => i < n) (fun _ y => P y) (fun i hi => h i hi) (List.range n)
    (fun i hi => List.mem_range.mp hi)
  exact ⟨r, hr, by rw [h2.length, List.length_range], All2.right (B := P) (fun _ _ h => h) h2⟩

/-! ### t1 -/

theorem t1_unpack_total (s : List Nat) (hs : POLYT1 ≤ s.length) :
    ∃ r, t1_unpack s = .ok r ∧ r.length = 256 ∧ ∀ x ∈ r, 0 ≤ x ∧ x < 1024 := by
  have hP : POLYT1 = 320 := by decide
  unfold t1_unpack takeC
  rw [if_pos hs, ok_bind]
  have hl : (s.take POLYT1).length = 320 := by rw [List.length_take, Nat.min_eq_left hs, hP]
  have hmem := chunks_mem 5 (by decide) _ (s.take POLYT1) rfl (by rw [hl])
  refine ⟨_, rfl, ?_, ?_⟩
  · rw [flatMap_length_const t1_unpack_group 4 (chunks 5 (s.take POLYT1)) (fun c hc => by
      match c, (hmem c hc).1 with
      | [b0, b1, b2, b3, b4], _ => rfl)]
    rw [chunks_length 5 (by decide) _ (s.take POLYT1) rfl (by rw [hl]), hl]
  · intro x hx
    obtain ⟨c, hc, hxc⟩ := List.mem_flatMap.mp hx
    match c, (hmem c hc).1, hxc with
    | [b0, b1, b2, b3, b4], _, hxc =>
      simp only [t1_unpack_group, List.mem_cons, List.mem_nil_iff, or_false] at hxc
      have hm : ∀ v : Nat, (0 : Int) ≤ ((v &&& 0x3FF : Nat) : Int) ∧ ((v &&& 0x3FF : Nat) : Int) < 1024 := fun v => by
        have : v &&& 0x3FF ≤ 0x3FF := Nat.and_le_right
        omega
      rcases hxc with rfl | rfl | rfl | rfl <;> exact hm _

theorem pk_facts : ∀ p ∈ allParams, p.pkBytes = SEEDBYTES + p.k * POLYT1 := by decide

theorem unpack_pk_total (p : Params) (hp : p ∈ allParams) (pk : List Nat) (hl : pk.length = p.pkBytes) :
    ∃ rho t1, unpack_pk p pk = .ok (rho, t1) ∧ rho.length = SEEDBYTES ∧ t1.length = p.k ∧
      ∀ a ∈ t1, a.length = 256 ∧ ∀ x ∈ a, 0 ≤ x ∧ x < 1024 := by
  have hpk := pk_facts p hp
  have hS : SEEDBYTES = 32 := by decide
  unfold unpack_pk takeC
  rw [if_pos (by rw [hl, hpk]; omega), ok_bind]
  obtain ⟨t1, h1, h2, h3⟩ := forRange_total p.k (fun i => do
      let s ← dropC pk (SEEDBYTES + i * POLYT1)
      t1_unpack s) (fun a => a.length = 256 ∧ ∀ x ∈ a, 0 ≤ x ∧ x < 1024)
    (fun i hi => by
      have hle : (i + 1) * POLYT1 ≤ p.k * POLYT1 := Nat.mul_le_mul_right _ (by omega)
      have e : (i + 1) * POLYT1 = i * POLYT1 + POLYT1 := Nat.succ_mul i POLYT1
      unfold dropC
      rw [if_pos (by rw [hl, hpk]; omega), ok_bind]
      obtain ⟨r, hr, hr2, hr3⟩ := t1_unpack_total (pk.drop (SEEDBYTES + i * POLYT1)) (by rw [List.length_drop, hl, hpk]; omega)
      exact ⟨r, hr, hr2, hr3⟩)
  rw [h1, ok_bind]
  exact ⟨_, _, rfl, by rw [List.length_take, hl, hpk]; omega, h2, h3⟩

/-! ### z -/

theorem z_unpack_total (lv : Lvl) (s : List Nat) (hs : polyzOf lv ≤ s.length) (hb : ∀ b ∈ s, b < 256) :
    ∃ r, z_unpack lv s = .ok r ∧ r.length = 256 ∧ ∀ x ∈ r, -(gamma1Of lv) < x ∧ x ≤ gamma1Of lv := by
  suffices h : ∃ r, z_unpack lv s = .ok r by
    obtain ⟨r, hr⟩ := h
    exact ⟨r, hr, z_unpack_range lv s hb r hr⟩
  obtain ⟨g2, g3, g5⟩ := gamma1_vals
  obtain ⟨p2, p3, p5⟩ := polyz_vals
  unfold z_unpack takeC
  rw [if_pos hs, ok_bind]
  have hl : (s.take (polyzOf lv)).length = polyzOf lv := by rw [List.length_take, Nat.min_eq_left hs]
  have hbt : ∀ b ∈ s.take (polyzOf lv), b < 256 := fun b hb' => hb b (List.mem_of_mem_take hb')
  have sub_ok : ∀ (g1 : Int) (bound : Nat), (bound : Int) ≤ 2147483648 → 0 ≤ g1 → g1 ≤ 1073741824 → ∀ (fs : List Nat), (∀ f ∈ fs, f < bound) →
      ∃ out, mapL (fun (r : Nat) => sub32 g1 r) fs = .ok out := by
    intro g1 bound hbd h0 h1 fs hf
    obtain ⟨out, ho, _⟩ := mapL_total (fun (r : Nat) => sub32 g1 r) (fun r => r < bound) (fun _ _ => True)
      (fun r hr => ⟨g1 - r, sub32_ok _ _ (by have : (r : Int) < bound := by exact_mod_cast hr
                                             omega), trivial⟩) fs hf
    exact ⟨out, ho⟩
  have h19 : ∀ (g1 : Int), g1 = 524288 → (s.take (polyzOf lv)).length = 640 →
      ∃ g, mapL (z_unpack_group19 g1) (chunks 5 (s.take (polyzOf lv))) = .ok g := by
    intro g1 hg1 hlen
    have hmem := chunks_mem 5 (by decide) _ (s.take (polyzOf lv)) rfl (by rw [hlen])
    obtain ⟨g, hg, _⟩ := mapL_total (z_unpack_group19 g1) (fun c => c.length = 5 ∧ ∀ b ∈ c, b < 256) (fun _ _ => True)
      (fun c hc => by
        match c, hc.1, hc.2 with
        | [b0, b1, b2, b3, b4], _, hcb =>
          have hb2 := hcb b2 (by simp); have hb3 := hcb b3 (by simp); have hb4 := hcb b4 (by simp)
          obtain ⟨out, ho⟩ := sub_ok g1 1048576 (by omega) (by omega) (by omega) (z19_fields b0 b1 b2 b3 b4) (by
            intro f hf
            simp only [z19_fields, List.mem_cons, List.mem_nil_iff, or_false] at hf
            rcases hf with rfl | rfl
            · exact Nat.lt_of_le_of_lt Nat.and_le_right (by decide)
            · apply or3_lt _ _ _ 20
              · rw [Nat.shiftRight_eq_div_pow]; omega
              · rw [Nat.shiftLeft_eq]; omega
              · rw [Nat.shiftLeft_eq]; omega)
          exact ⟨out, ho, trivial⟩)
      (chunks 5 (s.take (polyzOf lv))) (fun c hc => ⟨(hmem c hc).1, fun b hb' => hbt b ((hmem c hc).2 b hb')⟩)
    exact ⟨g, hg⟩
  cases lv with
  | l2 =>
    simp only
    have hl2 : (s.take (polyzOf .l2)).length = 576 := by rw [hl, p2]
    have hmem := chunks_mem 9 (by decide) _ (s.take (polyzOf .l2)) rfl (by rw [hl2])
    obtain ⟨g, hg, _⟩ := mapL_total (z_unpack_group17 (gamma1Of .l2)) (fun c => c.length = 9) (fun _ _ => True)
      (fun c hc => by
        match c, hc with
        | [b0, b1, b2, b3, b4, b5, b6, b7, b8], _ =>
          obtain ⟨out, ho⟩ := sub_ok (gamma1Of .l2) 262144 (by omega) (by rw [g2]; omega) (by rw [g2]; omega) (z17_fields b0 b1 b2 b3 b4 b5 b6 b7 b8) (by
            intro f hf
            simp only [z17_fields, List.mem_cons, List.mem_nil_iff, or_false] at hf
            rcases hf with rfl | rfl | rfl | rfl <;> exact Nat.lt_of_le_of_lt Nat.and_le_right (by decide))
          exact ⟨out, ho, trivial⟩)
      (chunks 9 (s.take (polyzOf .l2))) (fun c hc => (hmem c hc).1)
    rw [hg, ok_bind]
    exact ⟨_, rfl⟩
  | l3 =>
    simp only
    obtain ⟨g, hg⟩ := h19 (gamma1Of .l3) g3 (by rw [hl, p3])
    rw [hg, ok_bind]; exact ⟨_, rfl⟩
  | l5 =>
    simp only
    obtain ⟨g, hg⟩ := h19 (gamma1Of .l5) g5 (by rw [hl, p5])
    rw [hg, ok_bind]; exact ⟨_, rfl⟩

end DV.DecodeTotal

namespace DV.DecodeTotal
open DV DV.Ranges DV.Containers DV.HintCodec

/-! ### the hint decoder on arbitrary bytes -/

theorem inner_total (hs : List Nat) (k cnt : Nat) (hcnt : cnt ≤ hs.length) (hb : ∀ b ∈ hs, b < 256) :
    ∀ (fuel j : Nat) (hp : Poly), Bits hp →
      ∃ r, unpack_hints_go.inner hs k cnt fuel j hp = .ok r ∧ ∀ hp', r = some hp' → Bits hp' := by
  intro fuel
  induction fuel with
  | zero => intro j hp hbits; unfold unpack_hints_go.inner; exact ⟨some hp, rfl, fun hp' h => by injection h with h; subst h; exact hbits⟩
  | succ n ih =>
    intro j hp hbits
    unfold unpack_hints_go.inner
    by_cases hj : j < cnt
    · rw [if_pos hj, getC_ok hs j 0 (by omega), ok_bind]
      have hbj : hs.getD j 0 < 256 := hb _ (by
        rw [List.getD_eq_getElem?_getD, List.getElem?_eq_getElem (by omega)]; simp)
      have hok : ∃ okv, (if j > k then (do
            let pb ← getC hs (j - 1)
            (Except.ok (decide (¬ (hs.getD j 0 ≤ pb))) : Chk Bool)) else .ok true) = .ok okv := by
        by_cases hjk : j > k
        · rw [if_pos hjk, getC_ok hs (j - 1) 0 (by omega), ok_bind]; exact ⟨_, rfl⟩
        · rw [if_neg hjk]; exact ⟨_, rfl⟩
      obtain ⟨okv, hokv⟩ := hok
      rw [hokv, ok_bind]
      cases okv with
      | false => exact ⟨none, by simp, fun hp' h => by cases h⟩
      | true =>
        simp only [Bool.not_true, Bool.false_eq_true, if_false, not_true_eq_false]
        have hsc : setC hp (hs.getD j 0) 1 = .ok (hp.set (hs.getD j 0) 1) := by
          unfold setC; rw [if_pos (by rw [hbits.1]; exact hbj)]
        rw [hsc, ok_bind]
        exact ih (j + 1) _ ⟨by rw [List.length_set]; exact hbits.1, fun x hx => by
          rcases List.mem_or_eq_of_mem_set hx with hx | rfl
          · exact hbits.2 x hx
          · exact Or.inr rfl⟩
    · rw [if_neg hj]
      exact ⟨some hp, rfl, fun hp' h => by injection h with h; subst h; exact hbits⟩

theorem zeros_bits : Bits (List.replicate N 0) := by
  refine ⟨by simp [N]; decide, fun x hx => ?_⟩
  rw [List.mem_replicate] at hx
  exact Or.inl hx.2

theorem unpack_hints_total (omega : Nat) (ho : omega ≤ 255) (hs : List Nat) (hb : ∀ b ∈ hs, b < 256) :
    ∀ (n i k : Nat) (acc : List Poly), hs.length = omega + (i + n) → (∀ hp ∈ acc, Bits hp) →
      ∃ r, unpack_hints_go omega hs n i k acc = .ok r ∧ ∀ h, r = some h → h.length = acc.length + n ∧ ∀ hp ∈ h, Bits hp := by
  intro n
  induction n with
  | zero =>
    intro i k acc _ hacc
    unfold unpack_hints_go
    split
    · exact ⟨_, rfl, fun h hh => by
        injection hh with hh; subst hh
        exact ⟨by simp, fun hp hhp => hacc hp (List.mem_reverse.mp hhp)⟩⟩
    · exact ⟨none, rfl, fun h hh => by cases hh⟩
  | succ n ih =>
    intro i k acc hl hacc
    unfold unpack_hints_go
    rw [getC_ok hs (omega + i) 0 (by omega), ok_bind]
    split
    · exact ⟨none, rfl, fun h hh => by cases hh⟩
    · rename_i hc
      have ho256 : omega % 256 = omega := Nat.mod_eq_of_lt (by omega)
      have hcnt : hs.getD (omega + i) 0 ≤ hs.length := by
        have : ¬ (hs.getD (omega + i) 0 > omega % 256) := fun h => hc (Or.inr h)
        rw [ho256] at this; omega
      obtain ⟨r, hr, hrb⟩ := inner_total hs k (hs.getD (omega + i) 0) hcnt hb (hs.getD (omega + i) 0 - k + 1) k _ zeros_bits
      rw [hr, ok_bind]
      cases r with
      | none => exact ⟨none, rfl, fun h hh => by cases hh⟩
      | some hp =>
        simp only
        obtain ⟨r2, hr2, h2⟩ := ih (i + 1) (hs.getD (omega + i) 0) (hp :: acc) (by omega) (fun x hx => by
          rcases List.mem_cons.mp hx with rfl | hx
          · exact hrb _ rfl
          · exact hacc x hx)
        exact ⟨r2, hr2, fun h hh => by
          obtain ⟨l1, l2⟩ := h2 h hh
          exact ⟨by rw [l1, List.length_cons]; omega, l2⟩⟩

theorem sig_facts2 : ∀ p ∈ allParams, p.polyz = polyzOf p.lvl ∧ p.omega ≤ 255 ∧
    p.sigBytes = p.ctilde + p.l * p.polyz + p.omega + p.k := by decide

/-- `unpack_sig` on any byte string of SIGNBYTES bytes: never faults; z is in (−γ1, γ1]; accepted hints are 0/1 vectors -/
theorem unpack_sig_total (p : Params) (hp : p ∈ allParams) (sig : List Nat) (hl : sig.length = p.sigBytes) (hb : ∀ b ∈ sig, b < 256) :
    ∃ okv c z h, unpack_sig p sig = .ok (okv, c, z, h) ∧ c.length = p.ctilde ∧ z.length = p.l ∧
      (∀ a ∈ z, a.length = 256 ∧ ∀ x ∈ a, -(gamma1Of p.lvl) < x ∧ x ≤ gamma1Of p.lvl) ∧
      (okv = true → h.length = p.k ∧ ∀ hp ∈ h, Bits hp) := by
  obtain ⟨hpz, ho, hsb⟩ := sig_facts2 p hp
  unfold unpack_sig takeC sliceC
  rw [if_pos (by rw [hl, hsb]; omega), ok_bind]
  obtain ⟨z, hz1, hz2, hz3⟩ := forRange_total p.l (fun i => do
      let s ← dropC sig (p.ctilde + i * p.polyz)
      z_unpack p.lvl s) (fun a => a.length = 256 ∧ ∀ x ∈ a, -(gamma1Of p.lvl) < x ∧ x ≤ gamma1Of p.lvl)
    (fun i hi => by
      have hle : (i + 1) * p.polyz ≤ p.l * p.polyz := Nat.mul_le_mul_right _ (by omega)
      have e : (i + 1) * p.polyz = i * p.polyz + p.polyz := Nat.succ_mul i p.polyz
      unfold dropC
      rw [if_pos (by rw [hl, hsb]; omega), ok_bind]
      obtain ⟨r, hr, hr2, hr3⟩ := z_unpack_total p.lvl (sig.drop (p.ctilde + i * p.polyz))
        (by rw [List.length_drop, hl, hsb, ← hpz]; omega) (fun b hb' => hb b (List.mem_of_mem_drop hb'))
      exact ⟨r, hr, hr2, hr3⟩)
  dsimp only
  rw [hz1, ok_bind]
  rw [if_pos ⟨by omega, by rw [hl, hsb]; exact Nat.le_refl _⟩, ok_bind]
  have hhs : ((sig.drop (p.ctilde + p.l * p.polyz)).take (p.ctilde + p.l * p.polyz + p.omega + p.k - (p.ctilde + p.l * p.polyz))).length
      = p.omega + (0 + p.k) := by
    rw [List.length_take, List.length_drop, hl, hsb]; omega
  obtain ⟨r, hr, hr2⟩ := unpack_hints_total p.omega ho _ (fun b hb' => hb b (List.mem_of_mem_drop (List.mem_of_mem_take hb')))
    p.k 0 0 [] hhs (by intro x hx; cases hx)
  rw [hr, ok_bind]
  have hcl : (sig.take p.ctilde).length = p.ctilde := by rw [List.length_take, hl, hsb]; omega
  cases r with
  | none => exact ⟨false, _, z, [], rfl, hcl, hz2, hz3, fun h => by cases h⟩
  | some h =>
    obtain ⟨l1, l2⟩ := hr2 h rfl
    exact ⟨true, _, z, h, rfl, hcl, hz2, hz3, fun _ => ⟨by simpa using l1, l2⟩⟩

end DV.DecodeTotal
