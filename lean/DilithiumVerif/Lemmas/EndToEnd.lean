import DilithiumVerif.Lemmas.IterComplete
import DilithiumVerif.Lemmas.SignLoop
import DilithiumVerif.Lemmas.Containers
import DilithiumVerif.Lemmas.ShakeSmall
import DilithiumVerif.Props.C12
/-
  Lemmas.EndToEnd — keypair, then signature, then verify: every signature the model's `signature` returns under a key
  the model's `keypair` returned is accepted by the model's `verify`.
-/
namespace DV.Complete
open DV DV.NttSem DV.PolySem DV.VecSem DV.RoundSem DV.NttMul DV.NttZ DV.Ranges DV.Containers DV.ShakeSmall

theorem e2e_facts : ∀ p ∈ allParams, p.pkBytes = SEEDBYTES + p.k * POLYT1 ∧ p.trBytes < R256 ∧ p.trBytes ≤ CRHBYTES ∧
    p.ctilde ≤ R256 ∧ 2 * SEEDBYTES + CRHBYTES < R256 := by decide

theorem etaB_eq (lv : Lvl) : Containers.etaB lv = etaI lv := by cases lv <;> rfl

/-- lengths of the seeds that key generation derives -/
theorem keygen_core_lengths (p : Params) (seed rho key : List Nat) (s1 s2 t1 t0 : PolyVec)
    (h : keygen_core p seed = .ok (rho, key, s1, s2, t1, t0)) : rho.length = SEEDBYTES ∧ key.length = SEEDBYTES := by
  unfold keygen_core at h
  obtain ⟨seedbuf, hsb, h⟩ := bind_eq_ok.mp h
  simp only at h
  obtain ⟨mat, _, h⟩ := bind_eq_ok.mp h
  obtain ⟨s1', _, h⟩ := bind_eq_ok.mp h
  obtain ⟨s2', _, h⟩ := bind_eq_ok.mp h
  obtain ⟨_, _, h⟩ := bind_eq_ok.mp h
  obtain ⟨_, _, h⟩ := bind_eq_ok.mp h
  obtain ⟨_, _, h⟩ := bind_eq_ok.mp h
  obtain ⟨_, _, h⟩ := bind_eq_ok.mp h
  obtain ⟨_, _, h⟩ := bind_eq_ok.mp h
  obtain ⟨_, _, h⟩ := bind_eq_ok.mp h
  obtain ⟨⟨t1', t0'⟩, _, h⟩ := bind_eq_ok.mp h
  simp only at h
  injection h with h
  injection h with hrho h
  injection h with hkey h
  have hlen : seedbuf.length = 2 * SEEDBYTES + CRHBYTES := by
    unfold shake256n at hsb
    exact shake256_small_length _ _ _ _ (by decide) (Nat.le_refl _) seedbuf hsb
  have hS : SEEDBYTES = 32 := by decide
  have hC : CRHBYTES = 64 := by decide
  rw [← hrho, ← hkey]
  constructor
  · rw [List.length_take, hlen, hS, hC]; rfl
  · rw [List.length_drop, hlen, hS, hC]

/-- the challenge seed has exactly `ctilde` bytes -/
theorem compute_ctilde_length (p : Params) (mu w ct : List Nat) (h : compute_ctilde p mu w = .ok ct) : ct.length = p.ctilde := by
  unfold compute_ctilde at h
  obtain ⟨st1, _, h⟩ := bind_eq_ok.mp h
  obtain ⟨st2, _, h⟩ := bind_eq_ok.mp h
  obtain ⟨st3, h3, h⟩ := bind_eq_ok.mp h
  obtain ⟨⟨c, st4⟩, h4, h⟩ := bind_eq_ok.mp h
  simp only at h
  injection h with h; subst h
  have hpos : st3.pos = R256 := by
    unfold shake256_finalize at h3
    obtain ⟨s, _, h3⟩ := bind_eq_ok.mp h3
    injection h3 with h3; rw [← h3]
  rw [C12.shake256_squeeze_eq p.ctilde st3 (by rw [hpos])] at h4
  injection h4 with h4
  injection h4 with h4 _
  rw [← h4]
  exact squeezeSpec_length keccakf R256 (by decide) p.ctilde st3.s st3.pos (by rw [hpos])

set_option maxHeartbeats 1600000 in
/-- **Every signature produced verifies (model level).** For each of the six parameter sets, any seed (explicit or drawn
    from the RNG tape), any message, deterministic or randomized signing with any RNG tape and any loop bound: if
    `keypair` returned (pk, sk) and `signature` under sk returned `some sig`, then `verify sig msg pk = true`. -/
theorem sign_then_verify (p : Params) (hp : p ∈ allParams) (seed : Option (List Nat)) (tape : Tape) (pk sk : List Nat) (tape' : Tape)
    (hk : keypair p seed tape = .ok (pk, sk, tape'))
    (fuel : Nat) (msg : List Nat) (randomized : Bool) (tape2 : Tape) (sig : List Nat) (tape3 : Tape)
    (hs : signature p fuel msg sk randomized tape2 = .ok (some sig, tape3)) :
    verify p sig msg pk = .ok true ∧ sig.length = p.sigBytes := by
  obtain ⟨hl0, hl7, hk0, hk8, hg1, hg2, hg1u, hg1l, hb0, hbu, hg2u, hg2l⟩ := params_facts p hp
  obtain ⟨hpkb, htrR, htrC, hctR, _⟩ := e2e_facts p hp
  have hq : Q = 8380417 := Q_val'
  -- key generation
  unfold keypair at hk
  obtain ⟨⟨s, tp⟩, _, hk⟩ := bind_eq_ok.mp hk
  simp only at hk
  obtain ⟨⟨rho, key, s1, s2, t1, t0⟩, hcore, hk⟩ := bind_eq_ok.mp hk
  simp only at hk
  obtain ⟨pk0, hpk, hk⟩ := bind_eq_ok.mp hk
  obtain ⟨tr, htr, hk⟩ := bind_eq_ok.mp hk
  obtain ⟨sk0, hsk, hk⟩ := bind_eq_ok.mp hk
  injection hk with hk; injection hk with hpk0 hk; injection hk with hsk0 _
  subst hpk0; subst hsk0
  obtain ⟨mat, hme, kf⟩ := keygen_facts p hp _ rho key s1 s2 t1 t0 hcore
  obtain ⟨hrl, hkl⟩ := keygen_core_lengths p _ rho key s1 s2 t1 t0 hcore
  obtain ⟨pk', hpk', hpkl, hupk⟩ := unpack_pack_pk p rho t1 hrl kf.t1l (fun a ha => kf.t1s a ha)
  rw [hpk] at hpk'; injection hpk' with hpk'; subst hpk'
  have htrl : tr.length = p.trBytes := by
    unfold shake256n at htr
    exact shake256_small_length _ _ _ _ htrR (Nat.le_refl _) tr htr
  obtain ⟨sk', hsk', husk⟩ := unpack_pack_sk p hp rho tr key t0 s1 s2 hrl hkl htrl kf.s1l kf.s2l kf.t0l
    (fun a ha => by rw [etaB_eq]; exact kf.s1s a ha) (fun a ha => by rw [etaB_eq]; exact kf.s2s a ha) kf.t0s
  rw [hsk] at hsk'; injection hsk' with hsk'; subst hsk'
  -- signing
  unfold signature at hs
  rw [husk, ok_bind] at hs
  simp only at hs
  obtain ⟨mu, hmu, hs⟩ := bind_eq_ok.mp hs
  obtain ⟨⟨rhoprime, tp2⟩, _, hs⟩ := bind_eq_ok.mp hs
  simp only at hs
  rw [hme, ok_bind] at hs
  obtain ⟨s1h, e1, hs⟩ := bind_eq_ok.mp hs
  obtain ⟨s2h, e2, hs⟩ := bind_eq_ok.mp hs
  obtain ⟨t0h, e0, hs⟩ := bind_eq_ok.mp hs
  obtain ⟨r, hloop, hs⟩ := bind_eq_ok.mp hs
  injection hs with hs; injection hs with hr _; subst hr
  obtain ⟨j, _, hacc, _⟩ := C01.sign_loop_some p mat mu rhoprime s1h s2h t0h fuel 0 sig hloop
  obtain ⟨ct, z, h, w1, hct, hpack, hzl, hzb, hhl, hhb, hhw, hvt⟩ :=
    iteration_complete p hp mat s1 s2 t1 t0 s1h s2h t0h kf e1 e2 e0 mu rhoprime _ sig hacc
  have hctl := compute_ctilde_length p mu _ ct hct
  obtain ⟨sig', hpack', hsigl, husig⟩ := unpack_pack_sig p hp ct z h hctl hzl
    (fun a ha => ⟨(hzb a ha).1, fun x hx => by have := (hzb a ha).2 x hx; rw [← hg1]; omega⟩) hhl hhb hhw
  rw [hpack] at hpack'; injection hpack' with hpack'; subst hpack'
  refine ⟨?_, hsigl⟩
  -- verification
  have htrh : shake256 CRHBYTES p.trBytes pk0 p.pkBytes = .ok tr := by
    rw [shake256_cap_indep CRHBYTES p.trBytes p.trBytes pk0 p.pkBytes htrR htrC (Nat.le_refl _), hpkb, ← hpkl]
    exact htr
  have hvtail := hvt pk0 rho tr htrh hme
  have hnorm : vec_chknorm z ((p.gamma1 : Int) - p.beta) = .ok 0 := by
    rw [C18.vec_chknorm_exact z _ (fun a ha x hx => by have := (hzb a ha).2 x hx; omega) (by rw [hq]; omega)]
    rw [if_neg]
    intro ⟨a, ha, x, hx, hle⟩
    have := (hzb a ha).2 x hx
    unfold C18.iabs at hle
    split at hle <;> omega
  unfold verify verify_core
  rw [if_pos hsigl]
  simp only [bind_assoc]
  show (unpack_pk p pk0 >>= fun rt => unpack_sig p sig >>= fun u => _) = _
  rw [hupk, ok_bind, husig, ok_bind]
  simp only [if_true]
  rw [hnorm, ok_bind]
  simp only [Int.lt_irrefl, if_false]
  rw [hvtail, ok_bind, ok_bind]
  simp only
  rw [hmu, ok_bind, hct, ok_bind]
  simp

end DV.Complete

namespace DV.Complete
open DV DV.NttSem DV.PolySem DV.VecSem DV.RoundSem DV.NttMul DV.NttZ DV.Ranges DV.Containers DV.ShakeSmall

set_option maxHeartbeats 1600000 in
/-- **What every emitted signature satisfies (C06).** For a key pair from `keypair` and any signature returned by
    `signature`: the secret key decodes to (ρ, tr, K, t0, s1, s2) in the key-generation ranges, the signature decodes
    canonically to (c̃, z, h), and there is an iteration κ whose mask y, w = A·y, HighBits/LowBits, c·s2 and c·t0 satisfy
    the facts of `SignFacts` / `SignSecret`: ‖z‖∞ < γ1−β, at most ω hints, y = z − c·s1 is the expanded mask,
    ‖LowBits(A·y − c·s2)‖∞ < γ2−β with HighBits(A·y − c·s2) = HighBits(A·y) = w1, ‖c·t0‖∞ < γ2, c̃ = H(μ ‖ w1Encode(w1)). -/
theorem emitted_signature_facts (p : Params) (hp : p ∈ allParams) (seed : Option (List Nat)) (tape : Tape) (pk sk : List Nat) (tape' : Tape)
    (hk : keypair p seed tape = .ok (pk, sk, tape'))
    (fuel : Nat) (msg : List Nat) (randomized : Bool) (tape2 : Tape) (sig : List Nat) (tape3 : Tape)
    (hs : signature p fuel msg sk randomized tape2 = .ok (some sig, tape3)) :
    ∃ (rho tr key : List Nat) (s1 s2 t1 t0 : PolyVec) (mat : List PolyVec) (mu rp : List Nat) (κ : Nat)
      (ct : List Nat) (cp : Poly) (z h w1 a0 y w w0 cs2 r0 ct0 : PolyVec),
      unpack_sk p sk = .ok (rho, tr, key, t0, s1, s2) ∧ matrix_expand p FUEL rho = .ok mat ∧ KeyFacts p mat s1 s2 t1 t0 ∧
      compute_mu tr p.trBytes msg = .ok mu ∧ κ < fuel ∧
      unpack_sig p sig = .ok (true, ct, z, h) ∧
      SignFacts p mat s1 s2 t0 mu sig ct cp z h w1 a0 ∧
      SignSecret p mat s1 s2 t0 rp (κ : Int) cp z w1 a0 y w w0 cs2 r0 ct0 := by
  obtain ⟨_, _, _, _, hg1, _⟩ := params_facts p hp
  obtain ⟨_, htrR, _, _, _⟩ := e2e_facts p hp
  unfold keypair at hk
  obtain ⟨⟨s, tp⟩, _, hk⟩ := bind_eq_ok.mp hk
  simp only at hk
  obtain ⟨⟨rho, key, s1, s2, t1, t0⟩, hcore, hk⟩ := bind_eq_ok.mp hk
  simp only at hk
  obtain ⟨pk0, hpk, hk⟩ := bind_eq_ok.mp hk
  obtain ⟨tr, htr, hk⟩ := bind_eq_ok.mp hk
  obtain ⟨sk0, hsk, hk⟩ := bind_eq_ok.mp hk
  injection hk with hk; injection hk with hpk0 hk; injection hk with hsk0 _
  subst hpk0; subst hsk0
  obtain ⟨mat, hme, kf⟩ := keygen_facts p hp _ rho key s1 s2 t1 t0 hcore
  obtain ⟨hrl, hkl⟩ := keygen_core_lengths p _ rho key s1 s2 t1 t0 hcore
  have htrl : tr.length = p.trBytes := by
    unfold shake256n at htr
    exact shake256_small_length _ _ _ _ htrR (Nat.le_refl _) tr htr
  obtain ⟨sk', hsk', husk⟩ := unpack_pack_sk p hp rho tr key t0 s1 s2 hrl hkl htrl kf.s1l kf.s2l kf.t0l
    (fun a ha => by rw [etaB_eq]; exact kf.s1s a ha) (fun a ha => by rw [etaB_eq]; exact kf.s2s a ha) kf.t0s
  rw [hsk] at hsk'; injection hsk' with hsk'; subst hsk'
  unfold signature at hs
  rw [husk, ok_bind] at hs
  simp only at hs
  obtain ⟨mu, hmu, hs⟩ := bind_eq_ok.mp hs
  obtain ⟨⟨rhoprime, tp2⟩, _, hs⟩ := bind_eq_ok.mp hs
  simp only at hs
  rw [hme, ok_bind] at hs
  obtain ⟨s1h, e1, hs⟩ := bind_eq_ok.mp hs
  obtain ⟨s2h, e2, hs⟩ := bind_eq_ok.mp hs
  obtain ⟨t0h, e0, hs⟩ := bind_eq_ok.mp hs
  obtain ⟨r, hloop, hs⟩ := bind_eq_ok.mp hs
  injection hs with hs; injection hs with hr _; subst hr
  obtain ⟨j, hj, hacc, _⟩ := C01.sign_loop_some p mat mu rhoprime s1h s2h t0h fuel 0 sig hloop
  have Hy : ∀ y, l_uniform_gamma1 p rhoprime ((0 : Int) + j) = .ok y → y.length = p.l ∧ ∀ a ∈ y, PolyOK ((p.gamma1 : Int) + 1) a := by
    intro y hy
    have := l_uniform_gamma1_range p rhoprime _ y hy
    exact ⟨this.1, fun a ha => ⟨(this.2 a ha).1, fun x hx => by have := (this.2 a ha).2 x hx; rw [hg1]; omega⟩⟩
  have Hc : ∀ ct cp, poly_challenge p FUEL ct = .ok cp → PolyOK 2 cp := by
    intro ct cp h
    have := challenge_tern p FUEL ct cp h
    exact ⟨this.1, fun x hx => by have := this.2 x hx; omega⟩
  obtain ⟨ct, cp, z, h, w1, a0, sf, y, w, w0, cs2, r0, ct0, ss⟩ := sign_facts_full p hp mat kf.mat_ok s1 s2 t0 s1h s2h t0h
    (keyData_of_facts p mat s1 s2 t1 t0 s1h s2h t0h kf e1 e2 e0) mu rhoprime _ sig Hy Hc hacc
  have hctl := compute_ctilde_length p mu _ ct sf.hct
  obtain ⟨sig', hpack', _, husig⟩ := unpack_pack_sig p hp ct z h hctl sf.zl
    (fun a ha => ⟨(sf.zb a ha).1, fun x hx => by have := (sf.zb a ha).2 x hx; rw [← hg1]; omega⟩)
    (by rw [sf.hint.length.2, ← sf.hint.length.1, sf.w1l]) sf.hbits sf.hw
  rw [sf.hpack] at hpack'; injection hpack' with hpack'; subst hpack'
  have e : ((0 : Int) + (j : Int)) = ((j : Nat) : Int) := by omega
  rw [e] at ss
  exact ⟨rho, tr, key, s1, s2, t1, t0, mat, mu, rhoprime, j, ct, cp, z, h, w1, a0, y, w, w0, cs2, r0, ct0,
    husk, hme, kf, hmu, hj, husig, sf, ss⟩

end DV.Complete
