import DilithiumVerif.Lemmas.ShakeSmall
import DilithiumVerif.Lemmas.Ranges
/-
  Lemmas.ShakeTotal — the SHAKE interface never faults on well-formed calls (lengths that match the buffers), and the
  sizes of what it returns.
-/
namespace DV.ShakeTotal
open DV DV.ShakeSmall

theorem rate_vals : R128 = 168 ∧ R256 = 136 := by decide

theorem finalize256_total (st : KeccakState) (hp : st.pos < R256) : ∃ st', shake256_finalize st = .ok st' ∧ st'.pos = R256 := by
  have hr := rate_vals.2
  unfold shake256_finalize keccak_finalize
  rw [if_pos (by rw [hr] at hp ⊢; omega)]
  exact ⟨_, rfl, rfl⟩

theorem finalize128_total (st : KeccakState) (hp : st.pos < R128) : ∃ st', shake128_finalize st = .ok st' ∧ st'.pos = R128 := by
  have hr := rate_vals.1
  unfold shake128_finalize keccak_finalize
  rw [if_pos (by rw [hr] at hp ⊢; omega)]
  exact ⟨_, rfl, rfl⟩

theorem absorb256_total (st : KeccakState) (inp : List Nat) (hp : st.pos < R256) :
    ∃ st', shake256_absorb st inp inp.length = .ok st' ∧ st'.pos < R256 := by
  unfold shake256_absorb
  rw [keccak_absorb_eq keccakf R256 st inp hp]
  exact ⟨_, rfl, absorbSpec_pos_lt keccakf R256 inp.length st.s st.pos inp rfl hp⟩

theorem absorb128_total (st : KeccakState) (inp : List Nat) (hp : st.pos < R128) :
    ∃ st', shake128_absorb st inp inp.length = .ok st' ∧ st'.pos < R128 := by
  unfold shake128_absorb
  rw [keccak_absorb_eq keccakf R128 st inp hp]
  exact ⟨_, rfl, absorbSpec_pos_lt keccakf R128 inp.length st.s st.pos inp rfl hp⟩

theorem init_pos : KeccakState.init.pos = 0 := rfl

theorem squeeze256_total (cap n : Nat) (st : KeccakState) (hc : n ≤ cap) (hp : st.pos ≤ R256) :
    ∃ out st', shake256_squeeze cap n st = .ok (out, st') ∧ out.length = n := by
  unfold shake256_squeeze keccak_squeeze
  rw [if_pos hc, ok_bind]
  rw [squeeze_loop_eq keccakf R256 (by decide) _ [] n st.s st.pos hp (by omega)]
  refine ⟨_, _, rfl, ?_⟩
  simp only [List.nil_append]
  exact squeezeSpec_length keccakf R256 (by decide) n st.s st.pos hp

theorem squeezeblocks256_total (cap n : Nat) (st : KeccakState) (hc : n * R256 ≤ cap) :
    ∃ out st', shake256_squeezeblocks cap n st = .ok (out, st') ∧ out.length = n * R256 ∧ (∀ b ∈ out, b < 256) ∧ st'.pos = st.pos := by
  have hr := rate_vals.2
  have hcond : n = 0 ∨ (n - 1) * R256 + 8 * (R256 / 8) ≤ cap := by
    by_cases h0 : n = 0
    · exact Or.inl h0
    · right
      have e8 : 8 * (R256 / 8) = R256 := by rw [hr]
      rw [e8]
      have : (n - 1) * R256 + R256 = n * R256 := by
        obtain ⟨m, rfl⟩ : ∃ m, n = m + 1 := ⟨n - 1, by omega⟩
        rw [Nat.add_sub_cancel, Nat.succ_mul]
      omega
  have hres : shake256_squeezeblocks cap n st = .ok ((keccak_squeezeblocks_loop keccakf R256 n [] st.s).1,
      { st with s := (keccak_squeezeblocks_loop keccakf R256 n [] st.s).2 }) := by
    unfold shake256_squeezeblocks keccak_squeezeblocks
    rw [if_pos hcond]; rfl
  refine ⟨_, _, hres, ?_, Ranges.squeezeblocks_loop_bytes keccakf R256 n [] st.s (by intro b hb; cases hb), rfl⟩
  rw [squeezeblocks_loop_eq keccakf R256 (by decide) (by decide) n [] st.s]
  simp only [List.nil_append]
  exact squeezeSpec_length keccakf R256 (by decide) (n * R256) st.s R256 (Nat.le_refl _)

theorem squeezeblocks128_total (cap n : Nat) (st : KeccakState) (hc : n * R128 ≤ cap) :
    ∃ out st', shake128_squeezeblocks cap n st = .ok (out, st') ∧ out.length = n * R128 ∧ st'.pos = st.pos := by
  have hr := rate_vals.1
  have hcond : n = 0 ∨ (n - 1) * R128 + 8 * (R128 / 8) ≤ cap := by
    by_cases h0 : n = 0
    · exact Or.inl h0
    · right
      have e8 : 8 * (R128 / 8) = R128 := by rw [hr]
      rw [e8]
      have : (n - 1) * R128 + R128 = n * R128 := by
        obtain ⟨m, rfl⟩ : ∃ m, n = m + 1 := ⟨n - 1, by omega⟩
        rw [Nat.add_sub_cancel, Nat.succ_mul]
      omega
  have hres : shake128_squeezeblocks cap n st = .ok ((keccak_squeezeblocks_loop keccakf R128 n [] st.s).1,
      { st with s := (keccak_squeezeblocks_loop keccakf R128 n [] st.s).2 }) := by
    unfold shake128_squeezeblocks keccak_squeezeblocks
    rw [if_pos hcond]; rfl
  refine ⟨_, _, hres, ?_, rfl⟩
  rw [squeezeblocks_loop_eq keccakf R128 (by decide) (by decide) n [] st.s]
  simp only [List.nil_append]
  exact squeezeSpec_length keccakf R128 (by decide) (n * R128) st.s R128 (Nat.le_refl _)

/-- one-shot absorb of a whole list -/
theorem absorb_once_loop_total (f : Lanes → Lanes) (r : Nat) (hr : 0 < r) : ∀ (n fuel : Nat) (s : Lanes) (input : List Nat),
    input.length = n → n + 1 ≤ fuel →
    ∃ s' rest, keccak_absorb_once_loop f r fuel s input n = .ok (s', rest, rest.length) ∧ rest.length < r := by
  intro n
  induction n using Nat.strongRecOn with
  | _ n ih =>
    intro fuel s input hl hf
    obtain ⟨fuel', rfl⟩ : ∃ m, fuel = m + 1 := ⟨fuel - 1, by omega⟩
    unfold keccak_absorb_once_loop
    by_cases hge : n ≥ r
    · rw [if_pos hge]
      unfold takeC
      rw [if_pos (by omega), ok_bind]
      exact ih (n - r) (by omega) fuel' _ (input.drop r) (by rw [List.length_drop, hl]) (by omega)
    · rw [if_neg hge]
      exact ⟨s, input, by rw [hl], by omega⟩

theorem absorb_once256_total (inp : List Nat) : ∃ st, shake256_absorb_once inp inp.length = .ok st ∧ st.pos = R256 := by
  have hr := rate_vals.2
  unfold shake256_absorb_once keccak_absorb_once
  obtain ⟨s', rest, h1, h2⟩ := absorb_once_loop_total keccakf R256 (by decide) inp.length (inp.length + 2) (Array.replicate 25 0) inp rfl
    (by omega)
  rw [h1, ok_bind]
  simp only
  unfold takeC
  rw [if_pos (Nat.le_refl _), ok_bind]
  exact ⟨_, rfl, rfl⟩

theorem shake256_small_total (cap n : Nat) (inp : List Nat) (hn : n < R256) (hc : n ≤ cap) :
    ∃ out, shake256 cap n inp inp.length = .ok out ∧ out.length = n := by
  obtain ⟨st, hst, hpos⟩ := absorb_once256_total inp
  rw [shake256_small cap n inp inp.length hn hc, hst, ok_bind]
  exact ⟨_, rfl, squeezeSpec_length keccakf R256 (by decide) n st.s R256 (Nat.le_refl _)⟩

end DV.ShakeTotal
