import DilithiumVerif.Lemmas.CodecsFull
/-
  Lemmas.BitSpec — the coefficient codecs are the bit-string encodings of FIPS 204 §7.1:
  IntegerToBits (Alg. 9), BitsToBytes (Alg. 12), SimpleBitPack (Alg. 16), BitPack (Alg. 17).
-/
set_option linter.unusedSimpArgs false
set_option maxRecDepth 8000
namespace DV.BitSpec
open DV

macro "ors2arith" : tactic => `(tactic| (
  simp (disch := omega) only [or_add_2, or_add_4, or_add_8, or_add_16, or_add_32, or_add_64, or_add_128, or_add_256, or_add_512, or_add_1024, or_add_2048, or_add_4096, or_add_8192, or_add_16384, or_add_32768, or_add_65536, or_add_131072, or_add_262144, or_add_524288, or_add_1048576]))

/-- Alg. 9 IntegerToBits(x, α): the α low bits of x, least significant first -/
def intToBits (x : Nat) : Nat → List Nat
  | 0 => []
  | α + 1 => (x % 2) :: intToBits (x / 2) α

/-- Alg. 12 BitsToBytes on a bit string whose length is a multiple of 8: bit 8i + j has weight 2^j in byte i -/
def bitsToBytes : List Nat → List Nat
  | b0 :: b1 :: b2 :: b3 :: b4 :: b5 :: b6 :: b7 :: rest =>
      (b0 + 2 * b1 + 4 * b2 + 8 * b3 + 16 * b4 + 32 * b5 + 64 * b6 + 128 * b7) :: bitsToBytes rest
  | _ => []

/-- Alg. 16 SimpleBitPack(w, b) with bitlen b = `bits` -/
def simpleBitPack (w : List Nat) (bits : Nat) : List Nat := bitsToBytes (w.flatMap (fun x => intToBits x bits))

/-- Alg. 17 BitPack(w, a, b): SimpleBitPack of b − w_i, bitlen(a + b) = `bits` -/
def bitPack (w : List Int) (b : Int) (bits : Nat) : List Nat := simpleBitPack (w.map (fun x => (b - x).toNat)) bits

theorem intToBits_length (x n : Nat) : (intToBits x n).length = n := by
  induction n generalizing x with
  | zero => rfl
  | succ n ih => simp only [intToBits, List.length_cons, ih]

theorem bitsToBytes_append : ∀ (k : Nat) (a b : List Nat), a.length = 8 * k → bitsToBytes (a ++ b) = bitsToBytes a ++ bitsToBytes b := by
  intro k
  induction k with
  | zero => intro a b h; have : a = [] := List.eq_nil_of_length_eq_zero (by omega); subst this; rfl
  | succ k ih =>
    intro a b h
    match a, h with
    | b0 :: b1 :: b2 :: b3 :: b4 :: b5 :: b6 :: b7 :: rest, h =>
      simp only [List.cons_append, bitsToBytes]
      rw [ih rest b (by simp only [List.length_cons] at h; omega)]

theorem flatMap_bits_length (bits : Nat) (g : List Nat) : (g.flatMap (fun x => intToBits x bits)).length = g.length * bits := by
  induction g with
  | nil => simp
  | cons x xs ih => simp only [List.flatMap_cons, List.length_append, intToBits_length, ih, List.length_cons]; rw [Nat.add_mul]; omega

/-- SimpleBitPack of a concatenation of groups whose bit length is a multiple of 8 is the concatenation of their packings -/
theorem simpleBitPack_flatten (bits : Nat) (gs : List (List Nat)) (h : ∀ g ∈ gs, (g.length * bits) % 8 = 0) :
    simpleBitPack gs.flatten bits = gs.flatMap (fun g => simpleBitPack g bits) := by
  induction gs with
  | nil => rfl
  | cons g gs ih =>
    have ih' := ih (fun g' hg' => h g' (List.mem_cons_of_mem _ hg'))
    unfold simpleBitPack at ih' ⊢
    rw [List.flatten_cons, List.flatMap_append, List.flatMap_cons]
    have hg := h g (List.mem_cons_self ..)
    rw [bitsToBytes_append ((g.length * bits) / 8) _ _ (by rw [flatMap_bits_length]; omega)]
    rw [ih']

/-! ### t1 = SimpleBitPack(·, 10 bits) -/
theorem t1_group_spec (c0 c1 c2 c3 : Int) (h0 : 0 ≤ c0 ∧ c0 < 1024) (h1 : 0 ≤ c1 ∧ c1 < 1024)
    (h2 : 0 ≤ c2 ∧ c2 < 1024) (h3 : 0 ≤ c3 ∧ c3 < 1024) :
    t1_pack_group [c0, c1, c2, c3] = simpleBitPack [c0.toNat, c1.toNat, c2.toNat, c3.toNat] 10 := by
  simp only [t1_pack_group, asU8_or32, asU8_shl32]
  simp only [sar_eq, asU8, Int.reducePow, Int.pow_zero, Int.ediv_one]
  ors2arith
  simp only [simpleBitPack, List.flatMap_cons, List.flatMap_nil, intToBits, List.cons_append, List.nil_append, List.append_nil, bitsToBytes]
  simp only [List.cons.injEq, and_true]
  omega

macro "unfold_spec" : tactic => `(tactic| (
  simp only [simpleBitPack, List.flatMap_cons, List.flatMap_nil, intToBits, List.cons_append, List.nil_append, List.append_nil, bitsToBytes]
  simp only [List.cons.injEq, and_true]))

/-! ### w1 = SimpleBitPack(·, 6 or 4 bits) -/
theorem w1_group6_spec (c0 c1 c2 c3 : Int) (h0 : 0 ≤ c0 ∧ c0 < 64) (h1 : 0 ≤ c1 ∧ c1 < 64)
    (h2 : 0 ≤ c2 ∧ c2 < 64) (h3 : 0 ≤ c3 ∧ c3 < 64) :
    w1_pack_group6 [c0, c1, c2, c3] = simpleBitPack [c0.toNat, c1.toNat, c2.toNat, c3.toNat] 6 := by
  simp only [w1_pack_group6, asU8_or32, asU8_shl32]
  simp only [sar_eq, asU8, Int.reducePow, Int.pow_zero, Int.ediv_one]
  ors2arith
  unfold_spec
  omega

theorem w1_group4_spec (c0 c1 : Int) (h0 : 0 ≤ c0 ∧ c0 < 16) (h1 : 0 ≤ c1 ∧ c1 < 16) :
    w1_pack_group4 [c0, c1] = simpleBitPack [c0.toNat, c1.toNat] 4 := by
  simp only [w1_pack_group4, asU8_or32, asU8_shl32]
  simp only [sar_eq, asU8, Int.reducePow, Int.pow_zero, Int.ediv_one]
  ors2arith
  unfold_spec
  omega

/-! ### eta = BitPack(·, η, η), 3 or 4 bits -/
theorem eta2_bytes_spec (t0 t1 t2 t3 t4 t5 t6 t7 : Nat) (b0 : t0 < 8) (b1 : t1 < 8) (b2 : t2 < 8) (b3 : t3 < 8)
    (b4 : t4 < 8) (b5 : t5 < 8) (b6 : t6 < 8) (b7 : t7 < 8) :
    eta2_bytes t0 t1 t2 t3 t4 t5 t6 t7 = simpleBitPack [t0, t1, t2, t3, t4, t5, t6, t7] 3 := by
  simp only [eta2_bytes]
  bits2arith
  unfold_spec
  omega

theorem eta4_bytes_spec (t0 t1 : Nat) (b0 : t0 < 16) (b1 : t1 < 16) :
    eta4_bytes t0 t1 = simpleBitPack [t0, t1] 4 := by
  simp only [eta4_bytes]
  bits2arith
  unfold_spec
  omega

/-! ### z = BitPack(·, γ1 − 1, γ1), 18 or 20 bits -/
theorem z17_bytes_spec (t0 t1 t2 t3 : Int) (b0 : 0 ≤ t0 ∧ t0 < 262144) (b1 : 0 ≤ t1 ∧ t1 < 262144)
    (b2 : 0 ≤ t2 ∧ t2 < 262144) (b3 : 0 ≤ t3 ∧ t3 < 262144) :
    z17_bytes t0 t1 t2 t3 = simpleBitPack [t0.toNat, t1.toNat, t2.toNat, t3.toNat] 18 := by
  simp only [z17_bytes, asU8_shl32]
  simp only [sar_eq, asU8, Int.reducePow]
  ors2arith
  unfold_spec
  omega

theorem z19_bytes_spec (t0 t1 : Int) (b0 : 0 ≤ t0 ∧ t0 < 1048576) (b1 : 0 ≤ t1 ∧ t1 < 1048576) :
    z19_bytes t0 t1 = simpleBitPack [t0.toNat, t1.toNat] 20 := by
  simp only [z19_bytes, asU8_shl32]
  simp only [sar_eq, asU8, Int.reducePow]
  ors2arith
  unfold_spec
  omega


/-! ### t0 = BitPack(·, 2^12 − 1, 2^12), 13 bits -/
set_option maxHeartbeats 2000000 in
theorem t0_bytes_spec (t0 t1 t2 t3 t4 t5 t6 t7 : Int)
    (b0 : 0 ≤ t0 ∧ t0 < 8192) (b1 : 0 ≤ t1 ∧ t1 < 8192) (b2 : 0 ≤ t2 ∧ t2 < 8192) (b3 : 0 ≤ t3 ∧ t3 < 8192)
    (b4 : 0 ≤ t4 ∧ t4 < 8192) (b5 : 0 ≤ t5 ∧ t5 < 8192) (b6 : 0 ≤ t6 ∧ t6 < 8192) (b7 : 0 ≤ t7 ∧ t7 < 8192) :
    [ asU8 t0,
          asU8 (sar t0 8) ||| asU8 (shl32 t1 5),
          asU8 (sar t1 3),
          asU8 (sar t1 11) ||| asU8 (shl32 t2 2),
          asU8 (sar t2 6) ||| asU8 (shl32 t3 7),
          asU8 (sar t3 1),
          asU8 (sar t3 9) ||| asU8 (shl32 t4 4),
          asU8 (sar t4 4),
          asU8 (sar t4 12) ||| asU8 (shl32 t5 1),
          asU8 (sar t5 7) ||| asU8 (shl32 t6 6),
          asU8 (sar t6 2),
          asU8 (sar t6 10) ||| asU8 (shl32 t7 3),
          asU8 (sar t7 5) ] =
      simpleBitPack [t0.toNat, t1.toNat, t2.toNat, t3.toNat, t4.toNat, t5.toNat, t6.toNat, t7.toNat] 13 := by
  simp only [asU8_shl32]
  simp only [sar_eq, asU8, Int.reducePow]
  ors2arith
  unfold_spec
  refine ⟨?_, ?_, ?_, ?_, ?_, ?_, ?_, ?_, ?_, ?_, ?_, ?_, ?_⟩ <;> omega



theorem t0_group_spec (c0 c1 c2 c3 c4 c5 c6 c7 : Int)
    (h0 : -4096 < c0 ∧ c0 ≤ 4096) (h1 : -4096 < c1 ∧ c1 ≤ 4096) (h2 : -4096 < c2 ∧ c2 ≤ 4096) (h3 : -4096 < c3 ∧ c3 ≤ 4096)
    (h4 : -4096 < c4 ∧ c4 ≤ 4096) (h5 : -4096 < c5 ∧ c5 ≤ 4096) (h6 : -4096 < c6 ∧ c6 ≤ 4096) (h7 : -4096 < c7 ∧ c7 ≤ 4096) :
    t0_pack_group [c0, c1, c2, c3, c4, c5, c6, c7] = .ok (bitPack [c0, c1, c2, c3, c4, c5, c6, c7] 4096 13) := by
  unfold t0_pack_group bitPack
  simp only [mapL, D_SHL, List.map_cons, List.map_nil]
  rw [sub32_ok _ c0 (by omega), sub32_ok _ c1 (by omega), sub32_ok _ c2 (by omega), sub32_ok _ c3 (by omega),
      sub32_ok _ c4 (by omega), sub32_ok _ c5 (by omega), sub32_ok _ c6 (by omega), sub32_ok _ c7 (by omega)]
  simp only [ok_bind]
  rw [t0_bytes_spec _ _ _ _ _ _ _ _ (by omega) (by omega) (by omega) (by omega) (by omega) (by omega) (by omega) (by omega)]

theorem eta2_group_spec (c0 c1 c2 c3 c4 c5 c6 c7 : Int)
    (h0 : -2 ≤ c0 ∧ c0 ≤ 2) (h1 : -2 ≤ c1 ∧ c1 ≤ 2) (h2 : -2 ≤ c2 ∧ c2 ≤ 2) (h3 : -2 ≤ c3 ∧ c3 ≤ 2)
    (h4 : -2 ≤ c4 ∧ c4 ≤ 2) (h5 : -2 ≤ c5 ∧ c5 ≤ 2) (h6 : -2 ≤ c6 ∧ c6 ≤ 2) (h7 : -2 ≤ c7 ∧ c7 ≤ 2) :
    eta_pack_group2 [c0, c1, c2, c3, c4, c5, c6, c7] = .ok (bitPack [c0, c1, c2, c3, c4, c5, c6, c7] 2 3) := by
  unfold eta_pack_group2 bitPack
  simp only [mapL, List.map_cons, List.map_nil]
  rw [sub32_ok _ c0 (by omega), sub32_ok _ c1 (by omega), sub32_ok _ c2 (by omega), sub32_ok _ c3 (by omega),
      sub32_ok _ c4 (by omega), sub32_ok _ c5 (by omega), sub32_ok _ c6 (by omega), sub32_ok _ c7 (by omega)]
  simp only [ok_bind, asU8]
  rw [eta2_bytes_spec _ _ _ _ _ _ _ _ (by omega) (by omega) (by omega) (by omega) (by omega) (by omega) (by omega) (by omega)]
  have e : ∀ x : Int, 0 ≤ x → x < 256 → (x % 256).toNat = x.toNat := fun x h1 h2 => by omega
  simp (disch := omega) only [e]

theorem eta4_group_spec (c0 c1 : Int) (h0 : -4 ≤ c0 ∧ c0 ≤ 4) (h1 : -4 ≤ c1 ∧ c1 ≤ 4) :
    eta_pack_group4 [c0, c1] = .ok (bitPack [c0, c1] 4 4) := by
  unfold eta_pack_group4 bitPack
  simp only [mapL, List.map_cons, List.map_nil]
  rw [sub32_ok _ c0 (by omega), sub32_ok _ c1 (by omega)]
  simp only [ok_bind, asU8]
  rw [eta4_bytes_spec _ _ (by omega) (by omega)]
  have e : ∀ x : Int, 0 ≤ x → x < 256 → (x % 256).toNat = x.toNat := fun x h1 h2 => by omega
  simp (disch := omega) only [e]

theorem z17_group_spec (c0 c1 c2 c3 : Int) (h0 : -131072 < c0 ∧ c0 ≤ 131072) (h1 : -131072 < c1 ∧ c1 ≤ 131072)
    (h2 : -131072 < c2 ∧ c2 ≤ 131072) (h3 : -131072 < c3 ∧ c3 ≤ 131072) :
    z_pack_group17 131072 [c0, c1, c2, c3] = .ok (bitPack [c0, c1, c2, c3] 131072 18) := by
  unfold z_pack_group17 bitPack
  simp only [mapL, List.map_cons, List.map_nil]
  rw [sub32_ok _ c0 (by omega), sub32_ok _ c1 (by omega), sub32_ok _ c2 (by omega), sub32_ok _ c3 (by omega)]
  simp only [ok_bind]
  rw [z17_bytes_spec _ _ _ _ (by omega) (by omega) (by omega) (by omega)]

theorem z19_group_spec (c0 c1 : Int) (h0 : -524288 < c0 ∧ c0 ≤ 524288) (h1 : -524288 < c1 ∧ c1 ≤ 524288) :
    z_pack_group19 524288 [c0, c1] = .ok (bitPack [c0, c1] 524288 20) := by
  unfold z_pack_group19 bitPack
  simp only [mapL, List.map_cons, List.map_nil]
  rw [sub32_ok _ c0 (by omega), sub32_ok _ c1 (by omega)]
  simp only [ok_bind]
  rw [z19_bytes_spec _ _ (by omega) (by omega)]

/-! ### lifting to whole polynomials -/
theorem simpleBitPack_append (bits : Nat) (a b : List Nat) (h : (a.length * bits) % 8 = 0) :
    simpleBitPack (a ++ b) bits = simpleBitPack a bits ++ simpleBitPack b bits := by
  unfold simpleBitPack
  rw [List.flatMap_append, bitsToBytes_append ((a.length * bits) / 8) _ _ (by rw [flatMap_bits_length]; omega)]

theorem groups_spec (n bits : Nat) (tr : Int → Nat) (h8 : (n * bits) % 8 = 0) : ∀ (gs : List (List Int)), (∀ g ∈ gs, g.length = n) →
    (gs.map (fun g => simpleBitPack (g.map tr) bits)).flatten = simpleBitPack (gs.flatten.map tr) bits := by
  intro gs
  induction gs with
  | nil => intro _; rfl
  | cons g gs ih =>
    intro h
    rw [List.map_cons, List.flatten_cons, List.flatten_cons, List.map_append,
      simpleBitPack_append bits _ _ (by rw [List.length_map, h g (List.mem_cons_self ..)]; exact h8),
      ih (fun g' hg' => h g' (List.mem_cons_of_mem _ hg'))]

/-- a codec that packs groups of n coefficients as SimpleBitPack of `tr` of each packs a whole polynomial so -/
theorem poly_spec_M (n bits : Nat) (hn : 0 < n) (h8 : (n * bits) % 8 = 0) (tr : Int → Nat) (P : Int → Prop)
    (pack : List Int → Chk (List Nat))
    (hg : ∀ g, g.length = n → (∀ x ∈ g, P x) → pack g = .ok (simpleBitPack (g.map tr) bits))
    (a : List Int) (hl : a.length % n = 0) (ha : ∀ x ∈ a, P x) :
    (mapL pack (chunks n a) >>= fun g => .ok g.flatten) = .ok (simpleBitPack (a.map tr) bits) := by
  have hm := chunks_mem n hn a.length a rfl hl
  rw [DV.mapL_ok pack (fun g => simpleBitPack (g.map tr) bits) (chunks n a)
    (fun g hg' => hg g (hm g hg').1 (fun x hx => ha x ((hm g hg').2 x hx))), ok_bind,
    groups_spec n bits tr h8 _ (fun g hg' => (hm g hg').1), chunks_flatten n hn a.length a rfl]

theorem poly_spec (n bits : Nat) (hn : 0 < n) (h8 : (n * bits) % 8 = 0) (tr : Int → Nat) (P : Int → Prop)
    (pack : List Int → List Nat)
    (hg : ∀ g, g.length = n → (∀ x ∈ g, P x) → pack g = simpleBitPack (g.map tr) bits)
    (a : List Int) (hl : a.length % n = 0) (ha : ∀ x ∈ a, P x) :
    (chunks n a).flatMap pack = simpleBitPack (a.map tr) bits := by
  have hm := chunks_mem n hn a.length a rfl hl
  have e : (chunks n a).flatMap pack = ((chunks n a).map (fun g => simpleBitPack (g.map tr) bits)).flatten := by
    rw [List.flatMap_def]
    congr 1
    apply List.map_congr_left
    intro g hg'
    exact hg g (hm g hg').1 (fun x hx => ha x ((hm g hg').2 x hx))
  rw [e, groups_spec n bits tr h8 _ (fun g hg' => (hm g hg').1), chunks_flatten n hn a.length a rfl]

/-! ### the five coefficient encoders of FIPS 204 §7.1 / Dilithium 3.1 §5.2, whole polynomials -/

/-- t1: SimpleBitPack(t1, 2^10 − 1) -/
theorem t1_pack_spec (a : List Int) (hl : a.length = 256) (ha : ∀ x ∈ a, 0 ≤ x ∧ x < 1024) :
    t1_pack a = simpleBitPack (a.map Int.toNat) 10 := by
  unfold t1_pack
  exact poly_spec 4 10 (by decide) (by decide) Int.toNat (fun x => 0 ≤ x ∧ x < 1024) t1_pack_group
    (fun g hg hP => by
      obtain ⟨c0, c1, c2, c3, rfl⟩ := list_len4 g hg
      exact t1_group_spec c0 c1 c2 c3 (hP c0 (by simp)) (hP c1 (by simp)) (hP c2 (by simp)) (hP c3 (by simp)))
    a (by rw [hl]) ha

/-- t0: BitPack(t0, 2^12 − 1, 2^12) -/
theorem t0_pack_spec (a : List Int) (hl : a.length = 256) (ha : ∀ x ∈ a, -4096 < x ∧ x ≤ 4096) :
    t0_pack a = .ok (bitPack a 4096 13) := by
  unfold t0_pack bitPack
  have := poly_spec_M 8 13 (by decide) (by decide) (fun x => (4096 - x).toNat) (fun x => -4096 < x ∧ x ≤ 4096) t0_pack_group
    (fun g hg hP => by
      obtain ⟨c0, c1, c2, c3, c4, c5, c6, c7, rfl⟩ := list_len8 g hg
      exact t0_group_spec c0 c1 c2 c3 c4 c5 c6 c7 (hP c0 (by simp)) (hP c1 (by simp)) (hP c2 (by simp)) (hP c3 (by simp))
        (hP c4 (by simp)) (hP c5 (by simp)) (hP c6 (by simp)) (hP c7 (by simp)))
    a (by rw [hl]) ha
  exact this

/-- s1, s2 with η = 2: BitPack(s, 2, 2), 3 bits -/
theorem eta2_pack_spec (lv : Lvl) (hlv : lv = .l2 ∨ lv = .l5) (a : List Int) (hl : a.length = 256) (ha : ∀ x ∈ a, -2 ≤ x ∧ x ≤ 2) :
    eta_pack lv a = .ok (bitPack a 2 3) := by
  have := poly_spec_M 8 3 (by decide) (by decide) (fun x => (2 - x).toNat) (fun x => -2 ≤ x ∧ x ≤ 2) eta_pack_group2
    (fun g hg hP => by
      obtain ⟨c0, c1, c2, c3, c4, c5, c6, c7, rfl⟩ := list_len8 g hg
      exact eta2_group_spec c0 c1 c2 c3 c4 c5 c6 c7 (hP c0 (by simp)) (hP c1 (by simp)) (hP c2 (by simp)) (hP c3 (by simp))
        (hP c4 (by simp)) (hP c5 (by simp)) (hP c6 (by simp)) (hP c7 (by simp)))
    a (by rw [hl]) ha
  rcases hlv with rfl | rfl <;> exact this

/-- s1, s2 with η = 4: BitPack(s, 4, 4), 4 bits -/
theorem eta4_pack_spec (a : List Int) (hl : a.length = 256) (ha : ∀ x ∈ a, -4 ≤ x ∧ x ≤ 4) :
    eta_pack .l3 a = .ok (bitPack a 4 4) := by
  exact poly_spec_M 2 4 (by decide) (by decide) (fun x => (4 - x).toNat) (fun x => -4 ≤ x ∧ x ≤ 4) eta_pack_group4
    (fun g hg hP => by
      obtain ⟨c0, c1, rfl⟩ := list_len2 g hg
      exact eta4_group_spec c0 c1 (hP c0 (by simp)) (hP c1 (by simp)))
    a (by rw [hl]) ha

/-- z with γ1 = 2^17: BitPack(z, γ1 − 1, γ1), 18 bits -/
theorem z17_pack_spec (a : List Int) (hl : a.length = 256) (ha : ∀ x ∈ a, -131072 < x ∧ x ≤ 131072) :
    z_pack .l2 a = .ok (bitPack a 131072 18) := by
  exact poly_spec_M 4 18 (by decide) (by decide) (fun x => (131072 - x).toNat) (fun x => -131072 < x ∧ x ≤ 131072) (z_pack_group17 (gamma1Of .l2))
    (fun g hg hP => by
      obtain ⟨c0, c1, c2, c3, rfl⟩ := list_len4 g hg
      exact z17_group_spec c0 c1 c2 c3 (hP c0 (by simp)) (hP c1 (by simp)) (hP c2 (by simp)) (hP c3 (by simp)))
    a (by rw [hl]) ha

/-- z with γ1 = 2^19: BitPack(z, γ1 − 1, γ1), 20 bits -/
theorem z19_pack_spec (lv : Lvl) (hlv : lv = .l3 ∨ lv = .l5) (a : List Int) (hl : a.length = 256) (ha : ∀ x ∈ a, -524288 < x ∧ x ≤ 524288) :
    z_pack lv a = .ok (bitPack a 524288 20) := by
  have := fun (h : gamma1Of lv = 524288) => poly_spec_M 2 20 (by decide) (by decide) (fun x => (524288 - x).toNat) (fun x => -524288 < x ∧ x ≤ 524288) (z_pack_group19 (gamma1Of lv))
    (fun g hg hP => by
      obtain ⟨c0, c1, rfl⟩ := list_len2 g hg
      rw [h]
      exact z19_group_spec c0 c1 (hP c0 (by simp)) (hP c1 (by simp)))
    a (by rw [hl]) ha
  rcases hlv with rfl | rfl <;> exact this (by decide)

/-- w1 with γ2 = (q−1)/88: SimpleBitPack(w1, 43), 6 bits -/
theorem w1_pack6_spec (a : List Int) (hl : a.length = 256) (ha : ∀ x ∈ a, 0 ≤ x ∧ x < 64) :
    w1_pack .l2 a = simpleBitPack (a.map Int.toNat) 6 := by
  exact poly_spec 4 6 (by decide) (by decide) Int.toNat (fun x => 0 ≤ x ∧ x < 64) w1_pack_group6
    (fun g hg hP => by
      obtain ⟨c0, c1, c2, c3, rfl⟩ := list_len4 g hg
      exact w1_group6_spec c0 c1 c2 c3 (hP c0 (by simp)) (hP c1 (by simp)) (hP c2 (by simp)) (hP c3 (by simp)))
    a (by rw [hl]) ha

/-- w1 with γ2 = (q−1)/32: SimpleBitPack(w1, 15), 4 bits -/
theorem w1_pack4_spec (lv : Lvl) (hlv : lv = .l3 ∨ lv = .l5) (a : List Int) (hl : a.length = 256) (ha : ∀ x ∈ a, 0 ≤ x ∧ x < 16) :
    w1_pack lv a = simpleBitPack (a.map Int.toNat) 4 := by
  have := poly_spec 2 4 (by decide) (by decide) Int.toNat (fun x => 0 ≤ x ∧ x < 16) w1_pack_group4
    (fun g hg hP => by
      obtain ⟨c0, c1, rfl⟩ := list_len2 g hg
      exact w1_group4_spec c0 c1 (hP c0 (by simp)) (hP c1 (by simp)))
    a (by rw [hl]) ha
  rcases hlv with rfl | rfl <;> exact this

/-- the length of SimpleBitPack: 32·bits bytes for 256 coefficients -/
theorem bitsToBytes_length : ∀ (k : Nat) (b : List Nat), b.length = 8 * k → (bitsToBytes b).length = k := by
  intro k
  induction k with
  | zero => intro b h; have : b = [] := List.eq_nil_of_length_eq_zero (by omega); subst this; rfl
  | succ k ih =>
    intro b h
    match b, h with
    | b0 :: b1 :: b2 :: b3 :: b4 :: b5 :: b6 :: b7 :: rest, h =>
      simp only [bitsToBytes, List.length_cons]
      rw [ih rest (by simp only [List.length_cons] at h; omega)]

theorem simpleBitPack_length (w : List Nat) (bits : Nat) (h : w.length = 256) : (simpleBitPack w bits).length = 32 * bits := by
  unfold simpleBitPack
  exact bitsToBytes_length (32 * bits) _ (by rw [flatMap_bits_length, h]; omega)

end DV.BitSpec
