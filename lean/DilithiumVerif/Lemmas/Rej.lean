import DilithiumVerif.Impl.PolyLvl
import DilithiumVerif.Lemmas.Basic
/-
  Lemmas.Rej — the byte-level rejection routine `rej_uniform` as a function of the byte list:
  it returns exactly the accepted 23-bit candidates, in order, until `alen` values are found or fewer than three
  bytes remain — for ANY buffer.
-/
namespace DV

/-- the 23-bit candidate read from three bytes -/
def cand23 (b0 b1 b2 : Nat) : Nat := (b0 ||| (b1 <<< 8) ||| (b2 <<< 16)) &&& 0x7FFFFF

/-- specification: walk the byte list three at a time -/
def rejSpec (alen : Nat) : List Nat → List Int → List Int
  | b0 :: b1 :: b2 :: rest, acc =>
    if acc.length < alen then
      (if ((cand23 b0 b1 b2 : Nat) : Int) < Q then rejSpec alen rest (acc ++ [((cand23 b0 b1 b2 : Nat) : Int)]) else rejSpec alen rest acc)
    else acc
  | _, acc => acc

theorem getC_ok {α} (l : List α) (i : Nat) (d : α) (h : i < l.length) : getC l i = .ok (l.getD i d) := by
  unfold getC; rw [List.getD_eq_getElem?_getD, List.getElem?_eq_getElem h]; rfl

theorem drop_cons_getD {α} (l : List α) (i : Nat) (d : α) (h : i < l.length) : l.drop i = l.getD i d :: l.drop (i + 1) := by
  rw [List.drop_eq_getElem_cons h, List.getD_eq_getElem?_getD, List.getElem?_eq_getElem h]; rfl

theorem drop_three {α} (l : List α) (i : Nat) (d : α) (h : i + 3 ≤ l.length) :
    l.drop i = l.getD i d :: l.getD (i + 1) d :: l.getD (i + 2) d :: l.drop (i + 3) := by
  rw [drop_cons_getD l i d (by omega), drop_cons_getD l (i + 1) d (by omega), drop_cons_getD l (i + 2) d (by omega)]

theorem getD_take {α} (l : List α) (n i : Nat) (d : α) (h : i < n) : (l.take n).getD i d = l.getD i d := by
  rw [List.getD_eq_getElem?_getD, List.getD_eq_getElem?_getD, List.getElem?_take_of_lt h]

theorem rejSpec_short (alen : Nat) (l : List Nat) (acc : List Int) (h : l.length < 3) : rejSpec alen l acc = acc := by
  cases l with
  | nil => simp [rejSpec]
  | cons a l1 =>
    cases l1 with
    | nil => simp [rejSpec]
    | cons b l2 =>
      cases l2 with
      | nil => simp [rejSpec]
      | cons c l3 => simp only [List.length_cons] at h; omega

theorem rej_uniform_loop_eq (alen acap : Nat) (buf : List Nat) (buflen : Nat) (hb : buflen ≤ buf.length) (hc : alen ≤ acap) :
    ∀ (fuel pos : Nat) (acc : List Int), (buflen - pos) / 3 + 1 ≤ fuel →
      rej_uniform_loop alen acap buf buflen fuel pos acc = .ok (rejSpec alen ((buf.take buflen).drop pos) acc) := by
  intro fuel
  induction fuel with
  | zero => intro pos acc h; omega
  | succ n ih =>
    intro pos acc hf
    unfold rej_uniform_loop
    by_cases hcond : acc.length < alen ∧ pos + 3 ≤ buflen
    · obtain ⟨ha, hp⟩ := hcond
      simp only [ha, hp, and_self, if_true]
      have hlt : (buf.take buflen).length = buflen := by simp [List.length_take, Nat.min_eq_left hb]
      rw [getC_ok buf pos 0 (by omega), ok_bind, getC_ok buf (pos + 1) 0 (by omega), ok_bind, getC_ok buf (pos + 2) 0 (by omega), ok_bind]
      rw [drop_three (buf.take buflen) pos 0 (by omega)]
      rw [getD_take buf buflen pos 0 (by omega), getD_take buf buflen (pos + 1) 0 (by omega), getD_take buf buflen (pos + 2) 0 (by omega)]
      simp only [rejSpec, ha, if_true, cand23]
      by_cases hq : (((buf.getD pos 0 ||| (buf.getD (pos + 1) 0 <<< 8) ||| (buf.getD (pos + 2) 0 <<< 16)) &&& 0x7FFFFF : Nat) : Int) < Q
      · simp only [hq, if_true]
        rw [if_pos (by omega)]
        exact ih (pos + 3) _ (by omega)
      · simp only [hq, if_false]
        exact ih (pos + 3) _ (by omega)
    · simp only [hcond, if_false]
      by_cases ha : acc.length < alen
      · have hp : ¬ pos + 3 ≤ buflen := fun h => hcond ⟨ha, h⟩
        rw [rejSpec_short]
        simp [List.length_drop, List.length_take, Nat.min_eq_left hb]; omega
      · -- output already full
        match hl : (buf.take buflen).drop pos with
        | b0 :: b1 :: b2 :: rest => simp only [rejSpec, ha, if_false]
        | [] => rfl
        | [_] => rfl
        | [_, _] => rfl

/-- `rej_uniform` on any buffer (buflen within the buffer, capacity sufficient) = the specification walk -/
theorem rej_uniform_eq (alen acap : Nat) (buf : List Nat) (buflen : Nat) (hb : buflen ≤ buf.length) (hc : alen ≤ acap) :
    rej_uniform alen acap buf buflen = .ok (rejSpec alen (buf.take buflen) []) := by
  unfold rej_uniform
  rw [rej_uniform_loop_eq alen acap buf buflen hb hc _ 0 [] (by omega), List.drop_zero]

/-- every value written is a standard representative in [0, q), at most `alen` values are written -/
theorem rejSpec_range (alen : Nat) (l : List Nat) (acc : List Int) : (∀ x ∈ acc, 0 ≤ x ∧ x < Q) → acc.length ≤ alen →
    (∀ x ∈ rejSpec alen l acc, 0 ≤ x ∧ x < Q) ∧ (rejSpec alen l acc).length ≤ alen := by
  fun_induction rejSpec alen l acc with
  | case1 b0 b1 b2 rest acc hlt hq ih =>
    intro hacc hlen
    apply ih
    · intro x hx
      rcases List.mem_append.mp hx with h | h
      · exact hacc x h
      · simp only [List.mem_singleton] at h; subst h; exact ⟨Int.natCast_nonneg _, hq⟩
    · simp only [List.length_append, List.length_singleton]; omega
  | case2 b0 b1 b2 rest acc hlt hq ih =>
    intro hacc hlen
    exact ih hacc hlen
  | case3 b0 b1 b2 rest acc hlt =>
    intro hacc hlen
    exact ⟨hacc, hlen⟩
  | case4 l acc hne =>
    intro hacc hlen
    exact ⟨hacc, hlen⟩

end DV
