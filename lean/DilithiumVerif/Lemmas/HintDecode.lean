import DilithiumVerif.Lemmas.HintCodec
import DilithiumVerif.Lemmas.ChallengeWeight
/-
  Lemmas.HintDecode — the converse of `HintCodec.unpack_hints`: whenever the hint decoder of `unpack_sig` accepts a
  byte string, that string is exactly HintBitPack of the hint vector it returns (strict decoding: FIPS 204 Alg. 21
  accepts only images of Alg. 20).
-/
namespace DV.HintDecode
open DV DV.HintCodec DV.Ranges

theorem mono_of_adjacent (f : Nat → Nat) (lo hi : Nat) (h : ∀ t, lo < t → t < hi → f (t - 1) < f t) :
    ∀ b a, lo ≤ a → a < b → b < hi → f a < f b := by
  intro b
  induction b with
  | zero => intro a _ h1 _; omega
  | succ b ih =>
    intro a hlo hab hb
    have step := h (b + 1) (by omega) hb
    simp only [Nat.add_sub_cancel] at step
    by_cases e : a = b
    · subst e; exact step
    · exact Nat.lt_trans (ih a hlo (by omega) (by omega)) step

/-- a strictly increasing list of numbers below n is what filtering `range n` by membership gives -/
theorem filter_range_sorted : ∀ (n : Nat) (L : List Nat), List.Pairwise (· < ·) L → (∀ x ∈ L, x < n) →
    (List.range n).filter (fun j => decide (j ∈ L)) = L := by
  intro n
  induction n with
  | zero =>
    intro L _ h
    cases L with
    | nil => rfl
    | cons x xs => have := h x (List.mem_cons_self ..); omega
  | succ n ih =>
    intro L hp hlt
    rw [List.range_succ, List.filter_append]
    rcases List.eq_nil_or_concat L with rfl | ⟨L', b, hL⟩
    · simp
    · rw [List.concat_eq_append] at hL
      subst hL
      have hp' := List.pairwise_append.mp hp
      have hb : b < n + 1 := hlt b (by simp)
      by_cases e : b = n
      · subst e
        have hL' : ∀ x ∈ L', x < b := fun x hx => hp'.2.2 x hx b (by simp)
        have f1 : (List.range b).filter (fun j => decide (j ∈ L' ++ [b])) = (List.range b).filter (fun j => decide (j ∈ L')) := by
          apply List.filter_congr
          intro j hj
          have : j < b := List.mem_range.mp hj
          simp only [List.mem_append, List.mem_singleton]
          have : ¬ j = b := by omega
          simp [this]
        rw [f1, ih L' hp'.1 hL']
        simp
      · have hall : ∀ x ∈ L' ++ [b], x < n := by
          intro x hx
          rcases List.mem_append.mp hx with hx | hx
          · have := hp'.2.2 x hx b (by simp); omega
          · simp at hx; omega
        rw [ih (L' ++ [b]) hp hall]
        have h1 : ¬ n ∈ L' := fun hm => by have := hall n (List.mem_append_left _ hm); omega
        have h2 : ¬ n = b := fun hm => e hm.symm
        simp [h1, h2]

theorem getC_val' {α} (l : List α) (i : Nat) (x d : α) (h : getC l i = .ok x) : i < l.length ∧ x = l.getD i d := getC_val l i x d h

/-- what an accepting run of the inner loop establishes -/
theorem inner_conv (hs : List Nat) (k cnt : Nat) : ∀ (fuel j : Nat) (acc r : List Int),
    unpack_hints_go.inner hs k cnt fuel j acc = .ok (some r) → cnt - j < fuel → k ≤ j → j ≤ cnt → acc.length = 256 →
    (∀ t, j ≤ t → t < cnt → t < hs.length ∧ hs.getD t 0 < 256 ∧ (t > k → hs.getD (t - 1) 0 < hs.getD t 0)) ∧
      r = ((hs.drop j).take (cnt - j)).foldl set1 acc := by
  intro fuel
  induction fuel with
  | zero => intro j acc r _ h; omega
  | succ n ih =>
    intro j acc r h hf hkj hjc hacc
    unfold unpack_hints_go.inner at h
    by_cases hlt : j < cnt
    · rw [if_pos hlt] at h
      obtain ⟨b, hb, h⟩ := bind_eq_ok.mp h
      obtain ⟨hjl, hbv⟩ := getC_val' hs j b 0 hb
      obtain ⟨ok, hok, h⟩ := bind_eq_ok.mp h
      by_cases hokt : ok = true
      · subst hokt
        simp only [Bool.not_true, Bool.false_eq_true, if_false, not_true_eq_false] at h
        obtain ⟨acc', hsc, h⟩ := bind_eq_ok.mp h
        obtain ⟨hb256, hacc'⟩ := setC_val acc b 1 acc' hsc
        have hprev : j > k → hs.getD (j - 1) 0 < hs.getD j 0 := by
          intro hgt
          rw [if_pos hgt] at hok
          obtain ⟨pb, hpb, hok⟩ := bind_eq_ok.mp hok
          obtain ⟨_, hpbv⟩ := getC_val' hs (j - 1) pb 0 hpb
          injection hok with hok
          simp only [decide_eq_true_eq] at hok
          rw [← hpbv, ← hbv]; omega
        obtain ⟨ih1, ih2⟩ := ih (j + 1) acc' r h (by omega) (by omega) (by omega) (by rw [hacc', List.length_set]; exact hacc)
        refine ⟨fun t ht1 ht2 => ?_, ?_⟩
        · by_cases e : t = j
          · subst e; exact ⟨hjl, by rw [← hbv, ← hacc]; exact hb256, hprev⟩
          · exact ih1 t (by omega) ht2
        · rw [ih2, hacc']
          have e1 : cnt - j = (cnt - (j + 1)) + 1 := by omega
          rw [e1, List.drop_eq_getElem_cons hjl, List.take_succ_cons, List.foldl_cons]
          congr 2
          rw [hbv, List.getD_eq_getElem?_getD, List.getElem?_eq_getElem hjl]; rfl
      · have : ok = false := by cases ok <;> simp_all
        subst this
        simp at h
    · rw [if_neg hlt] at h
      injection h with h; injection h with h
      have : cnt - j = 0 := by omega
      refine ⟨fun t _ _ => by omega, ?_⟩
      rw [this, List.take_zero]; exact h.symm

/-- setting a strictly increasing run of positions in the zero polynomial gives a 0/1 polynomial whose non-zero
    positions are exactly that run -/
theorem run_poly (L : List Nat) (hp : List.Pairwise (· < ·) L) (hlt : ∀ x ∈ L, x < 256) :
    Bits (L.foldl set1 (List.replicate 256 0)) ∧ nzOf (L.foldl set1 (List.replicate 256 0)) = L := by
  have hlen : (L.foldl set1 (List.replicate 256 0)).length = 256 := by rw [foldl_set1_length, List.length_replicate]
  have hget : ∀ j, (L.foldl set1 (List.replicate 256 0)).getD j 0 = if j ∈ L then 1 else 0 := by
    intro j
    rw [foldl_set1_getD L _ j (fun b hb => by rw [List.length_replicate]; exact hlt b hb)]
    split
    · rfl
    · rw [List.getD_eq_getElem?_getD, List.getElem?_replicate]; split <;> rfl
  refine ⟨⟨hlen, fun x hx => ?_⟩, ?_⟩
  · obtain ⟨j, hj, rfl⟩ := List.mem_iff_getElem.mp hx
    have := hget j
    rw [List.getD_eq_getElem?_getD, List.getElem?_eq_getElem hj, Option.getD_some] at this
    rw [this]; split
    · exact Or.inr rfl
    · exact Or.inl rfl
  · unfold nzOf
    rw [hlen]
    have : (fun j => decide ((L.foldl set1 (List.replicate 256 0)).getD j 0 ≠ 0)) = (fun j => decide (j ∈ L)) := by
      funext j
      rw [hget j]
      by_cases hj : j ∈ L <;> simp [hj]
    rw [this]
    exact filter_range_sorted 256 L hp hlt

theorem take_drop_getD (hs : List Nat) (k m t : Nat) (ht : t < m) (hl : k + m ≤ hs.length) :
    ((hs.drop k).take m).getD t 0 = hs.getD (k + t) 0 := by
  rw [List.getD_eq_getElem?_getD, List.getD_eq_getElem?_getD, List.getElem?_take_of_lt ht, List.getElem?_drop]

/-- **strict hint decoding**: an accepted hint section is HintBitPack of the returned vector -/
theorem unpack_conv (omega : Nat) (ho : omega ≤ 255) (hs : List Nat) : ∀ (n i k : Nat) (acc H : List Poly),
    unpack_hints_go omega hs n i k acc = .ok (some H) → k ≤ omega → hs.length = omega + i + n →
    ∃ new, H = acc.reverse ++ new ∧ new.length = n ∧ (∀ hp ∈ new, Bits hp) ∧ k + (idxOf new).length ≤ omega ∧
      (hs.drop k).take (omega - k) = idxOf new ++ List.replicate (omega - k - (idxOf new).length) 0 ∧
      hs.drop (omega + i) = cumsOf k new := by
  intro n
  induction n with
  | zero =>
    intro i k acc H h hk hl
    unfold unpack_hints_go at h
    split at h
    · rename_i hall
      injection h with h; injection h with h
      have hmem : ∀ hp ∈ ([] : List Poly), Bits hp := fun _ hx => by cases hx
      have hw0 : k + (idxOf []).length ≤ omega := by simp only [idxOf, List.length_nil, Nat.add_zero]; exact hk
      refine ⟨[], by rw [← h, List.append_nil], rfl, hmem, hw0, ?_, ?_⟩
      · simp only [idxOf, List.nil_append, List.length_nil, Nat.sub_zero]
        apply List.ext_getElem (by simp only [List.length_take, List.length_drop, List.length_replicate]; omega)
        intro t h1 h2
        rw [List.length_replicate] at h2
        rw [List.getElem_replicate]
        have hz := List.all_eq_true.mp hall (k + t) (by
          rw [List.mem_iff_getElem]
          refine ⟨t, by rw [List.length_drop, List.length_range]; exact h2, ?_⟩
          rw [List.getElem_drop, List.getElem_range])
        simp only [decide_eq_true_eq] at hz
        have := take_drop_getD hs k (omega - k) t h2 (by omega)
        rw [List.getD_eq_getElem?_getD, List.getElem?_eq_getElem h1, Option.getD_some] at this
        rw [this, hz]
      · rw [List.drop_of_length_le (by omega)]; rfl
    · cases h
  | succ n ih =>
    intro i k acc H h hk hl
    unfold unpack_hints_go at h
    obtain ⟨cnt, hcnt, h⟩ := bind_eq_ok.mp h
    obtain ⟨hil, hcv⟩ := getC_val' hs (omega + i) cnt 0 hcnt
    have hk256 : k % 256 = k := Nat.mod_eq_of_lt (by omega)
    have ho256 : omega % 256 = omega := Nat.mod_eq_of_lt (by omega)
    rw [hk256, ho256] at h
    split at h
    · cases h
    rename_i hrange
    have hkc : k ≤ cnt := by omega
    have hco : cnt ≤ omega := by omega
    obtain ⟨r, hin, h⟩ := bind_eq_ok.mp h
    cases r with
    | none => simp only at h; cases h
    | some hp =>
      simp only at h
      have hN : List.replicate N (0 : Int) = List.replicate 256 0 := rfl
      rw [hN] at hin
      obtain ⟨hfacts, hpe⟩ := inner_conv hs k cnt (cnt - k + 1) k (List.replicate 256 0) hp hin (by omega) (Nat.le_refl _) hkc
        (List.length_replicate ..)
      -- the run of indices
      have hrunl : ((hs.drop k).take (cnt - k)).length = cnt - k := by
        rw [List.length_take, List.length_drop]; omega
      have hrget : ∀ t, t < cnt - k → ((hs.drop k).take (cnt - k)).getD t 0 = hs.getD (k + t) 0 :=
        fun t ht => take_drop_getD hs k (cnt - k) t ht (by omega)
      have hrlt : ∀ x ∈ (hs.drop k).take (cnt - k), x < 256 := by
        intro x hx
        obtain ⟨t, ht, rfl⟩ := List.mem_iff_getElem.mp hx
        rw [hrunl] at ht
        have := hrget t ht
        rw [List.getD_eq_getElem?_getD, List.getElem?_eq_getElem (by rw [hrunl]; exact ht), Option.getD_some] at this
        rw [this]
        exact (hfacts (k + t) (by omega) (by omega)).2.1
      have hrpw : List.Pairwise (· < ·) ((hs.drop k).take (cnt - k)) := by
        rw [List.pairwise_iff_getElem]
        intro a b ha hb hab
        rw [hrunl] at ha hb
        have e1 := hrget a ha
        have e2 := hrget b hb
        rw [List.getD_eq_getElem?_getD, List.getElem?_eq_getElem (by rw [hrunl]; exact ha), Option.getD_some] at e1
        rw [List.getD_eq_getElem?_getD, List.getElem?_eq_getElem (by rw [hrunl]; exact hb), Option.getD_some] at e2
        rw [e1, e2]
        exact mono_of_adjacent (fun t => hs.getD t 0) k cnt (fun t h1 h2 => (hfacts t (by omega) h2).2.2 h1) (k + b) (k + a)
          (by omega) (by omega) (by omega)
      obtain ⟨hbits, hnz⟩ := run_poly _ hrpw hrlt
      rw [← hpe] at hbits hnz
      obtain ⟨new', hH, hnl, hnb, hnw, hidx, hcum⟩ := ih (i + 1) cnt (hp :: acc) H h hco (by omega)
      have hnzl : (nzOf hp).length = cnt - k := by rw [hnz, hrunl]
      refine ⟨hp :: new', by rw [hH, List.reverse_cons, List.append_assoc]; rfl, by rw [List.length_cons, hnl],
        fun x hx => by
          rcases List.mem_cons.mp hx with rfl | hx
          · exact hbits
          · exact hnb x hx, by rw [idxOf_length_cons, hnzl]; omega, ?_, ?_⟩
      · -- index area
        have split1 : (hs.drop k).take (omega - k) = (hs.drop k).take (cnt - k) ++ (hs.drop cnt).take (omega - cnt) := by
          have e : omega - k = (cnt - k) + (omega - cnt) := by omega
          rw [e, List.take_add, List.drop_drop]
          congr 3
          omega
        rw [split1, hidx, ← hnz]
        simp only [idxOf, List.length_append, List.append_assoc]
        congr 3
        rw [hnzl]; omega
      · -- counters
        have : hs.drop (omega + i) = cnt :: hs.drop (omega + i + 1) := by
          rw [List.drop_eq_getElem_cons hil]
          congr 1
          rw [hcv, List.getD_eq_getElem?_getD, List.getElem?_eq_getElem hil]; rfl
        rw [this, Nat.add_assoc, hcum]
        simp only [cumsOf, hnzl]
        have e : k + (cnt - k) = cnt := by omega
        rw [e]

/-- top level: an accepted (ω + k)-byte hint section is `idxOf h ‖ 0… ‖ cumsOf 0 h` -/
theorem accepted_is_canonical (omega : Nat) (ho : omega ≤ 255) (hs : List Nat) (n : Nat) (H : List Poly)
    (h : unpack_hints_go omega hs n 0 0 [] = .ok (some H)) (hl : hs.length = omega + n) :
    H.length = n ∧ (∀ hp ∈ H, Bits hp) ∧ (idxOf H).length ≤ omega ∧
      hs = idxOf H ++ List.replicate (omega - (idxOf H).length) 0 ++ cumsOf 0 H := by
  obtain ⟨new, hH, hnl, hnb, hw, hidx, hcum⟩ := unpack_conv omega ho hs n 0 0 [] H h (Nat.zero_le _) (by omega)
  simp only [List.reverse_nil, List.nil_append] at hH
  subst hH
  simp only [Nat.zero_add, Nat.sub_zero, List.drop_zero, Nat.add_zero] at hw hidx hcum
  refine ⟨hnl, hnb, hw, ?_⟩
  rw [← hidx, ← hcum, List.take_append_drop]

end DV.HintDecode
