import DilithiumVerif.Lemmas.Complete
/-
  Lemmas.IterSem — what one signing iteration computes, for EVERY outcome (the four rejections and acceptance): the
  values the tests are applied to, their relation to the ring quantities, and which test decided.
-/
namespace DV.Complete
open DV DV.NttSem DV.PolySem DV.VecSem DV.RoundSem DV.NttMul DV.NttZ

/-- some coefficient of the vector has magnitude ≥ B -/
def Big (v : PolyVec) (B : Int) : Prop := ∃ a ∈ v, ∃ x ∈ a, B ≤ C18.iabs x

theorem chknorm_iff (v : PolyVec) (b C : Int) (hC : C ≤ 1073741824) (hv : ∀ a ∈ v, PolyOK C a) (hb : b ≤ (Q - 1) / 8) :
    ∃ r, vec_chknorm v b = .ok r ∧ (0 < r → Big v b) ∧ (¬ 0 < r → ∀ a ∈ v, PolyOK b a) := by
  obtain ⟨r, hr, hpass⟩ := chknorm_pass v b C hC hv hb
  refine ⟨r, hr, ?_, hpass⟩
  have hx := C18.vec_chknorm_exact v b (fun a ha x hx => by have := (hv a ha).2 x hx; omega) hb
  rw [hr] at hx; injection hx with hx
  intro h0
  by_cases hex : ∃ p ∈ v, ∃ x ∈ p, b ≤ C18.iabs x
  · exact hex
  · rw [if_neg hex] at hx; omega

/-- the part of an iteration before the tests -/
structure IterCore (p : Params) (mat : List PolyVec) (s1 : PolyVec) (mu rp : List Nat) (nonce : Int)
    (y w w1 w0 : PolyVec) (ct : List Nat) (cp : Poly) (z : PolyVec) : Prop where
  mask : l_uniform_gamma1 p rp nonce = .ok y
  yl : y.length = p.l
  wl : w.length = p.k
  wstd : ∀ a ∈ w, Std a
  wy : ∀ r, r < p.k → ∀ i, i < 256 → (El (w.getD r []) i : K) = rowDot (mat.getD r []) y p.l i
  dec : All3 (fun a hi lo => a.length = 256 ∧ All3 (DecC p.lvl) a hi lo) w w1 w0
  hdec : k_decompose p.lvl w = .ok (w1, w0)
  yb : ∀ a ∈ y, PolyOK ((p.gamma1 : Int) + 1) a
  hct : compute_ctilde p mu (k_pack_w1 p.lvl w1) = .ok ct
  hcp : poly_challenge p FUEL ct = .ok cp
  zl : z.length = p.l
  zb : ∀ a ∈ z, PolyOK 6283010 a
  zy : ∀ j, j < p.l → ∀ i, i < 256 → (El (z.getD j []) i : K) = El cp i * El (s1.getD j []) i + El (y.getD j []) i

/-- w0 − c·s2 as computed -/
structure R0Facts (p : Params) (s2 : PolyVec) (cp : Poly) (w0 cs2 r0 : PolyVec) : Prop where
  cl : cs2.length = p.k
  cb : ∀ a ∈ cs2, PolyOK Q a
  cE : ∀ r, r < p.k → ∀ i, i < 256 → (El (cs2.getD r []) i : K) = El cp i * El (s2.getD r []) i
  rl : r0.length = p.k
  rb : ∀ a ∈ r0, PolyOK 6283010 a
  cong : ∀ r, r < p.k → ∀ n, n < 256 → ((r0.getD r []).getD n 0 - ((w0.getD r []).getD n 0 - (cs2.getD r []).getD n 0)) % 8380417 = 0

structure Ct0Facts (p : Params) (t0 : PolyVec) (cp : Poly) (ct0 : PolyVec) : Prop where
  tl : ct0.length = p.k
  tb : ∀ a ∈ ct0, PolyOK 6283010 a
  tE : ∀ r, r < p.k → ∀ i, i < 256 → (El (ct0.getD r []) i : K) = El cp i * El (t0.getD r []) i

structure A0Facts (p : Params) (r0 ct0 a0 w1 h : PolyVec) (n : Int) : Prop where
  al : a0.length = p.k
  add : All3 (fun a b x => PolyOK ((p.gamma2 : Int) - p.beta + p.gamma2) x ∧
      (castL x : List K) = List.zipWith (fun u v => u + v) (castL a) (castL b)) r0 ct0 a0
  hint : k_make_hint p.lvl a0 w1 = .ok (h, n)

/-- which test decided, with the facts available at that point -/
inductive IterOutcome (p : Params) (s2 t0 : PolyVec) (cp : Poly) (ct : List Nat) (w1 w0 z : PolyVec) : IterResult → Prop
  | rejZ : Big z ((p.gamma1 : Int) - p.beta) → IterOutcome p s2 t0 cp ct w1 w0 z .rejZ
  | rejR0 (cs2 r0 : PolyVec) : (∀ a ∈ z, PolyOK ((p.gamma1 : Int) - p.beta) a) → R0Facts p s2 cp w0 cs2 r0 →
      Big r0 ((p.gamma2 : Int) - p.beta) → IterOutcome p s2 t0 cp ct w1 w0 z .rejR0
  | rejCt0 (cs2 r0 ct0 : PolyVec) : (∀ a ∈ z, PolyOK ((p.gamma1 : Int) - p.beta) a) → R0Facts p s2 cp w0 cs2 r0 →
      (∀ a ∈ r0, PolyOK ((p.gamma2 : Int) - p.beta) a) → Ct0Facts p t0 cp ct0 → Big ct0 (p.gamma2 : Int) →
      IterOutcome p s2 t0 cp ct w1 w0 z .rejCt0
  | rejHint (cs2 r0 ct0 a0 h : PolyVec) (n : Int) : (∀ a ∈ z, PolyOK ((p.gamma1 : Int) - p.beta) a) → R0Facts p s2 cp w0 cs2 r0 →
      (∀ a ∈ r0, PolyOK ((p.gamma2 : Int) - p.beta) a) → Ct0Facts p t0 cp ct0 → (∀ a ∈ ct0, PolyOK (p.gamma2 : Int) a) →
      A0Facts p r0 ct0 a0 w1 h n → (p.omega : Int) < n → IterOutcome p s2 t0 cp ct w1 w0 z .rejHint
  | accept (cs2 r0 ct0 a0 h : PolyVec) (n : Int) (sig : List Nat) : (∀ a ∈ z, PolyOK ((p.gamma1 : Int) - p.beta) a) →
      R0Facts p s2 cp w0 cs2 r0 → (∀ a ∈ r0, PolyOK ((p.gamma2 : Int) - p.beta) a) → Ct0Facts p t0 cp ct0 →
      (∀ a ∈ ct0, PolyOK (p.gamma2 : Int) a) → A0Facts p r0 ct0 a0 w1 h n → ¬ (p.omega : Int) < n →
      pack_sig p (ct ++ List.replicate (p.sigBytes - p.ctilde) 0) none z h = .ok sig → IterOutcome p s2 t0 cp ct w1 w0 z (.accept sig)

set_option maxHeartbeats 1600000 in
/-- **every iteration**, whatever its outcome -/
theorem sign_iteration_sem (p : Params) (hp : p ∈ allParams) (mat : List PolyVec) (hmat : MatOK p mat)
    (s1 s2 t0 s1h s2h t0h : PolyVec) (kd : KeyData p s1 s2 t0 s1h s2h t0h)
    (mu rp : List Nat) (nonce : Int) (out : IterResult)
    (Hy : ∀ y, l_uniform_gamma1 p rp nonce = .ok y → y.length = p.l ∧ ∀ a ∈ y, PolyOK ((p.gamma1 : Int) + 1) a)
    (Hc : ∀ ct cp, poly_challenge p FUEL ct = .ok cp → PolyOK 2 cp)
    (hacc : sign_iteration p mat mu rp s1h s2h t0h nonce = .ok out) :
    ∃ y w w1 w0 ct cp z, IterCore p mat s1 mu rp nonce y w w1 w0 ct cp z ∧ IterOutcome p s2 t0 cp ct w1 w0 z out := by
  have hq : Q = 8380417 := Q_val'
  obtain ⟨hl0, hl7, hk0, hk8, hg1, hg2, hg1u, hg1l, hb0, hbu, hg2u, hg2l⟩ := params_facts p hp
  obtain ⟨s1h', es1, rs1⟩ := vec_ntt_sem MK 8192 (by omega) (by rw [hq]; omega) s1 kd.s1b
  rw [kd.e1] at es1; injection es1 with es1; subst es1
  obtain ⟨s2h', es2, rs2⟩ := vec_ntt_sem MK 8192 (by omega) (by rw [hq]; omega) s2 kd.s2b
  rw [kd.e2] at es2; injection es2 with es2; subst es2
  obtain ⟨t0h', et0, rt0⟩ := vec_ntt_sem MK 8192 (by omega) (by rw [hq]; omega) t0 kd.t0b
  rw [kd.e0] at et0; injection et0 with et0; subst et0
  have h9 : ∀ {v vh : PolyVec}, All2 (fun a y => PolyOK (8192 + 8 * Q) y ∧ ∀ i, i < 256 → (Vl y i : K) = El a i) v vh →
      ∀ a ∈ vh, PolyOK (9 * Q) a := fun r => r.right (fun _ _ h => h.1.mono (by rw [hq]; omega))
  unfold sign_iteration at hacc
  obtain ⟨y, hy, hacc⟩ := bind_eq_ok.mp hacc
  obtain ⟨hyl, hyb⟩ := Hy y hy
  obtain ⟨_, _, hacc⟩ := bind_eq_ok.mp hacc
  obtain ⟨yh, wA, wB, wC, w, e1, e2, e3, e4, e5, hwl, hwstd, hwE⟩ :=
    sign_w_sem p hp mat hmat y ((p.gamma1 : Int) + 1) (by omega) (by rw [hq]; omega) hyl hyb
  obtain ⟨_, h', hacc⟩ := bind_eq_ok.mp hacc; rw [e1] at h'; injection h' with h'; subst h'
  obtain ⟨_, h', hacc⟩ := bind_eq_ok.mp hacc; rw [e2] at h'; injection h' with h'; subst h'
  obtain ⟨_, h', hacc⟩ := bind_eq_ok.mp hacc; rw [e3] at h'; injection h' with h'; subst h'
  obtain ⟨_, h', hacc⟩ := bind_eq_ok.mp hacc; rw [e4] at h'; injection h' with h'; subst h'
  obtain ⟨_, h', hacc⟩ := bind_eq_ok.mp hacc; rw [e5] at h'; injection h' with h'; subst h'
  obtain ⟨w1, w0, e6, rdec⟩ := k_decompose_sem p.lvl w hwstd
  obtain ⟨⟨w1', w0'⟩, h', hacc⟩ := bind_eq_ok.mp hacc
  rw [e6] at h'; injection h' with h'; injection h' with h1' h2'; subst h1'; subst h2'
  simp only at hacc
  obtain ⟨ct, hct, hacc⟩ := bind_eq_ok.mp hacc
  obtain ⟨cp, hcp, hacc⟩ := bind_eq_ok.mp hacc
  have hcp2 := Hc ct cp hcp
  obtain ⟨cph, e7, lcph, bcph, ecph⟩ := ntt_sem MK cp hcp2.1 2 (by omega) (by rw [hq]; omega) hcp2.2
  obtain ⟨_, h', hacc⟩ := bind_eq_ok.mp hacc
  have h'' : ntt cp = .ok _ := h'
  rw [e7] at h''; injection h'' with h''; subst h''
  have hc9 : PolyOK (9 * Q) cph := ⟨lcph, Bd_mono _ _ (by rw [hq]; omega) cph bcph⟩
  have hce : ∀ i, i < 256 → (Vl cph i : K) = El cp i := ecph
  -- z = c·s1 + y
  obtain ⟨zA, zB, e8, e9, rz⟩ := cs_sem cph hc9 (fun i => El cp i) hce s1h (h9 rs1)
  obtain ⟨_, h', hacc⟩ := bind_eq_ok.mp hacc; rw [e8] at h'; injection h' with h'; subst h'
  obtain ⟨_, h', hacc⟩ := bind_eq_ok.mp hacc; rw [e9] at h'; injection h' with h'; subst h'
  have hzBl : zB.length = p.l := by rw [rz.length, rs1.length, kd.s1l]
  obtain ⟨zC, e10, rzC⟩ := vec_add_sem (R := K) Q ((p.gamma1 : Int) + 1) (by rw [hq]; omega) zB y (by rw [hzBl, hyl])
    (rz.right (fun _ _ h => h.1)) hyb
  obtain ⟨_, h', hacc⟩ := bind_eq_ok.mp hacc; rw [e10] at h'; injection h' with h'; subst h'
  obtain ⟨z, e11, rzR⟩ := vec_reduce_sem MK zC (rzC.out (fun _ _ _ h => h.1.mono (by rw [hq]; omega)))
  obtain ⟨_, h', hacc⟩ := bind_eq_ok.mp hacc; rw [e11] at h'; injection h' with h'; subst h'
  have hzl : z.length = p.l := by rw [rzR.length, rzC.length.2, hzBl]
  have hzb6 : ∀ a ∈ z, PolyOK 6283010 a := rzR.right (fun _ _ h => h.1)
  have hzy : ∀ j, j < p.l → ∀ i, i < 256 → (El (z.getD j []) i : K) = El cp i * El (s1.getD j []) i + El (y.getD j []) i := by
    intro j hj i hi
    have fz := rzR.getD [] [] j (by rw [rzC.length.2, hzBl]; exact hj)
    have fzC := rzC.getD [] [] [] j (by rw [hzBl]; exact hj)
    have fzB := rz.getD [] [] j (by rw [rs1.length, kd.s1l]; exact hj)
    have fs1 := rs1.getD [] [] j (by rw [kd.s1l]; exact hj)
    have hyj := hyb _ (getD_mem y j [] (by rw [hyl]; exact hj))
    rw [El_congr _ _ fz.2 i, El_add _ _ _ (by rw [fzB.1.1, hyj.1]) fzC.2 i, fzB.2 i hi, fs1.2 i hi]
  have core : IterCore p mat s1 mu rp nonce y w w1 w0 ct cp z := ⟨hy, hyl, hwl, hwstd, hwE, rdec, e6, hyb, hct, hcp, hzl, hzb6, hzy⟩
  refine ⟨y, w, w1, w0, ct, cp, z, core, ?_⟩
  obtain ⟨rn, e12, hfailz, hpassz⟩ := chknorm_iff z ((p.gamma1 : Int) - p.beta) 6283010 (by omega) hzb6 (by rw [hq]; omega)
  obtain ⟨_, h', hacc⟩ := bind_eq_ok.mp hacc; rw [e12] at h'; injection h' with h'; subst h'
  split at hacc
  · rename_i hnz; injection hacc with hacc; subst hacc; exact .rejZ (hfailz hnz)
  rename_i hnz
  have hzb := hpassz hnz
  -- r0 = w0 − c·s2
  obtain ⟨sA, cs2, e13, e14, rs⟩ := cs_sem cph hc9 (fun i => El cp i) hce s2h (h9 rs2)
  obtain ⟨_, h', hacc⟩ := bind_eq_ok.mp hacc; rw [e13] at h'; injection h' with h'; subst h'
  obtain ⟨_, h', hacc⟩ := bind_eq_ok.mp hacc; rw [e14] at h'; injection h' with h'; subst h'
  have hw0l : w0.length = p.k := by rw [rdec.length.2, hwl]
  have hw0b : ∀ a ∈ w0, PolyOK ((p.gamma2 : Int) + 1) a := by
    refine rdec.out (C := fun lo => PolyOK ((p.gamma2 : Int) + 1) lo) ?_
    intro a hi lo h3
    exact ⟨h3.2.length.2.trans h3.1, h3.2.out (fun _ _ _ hd => by rw [hg2]; have := hd.2.2.2; omega)⟩
  have hcs2l : cs2.length = p.k := by rw [rs.length, rs2.length, kd.s2l]
  obtain ⟨rA, e15, rrA⟩ := vec_sub_sem (R := K) ((p.gamma2 : Int) + 1) Q (by rw [hq]; omega) w0 cs2 (by rw [hw0l, hcs2l])
    hw0b (rs.right (fun _ _ h => h.1))
  obtain ⟨_, h', hacc⟩ := bind_eq_ok.mp hacc; rw [e15] at h'; injection h' with h'; subst h'
  obtain ⟨r0, e16, rr0⟩ := vec_reduce_sem MK rA (rrA.out (fun _ _ _ h => h.1.mono (by rw [hq]; omega)))
  obtain ⟨_, h', hacc⟩ := bind_eq_ok.mp hacc; rw [e16] at h'; injection h' with h'; subst h'
  have hr0l : r0.length = p.k := by rw [rr0.length, rrA.length.2, hw0l]
  have hr0b6 : ∀ a ∈ r0, PolyOK 6283010 a := rr0.right (fun _ _ h => h.1)
  have r0f : R0Facts p s2 cp w0 cs2 r0 := by
    refine ⟨hcs2l, rs.right (fun _ _ h => h.1), ?_, hr0l, hr0b6, ?_⟩
    · intro r hr i hi
      have fcs2 := rs.getD [] [] r (by rw [rs2.length, kd.s2l]; exact hr)
      have fs2 := rs2.getD [] [] r (by rw [kd.s2l]; exact hr)
      rw [fcs2.2 i hi, fs2.2 i hi]
    · intro r hr n hn
      have hrw : r < w.length := by rw [hwl]; exact hr
      have fdec := rdec.getD [] [] [] r hrw
      have fr0A := rrA.getD [] [] [] r (by rw [hw0l]; exact hr)
      have fr0 := rr0.getD [] [] r (by rw [rrA.length.2, hw0l]; exact hr)
      have fcs2 := rs.getD [] [] r (by rw [rs2.length, kd.s2l]; exact hr)
      have hw0r_len : (w0.getD r []).length = 256 := fdec.2.length.2.trans fdec.1
      have c1 := cong_of_castL _ _ fr0.2 n
      have c2 : ((rA.getD r []).getD n 0 - ((w0.getD r []).getD n 0 - (cs2.getD r []).getD n 0)) % 8380417 = 0 := by
        apply zmod_cong
        rw [← castL_getD, fr0A.2, zipWith_getD _ _ _ n (by simp only [castL, List.length_map]; rw [hw0r_len]; exact hn)
          (by simp only [castL, List.length_map]; rw [fcs2.1.1]; exact hn), castL_getD, castL_getD, Int.cast_sub]
      omega
  obtain ⟨rn0, e17, hfail0, hpass0⟩ := chknorm_iff r0 ((p.gamma2 : Int) - p.beta) 6283010 (by omega) hr0b6 (by rw [hq]; omega)
  obtain ⟨_, h', hacc⟩ := bind_eq_ok.mp hacc; rw [e17] at h'; injection h' with h'; subst h'
  split at hacc
  · rename_i hn0; injection hacc with hacc; subst hacc; exact .rejR0 cs2 r0 hzb r0f (hfail0 hn0)
  rename_i hn0
  have hr0b := hpass0 hn0
  -- c·t0
  obtain ⟨tA, tB, e18, e19, rt⟩ := cs_sem cph hc9 (fun i => El cp i) hce t0h (h9 rt0)
  obtain ⟨_, h', hacc⟩ := bind_eq_ok.mp hacc; rw [e18] at h'; injection h' with h'; subst h'
  obtain ⟨_, h', hacc⟩ := bind_eq_ok.mp hacc; rw [e19] at h'; injection h' with h'; subst h'
  obtain ⟨ct0, e20, rct0⟩ := vec_reduce_sem MK tB (rt.right (fun _ _ h => h.1.mono (by rw [hq]; omega)))
  obtain ⟨_, h', hacc⟩ := bind_eq_ok.mp hacc; rw [e20] at h'; injection h' with h'; subst h'
  have hct0l : ct0.length = p.k := by rw [rct0.length, rt.length, rt0.length, kd.t0l]
  have hct0b6 : ∀ a ∈ ct0, PolyOK 6283010 a := rct0.right (fun _ _ h => h.1)
  have ct0f : Ct0Facts p t0 cp ct0 := by
    refine ⟨hct0l, hct0b6, ?_⟩
    intro r hr i hi
    have ft := rt.getD [] [] r (by rw [rt0.length, kd.t0l]; exact hr)
    have ft0 := rt0.getD [] [] r (by rw [kd.t0l]; exact hr)
    have fct0 := rct0.getD [] [] r (by rw [rt.length, rt0.length, kd.t0l]; exact hr)
    rw [El_congr _ _ fct0.2 i, ft.2 i hi, ft0.2 i hi]
  obtain ⟨rnc, e21, hfailc, hpassc⟩ := chknorm_iff ct0 (p.gamma2 : Int) 6283010 (by omega) hct0b6 (by rw [hq]; omega)
  obtain ⟨_, h', hacc⟩ := bind_eq_ok.mp hacc; rw [e21] at h'; injection h' with h'; subst h'
  split at hacc
  · rename_i hnc; injection hacc with hacc; subst hacc; exact .rejCt0 cs2 r0 ct0 hzb r0f hr0b ct0f (hfailc hnc)
  rename_i hnc
  have hct0b := hpassc hnc
  -- a0 = r0 + c·t0
  obtain ⟨a0, e22, ra0⟩ := vec_add_sem (R := K) ((p.gamma2 : Int) - p.beta) (p.gamma2 : Int) (by omega) r0 ct0 (by rw [hr0l, hct0l])
    hr0b hct0b
  obtain ⟨_, h', hacc⟩ := bind_eq_ok.mp hacc; rw [e22] at h'; injection h' with h'; subst h'
  obtain ⟨⟨h, n⟩, ehint, hacc⟩ := bind_eq_ok.mp hacc
  simp only at hacc
  have a0f : A0Facts p r0 ct0 a0 w1 h n := ⟨by rw [ra0.length.2, hr0l], ra0, ehint⟩
  split at hacc
  · rename_i hnw; injection hacc with hacc; subst hacc; exact .rejHint cs2 r0 ct0 a0 h n hzb r0f hr0b ct0f hct0b a0f hnw
  rename_i hnw
  obtain ⟨sg, hpack, hacc⟩ := bind_eq_ok.mp hacc
  injection hacc with hacc; subst hacc
  exact .accept cs2 r0 ct0 a0 h n sg hzb r0f hr0b ct0f hct0b a0f hnw hpack

end DV.Complete
