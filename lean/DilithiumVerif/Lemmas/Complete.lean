import Mathlib.Tactic.LinearCombination
import DilithiumVerif.Lemmas.VerifyW
import DilithiumVerif.Lemmas.HintCodec
import DilithiumVerif.Lemmas.DecUnique
/-
  Lemmas.Complete — an accepted signing iteration produces (c̃, z, h) from which the verifier's arithmetic
  reconstructs exactly the signer's w1.
-/
namespace DV.Complete
open DV DV.NttSem DV.PolySem DV.VecSem DV.RoundSem DV.NttMul DV.NttZ

theorem chknorm_pass (v : PolyVec) (b C : Int) (hC : C ≤ 1073741824) (hv : ∀ a ∈ v, PolyOK C a) (hb : b ≤ (Q - 1) / 8) :
    ∃ r, vec_chknorm v b = .ok r ∧ (¬ 0 < r → ∀ a ∈ v, PolyOK b a) := by
  have hx := C18.vec_chknorm_exact v b (fun a ha x hx => by have := (hv a ha).2 x hx; omega) hb
  refine ⟨_, hx, ?_⟩
  intro hr a ha
  refine ⟨(hv a ha).1, fun x hx' => ?_⟩
  by_cases hex : ∃ p ∈ v, ∃ x ∈ p, b ≤ C18.iabs x
  · rw [if_pos hex] at hr; omega
  · have : ¬ b ≤ C18.iabs x := fun h => hex ⟨a, ha, x, hx', h⟩
    unfold C18.iabs at this
    split at this <;> omega

theorem getD_mem {α} (l : List α) (r : Nat) (d : α) (h : r < l.length) : l.getD r d ∈ l := by
  rw [List.getD_eq_getElem?_getD, List.getElem?_eq_getElem h]; simp

theorem rowDot_lin (row zs ss ys : List (List Int)) (n : Nat) (i : Nat) (c : K)
    (h : ∀ j, j < n → (El (zs.getD j []) i : K) = c * El (ss.getD j []) i + El (ys.getD j []) i) :
    rowDot row zs n i = c * rowDot row ss n i + rowDot row ys n i := by
  unfold rowDot
  rw [← sumTo_mul, ← sumTo_add]
  apply sumTo_congr
  intro j hj
  rw [h j hj]; ring

theorem map_getD_int (f : Int → Int) (l : List Int) (n : Nat) (h : n < l.length) : (l.map f).getD n 0 = f (l.getD n 0) := by
  rw [List.getD_eq_getElem?_getD, List.getD_eq_getElem?_getD, List.getElem?_map, List.getElem?_eq_getElem h]; rfl

end DV.Complete

namespace DV.Complete
open DV DV.NttSem DV.PolySem DV.VecSem DV.RoundSem DV.NttMul DV.NttZ

/-- secret-key side data: ranges of the unpacked vectors and their transforms -/
structure KeyData (p : Params) (s1 s2 t0 s1h s2h t0h : PolyVec) : Prop where
  s1l : s1.length = p.l
  s2l : s2.length = p.k
  t0l : t0.length = p.k
  s1b : ∀ a ∈ s1, PolyOK 8192 a
  s2b : ∀ a ∈ s2, PolyOK 8192 a
  t0b : ∀ a ∈ t0, PolyOK 8192 a
  e1 : vec_ntt s1 = .ok s1h
  e2 : vec_ntt s2 = .ok s2h
  e0 : vec_ntt t0 = .ok t0h

/-- what an accepted iteration establishes (the mask y no longer appears) -/
structure SignFacts (p : Params) (mat : List PolyVec) (s1 s2 t0 : PolyVec) (mu sig : List Nat)
    (ct : List Nat) (cp : Poly) (z h w1 a0 : PolyVec) : Prop where
  hct : compute_ctilde p mu (k_pack_w1 p.lvl w1) = .ok ct
  hcp : poly_challenge p FUEL ct = .ok cp
  hpack : pack_sig p (ct ++ List.replicate (p.sigBytes - p.ctilde) 0) none z h = .ok sig
  zl : z.length = p.l
  zb : ∀ a ∈ z, PolyOK ((p.gamma1 : Int) - p.beta) a
  hint : All3 (fun x0 x1 hp => All3 (fun x y z => z = make_hint p.lvl x y) x0 x1 hp) a0 w1 h
  hbits : ∀ hp ∈ h, HintCodec.Bits hp
  hw : (HintCodec.idxOf h).length ≤ p.omega
  w1l : w1.length = p.k
  rows : ∀ r, r < p.k → (w1.getD r []).length = 256 ∧ (a0.getD r []).length = 256 ∧
    (∀ n, n < 256 → 0 ≤ (w1.getD r []).getD n 0 ∧ (w1.getD r []).getD n 0 < mOf p.lvl ∧
      -(2 * gamma2Of p.lvl) < (a0.getD r []).getD n 0 ∧ (a0.getD r []).getD n 0 < 2 * gamma2Of p.lvl) ∧
    ∀ i, i < 256 → ((2 * gamma2Of p.lvl : Int) : K) * El (w1.getD r []) i + El (a0.getD r []) i =
      rowDot (mat.getD r []) z p.l i - El cp i * rowDot (mat.getD r []) s1 p.l i - El cp i * El (s2.getD r []) i
        + El cp i * El (t0.getD r []) i

end DV.Complete

namespace DV.Complete
open DV DV.NttSem DV.PolySem DV.VecSem DV.RoundSem DV.NttMul DV.NttZ

/-- what an accepted iteration establishes about the secret-dependent quantities (C06): the mask y = z − c·s1, w = A·y,
    its high and low bits, the low bits of w − c·s2 and the product c·t0, with the bounds that were tested -/
structure SignSecret (p : Params) (mat : List PolyVec) (s1 s2 t0 : PolyVec) (rp : List Nat) (nonce : Int) (cp : Poly)
    (z w1 a0 y w w0 cs2 r0 ct0 : PolyVec) : Prop where
  mask : l_uniform_gamma1 p rp nonce = .ok y
  zy : ∀ j, j < p.l → ∀ i, i < 256 → (El (z.getD j []) i : K) = El cp i * El (s1.getD j []) i + El (y.getD j []) i
  wl : w.length = p.k
  wstd : ∀ a ∈ w, Std a
  wy : ∀ r, r < p.k → ∀ i, i < 256 → (El (w.getD r []) i : K) = rowDot (mat.getD r []) y p.l i
  dec : All3 (fun a hi lo => a.length = 256 ∧ All3 (DecC p.lvl) a hi lo) w w1 w0
  cs2E : ∀ r, r < p.k → ∀ i, i < 256 → (El (cs2.getD r []) i : K) = El cp i * El (s2.getD r []) i
  low : ∀ r, r < p.k → ∀ n, n < 256 →
    decompose p.lvl (((w.getD r []).getD n 0 - (cs2.getD r []).getD n 0) % Q) = .ok ((r0.getD r []).getD n 0, (w1.getD r []).getD n 0) ∧
    -((p.gamma2 : Int) - p.beta) < (r0.getD r []).getD n 0 ∧ (r0.getD r []).getD n 0 < (p.gamma2 : Int) - p.beta
  ct0E : ∀ r, r < p.k → (∀ i, i < 256 → (El (ct0.getD r []) i : K) = El cp i * El (t0.getD r []) i) ∧ PolyOK (p.gamma2 : Int) (ct0.getD r [])
  a0E : ∀ r, r < p.k → ∀ i, i < 256 → (El (a0.getD r []) i : K) = El (r0.getD r []) i + El (ct0.getD r []) i

set_option maxHeartbeats 1600000 in
/-- **Signer side.** From an accepted iteration: the emitted (c̃, z, h), the high bits w1 that were hashed, and the value
    a0 = (w0 − c·s2) + c·t0 whose hints were emitted, with their ranges and the ring identity that ties them to A·z. -/
theorem sign_facts_full (p : Params) (hp : p ∈ allParams) (mat : List PolyVec) (hmat : MatOK p mat)
    (s1 s2 t0 s1h s2h t0h : PolyVec) (kd : KeyData p s1 s2 t0 s1h s2h t0h)
    (mu rp : List Nat) (nonce : Int) (sig : List Nat)
    (Hy : ∀ y, l_uniform_gamma1 p rp nonce = .ok y → y.length = p.l ∧ ∀ a ∈ y, PolyOK ((p.gamma1 : Int) + 1) a)
    (Hc : ∀ ct cp, poly_challenge p FUEL ct = .ok cp → PolyOK 2 cp)
    (hacc : sign_iteration p mat mu rp s1h s2h t0h nonce = .ok (.accept sig)) :
    ∃ ct cp z h w1 a0, SignFacts p mat s1 s2 t0 mu sig ct cp z h w1 a0 ∧
      ∃ y w w0 cs2 r0 ct0, SignSecret p mat s1 s2 t0 rp nonce cp z w1 a0 y w w0 cs2 r0 ct0 := by
  have hq : Q = 8380417 := Q_val'
  obtain ⟨hl0, hl7, hk0, hk8, hg1, hg2, hg1u, hg1l, hb0, hbu, hg2u, hg2l⟩ := params_facts p hp
  -- transforms of the key parts
  obtain ⟨s1h', es1, rs1⟩ := vec_ntt_sem MK 8192 (by omega) (by rw [hq]; omega) s1 kd.s1b
  rw [kd.e1] at es1; injection es1 with es1; subst es1
  obtain ⟨s2h', es2, rs2⟩ := vec_ntt_sem MK 8192 (by omega) (by rw [hq]; omega) s2 kd.s2b
  rw [kd.e2] at es2; injection es2 with es2; subst es2
  obtain ⟨t0h', et0, rt0⟩ := vec_ntt_sem MK 8192 (by omega) (by rw [hq]; omega) t0 kd.t0b
  rw [kd.e0] at et0; injection et0 with et0; subst et0
  have h9 : ∀ {v vh : PolyVec}, All2 (fun a y => PolyOK (8192 + 8 * Q) y ∧ ∀ i, i < 256 → (Vl y i : K) = El a i) v vh →
      ∀ a ∈ vh, PolyOK (9 * Q) a := fun r => r.right (fun _ _ h => h.1.mono (by rw [hq]; omega))
  unfold sign_iteration at hacc
  obtain ⟨y, hy, hacc⟩ := bind_eq_ok.mp hacc
  obtain ⟨hyl, hyb⟩ := Hy y hy
  obtain ⟨_, _, hacc⟩ := bind_eq_ok.mp hacc
  -- w = A·y
  obtain ⟨yh, wA, wB, wC, w, e1, e2, e3, e4, e5, hwl, hwstd, hwE⟩ :=
    sign_w_sem p hp mat hmat y ((p.gamma1 : Int) + 1) (by omega) (by rw [hq]; omega) hyl hyb
  obtain ⟨_, h', hacc⟩ := bind_eq_ok.mp hacc; rw [e1] at h'; injection h' with h'; subst h'
  obtain ⟨_, h', hacc⟩ := bind_eq_ok.mp hacc; rw [e2] at h'; injection h' with h'; subst h'
  obtain ⟨_, h', hacc⟩ := bind_eq_ok.mp hacc; rw [e3] at h'; injection h' with h'; subst h'
  obtain ⟨_, h', hacc⟩ := bind_eq_ok.mp hacc; rw [e4] at h'; injection h' with h'; subst h'
  obtain ⟨_, h', hacc⟩ := bind_eq_ok.mp hacc; rw [e5] at h'; injection h' with h'; subst h'
  obtain ⟨w1, w0, e6, rdec⟩ := k_decompose_sem p.lvl w hwstd
  obtain ⟨⟨w1', w0'⟩, h', hacc⟩ := bind_eq_ok.mp hacc
  rw [e6] at h'; injection h' with h'; injection h' with h1' h2'; subst h1'; subst h2'
  simp only at hacc
  obtain ⟨ct, hct, hacc⟩ := bind_eq_ok.mp hacc
  obtain ⟨cp, hcp, hacc⟩ := bind_eq_ok.mp hacc
  have hcp2 := Hc ct cp hcp
  obtain ⟨cph, e7, lcph, bcph, ecph⟩ := ntt_sem MK cp hcp2.1 2 (by omega) (by rw [hq]; omega) hcp2.2
  obtain ⟨_, h', hacc⟩ := bind_eq_ok.mp hacc
  have h'' : ntt cp = .ok _ := h'
  rw [e7] at h''; injection h'' with h''; subst h''
  have hc9 : PolyOK (9 * Q) cph := ⟨lcph, Bd_mono _ _ (by rw [hq]; omega) cph bcph⟩
  have hce : ∀ i, i < 256 → (Vl cph i : K) = El cp i := ecph
  -- z = c·s1 + y
  obtain ⟨zA, zB, e8, e9, rz⟩ := cs_sem cph hc9 (fun i => El cp i) hce s1h (h9 rs1)
  obtain ⟨_, h', hacc⟩ := bind_eq_ok.mp hacc; rw [e8] at h'; injection h' with h'; subst h'
  obtain ⟨_, h', hacc⟩ := bind_eq_ok.mp hacc; rw [e9] at h'; injection h' with h'; subst h'
  have hzBl : zB.length = p.l := by rw [rz.length, rs1.length, kd.s1l]
  obtain ⟨zC, e10, rzC⟩ := vec_add_sem (R := K) Q ((p.gamma1 : Int) + 1) (by rw [hq]; omega) zB y (by rw [hzBl, hyl])
    (rz.right (fun _ _ h => h.1)) hyb
  obtain ⟨_, h', hacc⟩ := bind_eq_ok.mp hacc; rw [e10] at h'; injection h' with h'; subst h'
  obtain ⟨z, e11, rzR⟩ := vec_reduce_sem MK zC (rzC.out (fun _ _ _ h => h.1.mono (by rw [hq]; omega)))
  obtain ⟨_, h', hacc⟩ := bind_eq_ok.mp hacc; rw [e11] at h'; injection h' with h'; subst h'
  have hzl : z.length = p.l := by rw [rzR.length, rzC.length.2, hzBl]
  obtain ⟨rn, e12, hpassz⟩ := chknorm_pass z ((p.gamma1 : Int) - p.beta) 6283010 (by omega) (rzR.right (fun _ _ h => h.1))
    (by rw [hq]; omega)
  obtain ⟨_, h', hacc⟩ := bind_eq_ok.mp hacc; rw [e12] at h'; injection h' with h'; subst h'
  split at hacc
  · cases hacc
  rename_i hnz
  have hzb := hpassz hnz
  -- r0 = w0 − c·s2
  obtain ⟨sA, cs2, e13, e14, rs⟩ := cs_sem cph hc9 (fun i => El cp i) hce s2h (h9 rs2)
  obtain ⟨_, h', hacc⟩ := bind_eq_ok.mp hacc; rw [e13] at h'; injection h' with h'; subst h'
  obtain ⟨_, h', hacc⟩ := bind_eq_ok.mp hacc; rw [e14] at h'; injection h' with h'; subst h'
  have hw1l : w1.length = p.k := by rw [rdec.length.1, hwl]
  have hw0l : w0.length = p.k := by rw [rdec.length.2, hwl]
  have hw0b : ∀ a ∈ w0, PolyOK ((p.gamma2 : Int) + 1) a := by
    refine rdec.out (C := fun lo => PolyOK ((p.gamma2 : Int) + 1) lo) ?_
    intro a hi lo h3
    exact ⟨h3.2.length.2.trans h3.1, h3.2.out (fun _ _ _ hd => by rw [hg2]; have := hd.2.2.2; omega)⟩
  have hcs2l : cs2.length = p.k := by rw [rs.length, rs2.length, kd.s2l]
  obtain ⟨rA, e15, rrA⟩ := vec_sub_sem (R := K) ((p.gamma2 : Int) + 1) Q (by rw [hq]; omega) w0 cs2 (by rw [hw0l, hcs2l])
    hw0b (rs.right (fun _ _ h => h.1))
  obtain ⟨_, h', hacc⟩ := bind_eq_ok.mp hacc; rw [e15] at h'; injection h' with h'; subst h'
  obtain ⟨r0, e16, rr0⟩ := vec_reduce_sem MK rA (rrA.out (fun _ _ _ h => h.1.mono (by rw [hq]; omega)))
  obtain ⟨_, h', hacc⟩ := bind_eq_ok.mp hacc; rw [e16] at h'; injection h' with h'; subst h'
  obtain ⟨rn0, e17, hpass0⟩ := chknorm_pass r0 ((p.gamma2 : Int) - p.beta) 6283010 (by omega) (rr0.right (fun _ _ h => h.1))
    (by rw [hq]; omega)
  obtain ⟨_, h', hacc⟩ := bind_eq_ok.mp hacc; rw [e17] at h'; injection h' with h'; subst h'
  split at hacc
  · cases hacc
  rename_i hn0
  have hr0b := hpass0 hn0
  have hr0l : r0.length = p.k := by rw [rr0.length, rrA.length.2, hw0l]
  -- c·t0
  obtain ⟨tA, tB, e18, e19, rt⟩ := cs_sem cph hc9 (fun i => El cp i) hce t0h (h9 rt0)
  obtain ⟨_, h', hacc⟩ := bind_eq_ok.mp hacc; rw [e18] at h'; injection h' with h'; subst h'
  obtain ⟨_, h', hacc⟩ := bind_eq_ok.mp hacc; rw [e19] at h'; injection h' with h'; subst h'
  obtain ⟨ct0, e20, rct0⟩ := vec_reduce_sem MK tB (rt.right (fun _ _ h => h.1.mono (by rw [hq]; omega)))
  obtain ⟨_, h', hacc⟩ := bind_eq_ok.mp hacc; rw [e20] at h'; injection h' with h'; subst h'
  obtain ⟨rnc, e21, hpassc⟩ := chknorm_pass ct0 (p.gamma2 : Int) 6283010 (by omega) (rct0.right (fun _ _ h => h.1))
    (by rw [hq]; omega)
  obtain ⟨_, h', hacc⟩ := bind_eq_ok.mp hacc; rw [e21] at h'; injection h' with h'; subst h'
  split at hacc
  · cases hacc
  rename_i hnc
  have hct0b := hpassc hnc
  have hct0l : ct0.length = p.k := by rw [rct0.length, rt.length, rt0.length, kd.t0l]
  -- a0 = r0 + c·t0
  obtain ⟨a0, e22, ra0⟩ := vec_add_sem (R := K) ((p.gamma2 : Int) - p.beta) (p.gamma2 : Int) (by omega) r0 ct0 (by rw [hr0l, hct0l])
    hr0b hct0b
  obtain ⟨_, h', hacc⟩ := bind_eq_ok.mp hacc; rw [e22] at h'; injection h' with h'; subst h'
  obtain ⟨⟨h, n⟩, ehint, hacc⟩ := bind_eq_ok.mp hacc
  simp only at hacc
  split at hacc
  · cases hacc
  obtain ⟨sg, hpack, hacc⟩ := bind_eq_ok.mp hacc
  injection hacc with hacc; injection hacc with hacc; subst hacc
  have ha0l : a0.length = p.k := by rw [ra0.length.2, hr0l]
  rename_i hnw
  have hrel := k_make_hint_rel p.lvl a0 w1 h n ehint
  have hcount := HintCodec.k_make_hint_count p.lvl a0 w1 0 h n ehint
  have hbits : ∀ hp ∈ h, HintCodec.Bits hp := by
    intro hp hhp
    refine ⟨?_, hcount.2 hp hhp⟩
    obtain ⟨r, hr, rfl⟩ := List.mem_iff_getElem.mp hhp
    have hr' : r < a0.length := by rw [← hrel.length.2]; exact hr
    have f := hrel.getD [] [] [] r hr'
    have e : h.getD r [] = h[r] := by rw [List.getD_eq_getElem?_getD, List.getElem?_eq_getElem hr]; rfl
    rw [← e, f.length.2]
    exact (ra0.out (C := fun x => PolyOK ((p.gamma2 : Int) - p.beta + p.gamma2) x) (fun _ _ _ h => h.1) _ (getD_mem a0 r [] hr')).1
  have hwt : (HintCodec.idxOf h).length ≤ p.omega := by
    have := hcount.1
    omega
  have hzy : ∀ j, j < p.l → ∀ i, i < 256 → (El (z.getD j []) i : K) = El cp i * El (s1.getD j []) i + El (y.getD j []) i := by
    intro j hj i hi
    have fz := rzR.getD [] [] j (by rw [rzC.length.2, hzBl]; exact hj)
    have fzC := rzC.getD [] [] [] j (by rw [hzBl]; exact hj)
    have fzB := rz.getD [] [] j (by rw [rs1.length, kd.s1l]; exact hj)
    have fs1 := rs1.getD [] [] j (by rw [kd.s1l]; exact hj)
    have hyj := hyb _ (getD_mem y j [] (by rw [hyl]; exact hj))
    rw [El_congr _ _ fz.2 i, El_add _ _ _ (by rw [fzB.1.1, hyj.1]) fzC.2 i, fzB.2 i hi, fs1.2 i hi]
  have hrows : ∀ r, r < p.k → (w1.getD r []).length = 256 ∧ (a0.getD r []).length = 256 ∧
      (∀ n, n < 256 → 0 ≤ (w1.getD r []).getD n 0 ∧ (w1.getD r []).getD n 0 < mOf p.lvl ∧
        -(2 * gamma2Of p.lvl) < (a0.getD r []).getD n 0 ∧ (a0.getD r []).getD n 0 < 2 * gamma2Of p.lvl) ∧
      ∀ i, i < 256 → ((2 * gamma2Of p.lvl : Int) : K) * El (w1.getD r []) i + El (a0.getD r []) i =
        rowDot (mat.getD r []) z p.l i - El cp i * rowDot (mat.getD r []) s1 p.l i - El cp i * El (s2.getD r []) i
          + El cp i * El (t0.getD r []) i := by
    intro r hr
    have hrw : r < w.length := by rw [hwl]; exact hr
    have fdec := rdec.getD [] [] [] r hrw
    have fr0A := rrA.getD [] [] [] r (by rw [hw0l]; exact hr)
    have fr0 := rr0.getD [] [] r (by rw [rrA.length.2, hw0l]; exact hr)
    have fcs2 := rs.getD [] [] r (by rw [rs2.length, kd.s2l]; exact hr)
    have fs2 := rs2.getD [] [] r (by rw [kd.s2l]; exact hr)
    have ft := rt.getD [] [] r (by rw [rt0.length, kd.t0l]; exact hr)
    have ft0 := rt0.getD [] [] r (by rw [kd.t0l]; exact hr)
    have fct0 := rct0.getD [] [] r (by rw [rt.length, rt0.length, kd.t0l]; exact hr)
    have fa0 := ra0.getD [] [] [] r (by rw [hr0l]; exact hr)
    have hw1r_len : (w1.getD r []).length = 256 := fdec.2.length.1.trans fdec.1
    have hw0r_len : (w0.getD r []).length = 256 := fdec.2.length.2.trans fdec.1
    have hr0r := hr0b _ (getD_mem r0 r [] (by rw [hr0l]; exact hr))
    have hct0r := hct0b _ (getD_mem ct0 r [] (by rw [hct0l]; exact hr))
    refine ⟨hw1r_len, fa0.1.1, ?_, ?_⟩
    · intro nn hnn
      have fd := fdec.2.getD 0 0 0 nn (by rw [fdec.1]; exact hnn)
      have hb := fa0.1.2 _ (getD_mem (a0.getD r []) nn 0 (by rw [fa0.1.1]; exact hnn))
      rw [← hg2]
      exact ⟨fd.1, fd.2.1, by omega, by omega⟩
    · intro i hi
      -- El identities
      have E_w : (El (w.getD r []) i : K) = rowDot (mat.getD r []) y p.l i := hwE r hr i hi
      have E_dec : (El (w.getD r []) i : K) = ((2 * gamma2Of p.lvl : Int) : K) * El (w1.getD r []) i + El (w0.getD r []) i := by
        unfold El
        rw [dec_cast MK p.lvl fdec.2, Ev_add _ _ (by simp only [castL, List.length_map]; rw [hw1r_len, hw0r_len]), Ev_smul]
      have E_r0 : (El (r0.getD r []) i : K) = El (w0.getD r []) i - El (cs2.getD r []) i := by
        rw [El_congr _ _ fr0.2 i, El_sub _ _ _ (by rw [hw0r_len, fcs2.1.1]) fr0A.2 i]
      have E_cs2 : (El (cs2.getD r []) i : K) = El cp i * El (s2.getD r []) i := by rw [fcs2.2 i hi, fs2.2 i hi]
      have E_ct0 : (El (ct0.getD r []) i : K) = El cp i * El (t0.getD r []) i := by
        rw [El_congr _ _ fct0.2 i, ft.2 i hi, ft0.2 i hi]
      have E_a0 : (El (a0.getD r []) i : K) = El (r0.getD r []) i + El (ct0.getD r []) i :=
        El_add _ _ _ (by rw [hr0r.1, hct0r.1]) fa0.2 i
      have E_z : rowDot (mat.getD r []) z p.l i = El cp i * rowDot (mat.getD r []) s1 p.l i + rowDot (mat.getD r []) y p.l i := by
        apply rowDot_lin
        intro j hj
        have fz := rzR.getD [] [] j (by rw [rzC.length.2, hzBl]; exact hj)
        have fzC := rzC.getD [] [] [] j (by rw [hzBl]; exact hj)
        have fzB := rz.getD [] [] j (by rw [rs1.length, kd.s1l]; exact hj)
        have fs1 := rs1.getD [] [] j (by rw [kd.s1l]; exact hj)
        have hyj := hyb _ (getD_mem y j [] (by rw [hyl]; exact hj))
        rw [El_congr _ _ fz.2 i, El_add _ _ _ (by rw [fzB.1.1, hyj.1]) fzC.2 i, fzB.2 i hi, fs1.2 i hi]
      linear_combination -E_dec + E_w + E_a0 + E_r0 - E_z + E_ct0 - E_cs2
  refine ⟨ct, cp, z, h, w1, a0, ⟨hct, hcp, hpack, hzl, hzb, hrel, hbits, hwt, hw1l, hrows⟩, y, w, w0, cs2, r0, ct0,
    ⟨hy, hzy, hwl, hwstd, hwE, rdec, ?_, ?_, ?_, ?_⟩⟩
  · intro r hr i hi
    have fcs2 := rs.getD [] [] r (by rw [rs2.length, kd.s2l]; exact hr)
    have fs2 := rs2.getD [] [] r (by rw [kd.s2l]; exact hr)
    rw [fcs2.2 i hi, fs2.2 i hi]
  · intro r hr n hn
    have hrw : r < w.length := by rw [hwl]; exact hr
    have fdec := rdec.getD [] [] [] r hrw
    have fr0A := rrA.getD [] [] [] r (by rw [hw0l]; exact hr)
    have fr0 := rr0.getD [] [] r (by rw [rrA.length.2, hw0l]; exact hr)
    have fcs2 := rs.getD [] [] r (by rw [rs2.length, kd.s2l]; exact hr)
    have hr0r := hr0b _ (getD_mem r0 r [] (by rw [hr0l]; exact hr))
    have hw0r_len : (w0.getD r []).length = 256 := fdec.2.length.2.trans fdec.1
    have fd := fdec.2.getD 0 0 0 n (by rw [fdec.1]; exact hn)
    have hb := hr0r.2 _ (getD_mem (r0.getD r []) n 0 (by rw [hr0r.1]; exact hn))
    -- r0[n] ≡ rA[n] ≡ w0[n] − cs2[n] (mod q)
    have c1 := cong_of_castL _ _ fr0.2 n
    have c2 : ((rA.getD r []).getD n 0 - ((w0.getD r []).getD n 0 - (cs2.getD r []).getD n 0)) % 8380417 = 0 := by
      apply zmod_cong
      rw [← castL_getD, fr0A.2, zipWith_getD _ _ _ n (by simp only [castL, List.length_map]; rw [hw0r_len]; exact hn)
        (by simp only [castL, List.length_map]; rw [fcs2.1.1]; exact hn), castL_getD, castL_getD, Int.cast_sub]
    have c3 := fd.2.2.1
    rw [hq] at c3 ⊢
    have hval : ((w.getD r []).getD n 0 - (cs2.getD r []).getD n 0) % 8380417
        = ((w1.getD r []).getD n 0 * (2 * gamma2Of p.lvl) + (r0.getD r []).getD n 0) % 8380417 := by omega
    rw [hval, ← hq]
    exact ⟨decompose_unique p.lvl _ _ ⟨fd.1, fd.2.1⟩ (by rw [← hg2]; omega), hb.1, hb.2⟩
  · intro r hr
    have ft := rt.getD [] [] r (by rw [rt0.length, kd.t0l]; exact hr)
    have ft0 := rt0.getD [] [] r (by rw [kd.t0l]; exact hr)
    have fct0 := rct0.getD [] [] r (by rw [rt.length, rt0.length, kd.t0l]; exact hr)
    exact ⟨fun i hi => by rw [El_congr _ _ fct0.2 i, ft.2 i hi, ft0.2 i hi], hct0b _ (getD_mem ct0 r [] (by rw [hct0l]; exact hr))⟩
  · intro r hr i hi
    have fa0 := ra0.getD [] [] [] r (by rw [hr0l]; exact hr)
    have hr0r := hr0b _ (getD_mem r0 r [] (by rw [hr0l]; exact hr))
    have hct0r := hct0b _ (getD_mem ct0 r [] (by rw [hct0l]; exact hr))
    exact El_add _ _ _ (by rw [hr0r.1, hct0r.1]) fa0.2 i

theorem sign_facts (p : Params) (hp : p ∈ allParams) (mat : List PolyVec) (hmat : MatOK p mat)
    (s1 s2 t0 s1h s2h t0h : PolyVec) (kd : KeyData p s1 s2 t0 s1h s2h t0h)
    (mu rp : List Nat) (nonce : Int) (sig : List Nat)
    (Hy : ∀ y, l_uniform_gamma1 p rp nonce = .ok y → y.length = p.l ∧ ∀ a ∈ y, PolyOK ((p.gamma1 : Int) + 1) a)
    (Hc : ∀ ct cp, poly_challenge p FUEL ct = .ok cp → PolyOK 2 cp)
    (hacc : sign_iteration p mat mu rp s1h s2h t0h nonce = .ok (.accept sig)) :
    ∃ ct cp z h w1 a0, SignFacts p mat s1 s2 t0 mu sig ct cp z h w1 a0 := by
  obtain ⟨ct, cp, z, h, w1, a0, sf, _⟩ := sign_facts_full p hp mat hmat s1 s2 t0 s1h s2h t0h kd mu rp nonce sig Hy Hc hacc
  exact ⟨ct, cp, z, h, w1, a0, sf⟩

end DV.Complete

namespace DV.Complete
open DV DV.NttSem DV.PolySem DV.VecSem DV.RoundSem DV.NttMul DV.NttZ

theorem castL_zipWith_add (a b : List Int) :
    (castL (List.zipWith (fun u v => u + v) a b) : List K) = List.zipWith (fun u v => u + v) (castL a) (castL b) := by
  induction a generalizing b with
  | nil => simp [castL]
  | cons x xs ih =>
    cases b with
    | nil => simp [castL]
    | cons y ys =>
      have := ih ys
      simp only [castL, List.zipWith_cons_cons, List.map_cons, Int.cast_add] at this ⊢
      rw [this]

theorem castL_map_mul (c : Int) (a : List Int) : (castL (a.map (fun v => c * v)) : List K) = (castL a).map (fun v => ((c : Int) : K) * v) := by
  simp only [castL, List.map_map]
  apply List.map_congr_left
  intro x _
  simp

/-- the key relation, read at the 256 roots: t1·2^13 + t0 = A·s1 + s2 -/
def KeyRel (p : Params) (mat : List PolyVec) (s1 s2 t0 t1 : PolyVec) : Prop :=
  ∀ r, r < p.k → ∀ i, i < 256 →
    ((8192 : Int) : K) * El (t1.getD r []) i + El (t0.getD r []) i = rowDot (mat.getD r []) s1 p.l i + El (s2.getD r []) i

set_option maxHeartbeats 1600000 in
/-- **Verifier side.** For the (c̃, z, h) of an accepted iteration and the public t1 that satisfies the key relation with the
    signer's secret, the verifier's arithmetic succeeds and returns the signer's w1, so that `verify_tail` returns the very
    bytes w1Encode(w1) that were hashed into c̃. -/
theorem verify_reconstructs (p : Params) (hp : p ∈ allParams) (mat : List PolyVec) (hmat : MatOK p mat)
    (s1 s2 t0 t1 : PolyVec) (ht1l : t1.length = p.k) (ht1 : ∀ a ∈ t1, T1OK a) (kr : KeyRel p mat s1 s2 t0 t1)
    (mu sig ct : List Nat) (cp : Poly) (z h w1 a0 : PolyVec) (hcp2 : PolyOK 2 cp)
    (sf : SignFacts p mat s1 s2 t0 mu sig ct cp z h w1 a0)
    (pk rho trh : List Nat) (htr : shake256 CRHBYTES p.trBytes pk p.pkBytes = .ok trh) (hme : matrix_expand p FUEL rho = .ok mat) :
    verify_tail p pk rho t1 ct z h = .ok (trh, k_pack_w1 p.lvl w1) := by
  have hq : Q = 8380417 := Q_val'
  obtain ⟨hl0, hl7, hk0, hk8, hg1, hg2, hg1u, hg1l, hb0, hbu, hg2u, hg2l⟩ := params_facts p hp
  obtain ⟨cph, e7, lcph, bcph, ecph⟩ := ntt_sem MK cp hcp2.1 2 (by omega) (by rw [hq]; omega) hcp2.2
  have hc9 : PolyOK (9 * Q) cph := ⟨lcph, Bd_mono _ _ (by rw [hq]; omega) cph bcph⟩
  obtain ⟨zh, wA, t1h, ct1, wS, wR, wI, wv, e1, e2, e3, e4, e5, e6, e8, e9, hwvl, hwvstd, hwvE⟩ :=
    verify_w_sem p hp mat hmat z ((p.gamma1 : Int) - p.beta) (by omega) (by rw [hq]; omega) sf.zl sf.zb
      cph hc9 (fun i => El cp i) ecph t1 ht1l ht1
  have ha0l : a0.length = p.k := by rw [← sf.hint.length.1, sf.w1l]
  have hhl : h.length = p.k := by rw [sf.hint.length.2, ha0l]
  have huse : k_use_hint p.lvl wv h = .ok w1 := by
    apply k_use_hint_of
    apply All3.of_getD [] [] [] wv h w1 (by rw [hhl, hwvl]) (by rw [sf.w1l, hwvl])
    intro r hr
    rw [hwvl] at hr
    obtain ⟨lw1, la0, hrng, hE⟩ := sf.rows r hr
    have fh := sf.hint.getD [] [] [] r (by rw [ha0l]; exact hr)
    have hwvr := hwvstd _ (getD_mem wv r [] (by rw [hwvl]; exact hr))
    have lhr : (h.getD r []).length = 256 := fh.length.2.trans la0
    -- the integer polynomial 2γ2·w1 + a0
    let Wr : List Int := List.zipWith (fun u v => u + v) ((w1.getD r []).map (fun v => (2 * gamma2Of p.lvl) * v)) (a0.getD r [])
    have hWl : Wr.length = 256 := by simp only [Wr, List.length_zipWith, List.length_map, lw1, la0]; rfl
    have hcast : (castL (wv.getD r []) : List K) = castL Wr := by
      apply Ev_inj MK _ _ (by simp only [castL, List.length_map]; exact hwvr.1) (by simp only [castL, List.length_map]; exact hWl)
      intro i hi
      have hW : Ev (castL Wr : List K) i = ((2 * gamma2Of p.lvl : Int) : K) * El (w1.getD r []) i + El (a0.getD r []) i := by
        simp only [Wr]
        rw [castL_zipWith_add, castL_map_mul, Ev_add _ _ (by simp only [castL, List.length_map]; rw [lw1, la0]), Ev_smul]
        rfl
      rw [hW, hE i hi]
      have h1 : (El (wv.getD r []) i : K) = rowDot (mat.getD r []) z p.l i - ((8192 : Int) : K) * El cp i * El (t1.getD r []) i :=
        hwvE r hr i hi
      have h2 := kr r hr i hi
      rw [show Ev (castL (wv.getD r []) : List K) i = El (wv.getD r []) i from rfl, h1]
      linear_combination (-(El cp i)) * h2
    apply All3.of_getD 0 0 0 _ _ _ (by rw [lhr, hwvr.1]) (by rw [lw1, hwvr.1])
    intro n hn
    rw [hwvr.1] at hn
    have hcong := cong_of_castL _ _ hcast n
    have hWn : Wr.getD n 0 = (2 * gamma2Of p.lvl) * (w1.getD r []).getD n 0 + (a0.getD r []).getD n 0 := by
      simp only [Wr]
      rw [zipWith_getD (R := Int) _ _ _ n (by rw [List.length_map, lw1]; exact hn) (by rw [la0]; exact hn),
        map_getD_int _ _ n (by rw [lw1]; exact hn)]
    have hhn := fh.getD 0 0 0 n (by rw [la0]; exact hn)
    have hx := hwvr.2 _ (getD_mem (wv.getD r []) n 0 (by rw [hwvr.1]; exact hn))
    obtain ⟨r1, r2, r3, r4⟩ := hrng n hn
    have key := use_hint_make_hint p.lvl ((w1.getD r []).getD n 0) ((a0.getD r []).getD n 0) ⟨r1, r2⟩ ⟨r3, r4⟩
    rw [hhn]
    have hval : (wv.getD r []).getD n 0 = ((w1.getD r []).getD n 0 * (2 * gamma2Of p.lvl) + (a0.getD r []).getD n 0) % Q := by
      rw [hWn] at hcong
      rw [hq] at hx ⊢
      have e : (w1.getD r []).getD n 0 * (2 * gamma2Of p.lvl) = 2 * gamma2Of p.lvl * (w1.getD r []).getD n 0 := by ring
      rw [e]
      omega
    rw [hval]
    exact key
  unfold verify_tail
  rw [htr, ok_bind, sf.hcp, ok_bind, hme, ok_bind, e1, ok_bind, e2, ok_bind]
  have e7' : poly_ntt cp = .ok cph := e7
  rw [e7', ok_bind]
  simp only []
  rw [e3, ok_bind, e4, ok_bind, e5, ok_bind, e6, ok_bind, e8, ok_bind, e9, ok_bind, huse, ok_bind]

end DV.Complete
