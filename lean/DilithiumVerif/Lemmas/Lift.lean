import DilithiumVerif.Lemmas.Basic
/-
  Lemmas.Lift — lifting element-wise facts through the loop combinators `mapL` / `zipL`.
  `All2 P l r`: l and r have the same length and P holds position by position (same for `All3`).
-/
namespace DV

inductive All2 {α β} (P : α → β → Prop) : List α → List β → Prop
  | nil : All2 P [] []
  | cons {a b as bs} : P a b → All2 P as bs → All2 P (a :: as) (b :: bs)

inductive All3 {α β γ} (P : α → β → γ → Prop) : List α → List β → List γ → Prop
  | nil : All3 P [] [] []
  | cons {a b c as bs cs} : P a b c → All3 P as bs cs → All3 P (a :: as) (b :: bs) (c :: cs)

theorem All2.length {α β} {P : α → β → Prop} : ∀ {l : List α} {r : List β}, All2 P l r → r.length = l.length
  | _, _, .nil => rfl
  | _, _, .cons _ h => by simp [h.length]

theorem All2.mono {α β} {P Q : α → β → Prop} (hpq : ∀ a b, P a b → Q a b) : ∀ {l : List α} {r : List β}, All2 P l r → All2 Q l r
  | _, _, .nil => .nil
  | _, _, .cons h t => .cons (hpq _ _ h) (t.mono hpq)

/-- monotone in the relation, with the left element known to be a member -/
theorem All2.mono_mem {α β} {P Q : α → β → Prop} : ∀ {l : List α} {r : List β}, All2 P l r → (∀ a b, a ∈ l → P a b → Q a b) → All2 Q l r
  | _, _, .nil, _ => .nil
  | _, _, .cons h t, hpq => .cons (hpq _ _ (List.mem_cons_self ..) h)
      (t.mono_mem (fun a b ha => hpq a b (List.mem_cons_of_mem _ ha)))

theorem All2.and {α β} {P Q : α → β → Prop} : ∀ {l : List α} {r : List β}, All2 P l r → All2 Q l r → All2 (fun a b => P a b ∧ Q a b) l r
  | _, _, .nil, .nil => .nil
  | _, _, .cons h t, .cons h' t' => .cons ⟨h, h'⟩ (t.and t')

theorem All2.right {α β} {P : α → β → Prop} {B : β → Prop} (hp : ∀ a b, P a b → B b) : ∀ {l : List α} {r : List β}, All2 P l r → ∀ y ∈ r, B y
  | _, _, .nil, y, hy => by cases hy
  | _, _, .cons h t, y, hy => by
      rcases List.mem_cons.mp hy with rfl | hy
      · exact hp _ _ h
      · exact t.right hp y hy

theorem All2.getD {α β} {P : α → β → Prop} (da : α) (db : β) : ∀ {l : List α} {r : List β}, All2 P l r → ∀ i, i < l.length → P (l.getD i da) (r.getD i db)
  | _, _, .nil, i, hi => by simp at hi
  | _, _, .cons h t, 0, _ => by simpa using h
  | _, _, .cons h t, i + 1, hi => by
      have := t.getD da db i (by simpa using hi)
      simpa using this

theorem All2.of_getD {α β} {P : α → β → Prop} (da : α) (db : β) : ∀ (l : List α) (r : List β), r.length = l.length →
    (∀ i, i < l.length → P (l.getD i da) (r.getD i db)) → All2 P l r
  | [], [], _, _ => .nil
  | [], _ :: _, h, _ => by simp at h
  | _ :: _, [], h, _ => by simp at h
  | a :: as, b :: bs, h, hp => by
      refine .cons (by simpa using hp 0 (by simp)) (All2.of_getD da db as bs (by simpa using h) ?_)
      intro i hi
      have := hp (i + 1) (by simpa using hi)
      simpa using this

theorem All2.map_eq {α β γ} {f : α → γ} {g : β → γ} : ∀ {l : List α} {r : List β}, All2 (fun a b => g b = f a) l r → r.map g = l.map f
  | _, _, .nil => rfl
  | _, _, .cons h t => by simp [h, t.map_eq]

theorem All2.refl_of {α} {P : α → α → Prop} : ∀ (l : List α), (∀ a ∈ l, P a a) → All2 P l l
  | [], _ => .nil
  | a :: as, h => .cons (h a (List.mem_cons_self ..)) (All2.refl_of as (fun x hx => h x (List.mem_cons_of_mem _ hx)))

/-- compose two position-wise relations -/
theorem All2.trans {α β γ} {P : α → β → Prop} {Q : β → γ → Prop} {S : α → γ → Prop} (h : ∀ a b c, P a b → Q b c → S a c) :
    ∀ {l : List α} {m : List β} {r : List γ}, All2 P l m → All2 Q m r → All2 S l r
  | _, _, _, .nil, .nil => .nil
  | _, _, _, .cons p t, .cons q t' => .cons (h _ _ _ p q) (t.trans h t')

theorem All3.length {α β γ} {P : α → β → γ → Prop} : ∀ {a : List α} {b : List β} {c : List γ}, All3 P a b c → b.length = a.length ∧ c.length = a.length
  | _, _, _, .nil => ⟨rfl, rfl⟩
  | _, _, _, .cons _ h => by simp [h.length.1, h.length.2]

theorem All3.out {α β γ} {P : α → β → γ → Prop} {C : γ → Prop} (hp : ∀ a b c, P a b c → C c) :
    ∀ {a : List α} {b : List β} {c : List γ}, All3 P a b c → ∀ z ∈ c, C z
  | _, _, _, .nil, z, hz => by cases hz
  | _, _, _, .cons h t, z, hz => by
      rcases List.mem_cons.mp hz with rfl | hz
      · exact hp _ _ _ h
      · exact t.out hp z hz

theorem All3.mid {α β γ} {P : α → β → γ → Prop} {B : β → Prop} (hp : ∀ a b c, P a b c → B b) :
    ∀ {a : List α} {b : List β} {c : List γ}, All3 P a b c → ∀ y ∈ b, B y
  | _, _, _, .nil, y, hy => by cases hy
  | _, _, _, .cons h t, y, hy => by
      rcases List.mem_cons.mp hy with rfl | hy
      · exact hp _ _ _ h
      · exact t.mid hp y hy

theorem All3.getD {α β γ} {P : α → β → γ → Prop} (da : α) (db : β) (dc : γ) : ∀ {a : List α} {b : List β} {c : List γ}, All3 P a b c →
    ∀ i, i < a.length → P (a.getD i da) (b.getD i db) (c.getD i dc)
  | _, _, _, .nil, i, hi => by simp at hi
  | _, _, _, .cons h t, 0, _ => by simpa using h
  | _, _, _, .cons h t, i + 1, hi => by
      have := t.getD da db dc i (by simpa using hi)
      simpa using this

theorem All3.zipWith_eq {α β γ δ} {f : α → β → δ} {g : γ → δ} : ∀ {a : List α} {b : List β} {c : List γ},
    All3 (fun x y z => g z = f x y) a b c → c.map g = List.zipWith f a b
  | _, _, _, .nil => rfl
  | _, _, _, .cons h t => by simp [h, t.zipWith_eq]

theorem All3.mono {α β γ} {P Q : α → β → γ → Prop} (hpq : ∀ a b c, P a b c → Q a b c) : ∀ {a : List α} {b : List β} {c : List γ}, All3 P a b c → All3 Q a b c
  | _, _, _, .nil => .nil
  | _, _, _, .cons h t => .cons (hpq _ _ _ h) (t.mono hpq)

/-! ### the loop combinators -/

/-- total form: every element satisfies A, and A x makes `f x` succeed with P x y -/
theorem mapL_total {α β} (f : α → Chk β) (A : α → Prop) (P : α → β → Prop) (hf : ∀ x, A x → ∃ y, f x = .ok y ∧ P x y) :
    ∀ (l : List α), (∀ x ∈ l, A x) → ∃ r, mapL f l = .ok r ∧ All2 P l r
  | [], _ => ⟨[], rfl, .nil⟩
  | x :: xs, h => by
      obtain ⟨y, hy, hp⟩ := hf x (h x (List.mem_cons_self ..))
      obtain ⟨ys, hys, ht⟩ := mapL_total f A P hf xs (fun z hz => h z (List.mem_cons_of_mem _ hz))
      refine ⟨y :: ys, ?_, .cons hp ht⟩
      unfold mapL; rw [hy, ok_bind, hys]; rfl

/-- conditional form: from a successful run -/
theorem mapL_rel_ok {α β} (f : α → Chk β) (A : α → Prop) (P : α → β → Prop) (hf : ∀ x y, A x → f x = .ok y → P x y) :
    ∀ (l : List α) (r : List β), (∀ x ∈ l, A x) → mapL f l = .ok r → All2 P l r
  | [], r, _, h => by simp [mapL] at h; subst h; exact .nil
  | x :: xs, r, hA, h => by
      unfold mapL at h
      obtain ⟨y, hy, h⟩ := bind_eq_ok.mp h
      obtain ⟨ys, hys, h⟩ := bind_eq_ok.mp h
      injection h with h; subst h
      exact .cons (hf x y (hA x (List.mem_cons_self ..)) hy) (mapL_rel_ok f A P hf xs ys (fun z hz => hA z (List.mem_cons_of_mem _ hz)) hys)

theorem zipL_total {α β γ} (f : α → β → Chk γ) (A : α → Prop) (B : β → Prop) (P : α → β → γ → Prop)
    (hf : ∀ x y, A x → B y → ∃ z, f x y = .ok z ∧ P x y z) :
    ∀ (a : List α) (b : List β), a.length = b.length → (∀ x ∈ a, A x) → (∀ y ∈ b, B y) → ∃ r, zipL f a b = .ok r ∧ All3 P a b r
  | [], [], _, _, _ => ⟨[], rfl, .nil⟩
  | [], _ :: _, h, _, _ => by simp at h
  | _ :: _, [], h, _, _ => by simp at h
  | x :: xs, y :: ys, h, hA, hB => by
      obtain ⟨z, hz, hp⟩ := hf x y (hA x (List.mem_cons_self ..)) (hB y (List.mem_cons_self ..))
      obtain ⟨zs, hzs, ht⟩ := zipL_total f A B P hf xs ys (by simpa using h) (fun w hw => hA w (List.mem_cons_of_mem _ hw))
        (fun w hw => hB w (List.mem_cons_of_mem _ hw))
      refine ⟨z :: zs, ?_, .cons hp ht⟩
      unfold zipL; rw [hz, ok_bind, hzs]; rfl

/-- `zipL` driven by a position-wise relation between its two arguments -/
theorem zipL_total2 {α β γ} (f : α → β → Chk γ) (A : α → β → Prop) (P : α → β → γ → Prop)
    (hf : ∀ x y, A x y → ∃ z, f x y = .ok z ∧ P x y z) :
    ∀ {a : List α} {b : List β}, All2 A a b → ∃ r, zipL f a b = .ok r ∧ All3 P a b r
  | _, _, .nil => ⟨[], rfl, .nil⟩
  | _, _, .cons h t => by
      obtain ⟨z, hz, hp⟩ := hf _ _ h
      obtain ⟨zs, hzs, ht⟩ := zipL_total2 f A P hf t
      refine ⟨z :: zs, ?_, .cons hp ht⟩
      unfold zipL; rw [hz, ok_bind, hzs]; rfl

theorem zipL_rel_ok {α β γ} (f : α → β → Chk γ) (A : α → Prop) (B : β → Prop) (P : α → β → γ → Prop)
    (hf : ∀ x y z, A x → B y → f x y = .ok z → P x y z) :
    ∀ (a : List α) (b : List β) (r : List γ), (∀ x ∈ a, A x) → (∀ y ∈ b, B y) → zipL f a b = .ok r → All3 P a b r
  | [], [], r, _, _, h => by simp [zipL] at h; subst h; exact .nil
  | [], _ :: _, r, _, _, h => by simp [zipL] at h
  | _ :: _, [], r, _, _, h => by simp [zipL] at h
  | x :: xs, y :: ys, r, hA, hB, h => by
      unfold zipL at h
      obtain ⟨z, hz, h⟩ := bind_eq_ok.mp h
      obtain ⟨zs, hzs, h⟩ := bind_eq_ok.mp h
      injection h with h; subst h
      exact .cons (hf x y z (hA x (List.mem_cons_self ..)) (hB y (List.mem_cons_self ..)) hz)
        (zipL_rel_ok f A B P hf xs ys zs (fun w hw => hA w (List.mem_cons_of_mem _ hw)) (fun w hw => hB w (List.mem_cons_of_mem _ hw)) hzs)

end DV
