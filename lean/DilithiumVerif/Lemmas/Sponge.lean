import DilithiumVerif.Impl.Keccak
import DilithiumVerif.Lemmas.Basic
/-
  Lemmas.Sponge — the sponge loops of fips202.rs, generic in the permutation `f`:
  fuel-free specification functions, agreement of the fuelled model loops with them, and the split lemmas.
-/
namespace DV

theorem xorBytes_append (s : Lanes) (pos : Nat) (a b : List Nat) :
    xorBytes s pos (a ++ b) = xorBytes (xorBytes s pos a) (pos + a.length) b := by
  induction a generalizing s pos with
  | nil => simp [xorBytes]
  | cons x xs ih =>
    simp only [List.cons_append, xorBytes, List.length_cons]
    rw [ih]; congr 1; omega

/-- fuel-free absorb: full blocks are XORed in and permuted, the tail stays in the state -/
def absorbSpec (f : Lanes → Lanes) (r : Nat) (s : Lanes) (pos : Nat) (inp : List Nat) : KeccakState :=
  if h : pos < r ∧ r ≤ pos + inp.length then
    absorbSpec f r (f (xorBytes s pos (inp.take (r - pos)))) 0 (inp.drop (r - pos))
  else { s := xorBytes s pos inp, pos := pos + inp.length }
termination_by inp.length
decreasing_by simp only [List.length_drop]; omega

theorem absorbSpec_block (f : Lanes → Lanes) (r : Nat) (s : Lanes) (pos : Nat) (inp : List Nat)
    (h : pos < r ∧ r ≤ pos + inp.length) :
    absorbSpec f r s pos inp = absorbSpec f r (f (xorBytes s pos (inp.take (r - pos)))) 0 (inp.drop (r - pos)) := by
  rw [absorbSpec]; simp only [h, and_self, dite_true]

theorem absorbSpec_tail (f : Lanes → Lanes) (r : Nat) (s : Lanes) (pos : Nat) (inp : List Nat)
    (h : ¬ (pos < r ∧ r ≤ pos + inp.length)) :
    absorbSpec f r s pos inp = { s := xorBytes s pos inp, pos := pos + inp.length } := by
  rw [absorbSpec]; simp only [h, dite_false]

/-- the fuelled loop of the model computes `absorbSpec` whenever the fuel suffices -/
theorem absorb_loop_eq (f : Lanes → Lanes) (r : Nat) : ∀ (fuel : Nat) (s : Lanes) (pos : Nat) (inp : List Nat),
    pos < r → inp.length + 1 ≤ fuel →
    keccak_absorb_loop f r fuel s pos inp inp.length = .ok (absorbSpec f r s pos inp) := by
  intro fuel
  induction fuel with
  | zero => intro s pos inp _ h; omega
  | succ n ih =>
    intro s pos inp hp hf
    unfold keccak_absorb_loop
    by_cases hb : pos + inp.length ≥ r
    · simp only [hb, if_true]
      have ht : r - pos ≤ inp.length := by omega
      unfold takeC
      simp only [ht, if_true, ok_bind]
      have hl : inp.length - (r - pos) = (inp.drop (r - pos)).length := by simp
      rw [hl, absorbSpec_block f r s pos inp ⟨hp, hb⟩]
      apply ih
      · omega
      · simp only [List.length_drop]; omega
    · simp only [hb, if_false]
      unfold takeC
      simp only [Nat.le_refl, if_true, ok_bind, List.take_length]
      rw [absorbSpec_tail f r s pos inp (by omega)]

/-- absorbing a concatenation = absorbing the pieces one after the other -/
theorem absorbSpec_append (f : Lanes → Lanes) (r : Nat) : ∀ (n : Nat) (s : Lanes) (pos : Nat) (a b : List Nat),
    a.length = n → pos < r →
    absorbSpec f r s pos (a ++ b) = absorbSpec f r (absorbSpec f r s pos a).s (absorbSpec f r s pos a).pos b := by
  intro n
  induction n using Nat.strongRecOn with
  | _ n ih =>
    intro s pos a b hn hp
    by_cases hb : r ≤ pos + a.length
    · -- the first block comes entirely from `a`
      have hk : r - pos ≤ a.length := by omega
      rw [absorbSpec_block f r s pos (a ++ b) ⟨hp, by simp; omega⟩, absorbSpec_block f r s pos a ⟨hp, hb⟩]
      rw [List.take_append_of_le_length hk, List.drop_append_of_le_length hk]
      exact ih (a.drop (r - pos)).length (by simp; omega) _ 0 _ b rfl (by omega)
    · rw [absorbSpec_tail f r s pos a (by omega)]
      simp only
      by_cases hc : r ≤ pos + (a ++ b).length
      · have hp2 : pos + a.length < r := by omega
        rw [absorbSpec_block f r s pos (a ++ b) ⟨hp, hc⟩,
            absorbSpec_block f r (xorBytes s pos a) (pos + a.length) b ⟨hp2, by simp at hc; omega⟩]
        have e1 : (a ++ b).take (r - pos) = a ++ b.take (r - (pos + a.length)) := by
          rw [List.take_append, List.take_of_length_le (by omega)]
          congr 2; omega
        have e2 : (a ++ b).drop (r - pos) = b.drop (r - (pos + a.length)) := by
          rw [List.drop_append, List.drop_of_length_le (by omega)]
          simp only [List.nil_append]; congr 1; omega
        rw [e1, e2, xorBytes_append]
      · simp only [List.length_append] at hc
        rw [absorbSpec_tail f r s pos (a ++ b) (by simp; omega),
            absorbSpec_tail f r (xorBytes s pos a) (pos + a.length) b (by omega)]
        rw [xorBytes_append]; simp only [List.length_append]; congr 1; omega

end DV

namespace DV

/-- the bytes of the current block from position `pos`, `n` of them -/
def blockBytes (s : Lanes) (pos n : Nat) : List Nat := (List.range n).map (fun j => getByte s (pos + j))

theorem blockBytes_add (s : Lanes) (pos a b : Nat) :
    blockBytes s pos (a + b) = blockBytes s pos a ++ blockBytes s (pos + a) b := by
  unfold blockBytes
  rw [List.range_add, List.map_append, List.map_map]
  congr 1
  apply List.map_congr_left
  intro j _; simp only [Function.comp]; congr 1; omega

/-- fuel-free squeeze: (bytes, lanes, position) -/
def squeezeSpec (f : Lanes → Lanes) (r : Nat) (s : Lanes) (pos : Nat) (outlen : Nat) : List Nat × Lanes × Nat :=
  if h : outlen = 0 ∨ r = 0 ∨ r < pos then ([], s, pos) else
    let s' := if pos = r then f s else s
    let pos' := if pos = r then 0 else pos
    let n := min (r - pos') outlen
    let rest := squeezeSpec f r s' (pos' + n) (outlen - n)
    (blockBytes s' pos' n ++ rest.1, rest.2.1, rest.2.2)
termination_by outlen
decreasing_by
  simp only [not_or, Nat.not_lt] at h
  split <;> omega

theorem squeezeSpec_zero (f : Lanes → Lanes) (r : Nat) (s : Lanes) (pos : Nat) : squeezeSpec f r s pos 0 = ([], s, pos) := by
  rw [squeezeSpec]; simp

theorem squeezeSpec_step (f : Lanes → Lanes) (r : Nat) (s : Lanes) (pos outlen : Nat) (h : ¬ (outlen = 0 ∨ r = 0 ∨ r < pos)) :
    squeezeSpec f r s pos outlen =
      (blockBytes (if pos = r then f s else s) (if pos = r then 0 else pos) (min (r - (if pos = r then 0 else pos)) outlen) ++
        (squeezeSpec f r (if pos = r then f s else s) ((if pos = r then 0 else pos) + min (r - (if pos = r then 0 else pos)) outlen)
          (outlen - min (r - (if pos = r then 0 else pos)) outlen)).1,
       (squeezeSpec f r (if pos = r then f s else s) ((if pos = r then 0 else pos) + min (r - (if pos = r then 0 else pos)) outlen)
          (outlen - min (r - (if pos = r then 0 else pos)) outlen)).2.1,
       (squeezeSpec f r (if pos = r then f s else s) ((if pos = r then 0 else pos) + min (r - (if pos = r then 0 else pos)) outlen)
          (outlen - min (r - (if pos = r then 0 else pos)) outlen)).2.2) := by
  rw [squeezeSpec]; simp only [h, dite_false]

theorem squeeze_loop_eq (f : Lanes → Lanes) (r : Nat) (hr : 0 < r) : ∀ (fuel : Nat) (acc : List Nat) (outlen : Nat) (s : Lanes) (pos : Nat),
    pos ≤ r → outlen + 1 ≤ fuel →
    keccak_squeeze_loop f r fuel acc outlen s pos =
      (acc ++ (squeezeSpec f r s pos outlen).1, (squeezeSpec f r s pos outlen).2.1, (squeezeSpec f r s pos outlen).2.2) := by
  intro fuel
  induction fuel with
  | zero => intro acc outlen s pos _ h; omega
  | succ n ih =>
    intro acc outlen s pos hp hf
    unfold keccak_squeeze_loop
    by_cases h0 : outlen = 0
    · subst h0; rw [squeezeSpec_zero]; simp
    · simp only [h0, if_false]
      rw [squeezeSpec_step f r s pos outlen (by omega)]
      by_cases hpr : pos = r
      · subst hpr
        simp only [if_true, Nat.sub_zero, Nat.zero_add]
        rw [ih _ _ _ _ (by omega) (by omega)]
        simp only [blockBytes, Nat.zero_add, List.append_assoc]
      · simp only [hpr, if_false]
        rw [ih _ _ _ _ (by omega) (by omega)]
        simp only [blockBytes, List.append_assoc]

/-- any sequence of squeeze requests returns consecutive slices of one output stream: squeezing n + m bytes in one
    request (however many rate blocks it crosses) = squeezing n bytes and then m bytes -/
theorem squeezeSpec_split (f : Lanes → Lanes) (r : Nat) (hr : 0 < r) : ∀ (n : Nat) (m : Nat) (s : Lanes) (pos : Nat), pos ≤ r →
    squeezeSpec f r s pos (n + m) =
      ((squeezeSpec f r s pos n).1 ++ (squeezeSpec f r (squeezeSpec f r s pos n).2.1 (squeezeSpec f r s pos n).2.2 m).1,
       (squeezeSpec f r (squeezeSpec f r s pos n).2.1 (squeezeSpec f r s pos n).2.2 m).2.1,
       (squeezeSpec f r (squeezeSpec f r s pos n).2.1 (squeezeSpec f r s pos n).2.2 m).2.2) := by
  intro n
  induction n using Nat.strongRecOn with
  | _ n ih =>
    intro m s pos hp
    by_cases hn : n = 0
    · subst hn
      simp only [Nat.zero_add, squeezeSpec_zero, List.nil_append]
    · by_cases hm : m = 0
      · subst hm
        simp only [Nat.add_zero, squeezeSpec_zero, List.append_nil]
      · rw [squeezeSpec_step f r s pos (n + m) (by omega), squeezeSpec_step f r s pos n (by omega)]
        generalize hs' : (if pos = r then f s else s) = s'
        generalize hp' : (if pos = r then 0 else pos) = p'
        have hp2 : p' < r := by subst hp'; split <;> omega
        by_cases hcase : n ≤ r - p'
        · have e1 : min (r - p') n = n := Nat.min_eq_right hcase
          simp only [e1, Nat.sub_self, squeezeSpec_zero, List.append_nil]
          by_cases hfull : n + m ≤ r - p'
          · have e2 : min (r - p') (n + m) = n + m := Nat.min_eq_right hfull
            simp only [e2, Nat.sub_self, squeezeSpec_zero, List.append_nil]
            rw [squeezeSpec_step f r s' (p' + n) m (by omega)]
            have hne : ¬ (p' + n = r) := by omega
            simp only [hne, if_false]
            have e3 : min (r - (p' + n)) m = m := by apply Nat.min_eq_right; omega
            simp only [e3, Nat.sub_self, squeezeSpec_zero, List.append_nil, blockBytes_add, Nat.add_assoc]
          · have e2 : min (r - p') (n + m) = r - p' := by apply Nat.min_eq_left; omega
            simp only [e2]
            rw [squeezeSpec_step f r s' (p' + n) m (by omega)]
            by_cases hend : p' + n = r
            · simp only [hend, if_true]
              have hn' : n = r - p' := by omega
              subst hn'
              have e4 : p' + (r - p') = r := by omega
              have e5 : r - p' + m - (r - p') = m := by omega
              rw [e4, e5, squeezeSpec_step f r s' r m (by omega)]
              simp only [if_true, List.append_assoc]
            · simp only [hend, if_false]
              have e6 : min (r - (p' + n)) m = r - (p' + n) := by apply Nat.min_eq_left; omega
              simp only [e6]
              have e7 : r - p' = n + (r - (p' + n)) := by omega
              have e8 : p' + n + (r - (p' + n)) = p' + (r - p') := by omega
              have e9 : m - (r - (p' + n)) = n + m - (r - p') := by omega
              rw [e8, e9]
              conv => lhs; rw [e7, blockBytes_add]
              simp only [List.append_assoc]
              rw [← e7]
        · have e1 : min (r - p') n = r - p' := by apply Nat.min_eq_left; omega
          have e2 : min (r - p') (n + m) = r - p' := by apply Nat.min_eq_left; omega
          simp only [e1, e2]
          have e3 : n + m - (r - p') = (n - (r - p')) + m := by omega
          rw [e3, ih (n - (r - p')) (by omega) m s' (p' + (r - p')) (by omega)]
          simp only [List.append_assoc]

end DV

namespace DV

theorem absorbSpec_pos_lt (f : Lanes → Lanes) (r : Nat) : ∀ (n : Nat) (s : Lanes) (pos : Nat) (inp : List Nat),
    inp.length = n → pos < r → (absorbSpec f r s pos inp).pos < r := by
  intro n
  induction n using Nat.strongRecOn with
  | _ n ih =>
    intro s pos inp hn hp
    by_cases hb : r ≤ pos + inp.length
    · rw [absorbSpec_block f r s pos inp ⟨hp, hb⟩]
      exact ih (inp.drop (r - pos)).length (by simp; omega) _ 0 _ rfl (by omega)
    · rw [absorbSpec_tail f r s pos inp (by omega)]; simp only; omega

/-- the model's `keccak_absorb` on a whole list is `absorbSpec` -/
theorem keccak_absorb_eq (f : Lanes → Lanes) (r : Nat) (st : KeccakState) (inp : List Nat) (hp : st.pos < r) :
    keccak_absorb f r st inp inp.length = .ok (absorbSpec f r st.s st.pos inp) := by
  unfold keccak_absorb
  exact absorb_loop_eq f r _ st.s st.pos inp hp (by omega)

/-- `keccak_squeezeblocks` = squeezing n·r bytes from a block boundary -/
theorem squeezeblocks_loop_eq (f : Lanes → Lanes) (r : Nat) (hr : 0 < r) (h8 : r % 8 = 0) : ∀ (n : Nat) (acc : List Nat) (s : Lanes),
    keccak_squeezeblocks_loop f r n acc s =
      (acc ++ (squeezeSpec f r s r (n * r)).1, (squeezeSpec f r s r (n * r)).2.1) := by
  intro n
  induction n with
  | zero => intro acc s; simp [keccak_squeezeblocks_loop, squeezeSpec_zero]
  | succ k ih =>
    intro acc s
    unfold keccak_squeezeblocks_loop
    have e8 : 8 * (r / 8) = r := by omega
    simp only [e8]
    rw [ih]
    have hk : (k + 1) * r = r + k * r := by rw [Nat.succ_mul]; omega
    rw [hk, squeezeSpec_split f r hr r (k * r) s r (Nat.le_refl r)]
    rw [squeezeSpec_step f r s r r (by omega)]
    simp only [if_true, Nat.sub_zero, Nat.min_self, Nat.sub_self, squeezeSpec_zero, List.append_nil, Nat.zero_add,
      blockBytes, List.append_assoc]

end DV
