import DilithiumVerif.Lemmas.Padding
import DilithiumVerif.Lemmas.UniformStream
import DilithiumVerif.Lemmas.EtaStream
/-
  Lemmas.XofSpec — SHAKE-128 / SHAKE-256 as *functions*  M, n ↦ first n output bytes of the FIPS 202 sponge of the
  padded message, and every way the crate calls the XOFs (one-shot, stream init + squeezeblocks, incremental μ / c̃)
  expressed through them.
-/
namespace DV.XofSpec
open DV DV.Padding DV.ShakeTotal DV.ShakeSmall DV.OneShot

/-- the sponge state after absorbing  M ‖ pad  (a permutation after every full block, including the last) -/
def sponge (r : Nat) (M : List Nat) : Lanes :=
  (absorbSpec keccakf r KeccakState.init.s 0 (M ++ padBytes r (M.length % r))).s

/-- SHAKE-256(M, 8n): the first n bytes of the output stream -/
def SHAKE256 (M : List Nat) (n : Nat) : List Nat := (squeezeSpec keccakf R256 (sponge R256 M) 0 n).1
/-- SHAKE-128(M, 8n) -/
def SHAKE128 (M : List Nat) (n : Nat) : List Nat := (squeezeSpec keccakf R128 (sponge R128 M) 0 n).1

theorem SHAKE256_length (M : List Nat) (n : Nat) : (SHAKE256 M n).length = n :=
  squeezeSpec_length keccakf R256 (by decide) n _ 0 (Nat.zero_le _)
theorem SHAKE128_length (M : List Nat) (n : Nat) : (SHAKE128 M n).length = n :=
  squeezeSpec_length keccakf R128 (by decide) n _ 0 (Nat.zero_le _)

/-- a longer request extends a shorter one: the functions are prefixes of one output stream -/
theorem SHAKE256_prefix (M : List Nat) (n m : Nat) : (SHAKE256 M (n + m)).take n = SHAKE256 M n := by
  unfold SHAKE256
  rw [squeezeSpec_split keccakf R256 (by decide) n m _ 0 (Nat.zero_le _)]
  simp only
  rw [List.take_append_of_le_length (Nat.le_of_eq (squeezeSpec_length keccakf R256 (by decide) n _ 0 (Nat.zero_le _)).symm),
    List.take_of_length_le (Nat.le_of_eq (squeezeSpec_length keccakf R256 (by decide) n _ 0 (Nat.zero_le _)))]
theorem SHAKE128_prefix (M : List Nat) (n m : Nat) : (SHAKE128 M (n + m)).take n = SHAKE128 M n := by
  unfold SHAKE128
  rw [squeezeSpec_split keccakf R128 (by decide) n m _ 0 (Nat.zero_le _)]
  simp only
  rw [List.take_append_of_le_length (Nat.le_of_eq (squeezeSpec_length keccakf R128 (by decide) n _ 0 (Nat.zero_le _)).symm),
    List.take_of_length_le (Nat.le_of_eq (squeezeSpec_length keccakf R128 (by decide) n _ 0 (Nat.zero_le _)))]

theorem finalize256_of_spec (M : List Nat) :
    ∃ st, shake256_finalize (absorbSpec keccakf R256 KeccakState.init.s 0 M) = .ok st ∧ st.pos = R256 ∧ keccakf st.s = sponge R256 M := by
  obtain ⟨st, h, hp, hs⟩ := finalize_is_padding M
  unfold shake256_absorb at h
  rw [keccak_absorb_eq keccakf R256 KeccakState.init M (by decide), ok_bind] at h
  refine ⟨st, h, hp, ?_⟩
  unfold sponge; rw [hs]

theorem finalize128_of_spec (M : List Nat) :
    ∃ st, shake128_finalize (absorbSpec keccakf R128 KeccakState.init.s 0 M) = .ok st ∧ st.pos = R128 ∧ keccakf st.s = sponge R128 M := by
  obtain ⟨st, h, hp, hs⟩ := finalize_is_padding128 M
  unfold shake128_absorb at h
  rw [keccak_absorb_eq keccakf R128 KeccakState.init M (by decide), ok_bind] at h
  refine ⟨st, h, hp, ?_⟩
  unfold sponge; rw [hs]

/-- the one-shot function -/
theorem shake256n_spec (n : Nat) (M : List Nat) (hn : n < R256) : shake256n n M = .ok (SHAKE256 M n) := by
  unfold shake256n
  rw [shake256_oneshot_eq_incremental n M hn]
  obtain ⟨st, hst, out, st', hsq, hout⟩ := shake256_is_padded_sponge M n
  obtain ⟨st1, h1⟩ : ∃ st1, shake256_absorb KeccakState.init M M.length = .ok st1 := by
    cases hc : shake256_absorb KeccakState.init M M.length with
    | ok v => exact ⟨v, rfl⟩
    | error e => rw [hc] at hst; cases hst
  rw [h1, ok_bind] at hst ⊢
  rw [hst, ok_bind, hsq, ok_bind, hout]
  rfl

/-- squeezing from a finalized state: position = rate -/
theorem squeeze_from_final (r : Nat) (hr : 0 < r) (s : Lanes) (n : Nat) :
    (squeezeSpec keccakf r s r n).1 = (squeezeSpec keccakf r (keccakf s) 0 n).1 := squeeze_boundary keccakf r hr s n

/-- the SHAKE-256 streams of the crate: absorb a 64-byte seed and a 2-byte little-endian nonce, finalize, squeeze blocks -/
theorem stream256_spec (seed : List Nat) (nonce : Nat) (st : KeccakState) (hl : seed.length = CRHBYTES)
    (h : shake256_stream_init seed nonce = .ok st) (n : Nat) :
    DV.EtaStream.stream256 st.s n = SHAKE256 (seed ++ [nonce % 256, (nonce / 256) % 256]) (n * R256) := by
  unfold shake256_stream_init shake256_absorb at h
  simp only at h
  rw [← hl, keccak_absorb_eq keccakf R256 KeccakState.init seed (by decide), ok_bind] at h
  have hp := absorbSpec_pos_lt keccakf R256 seed.length KeccakState.init.s 0 seed rfl (by decide : 0 < R256)
  have e2 : (2 : Nat) = [nonce % 256, (nonce / 256) % 256].length := rfl
  have hip : KeccakState.init.pos = 0 := rfl
  rw [hip, e2, keccak_absorb_eq keccakf R256 (absorbSpec keccakf R256 KeccakState.init.s 0 seed) [nonce % 256, (nonce / 256) % 256] hp, ok_bind,
    ← absorbSpec_append keccakf R256 seed.length KeccakState.init.s 0 seed _ rfl (by decide)] at h
  obtain ⟨st', h', _, hs⟩ := finalize256_of_spec (seed ++ [nonce % 256, (nonce / 256) % 256])
  rw [h'] at h; injection h with h; subst h
  unfold DV.EtaStream.stream256 DV.EtaStream.streamOf SHAKE256
  rw [squeezeblocks_loop_eq keccakf R256 (by decide) (by decide) n [] st'.s]
  simp only [List.nil_append]
  rw [squeeze_from_final R256 (by decide), hs]

/-- the SHAKE-128 streams: 32-byte seed and 2-byte nonce -/
theorem stream128_spec (seed : List Nat) (nonce : Nat) (st : KeccakState) (hl : seed.length = SEEDBYTES)
    (h : shake128_stream_init seed nonce = .ok st) (n : Nat) :
    DV.UniformStream.stream128 st.s n = SHAKE128 (seed ++ [nonce % 256, (nonce / 256) % 256]) (n * R128) := by
  unfold shake128_stream_init shake128_absorb at h
  simp only at h
  rw [← hl, keccak_absorb_eq keccakf R128 KeccakState.init seed (by decide), ok_bind] at h
  have hp := absorbSpec_pos_lt keccakf R128 seed.length KeccakState.init.s 0 seed rfl (by decide : 0 < R128)
  have e2 : (2 : Nat) = [nonce % 256, (nonce / 256) % 256].length := rfl
  have hip : KeccakState.init.pos = 0 := rfl
  rw [hip, e2, keccak_absorb_eq keccakf R128 (absorbSpec keccakf R128 KeccakState.init.s 0 seed) [nonce % 256, (nonce / 256) % 256] hp, ok_bind,
    ← absorbSpec_append keccakf R128 seed.length KeccakState.init.s 0 seed _ rfl (by decide)] at h
  obtain ⟨st', h', _, hs⟩ := finalize128_of_spec (seed ++ [nonce % 256, (nonce / 256) % 256])
  rw [h'] at h; injection h with h; subst h
  unfold DV.UniformStream.stream128 DV.UniformStream.streamOf SHAKE128
  rw [squeezeblocks_loop_eq keccakf R128 (by decide) (by decide) n [] st'.s]
  simp only [List.nil_append]
  rw [squeeze_from_final R128 (by decide), hs]

/-- one-shot with a larger output buffer -/
theorem shake256_cap_spec (cap n : Nat) (M : List Nat) (hn : n < R256) (hc : n ≤ cap) : shake256 cap n M M.length = .ok (SHAKE256 M n) := by
  rw [shake256_cap_indep cap n n M M.length hn hc (Nat.le_refl _)]
  exact shake256n_spec n M hn

/-- squeezing n bytes from a finalized state whose permutation is the sponge of M -/
theorem squeeze_final_spec (M : List Nat) (st : KeccakState) (hp : st.pos = R256) (hs : keccakf st.s = sponge R256 M) (n : Nat) :
    ∃ st', shake256_squeeze n n st = .ok (SHAKE256 M n, st') := by
  refine ⟨{ s := (squeezeSpec keccakf R256 st.s st.pos n).2.1, pos := (squeezeSpec keccakf R256 st.s st.pos n).2.2 }, ?_⟩
  unfold shake256_squeeze keccak_squeeze
  rw [if_pos (Nat.le_refl _), ok_bind]
  rw [squeeze_loop_eq keccakf R256 (by decide) _ [] n st.s st.pos (by rw [hp]; exact Nat.le_refl _) (by omega)]
  simp only [List.nil_append]
  rw [hp]
  unfold SHAKE256
  rw [← hs, ← squeeze_from_final R256 (by decide)]

/-- absorbing two pieces, finalizing and squeezing = SHAKE-256 of the concatenation -/
theorem absorb2_spec (a b : List Nat) (n : Nat) :
    (shake256_absorb KeccakState.init a a.length >>= fun st => shake256_absorb st b b.length >>= fun st =>
      shake256_finalize st >>= fun st => shake256_squeeze n n st >>= fun r => (.ok r.1 : Chk (List Nat))) = .ok (SHAKE256 (a ++ b) n) := by
  unfold shake256_absorb
  rw [keccak_absorb_eq keccakf R256 KeccakState.init a (by decide), ok_bind]
  have hip : KeccakState.init.pos = 0 := rfl
  rw [hip]
  have hp := absorbSpec_pos_lt keccakf R256 a.length KeccakState.init.s 0 a rfl (by decide : 0 < R256)
  rw [keccak_absorb_eq keccakf R256 (absorbSpec keccakf R256 KeccakState.init.s 0 a) b hp, ok_bind,
    ← absorbSpec_append keccakf R256 a.length KeccakState.init.s 0 a b rfl (by decide)]
  obtain ⟨st, h, hpos, hs⟩ := finalize256_of_spec (a ++ b)
  rw [h, ok_bind]
  obtain ⟨st', h'⟩ := squeeze_final_spec (a ++ b) st hpos hs n
  rw [h', ok_bind]


/-- absorbing three pieces, finalizing and squeezing = SHAKE-256 of the concatenation -/
theorem absorb3_spec (a b c : List Nat) (n : Nat) :
    (shake256_absorb KeccakState.init a a.length >>= fun st => shake256_absorb st b b.length >>= fun st =>
      shake256_absorb st c c.length >>= fun st =>
      shake256_finalize st >>= fun st => shake256_squeeze n n st >>= fun r => (.ok r.1 : Chk (List Nat))) = .ok (SHAKE256 (a ++ b ++ c) n) := by
  unfold shake256_absorb
  rw [keccak_absorb_eq keccakf R256 KeccakState.init a (by decide), ok_bind]
  have hip : KeccakState.init.pos = 0 := rfl
  rw [hip]
  have hp := absorbSpec_pos_lt keccakf R256 a.length KeccakState.init.s 0 a rfl (by decide : 0 < R256)
  rw [keccak_absorb_eq keccakf R256 (absorbSpec keccakf R256 KeccakState.init.s 0 a) b hp, ok_bind,
    ← absorbSpec_append keccakf R256 a.length KeccakState.init.s 0 a b rfl (by decide)]
  have hp2 := absorbSpec_pos_lt keccakf R256 (a ++ b).length KeccakState.init.s 0 (a ++ b) rfl (by decide : 0 < R256)
  rw [keccak_absorb_eq keccakf R256 (absorbSpec keccakf R256 KeccakState.init.s 0 (a ++ b)) c hp2, ok_bind,
    ← absorbSpec_append keccakf R256 (a ++ b).length KeccakState.init.s 0 (a ++ b) c rfl (by decide)]
  obtain ⟨st, h, hpos, hs⟩ := finalize256_of_spec (a ++ b ++ c)
  rw [h, ok_bind]
  obtain ⟨st', h'⟩ := squeeze_final_spec (a ++ b ++ c) st hpos hs n
  rw [h', ok_bind]

end DV.XofSpec
