import DilithiumVerif.Lemmas.OneShot
/-
  Lemmas.Padding — `finalize` is pad10*1 with the SHAKE domain suffix: absorbing M and finalizing leaves the state that
  absorbing the padded message  M ‖ 0x1F ‖ 00…00 ‖ 0x80  (0x9F when a single padding byte fits) produces before its last
  permutation, and the output stream is the same.
-/
namespace DV.Padding
open DV

theorem modify_id' (s : Lanes) (i : Nat) (f : UInt64 → UInt64) (hf : ∀ w, f w = w) : s.modify i f = s := by
  apply Array.ext (by rw [Array.size_modify])
  intro j h1 h2
  rw [Array.getElem_modify h1]
  split
  · exact hf _
  · rfl

theorem modify_modify' (s : Lanes) (i : Nat) (f g : UInt64 → UInt64) : (s.modify i f).modify i g = s.modify i (fun w => g (f w)) := by
  apply Array.ext (by rw [Array.size_modify, Array.size_modify, Array.size_modify])
  intro j h1 h2
  have h3 : j < (s.modify i f).size := by rw [Array.size_modify] at h1; exact h1
  rw [Array.getElem_modify h1, Array.getElem_modify h2]
  split
  · rw [Array.getElem_modify h3]; rename_i e; rw [if_pos e]
  · rw [Array.getElem_modify h3]; rename_i e; rw [if_neg e]

theorem xorByte_zero (s : Lanes) (i : Nat) : xorByte s i 0 = s := by
  unfold xorByte
  apply modify_id'
  intro w
  have : (UInt64.ofNat 0) <<< (UInt64.ofNat (8 * (i % 8))) = 0 := by simp
  rw [this, UInt64.xor_zero]

theorem xorBytes_zeros (s : Lanes) : ∀ (n pos : Nat), xorBytes s pos (List.replicate n 0) = s
  | 0, _ => rfl
  | n + 1, pos => by
      rw [List.replicate_succ, xorBytes, xorByte_zero]
      exact xorBytes_zeros s n (pos + 1)

/-- the padding bytes for a message tail of `rem` bytes (rem < r) -/
def padBytes (r rem : Nat) : List Nat :=
  if rem = r - 1 then [0x9F] else [0x1F] ++ List.replicate (r - rem - 2) 0 ++ [0x80]

theorem padBytes_length (r rem : Nat) (h : rem < r) : (padBytes r rem).length = r - rem := by
  unfold padBytes
  split
  · simp; omega
  · simp; omega

/-- XORing the padding bytes in = the code's finalize (rates ≡ 0 mod 8) -/
theorem xor_pad (s : Lanes) (r rem : Nat) (h8 : r % 8 = 0) (hr : 8 ≤ r) (hrem : rem < r) :
    xorBytes s rem (padBytes r rem) = (xorByte s rem 0x1F).modify (r / 8 - 1) (fun w => w ^^^ ((1 : UInt64) <<< 63)) := by
  have hlast : (r - 1) / 8 = r / 8 - 1 := by omega
  have hmod : (r - 1) % 8 = 7 := by omega
  unfold padBytes
  by_cases hc : rem = r - 1
  · rw [if_pos hc]
    simp only [xorBytes]
    unfold xorByte
    rw [hc, hlast, hmod, modify_modify']
    congr 1
    funext w
    have e : (UInt64.ofNat 0x9F) <<< (UInt64.ofNat (8 * 7)) = ((UInt64.ofNat 0x1F) <<< (UInt64.ofNat (8 * 7))) ^^^ ((1 : UInt64) <<< 63) := by decide
    rw [e, UInt64.xor_assoc]
  · rw [if_neg hc]
    rw [xorBytes_append, xorBytes_append]
    simp only [xorBytes, List.length_cons, List.length_nil, List.length_append, List.length_replicate]
    rw [xorBytes_zeros]
    have hpos : rem + (0 + 1) + (r - rem - 2) = r - 1 := by omega
    have hpos' : rem + (1 + (r - rem - 2)) = r - 1 := by omega
    first
      | rw [hpos]
      | rw [hpos']
      | skip
    unfold xorByte
    rw [hlast, hmod]
    have e : (UInt64.ofNat 128) <<< (UInt64.ofNat (8 * 7)) = ((1 : UInt64) <<< 63) := by decide
    rw [e]

end DV.Padding

namespace DV.Padding
open DV DV.ShakeTotal DV.ShakeSmall

theorem absorbSpec_pos (f : Lanes → Lanes) (r : Nat) (hr : 0 < r) : ∀ (n : Nat) (s : Lanes) (pos : Nat) (inp : List Nat),
    inp.length = n → pos < r → (absorbSpec f r s pos inp).pos = (pos + inp.length) % r := by
  intro n
  induction n using Nat.strongRecOn with
  | _ n ih =>
    intro s pos inp hn hp
    by_cases hb : r ≤ pos + inp.length
    · rw [absorbSpec_block f r s pos inp ⟨hp, hb⟩]
      rw [ih (inp.drop (r - pos)).length (by rw [List.length_drop]; omega) _ 0 _ rfl hr, List.length_drop, Nat.zero_add]
      have e : pos + inp.length = (inp.length - (r - pos)) + r := by omega
      rw [e, Nat.add_mod_right]
    · rw [absorbSpec_tail f r s pos inp (by omega)]
      simp only
      rw [Nat.mod_eq_of_lt (by omega)]

/-- absorbing M and finalizing = absorbing the padded message up to (not including) its last permutation -/
theorem finalize_is_padding (M : List Nat) :
    ∃ st, (shake256_absorb KeccakState.init M M.length >>= shake256_finalize) = .ok st ∧ st.pos = R256 ∧
      absorbSpec keccakf R256 KeccakState.init.s 0 (M ++ padBytes R256 (M.length % R256)) = { s := keccakf st.s, pos := 0 } := by
  have hr : R256 = 136 := by decide
  have hr0 : 0 < R256 := by decide
  unfold shake256_absorb
  rw [keccak_absorb_eq keccakf R256 KeccakState.init M (by decide), ok_bind]
  have hpos := absorbSpec_pos keccakf R256 hr0 M.length KeccakState.init.s 0 M rfl hr0
  rw [Nat.zero_add] at hpos
  have hrem : M.length % R256 < R256 := Nat.mod_lt _ hr0
  have hinitpos : KeccakState.init.pos = 0 := rfl
  rw [hinitpos]
  generalize hA : absorbSpec keccakf R256 KeccakState.init.s 0 M = A at hpos
  unfold shake256_finalize keccak_finalize
  rw [if_pos ⟨by rw [hpos, hr] at *; omega, by rw [hr]; decide, by rw [hr]; decide⟩]
  refine ⟨_, rfl, rfl, ?_⟩
  rw [absorbSpec_append keccakf R256 M.length KeccakState.init.s 0 M _ rfl hr0, hA]
  have hpl := padBytes_length R256 (M.length % R256) hrem
  rw [absorbSpec_block keccakf R256 A.s A.pos _ ⟨by rw [hpos]; exact hrem, by rw [hpl, hpos]; omega⟩]
  have e1 : (padBytes R256 (M.length % R256)).take (R256 - A.pos) = padBytes R256 (M.length % R256) :=
    List.take_of_length_le (by rw [hpl, hpos]; exact Nat.le_refl _)
  have e2 : (padBytes R256 (M.length % R256)).drop (R256 - A.pos) = [] :=
    List.drop_eq_nil_of_le (by rw [hpl, hpos]; exact Nat.le_refl _)
  rw [e1, e2, absorbSpec_tail keccakf R256 _ 0 [] (by simp; omega)]
  simp only [xorBytes, List.length_nil, Nat.add_zero]
  rw [← hpos, xor_pad A.s R256 A.pos (by decide) (by decide) (by rw [hpos]; exact hrem)]

/-- absorbing M and finalizing = absorbing the padded message up to (not including) its last permutation -/
theorem finalize_is_padding128 (M : List Nat) :
    ∃ st, (shake128_absorb KeccakState.init M M.length >>= shake128_finalize) = .ok st ∧ st.pos = R128 ∧
      absorbSpec keccakf R128 KeccakState.init.s 0 (M ++ padBytes R128 (M.length % R128)) = { s := keccakf st.s, pos := 0 } := by
  have hr : R128 = 168 := by decide
  have hr0 : 0 < R128 := by decide
  unfold shake128_absorb
  rw [keccak_absorb_eq keccakf R128 KeccakState.init M (by decide), ok_bind]
  have hpos := absorbSpec_pos keccakf R128 hr0 M.length KeccakState.init.s 0 M rfl hr0
  rw [Nat.zero_add] at hpos
  have hrem : M.length % R128 < R128 := Nat.mod_lt _ hr0
  have hinitpos : KeccakState.init.pos = 0 := rfl
  rw [hinitpos]
  generalize hA : absorbSpec keccakf R128 KeccakState.init.s 0 M = A at hpos
  unfold shake128_finalize keccak_finalize
  rw [if_pos ⟨by rw [hpos, hr] at *; omega, by rw [hr]; decide, by rw [hr]; decide⟩]
  refine ⟨_, rfl, rfl, ?_⟩
  rw [absorbSpec_append keccakf R128 M.length KeccakState.init.s 0 M _ rfl hr0, hA]
  have hpl := padBytes_length R128 (M.length % R128) hrem
  rw [absorbSpec_block keccakf R128 A.s A.pos _ ⟨by rw [hpos]; exact hrem, by rw [hpl, hpos]; omega⟩]
  have e1 : (padBytes R128 (M.length % R128)).take (R128 - A.pos) = padBytes R128 (M.length % R128) :=
    List.take_of_length_le (by rw [hpl, hpos]; exact Nat.le_refl _)
  have e2 : (padBytes R128 (M.length % R128)).drop (R128 - A.pos) = [] :=
    List.drop_eq_nil_of_le (by rw [hpl, hpos]; exact Nat.le_refl _)
  rw [e1, e2, absorbSpec_tail keccakf R128 _ 0 [] (by simp; omega)]
  simp only [xorBytes, List.length_nil, Nat.add_zero]
  rw [← hpos, xor_pad A.s R128 A.pos (by decide) (by decide) (by rw [hpos]; exact hrem)]

/-- reading the output from a state at the block boundary (position r: permute first) = reading from the permuted state at position 0 -/
theorem squeeze_boundary (f : Lanes → Lanes) (r : Nat) (hr : 0 < r) (s : Lanes) (n : Nat) :
    (squeezeSpec f r s r n).1 = (squeezeSpec f r (f s) 0 n).1 := by
  by_cases hn : n = 0
  · subst hn; rw [squeezeSpec_zero, squeezeSpec_zero]
  · rw [squeezeSpec_step f r s r n (by omega), squeezeSpec_step f r (f s) 0 n (by omega)]
    simp only [if_true, Nat.sub_zero]
    have : ¬ (0 = r) := by omega
    simp only [this, if_false, Nat.sub_zero]

/-- **SHAKE-256 is the FIPS 202 sponge of the padded message**, for every message and every output length n: the bytes
    returned by init / absorb(M) / finalize / squeeze(n) are the first n bytes of the output stream of the state reached
    by absorbing  M ‖ pad  block by block (permutation after every block), where pad = 0x1F ‖ 00…00 ‖ 0x80 (0x9F if one
    byte) — the byte form of M ‖ 1111 ‖ pad10*1. -/
theorem shake256_is_padded_sponge (M : List Nat) (n : Nat) :
    ∃ st, (shake256_absorb KeccakState.init M M.length >>= shake256_finalize) = .ok st ∧
      ∃ out st', shake256_squeeze n n st = .ok (out, st') ∧
        out = (squeezeSpec keccakf R256 (absorbSpec keccakf R256 KeccakState.init.s 0 (M ++ padBytes R256 (M.length % R256))).s 0 n).1 := by
  obtain ⟨st, hst, hp, hpad⟩ := finalize_is_padding M
  refine ⟨st, hst, ?_⟩
  have hsq : shake256_squeeze n n st = .ok ((squeezeSpec keccakf R256 st.s st.pos n).1,
      { s := (squeezeSpec keccakf R256 st.s st.pos n).2.1, pos := (squeezeSpec keccakf R256 st.s st.pos n).2.2 }) := by
    unfold shake256_squeeze keccak_squeeze
    rw [if_pos (Nat.le_refl _), ok_bind]
    rw [squeeze_loop_eq keccakf R256 (by decide) _ [] n st.s st.pos (by rw [hp]; exact Nat.le_refl _) (by omega)]
    simp only [List.nil_append]
  refine ⟨_, _, hsq, ?_⟩
  rw [hpad, hp]
  exact squeeze_boundary keccakf R256 (by decide) st.s n

end DV.Padding
