import DilithiumVerif.Lemmas.Sponge
/-
  Lemmas.ShakeSmall — one-shot SHAKE-256 with a short output (fewer bytes than the rate): the result does not depend on
  the capacity of the output buffer it is written into, and has exactly the requested length.
-/
namespace DV.ShakeSmall
open DV

theorem blockBytes_length (s : Lanes) (pos n : Nat) : (blockBytes s pos n).length = n := by
  unfold blockBytes; rw [List.length_map, List.length_range]

theorem squeezeSpec_length (f : Lanes → Lanes) (r : Nat) (hr : 0 < r) : ∀ (n : Nat) (s : Lanes) (pos : Nat), pos ≤ r →
    (squeezeSpec f r s pos n).1.length = n := by
  intro n
  induction n using Nat.strongRecOn with
  | _ n ih =>
    intro s pos hp
    by_cases hn : n = 0
    · subst hn; rw [squeezeSpec_zero]; rfl
    · rw [squeezeSpec_step f r s pos n (by omega)]
      simp only
      have hpos : 0 < min (r - if pos = r then 0 else pos) n := by split <;> omega
      rw [List.length_append, blockBytes_length, ih _ (by omega) _ _ (by split <;> omega)]
      omega

/-- a short one-shot output is the first n bytes of the squeeze stream after `absorb_once`, whatever `outcap` ≥ n is -/
theorem shake256_small (cap n : Nat) (inp : List Nat) (len : Nat) (hn : n < R256) (hc : n ≤ cap) :
    shake256 cap n inp len = (shake256_absorb_once inp len >>= fun st => .ok (squeezeSpec keccakf R256 st.s R256 n).1) := by
  unfold shake256
  cases hst : shake256_absorb_once inp len with
  | error e => rfl
  | ok st =>
    have hpos : st.pos = R256 := by
      unfold shake256_absorb_once at hst
      obtain ⟨s, _, hst⟩ := bind_eq_ok.mp hst
      injection hst with hst; rw [← hst]
    simp only [ok_bind]
    have hdiv : n / R256 = 0 := Nat.div_eq_of_lt hn
    rw [hdiv]
    have hsb : shake256_squeezeblocks cap 0 st = .ok ([], st) := by
      unfold shake256_squeezeblocks keccak_squeezeblocks
      simp [keccak_squeezeblocks_loop]
    rw [hsb, ok_bind]
    simp only [Nat.zero_mul, Nat.sub_zero, Nat.not_lt_zero, if_false, gt_iff_lt]
    have hsq : shake256_squeeze cap n st = .ok ((squeezeSpec keccakf R256 st.s st.pos n).1,
        { s := (squeezeSpec keccakf R256 st.s st.pos n).2.1, pos := (squeezeSpec keccakf R256 st.s st.pos n).2.2 }) := by
      unfold shake256_squeeze keccak_squeeze
      rw [if_pos hc, ok_bind]
      rw [squeeze_loop_eq keccakf R256 (by decide) _ [] n st.s st.pos (by rw [hpos]; exact Nat.le_refl _) (by omega)]
      simp only [List.nil_append]
    rw [hsq, ok_bind, hpos]
    simp

theorem shake256_small_length (cap n : Nat) (inp : List Nat) (len : Nat) (hn : n < R256) (hc : n ≤ cap) (out : List Nat)
    (h : shake256 cap n inp len = .ok out) : out.length = n := by
  rw [shake256_small cap n inp len hn hc] at h
  obtain ⟨st, _, h⟩ := bind_eq_ok.mp h
  injection h with h; subst h
  exact squeezeSpec_length keccakf R256 (by decide) n st.s R256 (Nat.le_refl _)

theorem shake256_cap_indep (c1 c2 n : Nat) (inp : List Nat) (len : Nat) (hn : n < R256) (h1 : n ≤ c1) (h2 : n ≤ c2) :
    shake256 c1 n inp len = shake256 c2 n inp len := by
  rw [shake256_small c1 n inp len hn h1, shake256_small c2 n inp len hn h2]

end DV.ShakeSmall
