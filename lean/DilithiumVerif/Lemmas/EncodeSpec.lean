import DilithiumVerif.Lemmas.BitSpec
import DilithiumVerif.Lemmas.Containers
import DilithiumVerif.Lemmas.HintCodec
/-
  Lemmas.EncodeSpec — pkEncode / skEncode / sigEncode / w1Encode (FIPS 204 Alg. 22, 24, 26, 28) in terms of the
  bit-string encoders of Lemmas.BitSpec and the closed form of HintBitPack (Alg. 20).
-/
namespace DV.EncodeSpec
open DV DV.BitSpec DV.Containers DV.HintCodec

theorem flatMap_congr' {α β} (l : List α) (f g : α → List β) (h : ∀ x ∈ l, f x = g x) : l.flatMap f = l.flatMap g := by
  rw [List.flatMap_def, List.flatMap_def, List.map_congr_left h]

def etaBits : Lvl → Nat | .l3 => 4 | _ => 3
def zBits : Lvl → Nat | .l2 => 18 | _ => 20
def w1Bits : Lvl → Nat | .l2 => 6 | _ => 4
/-- (q − 1)/(2γ2): 44 or 16 -/
def w1Card : Lvl → Int | .l2 => 44 | _ => 16

theorem eta_pack_spec (lv : Lvl) (a : List Int) (hl : a.length = 256) (ha : ∀ x ∈ a, -(etaB lv) ≤ x ∧ x ≤ etaB lv) :
    eta_pack lv a = .ok (bitPack a (etaB lv) (etaBits lv)) := by
  cases lv with
  | l2 => exact eta2_pack_spec .l2 (Or.inl rfl) a hl ha
  | l3 => exact eta4_pack_spec a hl ha
  | l5 => exact eta2_pack_spec .l5 (Or.inr rfl) a hl ha

theorem z_pack_spec (lv : Lvl) (a : List Int) (hl : a.length = 256) (ha : ∀ x ∈ a, -(gamma1Of lv) < x ∧ x ≤ gamma1Of lv) :
    z_pack lv a = .ok (bitPack a (gamma1Of lv) (zBits lv)) := by
  have g : gamma1Of .l2 = 131072 ∧ gamma1Of .l3 = 524288 ∧ gamma1Of .l5 = 524288 := by decide
  cases lv with
  | l2 => rw [g.1] at ha ⊢; exact z17_pack_spec a hl ha
  | l3 => rw [g.2.1] at ha ⊢; exact z19_pack_spec .l3 (Or.inl rfl) a hl ha
  | l5 => rw [g.2.2] at ha ⊢; exact z19_pack_spec .l5 (Or.inr rfl) a hl ha

theorem w1_pack_spec (lv : Lvl) (a : List Int) (hl : a.length = 256) (ha : ∀ x ∈ a, 0 ≤ x ∧ x < w1Card lv) :
    w1_pack lv a = simpleBitPack (a.map Int.toNat) (w1Bits lv) := by
  cases lv with
  | l2 => exact w1_pack6_spec a hl (fun x hx => by have := ha x hx; simp only [w1Card] at this; omega)
  | l3 => exact w1_pack4_spec .l3 (Or.inl rfl) a hl (fun x hx => by have := ha x hx; simp only [w1Card] at this; omega)
  | l5 => exact w1_pack4_spec .l5 (Or.inr rfl) a hl (fun x hx => by have := ha x hx; simp only [w1Card] at this; omega)

theorem mapL_flatten_spec {α} (f : α → Chk (List Nat)) (g : α → List Nat) (l : List α) (h : ∀ x ∈ l, f x = .ok (g x)) :
    (mapL f l >>= fun r => (.ok r.flatten : Chk (List Nat))) = .ok (l.flatMap g) := by
  rw [DV.mapL_ok f g l h, ok_bind, List.flatMap_def]

/-- Alg. 22 pkEncode(ρ, t1) = ρ ‖ SimpleBitPack(t1[0], 2^10 − 1) ‖ … ‖ SimpleBitPack(t1[k−1], 2^10 − 1) -/
def pkEncode (rho : List Nat) (t1 : PolyVec) : List Nat := rho ++ t1.flatMap (fun t => simpleBitPack (t.map Int.toNat) 10)

theorem pack_pk_spec (p : Params) (rho : List Nat) (t1 : PolyVec) (hr : rho.length = SEEDBYTES)
    (ht : ∀ a ∈ t1, a.length = 256 ∧ ∀ x ∈ a, 0 ≤ x ∧ x < 1024) :
    pack_pk p rho t1 = .ok (pkEncode rho t1) := by
  unfold pack_pk pkEncode takeC
  rw [if_pos (Nat.le_of_eq hr.symm), ok_bind, List.take_of_length_le (Nat.le_of_eq hr)]
  rw [flatMap_congr' t1 t1_pack _ (fun a ha => t1_pack_spec a (ht a ha).1 (ht a ha).2)]

/-- Alg. 24 skEncode(ρ, K, tr, s1, s2, t0) -/
def skEncode (lv : Lvl) (rho key tr : List Nat) (s1 s2 t0 : PolyVec) : List Nat :=
  rho ++ key ++ tr ++ s1.flatMap (fun s => bitPack s (etaB lv) (etaBits lv)) ++ s2.flatMap (fun s => bitPack s (etaB lv) (etaBits lv))
    ++ t0.flatMap (fun t => bitPack t 4096 13)

theorem mapL_spec {α} (f : α → Chk (List Nat)) (g : α → List Nat) (l : List α) (h : ∀ x ∈ l, f x = .ok (g x)) :
    mapL f l = .ok (l.map g) := DV.mapL_ok f g l h

theorem pack_sk_spec (p : Params) (rho tr key : List Nat) (t0 s1 s2 : PolyVec)
    (hr : rho.length = SEEDBYTES) (hk : key.length = SEEDBYTES) (htr : tr.length = p.trBytes)
    (h1 : ∀ a ∈ s1, a.length = 256 ∧ ∀ x ∈ a, -(etaB p.lvl) ≤ x ∧ x ≤ etaB p.lvl)
    (h2 : ∀ a ∈ s2, a.length = 256 ∧ ∀ x ∈ a, -(etaB p.lvl) ≤ x ∧ x ≤ etaB p.lvl)
    (h0 : ∀ a ∈ t0, a.length = 256 ∧ ∀ x ∈ a, -4096 < x ∧ x ≤ 4096) :
    pack_sk p rho tr key t0 s1 s2 = .ok (skEncode p.lvl rho key tr s1 s2 t0) := by
  unfold pack_sk skEncode takeC
  rw [if_pos (Nat.le_of_eq hr.symm), ok_bind, if_pos (Nat.le_of_eq hk.symm), ok_bind, if_pos (Nat.le_of_eq htr.symm), ok_bind,
    List.take_of_length_le (Nat.le_of_eq hr), List.take_of_length_le (Nat.le_of_eq hk), List.take_of_length_le (Nat.le_of_eq htr)]
  rw [mapL_spec (eta_pack p.lvl) (fun s => bitPack s (etaB p.lvl) (etaBits p.lvl)) s1 (fun a ha => eta_pack_spec p.lvl a (h1 a ha).1 (h1 a ha).2), ok_bind,
    mapL_spec (eta_pack p.lvl) (fun s => bitPack s (etaB p.lvl) (etaBits p.lvl)) s2 (fun a ha => eta_pack_spec p.lvl a (h2 a ha).1 (h2 a ha).2), ok_bind,
    mapL_spec t0_pack (fun t => bitPack t 4096 13) t0 (fun a ha => t0_pack_spec a (h0 a ha).1 (h0 a ha).2), ok_bind]
  simp only [List.flatMap_def]

/-- Alg. 20 HintBitPack(h), closed form: the indices of the non-zero coefficients of h[0], h[1], …, zero padding up to ω
    bytes, then the k running totals -/
def hintBitPack (omega : Nat) (h : PolyVec) : List Nat :=
  idxOf h ++ List.replicate (omega - (idxOf h).length) 0 ++ cumsOf 0 h

/-- Alg. 26 sigEncode(c̃, z, h) = c̃ ‖ BitPack(z[i], γ1 − 1, γ1) … ‖ HintBitPack(h) -/
def sigEncode (lv : Lvl) (omega : Nat) (ct : List Nat) (z h : PolyVec) : List Nat :=
  ct ++ z.flatMap (fun a => bitPack a (gamma1Of lv) (zBits lv)) ++ hintBitPack omega h

theorem pack_sig_spec (p : Params) (hp : p ∈ allParams) (buf ct : List Nat) (z h : PolyVec) (hb : buf.length = p.sigBytes)
    (hct : ct.length = p.ctilde)
    (hz : ∀ a ∈ z, a.length = 256 ∧ ∀ x ∈ a, -(gamma1Of p.lvl) < x ∧ x ≤ gamma1Of p.lvl)
    (hhl : h.length = p.k) (hh : ∀ a ∈ h, a.length = 256) (hw : (idxOf h).length ≤ p.omega) :
    pack_sig p buf (some ct) z h = .ok (sigEncode p.lvl p.omega ct z h) := by
  obtain ⟨_, ho, _, _⟩ := sig_facts p hp
  have hpack := pack_hints p.omega ho h 0 0 [] [] rfl rfl (by omega) hh
  simp only [List.nil_append, Nat.sub_zero, List.append_nil] at hpack
  rw [hhl, List.replicate_append_replicate] at hpack
  unfold pack_sig sigEncode hintBitPack takeC
  rw [if_neg (by rw [hb]; exact fun h => h rfl)]
  simp only []
  rw [if_pos (Nat.le_of_eq hct.symm), ok_bind, List.take_of_length_le (Nat.le_of_eq hct),
    mapL_spec (z_pack p.lvl) (fun a => bitPack a (gamma1Of p.lvl) (zBits p.lvl)) z (fun a ha => z_pack_spec p.lvl a (hz a ha).1 (hz a ha).2), ok_bind,
    hpack, ok_bind]
  simp only [List.flatMap_def]

/-- Alg. 28 w1Encode(w1) = SimpleBitPack(w1[0], (q−1)/(2γ2) − 1) ‖ … -/
def w1Encode (lv : Lvl) (w1 : PolyVec) : List Nat := w1.flatMap (fun a => simpleBitPack (a.map Int.toNat) (w1Bits lv))

theorem k_pack_w1_spec (lv : Lvl) (w1 : PolyVec) (h : ∀ a ∈ w1, a.length = 256 ∧ ∀ x ∈ a, 0 ≤ x ∧ x < w1Card lv) :
    k_pack_w1 lv w1 = w1Encode lv w1 := by
  unfold k_pack_w1 w1Encode
  exact flatMap_congr' w1 _ _ (fun a ha => w1_pack_spec lv a (h a ha).1 (h a ha).2)

end DV.EncodeSpec
