import DilithiumVerif.Lemmas.IterSem
import DilithiumVerif.Lemmas.ConvBound
import DilithiumVerif.Lemmas.MaskSpec
import DilithiumVerif.Lemmas.VerifyFips
/-
  Lemmas.SignSpec — one signing iteration against the specification (FIPS 204 Alg. 7, the body of the rejection loop):
  `Accepts … κ σ` says that iteration κ of ML-DSA.Sign_internal passes its four tests and encodes to σ, written with
  specification-level objects only.  The model's iteration returns `accept σ` exactly in that case.
-/
namespace DV.SignSpec
open DV DV.NttSem DV.PolySem DV.VecSem DV.NttMul DV.NttZ DV.Ranges DV.Containers DV.Complete DV.XofSpec DV.EncodeSpec
  DV.BitSpec DV.HintCodec DV.KeygenSpec DV.SampleInBall DV.RoundSem DV.VerifyFips

/-! ### congruences of coefficients from equalities at the 256 roots -/

theorem cong_of_El_eq (a b : List Int) (ha : a.length = 256) (hb : b.length = 256) (h : ∀ i, i < 256 → (El a i : K) = El b i) :
    ∀ n, (a.getD n 0 - b.getD n 0) % 8380417 = 0 := by
  have hc : (castL a : List K) = castL b := by
    apply Ev_inj MK
    · simp only [castL, List.length_map, ha]
    · simp only [castL, List.length_map, hb]
    · exact h
  exact fun n => cong_of_castL _ _ hc n

/-- a − (b − c) ≡ 0 coefficientwise when a = b − c at the roots -/
theorem cong_of_El_sub (a b c : List Int) (ha : a.length = 256) (hb : b.length = 256) (hc : c.length = 256)
    (h : ∀ i, i < 256 → (El a i : K) = El b i - El c i) : ∀ n, n < 256 → (a.getD n 0 - (b.getD n 0 - c.getD n 0)) % 8380417 = 0 := by
  have hcast : (castL a : List K) = List.zipWith (fun u v => u - v) (castL b) (castL c) := by
    apply Ev_inj MK
    · simp only [castL, List.length_map, ha]
    · simp only [castL, List.length_zipWith, List.length_map, hb, hc]; rfl
    · intro i hi
      have := h i hi
      unfold El at this
      rw [this, Ev_sub _ _ (by simp only [castL, List.length_map, hb, hc])]
  intro n hn
  apply zmod_cong
  rw [← castL_getD, hcast, zipWith_getD _ _ _ n (by simp only [castL, List.length_map]; rw [hb]; exact hn)
    (by simp only [castL, List.length_map]; rw [hc]; exact hn), castL_getD, castL_getD, Int.cast_sub]

/-- two integer polynomials that agree at the roots and whose coefficient magnitudes add up to less than q are equal -/
theorem near_unique (a b : List Int) (A B : Int) (ha : PolyOK A a) (hb : PolyOK B b) (hAB : A + B ≤ 8380418)
    (h : ∀ i, i < 256 → (El a i : K) = El b i) : a = b := by
  apply list_ext_getD 0 256 a b ha.1 hb.1
  intro n hn
  have := cong_of_El_eq a b ha.1 hb.1 h n
  have r1 := ha.2 _ (getD_mem a n 0 (by rw [ha.1]; exact hn))
  have r2 := hb.2 _ (getD_mem b n 0 (by rw [hb.1]; exact hn))
  omega

/-! ### Decompose -/
theorem decompose_is_spec (lv : Lvl) (a : Int) (h : 0 ≤ a ∧ a < Q) :
    decompose lv a = .ok (Spec.LowBits (gamma2Of lv) a, Spec.HighBits (gamma2Of lv) a) := by
  obtain ⟨g2, g3, g5⟩ := gamma2_vals
  unfold Spec.LowBits Spec.HighBits
  cases lv with
  | l2 => rw [g2]; exact C15.decompose88_eq_spec a h
  | l3 => rw [g3]; exact C15.decompose32_eq_spec .l3 (Or.inl rfl) a h
  | l5 => rw [g5]; exact C15.decompose32_eq_spec .l5 (Or.inr rfl) a h

/-- `k_decompose` returns exactly (HighBits, LowBits) coefficient by coefficient -/
theorem poly_decompose_exact (lv : Lvl) (a : List Int) (ha : Std a) (lo hi : List Int) (h : poly_decompose lv a = .ok (lo, hi)) :
    All3 (fun x h l => h = Spec.HighBits (gamma2Of lv) x ∧ l = Spec.LowBits (gamma2Of lv) x) a hi lo := by
  obtain ⟨r, hr, h2⟩ := mapL_total (decompose lv) (fun x => 0 ≤ x ∧ x < Q)
    (fun x (y : Int × Int) => y.2 = Spec.HighBits (gamma2Of lv) x ∧ y.1 = Spec.LowBits (gamma2Of lv) x)
    (fun x hx => ⟨_, decompose_is_spec lv x hx, rfl, rfl⟩) a ha.2
  unfold poly_decompose at h
  rw [hr, ok_bind] at h
  injection h with h; injection h with h1 h2'
  subst h1; subst h2'
  have h3 : All2 (fun x (bc : Int × Int) => (fun x l h => h = Spec.HighBits (gamma2Of lv) x ∧ l = Spec.LowBits (gamma2Of lv) x) x bc.1 bc.2) a r := h2
  exact All3.swap23 (all2_unzip (P := fun x l h => h = Spec.HighBits (gamma2Of lv) x ∧ l = Spec.LowBits (gamma2Of lv) x) h3)

theorem k_decompose_exact (lv : Lvl) (v : PolyVec) (hv : ∀ a ∈ v, Std a) (v1 v0 : PolyVec) (h : k_decompose lv v = .ok (v1, v0)) :
    All3 (fun a hi lo => All3 (fun x h l => h = Spec.HighBits (gamma2Of lv) x ∧ l = Spec.LowBits (gamma2Of lv) x) a hi lo) v v1 v0 := by
  obtain ⟨r, hr, h2⟩ := mapL_total (poly_decompose lv) Std
    (fun a (y : Poly × Poly) => All3 (fun x h l => h = Spec.HighBits (gamma2Of lv) x ∧ l = Spec.LowBits (gamma2Of lv) x) a y.2 y.1)
    (fun a ha => by
      obtain ⟨lo, hi, h1, _⟩ := poly_decompose_sem lv a ha
      exact ⟨(lo, hi), h1, poly_decompose_exact lv a ha lo hi h1⟩) v hv
  unfold k_decompose at h
  rw [hr, ok_bind] at h
  simp only at h
  injection h with h; injection h with h1 h2'
  subst h1; subst h2'
  have h3 : All2 (fun a (bc : Poly × Poly) => (fun a lo hi => All3 (fun x h l => h = Spec.HighBits (gamma2Of lv) x ∧ l = Spec.LowBits (gamma2Of lv) x) a hi lo) a bc.1 bc.2) v r := h2
  exact All3.swap23 (all2_unzip (P := fun a lo hi => All3 (fun x h l => h = Spec.HighBits (gamma2Of lv) x ∧ l = Spec.LowBits (gamma2Of lv) x) a hi lo) h3)

/-- the arithmetic core of the low-bits test: if w = w1·2γ2 + w0 (Decompose), |T| ≤ β and w − T = h1·2γ2 + ℓ with
    |ℓ| < γ2 − β, all modulo q, then ℓ = w0 − T and h1 = w1 -/
theorem lowbits_core_88 (w1 h1 w0 T l b k : Int) (hw1 : 0 ≤ w1 ∧ w1 < 44) (hh1 : 0 ≤ h1 ∧ h1 < 44) (hw0 : -95232 ≤ w0 ∧ w0 ≤ 95232)
    (hT : -b ≤ T ∧ T ≤ b) (hl : -(95232 - b) < l ∧ l < 95232 - b) (hb : 0 ≤ b)
    (e : (w1 * (2 * 95232) + w0 - T) - (h1 * (2 * 95232) + l) = k * 8380417) : w0 - T = l ∧ w1 = h1 := by
  have hk : k = 0 := by omega
  subst hk
  have hd : w1 = h1 := by omega
  subst hd
  exact ⟨by omega, rfl⟩

theorem lowbits_core_32 (w1 h1 w0 T l b k : Int) (hw1 : 0 ≤ w1 ∧ w1 < 16) (hh1 : 0 ≤ h1 ∧ h1 < 16) (hw0 : -261888 ≤ w0 ∧ w0 ≤ 261888)
    (hT : -b ≤ T ∧ T ≤ b) (hl : -(261888 - b) < l ∧ l < 261888 - b) (hb : 0 ≤ b)
    (e : (w1 * (2 * 261888) + w0 - T) - (h1 * (2 * 261888) + l) = k * 8380417) : w0 - T = l ∧ w1 = h1 := by
  have hk : k = 0 := by omega
  subst hk
  have hd : w1 = h1 := by omega
  subst hd
  exact ⟨by omega, rfl⟩

theorem lowbits_core (lv : Lvl) (w1 h1 w0 T l b : Int) (hw1 : 0 ≤ w1 ∧ w1 < mOf lv) (hh1 : 0 ≤ h1 ∧ h1 < mOf lv)
    (hw0 : -(gamma2Of lv) ≤ w0 ∧ w0 ≤ gamma2Of lv) (hT : -b ≤ T ∧ T ≤ b) (hl : -(gamma2Of lv - b) < l ∧ l < gamma2Of lv - b) (hb : 0 ≤ b)
    (e : ((w1 * (2 * gamma2Of lv) + w0 - T) - (h1 * (2 * gamma2Of lv) + l)) % 8380417 = 0) : w0 - T = l ∧ w1 = h1 := by
  obtain ⟨g2, g3, g5⟩ := gamma2_vals
  obtain ⟨k, hk⟩ : ∃ k, (w1 * (2 * gamma2Of lv) + w0 - T) - (h1 * (2 * gamma2Of lv) + l) = k * 8380417 :=
    ⟨_, (Int.ediv_mul_cancel (Int.dvd_of_emod_eq_zero e)).symm⟩
  cases lv with
  | l2 => rw [g2] at *; exact lowbits_core_88 w1 h1 w0 T l b k hw1 hh1 hw0 hT hl hb hk
  | l3 => rw [g3] at *; exact lowbits_core_32 w1 h1 w0 T l b k hw1 hh1 hw0 hT hl hb hk
  | l5 => rw [g5] at *; exact lowbits_core_32 w1 h1 w0 T l b k hw1 hh1 hw0 hT hl hb hk

/-- specification ⇒ code, one coefficient of the low-bits test: with ‖c·s2‖∞ ≤ β, if LowBits(w − c·s2) is below γ2 − β then
    the value the code tests, w0 − c·s2 reduced, is that very number, and the high bits are unchanged -/
theorem low_coeff (lv : Lvl) (w w1 w0 cs2 T r0 u b : Int) (hd : DecC lv w w1 w0) (hT : (cs2 - T) % 8380417 = 0) (hTb : -b ≤ T ∧ T ≤ b) (hb : 0 ≤ b)
    (hu : 0 ≤ u ∧ u < Q) (huc : (u - (w - cs2)) % 8380417 = 0)
    (hl : -(gamma2Of lv - b) < Spec.LowBits (gamma2Of lv) u ∧ Spec.LowBits (gamma2Of lv) u < gamma2Of lv - b)
    (hr : (r0 - (w0 - cs2)) % 8380417 = 0) (hrb : -6283010 < r0 ∧ r0 < 6283010) :
    r0 = Spec.LowBits (gamma2Of lv) u ∧ Spec.HighBits (gamma2Of lv) u = w1 := by
  have hq : Q = 8380417 := Q_val'
  obtain ⟨g2l, g2u⟩ : 95232 ≤ gamma2Of lv ∧ gamma2Of lv ≤ 261888 := by cases lv <;> decide
  obtain ⟨a0, a1, hdec, h1, h2, h3, h4, h5⟩ := decompose_spec lv u hu
  rw [decompose_is_spec lv u hu] at hdec
  injection hdec with hdec; injection hdec with e0 e1
  subst e0; subst e1
  obtain ⟨d1, d2, d3, d4, d5⟩ := hd
  rw [hq] at h3 d3
  have core := lowbits_core lv w1 (Spec.HighBits (gamma2Of lv) u) w0 T (Spec.LowBits (gamma2Of lv) u) b ⟨d1, d2⟩ ⟨h1, h2⟩ ⟨d4, d5⟩ hTb hl hb (by omega)
  refine ⟨?_, core.2.symm⟩
  have : (r0 - Spec.LowBits (gamma2Of lv) u) % 8380417 = 0 := by omega
  omega

/-- code ⇒ specification, one coefficient: if the tested value w0 − c·s2 (reduced) is below γ2 − β then it is
    LowBits(w − c·s2) and the high bits are those of w -/
theorem low_coeff_conv (lv : Lvl) (w w1 w0 cs2 r0 : Int) (hd : DecC lv w w1 w0) (hr : (r0 - (w0 - cs2)) % 8380417 = 0)
    (hrb : -(gamma2Of lv) < r0 ∧ r0 < gamma2Of lv) :
    Spec.LowBits (gamma2Of lv) ((w - cs2) % Q) = r0 ∧ Spec.HighBits (gamma2Of lv) ((w - cs2) % Q) = w1 ∧
      (((w - cs2) % Q) - (w1 * (2 * gamma2Of lv) + r0)) % 8380417 = 0 := by
  have hq : Q = 8380417 := Q_val'
  obtain ⟨d1, d2, d3, d4, d5⟩ := hd
  rw [hq] at d3
  have e : (w - cs2) % Q = (w1 * (2 * gamma2Of lv) + r0) % Q := by rw [hq]; omega
  have hu : 0 ≤ (w - cs2) % Q ∧ (w - cs2) % Q < Q := by rw [hq]; omega
  have h1 := decompose_is_spec lv _ hu
  rw [e, decompose_unique lv w1 r0 ⟨d1, d2⟩ hrb] at h1
  injection h1 with h1; injection h1 with e0 e1
  rw [e]
  refine ⟨e0.symm, e1.symm, ?_⟩
  rw [hq]; omega

/-! ### the hint bit -/

theorem HighBits_mod (g x : Int) : Spec.HighBits g x = Spec.HighBits g (x % Spec.q) := by
  unfold Spec.HighBits Spec.Decompose
  simp only [Int.emod_emod_of_dvd x (Int.dvd_refl Spec.q)]

theorem make_hint_iff_spec (lv : Lvl) (w1 a0 : Int) (hw : 0 ≤ w1 ∧ w1 < mOf lv) (ha : -(2 * gamma2Of lv) < a0 ∧ a0 < 2 * gamma2Of lv) :
    (make_hint lv a0 w1 = 1 ↔ Spec.HighBits (gamma2Of lv) ((w1 * (2 * gamma2Of lv) + a0) % Spec.q) ≠ w1) ∧
    (make_hint lv a0 w1 = 0 ∨ make_hint lv a0 w1 = 1) := by
  obtain ⟨g2, g3, g5⟩ := gamma2_vals
  refine ⟨?_, C15.make_hint_bit lv a0 w1⟩
  cases lv with
  | l2 => rw [g2] at *; exact C15.make_hint_eq_spec_88 w1 a0 hw ha
  | l3 => rw [g3] at *; exact C15.make_hint_eq_spec_32 .l3 (Or.inl rfl) w1 a0 hw ha
  | l5 => rw [g5] at *; exact C15.make_hint_eq_spec_32 .l5 (Or.inr rfl) w1 a0 hw ha

/-- the signer's hint bit is MakeHint(−c·t0, w − c·s2 + c·t0) -/
theorem hint_coeff (lv : Lvl) (w1 a0 u v : Int) (hw : 0 ≤ w1 ∧ w1 < mOf lv) (ha : -(2 * gamma2Of lv) < a0 ∧ a0 < 2 * gamma2Of lv)
    (hu : Spec.HighBits (gamma2Of lv) u = w1) (hc : ((w1 * (2 * gamma2Of lv) + a0) - (u + v)) % 8380417 = 0) :
    make_hint lv a0 w1 = Spec.MakeHint (gamma2Of lv) (-v) ((u + v) % Spec.q) := by
  obtain ⟨hiff, hbit⟩ := make_hint_iff_spec lv w1 a0 hw ha
  have hq : Spec.q = 8380417 := rfl
  have e1 : (w1 * (2 * gamma2Of lv) + a0) % Spec.q = (u + v) % Spec.q := by rw [hq]; omega
  have e2 : Spec.HighBits (gamma2Of lv) ((u + v) % Spec.q + -v) = w1 := by
    rw [HighBits_mod, ← hu, HighBits_mod (gamma2Of lv) u]
    congr 1
    rw [hq]; omega
  unfold Spec.MakeHint
  rw [e2, ← e1]
  by_cases hne : Spec.HighBits (gamma2Of lv) ((w1 * (2 * gamma2Of lv) + a0) % Spec.q) ≠ w1
  · rw [if_pos hne]; exact hiff.mpr hne
  · rw [if_neg hne]
    rcases hbit with h0 | h1
    · exact h0
    · exact absurd (hiff.mp h1) hne

/-! ### the specification of one iteration -/

/-- IntegerToBytes(n, 2) -/
def le2 (n : Nat) : List Nat := [n % 256, (n / 256) % 256]

/-- y = ExpandMask(ρ″, κ) (FIPS 204 Alg. 34): y[r] = BitUnpack(H(ρ″ ‖ IntegerToBytes(l·κ + r, 2), 32·c), γ1 − 1, γ1), stated as:
    y[r] is in range and BitPack(y[r]) is that hash output -/
def IsMask (p : Params) (rp : List Nat) (κ : Nat) (y : PolyVec) : Prop :=
  y.length = p.l ∧ ∀ r, r < p.l → (y.getD r []).length = 256 ∧ (∀ x ∈ y.getD r [], -(gamma1Of p.lvl) < x ∧ x ≤ gamma1Of p.lvl) ∧
    bitPack (y.getD r []) (gamma1Of p.lvl) (zBits p.lvl) = SHAKE256 (rp ++ le2 (p.l * κ + r)) (polyzOf p.lvl)

theorem IsMask_unique (p : Params) (rp : List Nat) (κ : Nat) (y y' : PolyVec) (h : IsMask p rp κ y) (h' : IsMask p rp κ y') : y = y' := by
  apply list_ext_getD [] p.l y y' h.1 h'.1
  intro r hr
  obtain ⟨l1, r1, b1⟩ := h.2 r hr
  obtain ⟨l2, r2, b2⟩ := h'.2 r hr
  exact MaskSpec.bitPack_z_injective p.lvl _ _ l1 l2 r1 r2 (by rw [b1, b2])

theorem mask_is_spec (p : Params) (rp : List Nat) (κ : Nat) (y : PolyVec) (hl : rp.length = CRHBYTES)
    (h : l_uniform_gamma1 p rp (κ : Int) = .ok y) : IsMask p rp κ y := by
  unfold l_uniform_gamma1 at h
  obtain ⟨hyl, hrows⟩ := forRange_getD p.l _ y [] h
  refine ⟨hyl, fun r hr => ?_⟩
  have hrow := hrows r hr
  obtain ⟨m, hm, hrow⟩ := bind_eq_ok.mp hrow
  obtain ⟨n, hn, hrow⟩ := bind_eq_ok.mp hrow
  unfold chkU16 at hm hn
  split at hm
  · injection hm with hm; subst hm
    split at hn
    · injection hn with hn; subst hn
      have e : ((p.l : Int) * (κ : Int) + (r : Int)).toNat = p.l * κ + r := by
        have : ((p.l : Int) * (κ : Int) + (r : Int)) = ((p.l * κ + r : Nat) : Int) := by push_cast; ring
        rw [this, Int.toNat_natCast]
      rw [e] at hrow
      exact MaskSpec.poly_uniform_gamma1_spec p.lvl rp _ _ hl hrow
    · cases hn
  · cases hm

/-- **iteration κ of ML-DSA.Sign_internal (FIPS 204 Alg. 7, lines 11–29) passes its tests and yields σ**: with the
    decoded key parts (A, s1, s2, t0), μ and ρ″:
    y ← ExpandMask(ρ″, κ);  w ← A·y with coefficients in [0, q);  w1 ← HighBits(w);  c̃ ← H(μ ‖ w1Encode(w1));
    c ← SampleInBall(c̃);  z ← y + c·s1 with ‖z‖∞ < γ1 − β;  u = w − c·s2 with ‖LowBits(u)‖∞ < γ2 − β;
    v = c·t0 with ‖v‖∞ < γ2;  h ← MakeHint(−v, u + v) with at most ω ones;  σ ← sigEncode(c̃, z, h). -/
def Accepts (p : Params) (mat : List PolyVec) (s1 s2 t0 : PolyVec) (mu rp : List Nat) (κ : Nat) (sig : List Nat) : Prop :=
  ∃ (y w w1 : PolyVec) (ct : List Nat) (cp : Poly) (z u v h : PolyVec),
    IsMask p rp κ y ∧
    (w.length = p.k ∧ (∀ a ∈ w, Std a) ∧ ∀ r, r < p.k → ∀ i, i < 256 → (El (w.getD r []) i : K) = rowDot (mat.getD r []) y p.l i) ∧
    (w1.length = p.k ∧ ∀ r, r < p.k → (w1.getD r []).length = 256 ∧
        ∀ n, n < 256 → (w1.getD r []).getD n 0 = Spec.HighBits (gamma2Of p.lvl) ((w.getD r []).getD n 0)) ∧
    ct = SHAKE256 (mu ++ w1Encode p.lvl w1) p.ctilde ∧ IsSampleInBall p.tau ct cp ∧
    (z.length = p.l ∧ ∀ j, j < p.l → PolyOK ((p.gamma1 : Int) - p.beta) (z.getD j []) ∧
        ∀ i, i < 256 → (El (z.getD j []) i : K) = El cp i * El (s1.getD j []) i + El (y.getD j []) i) ∧
    (u.length = p.k ∧ ∀ r, r < p.k → Std (u.getD r []) ∧
        (∀ i, i < 256 → (El (u.getD r []) i : K) = El (w.getD r []) i - El cp i * El (s2.getD r []) i) ∧
        ∀ n, n < 256 → -((p.gamma2 : Int) - p.beta) < Spec.LowBits (gamma2Of p.lvl) ((u.getD r []).getD n 0) ∧
          Spec.LowBits (gamma2Of p.lvl) ((u.getD r []).getD n 0) < (p.gamma2 : Int) - p.beta) ∧
    (v.length = p.k ∧ ∀ r, r < p.k → PolyOK (p.gamma2 : Int) (v.getD r []) ∧
        ∀ i, i < 256 → (El (v.getD r []) i : K) = El cp i * El (t0.getD r []) i) ∧
    (h.length = p.k ∧ ∀ r, r < p.k → (h.getD r []).length = 256 ∧
        ∀ n, n < 256 → (h.getD r []).getD n 0 =
          Spec.MakeHint (gamma2Of p.lvl) (-((v.getD r []).getD n 0)) (((u.getD r []).getD n 0 + (v.getD r []).getD n 0) % Spec.q)) ∧
    (idxOf h).length ≤ p.omega ∧
    sig = sigEncode p.lvl p.omega ct z h

/-! ### bridging lemmas -/

theorem small_not_big (v : PolyVec) (B : Int) (h : ∀ a ∈ v, PolyOK B a) : ¬ Big v B := by
  rintro ⟨a, ha, x, hx, hbx⟩
  have := (h a ha).2 x hx
  unfold C18.iabs at hbx
  split at hbx <;> omega

theorem rows_of_getD {α} (P : List α → Prop) (v : List (List α)) (k : Nat) (hl : v.length = k) (h : ∀ r, r < k → P (v.getD r [])) :
    ∀ a ∈ v, P a := by
  intro a ha
  obtain ⟨r, hr, rfl⟩ := List.mem_iff_getElem.mp ha
  have := h r (by rw [← hl]; exact hr)
  rw [List.getD_eq_getElem?_getD, List.getElem?_eq_getElem hr] at this
  exact this

theorem sign_params : ∀ p ∈ allParams, (p.tau : Int) * etaI p.lvl = p.beta ∧ p.polyw1 = polyw1Of p.lvl ∧ w1Card p.lvl = mOf p.lvl := by decide

/-- the data of the low-bits test: for every coefficient the tested value is LowBits(w − c·s2) and HighBits(w − c·s2) = w1 -/
theorem r0_matches (p : Params) (hp : p ∈ allParams) (s2 : PolyVec) (cp : Poly) (hcpT : Tern cp) (hcpw : nzCount cp = p.tau)
    (hs2l : s2.length = p.k) (hs2 : ∀ a ∈ s2, a.length = 256 ∧ ∀ x ∈ a, -(etaI p.lvl) ≤ x ∧ x ≤ etaI p.lvl)
    (w w1 w0 : PolyVec) (hwl : w.length = p.k) (hwstd : ∀ a ∈ w, Std a)
    (dec : All3 (fun a hi lo => a.length = 256 ∧ All3 (DecC p.lvl) a hi lo) w w1 w0)
    (cs2 r0 : PolyVec) (r0f : R0Facts p s2 cp w0 cs2 r0) (u : PolyVec)
    (hu : ∀ r, r < p.k → Std (u.getD r []) ∧
        (∀ i, i < 256 → (El (u.getD r []) i : K) = El (w.getD r []) i - El cp i * El (s2.getD r []) i) ∧
        ∀ n, n < 256 → -((p.gamma2 : Int) - p.beta) < Spec.LowBits (gamma2Of p.lvl) ((u.getD r []).getD n 0) ∧
          Spec.LowBits (gamma2Of p.lvl) ((u.getD r []).getD n 0) < (p.gamma2 : Int) - p.beta) :
    ∀ r, r < p.k → ∀ n, n < 256 → (r0.getD r []).getD n 0 = Spec.LowBits (gamma2Of p.lvl) ((u.getD r []).getD n 0) ∧
      Spec.HighBits (gamma2Of p.lvl) ((u.getD r []).getD n 0) = (w1.getD r []).getD n 0 := by
  obtain ⟨hl0, hl7, hk0, hk8, hg1, hg2, hg1u, hg1l, hb0, hbu, hg2u, hg2l⟩ := params_facts p hp
  obtain ⟨hte, _, _⟩ := sign_params p hp
  intro r hr n hn
  have hrw : r < w.length := by rw [hwl]; exact hr
  have fdec := dec.getD [] [] [] r hrw
  have fd := fdec.2.getD 0 0 0 n (by rw [fdec.1]; exact hn)
  have hs2r := hs2 _ (getD_mem s2 r [] (by rw [hs2l]; exact hr))
  obtain ⟨T, hTl, hTb, hTE⟩ := ConvBound.small_product cp (s2.getD r []) hcpT hs2r.1 (etaI p.lvl) (by cases p.lvl <;> decide) hs2r.2
  rw [hcpw, hte] at hTb
  have hcs2r := r0f.cb _ (getD_mem cs2 r [] (by rw [r0f.cl]; exact hr))
  have hcT := cong_of_El_eq (cs2.getD r []) T hcs2r.1 hTl (fun i hi => by rw [r0f.cE r hr i hi, hTE i hi]) n
  obtain ⟨hustd, huE, hul⟩ := hu r hr
  have hwr := hwstd _ (getD_mem w r [] hrw)
  have huc := cong_of_El_sub (u.getD r []) (w.getD r []) (cs2.getD r []) hustd.1 hwr.1 hcs2r.1
    (fun i hi => by rw [huE i hi, r0f.cE r hr i hi]) n hn
  have hr0r := r0f.rb _ (getD_mem r0 r [] (by rw [r0f.rl]; exact hr))
  have hTn := hTb _ (getD_mem T n 0 (by rw [hTl]; exact hn))
  have hun := hustd.2 _ (getD_mem (u.getD r []) n 0 (by rw [hustd.1]; exact hn))
  have hr0n := hr0r.2 _ (getD_mem (r0.getD r []) n 0 (by rw [hr0r.1]; exact hn))
  have := hul n hn
  rw [hg2] at this
  exact low_coeff p.lvl _ _ _ _ _ _ _ (p.beta : Int) fd hcT hTn (by omega) hun huc this (r0f.cong r hr n hn) hr0n

/-- the hint vector the code emits is MakeHint(−c·t0, w − c·s2 + c·t0), coefficient by coefficient -/
theorem hint_matches (p : Params) (hp : p ∈ allParams) (w w1 w0 : PolyVec) (hwl : w.length = p.k)
    (dec : All3 (fun a hi lo => a.length = 256 ∧ All3 (DecC p.lvl) a hi lo) w w1 w0)
    (r0 ct0 a0 h : PolyVec) (n : Int) (hr0l : r0.length = p.k) (hr0 : ∀ a ∈ r0, a.length = 256)
    (hct0l : ct0.length = p.k) (hct0 : ∀ a ∈ ct0, a.length = 256) (a0f : A0Facts p r0 ct0 a0 w1 h n) (u : PolyVec)
    (hustd : ∀ r, r < p.k → Std (u.getD r []))
    (hm : ∀ r, r < p.k → ∀ j, j < 256 → (r0.getD r []).getD j 0 = Spec.LowBits (gamma2Of p.lvl) ((u.getD r []).getD j 0) ∧
      Spec.HighBits (gamma2Of p.lvl) ((u.getD r []).getD j 0) = (w1.getD r []).getD j 0) :
    h.length = p.k ∧ ∀ r, r < p.k → (h.getD r []).length = 256 ∧ ∀ j, j < 256 → (h.getD r []).getD j 0 =
      Spec.MakeHint (gamma2Of p.lvl) (-((ct0.getD r []).getD j 0)) (((u.getD r []).getD j 0 + (ct0.getD r []).getD j 0) % Spec.q) := by
  obtain ⟨hl0, hl7, hk0, hk8, hg1, hg2, hg1u, hg1l, hb0, hbu, hg2u, hg2l⟩ := params_facts p hp
  have hq : Q = 8380417 := Q_val'
  have hrel := k_make_hint_rel p.lvl a0 w1 h n a0f.hint
  refine ⟨by rw [hrel.length.2, a0f.al], fun r hr => ?_⟩
  have hra : r < a0.length := by rw [a0f.al]; exact hr
  have frel := hrel.getD [] [] [] r hra
  have fadd := a0f.add.getD [] [] [] r (by rw [hr0l]; exact hr)
  have hrw : r < w.length := by rw [hwl]; exact hr
  have fdec := dec.getD [] [] [] r hrw
  have hr0r := hr0 _ (getD_mem r0 r [] (by rw [hr0l]; exact hr))
  have hct0r := hct0 _ (getD_mem ct0 r [] (by rw [hct0l]; exact hr))
  refine ⟨by rw [frel.length.2, fadd.1.1], fun j hj => ?_⟩
  have cell := frel.getD 0 0 0 j (by rw [fadd.1.1]; exact hj)
  have fd := fdec.2.getD 0 0 0 j (by rw [fdec.1]; exact hj)
  have ha0n := fadd.1.2 _ (getD_mem (a0.getD r []) j 0 (by rw [fadd.1.1]; exact hj))
  have hca : ((a0.getD r []).getD j 0 - ((r0.getD r []).getD j 0 + (ct0.getD r []).getD j 0)) % 8380417 = 0 := by
    apply zmod_cong
    rw [← castL_getD, fadd.2, zipWith_getD _ _ _ j (by simp only [castL, List.length_map]; rw [hr0r]; exact hj)
      (by simp only [castL, List.length_map]; rw [hct0r]; exact hj), castL_getD, castL_getD, Int.cast_add]
  obtain ⟨m1, m2⟩ := hm r hr j hj
  have hun := (hustd r hr).2 _ (getD_mem (u.getD r []) j 0 (by rw [(hustd r hr).1]; exact hj))
  obtain ⟨a0', a1', hdec, _, _, h3, _, _⟩ := decompose_spec p.lvl _ hun
  rw [decompose_is_spec p.lvl _ hun] at hdec
  injection hdec with hdec; injection hdec with e0 e1
  subst e0; subst e1
  rw [hq] at h3
  rw [cell]
  apply hint_coeff p.lvl _ _ _ _ ⟨fd.1, fd.2.1⟩ (by rw [← hg2]; omega) m2
  rw [m2, ← m1] at h3
  omega

/-- the key material the signer works with: a well-formed matrix and s2 with coefficients in [−η, η] -/
structure SignKey (p : Params) (s2 : PolyVec) : Prop where
  hp : p ∈ allParams
  s2l : s2.length = p.k
  s2s : ∀ a ∈ s2, a.length = 256 ∧ ∀ x ∈ a, -(etaI p.lvl) ≤ x ∧ x ≤ etaI p.lvl

theorem getD_of_lt (l : List Int) (n : Nat) (h : n < l.length) : l.getD n 0 = l[n] := by
  rw [List.getD_eq_getElem?_getD, List.getElem?_eq_getElem h]; rfl

theorem two_level_ext (k : Nat) (a b : PolyVec) (ha : a.length = k) (hb : b.length = k)
    (hra : ∀ r, r < k → (a.getD r []).length = 256) (hrb : ∀ r, r < k → (b.getD r []).length = 256)
    (h : ∀ r, r < k → ∀ n, n < 256 → (a.getD r []).getD n 0 = (b.getD r []).getD n 0) : a = b :=
  list_ext_getD [] k a b ha hb (fun r hr => list_ext_getD 0 256 _ _ (hra r hr) (hrb r hr) (h r hr))

set_option maxHeartbeats 3200000 in
/-- **specification ⇒ code**: if the specification accepts at iteration κ with encoding σ, the code's iteration κ —
    whatever it returned — returned `accept σ` -/
theorem spec_accept_forces (p : Params) (mat : List PolyVec) (s1 s2 t0 : PolyVec) (key : SignKey p s2) (mu rp : List Nat)
    (hmu : mu.length = CRHBYTES) (hrp : rp.length = CRHBYTES) (κ : Nat)
    (y w w1 w0 : PolyVec) (ct : List Nat) (cp : Poly) (z : PolyVec) (core : IterCore p mat s1 mu rp (κ : Int) y w w1 w0 ct cp z)
    (out : IterResult) (outc : IterOutcome p s2 t0 cp ct w1 w0 z out) (sig : List Nat)
    (hA : Accepts p mat s1 s2 t0 mu rp κ sig) : out = .accept sig := by
  have hp := key.hp
  obtain ⟨hl0, hl7, hk0, hk8, hg1, hg2, hg1u, hg1l, hb0, hbu, hg2u, hg2l⟩ := params_facts p hp
  obtain ⟨hte, hpw, hcard⟩ := sign_params p hp
  have hq : Q = 8380417 := Q_val'
  obtain ⟨y', w', w1', ct', cp', z', u, v, h', hy', ⟨hw'l, hw'std, hw'E⟩, ⟨hw1'l, hw1'rows⟩, hct', hcp', ⟨hz'l, hz'rows⟩,
    ⟨hul, hurows⟩, ⟨hvl, hvrows⟩, ⟨hh'l, hh'rows⟩, hwt, hsig⟩ := hA
  -- y
  have ey : y' = y := IsMask_unique p rp κ y' y hy' (mask_is_spec p rp κ y hrp core.mask)
  subst ey
  -- w
  have ew : w' = w := list_ext_getD [] p.k w' w hw'l core.wl (fun r hr =>
    std_unique _ _ (hw'std _ (getD_mem w' r [] (by rw [hw'l]; exact hr))) (core.wstd _ (getD_mem w r [] (by rw [core.wl]; exact hr)))
      (fun i hi => by rw [hw'E r hr i hi, core.wy r hr i hi]))
  subst ew
  -- w1
  have hexact := k_decompose_exact p.lvl w' core.wstd w1 w0 core.hdec
  have hw1l : w1.length = p.k := by rw [core.dec.length.1, core.wl]
  have hw0l : w0.length = p.k := by rw [core.dec.length.2, core.wl]
  have hw1row : ∀ r, r < p.k → (w1.getD r []).length = 256 := fun r hr => by
    have f := core.dec.getD [] [] [] r (by rw [core.wl]; exact hr)
    rw [f.2.length.1, f.1]
  have ew1 : w1' = w1 := two_level_ext p.k w1' w1 hw1'l hw1l (fun r hr => (hw1'rows r hr).1) hw1row (fun r hr n hn => by
    have f := hexact.getD [] [] [] r (by rw [core.wl]; exact hr)
    have hwr := core.wstd _ (getD_mem w' r [] (by rw [core.wl]; exact hr))
    have g := f.getD 0 0 0 n (by rw [hwr.1]; exact hn)
    rw [(hw1'rows r hr).2 n hn, g.1])
  subst ew1
  -- c̃
  have hw1r : ∀ a ∈ w1', a.length = 256 ∧ ∀ x ∈ a, 0 ≤ x ∧ x < w1Card p.lvl := by
    refine core.dec.mid (B := fun (hi : Poly) => hi.length = 256 ∧ ∀ x ∈ hi, 0 ≤ x ∧ x < w1Card p.lvl) ?_
    intro a hi lo h3
    exact ⟨h3.2.length.1.trans h3.1, h3.2.mid (B := fun (x : Int) => 0 ≤ x ∧ x < w1Card p.lvl) (fun _ _ _ hd => by rw [hcard]; exact ⟨hd.1, hd.2.1⟩)⟩
  have ect : ct = ct' := by
    have := compute_ctilde_spec p mu (k_pack_w1 p.lvl w1') hmu
      (by rw [k_pack_w1_length p.lvl w1' (fun a ha => (hw1r a ha).1), hw1l, hpw])
    rw [core.hct] at this; injection this with this
    rw [this, hct', k_pack_w1_spec p.lvl w1' hw1r]
  subst ect
  -- c
  have ecp : cp' = cp := IsSampleInBall_unique p.tau ct cp' cp hcp'
    (poly_challenge_is_sampleInBall p FUEL ct cp (by rw [hct', SHAKE256_length]) core.hcp)
  subst ecp
  obtain ⟨hcpw, hcpT⟩ := challenge_weight p hp FUEL ct cp' core.hcp
  -- z
  have ez : z' = z := list_ext_getD [] p.l z' z hz'l core.zl (fun j hj =>
    near_unique _ _ _ _ (hz'rows j hj).1 (core.zb _ (getD_mem z j [] (by rw [core.zl]; exact hj))) (by omega)
      (fun i hi => by rw [(hz'rows j hj).2 i hi, core.zy j hj i hi]))
  subst ez
  have hzsmall : ∀ a ∈ z', PolyOK ((p.gamma1 : Int) - p.beta) a :=
    rows_of_getD (PolyOK ((p.gamma1 : Int) - p.beta)) z' p.l hz'l (fun j hj => (hz'rows j hj).1)
  -- the facts shared by the later branches
  have r0small : ∀ (cs2 r0 : PolyVec), R0Facts p s2 cp' w0 cs2 r0 →
      (∀ r, r < p.k → ∀ n, n < 256 → (r0.getD r []).getD n 0 = Spec.LowBits (gamma2Of p.lvl) ((u.getD r []).getD n 0) ∧
        Spec.HighBits (gamma2Of p.lvl) ((u.getD r []).getD n 0) = (w1'.getD r []).getD n 0) ∧
      ∀ a ∈ r0, PolyOK ((p.gamma2 : Int) - p.beta) a := by
    intro cs2 r0 r0f
    have hm := r0_matches p hp s2 cp' hcpT hcpw key.s2l key.s2s w' w1' w0 core.wl core.wstd core.dec cs2 r0 r0f u hurows
    refine ⟨hm, rows_of_getD (PolyOK ((p.gamma2 : Int) - p.beta)) r0 p.k r0f.rl (fun r hr => ?_)⟩
    have hr0r := r0f.rb _ (getD_mem r0 r [] (by rw [r0f.rl]; exact hr))
    refine ⟨hr0r.1, fun x hx => ?_⟩
    obtain ⟨n, hn, rfl⟩ := List.mem_iff_getElem.mp hx
    have e := getD_of_lt (r0.getD r []) n hn
    rw [hr0r.1] at hn
    rw [← e, (hm r hr n hn).1]
    exact (hurows r hr).2.2 n hn
  have ct0eq : ∀ (ct0 : PolyVec), Ct0Facts p t0 cp' ct0 → ct0 = v := by
    intro ct0 cf
    exact list_ext_getD [] p.k ct0 v cf.tl hvl (fun r hr =>
      near_unique _ _ _ _ (cf.tb _ (getD_mem ct0 r [] (by rw [cf.tl]; exact hr))) (hvrows r hr).1 (by omega)
        (fun i hi => by rw [cf.tE r hr i hi, (hvrows r hr).2 i hi]))
  have hvsmall : ∀ a ∈ v, PolyOK (p.gamma2 : Int) a := rows_of_getD (PolyOK (p.gamma2 : Int)) v p.k hvl (fun r hr => (hvrows r hr).1)
  have hinteq : ∀ (cs2 r0 a0 h : PolyVec) (n : Int), R0Facts p s2 cp' w0 cs2 r0 → A0Facts p r0 v a0 w1' h n → h = h' := by
    intro cs2 r0 a0 h n r0f a0f
    obtain ⟨hm, hr0s⟩ := r0small cs2 r0 r0f
    obtain ⟨hhl, hhrows⟩ := hint_matches p hp w' w1' w0 core.wl core.dec r0 v a0 h n r0f.rl (fun a ha => (hr0s a ha).1) hvl
      (fun a ha => (hvsmall a ha).1) a0f u (fun r hr => (hurows r hr).1) hm
    exact two_level_ext p.k h h' hhl hh'l (fun r hr => (hhrows r hr).1) (fun r hr => (hh'rows r hr).1)
      (fun r hr j hj => by rw [(hhrows r hr).2 j hj, (hh'rows r hr).2 j hj])
  cases outc with
  | rejZ hbig => exact absurd hbig (small_not_big z' _ hzsmall)
  | rejR0 cs2 r0 _ r0f hbig => exact absurd hbig (small_not_big r0 _ (r0small cs2 r0 r0f).2)
  | rejCt0 cs2 r0 ct0 _ r0f _ cf hbig =>
    have := ct0eq ct0 cf; subst this
    exact absurd hbig (small_not_big ct0 _ hvsmall)
  | rejHint cs2 r0 ct0 a0 h n _ r0f _ cf _ a0f hn =>
    have := ct0eq ct0 cf; subst this
    have := hinteq cs2 r0 a0 h n r0f a0f; subst this
    have hc := (k_make_hint_count p.lvl a0 w1' 0 h n a0f.hint).1
    omega
  | accept cs2 r0 ct0 a0 h n sg _ r0f _ cf _ a0f hn hpack =>
    have := ct0eq ct0 cf; subst this
    have := hinteq cs2 r0 a0 h n r0f a0f; subst this
    obtain ⟨_, _, hcs, hsb⟩ := sig_facts p hp
    have hctl : ct.length = p.ctilde := by rw [hct', SHAKE256_length]
    rw [pack_sig_none p _ ct z' h hctl (by rw [List.take_append_of_le_length (Nat.le_of_eq hctl.symm), List.take_of_length_le (Nat.le_of_eq hctl)]),
      pack_sig_spec p hp _ ct z' h (by rw [List.length_append, List.length_replicate, hctl]; omega) hctl
        (fun a ha => ⟨(hzsmall a ha).1, fun x hx => by have := (hzsmall a ha).2 x hx; rw [← hg1]; omega⟩) hh'l
        (fun a ha => by
          obtain ⟨r, hr, rfl⟩ := List.mem_iff_getElem.mp ha
          have := (hh'rows r (by rw [← hh'l]; exact hr)).1
          rw [List.getD_eq_getElem?_getD, List.getElem?_eq_getElem hr] at this
          exact this) hwt] at hpack
    injection hpack with hpack
    rw [← hpack, hsig]

/-! ### code ⇒ specification -/

theorem zipWith_getD' {α β γ} (g : α → β → γ) (da : α) (db : β) (dc : γ) : ∀ (a : List α) (b : List β) (i : Nat), i < a.length → i < b.length →
    (List.zipWith g a b).getD i dc = g (a.getD i da) (b.getD i db)
  | [], _, _, h, _ => by simp at h
  | _ :: _, [], _, _, h => by simp at h
  | x :: xs, y :: ys, 0, _, _ => by simp
  | x :: xs, y :: ys, i + 1, h1, h2 => by
      have := zipWith_getD' g da db dc xs ys i (by simpa using h1) (by simpa using h2)
      simpa using this

/-- (a − b) mod q, coefficient by coefficient -/
def subModQ (a b : List Int) : List Int := List.zipWith (fun x y => (x - y) % Q) a b

theorem subModQ_std (a b : List Int) (ha : a.length = 256) (hb : b.length = 256) : Std (subModQ a b) := by
  have hq : Q = 8380417 := Q_val'
  refine ⟨by simp only [subModQ, List.length_zipWith, ha, hb]; rfl, fun x hx => ?_⟩
  unfold subModQ at hx
  obtain ⟨n, hn, rfl⟩ := List.mem_iff_getElem.mp hx
  rw [List.getElem_zipWith]
  have h0 : (0 : Int) < Q := by rw [hq]; decide
  exact ⟨Int.emod_nonneg _ (by omega), Int.emod_lt_of_pos _ h0⟩

theorem subModQ_cast : ∀ (a b : List Int), (castL (subModQ a b) : List K) = List.zipWith (fun u v => u - v) (castL a) (castL b)
  | [], _ => by simp [subModQ, castL]
  | _ :: _, [] => by simp [subModQ, castL]
  | x :: xs, y :: ys => by
      have ih := subModQ_cast xs ys
      simp only [subModQ, castL, List.zipWith_cons_cons, List.map_cons] at ih ⊢
      rw [ih]
      congr 1
      have hq : Q = ((8380417 : Nat) : Int) := by decide
      rw [hq, ZMod.intCast_mod, Int.cast_sub]

set_option maxHeartbeats 3200000 in
/-- **code ⇒ specification**: an iteration the code accepts with signature σ is accepted by the specification with the
    same σ -/
theorem model_accept_is_spec (p : Params) (hp : p ∈ allParams) (mat : List PolyVec) (s1 s2 t0 : PolyVec) (mu rp : List Nat)
    (hmu : mu.length = CRHBYTES) (hrp : rp.length = CRHBYTES) (κ : Nat)
    (y w w1 w0 : PolyVec) (ct : List Nat) (cp : Poly) (z : PolyVec) (core : IterCore p mat s1 mu rp (κ : Int) y w w1 w0 ct cp z)
    (sig : List Nat) (outc : IterOutcome p s2 t0 cp ct w1 w0 z (.accept sig)) : Accepts p mat s1 s2 t0 mu rp κ sig := by
  obtain ⟨hl0, hl7, hk0, hk8, hg1, hg2, hg1u, hg1l, hb0, hbu, hg2u, hg2l⟩ := params_facts p hp
  obtain ⟨hte, hpw, hcard⟩ := sign_params p hp
  have hq : Q = 8380417 := Q_val'
  cases outc with
  | accept cs2 r0 ct0 a0 h n sg hzb r0f hr0b cf hct0b a0f hn hpack =>
  have hexact := k_decompose_exact p.lvl w core.wstd w1 w0 core.hdec
  have hw1l : w1.length = p.k := by rw [core.dec.length.1, core.wl]
  have hw1r : ∀ a ∈ w1, a.length = 256 ∧ ∀ x ∈ a, 0 ≤ x ∧ x < w1Card p.lvl := by
    refine core.dec.mid (B := fun (hi : Poly) => hi.length = 256 ∧ ∀ x ∈ hi, 0 ≤ x ∧ x < w1Card p.lvl) ?_
    intro a hi lo h3
    exact ⟨h3.2.length.1.trans h3.1, h3.2.mid (B := fun (x : Int) => 0 ≤ x ∧ x < w1Card p.lvl) (fun _ _ _ hd => by rw [hcard]; exact ⟨hd.1, hd.2.1⟩)⟩
  have ect : ct = SHAKE256 (mu ++ w1Encode p.lvl w1) p.ctilde := by
    have := compute_ctilde_spec p mu (k_pack_w1 p.lvl w1) hmu
      (by rw [k_pack_w1_length p.lvl w1 (fun a ha => (hw1r a ha).1), hw1l, hpw])
    rw [core.hct] at this; injection this with this
    rw [this, k_pack_w1_spec p.lvl w1 hw1r]
  have hctl : ct.length = p.ctilde := by rw [ect, SHAKE256_length]
  -- u = (w − c·s2) mod q
  let u : PolyVec := List.zipWith subModQ w cs2
  have hul : u.length = p.k := by simp only [u, List.length_zipWith, core.wl, r0f.cl, Nat.min_self]
  have hur : ∀ r, r < p.k → u.getD r [] = subModQ (w.getD r []) (cs2.getD r []) := fun r hr =>
    zipWith_getD' subModQ [] [] [] w cs2 r (by rw [core.wl]; exact hr) (by rw [r0f.cl]; exact hr)
  have hwr : ∀ r, r < p.k → Std (w.getD r []) := fun r hr => core.wstd _ (getD_mem w r [] (by rw [core.wl]; exact hr))
  have hcr : ∀ r, r < p.k → PolyOK Q (cs2.getD r []) := fun r hr => r0f.cb _ (getD_mem cs2 r [] (by rw [r0f.cl]; exact hr))
  have hustd : ∀ r, r < p.k → Std (u.getD r []) := fun r hr => by rw [hur r hr]; exact subModQ_std _ _ (hwr r hr).1 (hcr r hr).1
  have hun : ∀ r, r < p.k → ∀ n, n < 256 → (u.getD r []).getD n 0 = ((w.getD r []).getD n 0 - (cs2.getD r []).getD n 0) % Q := by
    intro r hr n hn
    rw [hur r hr]
    exact zipWith_getD' _ 0 0 0 _ _ n (by rw [(hwr r hr).1]; exact hn) (by rw [(hcr r hr).1]; exact hn)
  have hm : ∀ r, r < p.k → ∀ j, j < 256 → (r0.getD r []).getD j 0 = Spec.LowBits (gamma2Of p.lvl) ((u.getD r []).getD j 0) ∧
      Spec.HighBits (gamma2Of p.lvl) ((u.getD r []).getD j 0) = (w1.getD r []).getD j 0 := by
    intro r hr j hj
    have fdec := core.dec.getD [] [] [] r (by rw [core.wl]; exact hr)
    have fd := fdec.2.getD 0 0 0 j (by rw [fdec.1]; exact hj)
    have hr0r := hr0b _ (getD_mem r0 r [] (by rw [r0f.rl]; exact hr))
    have hr0n := hr0r.2 _ (getD_mem (r0.getD r []) j 0 (by rw [hr0r.1]; exact hj))
    have := low_coeff_conv p.lvl _ _ _ _ _ fd (r0f.cong r hr j hj) (by rw [← hg2]; omega)
    rw [hun r hr j hj]
    exact ⟨this.1.symm, this.2.1⟩
  obtain ⟨hhl, hhrows⟩ := hint_matches p hp w w1 w0 core.wl core.dec r0 ct0 a0 h n r0f.rl (fun a ha => (hr0b a ha).1) cf.tl
    (fun a ha => (hct0b a ha).1) a0f u hustd hm
  have hcount := (k_make_hint_count p.lvl a0 w1 0 h n a0f.hint).1
  have hwt : (idxOf h).length ≤ p.omega := by omega
  have hzrows : ∀ a ∈ z, a.length = 256 ∧ ∀ x ∈ a, -(gamma1Of p.lvl) < x ∧ x ≤ gamma1Of p.lvl :=
    fun a ha => ⟨(hzb a ha).1, fun x hx => by have := (hzb a ha).2 x hx; rw [← hg1]; omega⟩
  obtain ⟨_, _, hcs, hsb⟩ := sig_facts p hp
  rw [pack_sig_none p _ ct z h hctl (by rw [List.take_append_of_le_length (Nat.le_of_eq hctl.symm), List.take_of_length_le (Nat.le_of_eq hctl)]),
    pack_sig_spec p hp _ ct z h (by rw [List.length_append, List.length_replicate, hctl]; omega) hctl hzrows hhl
      (rows_of_getD (fun a => a.length = 256) h p.k hhl (fun r hr => (hhrows r hr).1)) hwt] at hpack
  injection hpack with hpack
  refine ⟨y, w, w1, ct, cp, z, u, ct0, h, mask_is_spec p rp κ y hrp core.mask, ⟨core.wl, core.wstd, core.wy⟩, ⟨hw1l, fun r hr => ?_⟩, ect,
    poly_challenge_is_sampleInBall p FUEL ct cp hctl core.hcp,
    ⟨core.zl, fun j hj => ⟨hzb _ (getD_mem z j [] (by rw [core.zl]; exact hj)), core.zy j hj⟩⟩,
    ⟨hul, fun r hr => ⟨hustd r hr, fun i hi => ?_, fun n' hn' => ?_⟩⟩,
    ⟨cf.tl, fun r hr => ⟨hct0b _ (getD_mem ct0 r [] (by rw [cf.tl]; exact hr)), cf.tE r hr⟩⟩, ⟨hhl, hhrows⟩, hwt, hpack.symm⟩
  · have f := hexact.getD [] [] [] r (by rw [core.wl]; exact hr)
    have fdec := core.dec.getD [] [] [] r (by rw [core.wl]; exact hr)
    refine ⟨by rw [fdec.2.length.1, fdec.1], fun n' hn' => ?_⟩
    exact (f.getD 0 0 0 n' (by rw [(hwr r hr).1]; exact hn')).1
  · unfold El
    rw [hur r hr, subModQ_cast, Ev_sub _ _ (by simp only [castL, List.length_map]; rw [(hwr r hr).1, (hcr r hr).1])]
    have := r0f.cE r hr i hi
    unfold El at this
    rw [this]
  · have m := hm r hr n' hn'
    have hr0r := hr0b _ (getD_mem r0 r [] (by rw [r0f.rl]; exact hr))
    have hr0n := hr0r.2 _ (getD_mem (r0.getD r []) n' 0 (by rw [hr0r.1]; exact hn'))
    rw [← m.1]; exact hr0n

end DV.SignSpec
