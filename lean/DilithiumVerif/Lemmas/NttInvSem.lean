import DilithiumVerif.Lemmas.NttInv
/-
  Lemmas.NttInvSem — the model's `invntt_tomont`, read in R, and the theorem that it undoes the forward transform up to
  the Montgomery factor 2^32.
-/
namespace DV.NttInv
open DV DV.NttAlg DV.NttSem DV.NttEval

variable {R : Type} [CommRing R]

/-- table fact: the constant of inverse block j of the layer that starts at index 2^(t+1) is paired with the forward
    constant of block j of the layer that starts at 2^t, and their Montgomery-domain product is 1:
    ζ[2^t + j] · (−ζ[2^(t+1) − 1 − j]) ≡ 2^64 (mod q). -/
theorem fact_pair : allBelow 8 (fun t => allBelow (2^t) (fun j =>
    decide ((zm (2^t + j) * (-(zm (2^(t+1) - 1 - j))) - 4193792 * 4193792) % q = 0))) = true := by decide +kernel

/-- 256·F ≡ 2^64 (mod q): the final scaling turns the factor 256 of the eight layers into the Montgomery factor -/
theorem fact_F : (256 * Gen.F - 4193792 * 4193792) % q = 0 := by decide +kernel

theorem pair_R (M : ModQ R) (t j : Nat) (ht : t < 8) (hj : j < 2^t) : zR M (2^t + j) * wR M (2^(t+1) - 1 - j) = 1 := by
  have h1 := allBelow_spec 8 _ fact_pair t ht
  have h2 := allBelow_spec (2^t) _ h1 j hj
  have h3 := of_decide_eq_true h2
  have h0 := cast_of_dvd M _ h3
  rw [Int.cast_sub, Int.cast_mul, Int.cast_mul] at h0
  have h4 := sub_eq_zero.mp h0
  unfold zR wR
  unfold zm at h4
  calc ((zeta (2^t + j) : Int) : R) * M.u * (((-(zeta (2^(t+1) - 1 - j)) : Int) : R) * M.u)
      = (((zeta (2^t + j) : Int) : R) * ((-(zeta (2^(t+1) - 1 - j)) : Int) : R)) * (M.u * M.u) := by ring
    _ = (M.u * ((4193792 : Int) : R)) * (M.u * ((4193792 : Int) : R)) := by rw [h4]; ring
    _ = 1 := by rw [u_r32 M, mul_one]

theorem F_R (M : ModQ R) : ((Gen.F : Int) : R) * M.u * (2:R)^8 = ((4294967296 : Int) : R) := by
  have h0 := cast_of_dvd M _ fact_F
  rw [Int.cast_sub, Int.cast_mul, Int.cast_mul] at h0
  have h4 := sub_eq_zero.mp h0
  have e : ((256 : Int) : R) = (2:R)^8 := by norm_num
  rw [e] at h4
  calc ((Gen.F : Int) : R) * M.u * (2:R)^8 = ((2:R)^8 * ((Gen.F : Int) : R)) * M.u := by ring
    _ = ((4193792 : Int) : R) * (M.u * ((4193792 : Int) : R)) := by rw [h4]; ring
    _ = ((4294967296 : Int) : R) := by rw [u_r32 M, mul_one, r32_cast M]

/-- one inverse block of the model = the inverse butterfly in R -/
theorem invBlock_cast (M : ModQ R) (z : Int) (hz : -4190208 ≤ z ∧ z ≤ 4190208) (blk r : List Int) (len : Nat)
    (C : Int) (hC : 2 * C ≤ 2147483648) (hl : blk.length = 2 * len) (hb : Bd C blk) (h : invBlock z blk len = .ok r) :
    (castL r : List R) = ibfly (((z : Int) : R) * M.u) len (castL blk) := by
  have hlo : Bd C (blk.take len) := fun x hx => hb x (List.mem_of_mem_take hx)
  have hhi : Bd C (blk.drop len) := fun x hx => hb x (List.mem_of_mem_drop hx)
  have hlen : (blk.take len).length = (blk.drop len).length := by simp [List.length_take, List.length_drop]; omega
  obtain ⟨_, ⟨rd, hd, _, bd⟩⟩ := zip_addsub2 C hC (blk.take len) (blk.drop len) hlen hlo hhi
  unfold invBlock at h
  obtain ⟨lo', hlo', h⟩ := bind_eq_ok.mp h
  obtain ⟨d, hd', h⟩ := bind_eq_ok.mp h
  obtain ⟨hi', hhi', h⟩ := bind_eq_ok.mp h
  injection h with h; subst h
  rw [hd] at hd'; injection hd' with hd'; subst hd'
  have ht := mapL_mulZeta_cast M z hz rd hi' (Bd_mono _ _ hC rd bd) hhi'
  rw [castL_append, zipL_add32_cast _ _ _ hlo', ht, zipL_sub32_cast _ _ _ hd, castL_take, castL_drop]
  unfold ibfly
  congr 1
  rw [List.map_zipWith]

theorem invLayerGo_cast (M : ModQ R) (len : Nat) (C : Int) (hC : 2 * C ≤ 2147483648) : ∀ (blocks : List (List Int)) (k : Nat) (r : List Int),
    (∀ b ∈ blocks, b.length = 2 * len ∧ Bd C b) → invLayerGo len k blocks = .ok r →
    (castL r : List R) = ilayerGo (wR M) len k (blocks.map castL) := by
  intro blocks
  induction blocks with
  | nil => intro k r _ h; simp [invLayerGo] at h; subst h; rfl
  | cons b bs ih =>
    intro k r hb h
    have hzb := zeta_bound (k - 1)
    unfold invLayerGo at h
    rw [sub32_ok _ _ (by omega)] at h
    rw [ok_bind] at h
    obtain ⟨b', hb', h⟩ := bind_eq_ok.mp h
    obtain ⟨rest, hrest, h⟩ := bind_eq_ok.mp h
    injection h with h; subst h
    obtain ⟨hbl, hbb⟩ := hb b (List.mem_cons_self ..)
    rw [castL_append, invBlock_cast M (0 - zeta (k - 1)) (by omega) b b' len C hC hbl hbb hb',
      ih (k - 1) rest (fun x hx => hb x (List.mem_cons_of_mem _ hx)) hrest]
    simp only [List.map_cons, ilayerGo, wR, Int.zero_sub]

theorem invLayer_cast (M : ModQ R) (len k0 : Nat) (hlen : 0 < len) (C : Int) (hC : 2 * C ≤ 2147483648) (a r : List Int)
    (hd : a.length % (2 * len) = 0) (hb : Bd C a) (h : invLayer len k0 a = .ok r) :
    (castL r : List R) = ilayerGo (wR M) len k0 (DV.chunks (2 * len) (castL a)) := by
  unfold invLayer at h
  have hmem := DV.chunks_mem (2 * len) (by omega) a.length a rfl hd
  rw [invLayerGo_cast M len C hC _ _ r (fun b hb' => ⟨(hmem b hb').1, fun x hx => hb x ((hmem b hb').2 x hx)⟩) h]
  unfold castL
  rw [chunks_map _ (2 * len) (by omega) a.length a rfl]

/-- The inverse NTT of the model, read in R: eight inverse layers (len = 1, …, 128) and the scaling by F·2^{-32}. -/
theorem invntt_cast (M : ModQ R) (a r : List Int) (hl : a.length = 256) (hb : Bd Q a) (h : invntt_tomont a = .ok r) :
    (castL r : List R) = (inttBF (wR M) 8 2 (castL a)).map (fun v => ((Gen.F : Int) : R) * M.u * v) := by
  have hq : Q = 8380417 := Q_val'
  unfold invntt_tomont at h
  simp only [hl, ne_eq, not_true_eq_false, if_false] at h
  obtain ⟨r1, h1, h⟩ := bind_eq_ok.mp h
  obtain ⟨r2, h2, h⟩ := bind_eq_ok.mp h
  obtain ⟨r3, h3, h⟩ := bind_eq_ok.mp h
  obtain ⟨r4, h4, h⟩ := bind_eq_ok.mp h
  obtain ⟨r5, h5, h⟩ := bind_eq_ok.mp h
  obtain ⟨r6, h6, h⟩ := bind_eq_ok.mp h
  obtain ⟨r7, h7, h⟩ := bind_eq_ok.mp h
  obtain ⟨r8, h8, h⟩ := bind_eq_ok.mp h
  obtain ⟨_, e1, l1, b1⟩ := invLayer_bound 1 256 (by decide) Q (by omega) (by omega) a (by rw [hl]) hb
  rw [h1] at e1; injection e1 with e1; subst e1
  obtain ⟨_, e2, l2, b2⟩ := invLayer_bound 2 128 (by decide) (2 * Q) (by omega) (by omega) r1 (by rw [l1, hl]) b1
  rw [h2] at e2; injection e2 with e2; subst e2
  obtain ⟨_, e3, l3, b3⟩ := invLayer_bound 4 64 (by decide) (2 * (2 * Q)) (by omega) (by omega) r2 (by rw [l2, l1, hl]) b2
  rw [h3] at e3; injection e3 with e3; subst e3
  obtain ⟨_, e4, l4, b4⟩ := invLayer_bound 8 32 (by decide) (2 * (2 * (2 * Q))) (by omega) (by omega) r3 (by rw [l3, l2, l1, hl]) b3
  rw [h4] at e4; injection e4 with e4; subst e4
  obtain ⟨_, e5, l5, b5⟩ := invLayer_bound 16 16 (by decide) (2 * (2 * (2 * (2 * Q)))) (by omega) (by omega) r4 (by rw [l4, l3, l2, l1, hl]) b4
  rw [h5] at e5; injection e5 with e5; subst e5
  obtain ⟨_, e6, l6, b6⟩ := invLayer_bound 32 8 (by decide) (2 * (2 * (2 * (2 * (2 * Q))))) (by omega) (by omega) r5 (by rw [l5, l4, l3, l2, l1, hl]) b5
  rw [h6] at e6; injection e6 with e6; subst e6
  obtain ⟨_, e7, l7, b7⟩ := invLayer_bound 64 4 (by decide) (2 * (2 * (2 * (2 * (2 * (2 * Q)))))) (by omega) (by omega) r6 (by rw [l6, l5, l4, l3, l2, l1, hl]) b6
  rw [h7] at e7; injection e7 with e7; subst e7
  obtain ⟨_, e8, l8, b8⟩ := invLayer_bound 128 2 (by decide) (2 * (2 * (2 * (2 * (2 * (2 * (2 * Q))))))) (by omega) (by omega) r7 (by rw [l7, l6, l5, l4, l3, l2, l1, hl]) b7
  rw [h8] at e8; injection e8 with e8; subst e8
  have c1 := invLayer_cast M 1 256 (by decide) Q (by omega) a r1 (by rw [hl]) hb h1
  have c2 := invLayer_cast M 2 128 (by decide) (2 * Q) (by omega) r1 r2 (by rw [l1, hl]) b1 h2
  have c3 := invLayer_cast M 4 64 (by decide) (2 * (2 * Q)) (by omega) r2 r3 (by rw [l2, l1, hl]) b2 h3
  have c4 := invLayer_cast M 8 32 (by decide) (2 * (2 * (2 * Q))) (by omega) r3 r4 (by rw [l3, l2, l1, hl]) b3 h4
  have c5 := invLayer_cast M 16 16 (by decide) (2 * (2 * (2 * (2 * Q)))) (by omega) r4 r5 (by rw [l4, l3, l2, l1, hl]) b4 h5
  have c6 := invLayer_cast M 32 8 (by decide) (2 * (2 * (2 * (2 * (2 * Q))))) (by omega) r5 r6 (by rw [l5, l4, l3, l2, l1, hl]) b5 h6
  have c7 := invLayer_cast M 64 4 (by decide) (2 * (2 * (2 * (2 * (2 * (2 * Q)))))) (by omega) r6 r7 (by rw [l6, l5, l4, l3, l2, l1, hl]) b6 h7
  have c8 := invLayer_cast M 128 2 (by decide) (2 * (2 * (2 * (2 * (2 * (2 * (2 * Q))))))) (by omega) r7 r8 (by rw [l7, l6, l5, l4, l3, l2, l1, hl]) b7 h8
  have hF : -4190208 ≤ Gen.F ∧ Gen.F ≤ 4190208 := by decide
  rw [mapL_mulZeta_cast M Gen.F hF r8 r (Bd_mono _ _ (by omega) r8 b8) h]
  simp only [inttBF]
  rw [c8, c7, c6, c5, c4, c3, c2, c1]
  rfl

/-- **Inverse ∘ forward = 2^32.** In R, the inverse transform applied to any list that agrees (in R) with the output of the
    forward transform of `a` is 2^32·a: the documented Montgomery factor. (The code always reduces between the two
    transforms, so `b` is a reduced representative of `y`, equal to it in R.) -/
theorem invntt_ntt (M : ModQ R) (a y b r : List Int) (hl : a.length = 256) (B : Int) (hB0 : 0 < B) (hB : B + 8 * Q ≤ 2147483648)
    (hb : Bd B a) (hy : ntt a = .ok y) (hbl : b.length = 256) (hbb : Bd Q b) (hby : (castL b : List R) = castL y)
    (h : invntt_tomont b = .ok r) :
    (castL r : List R) = (castL a).map (fun v => ((4294967296 : Int) : R) * v) := by
  rw [invntt_cast M b r hbl hbb h, hby, ntt_cast M a y hl B hB0 hB hb hy]
  have hla : (castL a : List R).length = 2 ^ 8 := by simp [castL, hl]
  have key := inttBF_nttBF (zR M) (wR M) 8 1 [(castL a : List R)] (1 : R) (by intro b hb; simp at hb; subst hb; exact hla)
    (by intro t j ht hj
        have := pair_R M t j ht (by simpa using hj)
        have e1 : 1 * 2^t + j = 2^t + j := by rw [Nat.one_mul]
        have e2 : (1 + [(castL a : List R)].length) * 2^t - 1 - j = 2^(t+1) - 1 - j := by simp [pow_succ]; ring_nf
        rw [e1, e2]; exact this)
  simp only [List.flatten_cons, List.flatten_nil, List.append_nil, List.length_cons, List.length_nil, one_mul, mul_one] at key
  have e0 : (fun x : R => x) = id := rfl
  rw [e0, List.map_id] at key
  rw [show (1 + (0 + 1) : Nat) = 2 from rfl] at key
  rw [key, List.map_map]
  congr 1
  funext v
  simp only [Function.comp]
  rw [← mul_assoc, F_R M]

end DV.NttInv
