import DilithiumVerif.Lemmas.PolySem
import DilithiumVerif.Impl.PolyVec
/-
  Lemmas.VecSem — the vector and matrix operations of the model (src/polyvec) in total form, read in R.
  `PolyOK C a`: a has 256 coefficients, all below C in magnitude.
-/
namespace DV.VecSem
open DV DV.NttAlg DV.NttSem DV.NttEval DV.NttInv DV.NttMul DV.NttRev DV.PolySem

variable {R : Type} [CommRing R]

def PolyOK (C : Int) (a : List Int) : Prop := a.length = 256 ∧ Bd C a

theorem PolyOK.mono {C D : Int} (h : C ≤ D) {a : List Int} (ha : PolyOK C a) : PolyOK D a := ⟨ha.1, Bd_mono C D h a ha.2⟩

/-- value of an NTT-domain polynomial at slot i -/
def Vl (a : List Int) (i : Nat) : R := (castL a : List R).getD i 0
/-- evaluation of a standard-domain polynomial at root i -/
def El (a : List Int) (i : Nat) : R := Ev (castL a : List R) i

theorem El_congr (a b : List Int) (h : (castL a : List R) = castL b) (i : Nat) : (El a i : R) = El b i := by unfold El; rw [h]
theorem Vl_congr (a b : List Int) (h : (castL a : List R) = castL b) (i : Nat) : (Vl a i : R) = Vl b i := by unfold Vl; rw [h]

theorem vec_ntt_sem (M : ModQ R) (B : Int) (hB0 : 0 < B) (hB : B + 8 * Q ≤ 2147483648) (v : PolyVec) (hv : ∀ a ∈ v, PolyOK B a) :
    ∃ r, vec_ntt v = .ok r ∧ All2 (fun a y => PolyOK (B + 8 * Q) y ∧ ∀ i, i < 256 → (Vl y i : R) = El a i) v r := by
  apply mapL_total poly_ntt (PolyOK B) _ _ v hv
  intro a ha
  obtain ⟨y, hy, ly, by', he⟩ := ntt_sem M a ha.1 B hB0 hB ha.2
  exact ⟨y, hy, ⟨ly, by'⟩, he⟩

theorem vec_invntt_sem (M : ModQ R) (v : PolyVec) (hv : ∀ a ∈ v, PolyOK Q a) :
    ∃ r, vec_invntt_tomont v = .ok r ∧
      All2 (fun b x => PolyOK Q x ∧ ∀ i, i < 256 → (El x i : R) = ((4294967296 : Int) : R) * Vl b i) v r := by
  apply mapL_total poly_invntt_tomont (PolyOK Q) _ _ v hv
  intro b hb
  obtain ⟨x, hx, lx, bx, he⟩ := invntt_sem M b hb.1 hb.2
  exact ⟨x, hx, ⟨lx, bx⟩, he⟩

/-- tight output bound of the inverse transform on vectors -/
theorem vec_invntt_tight (v r : PolyVec) (hv : ∀ a ∈ v, PolyOK Q a) (h : vec_invntt_tomont v = .ok r) :
    ∀ x ∈ r, Bd 4211199 x := by
  have := mapL_rel_ok poly_invntt_tomont (PolyOK Q) (fun _ x => Bd 4211199 x)
    (fun a x ha hx => invntt_tight a x ha.1 ha.2 hx) v r hv h
  exact All2.right (B := fun x => Bd 4211199 x) (fun _ _ h => h) this

theorem vec_reduce_sem (M : ModQ R) (v : PolyVec) (hv : ∀ a ∈ v, PolyOK (2147483648 - 4194304) a) :
    ∃ r, vec_reduce v = .ok r ∧ All2 (fun a x => PolyOK 6283010 x ∧ (castL x : List R) = castL a) v r := by
  apply mapL_total poly_reduce (PolyOK (2147483648 - 4194304)) _ _ v hv
  intro a ha
  obtain ⟨x, hx, lx, bx, cx⟩ := poly_reduce_sem M a ha.2
  exact ⟨x, hx, ⟨by rw [lx, ha.1], bx⟩, cx⟩

/-- coefficients in [0, q) -/
def Std (a : List Int) : Prop := a.length = 256 ∧ ∀ x ∈ a, 0 ≤ x ∧ x < Q

theorem vec_caddq_sem (M : ModQ R) (v : PolyVec) (hv : ∀ a ∈ v, PolyOK Q a) :
    ∃ r, vec_caddq v = .ok r ∧ All2 (fun a x => Std x ∧ (castL x : List R) = castL a) v r := by
  apply mapL_total poly_caddq (PolyOK Q) _ _ v hv
  intro a ha
  obtain ⟨x, hx, lx, bx, cx, _⟩ := poly_caddq_sem M a ha.2
  exact ⟨x, hx, ⟨by rw [lx, ha.1], bx⟩, cx⟩

theorem vec_add_sem (C D : Int) (hCD : C + D ≤ 2147483648) (w v : PolyVec) (hl : w.length = v.length)
    (hw : ∀ a ∈ w, PolyOK C a) (hv : ∀ a ∈ v, PolyOK D a) :
    ∃ r, vec_add w v = .ok r ∧ All3 (fun a b x => PolyOK (C + D) x ∧
      (castL x : List R) = List.zipWith (fun u v => u + v) (castL a) (castL b)) w v r := by
  apply zipL_total poly_add (PolyOK C) (PolyOK D) _ _ w v hl hw hv
  intro a b ha hb
  obtain ⟨x, hx, lx, bx, cx⟩ := poly_add_sem (R := R) C D hCD a b (by rw [ha.1, hb.1]) ha.2 hb.2
  exact ⟨x, hx, ⟨by rw [lx, ha.1], bx⟩, cx⟩

theorem vec_sub_sem (C D : Int) (hCD : C + D ≤ 2147483648) (w v : PolyVec) (hl : w.length = v.length)
    (hw : ∀ a ∈ w, PolyOK C a) (hv : ∀ a ∈ v, PolyOK D a) :
    ∃ r, vec_sub w v = .ok r ∧ All3 (fun a b x => PolyOK (C + D) x ∧
      (castL x : List R) = List.zipWith (fun u v => u - v) (castL a) (castL b)) w v r := by
  apply zipL_total poly_sub (PolyOK C) (PolyOK D) _ _ w v hl hw hv
  intro a b ha hb
  obtain ⟨x, hx, lx, bx, cx⟩ := poly_sub_sem (R := R) C D hCD a b (by rw [ha.1, hb.1]) ha.2 hb.2
  exact ⟨x, hx, ⟨by rw [lx, ha.1], bx⟩, cx⟩

theorem El_add (a b x : List Int) (hl : a.length = b.length)
    (h : (castL x : List R) = List.zipWith (fun u v => u + v) (castL a) (castL b)) (i : Nat) : (El x i : R) = El a i + El b i := by
  unfold El; rw [h, Ev_add _ _ (by simp [castL, hl])]
theorem El_sub (a b x : List Int) (hl : a.length = b.length)
    (h : (castL x : List R) = List.zipWith (fun u v => u - v) (castL a) (castL b)) (i : Nat) : (El x i : R) = El a i - El b i := by
  unfold El; rw [h, Ev_sub _ _ (by simp [castL, hl])]
theorem Vl_add (a b x : List Int) (h : (castL x : List R) = List.zipWith (fun u v => u + v) (castL a) (castL b)) (i : Nat)
    (ha : i < a.length) (hb : i < b.length) : (Vl x i : R) = Vl a i + Vl b i := by
  unfold Vl; rw [h, zipWith_getD _ _ _ i (by simpa [castL] using ha) (by simpa [castL] using hb)]
theorem Vl_sub (a b x : List Int) (h : (castL x : List R) = List.zipWith (fun u v => u - v) (castL a) (castL b)) (i : Nat)
    (ha : i < a.length) (hb : i < b.length) : (Vl x i : R) = Vl a i - Vl b i := by
  unfold Vl; rw [h, zipWith_getD _ _ _ i (by simpa [castL] using ha) (by simpa [castL] using hb)]

theorem vec_pointwise_poly_sem (M : ModQ R) (c : List Int) (hc : PolyOK (9 * Q) c) (v : PolyVec) (hv : ∀ a ∈ v, PolyOK (9 * Q) a) :
    ∃ r, vec_pointwise_poly_montgomery c v = .ok r ∧
      All2 (fun a x => PolyOK Q x ∧ ∀ i, i < 256 → (Vl x i : R) = M.u * Vl c i * Vl a i) v r := by
  apply mapL_total (fun x => poly_pointwise_montgomery c x) (PolyOK (9 * Q)) _ _ v hv
  intro a ha
  obtain ⟨x, hx, lx, bx, he⟩ := pointwise_sem M c a hc.1 ha.1 hc.2 ha.2
  exact ⟨x, hx, ⟨lx, bx⟩, he⟩

/-- Σ_j u_j[i]·v_j[i] over two lists of NTT-domain polynomials -/
def dotV : List (List Int) → List (List Int) → Nat → R
  | u :: us, v :: vs, i => Vl u i * Vl v i + dotV us vs i
  | _, _, _ => 0

theorem acc_go_sem (M : ModQ R) : ∀ (us vs : List (List Int)) (w : List Int) (C : Int), us.length = vs.length →
    (∀ a ∈ us, PolyOK (9 * Q) a) → (∀ a ∈ vs, PolyOK (9 * Q) a) → PolyOK C w → 0 < C → C + us.length * Q ≤ 2147483648 →
    ∃ r, l_pointwise_acc_go us vs w = .ok r ∧ PolyOK (C + us.length * Q) r ∧
      ∀ i, i < 256 → (Vl r i : R) = Vl w i + M.u * dotV us vs i := by
  intro us
  induction us with
  | nil =>
    intro vs w C hl _ _ hw _ _
    have : vs = [] := List.eq_nil_of_length_eq_zero (by simpa using hl.symm)
    subst this
    refine ⟨w, rfl, by simpa using hw, fun i _ => by simp [dotV]⟩
  | cons u us ih =>
    intro vs w C hl hu hv hw hC0 hC
    cases vs with
    | nil => simp at hl
    | cons v vs =>
      have hq : Q = 8380417 := Q_val'
      simp only [List.length_cons] at hC
      obtain ⟨t, ht, lt, bt, et⟩ := pointwise_sem M u v (hu u (List.mem_cons_self ..)).1 (hv v (List.mem_cons_self ..)).1
        (hu u (List.mem_cons_self ..)).2 (hv v (List.mem_cons_self ..)).2
      have hC1 : C + Q ≤ 2147483648 := by
        have : (0:Int) ≤ (us.length : Int) * Q := by rw [hq]; omega
        have : ((us.length : Int) + 1) * Q = (us.length : Int) * Q + Q := by ring
        push_cast at hC; omega
      obtain ⟨w', hw', lw', bw', cw'⟩ := poly_add_sem (R := R) C Q hC1 w t (by rw [hw.1, lt]) hw.2 bt
      obtain ⟨r, hr, okr, er⟩ := ih vs w' (C + Q) (by simpa using hl) (fun a ha => hu a (List.mem_cons_of_mem _ ha))
        (fun a ha => hv a (List.mem_cons_of_mem _ ha)) ⟨by rw [lw', hw.1], bw'⟩ (by rw [hq]; omega)
        (by push_cast at hC; have : ((us.length : Int) + 1) * Q = (us.length : Int) * Q + Q := by ring
            omega)
      refine ⟨r, ?_, ?_, ?_⟩
      · unfold l_pointwise_acc_go; rw [ht, ok_bind, hw', ok_bind, hr]
      · have e : C + Q + (us.length : Int) * Q = C + ((us.length + 1 : Nat) : Int) * Q := by push_cast; ring
        rw [List.length_cons, ← e]; exact okr
      · intro i hi
        rw [er i hi, Vl_add w t w' cw' i (by rw [hw.1]; exact hi) (by rw [lt]; exact hi)]
        simp only [dotV]
        have := et i hi
        unfold Vl at this ⊢
        rw [this]; ring

theorem acc_sem (M : ModQ R) (us vs : List (List Int)) (hl : us.length = vs.length) (hpos : 0 < us.length) (hL : us.length ≤ 8)
    (hu : ∀ a ∈ us, PolyOK (9 * Q) a) (hv : ∀ a ∈ vs, PolyOK (9 * Q) a) :
    ∃ r, l_pointwise_acc_montgomery us vs = .ok r ∧ PolyOK (8 * Q) r ∧ ∀ i, i < 256 → (Vl r i : R) = M.u * dotV us vs i := by
  have hq : Q = 8380417 := Q_val'
  cases us with
  | nil => simp at hpos
  | cons u us =>
    cases vs with
    | nil => simp at hl
    | cons v vs =>
      obtain ⟨t, ht, lt, bt, et⟩ := pointwise_sem M u v (hu u (List.mem_cons_self ..)).1 (hv v (List.mem_cons_self ..)).1
        (hu u (List.mem_cons_self ..)).2 (hv v (List.mem_cons_self ..)).2
      simp only [List.length_cons] at hL
      obtain ⟨r, hr, okr, er⟩ := acc_go_sem M us vs t Q (by simpa using hl) (fun a ha => hu a (List.mem_cons_of_mem _ ha))
        (fun a ha => hv a (List.mem_cons_of_mem _ ha)) ⟨lt, bt⟩ (by rw [hq]; omega)
        (by rw [hq]; have : (us.length : Int) ≤ 7 := by omega
            omega)
      have hmono : Q + (us.length : Int) * Q ≤ 8 * Q := by
        rw [hq]; have : (us.length : Int) ≤ 7 := by omega
        omega
      refine ⟨r, ?_, okr.mono hmono, ?_⟩
      · show (poly_pointwise_montgomery u v >>= fun w => l_pointwise_acc_go us vs w) = _
        rw [ht, ok_bind, hr]
      · intro i hi
        rw [er i hi]
        simp only [dotV]
        have := et i hi
        unfold Vl at this ⊢
        rw [this]; ring

theorem matrix_sem (M : ModQ R) (mat : List PolyVec) (v : PolyVec) (hpos : 0 < v.length) (hL : v.length ≤ 8)
    (hm : ∀ row ∈ mat, row.length = v.length ∧ ∀ a ∈ row, PolyOK (9 * Q) a) (hv : ∀ a ∈ v, PolyOK (9 * Q) a) :
    ∃ r, matrix_pointwise_montgomery mat v = .ok r ∧
      All2 (fun row x => PolyOK (8 * Q) x ∧ ∀ i, i < 256 → (Vl x i : R) = M.u * dotV row v i) mat r := by
  apply mapL_total (fun row => l_pointwise_acc_montgomery row v) (fun row => row.length = v.length ∧ ∀ a ∈ row, PolyOK (9 * Q) a) _ _ mat hm
  intro row hrow
  exact acc_sem M row v hrow.1 (by rw [hrow.1]; exact hpos) (by rw [hrow.1]; exact hL) hrow.2 hv

end DV.VecSem
