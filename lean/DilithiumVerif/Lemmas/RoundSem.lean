import DilithiumVerif.Lemmas.VecSem
import DilithiumVerif.Props.C15
import DilithiumVerif.Props.C18
/-
  Lemmas.RoundSem — level-generic forms of the rounding theorems of C15 and their lifts to polynomials and vectors
  (k_decompose, k_make_hint, k_use_hint, k_power2round), plus finite sums for the matrix rows.
-/
namespace DV.RoundSem
open DV DV.NttSem DV.PolySem DV.VecSem DV.NttMul

variable {R : Type} [CommRing R]

def mOf : Lvl → Int
  | .l2 => 44 | .l3 => 16 | .l5 => 16

theorem gamma2_vals : gamma2Of .l2 = 95232 ∧ gamma2Of .l3 = 261888 ∧ gamma2Of .l5 = 261888 := by decide

theorem decompose_spec (lv : Lvl) (a : Int) (h : 0 ≤ a ∧ a < Q) :
    ∃ a0 a1, decompose lv a = .ok (a0, a1) ∧ 0 ≤ a1 ∧ a1 < mOf lv ∧ (a1 * (2 * gamma2Of lv) + a0 - a) % Q = 0
      ∧ -(gamma2Of lv) ≤ a0 ∧ a0 ≤ gamma2Of lv := by
  obtain ⟨g2, g3, g5⟩ := gamma2_vals
  cases lv with
  | l2 =>
    obtain ⟨a0, a1, h1, h2, h3, h4, h5, h6, _⟩ := C15.decompose88_spec a h
    exact ⟨a0, a1, h1, h2, h3, by rw [g2]; exact h4, by rw [g2]; exact h5, by rw [g2]; exact h6⟩
  | l3 =>
    obtain ⟨a0, a1, h1, h2, h3, h4, h5, h6, _⟩ := C15.decompose32_spec .l3 (Or.inl rfl) a h
    exact ⟨a0, a1, h1, h2, h3, by rw [g3]; exact h4, by rw [g3]; exact h5, by rw [g3]; exact h6⟩
  | l5 =>
    obtain ⟨a0, a1, h1, h2, h3, h4, h5, h6, _⟩ := C15.decompose32_spec .l5 (Or.inr rfl) a h
    exact ⟨a0, a1, h1, h2, h3, by rw [g5]; exact h4, by rw [g5]; exact h5, by rw [g5]; exact h6⟩

theorem use_hint_make_hint (lv : Lvl) (w1 a0 : Int) (hw : 0 ≤ w1 ∧ w1 < mOf lv)
    (ha : -(2 * gamma2Of lv) < a0 ∧ a0 < 2 * gamma2Of lv) :
    use_hint lv ((w1 * (2 * gamma2Of lv) + a0) % Q) (make_hint lv a0 w1) = .ok w1 := by
  obtain ⟨g2, g3, g5⟩ := gamma2_vals
  cases lv with
  | l2 => rw [g2] at *; exact C15.use_hint_make_hint_88 w1 a0 hw ha
  | l3 => rw [g3] at *; exact C15.use_hint_make_hint_32 .l3 (Or.inl rfl) w1 a0 hw ha
  | l5 => rw [g5] at *; exact C15.use_hint_make_hint_32 .l5 (Or.inr rfl) w1 a0 hw ha

/-! ### finite sums -/

def sumTo (n : Nat) (f : Nat → R) : R :=
  match n with
  | 0 => 0
  | n + 1 => sumTo n f + f n

theorem sumTo_congr (n : Nat) (f g : Nat → R) (h : ∀ j, j < n → f j = g j) : sumTo n f = sumTo n g := by
  induction n with
  | zero => rfl
  | succ n ih => simp only [sumTo]; rw [ih (fun j hj => h j (by omega)), h n (by omega)]

theorem sumTo_add (n : Nat) (f g : Nat → R) : sumTo n (fun j => f j + g j) = sumTo n f + sumTo n g := by
  induction n with
  | zero => simp [sumTo]
  | succ n ih => simp only [sumTo, ih]; ring

theorem sumTo_mul (n : Nat) (c : R) (f : Nat → R) : sumTo n (fun j => c * f j) = c * sumTo n f := by
  induction n with
  | zero => simp [sumTo]
  | succ n ih => simp only [sumTo, ih]; ring

theorem sumTo_shift (n : Nat) (f : Nat → R) : sumTo (n + 1) f = f 0 + sumTo n (fun j => f (j + 1)) := by
  induction n with
  | zero => simp [sumTo]
  | succ n ih => rw [sumTo, ih]; simp only [sumTo]; ring

/-- the row sum of `VecSem.dotV` as an indexed sum -/
theorem dotV_sum : ∀ (us vs : List (List Int)) (i : Nat), us.length = vs.length →
    (dotV us vs i : R) = sumTo us.length (fun j => Vl (us.getD j []) i * Vl (vs.getD j []) i)
  | [], [], _, _ => rfl
  | [], _ :: _, _, h => by simp at h
  | _ :: _, [], _, h => by simp at h
  | u :: us, v :: vs, i, h => by
      rw [List.length_cons, sumTo_shift]
      simp only [dotV, List.getD_cons_zero, List.getD_cons_succ]
      rw [dotV_sum us vs i (by simpa using h)]

/-! ### generic: a list of pairs related to a list -/

theorem all2_unzip {α β γ} {P : α → β → γ → Prop} : ∀ {l : List α} {r : List (β × γ)}, All2 (fun a bc => P a bc.1 bc.2) l r →
    All3 P l (r.map (·.1)) (r.map (·.2))
  | _, _, .nil => .nil
  | _, _, .cons h t => .cons h (all2_unzip t)

theorem All3.swap23 {α β γ} {P : α → γ → β → Prop} : ∀ {a : List α} {b : List β} {c : List γ},
    All3 (fun x y z => P x z y) a b c → All3 P a c b
  | _, _, _, .nil => .nil
  | _, _, _, .cons h t => .cons h (All3.swap23 t)

theorem zipL_of_all3 {α β γ} (f : α → β → Chk γ) : ∀ {a : List α} {b : List β} {c : List γ},
    All3 (fun x y z => f x y = .ok z) a b c → zipL f a b = .ok c
  | _, _, _, .nil => rfl
  | _, _, _, .cons h t => by unfold zipL; rw [h, ok_bind, zipL_of_all3 f t]; rfl

theorem All3.of_getD {α β γ} {P : α → β → γ → Prop} (da : α) (db : β) (dc : γ) : ∀ (a : List α) (b : List β) (c : List γ),
    b.length = a.length → c.length = a.length → (∀ i, i < a.length → P (a.getD i da) (b.getD i db) (c.getD i dc)) → All3 P a b c
  | [], [], [], _, _, _ => .nil
  | [], _ :: _, _, h, _, _ => by simp at h
  | [], [], _ :: _, _, h, _ => by simp at h
  | _ :: _, [], _, h, _, _ => by simp at h
  | _ :: _, _ :: _, [], _, h, _ => by simp at h
  | a :: as, b :: bs, c :: cs, h1, h2, hp => by
      refine .cons (by simpa using hp 0 (by simp)) (All3.of_getD da db dc as bs cs (by simpa using h1) (by simpa using h2) ?_)
      intro i hi
      have := hp (i + 1) (by simpa using hi)
      simpa using this

/-! ### decompose on polynomials and vectors -/

/-- coefficient relation of a decomposition: a ≡ hi·2γ2 + lo (mod q), 0 ≤ hi < m, |lo| ≤ γ2 -/
def DecC (lv : Lvl) (a hi lo : Int) : Prop :=
  0 ≤ hi ∧ hi < mOf lv ∧ (hi * (2 * gamma2Of lv) + lo - a) % Q = 0 ∧ -(gamma2Of lv) ≤ lo ∧ lo ≤ gamma2Of lv

theorem poly_decompose_sem (lv : Lvl) (a : List Int) (ha : Std a) :
    ∃ lo hi, poly_decompose lv a = .ok (lo, hi) ∧ All3 (DecC lv) a hi lo := by
  obtain ⟨r, hr, h2⟩ := mapL_total (decompose lv) (fun x => 0 ≤ x ∧ x < Q) (fun x y => DecC lv x y.2 y.1)
    (fun x hx => by
      obtain ⟨a0, a1, h1, h2, h3, h4, h5, h6⟩ := decompose_spec lv x hx
      exact ⟨(a0, a1), h1, h2, h3, h4, h5, h6⟩) a ha.2
  refine ⟨r.map (·.1), r.map (·.2), ?_, ?_⟩
  · unfold poly_decompose; rw [hr]; rfl
  · have : All2 (fun x (bc : Int × Int) => (fun x hi lo => DecC lv x hi lo) x bc.2 bc.1) a r := h2
    -- reorder the components
    have h3 : All2 (fun x (bc : Int × Int) => (fun x lo hi => DecC lv x hi lo) x bc.1 bc.2) a r := h2
    have h4 := all2_unzip (P := fun x lo hi => DecC lv x hi lo) h3
    exact All3.swap23 h4

/-- `k_decompose` returns (high parts, low parts) -/
theorem k_decompose_sem (lv : Lvl) (v : PolyVec) (hv : ∀ a ∈ v, Std a) :
    ∃ v1 v0, k_decompose lv v = .ok (v1, v0) ∧ All3 (fun a hi lo => a.length = 256 ∧ All3 (DecC lv) a hi lo) v v1 v0 := by
  obtain ⟨r, hr, h2⟩ := mapL_total (poly_decompose lv) Std (fun a (y : Poly × Poly) => a.length = 256 ∧ All3 (DecC lv) a y.2 y.1)
    (fun a ha => by
      obtain ⟨lo, hi, h1, h2⟩ := poly_decompose_sem lv a ha
      exact ⟨(lo, hi), h1, ha.1, h2⟩) v hv
  refine ⟨r.map (·.2), r.map (·.1), ?_, ?_⟩
  · unfold k_decompose; rw [hr]; rfl
  · have h3 : All2 (fun a (bc : Poly × Poly) => (fun a lo hi => a.length = 256 ∧ All3 (DecC lv) a hi lo) a bc.1 bc.2) v r := h2
    have h4 := all2_unzip (P := fun a lo hi => a.length = 256 ∧ All3 (DecC lv) a hi lo) h3
    exact All3.swap23 h4

/-- reading a decomposition in R: a = 2γ2·hi + lo -/
theorem dec_cast (M : ModQ R) (lv : Lvl) : ∀ {a hi lo : List Int}, All3 (DecC lv) a hi lo →
    (castL a : List R) = List.zipWith (fun u v => u + v) ((castL hi).map (fun v => ((2 * gamma2Of lv : Int) : R) * v)) (castL lo)
  | _, _, _, .nil => rfl
  | _, _, _, .cons h t => by
      have ih := dec_cast M lv t
      simp only [castL, List.map_cons, List.zipWith_cons_cons] at ih ⊢
      rw [ih]
      congr 1
      have := cast_cong M _ _ h.2.2.1
      rw [Int.cast_add, Int.cast_mul] at this
      rw [← this]; ring

/-! ### hints -/

theorem poly_make_hint_go_rel (lv : Lvl) : ∀ (a0 a1 : List Int) (s : Int) (h : List Int) (n : Int),
    poly_make_hint_go lv a0 a1 s = .ok (h, n) → All3 (fun x y z => z = make_hint lv x y) a0 a1 h
  | [], [], s, h, n, e => by simp [poly_make_hint_go] at e; obtain ⟨e1, _⟩ := e; subst e1; exact .nil
  | [], _ :: _, s, h, n, e => by simp [poly_make_hint_go] at e
  | _ :: _, [], s, h, n, e => by simp [poly_make_hint_go] at e
  | x :: xs, y :: ys, s, h, n, e => by
      unfold poly_make_hint_go at e
      obtain ⟨s', _, e⟩ := bind_eq_ok.mp e
      obtain ⟨⟨hs, s''⟩, hgo, e⟩ := bind_eq_ok.mp e
      simp only at e
      injection e with e; injection e with e1 e2; subst e1
      exact .cons rfl (poly_make_hint_go_rel lv xs ys s' hs s'' hgo)

theorem k_make_hint_go_rel (lv : Lvl) : ∀ (v0 v1 : List Poly) (s : Int) (h : List Poly) (n : Int),
    k_make_hint_go lv v0 v1 s = .ok (h, n) → All3 (fun a0 a1 hp => All3 (fun x y z => z = make_hint lv x y) a0 a1 hp) v0 v1 h
  | [], [], s, h, n, e => by simp [k_make_hint_go] at e; obtain ⟨e1, _⟩ := e; subst e1; exact .nil
  | [], _ :: _, s, h, n, e => by simp [k_make_hint_go] at e
  | _ :: _, [], s, h, n, e => by simp [k_make_hint_go] at e
  | x :: xs, y :: ys, s, h, n, e => by
      unfold k_make_hint_go at e
      obtain ⟨⟨hp, c⟩, hph, e⟩ := bind_eq_ok.mp e
      simp only at e
      obtain ⟨s', _, e⟩ := bind_eq_ok.mp e
      obtain ⟨⟨hs, s''⟩, hgo, e⟩ := bind_eq_ok.mp e
      simp only at e
      injection e with e; injection e with e1 e2; subst e1
      exact .cons (poly_make_hint_go_rel lv x y 0 hp c hph) (k_make_hint_go_rel lv xs ys s' hs s'' hgo)

theorem k_make_hint_rel (lv : Lvl) (v0 v1 : PolyVec) (h : PolyVec) (n : Int) (e : k_make_hint lv v0 v1 = .ok (h, n)) :
    All3 (fun a0 a1 hp => All3 (fun x y z => z = make_hint lv x y) a0 a1 hp) v0 v1 h :=
  k_make_hint_go_rel lv v0 v1 0 h n e

/-- `k_use_hint` succeeds with result w1 as soon as every coefficient does -/
theorem k_use_hint_of (lv : Lvl) (w h w1 : PolyVec)
    (hr : All3 (fun a hp r => All3 (fun x y z => use_hint lv x y = .ok z) a hp r) w h w1) : k_use_hint lv w h = .ok w1 := by
  unfold k_use_hint
  apply zipL_of_all3
  exact hr.mono (fun a hp r h3 => by unfold poly_use_hint; exact zipL_of_all3 _ h3)

end DV.RoundSem
