import DilithiumVerif.Impl.Basic
import DilithiumVerif.Lemmas.Basic
/-
  Lemmas.Bits — turning the byte-level bit operations of the codecs into arithmetic that `omega` decides:
  disjoint OR is addition, masks are remainders, truncation to u8 distributes over OR.
-/
set_option linter.unusedSimpArgs false
namespace DV

/-- disjoint OR is addition -/
theorem or_eq_add (a b k : Nat) (ha : a < 2 ^ k) (hb : b % 2 ^ k = 0) : a ||| b = a + b := by
  have hb' : b = (b / 2 ^ k) <<< k := by
    rw [Nat.shiftLeft_eq]; have := Nat.div_add_mod b (2^k); rw [hb] at this; rw [Nat.mul_comm]; omega
  rw [hb', Nat.or_comm, ← Nat.shiftLeft_add_eq_or_of_lt ha, Nat.add_comm]

theorem or_add_2 (a b : Nat) (ha : a < 2) (hb : b % 2 = 0) : a ||| b = a + b := or_eq_add a b 1 ha hb
theorem or_add_4 (a b : Nat) (ha : a < 4) (hb : b % 4 = 0) : a ||| b = a + b := or_eq_add a b 2 ha hb
theorem or_add_8 (a b : Nat) (ha : a < 8) (hb : b % 8 = 0) : a ||| b = a + b := or_eq_add a b 3 ha hb
theorem or_add_16 (a b : Nat) (ha : a < 16) (hb : b % 16 = 0) : a ||| b = a + b := or_eq_add a b 4 ha hb
theorem or_add_32 (a b : Nat) (ha : a < 32) (hb : b % 32 = 0) : a ||| b = a + b := or_eq_add a b 5 ha hb
theorem or_add_64 (a b : Nat) (ha : a < 64) (hb : b % 64 = 0) : a ||| b = a + b := or_eq_add a b 6 ha hb
theorem or_add_128 (a b : Nat) (ha : a < 128) (hb : b % 128 = 0) : a ||| b = a + b := or_eq_add a b 7 ha hb
theorem or_add_256 (a b : Nat) (ha : a < 256) (hb : b % 256 = 0) : a ||| b = a + b := or_eq_add a b 8 ha hb
theorem or_add_512 (a b : Nat) (ha : a < 512) (hb : b % 512 = 0) : a ||| b = a + b := or_eq_add a b 9 ha hb
theorem or_add_1024 (a b : Nat) (ha : a < 1024) (hb : b % 1024 = 0) : a ||| b = a + b := or_eq_add a b 10 ha hb
theorem or_add_2048 (a b : Nat) (ha : a < 2048) (hb : b % 2048 = 0) : a ||| b = a + b := or_eq_add a b 11 ha hb
theorem or_add_4096 (a b : Nat) (ha : a < 4096) (hb : b % 4096 = 0) : a ||| b = a + b := or_eq_add a b 12 ha hb
theorem or_add_8192 (a b : Nat) (ha : a < 8192) (hb : b % 8192 = 0) : a ||| b = a + b := or_eq_add a b 13 ha hb
theorem or_add_16384 (a b : Nat) (ha : a < 16384) (hb : b % 16384 = 0) : a ||| b = a + b := or_eq_add a b 14 ha hb
theorem or_add_32768 (a b : Nat) (ha : a < 32768) (hb : b % 32768 = 0) : a ||| b = a + b := or_eq_add a b 15 ha hb
theorem or_add_65536 (a b : Nat) (ha : a < 65536) (hb : b % 65536 = 0) : a ||| b = a + b := or_eq_add a b 16 ha hb
theorem or_add_131072 (a b : Nat) (ha : a < 131072) (hb : b % 131072 = 0) : a ||| b = a + b := or_eq_add a b 17 ha hb
theorem or_add_262144 (a b : Nat) (ha : a < 262144) (hb : b % 262144 = 0) : a ||| b = a + b := or_eq_add a b 18 ha hb
theorem or_add_524288 (a b : Nat) (ha : a < 524288) (hb : b % 524288 = 0) : a ||| b = a + b := or_eq_add a b 19 ha hb
theorem or_add_1048576 (a b : Nat) (ha : a < 1048576) (hb : b % 1048576 = 0) : a ||| b = a + b := or_eq_add a b 20 ha hb

theorem mask_3 (x : Nat) : x &&& 7 = x % 8 := by
  have : (7 : Nat) = 2 ^ 3 - 1 := by decide
  rw [this, Nat.and_two_pow_sub_one_eq_mod]
theorem mask_4 (x : Nat) : x &&& 15 = x % 16 := by
  have : (15 : Nat) = 2 ^ 4 - 1 := by decide
  rw [this, Nat.and_two_pow_sub_one_eq_mod]
theorem mask_10 (x : Nat) : x &&& 1023 = x % 1024 := by
  have : (1023 : Nat) = 2 ^ 10 - 1 := by decide
  rw [this, Nat.and_two_pow_sub_one_eq_mod]
theorem mask_13 (x : Nat) : x &&& 8191 = x % 8192 := by
  have : (8191 : Nat) = 2 ^ 13 - 1 := by decide
  rw [this, Nat.and_two_pow_sub_one_eq_mod]
theorem mask_18 (x : Nat) : x &&& 262143 = x % 262144 := by
  have : (262143 : Nat) = 2 ^ 18 - 1 := by decide
  rw [this, Nat.and_two_pow_sub_one_eq_mod]
theorem mask_20 (x : Nat) : x &&& 1048575 = x % 1048576 := by
  have : (1048575 : Nat) = 2 ^ 20 - 1 := by decide
  rw [this, Nat.and_two_pow_sub_one_eq_mod]
theorem mask_23 (x : Nat) : x &&& 8388607 = x % 8388608 := by
  have : (8388607 : Nat) = 2 ^ 23 - 1 := by decide
  rw [this, Nat.and_two_pow_sub_one_eq_mod]

/-- rewrite every OR whose operands occupy disjoint bit ranges (side conditions by `omega`) and every mask -/
macro "bits2arith" : tactic => `(tactic| (
  simp only [mask_3, mask_4, mask_10, mask_13, mask_18, mask_20, mask_23, Nat.shiftRight_eq_div_pow, Nat.shiftLeft_eq, Nat.reducePow, Nat.shiftRight_zero, Nat.div_one]
  simp (disch := omega) only [or_add_2, or_add_4, or_add_8, or_add_16, or_add_32, or_add_64, or_add_128, or_add_256, or_add_512, or_add_1024, or_add_2048, or_add_4096, or_add_8192, or_add_16384, or_add_32768, or_add_65536, or_add_131072, or_add_262144, or_add_524288, or_add_1048576]))

theorem asU8_lt (x : Int) : asU8 x < 256 := by unfold asU8; omega

theorem ofU32_mod256 (n : Nat) : (ofU32 n) % 256 = ((n % 256 : Nat) : Int) := by
  unfold ofU32; rw [wrap32_eq_bmod, Int.bmod_def]
  simp only [Int.ofNat_eq_natCast]
  split <;> omega

theorem toU32_mod256 (x : Int) : toU32 x % 256 = asU8 x := by
  unfold toU32 asU8; omega

/-- `(x | y) as u8 = (x as u8) | (y as u8)` -/
theorem asU8_or32 (x y : Int) : asU8 (or32 x y) = asU8 x ||| asU8 y := by
  unfold or32
  have h := ofU32_mod256 (toU32 x ||| toU32 y)
  rw [Nat.or_mod_two_pow (n := 8)] at h
  simp only [Nat.reducePow] at h
  rw [toU32_mod256, toU32_mod256] at h
  unfold asU8 at *
  omega

theorem asU8_wrap32 (y : Int) : asU8 (wrap32 y) = asU8 y := by
  have := wrap32_emod y
  unfold asU8; omega

/-- `(x << k) as u8` only depends on x·2^k mod 256 -/
theorem asU8_shl32 (x : Int) (k : Nat) : asU8 (shl32 x k) = asU8 (x * (2:Int) ^ k) := by
  rw [shl32_eq, asU8_wrap32]

end DV
