import DilithiumVerif.Lemmas.Codecs
/-
  Lemmas.Codecs2 — eta (3/4-bit), z (18/20-bit) codecs: field-level and group-level round trips.
-/
set_option linter.unusedSimpArgs false
set_option linter.unusedVariables false
set_option maxRecDepth 4000
namespace DV

theorem eta2_fields_bytes (t0 t1 t2 t3 t4 t5 t6 t7 : Nat) (b0 : t0 < 8) (b1 : t1 < 8) (b2 : t2 < 8) (b3 : t3 < 8)
    (b4 : t4 < 8) (b5 : t5 < 8) (b6 : t6 < 8) (b7 : t7 < 8) :
    eta_unpack_group2 (eta2_bytes t0 t1 t2 t3 t4 t5 t6 t7) = mapL (fun (x : Nat) => sub32 2 x) [t0, t1, t2, t3, t4, t5, t6, t7] := by
  simp only [eta_unpack_group2, eta2_bytes, eta2_fields]
  bits2arith
  congr 1
  simp only [List.cons.injEq, and_true]
  refine ⟨?_, ?_, ?_, ?_, ?_, ?_, ?_, ?_⟩ <;> omega

theorem eta4_fields_bytes (t0 t1 : Nat) (b0 : t0 < 16) (b1 : t1 < 16) :
    eta_unpack_group4 (eta4_bytes t0 t1) = mapL (fun (x : Nat) => sub32 4 x) [t0, t1] := by
  simp only [eta_unpack_group4, eta4_bytes, eta4_fields]
  bits2arith
  congr 1
  simp only [List.cons.injEq, and_true]
  refine ⟨?_, ?_⟩ <;> omega

/-- η = 2 group: 8 coefficients in [−2, 2] ↔ 3 bytes, no overflow -/
theorem eta2_group_roundtrip (c0 c1 c2 c3 c4 c5 c6 c7 : Int)
    (h0 : -2 ≤ c0 ∧ c0 ≤ 2) (h1 : -2 ≤ c1 ∧ c1 ≤ 2) (h2 : -2 ≤ c2 ∧ c2 ≤ 2) (h3 : -2 ≤ c3 ∧ c3 ≤ 2)
    (h4 : -2 ≤ c4 ∧ c4 ≤ 2) (h5 : -2 ≤ c5 ∧ c5 ≤ 2) (h6 : -2 ≤ c6 ∧ c6 ≤ 2) (h7 : -2 ≤ c7 ∧ c7 ≤ 2) :
    (eta_pack_group2 [c0, c1, c2, c3, c4, c5, c6, c7] >>= eta_unpack_group2) = .ok [c0, c1, c2, c3, c4, c5, c6, c7] := by
  unfold eta_pack_group2
  simp only [mapL]
  rw [sub32_ok _ c0 (by omega), sub32_ok _ c1 (by omega), sub32_ok _ c2 (by omega), sub32_ok _ c3 (by omega),
      sub32_ok _ c4 (by omega), sub32_ok _ c5 (by omega), sub32_ok _ c6 (by omega), sub32_ok _ c7 (by omega)]
  simp only [ok_bind, asU8]
  rw [eta2_fields_bytes _ _ _ _ _ _ _ _ (by omega) (by omega) (by omega) (by omega) (by omega) (by omega) (by omega) (by omega)]
  simp only [mapL]
  rw [sub32_ok _ _ (by omega), sub32_ok _ _ (by omega), sub32_ok _ _ (by omega), sub32_ok _ _ (by omega),
      sub32_ok _ _ (by omega), sub32_ok _ _ (by omega), sub32_ok _ _ (by omega), sub32_ok _ _ (by omega)]
  simp only [ok_bind]
  congr 1
  simp only [List.cons.injEq, and_true]
  omega

/-- η = 4 group: 2 coefficients in [−4, 4] ↔ 1 byte -/
theorem eta4_group_roundtrip (c0 c1 : Int) (h0 : -4 ≤ c0 ∧ c0 ≤ 4) (h1 : -4 ≤ c1 ∧ c1 ≤ 4) :
    (eta_pack_group4 [c0, c1] >>= eta_unpack_group4) = .ok [c0, c1] := by
  unfold eta_pack_group4
  simp only [mapL]
  rw [sub32_ok _ c0 (by omega), sub32_ok _ c1 (by omega)]
  simp only [ok_bind, asU8]
  rw [eta4_fields_bytes _ _ (by omega) (by omega)]
  simp only [mapL]
  rw [sub32_ok _ _ (by omega), sub32_ok _ _ (by omega)]
  simp only [ok_bind]
  congr 1
  simp only [List.cons.injEq, and_true]
  omega

/-! ### z, γ1 = 2^17: fields -/
theorem z17_f0 (t0 t1 : Int) (b0 : 0 ≤ t0 ∧ t0 < 262144) (b1 : 0 ≤ t1 ∧ t1 < 262144) :
    (asU8 t0 ||| (asU8 (sar t0 8) <<< 8) ||| ((asU8 (sar t0 16) ||| asU8 (shl32 t1 2)) <<< 16)) &&& 0x3FFFF = t0.toNat := by
  simp only [asU8_shl32]
  simp only [sar_eq, asU8, Int.reducePow]
  bits2arith
  omega
theorem z17_f1 (t0 t1 t2 : Int) (b0 : 0 ≤ t0 ∧ t0 < 262144) (b1 : 0 ≤ t1 ∧ t1 < 262144) (b2 : 0 ≤ t2 ∧ t2 < 262144) :
    (((asU8 (sar t0 16) ||| asU8 (shl32 t1 2)) >>> 2) ||| (asU8 (sar t1 6) <<< 6) ||| ((asU8 (sar t1 14) ||| asU8 (shl32 t2 4)) <<< 14)) &&& 0x3FFFF = t1.toNat := by
  simp only [asU8_shl32]
  simp only [sar_eq, asU8, Int.reducePow]
  bits2arith
  omega
theorem z17_f2 (t1 t2 t3 : Int) (b1 : 0 ≤ t1 ∧ t1 < 262144) (b2 : 0 ≤ t2 ∧ t2 < 262144) (b3 : 0 ≤ t3 ∧ t3 < 262144) :
    (((asU8 (sar t1 14) ||| asU8 (shl32 t2 4)) >>> 4) ||| (asU8 (sar t2 4) <<< 4) ||| ((asU8 (sar t2 12) ||| asU8 (shl32 t3 6)) <<< 12)) &&& 0x3FFFF = t2.toNat := by
  simp only [asU8_shl32]
  simp only [sar_eq, asU8, Int.reducePow]
  bits2arith
  omega
theorem z17_f3 (t2 t3 : Int) (b2 : 0 ≤ t2 ∧ t2 < 262144) (b3 : 0 ≤ t3 ∧ t3 < 262144) :
    (((asU8 (sar t2 12) ||| asU8 (shl32 t3 6)) >>> 6) ||| (asU8 (sar t3 2) <<< 2) ||| (asU8 (sar t3 10) <<< 10)) &&& 0x3FFFF = t3.toNat := by
  simp only [asU8_shl32]
  simp only [sar_eq, asU8, Int.reducePow]
  bits2arith
  omega

theorem z17_fields_bytes (t0 t1 t2 t3 : Int) (b0 : 0 ≤ t0 ∧ t0 < 262144) (b1 : 0 ≤ t1 ∧ t1 < 262144)
    (b2 : 0 ≤ t2 ∧ t2 < 262144) (b3 : 0 ≤ t3 ∧ t3 < 262144) (g1 : Int) :
    z_unpack_group17 g1 (z17_bytes t0 t1 t2 t3) = mapL (fun (r : Nat) => sub32 g1 r) [t0.toNat, t1.toNat, t2.toNat, t3.toNat] := by
  simp only [z_unpack_group17, z17_bytes, z17_fields]
  rw [z17_f0 t0 t1 b0 b1, z17_f1 t0 t1 t2 b0 b1 b2, z17_f2 t1 t2 t3 b1 b2 b3, z17_f3 t2 t3 b2 b3]

/-- γ1 = 2^17 group: 4 coefficients in (−γ1, γ1] ↔ 9 bytes -/
theorem z17_group_roundtrip (c0 c1 c2 c3 : Int) (h0 : -131072 < c0 ∧ c0 ≤ 131072) (h1 : -131072 < c1 ∧ c1 ≤ 131072)
    (h2 : -131072 < c2 ∧ c2 ≤ 131072) (h3 : -131072 < c3 ∧ c3 ≤ 131072) :
    (z_pack_group17 131072 [c0, c1, c2, c3] >>= z_unpack_group17 131072) = .ok [c0, c1, c2, c3] := by
  unfold z_pack_group17
  simp only [mapL]
  rw [sub32_ok _ c0 (by omega), sub32_ok _ c1 (by omega), sub32_ok _ c2 (by omega), sub32_ok _ c3 (by omega)]
  simp only [ok_bind]
  rw [z17_fields_bytes _ _ _ _ (by omega) (by omega) (by omega) (by omega)]
  simp only [mapL]
  rw [sub32_ok _ _ (by omega), sub32_ok _ _ (by omega), sub32_ok _ _ (by omega), sub32_ok _ _ (by omega)]
  simp only [ok_bind]
  congr 1
  simp only [List.cons.injEq, and_true]
  omega

/-! ### z, γ1 = 2^19 -/
theorem z19_f0 (t0 t1 : Int) (b0 : 0 ≤ t0 ∧ t0 < 1048576) (b1 : 0 ≤ t1 ∧ t1 < 1048576) :
    ((asU8 t0 ||| (asU8 (sar t0 8) <<< 8) ||| ((asU8 (sar t0 16) ||| asU8 (shl32 t1 4)) <<< 16)) &&& 0xFFFFF) &&& 0xFFFFF = t0.toNat := by
  simp only [asU8_shl32]
  simp only [sar_eq, asU8, Int.reducePow]
  bits2arith
  omega
theorem z19_f1 (t0 t1 : Int) (b0 : 0 ≤ t0 ∧ t0 < 1048576) (b1 : 0 ≤ t1 ∧ t1 < 1048576) :
    ((asU8 (sar t0 16) ||| asU8 (shl32 t1 4)) >>> 4) ||| (asU8 (sar t1 4) <<< 4) ||| (asU8 (sar t1 12) <<< 12) = t1.toNat := by
  simp only [asU8_shl32]
  simp only [sar_eq, asU8, Int.reducePow]
  bits2arith
  omega

theorem z19_fields_bytes (t0 t1 : Int) (b0 : 0 ≤ t0 ∧ t0 < 1048576) (b1 : 0 ≤ t1 ∧ t1 < 1048576) (g1 : Int) :
    z_unpack_group19 g1 (z19_bytes t0 t1) = mapL (fun (r : Nat) => sub32 g1 r) [t0.toNat, t1.toNat] := by
  simp only [z_unpack_group19, z19_bytes, z19_fields]
  rw [z19_f0 t0 t1 b0 b1, z19_f1 t0 t1 b0 b1]

/-- γ1 = 2^19 group: 2 coefficients in (−γ1, γ1] ↔ 5 bytes (the unmasked second field included) -/
theorem z19_group_roundtrip (c0 c1 : Int) (h0 : -524288 < c0 ∧ c0 ≤ 524288) (h1 : -524288 < c1 ∧ c1 ≤ 524288) :
    (z_pack_group19 524288 [c0, c1] >>= z_unpack_group19 524288) = .ok [c0, c1] := by
  unfold z_pack_group19
  simp only [mapL]
  rw [sub32_ok _ c0 (by omega), sub32_ok _ c1 (by omega)]
  simp only [ok_bind]
  rw [z19_fields_bytes _ _ (by omega) (by omega)]
  simp only [mapL]
  rw [sub32_ok _ _ (by omega), sub32_ok _ _ (by omega)]
  simp only [ok_bind]
  congr 1
  simp only [List.cons.injEq, and_true]
  omega

end DV
