import Mathlib.Data.ZMod.Basic
import DilithiumVerif.Lemmas.NttMul
/-
  Lemmas.NttZ — the ring-generic NTT theorems instantiated at ℤ/q and restated as congruences between integers,
  so that the final statements of C13 mention no ring other than ℤ.
-/
namespace DV.NttZ
open DV DV.NttAlg DV.NttSem DV.NttEval DV.NttInv DV.NttMul

/-- ℤ/q satisfies the hypotheses: q = 0 and 8265825·2^32 = 1 -/
def instM : ModQ (ZMod 8380417) where
  u := 8265825
  hq := by decide +kernel
  hu := by decide +kernel

/-- the hypotheses are not vacuous: ℤ/q is not the zero ring -/
theorem zmod_nontrivial : (1 : ZMod 8380417) ≠ 0 := by decide +kernel

variable {R : Type} [CommRing R]

theorem cast_peval (x : Int) : ∀ (a : List Int), ((peval a x : Int) : R) = peval (castL a) ((x : Int) : R)
  | [] => by simp [castL, peval_nil]
  | c :: cs => by
      have ih := cast_peval x cs
      simp only [castL, List.map_cons, peval_cons] at ih ⊢
      rw [Int.cast_add, Int.cast_mul, ih]

theorem cast_padd : ∀ (a b : List Int), (castL (padd a b) : List R) = padd (castL a) (castL b)
  | [], b => by simp [padd, castL]
  | a :: as, [] => by simp [padd, castL]
  | a :: as, b :: bs => by
      have ih := cast_padd as bs
      simp only [castL, List.map_cons, padd] at ih ⊢
      rw [Int.cast_add, ih]

theorem cast_pmul : ∀ (a b : List Int), (castL (pmul a b) : List R) = pmul (castL a) (castL b)
  | [], b => by simp [pmul, castL]
  | a :: as, b => by
      have ih := cast_pmul as b
      have hp := cast_padd (R := R) (b.map (fun v => a * v)) (0 :: pmul as b)
      simp only [castL, List.map_cons, pmul, List.map_map] at ih hp ⊢
      rw [hp, ih]
      congr 2
      · funext v; simp
      · simp

theorem cast_nfold (n : Nat) (c : List Int) : (castL (nfold n c) : List R) = nfold n (castL c) := by
  unfold nfold
  rw [cast_padd, castL_take]
  congr 1
  simp only [castL, List.map_map, List.map_drop]
  congr 2
  funext v; simp

theorem cast_negmul (a b : List Int) : (castL (negmul a b) : List R) = negmul (castL a) (castL b) := by
  unfold negmul; rw [cast_nfold, cast_pmul]

theorem zmod_cong (x y : Int) (h : ((x : Int) : ZMod 8380417) = ((y : Int) : ZMod 8380417)) : (x - y) % 8380417 = 0 := by
  have := (ZMod.intCast_eq_intCast_iff_dvd_sub y x 8380417).mp h.symm
  exact Int.emod_eq_zero_of_dvd (by simpa using this)

theorem cong_of_castL (r c : List Int) (h : (castL r : List (ZMod 8380417)) = castL c) (i : Nat) :
    (r.getD i 0 - c.getD i 0) % 8380417 = 0 := by
  apply zmod_cong
  rw [← castL_getD, ← castL_getD, h]

/-- **Forward transform = evaluation at the odd powers of 1753 in bit-reversed order**, as a congruence of integers. -/
theorem ntt_eval_Z (a r : List Int) (hl : a.length = 256) (B : Int) (hB0 : 0 < B) (hB : B + 8 * Q ≤ 2147483648)
    (hb : Bd B a) (h : ntt a = .ok r) (i : Nat) (hi : i < 256) :
    (r.getD i 0 - peval a ((1753 : Int) ^ (2 * brv8 i + 1))) % 8380417 = 0 := by
  apply zmod_cong
  rw [ntt_eval instM a r hl B hB0 hB hb h i hi, cast_peval, Int.cast_pow]

/-- **Inverse ∘ forward = 2^32**, as a congruence of integers: for b ≡ ntt(a) coefficient-wise (the reduced
    representative the code passes on), invntt_tomont(b)[i] ≡ 2^32·a[i] (mod q). -/
theorem invntt_ntt_Z (a y b r : List Int) (hl : a.length = 256) (B : Int) (hB0 : 0 < B) (hB : B + 8 * Q ≤ 2147483648)
    (hb : Bd B a) (hy : ntt a = .ok y) (hbl : b.length = 256) (hbb : Bd Q b)
    (hby : ∀ i, i < 256 → (b.getD i 0 - y.getD i 0) % 8380417 = 0) (h : invntt_tomont b = .ok r) (i : Nat) :
    (r.getD i 0 - 4294967296 * a.getD i 0) % 8380417 = 0 := by
  obtain ⟨y', hy', ly, _⟩ := ntt_bound a hl B hB0 hB hb
  rw [hy] at hy'; injection hy' with hy'; subst hy'
  have hc : (castL b : List (ZMod 8380417)) = castL y := by
    apply ext_getD 256
    · simp [castL, hbl]
    · simp [castL, ly]
    · intro j hj
      rw [castL_getD, castL_getD]
      have := hby j hj
      have h2 := (ZMod.intCast_eq_intCast_iff_dvd_sub (y.getD j 0) (b.getD j 0) 8380417).mpr (by
        simpa using Int.dvd_of_emod_eq_zero this)
      exact h2.symm
  have key := invntt_ntt instM a y b r hl B hB0 hB hb hy hbl hbb hc h
  have e : ((castL a : List (ZMod 8380417)).map (fun v => ((4294967296 : Int) : ZMod 8380417) * v)) = castL (a.map (fun v => 4294967296 * v)) := by
    simp only [castL, List.map_map]
    apply List.map_congr_left; intro v _; simp
  rw [e] at key
  have := cong_of_castL r _ key i
  rw [List.getD_eq_getElem?_getD, List.getD_eq_getElem?_getD, List.getElem?_map] at this
  rw [List.getD_eq_getElem?_getD, List.getD_eq_getElem?_getD]
  cases hai : a[i]? with
  | none => rw [hai] at this; simpa using this
  | some v => rw [hai] at this; simpa using this

/-- **Transform, pointwise product, inverse transform = multiplication in ℤ_q[X]/(X^256 + 1)**, as a congruence of
    integers: all four steps succeed with no overflow, the result lies in (−q, q) and is coefficient-wise congruent
    mod q to the negacyclic product of a and b computed over ℤ. -/
theorem ntt_mul_Z (a b : List Int) (hla : a.length = 256) (hlb : b.length = 256) (ha : Bd Q a) (hb : Bd Q b) :
    ∃ ya yb w r, ntt a = .ok ya ∧ ntt b = .ok yb ∧ poly_pointwise_montgomery ya yb = .ok w ∧ invntt_tomont w = .ok r ∧
      r.length = 256 ∧ Bd Q r ∧ ∀ i, (r.getD i 0 - (negmul a b).getD i 0) % 8380417 = 0 := by
  obtain ⟨ya, yb, w, r, h1, h2, h3, h4, h5, h6, h7⟩ := ntt_mul instM a b hla hlb ha hb
  refine ⟨ya, yb, w, r, h1, h2, h3, h4, h5, h6, fun i => ?_⟩
  rw [← cast_negmul] at h7
  exact cong_of_castL r _ h7 i

end DV.NttZ
