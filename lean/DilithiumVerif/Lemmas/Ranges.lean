import DilithiumVerif.Lemmas.Lift
import DilithiumVerif.Lemmas.Chunks
import DilithiumVerif.Impl.PolyVec
/-
  Lemmas.Ranges — ranges of sampled / decoded polynomials for ANY input bytes: SHAKE output bytes are < 256,
  `z_unpack` yields 256 coefficients in (−γ1, γ1], hence so do the mask samplers.
-/
namespace DV.Ranges
open DV

theorem sub32_eq (a b y : Int) (h : sub32 a b = .ok y) : y = a - b := by
  unfold sub32 chk32 at h
  split at h
  · injection h with h; exact h.symm
  · cases h

theorem gamma1_vals : gamma1Of .l2 = 131072 ∧ gamma1Of .l3 = 524288 ∧ gamma1Of .l5 = 524288 := by decide
theorem polyz_vals : polyzOf .l2 = 576 ∧ polyzOf .l3 = 640 ∧ polyzOf .l5 = 640 := by decide

/-! ### SHAKE output bytes -/

theorem getByte_lt (s : Lanes) (i : Nat) : getByte s i < 256 := by
  unfold getByte; exact Nat.mod_lt _ (by decide)

theorem squeezeblocks_loop_bytes (f : Lanes → Lanes) (r : Nat) : ∀ (n : Nat) (acc : List Nat) (s : Lanes),
    (∀ b ∈ acc, b < 256) → ∀ b ∈ (keccak_squeezeblocks_loop f r n acc s).1, b < 256 := by
  intro n
  induction n with
  | zero => intro acc s h; simpa [keccak_squeezeblocks_loop] using h
  | succ n ih =>
    intro acc s h
    unfold keccak_squeezeblocks_loop
    apply ih
    intro b hb
    rcases List.mem_append.mp hb with hb | hb
    · exact h b hb
    · obtain ⟨j, _, rfl⟩ := List.mem_map.mp hb
      exact getByte_lt _ _

theorem shake256_squeezeblocks_bytes (cap n : Nat) (st : KeccakState) (buf : List Nat) (st' : KeccakState)
    (h : shake256_squeezeblocks cap n st = .ok (buf, st')) : ∀ b ∈ buf, b < 256 := by
  unfold shake256_squeezeblocks at h
  obtain ⟨⟨o, s⟩, h1, h⟩ := bind_eq_ok.mp h
  simp only at h
  injection h with h; injection h with h2 _; subst h2
  unfold keccak_squeezeblocks at h1
  split at h1
  · injection h1 with h1
    have := squeezeblocks_loop_bytes keccakf R256 n [] st.s (by intro b hb; cases hb)
    rw [h1] at this; exact this
  · cases h1

/-! ### flattening groups -/

theorem flatten_all2 {α β} (m : Nat) (B : β → Prop) : ∀ {l : List α} {g : List (List β)},
    All2 (fun _ out => out.length = m ∧ ∀ x ∈ out, B x) l g → g.flatten.length = l.length * m ∧ ∀ x ∈ g.flatten, B x
  | _, _, .nil => ⟨by simp, by intro x hx; cases hx⟩
  | _, _, .cons h t => by
      obtain ⟨ih1, ih2⟩ := flatten_all2 m B t
      refine ⟨by simp only [List.flatten_cons, List.length_append, List.length_cons, ih1, h.1, Nat.succ_mul]; omega, ?_⟩
      intro x hx
      rw [List.flatten_cons] at hx
      rcases List.mem_append.mp hx with hx | hx
      · exact h.2 x hx
      · exact ih2 x hx

/-! ### z_unpack -/

theorem or3_lt (a b c k : Nat) (ha : a < 2^k) (hb : b < 2^k) (hc : c < 2^k) : (a ||| b ||| c) < 2^k :=
  Nat.or_lt_two_pow (Nat.or_lt_two_pow ha hb) hc

theorem group_range (g1 : Int) (bound : Nat) (hgb : (bound : Int) = 2 * g1) (hg : 0 < g1 ∧ g1 ≤ 1073741824) :
    ∀ (fs : List Nat) (out : List Int), (∀ f ∈ fs, f < bound) → mapL (fun (r : Nat) => sub32 g1 r) fs = .ok out →
    out.length = fs.length ∧ ∀ x ∈ out, -g1 < x ∧ x ≤ g1 := by
  intro fs out hf h
  have := mapL_rel_ok (fun (r : Nat) => sub32 g1 r) (fun r => r < bound) (fun _ x => -g1 < x ∧ x ≤ g1)
    (fun r y hr hy => by
      have := sub32_eq _ _ _ hy
      have h2 : (r : Int) < (bound : Int) := by exact_mod_cast hr
      omega) fs out hf h
  exact ⟨this.length, All2.right (B := fun x => -g1 < x ∧ x ≤ g1) (fun _ _ h => h) this⟩

theorem z_unpack_range (lv : Lvl) (a : List Nat) (hb : ∀ b ∈ a, b < 256) (r : List Int) (h : z_unpack lv a = .ok r) :
    r.length = 256 ∧ ∀ x ∈ r, -(gamma1Of lv) < x ∧ x ≤ gamma1Of lv := by
  obtain ⟨g2, g3, g5⟩ := gamma1_vals
  obtain ⟨p2, p3, p5⟩ := polyz_vals
  unfold z_unpack at h
  obtain ⟨a', ha', h⟩ := bind_eq_ok.mp h
  unfold takeC at ha'
  split at ha'
  case isFalse => cases ha'
  rename_i hlen
  injection ha' with ha'
  have ha'l : a'.length = polyzOf lv := by rw [← ha', List.length_take]; omega
  have ha'b : ∀ b ∈ a', b < 256 := fun b hb' => hb b (by rw [← ha'] at hb'; exact List.mem_of_mem_take hb')
  -- the 19-bit groups, shared by lvl3 and lvl5
  have h19 : ∀ (g1 : Int), g1 = 524288 → a'.length = 640 → ∀ g, mapL (z_unpack_group19 g1) (chunks 5 a') = .ok g →
      g.flatten.length = 256 ∧ ∀ x ∈ g.flatten, -g1 < x ∧ x ≤ g1 := by
    intro g1 hg1 hl g hg
    have hmem := chunks_mem 5 (by decide) a'.length a' rfl (by rw [hl])
    have hrel := mapL_rel_ok (z_unpack_group19 g1) (fun c => c.length = 5 ∧ ∀ b ∈ c, b < 256)
      (fun _ out => out.length = 2 ∧ ∀ x ∈ out, -g1 < x ∧ x ≤ g1)
      (fun c out hc hout => by
        obtain ⟨b0, b1, b2, b3, b4, rfl⟩ : ∃ b0 b1 b2 b3 b4, c = [b0, b1, b2, b3, b4] := by
          match c, hc.1 with
          | [b0, b1, b2, b3, b4], _ => exact ⟨_, _, _, _, _, rfl⟩
        have hb0 := hc.2 b0 (by simp); have hb1 := hc.2 b1 (by simp); have hb2 := hc.2 b2 (by simp)
        have hb3 := hc.2 b3 (by simp); have hb4 := hc.2 b4 (by simp)
        unfold z_unpack_group19 at hout
        simp only at hout
        have := group_range g1 1048576 (by rw [hg1]; rfl) (by rw [hg1]; omega) (z19_fields b0 b1 b2 b3 b4) out (by
          intro f hf
          simp only [z19_fields, List.mem_cons, List.mem_nil_iff, or_false] at hf
          rcases hf with rfl | rfl
          · exact Nat.lt_of_le_of_lt Nat.and_le_right (by decide)
          · apply or3_lt _ _ _ 20
            · rw [Nat.shiftRight_eq_div_pow]; omega
            · rw [Nat.shiftLeft_eq]; omega
            · rw [Nat.shiftLeft_eq]; omega) hout
        exact ⟨by rw [this.1]; rfl, this.2⟩)
      (chunks 5 a') g (fun c hc => ⟨(hmem c hc).1, fun b hb' => ha'b b ((hmem c hc).2 b hb')⟩) hg
    have := flatten_all2 2 (fun x => -g1 < x ∧ x ≤ g1) hrel
    rw [chunks_length 5 (by decide) a'.length a' rfl (by rw [hl]), hl] at this
    exact this
  cases lv with
  | l2 =>
    simp only at h
    obtain ⟨g, hg, h⟩ := bind_eq_ok.mp h
    injection h with h; subst h
    rw [p2] at ha'l
    have hmem := chunks_mem 9 (by decide) a'.length a' rfl (by rw [ha'l])
    have hrel := mapL_rel_ok (z_unpack_group17 (gamma1Of .l2)) (fun c => c.length = 9 ∧ ∀ b ∈ c, b < 256)
      (fun _ out => out.length = 4 ∧ ∀ x ∈ out, -(gamma1Of .l2) < x ∧ x ≤ gamma1Of .l2)
      (fun c out hc hout => by
        obtain ⟨b0, b1, b2, b3, b4, b5, b6, b7, b8, rfl⟩ : ∃ b0 b1 b2 b3 b4 b5 b6 b7 b8, c = [b0, b1, b2, b3, b4, b5, b6, b7, b8] := by
          match c, hc.1 with
          | [b0, b1, b2, b3, b4, b5, b6, b7, b8], _ => exact ⟨_, _, _, _, _, _, _, _, _, rfl⟩
        unfold z_unpack_group17 at hout
        simp only at hout
        have := group_range (gamma1Of .l2) 262144 (by rw [g2]; rfl) (by rw [g2]; omega) (z17_fields b0 b1 b2 b3 b4 b5 b6 b7 b8) out (by
          intro f hf
          simp only [z17_fields, List.mem_cons, List.mem_nil_iff, or_false] at hf
          rcases hf with rfl | rfl | rfl | rfl <;> exact Nat.lt_of_le_of_lt Nat.and_le_right (by decide)) hout
        exact ⟨by rw [this.1]; rfl, this.2⟩)
      (chunks 9 a') g (fun c hc => ⟨(hmem c hc).1, fun b hb' => ha'b b ((hmem c hc).2 b hb')⟩) hg
    have := flatten_all2 4 (fun x => -(gamma1Of .l2) < x ∧ x ≤ gamma1Of .l2) hrel
    rw [chunks_length 9 (by decide) a'.length a' rfl (by rw [ha'l]), ha'l] at this
    exact this
  | l3 =>
    simp only at h
    obtain ⟨g, hg, h⟩ := bind_eq_ok.mp h
    injection h with h; subst h
    exact h19 (gamma1Of .l3) g3 (by rw [ha'l, p3]) g hg
  | l5 =>
    simp only at h
    obtain ⟨g, hg, h⟩ := bind_eq_ok.mp h
    injection h with h; subst h
    exact h19 (gamma1Of .l5) g5 (by rw [ha'l, p5]) g hg

/-- every mask polynomial has 256 coefficients in (−γ1, γ1] -/
theorem uniform_gamma1_range (lv : Lvl) (seed : List Nat) (nonce : Nat) (r : List Int) (h : poly_uniform_gamma1 lv seed nonce = .ok r) :
    r.length = 256 ∧ ∀ x ∈ r, -(gamma1Of lv) < x ∧ x ≤ gamma1Of lv := by
  unfold poly_uniform_gamma1 at h
  obtain ⟨st, _, h⟩ := bind_eq_ok.mp h
  obtain ⟨⟨buf, st'⟩, hb, h⟩ := bind_eq_ok.mp h
  simp only at h
  exact z_unpack_range lv buf (shake256_squeezeblocks_bytes _ _ _ _ _ hb) r h

theorem l_uniform_gamma1_range (p : Params) (seed : List Nat) (nonce : Int) (y : PolyVec) (h : l_uniform_gamma1 p seed nonce = .ok y) :
    y.length = p.l ∧ ∀ a ∈ y, a.length = 256 ∧ ∀ x ∈ a, -(gamma1Of p.lvl) < x ∧ x ≤ gamma1Of p.lvl := by
  unfold l_uniform_gamma1 forRange at h
  have := mapL_rel_ok _ (fun _ => True) (fun (_ : Nat) (a : Poly) => a.length = 256 ∧ ∀ x ∈ a, -(gamma1Of p.lvl) < x ∧ x ≤ gamma1Of p.lvl)
    (fun i a _ ha => by
      obtain ⟨m, _, ha⟩ := bind_eq_ok.mp ha
      obtain ⟨n, _, ha⟩ := bind_eq_ok.mp ha
      exact uniform_gamma1_range p.lvl seed _ a ha) (List.range p.l) y (fun _ _ => trivial) h
  exact ⟨by rw [this.length, List.length_range],
    All2.right (B := fun (a : Poly) => a.length = 256 ∧ ∀ x ∈ a, -(gamma1Of p.lvl) < x ∧ x ≤ gamma1Of p.lvl) (fun _ _ h => h) this⟩

end DV.Ranges

namespace DV.Ranges
open DV

/-! ### the challenge polynomial has 256 coefficients in {−1, 0, 1} -/

def Tern (c : List Int) : Prop := c.length = 256 ∧ ∀ x ∈ c, x = -1 ∨ x = 0 ∨ x = 1

theorem setC_tern (c : List Int) (i : Nat) (v : Int) (c' : List Int) (hc : Tern c) (hv : v = -1 ∨ v = 0 ∨ v = 1)
    (h : setC c i v = .ok c') : Tern c' := by
  unfold setC at h
  split at h
  · injection h with h; subst h
    refine ⟨by rw [List.length_set]; exact hc.1, fun x hx => ?_⟩
    rcases List.mem_or_eq_of_mem_set hx with hx | rfl
    · exact hc.2 x hx
    · exact hv
  · cases h

theorem getC_mem {α} (l : List α) (i : Nat) (x : α) (h : getC l i = .ok x) : x ∈ l := by
  unfold getC at h
  split at h
  · rename_i y hy
    injection h with h; subst h
    exact List.mem_of_getElem? hy
  · cases h

theorem sign_val (s : UInt64) : (1 : Int) - 2 * (((s &&& 1).toNat : Nat) : Int) = -1 ∨ (1 : Int) - 2 * (((s &&& 1).toNat : Nat) : Int) = 0
    ∨ (1 : Int) - 2 * (((s &&& 1).toNat : Nat) : Int) = 1 := by
  have h : (s &&& 1).toNat ≤ 1 := by
    rw [UInt64.toNat_and]
    exact Nat.and_le_right
  omega

theorem challenge_go_tern (fuel : Nat) : ∀ (n i : Nat) (c : List Int) (signs : UInt64) (st : KeccakState) (buf : List Nat) (pos : Nat)
    (r : List Int), Tern c → challenge_go fuel n i c signs st buf pos = .ok r → Tern r := by
  intro n
  induction n with
  | zero => intro i c signs st buf pos r hc h; simp [challenge_go] at h; subst h; exact hc
  | succ n ih =>
    intro i c signs st buf pos r hc h
    unfold challenge_go at h
    obtain ⟨⟨b, st', buf', pos'⟩, _, h⟩ := bind_eq_ok.mp h
    simp only at h
    obtain ⟨cb, hcb, h⟩ := bind_eq_ok.mp h
    obtain ⟨c1, hc1, h⟩ := bind_eq_ok.mp h
    obtain ⟨c2, hc2, h⟩ := bind_eq_ok.mp h
    have t1 := setC_tern c i cb c1 hc (hc.2 cb (getC_mem c b cb hcb)) hc1
    have t2 := setC_tern c1 b _ c2 t1 (sign_val signs) hc2
    exact ih _ _ _ _ _ _ _ t2 h

theorem challenge_tern (p : Params) (fuel : Nat) (seed : List Nat) (c : List Int) (h : poly_challenge p fuel seed = .ok c) : Tern c := by
  unfold poly_challenge at h
  obtain ⟨st, _, h⟩ := bind_eq_ok.mp h
  obtain ⟨st2, _, h⟩ := bind_eq_ok.mp h
  obtain ⟨⟨buf, st3⟩, _, h⟩ := bind_eq_ok.mp h
  simp only at h
  refine challenge_go_tern fuel _ _ _ _ _ _ _ c ⟨by simp [N]; decide, ?_⟩ h
  intro x hx
  rw [List.mem_replicate] at hx
  exact Or.inr (Or.inl hx.2)

end DV.Ranges

namespace DV.Ranges
open DV

/-! ### rejection samplers: at most `alen` values, all in range -/

theorem rej_uniform_loop_range (alen acap : Nat) (buf : List Nat) (buflen : Nat) : ∀ (fuel pos : Nat) (acc r : List Int),
    (∀ x ∈ acc, 0 ≤ x ∧ x < Q) → acc.length ≤ alen → rej_uniform_loop alen acap buf buflen fuel pos acc = .ok r →
    (∀ x ∈ r, 0 ≤ x ∧ x < Q) ∧ r.length ≤ alen ∧ acc.length ≤ r.length := by
  intro fuel
  induction fuel with
  | zero => intro pos acc r ha hl h; simp [rej_uniform_loop] at h; subst h; exact ⟨ha, hl, Nat.le_refl _⟩
  | succ n ih =>
    intro pos acc r ha hl h
    unfold rej_uniform_loop at h
    split at h
    · rename_i hc
      obtain ⟨b0, _, h⟩ := bind_eq_ok.mp h
      obtain ⟨b1, _, h⟩ := bind_eq_ok.mp h
      obtain ⟨b2, _, h⟩ := bind_eq_ok.mp h
      simp only at h
      split at h
      · rename_i hq
        split at h
        · have := ih _ _ r (by
            intro x hx
            rcases List.mem_append.mp hx with hx | hx
            · exact ha x hx
            · simp at hx; subst hx; exact ⟨by omega, hq⟩) (by simp; omega) h
          exact ⟨this.1, this.2.1, by have := this.2.2; simp at this; omega⟩
        · cases h
      · exact ih _ _ r ha hl h
    · injection h with h; subst h; exact ⟨ha, hl, Nat.le_refl _⟩

theorem rej_uniform_range (alen acap : Nat) (buf : List Nat) (buflen : Nat) (r : List Int) (h : rej_uniform alen acap buf buflen = .ok r) :
    (∀ x ∈ r, 0 ≤ x ∧ x < Q) ∧ r.length ≤ alen := by
  have := rej_uniform_loop_range alen acap buf buflen _ 0 [] r (by intro x hx; cases hx) (by simp) h
  exact ⟨this.1, this.2.1⟩

theorem uniform_loop_std : ∀ (fuel : Nat) (st : KeccakState) (buf : List Nat) (buflen : Nat) (acc r : List Int),
    (∀ x ∈ acc, 0 ≤ x ∧ x < Q) → acc.length ≤ N → uniform_loop fuel st buf buflen acc = .ok r →
    r.length = N ∧ ∀ x ∈ r, 0 ≤ x ∧ x < Q := by
  intro fuel
  induction fuel with
  | zero => intro st buf buflen acc r _ _ h; simp [uniform_loop] at h
  | succ n ih =>
    intro st buf buflen acc r ha hl h
    unfold uniform_loop at h
    split at h
    · obtain ⟨tail, _, h⟩ := bind_eq_ok.mp h
      obtain ⟨buf1, _, h⟩ := bind_eq_ok.mp h
      obtain ⟨⟨blk, st1⟩, _, h⟩ := bind_eq_ok.mp h
      simp only at h
      obtain ⟨buf2, _, h⟩ := bind_eq_ok.mp h
      obtain ⟨more, hm, h⟩ := bind_eq_ok.mp h
      have hr := rej_uniform_range _ _ _ _ more hm
      apply ih _ _ _ (acc ++ more) r _ _ h
      · intro x hx
        rcases List.mem_append.mp hx with hx | hx
        · exact ha x hx
        · exact hr.1 x hx
      · rw [List.length_append]; have := hr.2; omega
    · rename_i hge
      injection h with h; subst h
      exact ⟨by omega, ha⟩

theorem poly_uniform_std (fuel : Nat) (seed : List Nat) (nonce : Nat) (r : List Int) (h : poly_uniform fuel seed nonce = .ok r) :
    r.length = 256 ∧ ∀ x ∈ r, 0 ≤ x ∧ x < Q := by
  unfold poly_uniform at h
  obtain ⟨st, _, h⟩ := bind_eq_ok.mp h
  obtain ⟨⟨blk, st1⟩, _, h⟩ := bind_eq_ok.mp h
  simp only at h
  obtain ⟨acc, hacc, h⟩ := bind_eq_ok.mp h
  have hr := rej_uniform_range _ _ _ _ acc hacc
  have := uniform_loop_std fuel _ _ _ acc r hr.1 hr.2 h
  exact ⟨by rw [this.1]; decide, this.2⟩

theorem forRange_rel {α} (n : Nat) (f : Nat → Chk α) (B : α → Prop) (r : List α) (hf : ∀ i y, f i = .ok y → B y)
    (h : forRange n f = .ok r) : r.length = n ∧ ∀ y ∈ r, B y := by
  unfold forRange at h
  have := mapL_rel_ok f (fun _ => True) (fun _ y => B y) (fun i y _ hy => hf i y hy) (List.range n) r (fun _ _ => trivial) h
  exact ⟨by rw [this.length, List.length_range], All2.right (B := B) (fun _ _ h => h) this⟩

theorem matrix_expand_ok (p : Params) (fuel : Nat) (rho : List Nat) (mat : List PolyVec) (h : matrix_expand p fuel rho = .ok mat) :
    mat.length = p.k ∧ ∀ row ∈ mat, row.length = p.l ∧ ∀ a ∈ row, a.length = 256 ∧ ∀ x ∈ a, 0 ≤ x ∧ x < Q := by
  unfold matrix_expand at h
  exact forRange_rel p.k _ (fun (row : PolyVec) => row.length = p.l ∧ ∀ a ∈ row, a.length = 256 ∧ ∀ x ∈ a, 0 ≤ x ∧ x < Q) mat
    (fun i row hrow => forRange_rel p.l _ (fun (a : Poly) => a.length = 256 ∧ ∀ x ∈ a, 0 ≤ x ∧ x < Q) row
      (fun j a ha => poly_uniform_std fuel rho _ a ha) hrow) h

/-! ### eta sampler -/

theorem eta2_map (t : Nat) (ht : t < 15) : -2 ≤ (2 : Int) - ((t - ((205 * t) >>> 10) * 5 : Nat) : Int) ∧
    (2 : Int) - ((t - ((205 * t) >>> 10) * 5 : Nat) : Int) ≤ 2 := by
  have : ∀ t : Fin 15, -2 ≤ (2 : Int) - ((t.val - ((205 * t.val) >>> 10) * 5 : Nat) : Int) ∧
      (2 : Int) - ((t.val - ((205 * t.val) >>> 10) * 5 : Nat) : Int) ≤ 2 := by decide
  exact this ⟨t, ht⟩

/-- η as the samplers of the three `poly` copies realise it -/
def etaI : Lvl → Int
  | .l3 => 4
  | _ => 2

def SmallE (E : Int) (l : List Int) : Prop := ∀ x ∈ l, -E ≤ x ∧ x ≤ E
def Small (l : List Int) : Prop := SmallE 4 l

theorem SmallE.small {E : Int} (hE : E ≤ 4) {l : List Int} (h : SmallE E l) : Small l := fun x hx => by have := h x hx; unfold Small SmallE at *; omega

theorem small_snoc (E : Int) (acc : List Int) (v : Int) (h : SmallE E acc) (hv : -E ≤ v ∧ v ≤ E) : SmallE E (acc ++ [v]) := by
  intro x hx
  rcases List.mem_append.mp hx with hx | hx
  · exact h x hx
  · simp at hx; subst hx; exact hv

/-- one conditional push of the sampler -/
theorem push_step (E : Int) (c : Prop) [Decidable c] (acc acc' : List Int) (v : Int) (acap alen : Nat) (hs : SmallE E acc) (hv : c → -E ≤ v ∧ v ≤ E)
    (hl : acc.length ≤ alen) (hc : c → acc.length < alen)
    (h : (if c then (if acc.length < acap then (.ok (acc ++ [v]) : Chk (List Int)) else .error .oob) else .ok acc) = .ok acc') :
    SmallE E acc' ∧ acc'.length ≤ alen := by
  split at h
  · rename_i hcc
    split at h
    · injection h with h; subst h
      exact ⟨small_snoc E acc v hs (hv hcc), by have := hc hcc; simp; omega⟩
    · cases h
  · injection h with h; subst h; exact ⟨hs, hl⟩

theorem rej_eta_loop_range (lv : Lvl) (alen acap : Nat) (buf : List Nat) (buflen : Nat) : ∀ (fuel pos : Nat) (acc r : List Int),
    SmallE (etaI lv) acc → acc.length ≤ alen → rej_eta_loop lv alen acap buf buflen fuel pos acc = .ok r →
    SmallE (etaI lv) r ∧ r.length ≤ alen := by
  intro fuel
  induction fuel with
  | zero => intro pos acc r ha hl h; simp [rej_eta_loop] at h; subst h; exact ⟨ha, hl⟩
  | succ n ih =>
    intro pos acc r ha hl h
    unfold rej_eta_loop at h
    split at h
    · rename_i hc
      obtain ⟨b, _, h⟩ := bind_eq_ok.mp h
      simp only at h
      have e2 : ∀ (acc0 : List Int), SmallE 2 acc0 → acc0.length ≤ alen →
          (do
            let acc ← (if b &&& 0x0F < 15 then (if acc0.length < acap then (.ok (acc0 ++ [(2 : Int) - (((b &&& 0x0F) - ((205 * (b &&& 0x0F)) >>> 10) * 5 : Nat) : Int)]) : Chk (List Int)) else .error .oob) else .ok acc0)
            let acc ← (if b >>> 4 < 15 ∧ acc.length < alen then (if acc.length < acap then (.ok (acc ++ [(2 : Int) - ((b >>> 4 - ((205 * (b >>> 4)) >>> 10) * 5 : Nat) : Int)]) : Chk (List Int)) else .error .oob) else .ok acc)
            rej_eta_loop lv alen acap buf buflen n (pos + 1) acc) = .ok r → acc0.length < alen →
            (SmallE 2 r ∧ r.length ≤ alen → SmallE (etaI lv) r ∧ r.length ≤ alen) → (∀ a, SmallE 2 a → SmallE (etaI lv) a) → SmallE (etaI lv) r ∧ r.length ≤ alen := by
        intro acc0 hs0 hl0 h hlt _ hconv
        obtain ⟨acc1, h1, h⟩ := bind_eq_ok.mp h
        obtain ⟨acc2, h2, h⟩ := bind_eq_ok.mp h
        have s1 := push_step 2 _ acc0 acc1 _ acap alen hs0 (fun hh => by have := eta2_map _ hh; omega) hl0 (fun _ => hlt) h1
        have s2 := push_step 2 _ acc1 acc2 _ acap alen s1.1 (fun hh => by have := eta2_map _ hh.1; omega) s1.2 (fun hh => hh.2) h2
        exact ih _ _ r (hconv _ s2.1) s2.2 h
      cases lv with
      | l3 =>
        simp only at h
        obtain ⟨acc1, h1, h⟩ := bind_eq_ok.mp h
        obtain ⟨acc2, h2, h⟩ := bind_eq_ok.mp h
        have s1 := push_step 4 _ acc acc1 _ acap alen ha (fun hh => by
          have : ((b &&& 0x0F : Nat) : Int) < 9 := by exact_mod_cast hh
          omega) hl (fun _ => hc.1) h1
        have s2 := push_step 4 _ acc1 acc2 _ acap alen s1.1 (fun hh => by
          have : ((b >>> 4 : Nat) : Int) < 9 := by exact_mod_cast hh.1
          omega) s1.2 (fun hh => hh.2) h2
        exact ih _ _ r s2.1 s2.2 h
      | l2 => simp only at h; exact e2 acc ha hl h hc.1 (fun x => x) (fun _ x => x)
      | l5 => simp only at h; exact e2 acc ha hl h hc.1 (fun x => x) (fun _ x => x)
    · injection h with h; subst h; exact ⟨ha, hl⟩

theorem rej_eta_range (lv : Lvl) (alen acap : Nat) (buf : List Nat) (buflen : Nat) (r : List Int) (h : rej_eta lv alen acap buf buflen = .ok r) :
    SmallE (etaI lv) r ∧ r.length ≤ alen :=
  rej_eta_loop_range lv alen acap buf buflen _ 0 [] r (by intro x hx; cases hx) (by simp) h

theorem uniform_eta_loop_small (lv : Lvl) : ∀ (fuel : Nat) (st : KeccakState) (acc r : List Int),
    SmallE (etaI lv) acc → acc.length ≤ N → uniform_eta_loop lv fuel st acc = .ok r → r.length = N ∧ SmallE (etaI lv) r := by
  intro fuel
  induction fuel with
  | zero => intro st acc r _ _ h; simp [uniform_eta_loop] at h
  | succ n ih =>
    intro st acc r ha hl h
    unfold uniform_eta_loop at h
    split at h
    · obtain ⟨⟨buf, st1⟩, _, h⟩ := bind_eq_ok.mp h
      simp only at h
      obtain ⟨more, hm, h⟩ := bind_eq_ok.mp h
      have hr := rej_eta_range _ _ _ _ _ more hm
      apply ih _ (acc ++ more) r _ _ h
      · intro x hx
        rcases List.mem_append.mp hx with hx | hx
        · exact ha x hx
        · exact hr.1 x hx
      · rw [List.length_append]; have := hr.2; omega
    · injection h with h; subst h
      exact ⟨by omega, ha⟩

theorem poly_uniform_eta_small (lv : Lvl) (fuel : Nat) (seed : List Nat) (nonce : Nat) (r : List Int)
    (h : poly_uniform_eta lv fuel seed nonce = .ok r) : r.length = 256 ∧ SmallE (etaI lv) r := by
  unfold poly_uniform_eta at h
  obtain ⟨st, _, h⟩ := bind_eq_ok.mp h
  obtain ⟨⟨buf, st1⟩, _, h⟩ := bind_eq_ok.mp h
  simp only at h
  obtain ⟨acc, hacc, h⟩ := bind_eq_ok.mp h
  have hr := rej_eta_range _ _ _ _ _ acc hacc
  have := uniform_eta_loop_small lv fuel _ acc r hr.1 hr.2 h
  exact ⟨by rw [this.1]; decide, this.2⟩

theorem vec_uniform_eta_small (lv : Lvl) (fuel : Nat) (seed : List Nat) : ∀ (n : Nat) (nonce : Int) (v : List Poly),
    vec_uniform_eta_go lv fuel seed n nonce = .ok v → v.length = n ∧ ∀ a ∈ v, a.length = 256 ∧ SmallE (etaI lv) a := by
  intro n
  induction n with
  | zero => intro nonce v h; simp [vec_uniform_eta_go] at h; subst h; exact ⟨rfl, by intro a ha; cases ha⟩
  | succ n ih =>
    intro nonce v h
    unfold vec_uniform_eta_go at h
    obtain ⟨a, ha, h⟩ := bind_eq_ok.mp h
    obtain ⟨nn, _, h⟩ := bind_eq_ok.mp h
    obtain ⟨rest, hrest, h⟩ := bind_eq_ok.mp h
    injection h with h; subst h
    have := ih nn rest hrest
    refine ⟨by simp [this.1], ?_⟩
    intro x hx
    rcases List.mem_cons.mp hx with rfl | hx
    · exact poly_uniform_eta_small lv fuel seed _ _ ha
    · exact this.2 x hx

end DV.Ranges
