import Mathlib.Tactic.Ring
import Mathlib.Algebra.Ring.Defs
import Mathlib.Data.Int.Cast.Basic
import Mathlib.Data.Int.Cast.Lemmas
import DilithiumVerif.Lemmas.NttBound
import DilithiumVerif.Lemmas.NttAlg
/-
  Lemmas.NttSem — what the model's forward NTT computes, read in an arbitrary commutative ring R in which q = 0 and
  2^32 is invertible (e.g. ℤ/q): the casts of the outputs are the layered transform of the casts of the inputs
  with ζ_k := ZETAS[k]·2^{-32}.
-/
namespace DV.NttSem
open DV DV.NttAlg

variable {R : Type} [CommRing R]

/-- the ring data: q is zero in R and u is the inverse of 2^32 -/
structure ModQ (R : Type) [CommRing R] where
  u : R
  hq : ((8380417 : Int) : R) = 0
  hu : u * ((4294967296 : Int) : R) = 1

/-- ζ_k in R -/
def zR (M : ModQ R) (k : Nat) : R := ((zeta k : Int) : R) * M.u

theorem cast_of_dvd (M : ModQ R) (x : Int) (h : x % 8380417 = 0) : ((x : Int) : R) = 0 := by
  obtain ⟨c, hc⟩ := Int.dvd_of_emod_eq_zero h
  rw [hc, Int.cast_mul, M.hq, zero_mul]

/-- Montgomery multiplication by a constant, read in R: t = z·2^{-32}·x -/
theorem mulZeta_cast (M : ModQ R) (z x t : Int) (hz : -4190208 ≤ z ∧ z ≤ 4190208) (hx : -2147483648 ≤ x ∧ x ≤ 2147483647)
    (h : mulZeta z x = .ok t) : ((t : Int) : R) = ((z : Int) : R) * M.u * ((x : Int) : R) := by
  obtain ⟨t', ht', _, _, hc⟩ := mulZeta_spec z x hz hx
  rw [h] at ht'; injection ht' with ht'; subst ht'
  rw [Q_val'] at hc
  have h0 := cast_of_dvd M _ hc
  rw [Int.cast_sub, Int.cast_mul, Int.cast_mul] at h0
  have h1 : ((t : Int) : R) * ((4294967296 : Int) : R) = ((z : Int) : R) * ((x : Int) : R) := sub_eq_zero.mp h0
  calc ((t : Int) : R) = ((t : Int) : R) * (M.u * ((4294967296 : Int) : R)) := by rw [M.hu, mul_one]
    _ = (((t : Int) : R) * ((4294967296 : Int) : R)) * M.u := by ring
    _ = ((z : Int) : R) * M.u * ((x : Int) : R) := by rw [h1]; ring

def castL (l : List Int) : List R := l.map (fun x => ((x : Int) : R))

theorem mapL_mulZeta_cast (M : ModQ R) (z : Int) (hz : -4190208 ≤ z ∧ z ≤ 4190208) : ∀ (l t : List Int), Bd 2147483648 l →
    mapL (mulZeta z) l = .ok t → (castL t : List R) = (castL l).map (fun v => ((z : Int) : R) * M.u * v) := by
  intro l
  induction l with
  | nil => intro t _ h; simp [mapL] at h; subst h; rfl
  | cons x xs ih =>
    intro t hb h
    unfold mapL at h
    obtain ⟨y, hy, h⟩ := bind_eq_ok.mp h
    obtain ⟨ys, hys, h⟩ := bind_eq_ok.mp h
    injection h with h; subst h
    have hx := hb x (List.mem_cons_self ..)
    simp only [castL, List.map_cons]
    rw [mulZeta_cast M z x y hz (by omega) hy]
    congr 1
    exact ih ys (fun w hw => hb w (List.mem_cons_of_mem _ hw)) hys

theorem zipL_add32_cast : ∀ (a b r : List Int), zipL add32 a b = .ok r →
    (castL r : List R) = List.zipWith (fun u v => u + v) (castL a) (castL b) := by
  intro a
  induction a with
  | nil => intro b r h; cases b <;> simp [zipL] at h; subst h; rfl
  | cons x xs ih =>
    intro b r h
    cases b with
    | nil => simp [zipL] at h
    | cons y ys =>
      unfold zipL at h
      obtain ⟨s, hs, h⟩ := bind_eq_ok.mp h
      obtain ⟨ss, hss, h⟩ := bind_eq_ok.mp h
      injection h with h; subst h
      unfold add32 chk32 at hs
      split at hs
      · injection hs with hs; subst hs
        simp only [castL, List.map_cons, List.zipWith_cons_cons, Int.cast_add]
        congr 1
        exact ih ys ss hss
      · cases hs

theorem zipL_sub32_cast : ∀ (a b r : List Int), zipL sub32 a b = .ok r →
    (castL r : List R) = List.zipWith (fun u v => u - v) (castL a) (castL b) := by
  intro a
  induction a with
  | nil => intro b r h; cases b <;> simp [zipL] at h; subst h; rfl
  | cons x xs ih =>
    intro b r h
    cases b with
    | nil => simp [zipL] at h
    | cons y ys =>
      unfold zipL at h
      obtain ⟨s, hs, h⟩ := bind_eq_ok.mp h
      obtain ⟨ss, hss, h⟩ := bind_eq_ok.mp h
      injection h with h; subst h
      unfold sub32 chk32 at hs
      split at hs
      · injection hs with hs; subst hs
        simp only [castL, List.map_cons, List.zipWith_cons_cons, Int.cast_sub]
        congr 1
        exact ih ys ss hss
      · cases hs

theorem castL_take (l : List Int) (n : Nat) : (castL (l.take n) : List R) = (castL l).take n := by
  simp [castL, List.map_take]
theorem castL_drop (l : List Int) (n : Nat) : (castL (l.drop n) : List R) = (castL l).drop n := by
  simp [castL, List.map_drop]
theorem castL_append (a b : List Int) : (castL (a ++ b) : List R) = castL a ++ castL b := by
  simp [castL]

/-- one block of the model = the butterfly in R -/
theorem nttBlock_cast (M : ModQ R) (z : Int) (hz : -4190208 ≤ z ∧ z ≤ 4190208) (blk r : List Int) (len : Nat)
    (hb : Bd 2147483648 blk) (h : nttBlock z blk len = .ok r) :
    (castL r : List R) = bfly (((z : Int) : R) * M.u) len (castL blk) := by
  unfold nttBlock at h
  obtain ⟨t, ht, h⟩ := bind_eq_ok.mp h
  obtain ⟨hi', hhi, h⟩ := bind_eq_ok.mp h
  obtain ⟨lo', hlo, h⟩ := bind_eq_ok.mp h
  injection h with h; subst h
  have ht' := mapL_mulZeta_cast M z hz (blk.drop len) t (fun x hx => hb x (List.mem_of_mem_drop hx)) ht
  rw [castL_append, zipL_add32_cast _ _ _ hlo, zipL_sub32_cast _ _ _ hhi, ht', castL_take, castL_drop]
  unfold bfly bflyLo bflyHi
  congr 1
  · rw [List.zipWith_map_right]
  · rw [List.zipWith_map_right]
    congr 1
    funext a b; ring

theorem Bd_take (C : Int) (l : List Int) (n : Nat) (h : Bd C l) : Bd C (l.take n) := fun x hx => h x (List.mem_of_mem_take hx)

/-- one layer over a list of blocks -/
theorem nttLayerGo_cast (M : ModQ R) (len : Nat) : ∀ (blocks : List (List Int)) (k : Nat) (r : List Int),
    (∀ b ∈ blocks, Bd 2147483648 b) → nttLayerGo len k blocks = .ok r →
    (castL r : List R) = layerGo (zR M) len k (blocks.map castL) := by
  intro blocks
  induction blocks with
  | nil => intro k r _ h; simp [nttLayerGo] at h; subst h; rfl
  | cons b bs ih =>
    intro k r hb h
    unfold nttLayerGo at h
    obtain ⟨b', hb', h⟩ := bind_eq_ok.mp h
    obtain ⟨rest, hrest, h⟩ := bind_eq_ok.mp h
    injection h with h; subst h
    rw [castL_append, nttBlock_cast M (zeta k) (zeta_bound k) b b' len (hb b (List.mem_cons_self ..)) hb',
      ih (k + 1) rest (fun x hx => hb x (List.mem_cons_of_mem _ hx)) hrest]
    rfl


theorem chunks_map {α β} (f : α → β) (n : Nat) (hn : 0 < n) : ∀ (k : Nat) (l : List α), l.length = k →
    DV.chunks n (l.map f) = (DV.chunks n l).map (List.map f) := by
  intro k
  induction k using Nat.strongRecOn with
  | _ k ih =>
    intro l hk
    by_cases hl : l = []
    · subst hl; simp [DV.chunks_nil]
    · have hl' : l.map f ≠ [] := by simpa using hl
      rw [DV.chunks_cons n l hn hl, DV.chunks_cons n _ hn hl', List.map_cons, List.map_take]
      have hlen : 0 < l.length := List.length_pos_iff.mpr hl
      rw [← List.map_drop, ih (l.drop n).length (by simp; omega) (l.drop n) rfl]

/-- one layer of the model (on a C-bounded input) = one layer in R -/
theorem nttLayer_cast (M : ModQ R) (len k0 : Nat) (hlen : 0 < len) (a r : List Int) (hd : a.length % (2 * len) = 0)
    (hb : Bd 2147483648 a) (h : nttLayer len k0 a = .ok r) :
    (castL r : List R) = layerGo (zR M) len (k0 + 1) (DV.chunks (2 * len) (castL a)) := by
  unfold nttLayer at h
  have hmem := DV.chunks_mem (2 * len) (by omega) a.length a rfl hd
  rw [nttLayerGo_cast M len _ _ r (fun b hb' x hx => hb x ((hmem b hb').2 x hx)) h]
  unfold castL
  rw [chunks_map _ (2 * len) (by omega) a.length a rfl]

/-- The forward NTT of the model, read in R: the casts of its 256 outputs are the layered transform (len = 128, …, 1;
    zeta indices 1, 2–3, 4–7, …, 128–255) of the casts of the inputs, with ζ_k = ZETAS[k]·2^{-32}. -/
theorem ntt_cast (M : ModQ R) (a r : List Int) (hl : a.length = 256) (B : Int) (hB0 : 0 < B) (hB : B + 8 * Q ≤ 2147483648)
    (hb : Bd B a) (h : ntt a = .ok r) :
    (castL r : List R) = nttBF (zR M) 8 1 (castL a) := by
  have hq : Q = 8380417 := Q_val'
  unfold ntt at h
  simp only [hl, ne_eq, not_true_eq_false, if_false] at h
  obtain ⟨r1, h1, h⟩ := bind_eq_ok.mp h
  obtain ⟨r2, h2, h⟩ := bind_eq_ok.mp h
  obtain ⟨r3, h3, h⟩ := bind_eq_ok.mp h
  obtain ⟨r4, h4, h⟩ := bind_eq_ok.mp h
  obtain ⟨r5, h5, h⟩ := bind_eq_ok.mp h
  obtain ⟨r6, h6, h⟩ := bind_eq_ok.mp h
  obtain ⟨r7, h7, h⟩ := bind_eq_ok.mp h
  -- bounds and lengths of the intermediate lists
  obtain ⟨_, e1, l1, b1⟩ := nttLayer_bound 128 0 (by decide) B (by omega) hB0 a (by rw [hl]) hb
  rw [h1] at e1; injection e1 with e1; subst e1
  obtain ⟨_, e2, l2, b2⟩ := nttLayer_bound 64 1 (by decide) (B + Q) (by omega) (by omega) r1 (by rw [l1, hl]) b1
  rw [h2] at e2; injection e2 with e2; subst e2
  obtain ⟨_, e3, l3, b3⟩ := nttLayer_bound 32 3 (by decide) (B + Q + Q) (by omega) (by omega) r2 (by rw [l2, l1, hl]) b2
  rw [h3] at e3; injection e3 with e3; subst e3
  obtain ⟨_, e4, l4, b4⟩ := nttLayer_bound 16 7 (by decide) (B + Q + Q + Q) (by omega) (by omega) r3 (by rw [l3, l2, l1, hl]) b3
  rw [h4] at e4; injection e4 with e4; subst e4
  obtain ⟨_, e5, l5, b5⟩ := nttLayer_bound 8 15 (by decide) (B + Q + Q + Q + Q) (by omega) (by omega) r4 (by rw [l4, l3, l2, l1, hl]) b4
  rw [h5] at e5; injection e5 with e5; subst e5
  obtain ⟨_, e6, l6, b6⟩ := nttLayer_bound 4 31 (by decide) (B + Q + Q + Q + Q + Q) (by omega) (by omega) r5 (by rw [l5, l4, l3, l2, l1, hl]) b5
  rw [h6] at e6; injection e6 with e6; subst e6
  obtain ⟨_, e7, l7, b7⟩ := nttLayer_bound 2 63 (by decide) (B + Q + Q + Q + Q + Q + Q) (by omega) (by omega) r6 (by rw [l6, l5, l4, l3, l2, l1, hl]) b6
  rw [h7] at e7; injection e7 with e7; subst e7
  have big : ∀ (C : Int) (l : List Int), C ≤ 2147483648 → Bd C l → Bd 2147483648 l := fun C l hC hl' => Bd_mono C _ hC l hl'
  have c1 := nttLayer_cast M 128 0 (by decide) a r1 (by rw [hl]) (big B a (by omega) hb) h1
  have c2 := nttLayer_cast M 64 1 (by decide) r1 r2 (by rw [l1, hl]) (big _ r1 (by omega) b1) h2
  have c3 := nttLayer_cast M 32 3 (by decide) r2 r3 (by rw [l2, l1, hl]) (big _ r2 (by omega) b2) h3
  have c4 := nttLayer_cast M 16 7 (by decide) r3 r4 (by rw [l3, l2, l1, hl]) (big _ r3 (by omega) b3) h4
  have c5 := nttLayer_cast M 8 15 (by decide) r4 r5 (by rw [l4, l3, l2, l1, hl]) (big _ r4 (by omega) b4) h5
  have c6 := nttLayer_cast M 4 31 (by decide) r5 r6 (by rw [l5, l4, l3, l2, l1, hl]) (big _ r5 (by omega) b5) h6
  have c7 := nttLayer_cast M 2 63 (by decide) r6 r7 (by rw [l6, l5, l4, l3, l2, l1, hl]) (big _ r6 (by omega) b6) h7
  have c8 := nttLayer_cast M 1 127 (by decide) r7 r (by rw [l7, l6, l5, l4, l3, l2, l1, hl]) (big _ r7 (by omega) b7) h
  simp only [nttBF]
  rw [c8, c7, c6, c5, c4, c3, c2, c1]
  rfl

end DV.NttSem
