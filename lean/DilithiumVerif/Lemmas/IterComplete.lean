import DilithiumVerif.Lemmas.KeygenRel
/-
  Lemmas.IterComplete — signer and verifier joined: with a key that satisfies the key-generation facts, an accepted
  iteration yields (c̃, z, h) on which `verify_tail` returns the hashed w1Encode(w1).
-/
namespace DV.Complete
open DV DV.NttSem DV.PolySem DV.VecSem DV.RoundSem DV.NttMul DV.NttZ DV.Ranges

theorem keyData_of_facts (p : Params) (mat : List PolyVec) (s1 s2 t1 t0 s1h s2h t0h : PolyVec) (kf : KeyFacts p mat s1 s2 t1 t0)
    (e1 : vec_ntt s1 = .ok s1h) (e2 : vec_ntt s2 = .ok s2h) (e0 : vec_ntt t0 = .ok t0h) : KeyData p s1 s2 t0 s1h s2h t0h :=
  ⟨kf.s1l, kf.s2l, kf.t0l, fun a ha => small_polyOK (kf.s1s a ha) 8192 (by omega), fun a ha => small_polyOK (kf.s2s a ha) 8192 (by omega),
    fun a ha => ⟨(kf.t0s a ha).1, fun x hx => by have := (kf.t0s a ha).2 x hx; omega⟩, e1, e2, e0⟩

theorem iteration_complete (p : Params) (hp : p ∈ allParams) (mat : List PolyVec) (s1 s2 t1 t0 s1h s2h t0h : PolyVec)
    (kf : KeyFacts p mat s1 s2 t1 t0)
    (e1 : vec_ntt s1 = .ok s1h) (e2 : vec_ntt s2 = .ok s2h) (e0 : vec_ntt t0 = .ok t0h)
    (mu rp : List Nat) (nonce : Int) (sig : List Nat)
    (hacc : sign_iteration p mat mu rp s1h s2h t0h nonce = .ok (.accept sig)) :
    ∃ ct z h w1, compute_ctilde p mu (k_pack_w1 p.lvl w1) = .ok ct ∧
      pack_sig p (ct ++ List.replicate (p.sigBytes - p.ctilde) 0) none z h = .ok sig ∧
      z.length = p.l ∧ (∀ a ∈ z, a.length = 256 ∧ ∀ x ∈ a, -((p.gamma1 : Int) - p.beta) < x ∧ x < (p.gamma1 : Int) - p.beta) ∧
      h.length = p.k ∧ (∀ a ∈ h, HintCodec.Bits a) ∧ (HintCodec.idxOf h).length ≤ p.omega ∧
      ∀ pk rho trh, shake256 CRHBYTES p.trBytes pk p.pkBytes = .ok trh → matrix_expand p FUEL rho = .ok mat →
        verify_tail p pk rho t1 ct z h = .ok (trh, k_pack_w1 p.lvl w1) := by
  obtain ⟨_, _, _, _, hg1, _⟩ := params_facts p hp
  have Hy : ∀ y, l_uniform_gamma1 p rp nonce = .ok y → y.length = p.l ∧ ∀ a ∈ y, PolyOK ((p.gamma1 : Int) + 1) a := by
    intro y hy
    have := l_uniform_gamma1_range p rp nonce y hy
    exact ⟨this.1, fun a ha => ⟨(this.2 a ha).1, fun x hx => by have := (this.2 a ha).2 x hx; rw [hg1]; omega⟩⟩
  have Hc : ∀ ct cp, poly_challenge p FUEL ct = .ok cp → PolyOK 2 cp := by
    intro ct cp h
    have := challenge_tern p FUEL ct cp h
    exact ⟨this.1, fun x hx => by have := this.2 x hx; omega⟩
  obtain ⟨ct, cp, z, h, w1, a0, sf⟩ := sign_facts p hp mat kf.mat_ok s1 s2 t0 s1h s2h t0h
    (keyData_of_facts p mat s1 s2 t1 t0 s1h s2h t0h kf e1 e2 e0) mu rp nonce sig Hy Hc hacc
  refine ⟨ct, z, h, w1, sf.hct, sf.hpack, sf.zl, fun a ha => ⟨(sf.zb a ha).1, (sf.zb a ha).2⟩,
    by rw [sf.hint.length.2, ← sf.hint.length.1, sf.w1l], sf.hbits, sf.hw, ?_⟩
  intro pk rho trh htr hme
  exact verify_reconstructs p hp mat kf.mat_ok s1 s2 t0 t1 kf.t1l kf.t1s kf.rel mu sig ct cp z h w1 a0 (Hc ct cp sf.hcp) sf pk rho trh htr hme

end DV.Complete
