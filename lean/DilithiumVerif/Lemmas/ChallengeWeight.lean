import DilithiumVerif.Lemmas.Ranges
import DilithiumVerif.Lemmas.Rej
/-
  Lemmas.ChallengeWeight — SampleInBall: the challenge polynomial has exactly τ non-zero coefficients (each ±1).
-/
namespace DV.Ranges
open DV

def nzCount (c : List Int) : Nat := (c.filter (fun x => x ≠ 0)).length

theorem nzCount_cons (x : Int) (xs : List Int) : nzCount (x :: xs) = (if x ≠ 0 then 1 else 0) + nzCount xs := by
  unfold nzCount
  by_cases h : x ≠ 0
  · simp [List.filter_cons, h]; omega
  · simp [List.filter_cons, h]

/-- replacing one entry changes the count by (new ≠ 0) − (old ≠ 0) -/
theorem nzCount_set : ∀ (l : List Int) (k : Nat) (v : Int), k < l.length →
    nzCount (l.set k v) + (if l.getD k 0 ≠ 0 then 1 else 0) = nzCount l + (if v ≠ 0 then 1 else 0)
  | [], k, v, h => by simp at h
  | x :: xs, 0, v, _ => by
      simp only [List.set_cons_zero, nzCount_cons, List.getD_cons_zero]; omega
  | x :: xs, k + 1, v, h => by
      have ih := nzCount_set xs k v (by simpa using h)
      simp only [List.set_cons_succ, nzCount_cons, List.getD_cons_succ]
      omega

theorem getD_set_ne (l : List Int) (k j : Nat) (v : Int) (h : k ≠ j) : (l.set k v).getD j 0 = l.getD j 0 := by
  simp only [List.getD_eq_getElem?_getD, List.getElem?_set, h, if_false]

theorem getD_set_eq (l : List Int) (k : Nat) (v : Int) (h : k < l.length) : (l.set k v).getD k 0 = v := by
  simp only [List.getD_eq_getElem?_getD, List.getElem?_set, if_true, h, Option.getD_some]

theorem getC_val {α} (l : List α) (i : Nat) (x d : α) (h : getC l i = .ok x) : i < l.length ∧ x = l.getD i d := by
  unfold getC at h
  split at h
  · rename_i y hy
    injection h with h; subst h
    have hi : i < l.length := (List.getElem?_eq_some_iff.mp hy).1
    exact ⟨hi, by rw [List.getD_eq_getElem?_getD, hy]; rfl⟩
  · cases h

theorem setC_val {α} (l : List α) (i : Nat) (x : α) (l' : List α) (h : setC l i x = .ok l') : i < l.length ∧ l' = l.set i x := by
  unfold setC at h
  split at h
  · rename_i hi; injection h with h; exact ⟨hi, h.symm⟩
  · cases h

theorem challenge_next_le : ∀ (fuel i : Nat) (st : KeccakState) (buf : List Nat) (pos : Nat) (r : Nat × KeccakState × List Nat × Nat),
    challenge_next fuel i st buf pos = .ok r → r.1 ≤ i := by
  intro fuel
  induction fuel with
  | zero => intro i st buf pos r h; simp [challenge_next] at h
  | succ n ih =>
    intro i st buf pos r h
    unfold challenge_next at h
    obtain ⟨⟨st', buf', pos'⟩, _, h⟩ := bind_eq_ok.mp h
    simp only at h
    obtain ⟨b, _, h⟩ := bind_eq_ok.mp h
    split at h
    · rename_i hle; injection h with h; subst h; exact hle
    · exact ih _ _ _ _ _ h

theorem challenge_go_weight (fuel : Nat) : ∀ (n i : Nat) (c : List Int) (signs : UInt64) (st : KeccakState) (buf : List Nat) (pos : Nat)
    (r : List Int), c.length = 256 → i + n ≤ 256 → (∀ j, i ≤ j → c.getD j 0 = 0) →
    challenge_go fuel n i c signs st buf pos = .ok r → nzCount r = nzCount c + n := by
  intro n
  induction n with
  | zero => intro i c signs st buf pos r _ _ _ h; simp [challenge_go] at h; subst h; rfl
  | succ n ih =>
    intro i c signs st buf pos r hl hin hz h
    unfold challenge_go at h
    obtain ⟨⟨b, st', buf', pos'⟩, hnext, h⟩ := bind_eq_ok.mp h
    simp only at h
    have hbi : b ≤ i := challenge_next_le fuel i st buf pos _ hnext
    obtain ⟨cb, hcb, h⟩ := bind_eq_ok.mp h
    obtain ⟨c1, hc1, h⟩ := bind_eq_ok.mp h
    obtain ⟨c2, hc2, h⟩ := bind_eq_ok.mp h
    obtain ⟨hb256, hcbv⟩ := getC_val c b cb 0 hcb
    obtain ⟨hi256, e1⟩ := setC_val c i cb c1 hc1
    obtain ⟨hb1, e2⟩ := setC_val c1 b _ c2 hc2
    have hs : (1 : Int) - 2 * (((signs &&& 1).toNat : Nat) : Int) ≠ 0 := by
      have := sign_val signs; omega
    have hci : c.getD i 0 = 0 := hz i (Nat.le_refl _)
    -- the count grows by exactly one
    have hcount : nzCount c2 = nzCount c + 1 := by
      have s1 := nzCount_set c i cb hi256
      rw [hci] at s1
      have s2 := nzCount_set c1 b ((1 : Int) - 2 * (((signs &&& 1).toNat : Nat) : Int)) hb1
      rw [← e1] at s1; rw [← e2] at s2
      rw [if_pos hs] at s2
      by_cases hbi' : b = i
      · subst hbi'
        have : c1.getD b 0 = cb := by rw [e1]; exact getD_set_eq c b cb hb256
        rw [this, hcbv, hci] at s2
        rw [hcbv, hci] at s1
        simp at s1 s2; omega
      · have : c1.getD b 0 = cb := by rw [e1, getD_set_ne c i b cb (fun e => hbi' e.symm)]; exact hcbv.symm
        rw [this] at s2
        by_cases hcb0 : cb ≠ 0
        · rw [if_pos hcb0] at s1 s2; simp at s1; omega
        · rw [if_neg hcb0] at s1 s2; simp at s1; omega
    have hl2 : c2.length = 256 := by rw [e2, List.length_set, e1, List.length_set]; exact hl
    have hz2 : ∀ j, i + 1 ≤ j → c2.getD j 0 = 0 := by
      intro j hj
      rw [e2, getD_set_ne _ b j _ (by omega), e1, getD_set_ne _ i j _ (by omega)]
      exact hz j (by omega)
    have := ih (i + 1) c2 _ st' buf' pos' r hl2 (by omega) hz2 h
    rw [this, hcount]; omega

/-- **SampleInBall**: exactly τ non-zero coefficients, all ±1, 256 coefficients in total -/
theorem challenge_weight (p : Params) (hp : p ∈ allParams) (fuel : Nat) (seed : List Nat) (c : List Int)
    (h : poly_challenge p fuel seed = .ok c) : nzCount c = p.tau ∧ Tern c := by
  have htau : ∀ p ∈ allParams, p.tau ≤ 256 ∧ N = 256 := by decide
  obtain ⟨ht, hN⟩ := htau p hp
  refine ⟨?_, challenge_tern p fuel seed c h⟩
  unfold poly_challenge at h
  obtain ⟨st, _, h⟩ := bind_eq_ok.mp h
  obtain ⟨st2, _, h⟩ := bind_eq_ok.mp h
  obtain ⟨⟨buf, st3⟩, _, h⟩ := bind_eq_ok.mp h
  simp only at h
  have := challenge_go_weight fuel p.tau (N - p.tau) (List.replicate N 0) _ st3 buf 8 c (by rw [List.length_replicate, hN])
    (by rw [hN]; omega) (fun j _ => by
      rw [List.getD_eq_getElem?_getD, List.getElem?_replicate]; split <;> rfl) h
  rw [this]
  have : nzCount (List.replicate N (0 : Int)) = 0 := by
    unfold nzCount
    rw [List.filter_eq_nil_iff.mpr]
    · rfl
    · intro x hx; rw [List.mem_replicate] at hx; simp [hx.2]
  rw [this]; omega

end DV.Ranges
