import DilithiumVerif.Impl.Keccak
/-
  Lemmas.KeccakSpec — the round function of the model (`halfRound`, the code's unrolled θρπχι on 25 named lanes) is the
  FIPS 202 round Rnd(A, i_r) = ι(χ(π(ρ(θ(A)))), i_r) written generically on lanes A[x, y], and the round-constant table
  regenerated from src/fips202.rs is the table FIPS 202 Algorithm 5 (rc) generates.
-/
namespace DV.KeccakSpec
open DV

/-- lane A[x, y] of the state (FIPS 202 §3.1.2: lane (x, y) is word x + 5y; the reference code names them
    a{b,g,k,m,s}{a,e,i,o,u} = row y, column x) -/
def get (a : St) (x y : Fin 5) : UInt64 :=
  match y, x with
  | 0, 0 => a.aba | 0, 1 => a.abe | 0, 2 => a.abi | 0, 3 => a.abo | 0, 4 => a.abu
  | 1, 0 => a.aga | 1, 1 => a.age | 1, 2 => a.agi | 1, 3 => a.ago | 1, 4 => a.agu
  | 2, 0 => a.aka | 2, 1 => a.ake | 2, 2 => a.aki | 2, 3 => a.ako | 2, 4 => a.aku
  | 3, 0 => a.ama | 3, 1 => a.ame | 3, 2 => a.ami | 3, 3 => a.amo | 3, 4 => a.amu
  | 4, 0 => a.asa | 4, 1 => a.ase | 4, 2 => a.asi | 4, 3 => a.aso | 4, 4 => a.asu

def mk (f : Fin 5 → Fin 5 → UInt64) : St :=
  { aba := f 0 0, abe := f 1 0, abi := f 2 0, abo := f 3 0, abu := f 4 0,
    aga := f 0 1, age := f 1 1, agi := f 2 1, ago := f 3 1, agu := f 4 1,
    aka := f 0 2, ake := f 1 2, aki := f 2 2, ako := f 3 2, aku := f 4 2,
    ama := f 0 3, ame := f 1 3, ami := f 2 3, amo := f 3 3, amu := f 4 3,
    asa := f 0 4, ase := f 1 4, asi := f 2 4, aso := f 3 4, asu := f 4 4 }

/-- θ (Alg. 1): C[x] = ⊕_y A[x,y];  D[x] = C[x−1] ⊕ ROT(C[x+1], 1);  A′[x,y] = A[x,y] ⊕ D[x] -/
def colParity (a : St) (x : Fin 5) : UInt64 := get a x 0 ^^^ get a x 1 ^^^ get a x 2 ^^^ get a x 3 ^^^ get a x 4
def thetaD (a : St) (x : Fin 5) : UInt64 := colParity a (x - 1) ^^^ rol (colParity a (x + 1)) 1
def theta (a : St) : St := mk (fun x y => get a x y ^^^ thetaD a x)

/-- ρ offsets (FIPS 202 Table 2, mod 64), indexed [x][y] -/
def rhoOff (x y : Fin 5) : UInt64 :=
  match x, y with
  | 0, 0 => 0  | 0, 1 => 36 | 0, 2 => 3  | 0, 3 => 41 | 0, 4 => 18
  | 1, 0 => 1  | 1, 1 => 44 | 1, 2 => 10 | 1, 3 => 45 | 1, 4 => 2
  | 2, 0 => 62 | 2, 1 => 6  | 2, 2 => 43 | 2, 3 => 15 | 2, 4 => 61
  | 3, 0 => 28 | 3, 1 => 55 | 3, 2 => 25 | 3, 3 => 21 | 3, 4 => 56
  | 4, 0 => 27 | 4, 1 => 20 | 4, 2 => 39 | 4, 3 => 8  | 4, 4 => 14

/-- rotation by n bits; n = 0 is the identity (the code's `rol` is only used with 0 < n < 64) -/
def rot (a : UInt64) (n : UInt64) : UInt64 := if n = 0 then a else rol a n

/-- π ∘ ρ (Alg. 2, 3): A′[x, y] = ROT(A[x′, x], r[x′, x]) with x′ = x + 3y, i.e. lane (x′, y′) moves to (y′, 2x′ + 3y′) -/
def rhoPi (a : St) : St := mk (fun x y => rot (get a (x + 3 * y) x) (rhoOff (x + 3 * y) x))

/-- χ (Alg. 4): A′[x,y] = A[x,y] ⊕ (¬A[x+1,y] ∧ A[x+2,y]) -/
def chi (a : St) : St := mk (fun x y => get a x y ^^^ ((~~~ get a (x + 1) y) &&& get a (x + 2) y))

/-- ι (Alg. 6): A′[0,0] = A[0,0] ⊕ RC -/
def iota (rc : UInt64) (a : St) : St := { a with aba := a.aba ^^^ rc }

/-- Rnd(A, RC) = ι(χ(π(ρ(θ(A)))), RC) -/
def round (rc : UInt64) (a : St) : St := iota rc (chi (rhoPi (theta a)))

/-- the unrolled round of the code is the FIPS 202 round, for every state and every constant -/
theorem halfRound_eq_round (rc : UInt64) (a : St) : halfRound rc a = round rc a := by
  cases a
  rfl

/-! ### round constants (Alg. 5): RC[i_r] has bit 2^j − 1 set to rc(j + 7 i_r), rc(t) the output of the LFSR x^8+x^6+x^5+x^4+1 -/

/-- one LFSR step on the 8-bit state R (as a Nat < 256): R = 0‖R; R[0]^=R[8]; R[4]^=R[8]; R[5]^=R[8]; R[6]^=R[8]; truncate -/
def lfsrStep (r : Nat) : Nat :=
  let r2 := r * 2
  if r2 ≥ 256 then (r2 ^^^ 0x171) % 256 else r2

def iter (f : Nat → Nat) : Nat → Nat → Nat
  | 0, x => x
  | n + 1, x => iter f n (f x)

/-- rc(t): the low bit of the state after t steps from R = 1 (FIPS 202 stores R with R[0] first: bit 0 here) -/
def rcBit (t : Nat) : Bool := (iter lfsrStep (t % 255) 1) % 2 = 1

/-- RC[i_r] as a number: bit 2^j − 1 is rc(j + 7 i_r), j = 0..6 -/
def rcSpecNat (ir : Nat) : Nat :=
  (List.range 7).foldl (fun acc j => if rcBit (j + 7 * ir) then acc + 2 ^ (2 ^ j - 1) else acc) 0

def rcSpec (ir : Nat) : UInt64 := UInt64.ofNat (rcSpecNat ir)

/-- the table in the source is the FIPS 202 table, all 24 entries -/
theorem round_constants_nat : Gen.KECCAKF_ROUNDCONSTANTS.map UInt64.toNat = (List.range 24).map rcSpecNat := by decide +kernel

theorem round_constants_spec : Gen.KECCAKF_ROUNDCONSTANTS = (List.range 24).map rcSpec := by
  have h := congrArg (List.map UInt64.ofNat) round_constants_nat
  simp only [List.map_map] at h
  have e : (UInt64.ofNat ∘ UInt64.toNat) = id := by funext x; simp
  rw [e, List.map_id] at h
  rw [h]; rfl

/-- Keccak-p[1600, 24] of the model = 24 FIPS 202 rounds with the FIPS 202 constants -/
theorem keccakf_eq_spec (s : Lanes) :
    keccakf s = (((List.range 24).map rcSpec).foldl (fun a rc => round rc a) (St.ofLanes s)).toLanes := by
  unfold keccakf
  rw [round_constants_spec]
  have : ∀ (l : List UInt64) (a : St), l.foldl (fun a rc => halfRound rc a) a = l.foldl (fun a rc => round rc a) a := by
    intro l
    induction l with
    | nil => intro a; rfl
    | cons rc l ih => intro a; simp only [List.foldl_cons, halfRound_eq_round, ih]
  rw [this]

end DV.KeccakSpec
