import DilithiumVerif.Lemmas.SignFips
import DilithiumVerif.Lemmas.SignTotal
/-
  Lemmas.SignTerm — conditional termination of signing: the code's rejection loop returns (with the specification's
  signature) whenever the specification's loop has an accepting iteration within the code's u16 nonce budget.
  Whether such an iteration exists is a statement about SHAKE-256 outputs (each iteration is accepted with probability
  about 1/4..1/5); that part of "signing always terminates" is not a theorem.  What is proved: the code never loops on
  when the specification would stop, never stops where it would go on, and no arithmetic fault interrupts it.
-/
namespace DV.SignTerm
open DV DV.NttSem DV.PolySem DV.VecSem DV.NttMul DV.NttZ DV.Ranges DV.Containers DV.Complete DV.XofSpec DV.EncodeSpec
  DV.SignSpec DV.ShakeSmall DV.SignFips DV.SamplerTotal

set_option maxHeartbeats 1600000 in
/-- one iteration of the code accepts σ exactly when the specification's iteration accepts σ -/
theorem iter_spec (p : Params) (hp : p ∈ allParams) (mat : List PolyVec) (s1 s2 t1 t0 s1h s2h t0h : PolyVec)
    (kf : KeyFacts p mat s1 s2 t1 t0) (e1 : vec_ntt s1 = .ok s1h) (e2 : vec_ntt s2 = .ok s2h) (e0 : vec_ntt t0 = .ok t0h)
    (mu rp : List Nat) (hmu : mu.length = CRHBYTES) (hrp : rp.length = CRHBYTES)
    (i : Nat) (out : IterResult) (hit : sign_iteration p mat mu rp s1h s2h t0h ((i : Nat) : Int) = .ok out) :
    (∀ σ, Accepts p mat s1 s2 t0 mu rp i σ → out = .accept σ) ∧ (∀ σ, out = .accept σ → Accepts p mat s1 s2 t0 mu rp i σ) := by
  obtain ⟨_, _, _, _, hg1, _⟩ := params_facts p hp
  have kd := keyData_of_facts p mat s1 s2 t1 t0 s1h s2h t0h kf e1 e2 e0
  have key : SignKey p s2 := ⟨hp, kf.s2l, kf.s2s⟩
  have Hy : ∀ (n : Int) y, l_uniform_gamma1 p rp n = .ok y → y.length = p.l ∧ ∀ a ∈ y, PolyOK ((p.gamma1 : Int) + 1) a := by
    intro n y hy
    have := l_uniform_gamma1_range p rp _ y hy
    exact ⟨this.1, fun a ha => ⟨(this.2 a ha).1, fun x hx => by have := (this.2 a ha).2 x hx; rw [hg1]; omega⟩⟩
  have Hc : ∀ ct cp, poly_challenge p FUEL ct = .ok cp → PolyOK 2 cp := by
    intro ct cp h
    have := challenge_tern p FUEL ct cp h
    exact ⟨this.1, fun x hx => by have := this.2 x hx; omega⟩
  obtain ⟨y, w, w1, w0, ct, cp, z, core, outc⟩ := sign_iteration_sem p hp mat kf.mat_ok s1 s2 t0 s1h s2h t0h kd mu rp _ out
    (Hy _) Hc hit
  refine ⟨fun σ hA => spec_accept_forces p mat s1 s2 t0 key mu rp hmu hrp i y w w1 w0 ct cp z core out outc σ hA, fun σ ho => ?_⟩
  subst ho
  exact model_accept_is_spec p hp mat s1 s2 t0 mu rp hmu hrp i y w w1 w0 ct cp z core σ outc

/-- **conditional termination of the loop**: if the specification's loop stops at iteration κ with σ (accepted at κ, at no
    earlier iteration), κ < fuel and the nonce budget covers `fuel` iterations, then the code's loop returns `some σ`
    (or the model runs out of sampler budget) — it neither stops earlier, nor runs past κ, nor faults. -/
theorem sign_loop_returns (p : Params) (hp : p ∈ allParams) (mat : List PolyVec) (s1 s2 t1 t0 s1h s2h t0h : PolyVec)
    (kf : KeyFacts p mat s1 s2 t1 t0) (e1 : vec_ntt s1 = .ok s1h) (e2 : vec_ntt s2 = .ok s2h) (e0 : vec_ntt t0 = .ok t0h)
    (mu rp : List Nat) (hmu : mu.length = CRHBYTES) (hrp : rp.length = CRHBYTES)
    (κ : Nat) (σ : List Nat) (hout : IsLoopOutput p mat s1 s2 t0 mu rp κ σ) :
    ∀ (m start : Nat), start ≤ κ → κ < start + m → (p.l : Int) * ((start + m : Nat) : Int) ≤ 65535 →
      OkOrFuel (sign_loop p mat mu rp s1h s2h t0h m ((start : Nat) : Int)) (fun r => r = some σ) := by
  have kd := keyData_of_facts p mat s1 s2 t1 t0 s1h s2h t0h kf e1 e2 e0
  intro m
  induction m with
  | zero => intro start h1 h2 _; omega
  | succ m ih =>
    intro start h1 h2 h3
    unfold sign_loop
    have hl : (0 : Int) ≤ (p.l : Int) := Int.natCast_nonneg _
    have hn : (p.l : Int) * ((start : Nat) : Int) + p.l ≤ 65535 := by
      have : (p.l : Int) * ((start + (m + 1) : Nat) : Int) = (p.l : Int) * (start : Int) + (p.l : Int) * (m : Int) + p.l := by
        push_cast; ring
      have hm : (0 : Int) ≤ (p.l : Int) * (m : Int) := Int.mul_nonneg hl (Int.natCast_nonneg _)
      omega
    rcases sign_iteration_total p hp mat kf.mat_ok s1 s2 t0 s1h s2h t0h kd mu rp hmu hrp ((start : Nat) : Int)
        (Int.natCast_nonneg _) hn with ⟨out, hit, _⟩ | hfuel
    swap
    · right; rw [hfuel]; rfl
    rw [hit, ok_bind]
    obtain ⟨hfw, hbw⟩ := iter_spec p hp mat s1 s2 t1 t0 s1h s2h t0h kf e1 e2 e0 mu rp hmu hrp start out hit
    by_cases hs : start = κ
    · subst hs
      rw [hfw σ hout.1]
      exact OkOrFuel.of_ok _ rfl rfl
    · have hlt : start < κ := by omega
      have hnot : ∀ σ', out ≠ .accept σ' := fun σ' ho => hout.2 start hlt σ' (hbw σ' ho)
      have e : (((start : Nat) : Int) + 1) = ((start + 1 : Nat) : Int) := by push_cast; rfl
      have fin := ih (start + 1) (by omega) (by omega) (by rw [show start + 1 + m = start + (m + 1) by omega]; exact h3)
      cases out with
      | accept sig => exact absurd rfl (hnot sig)
      | rejZ => simp only [e]; exact fin
      | rejR0 => simp only [e]; exact fin
      | rejCt0 => simp only [e]; exact fin
      | rejHint => simp only [e]; exact fin

set_option maxHeartbeats 1600000 in
/-- **conditional termination of signing**: for a key pair from `keypair` and a call of `signature` that comes back at all
    (with a signature or with `none` after `fuel` attempts, `fuel` within the u16 nonce budget): with the decoded key, A, μ and
    ρ″ as in `SignFips.signature_is_spec`, if the specification's rejection loop stops at some κ < fuel with σ, then the call
    returned `some σ`. So the code gives up, or runs on, only where the specification's loop itself has no accepting
    iteration among the first `fuel`. -/
theorem signature_returns_spec_output (p : Params) (hp : p ∈ allParams) (seed : Option (List Nat)) (tape : Tape) (pk sk : List Nat) (tape' : Tape)
    (hk : keypair p seed tape = .ok (pk, sk, tape'))
    (fuel : Nat) (hf : (p.l : Int) * (fuel : Int) ≤ 65535) (msg : List Nat) (randomized : Bool) (tape2 : Tape)
    (res : Option (List Nat)) (tape3 : Tape)
    (hs : signature p fuel msg sk randomized tape2 = .ok (res, tape3)) :
    ∃ (rho tr key : List Nat) (s1 s2 t1 t0 : PolyVec) (mat : List PolyVec) (r : Option (List Nat)),
      unpack_sk p sk = .ok (rho, tr, key, t0, s1, s2) ∧ matrix_expand p FUEL rho = .ok mat ∧ KeyFacts p mat s1 s2 t1 t0 ∧
      (randomized = false → r = none) ∧
      (randomized = true → ∃ n, n = (if p.mldsa = true then SEEDBYTES else CRHBYTES) ∧ r = some (tape2.take n)) ∧
      ∀ κ σ, κ < fuel →
        IsLoopOutput p mat s1 s2 t0 (SHAKE256 (tr ++ msg) CRHBYTES) (rhoPrimeSpec p key (SHAKE256 (tr ++ msg) CRHBYTES) r) κ σ →
        res = some σ := by
  obtain ⟨_, htrR, _, _, _⟩ := e2e_facts p hp
  unfold keypair at hk
  obtain ⟨⟨s, tp⟩, _, hk⟩ := bind_eq_ok.mp hk
  simp only at hk
  obtain ⟨⟨rho, key, s1, s2, t1, t0⟩, hcore, hk⟩ := bind_eq_ok.mp hk
  simp only at hk
  obtain ⟨pk0, hpk, hk⟩ := bind_eq_ok.mp hk
  obtain ⟨tr, htr, hk⟩ := bind_eq_ok.mp hk
  obtain ⟨sk0, hsk, hk⟩ := bind_eq_ok.mp hk
  injection hk with hk; injection hk with hpk0 hk; injection hk with hsk0 _
  subst hpk0; subst hsk0
  obtain ⟨mat, hme, kf⟩ := keygen_facts p hp _ rho key s1 s2 t1 t0 hcore
  obtain ⟨hrl, hkl⟩ := keygen_core_lengths p _ rho key s1 s2 t1 t0 hcore
  have htrl : tr.length = p.trBytes := by
    unfold shake256n at htr
    exact shake256_small_length _ _ _ _ htrR (Nat.le_refl _) tr htr
  obtain ⟨sk', hsk', husk⟩ := unpack_pack_sk p hp rho tr key t0 s1 s2 hrl hkl htrl kf.s1l kf.s2l kf.t0l
    (fun a ha => by rw [etaB_eq]; exact kf.s1s a ha) (fun a ha => by rw [etaB_eq]; exact kf.s2s a ha) kf.t0s
  rw [hsk] at hsk'; injection hsk' with hsk'; subst hsk'
  unfold signature at hs
  rw [husk, ok_bind] at hs
  simp only at hs
  obtain ⟨mu, hmu, hs⟩ := bind_eq_ok.mp hs
  rw [← htrl, VerifyFips.compute_mu_spec tr msg] at hmu
  injection hmu with hmu
  have hmul : mu.length = CRHBYTES := by rw [← hmu, SHAKE256_length]
  obtain ⟨⟨rhoprime, tp2⟩, hrp, hs⟩ := bind_eq_ok.mp hs
  simp only at hs
  rw [hme, ok_bind] at hs
  obtain ⟨s1h, e1, hs⟩ := bind_eq_ok.mp hs
  obtain ⟨s2h, e2, hs⟩ := bind_eq_ok.mp hs
  obtain ⟨t0h, e0, hs⟩ := bind_eq_ok.mp hs
  obtain ⟨rr, hloop, hs⟩ := bind_eq_ok.mp hs
  injection hs with hs; injection hs with hr ht; subst hr; subst ht
  obtain ⟨r, hrE, hrl', hdet, hrand⟩ := derive_rhoprime_spec p key mu hkl hmul randomized tape2 rhoprime tp2 hrp
  refine ⟨rho, tr, key, s1, s2, t1, t0, mat, r, husk, hme, kf, fun h => (hdet h).1, ?_, ?_⟩
  · intro h
    obtain ⟨n, hn, _, hr, _⟩ := hrand h
    exact ⟨n, hn, hr⟩
  · intro κ σ hκ hout
    rw [hmu, ← hrE] at hout
    have := sign_loop_returns p hp mat s1 s2 t1 t0 s1h s2h t0h kf e1 e2 e0 mu rhoprime hmul hrl' κ σ hout fuel 0 (Nat.zero_le _)
      (by omega) (by simpa using hf)
    rcases this with ⟨a, ha, hav⟩ | hfu
    · have e : ((0 : Nat) : Int) = 0 := rfl
      rw [e, hloop] at ha
      injection ha with ha
      rw [ha, hav]
    · have e : ((0 : Nat) : Int) = 0 := rfl
      rw [e, hloop] at hfu
      cases hfu

end DV.SignTerm
