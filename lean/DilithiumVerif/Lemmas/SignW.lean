import DilithiumVerif.Lemmas.RoundSem
import DilithiumVerif.Lemmas.NttZ
import DilithiumVerif.Impl.Sign
/-
  Lemmas.SignW — first half of a signing iteration (y ↦ w = A·y, then HighBits/LowBits), in total form, and the
  shared vocabulary of the completeness proof.  From here on the ring is K = ℤ/q.
-/
namespace DV.Complete
open DV DV.NttSem DV.PolySem DV.VecSem DV.RoundSem DV.NttMul DV.NttZ

abbrev K := ZMod 8380417
noncomputable def MK : ModQ K := instM

/-- numeric facts shared by the six parameter sets -/
theorem params_facts : ∀ p ∈ allParams,
    0 < p.l ∧ p.l ≤ 7 ∧ 0 < p.k ∧ p.k ≤ 8 ∧ (p.gamma1 : Int) = gamma1Of p.lvl ∧ (p.gamma2 : Int) = gamma2Of p.lvl ∧
    (p.gamma1 : Int) ≤ 524288 ∧ 131072 ≤ (p.gamma1 : Int) ∧ 0 < (p.beta : Int) ∧ (p.beta : Int) ≤ 196 ∧
    (p.gamma2 : Int) ≤ 261888 ∧ 95232 ≤ (p.gamma2 : Int) := by decide

/-- a well-formed expanded matrix: K rows of L polynomials with coefficients in [0, q) -/
def MatOK (p : Params) (mat : List PolyVec) : Prop :=
  mat.length = p.k ∧ ∀ row ∈ mat, row.length = p.l ∧ ∀ a ∈ row, Std a

theorem Std.polyOK {a : List Int} (h : Std a) : PolyOK Q a :=
  ⟨h.1, fun x hx => by have := h.2 x hx; have hq : Q = 8380417 := Q_val'; omega⟩

/-- row r of A times a vector of standard-domain polynomials, at root i -/
noncomputable def rowDot (row : List (List Int)) (ys : List (List Int)) (n : Nat) (i : Nat) : K :=
  sumTo n (fun j => Vl (row.getD j []) i * El (ys.getD j []) i)

/-- dotV against transformed polynomials is the row sum against the originals -/
theorem dotV_rowDot (row ys yh : List (List Int)) (i : Nat) (hi : i < 256) (hl : row.length = yh.length)
    (hrel : All2 (fun a y => ∀ i, i < 256 → (Vl y i : K) = El a i) ys yh) :
    (dotV row yh i : K) = rowDot row ys row.length i := by
  rw [dotV_sum row yh i hl]
  unfold rowDot
  apply sumTo_congr
  intro j hj
  have hlen := hrel.length
  have := hrel.getD [] [] j (by rw [← hlen, ← hl]; exact hj) i hi
  rw [this]

/-- w = A·y in total form: transform, row products, reduction, inverse transform, conditional add of q -/
theorem sign_w_sem (p : Params) (hp : p ∈ allParams) (mat : List PolyVec) (hmat : MatOK p mat) (y : PolyVec) (B : Int)
    (hB0 : 0 < B) (hBQ : B ≤ Q) (hyl : y.length = p.l) (hy : ∀ a ∈ y, PolyOK B a) :
    ∃ yh wA wB wC w, vec_ntt y = .ok yh ∧ matrix_pointwise_montgomery mat yh = .ok wA ∧ vec_reduce wA = .ok wB ∧
      vec_invntt_tomont wB = .ok wC ∧ vec_caddq wC = .ok w ∧ w.length = p.k ∧ (∀ a ∈ w, Std a) ∧
      ∀ r, r < p.k → ∀ i, i < 256 → (El (w.getD r []) i : K) = rowDot (mat.getD r []) y p.l i := by
  have hq : Q = 8380417 := Q_val'
  obtain ⟨hl0, hl7, hk0, hk8, _⟩ := params_facts p hp
  obtain ⟨yh, e1, r1⟩ := vec_ntt_sem MK B hB0 (by rw [hq] at hBQ ⊢; omega) y hy
  have hyhl : yh.length = p.l := by rw [r1.length, hyl]
  have hyh9 : ∀ a ∈ yh, PolyOK (9 * Q) a := r1.right (fun _ _ h => h.1.mono (by rw [hq] at hBQ ⊢; omega))
  obtain ⟨wA, e2, r2⟩ := matrix_sem MK mat yh (by rw [hyhl]; exact hl0) (by rw [hyhl]; omega)
    (fun row hrow => ⟨by rw [(hmat.2 row hrow).1, hyhl], fun a ha => (Std.polyOK ((hmat.2 row hrow).2 a ha)).mono (by rw [hq]; omega)⟩) hyh9
  obtain ⟨wB, e3, r3⟩ := vec_reduce_sem MK wA (r2.right (fun _ _ h => h.1.mono (by rw [hq]; omega)))
  obtain ⟨wC, e4, r4⟩ := vec_invntt_sem MK wB (r3.right (fun _ _ h => h.1.mono (by rw [hq]; omega)))
  obtain ⟨w, e5, r5⟩ := vec_caddq_sem MK wC (r4.right (fun _ _ h => h.1))
  refine ⟨yh, wA, wB, wC, w, e1, e2, e3, e4, e5, ?_, r5.right (fun _ _ h => h.1), ?_⟩
  · rw [r5.length, r4.length, r3.length, r2.length, hmat.1]
  · intro r hr i hi
    have hrm : r < mat.length := by rw [hmat.1]; exact hr
    have f2 := r2.getD [] [] r hrm
    have f3 := r3.getD [] [] r (by rw [r2.length]; exact hrm)
    have f4 := r4.getD [] [] r (by rw [r3.length, r2.length]; exact hrm)
    have f5 := r5.getD [] [] r (by rw [r4.length, r3.length, r2.length]; exact hrm)
    rw [El_congr _ _ f5.2 i, f4.2 i hi, Vl_congr _ _ f3.2 i, f2.2 i hi]
    have hrow := hmat.2 (mat.getD r []) (by rw [List.getD_eq_getElem?_getD, List.getElem?_eq_getElem hrm]; simp)
    rw [dotV_rowDot (mat.getD r []) y yh i hi (by rw [hrow.1, hyhl]) (r1.mono (fun _ _ h => h.2)), hrow.1]
    have hu : MK.u * ((4294967296 : Int) : K) = 1 := MK.hu
    calc ((4294967296 : Int) : K) * (MK.u * rowDot (mat.getD r []) y p.l i)
        = (MK.u * ((4294967296 : Int) : K)) * rowDot (mat.getD r []) y p.l i := by ring
      _ = rowDot (mat.getD r []) y p.l i := by rw [hu, one_mul]

end DV.Complete
