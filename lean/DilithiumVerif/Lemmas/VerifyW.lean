import DilithiumVerif.Lemmas.SignW
/-
  Lemmas.VerifyW — products by the challenge (c·s1, c·s2, c·t0) and the verifier's reconstruction
  w' = A·z − c·t1·2^d, in total form.
-/
namespace DV.Complete
open DV DV.NttSem DV.PolySem DV.VecSem DV.RoundSem DV.NttMul DV.NttZ

/-- c·v for a vector already in the NTT domain: pointwise product with ĉ, inverse transform -/
theorem cs_sem (cph : List Int) (hc9 : PolyOK (9 * Q) cph) (ce : Nat → K) (hce : ∀ i, i < 256 → (Vl cph i : K) = ce i)
    (vh : PolyVec) (hv : ∀ a ∈ vh, PolyOK (9 * Q) a) :
    ∃ a b, vec_pointwise_poly_montgomery cph vh = .ok a ∧ vec_invntt_tomont a = .ok b ∧
      All2 (fun v x => PolyOK Q x ∧ ∀ i, i < 256 → (El x i : K) = ce i * Vl v i) vh b := by
  obtain ⟨a, e1, r1⟩ := vec_pointwise_poly_sem MK cph hc9 vh hv
  obtain ⟨b, e2, r2⟩ := vec_invntt_sem MK a (r1.right (fun _ _ h => h.1))
  refine ⟨a, b, e1, e2, All2.trans ?_ r1 r2⟩
  intro v x y h1 h2
  refine ⟨h2.1, fun i hi => ?_⟩
  rw [h2.2 i hi, h1.2 i hi, hce i hi]
  have hu : MK.u * ((4294967296 : Int) : K) = 1 := MK.hu
  calc ((4294967296 : Int) : K) * (MK.u * ce i * Vl v i) = (MK.u * ((4294967296 : Int) : K)) * (ce i * Vl v i) := by ring
    _ = ce i * Vl v i := by rw [hu, one_mul]

/-- coefficients of an unpacked t1 -/
def T1OK (a : List Int) : Prop := a.length = 256 ∧ ∀ x ∈ a, 0 ≤ x ∧ x < 1024

theorem shl_t1 (x : Int) (h : 0 ≤ x ∧ x < 1024) : shl32 x D = x * 8192 := by
  have hD : D = 13 := by decide
  rw [hD, shl32_eq, wrap32_id _ (by omega)]; rfl

theorem poly_shiftl_sem (a : List Int) (ha : T1OK a) :
    PolyOK Q (poly_shiftl a) ∧ (castL (poly_shiftl a) : List K) = (castL a).map (fun v => ((8192 : Int) : K) * v) := by
  have hq : Q = 8380417 := Q_val'
  unfold poly_shiftl
  refine ⟨⟨by rw [List.length_map, ha.1], ?_⟩, ?_⟩
  · intro y hy
    obtain ⟨x, hx, rfl⟩ := List.mem_map.mp hy
    have := ha.2 x hx
    rw [shl_t1 x this, hq]; omega
  · simp only [castL, List.map_map]
    apply List.map_congr_left
    intro x hx
    simp only [Function.comp]
    rw [shl_t1 x (ha.2 x hx), Int.cast_mul, mul_comm]

/-- the verifier's w' = A·z − c·t1·2^13 (before the hints are applied): all steps succeed, rows in [0, q) -/
theorem verify_w_sem (p : Params) (hp : p ∈ allParams) (mat : List PolyVec) (hmat : MatOK p mat) (z : PolyVec) (B : Int)
    (hB0 : 0 < B) (hBQ : B ≤ Q) (hzl : z.length = p.l) (hz : ∀ a ∈ z, PolyOK B a)
    (cph : List Int) (hc9 : PolyOK (9 * Q) cph) (ce : Nat → K) (hce : ∀ i, i < 256 → (Vl cph i : K) = ce i)
    (t1 : PolyVec) (ht1l : t1.length = p.k) (ht1 : ∀ a ∈ t1, T1OK a) :
    ∃ zh wA t1h ct1 wS wR wI wv, vec_ntt z = .ok zh ∧ matrix_pointwise_montgomery mat zh = .ok wA ∧
      vec_ntt (vec_shiftl t1) = .ok t1h ∧ vec_pointwise_poly_montgomery cph t1h = .ok ct1 ∧ vec_sub wA ct1 = .ok wS ∧
      vec_reduce wS = .ok wR ∧ vec_invntt_tomont wR = .ok wI ∧ vec_caddq wI = .ok wv ∧ wv.length = p.k ∧ (∀ a ∈ wv, Std a) ∧
      ∀ r, r < p.k → ∀ i, i < 256 →
        (El (wv.getD r []) i : K) = rowDot (mat.getD r []) z p.l i - ((8192 : Int) : K) * ce i * El (t1.getD r []) i := by
  have hq : Q = 8380417 := Q_val'
  obtain ⟨hl0, hl7, hk0, hk8, _⟩ := params_facts p hp
  obtain ⟨zh, e1, r1⟩ := vec_ntt_sem MK B hB0 (by rw [hq] at hBQ ⊢; omega) z hz
  have hzhl : zh.length = p.l := by rw [r1.length, hzl]
  have hzh9 : ∀ a ∈ zh, PolyOK (9 * Q) a := r1.right (fun _ _ h => h.1.mono (by rw [hq] at hBQ ⊢; omega))
  obtain ⟨wA, e2, r2⟩ := matrix_sem MK mat zh (by rw [hzhl]; exact hl0) (by rw [hzhl]; omega)
    (fun row hrow => ⟨by rw [(hmat.2 row hrow).1, hzhl], fun a ha => (Std.polyOK ((hmat.2 row hrow).2 a ha)).mono (by rw [hq]; omega)⟩) hzh9
  -- t1·2^13
  have hsh : ∀ a ∈ vec_shiftl t1, PolyOK Q a := by
    intro a ha
    obtain ⟨b, hb, rfl⟩ := List.mem_map.mp ha
    exact (poly_shiftl_sem b (ht1 b hb)).1
  obtain ⟨t1h, e3, r3⟩ := vec_ntt_sem MK Q (by rw [hq]; omega) (by rw [hq]; omega) (vec_shiftl t1) hsh
  obtain ⟨ct1, e4, r4⟩ := vec_pointwise_poly_sem MK cph hc9 t1h (r3.right (fun _ _ h => h.1.mono (by rw [hq]; omega)))
  have hlen_t1h : t1h.length = p.k := by rw [r3.length]; unfold vec_shiftl; rw [List.length_map, ht1l]
  obtain ⟨wS, e5, r5⟩ := vec_sub_sem (R := K) (8 * Q) Q (by rw [hq]; omega) wA ct1 (by rw [r2.length, r4.length, hlen_t1h, hmat.1])
    (r2.right (fun _ _ h => h.1)) (r4.right (fun _ _ h => h.1))
  obtain ⟨wR, e6, r6⟩ := vec_reduce_sem MK wS (r5.out (fun _ _ _ h => h.1.mono (by rw [hq]; omega)))
  obtain ⟨wI, e7, r7⟩ := vec_invntt_sem MK wR (r6.right (fun _ _ h => h.1.mono (by rw [hq]; omega)))
  obtain ⟨wv, e8, r8⟩ := vec_caddq_sem MK wI (r7.right (fun _ _ h => h.1))
  have hwAl : wA.length = p.k := by rw [r2.length, hmat.1]
  have hwSl : wS.length = p.k := by rw [r5.length.2, hwAl]
  refine ⟨zh, wA, t1h, ct1, wS, wR, wI, wv, e1, e2, e3, e4, e5, e6, e7, e8, ?_, r8.right (fun _ _ h => h.1), ?_⟩
  · rw [r8.length, r7.length, r6.length, hwSl]
  · intro r hr i hi
    have hrm : r < mat.length := by rw [hmat.1]; exact hr
    have f2 := r2.getD [] [] r hrm
    have f3 := r3.getD [] [] r (by unfold vec_shiftl; rw [List.length_map, ht1l]; exact hr)
    have f4 := r4.getD [] [] r (by rw [hlen_t1h]; exact hr)
    have f5 := r5.getD [] [] [] r (by rw [hwAl]; exact hr)
    have f6 := r6.getD [] [] r (by rw [hwSl]; exact hr)
    have f7 := r7.getD [] [] r (by rw [r6.length, hwSl]; exact hr)
    have f8 := r8.getD [] [] r (by rw [r7.length, r6.length, hwSl]; exact hr)
    have hrow := hmat.2 (mat.getD r []) (by rw [List.getD_eq_getElem?_getD, List.getElem?_eq_getElem hrm]; simp)
    have hsh_r : (vec_shiftl t1).getD r [] = poly_shiftl (t1.getD r []) := by
      unfold vec_shiftl
      rw [List.getD_eq_getElem?_getD, List.getD_eq_getElem?_getD, List.getElem?_map]
      have : r < t1.length := by rw [ht1l]; exact hr
      rw [List.getElem?_eq_getElem this]; rfl
    have ht1r : T1OK (t1.getD r []) := ht1 _ (by
      have : r < t1.length := by rw [ht1l]; exact hr
      rw [List.getD_eq_getElem?_getD, List.getElem?_eq_getElem this]; simp)
    have hsub : (Vl (wS.getD r []) i : K) = Vl (wA.getD r []) i - Vl (ct1.getD r []) i :=
      Vl_sub _ _ _ f5.2 i (by rw [f2.1.1]; exact hi) (by rw [f4.1.1]; exact hi)
    rw [El_congr _ _ f8.2 i, f7.2 i hi, Vl_congr _ _ f6.2 i, hsub, f2.2 i hi, f4.2 i hi, hce i hi, f3.2 i hi, hsh_r]
    rw [dotV_rowDot (mat.getD r []) z zh i hi (by rw [hrow.1, hzhl]) (r1.mono (fun _ _ h => h.2)), hrow.1]
    have hE : (El (poly_shiftl (t1.getD r [])) i : K) = ((8192 : Int) : K) * El (t1.getD r []) i := by
      unfold El; rw [(poly_shiftl_sem _ ht1r).2, Ev_smul]
    rw [hE]
    have hu : MK.u * ((4294967296 : Int) : K) = 1 := MK.hu
    calc ((4294967296 : Int) : K) * (MK.u * rowDot (mat.getD r []) z p.l i - MK.u * ce i * (((8192 : Int) : K) * El (t1.getD r []) i))
        = (MK.u * ((4294967296 : Int) : K)) * (rowDot (mat.getD r []) z p.l i - ((8192 : Int) : K) * ce i * El (t1.getD r []) i) := by ring
      _ = rowDot (mat.getD r []) z p.l i - ((8192 : Int) : K) * ce i * El (t1.getD r []) i := by rw [hu, one_mul]

end DV.Complete
