import DilithiumVerif.Lemmas.VerifySpec
import DilithiumVerif.Lemmas.KeygenSpec
import DilithiumVerif.Lemmas.SampleInBall
import DilithiumVerif.Lemmas.DecodeSpec
import DilithiumVerif.Lemmas.HintDecode
/-
  Lemmas.VerifyFips — verification decides exactly as the specification: `verify … = true` iff the relation
  `IsAccepted` holds, where `IsAccepted p pk M σ` transcribes FIPS 204 Alg. 8 (ML-DSA.Verify_internal) / Dilithium 3.1
  Verify with specification-level objects only (pkDecode / sigDecode as the inverses of the bit-string encoders, ExpandA
  and SampleInBall as functions of the XOF streams, arithmetic in ℤ_q[X]/(X^256+1), UseHint, H = SHAKE-256).
-/
namespace DV.VerifyFips
open DV DV.NttSem DV.PolySem DV.VecSem DV.NttMul DV.NttZ DV.Ranges DV.Containers DV.Complete DV.XofSpec DV.EncodeSpec
  DV.BitSpec DV.HintCodec DV.KeygenSpec DV.SampleInBall DV.DecodeSpec DV.DecodeTotal

/-! ### μ and c̃ -/
/-- μ = H(tr ‖ M′, 64) -/
theorem compute_mu_spec (tr : List Nat) (msg : List Nat) : compute_mu tr tr.length msg = .ok (SHAKE256 (tr ++ msg) CRHBYTES) := by
  have := absorb2_spec tr msg CRHBYTES
  unfold compute_mu
  exact this

/-- c̃ = H(μ ‖ w1Encode(w1), λ/4) -/
theorem compute_ctilde_spec (p : Params) (mu w : List Nat) (hmu : mu.length = CRHBYTES) (hw : w.length = p.k * p.polyw1) :
    compute_ctilde p mu w = .ok (SHAKE256 (mu ++ w) p.ctilde) := by
  have := absorb2_spec mu w p.ctilde
  unfold compute_ctilde
  rw [← hmu, ← hw]
  exact this

/-! ### slicing -/
theorem slices_flatten {α} (m : Nat) : ∀ (k : Nat) (L : List α), L.length = k * m →
    (List.range k).flatMap (fun i => (L.drop (i * m)).take m) = L := by
  intro k
  induction k with
  | zero => intro L h; have : L = [] := List.eq_nil_of_length_eq_zero (by omega); subst this; rfl
  | succ k ih =>
    intro L h
    rw [List.range_succ_eq_map, List.flatMap_cons, List.flatMap_map]
    have := ih (L.drop m) (by rw [List.length_drop, h, Nat.succ_mul]; omega)
    have e : (fun i => ((L.drop m).drop (i * m)).take m) = (fun i => (L.drop ((i + 1) * m)).take m) := by
      funext i; rw [List.drop_drop, Nat.succ_mul]; congr 2; omega
    rw [e] at this
    simp only [Function.comp_def, Nat.zero_mul, List.drop_zero]
    rw [this, List.take_append_drop]

theorem All2.flatMap_eq {α β γ} {F : β → List γ} {G : α → List γ} {l : List α} {r : List β}
    (h : All2 (fun a b => F b = G a) l r) : r.flatMap F = l.flatMap G := by
  rw [List.flatMap_def, List.flatMap_def, All2.map_eq h]

/-- rows decoded from consecutive m-byte slices starting at offset a re-encode to those bytes -/
theorem decode_rows (L : List Nat) (a m k : Nat) (unpack : List Nat → Chk (List Int)) (enc : List Int → List Nat) (rows : List (List Int))
    (hdec : ∀ s y, unpack s = .ok y → m ≤ s.length → (∀ b ∈ s, b < 256) → enc y = s.take m)
    (hb : ∀ b ∈ L, b < 256) (hl : a + k * m ≤ L.length)
    (h : (forRange k fun i => do let s ← dropC L (a + i * m); unpack s) = .ok rows) :
    rows.flatMap enc = (L.drop a).take (k * m) := by
  unfold forRange at h
  have hrel := mapL_rel_ok (fun i => do let s ← dropC L (a + i * m); unpack s) (fun i => i < k)
    (fun i y => enc y = ((L.drop a).drop (i * m)).take m)
    (fun i y hi hy => by
      have hle : (i + 1) * m ≤ k * m := Nat.mul_le_mul_right _ (by omega)
      rw [Nat.succ_mul] at hle
      unfold dropC at hy
      rw [if_pos (by omega), ok_bind] at hy
      have := hdec _ y hy (by rw [List.length_drop]; omega) (fun b hb' => hb b (List.mem_of_mem_drop hb'))
      rw [this, List.drop_drop])
    (List.range k) rows (fun i hi => List.mem_range.mp hi) h
  rw [All2.flatMap_eq hrel]
  have := slices_flatten m k ((L.drop a).take (k * m)) (by rw [List.length_take, List.length_drop]; omega)
  rw [← this]
  apply flatMap_congr'
  intro i hi
  have hi' := List.mem_range.mp hi
  have hle : (i + 1) * m ≤ k * m := Nat.mul_le_mul_right _ (by omega)
  rw [Nat.succ_mul] at hle
  rw [List.drop_take, List.take_take, Nat.min_eq_left (by omega)]

/-! ### pkDecode and sigDecode are the inverses of pkEncode and sigEncode -/

/-- **pkDecode** (FIPS 204 Alg. 23): what `unpack_pk` returns on any byte string of the public-key length re-encodes to
    that string -/
theorem unpack_pk_spec (p : Params) (hp : p ∈ allParams) (pk : List Nat) (hpk : pk.length = p.pkBytes) (hb : ∀ b ∈ pk, b < 256)
    (rho : List Nat) (t1 : PolyVec) (h : unpack_pk p pk = .ok (rho, t1)) :
    rho.length = SEEDBYTES ∧ t1.length = p.k ∧ (∀ a ∈ t1, T1OK a) ∧ pk = pkEncode rho t1 := by
  obtain ⟨rho', t1', h', hrl, ht1l, ht1⟩ := unpack_pk_total p hp pk hpk
  rw [h] at h'; injection h' with e; injection e with e1 e2; subst e1; subst e2
  refine ⟨hrl, ht1l, ht1, ?_⟩
  have hf := pk_facts p hp
  unfold unpack_pk takeC at h
  rw [if_pos (by rw [hpk, hf]; omega), ok_bind] at h
  obtain ⟨rows, hrows, h⟩ := bind_eq_ok.mp h
  injection h with h; injection h with hr ht; subst hr; subst ht
  have := decode_rows pk SEEDBYTES POLYT1 p.k t1_unpack (fun t => simpleBitPack (t.map Int.toNat) 10) rows
    (fun s y hy hs hsb => by
      rw [t1_unpack_take s hs] at hy
      obtain ⟨r, hr, _, _, hsp⟩ := t1_unpack_spec (s.take POLYT1) (by rw [List.length_take, Nat.min_eq_left hs])
        (fun b hb' => hsb b (List.mem_of_mem_take hb'))
      rw [hy] at hr; injection hr with hr; subst hr
      exact hsp)
    hb (by rw [hpk, hf]) hrows
  unfold pkEncode
  rw [this]
  have e : p.k * POLYT1 = (pk.drop SEEDBYTES).length := by rw [List.length_drop, hpk, hf]; omega
  rw [e, List.take_length, List.take_append_drop]

/-- **sigDecode** (FIPS 204 Alg. 27) is strict: when `unpack_sig` accepts a string of the signature length, that string is
    sigEncode(c̃, z, h) of what it returns — z in range, h a 0/1 vector with at most ω ones, indices strictly increasing
    per polynomial, unused index bytes zero -/
theorem unpack_sig_spec (p : Params) (hp : p ∈ allParams) (sig : List Nat) (hsl : sig.length = p.sigBytes) (hb : ∀ b ∈ sig, b < 256)
    (ct : List Nat) (z h : PolyVec) (hu : unpack_sig p sig = .ok (true, ct, z, h)) :
    ct.length = p.ctilde ∧ z.length = p.l ∧ (∀ a ∈ z, a.length = 256 ∧ ∀ x ∈ a, -(gamma1Of p.lvl) < x ∧ x ≤ gamma1Of p.lvl) ∧
    h.length = p.k ∧ (∀ a ∈ h, Bits a) ∧ (idxOf h).length ≤ p.omega ∧ sig = sigEncode p.lvl p.omega ct z h := by
  obtain ⟨hpz, ho, hsb⟩ := sig_facts2 p hp
  obtain ⟨okv, c', z', h', hu', hcl, hzl, hz, hh⟩ := unpack_sig_total p hp sig hsl hb
  rw [hu] at hu'; injection hu' with e; injection e with e0 e; injection e with e1 e; injection e with e2 e3
  subst e0; subst e1; subst e2; subst e3
  obtain ⟨hhl, hhb⟩ := hh rfl
  unfold unpack_sig takeC sliceC at hu
  rw [if_pos (by rw [hsl, hsb]; omega), ok_bind] at hu
  obtain ⟨rows, hrows, hu⟩ := bind_eq_ok.mp hu
  simp only at hu
  rw [if_pos ⟨by omega, by rw [hsl, hsb]⟩, ok_bind] at hu
  obtain ⟨r, hr, hu⟩ := bind_eq_ok.mp hu
  cases r with
  | none => simp only at hu; injection hu with hu; injection hu with hu _; cases hu
  | some H =>
    simp only at hu
    injection hu with hu; injection hu with _ hu; injection hu with hct hu; injection hu with hze hhe
    subst hze; subst hhe
    have hzrows := decode_rows sig p.ctilde p.polyz p.l (z_unpack p.lvl) (fun a => bitPack a (gamma1Of p.lvl) (zBits p.lvl)) rows
      (fun s y hy hs hsb' => by
        rw [hpz] at hs ⊢
        rw [z_unpack_take p.lvl s hs] at hy
        obtain ⟨r, hr', _, _, hsp⟩ := z_unpack_spec p.lvl (s.take (polyzOf p.lvl)) (by rw [List.length_take, Nat.min_eq_left hs])
          (fun b hb' => hsb' b (List.mem_of_mem_take hb'))
        rw [hy] at hr'; injection hr' with hr'; subst hr'
        exact hsp)
      hb (by rw [hsl, hsb]; omega) hrows
    have e1 : p.ctilde + p.l * p.polyz + p.omega + p.k - (p.ctilde + p.l * p.polyz) = p.omega + p.k := by omega
    rw [e1] at hr
    have hhsl : ((sig.drop (p.ctilde + p.l * p.polyz)).take (p.omega + p.k)).length = p.omega + p.k := by
      rw [List.length_take, List.length_drop, hsl, hsb]; omega
    obtain ⟨_, _, hw, hcan⟩ := HintDecode.accepted_is_canonical p.omega ho _ p.k H hr hhsl
    refine ⟨hcl, hzl, hz, hhl, hhb, hw, ?_⟩
    unfold sigEncode hintBitPack
    rw [hzrows, ← hcan, ← hct]
    have e2 : sig = sig.take p.ctilde ++ ((sig.drop p.ctilde).take (p.l * p.polyz) ++ (sig.drop (p.ctilde + p.l * p.polyz))) := by
      rw [← List.drop_drop, List.take_append_drop, List.take_append_drop]
    have e3 : (sig.drop (p.ctilde + p.l * p.polyz)).take (p.omega + p.k) = sig.drop (p.ctilde + p.l * p.polyz) := by
      apply List.take_of_length_le
      rw [List.length_drop, hsl, hsb]; omega
    rw [e3, List.append_assoc]
    exact e2

/-! ### the early exits of `verify` -/

theorem verify_wrong_length (p : Params) (sig m pk : List Nat) (h : sig.length ≠ p.sigBytes) : verify p sig m pk = .ok false := by
  unfold verify verify_core
  rw [if_neg h]; rfl

theorem verify_rejected_decoding (p : Params) (sig m pk : List Nat) (hsl : sig.length = p.sigBytes) (rho : List Nat) (t1 : PolyVec)
    (hupk : unpack_pk p pk = .ok (rho, t1)) (c : List Nat) (z h : PolyVec) (husig : unpack_sig p sig = .ok (false, c, z, h)) :
    verify p sig m pk = .ok false := by
  unfold verify verify_core
  rw [if_pos hsl]
  simp only [bind_assoc]
  rw [hupk, ok_bind, husig, ok_bind]
  simp

abbrev Violates (p : Params) (z : PolyVec) : Prop := ∃ a ∈ z, ∃ x ∈ a, (p.gamma1 : Int) - p.beta ≤ C18.iabs x

theorem z_norm (p : Params) (hp : p ∈ allParams) (z : PolyVec)
    (hz : ∀ a ∈ z, a.length = 256 ∧ ∀ x ∈ a, -(gamma1Of p.lvl) < x ∧ x ≤ gamma1Of p.lvl) :
    vec_chknorm z ((p.gamma1 : Int) - p.beta) = .ok (if Violates p z then 1 else 0) := by
  obtain ⟨hl0, hl7, hk0, hk8, hg1, hg2, hg1u, hg1l, hb0, hbu, hg2u, hg2l⟩ := params_facts p hp
  have hq : Q = 8380417 := Q_val'
  exact C18.vec_chknorm_exact z ((p.gamma1 : Int) - p.beta)
    (fun a ha x hx => by have := (hz a ha).2 x hx; rw [← hg1] at this; omega) (by rw [hq]; omega)

theorem verify_norm_violation (p : Params) (hp : p ∈ allParams) (sig m pk : List Nat) (hsl : sig.length = p.sigBytes)
    (rho : List Nat) (t1 : PolyVec) (hupk : unpack_pk p pk = .ok (rho, t1)) (c : List Nat) (z h : PolyVec)
    (husig : unpack_sig p sig = .ok (true, c, z, h))
    (hz : ∀ a ∈ z, a.length = 256 ∧ ∀ x ∈ a, -(gamma1Of p.lvl) < x ∧ x ≤ gamma1Of p.lvl) (hv : Violates p z) :
    verify p sig m pk = .ok false := by
  unfold verify verify_core
  rw [if_pos hsl]
  simp only [bind_assoc]
  rw [hupk, ok_bind, husig, ok_bind]
  simp only [if_true]
  rw [z_norm p hp z hz, ok_bind, if_pos hv]
  simp

/-- when `verify` returns and the gates are passed, the two samplers returned -/
theorem verify_reaches_tail (p : Params) (hp : p ∈ allParams) (sig m pk : List Nat) (b : Bool) (hv : verify p sig m pk = .ok b)
    (hsl : sig.length = p.sigBytes)
    (rho : List Nat) (t1 : PolyVec) (hupk : unpack_pk p pk = .ok (rho, t1)) (c : List Nat) (z h : PolyVec)
    (husig : unpack_sig p sig = .ok (true, c, z, h))
    (hz : ∀ a ∈ z, a.length = 256 ∧ ∀ x ∈ a, -(gamma1Of p.lvl) < x ∧ x ≤ gamma1Of p.lvl) (hnv : ¬ Violates p z) :
    ∃ mat cp, matrix_expand p FUEL rho = .ok mat ∧ poly_challenge p FUEL c = .ok cp := by
  unfold verify at hv
  obtain ⟨core, hcore, _⟩ := bind_eq_ok.mp hv
  unfold verify_core at hcore
  rw [if_pos hsl] at hcore
  rw [hupk, ok_bind, husig, ok_bind] at hcore
  simp only [if_true] at hcore
  rw [z_norm p hp z hz, ok_bind, if_neg hnv] at hcore
  simp only [Int.lt_irrefl, if_false] at hcore
  obtain ⟨tb, htb, _⟩ := bind_eq_ok.mp hcore
  unfold verify_tail at htb
  obtain ⟨trh, _, htb⟩ := bind_eq_ok.mp htb
  obtain ⟨cp, hcp, htb⟩ := bind_eq_ok.mp htb
  obtain ⟨mat, hme, _⟩ := bind_eq_ok.mp htb
  exact ⟨mat, cp, hme, hcp⟩

/-! ### helper facts -/

theorem matrix_expand_isRejNTT (p : Params) (hp : p ∈ allParams) (rho : List Nat) (hrl : rho.length = SEEDBYTES) (mat : List PolyVec)
    (hme : matrix_expand p FUEL rho = .ok mat) :
    mat.length = p.k ∧ ∀ r, r < p.k → (mat.getD r []).length = p.l ∧ ∀ c, c < p.l → IsRejNTT (rho ++ [c, r]) ((mat.getD r []).getD c []) := by
  obtain ⟨_, _, hk8, hl7, _⟩ := small_params p hp
  unfold matrix_expand at hme
  obtain ⟨hml, hrows⟩ := forRange_getD p.k _ mat [] hme
  refine ⟨hml, fun r hr => ?_⟩
  obtain ⟨hrl', hent⟩ := forRange_getD p.l _ (mat.getD r []) [] (hrows r hr)
  refine ⟨hrl', fun c hc => ?_⟩
  have := poly_uniform_isRejNTT FUEL rho _ _ hrl (hent c hc)
  rw [nonce_bytes r c (by omega) (by omega)] at this
  exact this

theorem All3.functional {α β γ} {P : α → β → γ → Prop} (hf : ∀ a b c c', P a b c → P a b c' → c = c') :
    ∀ {l : List α} {m : List β} {r r' : List γ}, All3 P l m r → All3 P l m r' → r = r'
  | _, _, _, _, .nil, .nil => rfl
  | _, _, _, _, .cons h t, .cons h' t' => by rw [hf _ _ _ _ h h', All3.functional hf t t']

/-- two polynomials with coefficients in [0, q) that agree at the 256 roots are equal -/
theorem std_unique (a b : List Int) (ha : Std a) (hb : Std b) (h : ∀ i, i < 256 → (El a i : K) = El b i) : a = b := by
  have hq : Q = 8380417 := Q_val'
  have hc : (castL a : List K) = castL b := by
    apply Ev_inj MK
    · simp only [castL, List.length_map, ha.1]
    · simp only [castL, List.length_map, hb.1]
    · intro i hi; exact h i hi
  apply list_ext_getD 0 256 a b ha.1 hb.1
  intro j hj
  have := cong_of_castL _ _ hc j
  have r1 := ha.2 _ (getD_mem a j 0 (by rw [ha.1]; exact hj))
  have r2 := hb.2 _ (getD_mem b j 0 (by rw [hb.1]; exact hj))
  rw [hq] at r1 r2
  omega

/-- the UseHint relation produces high parts in [0, (q−1)/(2γ2)) -/
theorem usehint_range (lv : Lvl) (wv h w1 : PolyVec) (hw : ∀ a ∈ wv, Std a) (hh : ∀ a ∈ h, Bits a)
    (rel : All3 (fun a hp' x => All3 (fun v u y => y = Spec.UseHint (gamma2Of lv) u v) a hp' x) wv h w1) :
    ∀ a ∈ w1, a.length = 256 ∧ ∀ x ∈ a, 0 ≤ x ∧ x < w1Card lv := by
  obtain ⟨g2, g3, g5⟩ := DV.RoundSem.gamma2_vals
  intro a ha
  obtain ⟨r, hr, rfl⟩ := List.mem_iff_getElem.mp ha
  have hrl : r < wv.length := by rw [← rel.length.2]; exact hr
  have hrh : r < h.length := by rw [rel.length.1]; exact hrl
  have row := rel.getD [] [] [] r hrl
  have e : w1.getD r [] = w1[r] := by rw [List.getD_eq_getElem?_getD, List.getElem?_eq_getElem hr]; rfl
  rw [e] at row
  have hws := hw _ (getD_mem wv r [] hrl)
  have hhs := hh _ (getD_mem h r [] hrh)
  refine ⟨by rw [row.length.2, hws.1], fun x hx => ?_⟩
  obtain ⟨j, hj, rfl⟩ := List.mem_iff_getElem.mp hx
  have hjl : j < (wv.getD r []).length := by rw [← row.length.2]; exact hj
  have cell := row.getD 0 0 0 j hjl
  have e2 : (w1[r]).getD j 0 = (w1[r])[j] := by rw [List.getD_eq_getElem?_getD, List.getElem?_eq_getElem hj]; rfl
  rw [e2] at cell
  have hv := hws.2 _ (getD_mem (wv.getD r []) j 0 hjl)
  have hu := hhs.2 _ (getD_mem (h.getD r []) j 0 (by rw [hhs.1, ← hws.1]; exact hjl))
  rw [cell]
  cases lv with
  | l2 => rw [g2]; exact (C15.use_hint_eq_spec_88 _ _ hv hu).2
  | l3 => rw [g3]; exact (C15.use_hint_eq_spec_32 .l3 (Or.inl rfl) _ _ hv hu).2
  | l5 => rw [g5]; exact (C15.use_hint_eq_spec_32 .l5 (Or.inr rfl) _ _ hv hu).2

theorem pack_sig_none (p : Params) (buf ct : List Nat) (z h : PolyVec) (hct : ct.length = p.ctilde) (hbt : buf.take p.ctilde = ct) :
    pack_sig p buf none z h = pack_sig p buf (some ct) z h := by
  unfold pack_sig takeC
  split
  · rfl
  · simp only []
    rw [if_pos (Nat.le_of_eq hct.symm), List.take_of_length_le (Nat.le_of_eq hct), hbt]

/-! ### the specification of verification -/

/-- **ML-DSA.Verify_internal returns true** (FIPS 204 Alg. 8; Dilithium 3.1 Verify), as a relation on (pk, M′, σ):
    (ρ, t1) ← pkDecode(pk);  (c̃, z, h) ← sigDecode(σ) with h ≠ ⊥;  Â ← ExpandA(ρ);  tr ← H(pk);  μ ← H(tr ‖ M′, 64);
    c ← SampleInBall(c̃);  w′ ← NTT⁻¹(Â∘NTT(z) − NTT(c)∘NTT(t1·2^d)) with coefficients in [0, q);  w1′ ← UseHint(h, w′);
    ‖z‖∞ < γ1 − β  and  c̃ = H(μ ‖ w1Encode(w1′), λ/4). -/
def IsAccepted (p : Params) (pk m sig : List Nat) : Prop :=
  ∃ (rho : List Nat) (t1 : PolyVec) (ct : List Nat) (z h : PolyVec) (mat : List PolyVec) (cp : Poly) (wv w1 : PolyVec),
    (rho.length = SEEDBYTES ∧ t1.length = p.k ∧ (∀ a ∈ t1, T1OK a) ∧ pk = pkEncode rho t1) ∧
    (ct.length = p.ctilde ∧ z.length = p.l ∧ (∀ a ∈ z, a.length = 256 ∧ ∀ x ∈ a, -(gamma1Of p.lvl) < x ∧ x ≤ gamma1Of p.lvl) ∧
      h.length = p.k ∧ (∀ a ∈ h, Bits a) ∧ (idxOf h).length ≤ p.omega ∧ sig = sigEncode p.lvl p.omega ct z h) ∧
    (mat.length = p.k ∧ ∀ r, r < p.k → (mat.getD r []).length = p.l ∧
        ∀ c, c < p.l → IsRejNTT (rho ++ [c, r]) ((mat.getD r []).getD c [])) ∧
    IsSampleInBall p.tau ct cp ∧
    (wv.length = p.k ∧ (∀ a ∈ wv, Std a) ∧ ∀ r, r < p.k → ∀ i, i < 256 →
        (El (wv.getD r []) i : K) = rowDot (mat.getD r []) z p.l i - ((8192 : Int) : K) * El cp i * El (t1.getD r []) i) ∧
    All3 (fun a hp' x => All3 (fun v u y => y = Spec.UseHint (gamma2Of p.lvl) u v) a hp' x) wv h w1 ∧
    ¬ Violates p z ∧
    ct = SHAKE256 (SHAKE256 (SHAKE256 pk p.trBytes ++ m) CRHBYTES ++ w1Encode p.lvl w1) p.ctilde

theorem verify_facts : ∀ p ∈ allParams, p.polyw1 = polyw1Of p.lvl ∧ p.trBytes < R256 ∧ p.trBytes ≤ CRHBYTES := by decide

/-- the hash comparison at the end of `verify`, in the specification's terms -/
theorem verify_hash_step (p : Params) (hp : p ∈ allParams) (pk m : List Nat) (hpk : pk.length = p.pkBytes) (trh : List Nat)
    (htr : shake256 CRHBYTES p.trBytes pk p.pkBytes = .ok trh) (w1 : PolyVec) (hw1l : w1.length = p.k)
    (hw1 : ∀ a ∈ w1, a.length = 256 ∧ ∀ x ∈ a, 0 ≤ x ∧ x < w1Card p.lvl) (c : List Nat) :
    (compute_mu trh p.trBytes m >>= fun mu => compute_ctilde p mu (k_pack_w1 p.lvl w1) >>= fun c2 => (.ok (decide (c = c2)) : Chk Bool)) =
      .ok (decide (c = SHAKE256 (SHAKE256 (SHAKE256 pk p.trBytes ++ m) CRHBYTES ++ w1Encode p.lvl w1) p.ctilde)) := by
  obtain ⟨hpw, htrR, htrC⟩ := verify_facts p hp
  rw [← hpk, shake256_cap_spec CRHBYTES p.trBytes pk htrR htrC] at htr
  injection htr with htr
  have htl : trh.length = p.trBytes := by rw [← htr, SHAKE256_length]
  rw [← htl, compute_mu_spec trh m, ok_bind, htl,
    compute_ctilde_spec p _ _ (SHAKE256_length _ _) (by rw [k_pack_w1_length p.lvl w1 (fun a ha => (hw1 a ha).1), hw1l, hpw]), ok_bind,
    k_pack_w1_spec p.lvl w1 hw1, htr]

set_option maxHeartbeats 1600000 in
/-- accepted ⇒ the specification accepts -/
theorem verify_true_accepted (p : Params) (hp : p ∈ allParams) (sig m pk : List Nat) (hpk : pk.length = p.pkBytes)
    (hpb : ∀ b ∈ pk, b < 256) (hb : ∀ b ∈ sig, b < 256) (hv : verify p sig m pk = .ok true) : IsAccepted p pk m sig := by
  have hsl : sig.length = p.sigBytes := by
    by_cases h : sig.length = p.sigBytes
    · exact h
    · rw [verify_wrong_length p sig m pk h] at hv; injection hv with hv; cases hv
  obtain ⟨rho, t1, hupk, hrl, ht1l, ht1⟩ := unpack_pk_total p hp pk hpk
  obtain ⟨okv, c, z, h, husig, hcl, hzl, hz, hh⟩ := unpack_sig_total p hp sig hsl hb
  cases okv with
  | false => rw [verify_rejected_decoding p sig m pk hsl rho t1 hupk c z h husig] at hv; injection hv with hv; cases hv
  | true =>
    have hnv : ¬ Violates p z := fun hvio => by
      rw [verify_norm_violation p hp sig m pk hsl rho t1 hupk c z h husig hz hvio] at hv; injection hv with hv; cases hv
    obtain ⟨mat, cp, hme, hcp⟩ := verify_reaches_tail p hp sig m pk true hv hsl rho t1 hupk c z h husig hz hnv
    obtain ⟨trh, wv, w1, htr, hwvl, hwvstd, hwvE, rel, hdec⟩ := verify_decision p hp sig m pk hpk hsl hb rho t1 hupk mat hme c z h husig cp hcp
    obtain ⟨hhl, hhb⟩ := hh rfl
    have hw1r := usehint_range p.lvl wv h w1 hwvstd hhb rel
    have hw1l : w1.length = p.k := by rw [rel.length.2, hwvl]
    rw [if_neg hnv, verify_hash_step p hp pk m hpk trh htr w1 hw1l hw1r c] at hdec
    rw [hdec] at hv
    injection hv with hv
    simp only [decide_eq_true_eq] at hv
    exact ⟨rho, t1, c, z, h, mat, cp, wv, w1, unpack_pk_spec p hp pk hpk hpb rho t1 hupk,
      unpack_sig_spec p hp sig hsl hb c z h husig, matrix_expand_isRejNTT p hp rho hrl mat hme,
      poly_challenge_is_sampleInBall p FUEL c cp hcl hcp, ⟨hwvl, hwvstd, hwvE⟩, rel, hnv, hv⟩

set_option maxHeartbeats 1600000 in
/-- the specification accepts ⇒ `verify`, when it returns, returns true -/
theorem accepted_verify_true (p : Params) (hp : p ∈ allParams) (sig m pk : List Nat) (hpk : pk.length = p.pkBytes)
    (hb : ∀ b ∈ sig, b < 256) (b : Bool) (hv : verify p sig m pk = .ok b) (hacc : IsAccepted p pk m sig) : b = true := by
  obtain ⟨rho, t1, ct, z, h, smat, scp, swv, sw1, ⟨hrl, ht1l, ht1, hpkE⟩, ⟨hcl, hzl, hz, hhl, hhb, hw, hsigE⟩, hsmat, hscp,
    ⟨hswl, hsstd, hsE⟩, srel, hnv, hct⟩ := hacc
  -- decoding
  obtain ⟨pk', hpk', _, hupk'⟩ := unpack_pack_pk p rho t1 hrl ht1l ht1
  rw [pack_pk_spec p rho t1 hrl ht1] at hpk'; injection hpk' with hpk'
  rw [← hpk', ← hpkE] at hupk'
  obtain ⟨sig', hsig', hsl', husig'⟩ := unpack_pack_sig p hp ct z h hcl hzl hz hhl hhb hw
  obtain ⟨_, _, hcs, hsb⟩ := sig_facts p hp
  rw [pack_sig_none p _ ct z h hcl (by rw [List.take_append_of_le_length (Nat.le_of_eq hcl.symm), List.take_of_length_le (Nat.le_of_eq hcl)]),
    pack_sig_spec p hp _ ct z h (by rw [List.length_append, List.length_replicate, hcl]; omega) hcl hz hhl (fun a ha => (hhb a ha).1) hw] at hsig'
  injection hsig' with hsig'
  rw [← hsig', ← hsigE] at husig' hsl'
  -- the samplers of the model
  obtain ⟨mat, cp, hme, hcp⟩ := verify_reaches_tail p hp sig m pk b hv hsl' rho t1 hupk' ct z h husig' hz hnv
  obtain ⟨trh, wv, w1, htr, hwvl, hwvstd, hwvE, rel, hdec⟩ := verify_decision p hp sig m pk hpk hsl' hb rho t1 hupk' mat hme ct z h husig' cp hcp
  -- they are the specification's
  obtain ⟨hml, hmrows⟩ := matrix_expand_isRejNTT p hp rho hrl mat hme
  have em : mat = smat := by
    apply list_ext_getD [] p.k mat smat hml hsmat.1
    intro r hr
    apply list_ext_getD [] p.l _ _ (hmrows r hr).1 (hsmat.2 r hr).1
    intro c hc
    exact IsRejNTT_unique _ _ _ ((hmrows r hr).2 c hc) ((hsmat.2 r hr).2 c hc)
  have ec : cp = scp := IsSampleInBall_unique p.tau ct cp scp (poly_challenge_is_sampleInBall p FUEL ct cp hcl hcp) hscp
  subst em; subst ec
  have ew : wv = swv := by
    apply list_ext_getD [] p.k wv swv hwvl hswl
    intro r hr
    exact std_unique _ _ (hwvstd _ (getD_mem wv r [] (by rw [hwvl]; exact hr))) (hsstd _ (getD_mem swv r [] (by rw [hswl]; exact hr)))
      (fun i hi => by rw [hwvE r hr i hi, hsE r hr i hi])
  subst ew
  have inner : ∀ (a b c c' : List Int), All3 (fun v u y => y = Spec.UseHint (gamma2Of p.lvl) u v) a b c →
      All3 (fun v u y => y = Spec.UseHint (gamma2Of p.lvl) u v) a b c' → c = c' := fun a b c c' h1 h2 =>
    All3.functional (P := fun (v u y : Int) => y = Spec.UseHint (gamma2Of p.lvl) u v) (fun _ _ y y' e1 e2 => e1.trans e2.symm) h1 h2
  have ew1 : w1 = sw1 :=
    All3.functional (P := fun (a hp' x : List Int) => All3 (fun v u y => y = Spec.UseHint (gamma2Of p.lvl) u v) a hp' x) inner rel srel
  subst ew1
  have hw1r := usehint_range p.lvl wv h w1 hwvstd hhb rel
  have hw1l : w1.length = p.k := by rw [rel.length.2, hwvl]
  rw [if_neg hnv, verify_hash_step p hp pk m hpk trh htr w1 hw1l hw1r ct] at hdec
  rw [hdec] at hv
  injection hv with hv
  rw [← hv]
  simp only [decide_eq_true_eq]
  exact hct

/-- **Verification decides exactly as the specification**: for every public key of the standard length, every message
    and every byte string offered as a signature, if `verify` returns b then b = true exactly when FIPS 204 Alg. 8 /
    Dilithium 3.1 Verify accepts. -/
theorem verify_iff_accepted (p : Params) (hp : p ∈ allParams) (sig m pk : List Nat) (hpk : pk.length = p.pkBytes)
    (hpb : ∀ b ∈ pk, b < 256) (hb : ∀ b ∈ sig, b < 256) (b : Bool) (hv : verify p sig m pk = .ok b) :
    b = true ↔ IsAccepted p pk m sig :=
  ⟨fun hb' => by subst hb'; exact verify_true_accepted p hp sig m pk hpk hpb hb hv,
   fun hacc => accepted_verify_true p hp sig m pk hpk hb b hv hacc⟩

theorem keypair_pk_length (p : Params) (hp : p ∈ allParams) (seed : Option (List Nat)) (tape : Tape) (pk sk : List Nat) (tape' : Tape)
    (hk : keypair p seed tape = .ok (pk, sk, tape')) : pk.length = p.pkBytes := by
  unfold keypair at hk
  obtain ⟨⟨s, tp⟩, _, hk⟩ := bind_eq_ok.mp hk
  simp only at hk
  obtain ⟨⟨rho, key, s1, s2, t1, t0⟩, hcore, hk⟩ := bind_eq_ok.mp hk
  simp only at hk
  obtain ⟨pk0, hpk, hk⟩ := bind_eq_ok.mp hk
  obtain ⟨tr, _, hk⟩ := bind_eq_ok.mp hk
  obtain ⟨sk0, _, hk⟩ := bind_eq_ok.mp hk
  injection hk with hk; injection hk with hpk0 _
  subst hpk0
  obtain ⟨mat, _, kf⟩ := keygen_facts p hp _ rho key s1 s2 t1 t0 hcore
  obtain ⟨hrl, _⟩ := keygen_core_lengths p _ rho key s1 s2 t1 t0 hcore
  obtain ⟨pk', hpk', hl, _⟩ := unpack_pack_pk p rho t1 hrl kf.t1l kf.t1s
  rw [hpk] at hpk'; injection hpk' with hpk'; subst hpk'
  rw [hl, pk_facts p hp]

/-- **what the code signs, the specification verifies**: a signature returned by `signature` under a key from `keypair`
    is accepted by FIPS 204 Alg. 8 / Dilithium 3.1 Verify under the matching public key and message -/
theorem emitted_signature_spec_verifies (p : Params) (hp : p ∈ allParams) (seed : Option (List Nat)) (tape : Tape) (pk sk : List Nat) (tape' : Tape)
    (hk : keypair p seed tape = .ok (pk, sk, tape'))
    (fuel : Nat) (msg : List Nat) (randomized : Bool) (tape2 : Tape) (sig : List Nat) (tape3 : Tape)
    (hs : signature p fuel msg sk randomized tape2 = .ok (some sig, tape3))
    (hpb : ∀ b ∈ pk, b < 256) (hb : ∀ b ∈ sig, b < 256) : IsAccepted p pk msg sig := by
  have hv := (Complete.sign_then_verify p hp seed tape pk sk tape' hk fuel msg randomized tape2 sig tape3 hs).1
  exact verify_true_accepted p hp sig msg pk (keypair_pk_length p hp seed tape pk sk tape' hk) hpb hb hv

end DV.VerifyFips
