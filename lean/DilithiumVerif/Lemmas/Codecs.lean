import DilithiumVerif.Impl.PolyLvl
import DilithiumVerif.Lemmas.Bits
/-
  Lemmas.Codecs — group-level round trips of the eight coefficient codecs (faithful Impl forms).
-/
set_option linter.unusedSimpArgs false
set_option maxRecDepth 4000
namespace DV

theorem mapL_ok {α β} (f : α → Chk β) (g : α → β) (l : List α) (h : ∀ x ∈ l, f x = .ok (g x)) :
    mapL f l = .ok (l.map g) := by
  induction l with
  | nil => rfl
  | cons x xs ih =>
    unfold mapL
    rw [h x (List.mem_cons_self ..), ih (fun y hy => h y (List.mem_cons_of_mem _ hy))]
    rfl

/-! ### t1: 4 coefficients of 10 bits ↔ 5 bytes -/
theorem t1_group_roundtrip (c0 c1 c2 c3 : Int) (h0 : 0 ≤ c0 ∧ c0 < 1024) (h1 : 0 ≤ c1 ∧ c1 < 1024)
    (h2 : 0 ≤ c2 ∧ c2 < 1024) (h3 : 0 ≤ c3 ∧ c3 < 1024) :
    t1_unpack_group (t1_pack_group [c0, c1, c2, c3]) = [c0, c1, c2, c3] := by
  simp only [t1_pack_group, t1_unpack_group, asU8_or32, asU8_shl32]
  simp only [sar_eq, asU8, Int.reducePow, Int.pow_zero, Int.ediv_one]
  bits2arith
  simp only [List.cons.injEq, and_true]
  omega

theorem t1_group_length (c0 c1 c2 c3 : Int) : (t1_pack_group [c0, c1, c2, c3]).length = 5 := rfl

/-! ### t0: 8 coefficients in (−2^12, 2^12] ↔ 13 bytes -/
private theorem t0e0 (t0 t1 : Int) (h0 : 0 ≤ t0 ∧ t0 < 8192) (h1 : 0 ≤ t1 ∧ t1 < 8192) :
    ((t0 % 256).toNat + ((t0 / 256 % 256).toNat + (t1 * 32 % 256).toNat) * 256) % 8192 = t0.toNat := by omega
private theorem t0e1 (t0 t1 t2 : Int) (h0 : 0 ≤ t0 ∧ t0 < 8192) (h1 : 0 ≤ t1 ∧ t1 < 8192) (h2 : 0 ≤ t2 ∧ t2 < 8192) :
    (((t0 / 256 % 256).toNat + (t1 * 32 % 256).toNat) / 32 + (t1 / 8 % 256).toNat * 8 +
            ((t1 / 2048 % 256).toNat + (t2 * 4 % 256).toNat) * 2048) % 8192 = t1.toNat := by omega
private theorem t0e2 (t1 t2 t3 : Int) (h1 : 0 ≤ t1 ∧ t1 < 8192) (h2 : 0 ≤ t2 ∧ t2 < 8192) (h3 : 0 ≤ t3 ∧ t3 < 8192) :
    (((t1 / 2048 % 256).toNat + (t2 * 4 % 256).toNat) / 4 + ((t2 / 64 % 256).toNat + (t3 * 128 % 256).toNat) * 64) %
          8192 = t2.toNat := by omega
private theorem t0e3 (t2 t3 t4 : Int) (h2 : 0 ≤ t2 ∧ t2 < 8192) (h3 : 0 ≤ t3 ∧ t3 < 8192) (h4 : 0 ≤ t4 ∧ t4 < 8192) :
    (((t2 / 64 % 256).toNat + (t3 * 128 % 256).toNat) / 128 + (t3 / 2 % 256).toNat * 2 +
            ((t3 / 512 % 256).toNat + (t4 * 16 % 256).toNat) * 512) % 8192 = t3.toNat := by omega
private theorem t0e4 (t3 t4 t5 : Int) (h3 : 0 ≤ t3 ∧ t3 < 8192) (h4 : 0 ≤ t4 ∧ t4 < 8192) (h5 : 0 ≤ t5 ∧ t5 < 8192) :
    (((t3 / 512 % 256).toNat + (t4 * 16 % 256).toNat) / 16 + (t4 / 16 % 256).toNat * 16 +
            ((t4 / 4096 % 256).toNat + (t5 * 2 % 256).toNat) * 4096) % 8192 = t4.toNat := by omega
private theorem t0e5 (t4 t5 t6 : Int) (h4 : 0 ≤ t4 ∧ t4 < 8192) (h5 : 0 ≤ t5 ∧ t5 < 8192) (h6 : 0 ≤ t6 ∧ t6 < 8192) :
    (((t4 / 4096 % 256).toNat + (t5 * 2 % 256).toNat) / 2 +
            ((t5 / 128 % 256).toNat + (t6 * 64 % 256).toNat) * 128) % 8192 = t5.toNat := by omega
private theorem t0e6 (t5 t6 t7 : Int) (h5 : 0 ≤ t5 ∧ t5 < 8192) (h6 : 0 ≤ t6 ∧ t6 < 8192) (h7 : 0 ≤ t7 ∧ t7 < 8192) :
    (((t5 / 128 % 256).toNat + (t6 * 64 % 256).toNat) / 64 + (t6 / 4 % 256).toNat * 4 +
            ((t6 / 1024 % 256).toNat + (t7 * 8 % 256).toNat) * 1024) % 8192 = t6.toNat := by omega
private theorem t0e7 (t6 t7 : Int) (h6 : 0 ≤ t6 ∧ t6 < 8192) (h7 : 0 ≤ t7 ∧ t7 < 8192) :
    (((t6 / 1024 % 256).toNat + (t7 * 8 % 256).toNat) / 8 + (t7 / 32 % 256).toNat * 32) % 8192 = t7.toNat := by omega

theorem t0_group_roundtrip (c0 c1 c2 c3 c4 c5 c6 c7 : Int)
    (h0 : -4096 < c0 ∧ c0 ≤ 4096) (h1 : -4096 < c1 ∧ c1 ≤ 4096) (h2 : -4096 < c2 ∧ c2 ≤ 4096) (h3 : -4096 < c3 ∧ c3 ≤ 4096)
    (h4 : -4096 < c4 ∧ c4 ≤ 4096) (h5 : -4096 < c5 ∧ c5 ≤ 4096) (h6 : -4096 < c6 ∧ c6 ≤ 4096) (h7 : -4096 < c7 ∧ c7 ≤ 4096) :
    (t0_pack_group [c0, c1, c2, c3, c4, c5, c6, c7] >>= t0_unpack_group) = .ok [c0, c1, c2, c3, c4, c5, c6, c7] := by
  unfold t0_pack_group
  simp only [mapL, D_SHL]
  rw [sub32_ok _ c0 (by omega), sub32_ok _ c1 (by omega), sub32_ok _ c2 (by omega), sub32_ok _ c3 (by omega),
      sub32_ok _ c4 (by omega), sub32_ok _ c5 (by omega), sub32_ok _ c6 (by omega), sub32_ok _ c7 (by omega)]
  simp only [ok_bind]
  generalize ht0 : 4096 - c0 = t0
  generalize ht1 : 4096 - c1 = t1
  generalize ht2 : 4096 - c2 = t2
  generalize ht3 : 4096 - c3 = t3
  generalize ht4 : 4096 - c4 = t4
  generalize ht5 : 4096 - c5 = t5
  generalize ht6 : 4096 - c6 = t6
  generalize ht7 : 4096 - c7 = t7
  have b0 : 0 ≤ t0 ∧ t0 < 8192 := by omega
  have b1 : 0 ≤ t1 ∧ t1 < 8192 := by omega
  have b2 : 0 ≤ t2 ∧ t2 < 8192 := by omega
  have b3 : 0 ≤ t3 ∧ t3 < 8192 := by omega
  have b4 : 0 ≤ t4 ∧ t4 < 8192 := by omega
  have b5 : 0 ≤ t5 ∧ t5 < 8192 := by omega
  have b6 : 0 ≤ t6 ∧ t6 < 8192 := by omega
  have b7 : 0 ≤ t7 ∧ t7 < 8192 := by omega
  simp only [t0_unpack_group, asU8_shl32]
  simp only [sar_eq, asU8, Int.reducePow]
  bits2arith
  rw [t0e0 t0 t1 b0 b1, t0e1 t0 t1 t2 b0 b1 b2, t0e2 t1 t2 t3 b1 b2 b3, t0e3 t2 t3 t4 b2 b3 b4, t0e4 t3 t4 t5 b3 b4 b5,
      t0e5 t4 t5 t6 b4 b5 b6, t0e6 t5 t6 t7 b5 b6 b7, t0e7 t6 t7 b6 b7]
  simp only [mapL, D_SHL]
  rw [sub32_ok _ _ (by omega), sub32_ok _ _ (by omega), sub32_ok _ _ (by omega), sub32_ok _ _ (by omega),
      sub32_ok _ _ (by omega), sub32_ok _ _ (by omega), sub32_ok _ _ (by omega), sub32_ok _ _ (by omega)]
  simp only [ok_bind]
  congr 1
  simp only [List.cons.injEq, and_true]
  omega

end DV
