import DilithiumVerif.Lemmas.PolySem
import DilithiumVerif.Lemmas.VecSem
import DilithiumVerif.Lemmas.NttZ
import DilithiumVerif.Lemmas.ChallengeWeight
import DilithiumVerif.Lemmas.SignW
import Mathlib.Tactic.Ring
/-
  Lemmas.ConvBound — ‖c·s‖∞ ≤ τ·η: the product in ℤ[X]/(X^256+1) of a ternary polynomial with τ non-zero coefficients and a
  polynomial with coefficients in [−η, η] has coefficients of magnitude at most τ·η.  The product is written as
  c(X)·s = c_0·s + c'(X)·(X·s) with X·s the negacyclic shift, and shown to be the ring product at the 256 roots.
-/
namespace DV.ConvBound
open DV DV.NttAlg DV.NttSem DV.PolySem DV.VecSem DV.NttMul DV.NttZ DV.Ranges DV.Complete

variable {R : Type} [CommRing R]

/-- X·s in R[X]/(X^n + 1) on a coefficient list of length n -/
def shiftX (s : List R) : List R := (-(s.getLastD 0)) :: s.dropLast

theorem shiftX_length (s : List R) (h : s ≠ []) : (shiftX s).length = s.length := by
  unfold shiftX
  rw [List.length_cons, List.length_dropLast]
  have : 0 < s.length := List.length_pos_iff.mpr h
  omega

theorem peval_shiftX (s : List R) (n : Nat) (hn : s.length = n + 1) (x : R) (hx : x ^ (n + 1) = -1) :
    peval (shiftX s) x = x * peval s x := by
  have hne : s ≠ [] := by intro h; rw [h] at hn; cases hn
  have hs : s = s.dropLast ++ [s.getLast hne] := (List.dropLast_append_getLast hne).symm
  have hl : s.getLastD 0 = s.getLast hne := by
    rw [List.getLastD_eq_getLast?, List.getLast?_eq_some_getLast hne]; rfl
  unfold shiftX
  rw [peval_cons, hl]
  conv_rhs => rw [hs, peval_append]
  rw [List.length_dropLast, hn, Nat.add_sub_cancel]
  simp only [peval_cons, peval_nil, mul_zero, add_zero]
  have : x * (peval s.dropLast x + x ^ n * s.getLast hne) = x * peval s.dropLast x + x ^ (n + 1) * s.getLast hne := by ring
  rw [this, hx]; ring

/-- c(X)·s by Horner in c: c_0·s + c'(X)·(X·s) -/
def ncmul : List R → List R → List R
  | [], s => s.map (fun _ => 0)
  | c0 :: cs, s => List.zipWith (fun u v => u + v) (s.map (fun v => c0 * v)) (ncmul cs (shiftX s))

theorem ncmul_length : ∀ (c s : List R), s ≠ [] → (ncmul c s).length = s.length
  | [], s, _ => by simp [ncmul]
  | c0 :: cs, s, h => by
      have hsx : shiftX s ≠ [] := by unfold shiftX; simp
      simp only [ncmul, List.length_zipWith, List.length_map, ncmul_length cs (shiftX s) hsx, shiftX_length s h, Nat.min_self]

theorem peval_zeros (x : R) : ∀ (s : List R), peval (s.map (fun _ => (0 : R))) x = 0
  | [] => rfl
  | _ :: s => by simp only [List.map_cons, peval_cons, peval_zeros x s]; ring

theorem peval_ncmul (n : Nat) (x : R) (hx : x ^ (n + 1) = -1) : ∀ (c s : List R), s.length = n + 1 →
    peval (ncmul c s) x = peval c x * peval s x
  | [], s, _ => by simp only [ncmul, peval_zeros, peval_nil, zero_mul]
  | c0 :: cs, s, hs => by
      have hne : s ≠ [] := by intro h; rw [h] at hs; cases hs
      have hsx : shiftX s ≠ [] := by unfold shiftX; simp
      have hl : (shiftX s).length = n + 1 := by rw [shiftX_length s hne, hs]
      rw [ncmul, peval_zipWith_add x _ _ (by rw [List.length_map, ncmul_length cs _ hsx, hl, hs]),
        peval_map_mul, peval_ncmul n x hx cs (shiftX s) hl, peval_shiftX s n hs x hx, peval_cons]
      ring

/-! ### casting from ℤ -/
theorem castL_map_mul (c0 : Int) (s : List Int) : (castL (s.map (fun v => c0 * v)) : List R) = (castL s).map (fun v => ((c0 : Int) : R) * v) := by
  simp only [castL, List.map_map]
  apply List.map_congr_left; intro v _; simp

theorem castL_zipWith_add : ∀ (a b : List Int),
    (castL (List.zipWith (fun u v => u + v) a b) : List R) = List.zipWith (fun u v => u + v) (castL a) (castL b)
  | [], _ => by simp [castL]
  | _ :: _, [] => by simp [castL]
  | x :: xs, y :: ys => by
      have ih := castL_zipWith_add xs ys
      simp only [castL, List.zipWith_cons_cons, List.map_cons] at ih ⊢
      rw [ih]; simp

theorem castL_shiftX (s : List Int) : (castL (shiftX s) : List R) = shiftX (castL s) := by
  unfold shiftX castL
  rw [List.map_cons, List.map_dropLast]
  congr 1
  cases hs : s.getLast? with
  | none =>
    have : s = [] := List.getLast?_eq_none_iff.mp hs
    subst this; simp
  | some v =>
    rw [List.getLastD_eq_getLast?, List.getLastD_eq_getLast?, List.getLast?_map, hs]
    simp

theorem castL_ncmul : ∀ (c s : List Int), (castL (ncmul c s) : List R) = ncmul (castL c) (castL s)
  | [], s => by
      simp only [ncmul, castL, List.map_map, List.map_nil]
      apply List.map_congr_left; intro v _; simp
  | c0 :: cs, s => by
      have ih := castL_ncmul cs (shiftX s)
      rw [ncmul, castL_zipWith_add, castL_map_mul, ih, castL_shiftX]
      rfl

/-! ### the bound -/
theorem shiftX_bound (E : Int) (s : List Int) (h : ∀ x ∈ s, -E ≤ x ∧ x ≤ E) (hE : 0 ≤ E) : ∀ x ∈ shiftX s, -E ≤ x ∧ x ≤ E := by
  intro x hx
  unfold shiftX at hx
  rcases List.mem_cons.mp hx with rfl | hx
  · cases hs : s.getLast? with
    | none => rw [List.getLastD_eq_getLast?, hs]; simp; omega
    | some v =>
      rw [List.getLastD_eq_getLast?, hs]
      have := h v (List.mem_of_getLast? hs)
      simp only [Option.getD_some]; omega
  · exact h x (List.mem_of_mem_dropLast hx)

theorem zipWith_add_bound (A B : Int) : ∀ (a b : List Int), (∀ x ∈ a, -A ≤ x ∧ x ≤ A) → (∀ x ∈ b, -B ≤ x ∧ x ≤ B) →
    ∀ x ∈ List.zipWith (fun u v => u + v) a b, -(A + B) ≤ x ∧ x ≤ A + B
  | [], _, _, _ => by intro x hx; simp at hx
  | _ :: _, [], _, _ => by intro x hx; simp at hx
  | u :: us, v :: vs, ha, hb => by
      intro x hx
      rw [List.zipWith_cons_cons] at hx
      rcases List.mem_cons.mp hx with rfl | hx
      · have := ha u (List.mem_cons_self ..); have := hb v (List.mem_cons_self ..); omega
      · exact zipWith_add_bound A B us vs (fun y hy => ha y (List.mem_cons_of_mem _ hy)) (fun y hy => hb y (List.mem_cons_of_mem _ hy)) x hx

/-- ‖c·s‖∞ ≤ (number of non-zero coefficients of c)·η for ternary c -/
theorem ncmul_bound (E : Int) (hE : 0 ≤ E) : ∀ (c s : List Int), (∀ x ∈ c, x = -1 ∨ x = 0 ∨ x = 1) → (∀ x ∈ s, -E ≤ x ∧ x ≤ E) →
    ∀ x ∈ ncmul c s, -((nzCount c : Int) * E) ≤ x ∧ x ≤ (nzCount c : Int) * E
  | [], s, _, _ => by
      intro x hx
      simp only [ncmul, List.mem_map] at hx
      obtain ⟨_, _, rfl⟩ := hx
      simp [nzCount]
  | c0 :: cs, s, hc, hs => by
      intro x hx
      have ih := ncmul_bound E hE cs (shiftX s) (fun y hy => hc y (List.mem_cons_of_mem _ hy)) (shiftX_bound E s hs hE)
      have hc0 := hc c0 (List.mem_cons_self ..)
      have hfirst : ∀ y ∈ s.map (fun v => c0 * v), -((if c0 ≠ 0 then (1 : Int) else 0) * E) ≤ y ∧ y ≤ (if c0 ≠ 0 then (1 : Int) else 0) * E := by
        intro y hy
        obtain ⟨v, hv, rfl⟩ := List.mem_map.mp hy
        have := hs v hv
        rcases hc0 with rfl | rfl | rfl <;> simp <;> omega
      have := zipWith_add_bound _ _ _ _ hfirst ih x hx
      rw [nzCount_cons]
      by_cases h0 : c0 ≠ 0
      · simp only [h0, if_true, ne_eq, not_false_eq_true] at this ⊢
        push_cast
        have e : ((1 : Int) + (nzCount cs : Int)) * E = 1 * E + (nzCount cs : Int) * E := by ring
        rw [e]; exact this
      · simp only [h0, if_false] at this ⊢
        push_cast
        have e : ((0 : Int) + (nzCount cs : Int)) * E = 0 * E + (nzCount cs : Int) * E := by ring
        rw [e]; exact this

/-- **the product of a challenge with a short polynomial**: an integer polynomial T with ‖T‖∞ ≤ τ·η whose values at the
    256 roots are c(ζ_i)·s(ζ_i) -/
theorem small_product (c s : List Int) (hc : Tern c) (hsl : s.length = 256) (E : Int) (hE : 0 ≤ E) (hs : ∀ x ∈ s, -E ≤ x ∧ x ≤ E) :
    ∃ T : List Int, T.length = 256 ∧ (∀ x ∈ T, -((nzCount c : Int) * E) ≤ x ∧ x ≤ (nzCount c : Int) * E) ∧
      ∀ i, i < 256 → (El T i : K) = El c i * El s i := by
  have hne : s ≠ [] := by intro h; rw [h] at hsl; cases hsl
  refine ⟨ncmul c s, by rw [ncmul_length c s hne, hsl], ncmul_bound E hE c s hc.2 hs, fun i hi => ?_⟩
  unfold El Ev
  rw [castL_ncmul, peval_ncmul 255 (rho K i) (rho_pow MK i hi) (castL c) (castL s) (by simp [castL, hsl])]

end DV.ConvBound
