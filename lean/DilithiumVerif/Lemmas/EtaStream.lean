import DilithiumVerif.Lemmas.RejEta
import DilithiumVerif.Lemmas.SamplerTotal
/-
  Lemmas.EtaStream — `poly::uniform_eta` (RejBoundedPoly) is the half-byte rejection filter applied to the SHAKE-256 output
  stream: the first 256 accepted half-bytes (low nibble first) of the first 1 + t blocks, t the number of refills.
-/
namespace DV.EtaStream
open DV DV.ShakeTotal DV.SamplerTotal DV.ShakeSmall DV.Ranges

def optL (v : Option Int) : List Int := match v with | some x => [x] | none => []

/-- all accepted half-bytes of a byte string, low nibble first, mapped by CoeffFromHalfByte -/
def etaCands (lv : Lvl) : List Nat → List Int
  | b :: rest => optL (halfByte lv (b &&& 0x0F)) ++ optL (halfByte lv (b >>> 4)) ++ etaCands lv rest
  | [] => []

theorem etaCands_append (lv : Lvl) : ∀ (A B : List Nat), etaCands lv (A ++ B) = etaCands lv A ++ etaCands lv B
  | [], B => rfl
  | a :: A, B => by simp only [List.cons_append, etaCands, etaCands_append lv A B, List.append_assoc]

theorem etaStep_take (lv : Lvl) (alen b : Nat) (acc : List Int) (h : acc.length < alen) :
    etaStep lv alen b acc = acc ++ (optL (halfByte lv (b &&& 0x0F)) ++ optL (halfByte lv (b >>> 4))).take (alen - acc.length) := by
  obtain ⟨q, hq⟩ : ∃ q, alen - acc.length = q + 1 := ⟨alen - acc.length - 1, by omega⟩
  unfold etaStep
  cases h0 : halfByte lv (b &&& 0x0F) with
  | none =>
    cases h1 : halfByte lv (b >>> 4) with
    | none => simp [pushOpt, optL, h]
    | some y => simp [pushOpt, optL, h, hq]
  | some x =>
    cases h1 : halfByte lv (b >>> 4) with
    | none => simp [pushOpt, optL, hq]
    | some y =>
      simp only [pushOpt, optL, List.length_append, List.length_singleton, List.singleton_append, hq]
      by_cases h2 : acc.length + 1 < alen
      · rw [if_pos h2]
        obtain ⟨q', hq'⟩ : ∃ q', q = q' + 1 := ⟨q - 1, by omega⟩
        rw [hq']; simp
      · rw [if_neg h2]
        have : q = 0 := by omega
        rw [this]; simp

theorem etaSpec_cands (lv : Lvl) (alen : Nat) : ∀ (l : List Nat) (acc : List Int), acc.length ≤ alen →
    etaSpec lv alen l acc = acc ++ (etaCands lv l).take (alen - acc.length)
  | [], acc, _ => by simp [etaSpec, etaCands]
  | b :: rest, acc, hle => by
      unfold etaSpec
      by_cases h : acc.length < alen
      · rw [if_pos h]
        have hs := etaStep_take lv alen b acc h
        have hlen : (etaStep lv alen b acc).length ≤ alen := by
          rw [hs, List.length_append, List.length_take]; omega
        rw [etaSpec_cands lv alen rest _ hlen, hs, List.append_assoc]
        congr 1
        simp only [etaCands]
        rw [List.take_append (l₁ := optL (halfByte lv (b &&& 0x0F)) ++ optL (halfByte lv (b >>> 4)))]
        congr 2
        rw [List.length_append, List.length_take]
        omega
      · rw [if_neg h]
        have : alen - acc.length = 0 := by omega
        rw [this, List.take_zero, List.append_nil]

end DV.EtaStream
