import DilithiumVerif.Lemmas.RejEta
import DilithiumVerif.Lemmas.SamplerTotal
/-
  Lemmas.EtaStream — `poly::uniform_eta` (RejBoundedPoly) is the half-byte rejection filter applied to the SHAKE-256 output
  stream: the first 256 accepted half-bytes (low nibble first) of the first 1 + t blocks, t the number of refills.
-/
namespace DV.EtaStream
open DV DV.ShakeTotal DV.SamplerTotal DV.ShakeSmall DV.Ranges

def optL (v : Option Int) : List Int := match v with | some x => [x] | none => []

/-- all accepted half-bytes of a byte string, low nibble first, mapped by CoeffFromHalfByte -/
def etaCands (lv : Lvl) : List Nat → List Int
  | b :: rest => optL (halfByte lv (b &&& 0x0F)) ++ optL (halfByte lv (b >>> 4)) ++ etaCands lv rest
  | [] => []

theorem etaCands_append (lv : Lvl) : ∀ (A B : List Nat), etaCands lv (A ++ B) = etaCands lv A ++ etaCands lv B
  | [], B => rfl
  | a :: A, B => by simp only [List.cons_append, etaCands, etaCands_append lv A B, List.append_assoc]

theorem etaStep_take (lv : Lvl) (alen b : Nat) (acc : List Int) (h : acc.length < alen) :
    etaStep lv alen b acc = acc ++ (optL (halfByte lv (b &&& 0x0F)) ++ optL (halfByte lv (b >>> 4))).take (alen - acc.length) := by
  obtain ⟨q, hq⟩ : ∃ q, alen - acc.length = q + 1 := ⟨alen - acc.length - 1, by omega⟩
  unfold etaStep
  cases h0 : halfByte lv (b &&& 0x0F) with
  | none =>
    cases h1 : halfByte lv (b >>> 4) with
    | none => simp [pushOpt, optL, h]
    | some y => simp [pushOpt, optL, h, hq]
  | some x =>
    cases h1 : halfByte lv (b >>> 4) with
    | none => simp [pushOpt, optL, hq]
    | some y =>
      simp only [pushOpt, optL, List.length_append, List.length_singleton, List.singleton_append, hq]
      by_cases h2 : acc.length + 1 < alen
      · rw [if_pos h2]
        obtain ⟨q', hq'⟩ : ∃ q', q = q' + 1 := ⟨q - 1, by omega⟩
        rw [hq']; simp
      · rw [if_neg h2]
        have : q = 0 := by omega
        rw [this]; simp

theorem etaSpec_cands (lv : Lvl) (alen : Nat) : ∀ (l : List Nat) (acc : List Int), acc.length ≤ alen →
    etaSpec lv alen l acc = acc ++ (etaCands lv l).take (alen - acc.length)
  | [], acc, _ => by simp [etaSpec, etaCands]
  | b :: rest, acc, hle => by
      unfold etaSpec
      by_cases h : acc.length < alen
      · rw [if_pos h]
        have hs := etaStep_take lv alen b acc h
        have hlen : (etaStep lv alen b acc).length ≤ alen := by
          rw [hs, List.length_append, List.length_take]; omega
        rw [etaSpec_cands lv alen rest _ hlen, hs, List.append_assoc]
        congr 1
        simp only [etaCands]
        rw [List.take_append (l₁ := optL (halfByte lv (b &&& 0x0F)) ++ optL (halfByte lv (b >>> 4)))]
        congr 2
        rw [List.length_append, List.length_take]
        omega
      · rw [if_neg h]
        have : alen - acc.length = 0 := by omega
        rw [this, List.take_zero, List.append_nil]

end DV.EtaStream

namespace DV.EtaStream
open DV DV.ShakeTotal DV.SamplerTotal DV.ShakeSmall DV.Ranges

def streamOf (f : Lanes → Lanes) (r : Nat) (s : Lanes) (n : Nat) : List Nat := (keccak_squeezeblocks_loop f r n [] s).1
def afterOf (f : Lanes → Lanes) (r : Nat) (s : Lanes) (n : Nat) : Lanes := (keccak_squeezeblocks_loop f r n [] s).2

theorem loop_acc (f : Lanes → Lanes) (r : Nat) : ∀ (n : Nat) (acc : List Nat) (s : Lanes),
    keccak_squeezeblocks_loop f r n acc s = (acc ++ streamOf f r s n, afterOf f r s n) := by
  intro n
  induction n with
  | zero => intro acc s; simp [keccak_squeezeblocks_loop, streamOf, afterOf]
  | succ n ih =>
    intro acc s
    unfold streamOf afterOf
    unfold keccak_squeezeblocks_loop
    simp only [List.nil_append]
    rw [ih (acc ++ _), ih (List.map _ _)]
    simp only [List.append_assoc]

theorem stream_one_add (f : Lanes → Lanes) (r : Nat) (s : Lanes) (k : Nat) :
    streamOf f r s (k + 1) = streamOf f r s 1 ++ streamOf f r (afterOf f r s 1) k := by
  have e1 : keccak_squeezeblocks_loop f r (k + 1) [] s =
      keccak_squeezeblocks_loop f r k ([] ++ (List.range (8 * (r / 8))).map (fun j => getByte (f s) j)) (f s) := by
    rw [keccak_squeezeblocks_loop]
  have e2 : keccak_squeezeblocks_loop f r 1 [] s = ([] ++ (List.range (8 * (r / 8))).map (fun j => getByte (f s) j), f s) := by
    rw [keccak_squeezeblocks_loop, keccak_squeezeblocks_loop]
  unfold streamOf afterOf
  rw [e1, e2, loop_acc]
  rfl

def stream256 (s : Lanes) (n : Nat) : List Nat := streamOf keccakf R256 s n
def after256 (s : Lanes) (n : Nat) : Lanes := afterOf keccakf R256 s n

theorem stream256_len (s : Lanes) (n : Nat) : (stream256 s n).length = n * R256 := by
  unfold stream256 streamOf
  rw [squeezeblocks_loop_eq keccakf R256 (by decide) (by decide) n [] s]
  simp only [List.nil_append]
  exact squeezeSpec_length keccakf R256 (by decide) (n * R256) s R256 (Nat.le_refl _)

theorem sq_blocks256 (cap n : Nat) (st : KeccakState) (hc : n * R256 ≤ cap) :
    shake256_squeezeblocks cap n st = .ok (stream256 st.s n, { st with s := after256 st.s n }) := by
  have hr : R256 = 136 := by decide
  have hcond : n = 0 ∨ (n - 1) * R256 + 8 * (R256 / 8) ≤ cap := by
    by_cases h0 : n = 0
    · exact Or.inl h0
    · right
      have e8 : 8 * (R256 / 8) = R256 := by rw [hr]
      rw [e8]
      have : (n - 1) * R256 + R256 = n * R256 := by
        obtain ⟨m, rfl⟩ : ∃ m, n = m + 1 := ⟨n - 1, by omega⟩
        rw [Nat.add_sub_cancel, Nat.succ_mul]
      omega
  unfold shake256_squeezeblocks keccak_squeezeblocks
  rw [if_pos hcond]; rfl

theorem stream256_zero (s : Lanes) : stream256 s 0 = [] := by
  unfold stream256 streamOf; rw [keccak_squeezeblocks_loop]

theorem block_filter (lv : Lvl) (q : Nat) (blk : List Nat) (hl : blk.length = R256) :
    rej_eta lv q q blk R256 = .ok ((etaCands lv blk).take q) := by
  rw [rej_eta_eq lv q blk R256 (by rw [hl]; exact Nat.le_refl _), etaSpec_cands lv q _ [] (Nat.zero_le _)]
  have : blk.take R256 = blk := List.take_of_length_le (by rw [hl]; exact Nat.le_refl _)
  rw [this, List.nil_append, List.length_nil, Nat.sub_zero]

theorem uniform_eta_loop_stream (lv : Lvl) : ∀ (fuel : Nat) (st : KeccakState) (acc r : List Int),
    acc.length ≤ N → uniform_eta_loop lv fuel st acc = .ok r →
    ∃ t, r = acc ++ (etaCands lv (stream256 st.s t)).take (N - acc.length) := by
  have hNB : UNIFORM_ETA_NBLOCKS = 1 := by decide
  have hR : R256 = 136 := by decide
  intro fuel
  induction fuel with
  | zero => intro st acc r _ h; simp [uniform_eta_loop] at h
  | succ n ih =>
    intro st acc r hacc h
    unfold uniform_eta_loop at h
    by_cases hlt : acc.length < N
    · rw [if_pos hlt] at h
      rw [sq_blocks256 (UNIFORM_ETA_NBLOCKS * R256) 1 st (by rw [hNB]; omega), ok_bind] at h
      simp only at h
      have hs1 : (stream256 st.s 1).length = R256 := by rw [stream256_len]; omega
      rw [block_filter lv _ _ hs1, ok_bind] at h
      obtain ⟨t, ht⟩ := ih { st with s := after256 st.s 1 } _ r (by rw [List.length_append, List.length_take]; omega) h
      refine ⟨t + 1, ?_⟩
      have hsplit : stream256 st.s (t + 1) = stream256 st.s 1 ++ stream256 (after256 st.s 1) t := stream_one_add keccakf R256 st.s t
      have e : N - (acc ++ List.take (N - acc.length) (etaCands lv (stream256 st.s 1))).length
          = N - acc.length - (etaCands lv (stream256 st.s 1)).length := by
        rw [List.length_append, List.length_take]; omega
      rw [ht, hsplit, etaCands_append, List.append_assoc, e, List.take_append]
    · rw [if_neg hlt] at h
      injection h with h; subst h
      refine ⟨0, ?_⟩
      rw [stream256_zero]
      simp [etaCands]

/-- **RejBoundedPoly** (FIPS 204 Alg. 31 / the Dilithium secret sampler): `poly::uniform_eta(ρ′, nonce)` is the first 256
    accepted half-bytes (low nibble first, CoeffFromHalfByte) of the SHAKE-256 stream of ρ′ ‖ nonce; 1 + t blocks are
    read, t the number of refills the loop needed. -/
theorem poly_uniform_eta_is_stream_filter (lv : Lvl) (fuel : Nat) (seed : List Nat) (nonce : Nat) (r : List Int)
    (h : poly_uniform_eta lv fuel seed nonce = .ok r) :
    ∃ st t, shake256_stream_init seed nonce = .ok st ∧ r = (etaCands lv (stream256 st.s (1 + t))).take 256 ∧ r.length = 256 := by
  have hNB : UNIFORM_ETA_NBLOCKS = 1 := by decide
  have hN : N = 256 := by decide
  have hlen := (poly_uniform_eta_small lv fuel seed nonce r h).1
  unfold poly_uniform_eta at h
  obtain ⟨st, hst, h⟩ := bind_eq_ok.mp h
  rw [hNB, sq_blocks256 (1 * R256) 1 st (Nat.le_refl _), ok_bind] at h
  simp only at h
  have hs1 : (stream256 st.s 1).length = R256 := by rw [stream256_len]; omega
  have e1 : 1 * R256 = R256 := Nat.one_mul _
  rw [e1, block_filter lv _ _ hs1, ok_bind] at h
  obtain ⟨t, ht⟩ := uniform_eta_loop_stream lv fuel { st with s := after256 st.s 1 } _ r (by rw [List.length_take]; omega) h
  refine ⟨st, t, hst, ?_, hlen⟩
  have hsplit : stream256 st.s (1 + t) = stream256 st.s 1 ++ stream256 (after256 st.s 1) t := by
    rw [Nat.add_comm]; exact stream_one_add keccakf R256 st.s t
  have e : N - (List.take N (etaCands lv (stream256 st.s 1))).length = N - (etaCands lv (stream256 st.s 1)).length := by
    rw [List.length_take]; omega
  rw [ht, hsplit, etaCands_append, e, ← List.take_append, hN]

end DV.EtaStream
