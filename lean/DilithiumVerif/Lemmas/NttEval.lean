import DilithiumVerif.Lemmas.NttSem
/-
  Lemmas.NttEval — the forward NTT of the model evaluates the input polynomial at the 256 odd powers of 1753
  (bit-reversed order), in every commutative ring where q = 0 and 2^32 is invertible.
  Table facts about ZETAS (regenerated from ntt.rs) are checked by the kernel (`decide +kernel`).
-/
namespace DV.NttEval
open DV DV.NttAlg DV.NttSem

def q : Int := 8380417
def zm (k : Nat) : Int := zeta k

/-- bit reversal of an 8-bit index -/
def brv8 (i : Nat) : Nat :=
  (i % 2) * 128 + (i / 2 % 2) * 64 + (i / 4 % 2) * 32 + (i / 8 % 2) * 16 + (i / 16 % 2) * 8 + (i / 32 % 2) * 4 + (i / 64 % 2) * 2 + (i / 128 % 2)

def allBelow (n : Nat) (p : Nat → Bool) : Bool := (List.range n).all p

theorem allBelow_spec (n : Nat) (p : Nat → Bool) (h : allBelow n p = true) (k : Nat) (hk : k < n) : p k = true := by
  unfold allBelow at h
  rw [List.all_eq_true] at h
  exact h k (List.mem_range.mpr hk)

/-! kernel-checked table facts (R32 := 2^32 mod q = 4193792) -/
theorem fact_root : (zm 1 * zm 1 + 4193792 * 4193792) % q = 0 := by decide +kernel
theorem fact_even : allBelow 128 (fun k => k == 0 || decide ((zm (2 * k) * zm (2 * k) - zm k * 4193792) % q = 0)) = true := by
  decide +kernel
theorem fact_odd : allBelow 128 (fun k => k == 0 || decide ((zm (2 * k + 1) * zm (2 * k + 1) + zm k * 4193792) % q = 0)) = true := by
  decide +kernel
/-- leaf roots: ±ZETAS[128 + i/2] ≡ 1753^(2·brv8(i)+1)·2^32 (mod q) -/
theorem fact_leaf : allBelow 256 (fun i => decide (((if i % 2 = 0 then zm (128 + i / 2) else - zm (128 + i / 2))
    - (1753 : Int) ^ (2 * brv8 i + 1) * 4193792) % q = 0)) = true := by
  decide +kernel
theorem fact_r32 : ((4294967296 : Int) - 4193792) % q = 0 := by decide

variable {R : Type} [CommRing R]

theorem r32_cast (M : ModQ R) : ((4193792 : Int) : R) = ((4294967296 : Int) : R) := by
  have := cast_of_dvd M _ fact_r32
  rw [Int.cast_sub] at this
  exact (sub_eq_zero.mp this).symm

theorem u_r32 (M : ModQ R) : M.u * ((4193792 : Int) : R) = 1 := by rw [r32_cast M, M.hu]

/-- the root attached to node k: r 1 = −1, r (2k) = ζ_k, r (2k+1) = −ζ_k -/
def rR (M : ModQ R) (k : Nat) : R :=
  if k = 1 then -1 else if k % 2 = 0 then zR M (k / 2) else - zR M (k / 2)

theorem zR_sq_of (M : ModQ R) (a b : Int) (h : (a * a - b * 4193792) % q = 0) :
    (((a : Int) : R) * M.u) ^ 2 = ((b : Int) : R) * M.u := by
  have h0 := cast_of_dvd M _ h
  rw [Int.cast_sub, Int.cast_mul, Int.cast_mul] at h0
  have h1 : ((a : Int) : R) * ((a : Int) : R) = ((b : Int) : R) * ((4193792 : Int) : R) := sub_eq_zero.mp h0
  calc (((a : Int) : R) * M.u) ^ 2 = (((a : Int) : R) * ((a : Int) : R)) * (M.u * M.u) := by ring
    _ = ((b : Int) : R) * (M.u * ((4193792 : Int) : R)) * M.u := by rw [h1]; ring
    _ = ((b : Int) : R) * M.u := by rw [u_r32 M]; ring

theorem zR_sq_neg_of (M : ModQ R) (a b : Int) (h : (a * a + b * 4193792) % q = 0) :
    (((a : Int) : R) * M.u) ^ 2 = - (((b : Int) : R) * M.u) := by
  have h0 := cast_of_dvd M _ h
  rw [Int.cast_add, Int.cast_mul, Int.cast_mul] at h0
  have h1 : ((a : Int) : R) * ((a : Int) : R) = - (((b : Int) : R) * ((4193792 : Int) : R)) := eq_neg_of_add_eq_zero_left h0
  calc (((a : Int) : R) * M.u) ^ 2 = (((a : Int) : R) * ((a : Int) : R)) * (M.u * M.u) := by ring
    _ = - (((b : Int) : R) * (M.u * ((4193792 : Int) : R)) * M.u) := by rw [h1]; ring
    _ = - (((b : Int) : R) * M.u) := by rw [u_r32 M]; ring

/-- the zeta tree of the code's table -/
theorem tree (M : ModQ R) : Tree (rR M) (zR M) 8 where
  hl := by
    intro k hk
    unfold rR
    rw [if_neg (by omega), if_pos (by omega)]
    congr 1; omega
  hr := by
    intro k hk
    unfold rR
    rw [if_neg (by omega), if_neg (by omega)]
    congr 2; omega
  hz := by
    intro k hk
    have hk' : k < 256 := by simpa using hk
    unfold rR
    by_cases h1 : k = 1
    · subst h1
      simp only [if_true]
      have := zR_sq_neg_of M (zm 1) 4193792 (by simpa using fact_root)
      unfold zR; unfold zm at this
      rw [this, mul_comm, u_r32 M]
    · rw [if_neg h1]
      by_cases h0 : k = 0
      · subst h0
        have hz0 : zR M 0 = 0 := by
          unfold zR
          have : zeta 0 = 0 := by decide +kernel
          rw [this]; simp
        simp [hz0]
      · by_cases he : k % 2 = 0
        · rw [if_pos he]
          have hk2 : k / 2 < 128 := by omega
          have f := allBelow_spec 128 _ fact_even (k / 2) hk2
          have hne : ¬ (k / 2 = 0) := by omega
          simp only [Bool.or_eq_true, beq_iff_eq, hne, false_or, decide_eq_true_eq] at f
          have e2 : 2 * (k / 2) = k := by omega
          rw [e2] at f
          exact zR_sq_of M (zm k) (zm (k / 2)) f
        · rw [if_neg he]
          have hk2 : k / 2 < 128 := by omega
          have f := allBelow_spec 128 _ fact_odd (k / 2) hk2
          have hne : ¬ (k / 2 = 0) := by omega
          simp only [Bool.or_eq_true, beq_iff_eq, hne, false_or, decide_eq_true_eq] at f
          have e2 : 2 * (k / 2) + 1 = k := by omega
          rw [e2] at f
          exact zR_sq_neg_of M (zm k) (zm (k / 2)) f

/-- the leaf roots are the odd powers of 1753 in bit-reversed order -/
theorem leaf_root (M : ModQ R) (i : Nat) (hi : i < 256) : rR M (256 + i) = ((1753 : Int) : R) ^ (2 * brv8 i + 1) := by
  have f := allBelow_spec 256 _ fact_leaf i hi
  simp only [decide_eq_true_eq] at f
  have h0 := cast_of_dvd M _ f
  rw [Int.cast_sub, Int.cast_mul, Int.cast_pow] at h0
  have h1 := sub_eq_zero.mp h0
  unfold rR
  rw [if_neg (by omega)]
  have hdiv : (256 + i) / 2 = 128 + i / 2 := by omega
  by_cases he : i % 2 = 0
  · rw [if_pos (by omega), hdiv]
    rw [if_pos he] at h1
    unfold zR; unfold zm at h1
    calc ((zeta (128 + i / 2) : Int) : R) * M.u = (((1753 : Int) : R) ^ (2 * brv8 i + 1) * ((4193792 : Int) : R)) * M.u := by rw [h1]
      _ = ((1753 : Int) : R) ^ (2 * brv8 i + 1) * (M.u * ((4193792 : Int) : R)) := by ring
      _ = ((1753 : Int) : R) ^ (2 * brv8 i + 1) := by rw [u_r32 M, mul_one]
  · rw [if_neg (by omega), hdiv]
    rw [if_neg he, Int.cast_neg] at h1
    unfold zR; unfold zm at h1
    calc - (((zeta (128 + i / 2) : Int) : R) * M.u) = (- ((zeta (128 + i / 2) : Int) : R)) * M.u := by ring
      _ = (((1753 : Int) : R) ^ (2 * brv8 i + 1) * ((4193792 : Int) : R)) * M.u := by rw [h1]
      _ = ((1753 : Int) : R) ^ (2 * brv8 i + 1) * (M.u * ((4193792 : Int) : R)) := by ring
      _ = ((1753 : Int) : R) ^ (2 * brv8 i + 1) := by rw [u_r32 M, mul_one]

/-- **NTT = evaluation.** For every input with coefficients below B (B + 8q ≤ 2^31) and every ring R with q = 0 and
    2^32 invertible: output i of the model's forward NTT, read in R, is the input polynomial evaluated at
    1753^(2·brv8(i)+1). -/
theorem ntt_eval (M : ModQ R) (a r : List Int) (hl : a.length = 256) (B : Int) (hB0 : 0 < B) (hB : B + 8 * Q ≤ 2147483648)
    (hb : Bd B a) (h : ntt a = .ok r) (i : Nat) (hi : i < 256) :
    (((r.getD i 0 : Int)) : R) = peval (castL a) (((1753 : Int) : R) ^ (2 * brv8 i + 1)) := by
  have hc := ntt_cast M a r hl B hB0 hB hb h
  have hla : (castL a : List R).length = 2 ^ 8 := by simp [castL, hl]
  rw [nttBF_single (zR M) 8 1 (castL a) hla] at hc
  have he := nttRec_eval (rR M) (zR M) 8 (tree M) 8 1 1 (castL a) (by decide) (by decide) (by decide) hla i (by simpa using hi)
  rw [← hc, psi_leaf (rR M) 8 1 i (by simpa using hi)] at he
  have e256 : 1 * 2 ^ 8 + i = 256 + i := by norm_num
  rw [e256, leaf_root M i hi] at he
  rw [← he]
  simp only [castL, List.getD_eq_getElem?_getD, List.getElem?_map]
  cases r[i]? <;> simp

end DV.NttEval
