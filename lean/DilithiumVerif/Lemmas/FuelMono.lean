import DilithiumVerif.Impl.Sign
import DilithiumVerif.Lemmas.Basic
/-
  Lemmas.FuelMono — the block budget (`fuel`) of the model's rejection samplers does not influence what they
  return: a sampler that returns with budget f returns the same value with every larger budget.  So the constant
  `FUEL` in `Impl/Sign.lean` decides only whether the model gives up (`.error .fuel`, a state the Rust loops do not
  have), never a key, a signature or a verdict.
-/
namespace DV.FuelMono
open DV

theorem uniform_loop_mono : ∀ (f : Nat) (st : KeccakState) (buf : List Nat) (bl : Nat) (acc r : List Int),
    uniform_loop f st buf bl acc = .ok r → ∀ d, uniform_loop (f + d) st buf bl acc = .ok r := by
  intro f
  induction f with
  | zero => intro st buf bl acc r h; simp [uniform_loop] at h
  | succ f ih =>
    intro st buf bl acc r h d
    rw [show f + 1 + d = (f + d) + 1 by omega]
    unfold uniform_loop at h ⊢
    by_cases hc : acc.length < N
    · simp only [hc, if_true] at h ⊢
      obtain ⟨tail, h1, h⟩ := bind_eq_ok.mp h
      obtain ⟨buf1, h2, h⟩ := bind_eq_ok.mp h
      obtain ⟨⟨blk, st1⟩, h3, h⟩ := bind_eq_ok.mp h
      obtain ⟨buf2, h4, h⟩ := bind_eq_ok.mp h
      obtain ⟨more, h5, h⟩ := bind_eq_ok.mp h
      rw [h1, ok_bind, h2, ok_bind, h3, ok_bind]
      simp only at h4 h5 h ⊢
      rw [h4, ok_bind, h5, ok_bind]
      exact ih _ _ _ _ _ h d
    · simp only [hc, if_false] at h ⊢; exact h

theorem poly_uniform_mono (f : Nat) (seed : List Nat) (nonce : Nat) (a : Poly) (h : poly_uniform f seed nonce = .ok a) (d : Nat) :
    poly_uniform (f + d) seed nonce = .ok a := by
  unfold poly_uniform at h ⊢
  obtain ⟨st, h1, h⟩ := bind_eq_ok.mp h
  obtain ⟨⟨blk, st1⟩, h2, h⟩ := bind_eq_ok.mp h
  simp only at h
  obtain ⟨acc, h3, h⟩ := bind_eq_ok.mp h
  rw [h1, ok_bind]
  dsimp only
  rw [h2, ok_bind]
  dsimp only
  rw [h3, ok_bind]
  exact uniform_loop_mono _ _ _ _ _ _ h d

theorem uniform_eta_loop_mono (lv : Lvl) : ∀ (f : Nat) (st : KeccakState) (acc r : List Int),
    uniform_eta_loop lv f st acc = .ok r → ∀ d, uniform_eta_loop lv (f + d) st acc = .ok r := by
  intro f
  induction f with
  | zero => intro st acc r h; simp [uniform_eta_loop] at h
  | succ f ih =>
    intro st acc r h d
    rw [show f + 1 + d = (f + d) + 1 by omega]
    unfold uniform_eta_loop at h ⊢
    by_cases hc : acc.length < N
    · simp only [hc, if_true] at h ⊢
      obtain ⟨⟨buf, st1⟩, h1, h⟩ := bind_eq_ok.mp h
      simp only at h
      obtain ⟨more, h2, h⟩ := bind_eq_ok.mp h
      rw [h1, ok_bind]
      simp only
      rw [h2, ok_bind]
      exact ih _ _ _ h d
    · simp only [hc, if_false] at h ⊢; exact h

theorem poly_uniform_eta_mono (lv : Lvl) (f : Nat) (seed : List Nat) (nonce : Nat) (a : Poly)
    (h : poly_uniform_eta lv f seed nonce = .ok a) (d : Nat) : poly_uniform_eta lv (f + d) seed nonce = .ok a := by
  unfold poly_uniform_eta at h ⊢
  obtain ⟨st, h1, h⟩ := bind_eq_ok.mp h
  obtain ⟨⟨buf, st1⟩, h2, h⟩ := bind_eq_ok.mp h
  simp only at h
  obtain ⟨acc, h3, h⟩ := bind_eq_ok.mp h
  rw [h1, ok_bind, h2, ok_bind]
  simp only
  rw [h3, ok_bind]
  exact uniform_eta_loop_mono lv _ _ _ _ h d

theorem challenge_next_mono : ∀ (f i : Nat) (st : KeccakState) (buf : List Nat) (pos : Nat) (r : Nat × KeccakState × List Nat × Nat),
    challenge_next f i st buf pos = .ok r → ∀ d, challenge_next (f + d) i st buf pos = .ok r := by
  intro f
  induction f with
  | zero => intro i st buf pos r h; simp [challenge_next] at h
  | succ f ih =>
    intro i st buf pos r h d
    rw [show f + 1 + d = (f + d) + 1 by omega]
    unfold challenge_next at h ⊢
    obtain ⟨⟨st1, buf1, pos1⟩, h1, h⟩ := bind_eq_ok.mp h
    simp only at h
    obtain ⟨b, h2, h⟩ := bind_eq_ok.mp h
    rw [h1, ok_bind]
    simp only
    rw [h2, ok_bind]
    by_cases hb : b ≤ i
    · simp only [hb, if_true] at h ⊢; exact h
    · simp only [hb, if_false] at h ⊢; exact ih _ _ _ _ _ h d

theorem challenge_go_mono (f : Nat) : ∀ (n i : Nat) (c : List Int) (signs : UInt64) (st : KeccakState) (buf : List Nat) (pos : Nat) (r : List Int),
    challenge_go f n i c signs st buf pos = .ok r → ∀ d, challenge_go (f + d) n i c signs st buf pos = .ok r := by
  intro n
  induction n with
  | zero => intro i c signs st buf pos r h d; simpa [challenge_go] using h
  | succ n ih =>
    intro i c signs st buf pos r h d
    unfold challenge_go at h ⊢
    obtain ⟨⟨b, st1, buf1, pos1⟩, h1, h⟩ := bind_eq_ok.mp h
    simp only at h
    obtain ⟨cb, h2, h⟩ := bind_eq_ok.mp h
    obtain ⟨c1, h3, h⟩ := bind_eq_ok.mp h
    obtain ⟨c2, h4, h⟩ := bind_eq_ok.mp h
    rw [challenge_next_mono _ _ _ _ _ _ h1 d, ok_bind]
    simp only
    rw [h2, ok_bind, h3, ok_bind, h4, ok_bind]
    exact ih _ _ _ _ _ _ _ h d

theorem poly_challenge_mono (p : Params) (f : Nat) (seed : List Nat) (a : Poly) (h : poly_challenge p f seed = .ok a) (d : Nat) :
    poly_challenge p (f + d) seed = .ok a := by
  unfold poly_challenge at h ⊢
  obtain ⟨st, h1, h⟩ := bind_eq_ok.mp h
  obtain ⟨st2, h2, h⟩ := bind_eq_ok.mp h
  obtain ⟨⟨buf, st3⟩, h3, h⟩ := bind_eq_ok.mp h
  simp only at h
  rw [h1, ok_bind, h2, ok_bind, h3, ok_bind]
  simp only
  exact challenge_go_mono _ _ _ _ _ _ _ _ _ h d

theorem mapL_congr_ok {α β} (f g : α → Chk β) : ∀ (l : List α) (r : List β),
    (∀ x ∈ l, ∀ y, f x = .ok y → g x = .ok y) → mapL f l = .ok r → mapL g l = .ok r := by
  intro l
  induction l with
  | nil => intro r _ h; simpa [mapL] using h
  | cons x xs ih =>
    intro r hfg h
    unfold mapL at h ⊢
    obtain ⟨y, h1, h⟩ := bind_eq_ok.mp h
    obtain ⟨ys, h2, h⟩ := bind_eq_ok.mp h
    rw [hfg x (List.mem_cons_self) y h1, ok_bind,
      ih ys (fun z hz => hfg z (List.mem_cons_of_mem _ hz)) h2, ok_bind]
    exact h

/-- ExpandA with a larger block budget returns the same matrix -/
theorem matrix_expand_mono (p : Params) (f : Nat) (rho : List Nat) (m : List PolyVec) (h : matrix_expand p f rho = .ok m) (d : Nat) :
    matrix_expand p (f + d) rho = .ok m := by
  unfold matrix_expand forRange at h ⊢
  refine mapL_congr_ok _ _ _ _ (fun i _ row hrow => ?_) h
  exact mapL_congr_ok _ _ _ _ (fun j _ a ha => poly_uniform_mono f rho _ a ha d) hrow

theorem vec_uniform_eta_go_mono (lv : Lvl) (f : Nat) (seed : List Nat) : ∀ (n : Nat) (nonce : Int) (v : List Poly),
    vec_uniform_eta_go lv f seed n nonce = .ok v → ∀ d, vec_uniform_eta_go lv (f + d) seed n nonce = .ok v := by
  intro n
  induction n with
  | zero => intro nonce v h d; simpa [vec_uniform_eta_go] using h
  | succ n ih =>
    intro nonce v h d
    unfold vec_uniform_eta_go at h ⊢
    obtain ⟨a, h1, h⟩ := bind_eq_ok.mp h
    obtain ⟨nonce', h2, h⟩ := bind_eq_ok.mp h
    obtain ⟨rest, h3, h⟩ := bind_eq_ok.mp h
    rw [poly_uniform_eta_mono lv f seed _ a h1 d, ok_bind, h2, ok_bind, ih _ _ h3 d, ok_bind]
    exact h

/-- ExpandS (both halves) with a larger block budget returns the same vectors -/
theorem uniform_eta_vec_mono (p : Params) (f : Nat) (seed : List Nat) (nonce : Int) (v : PolyVec) (d : Nat) :
    (l_uniform_eta p f seed nonce = .ok v → l_uniform_eta p (f + d) seed nonce = .ok v) ∧
    (k_uniform_eta p f seed nonce = .ok v → k_uniform_eta p (f + d) seed nonce = .ok v) :=
  ⟨fun h => vec_uniform_eta_go_mono _ _ _ _ _ _ h d, fun h => vec_uniform_eta_go_mono _ _ _ _ _ _ h d⟩

end DV.FuelMono
