import DilithiumVerif.Lemmas.Basic
import DilithiumVerif.Impl.Packing
import DilithiumVerif.Lemmas.Rej
/-
  Lemmas.HintCodec — the hint section of a signature: what `pack_sig` writes (`hint_area_go`) and that
  `unpack_sig`'s decoder (`unpack_hints_go`) returns the hint vector it was written from (FIPS 204 Alg. 20/21).
-/
namespace DV.HintCodec
open DV

/-- positions of the non-zero coefficients, in increasing order (exactly the list the packing loop walks) -/
def nzOf (hp : Poly) : List Nat := (List.range hp.length).filter (fun j => hp.getD j 0 ≠ 0)

def idxOf : List Poly → List Nat
  | [] => []
  | hp :: rest => nzOf hp ++ idxOf rest

def cumsOf (k : Nat) : List Poly → List Nat
  | [] => []
  | hp :: rest => (k + (nzOf hp).length) :: cumsOf (k + (nzOf hp).length) rest

theorem cumsOf_length (k : Nat) (h : List Poly) : (cumsOf k h).length = h.length := by
  induction h generalizing k with
  | nil => rfl
  | cons hp rest ih => simp [cumsOf, ih]

theorem nzOf_lt (hp : Poly) (j : Nat) (hj : j ∈ nzOf hp) : j < hp.length := by
  unfold nzOf at hj
  exact List.mem_range.mp (List.mem_filter.mp hj).1

/-! ### packing -/

abbrev wstep (st : List Nat × Nat) (j : Nat) : Chk (List Nat × Nat) := do
  let a ← setC st.1 st.2 (j % 256)
  .ok (a, st.2 + 1)

theorem write_run : ∀ (L pre tail : List Nat) (n : Nat), (∀ j ∈ L, j < 256) → L.length ≤ n →
    L.foldlM wstep (pre ++ List.replicate n 0 ++ tail, pre.length) =
      .ok (pre ++ L ++ List.replicate (n - L.length) 0 ++ tail, pre.length + L.length) := by
  intro L
  induction L with
  | nil => intro pre tail n _ _; simp [List.foldlM]; rfl
  | cons j L ih =>
    intro pre tail n hj hn
    obtain ⟨n', rfl⟩ : ∃ n', n = n' + 1 := ⟨n - 1, by simp at hn; omega⟩
    rw [List.foldlM_cons]
    have hjl : j % 256 = j := Nat.mod_eq_of_lt (hj j (List.mem_cons_self ..))
    have hset : setC (pre ++ List.replicate (n' + 1) 0 ++ tail) pre.length (j % 256) = .ok ((pre ++ [j]) ++ List.replicate n' 0 ++ tail) := by
      unfold setC
      rw [if_pos (by simp; omega), hjl]
      congr 1
      rw [List.append_assoc, List.set_append_right _ _ (Nat.le_refl _), Nat.sub_self, List.replicate_succ]
      simp
    show (setC (pre ++ List.replicate (n' + 1) 0 ++ tail) pre.length (j % 256) >>= fun a => (Except.ok (a, pre.length + 1) : Chk _)) >>= _ = _
    rw [hset, ok_bind, ok_bind]
    have := ih (pre ++ [j]) tail n' (fun x hx => hj x (List.mem_cons_of_mem _ hx)) (by simp at hn; omega)
    rw [List.length_append, List.length_singleton] at this
    rw [this]
    congr 1
    simp only [List.length_cons, List.append_assoc, List.singleton_append, Nat.add_sub_add_right]
    congr 1
    omega


theorem idxOf_length_cons (hp : Poly) (rest : List Poly) : (idxOf (hp :: rest)).length = (nzOf hp).length + (idxOf rest).length := by
  simp [idxOf]

/-- what the packing loops write: indices, zero padding, running counters -/
theorem pack_hints (omega : Nat) (ho : omega ≤ 255) : ∀ (rest : List Poly) (i k : Nat) (pre cs : List Nat),
    pre.length = k → cs.length = i → k + (idxOf rest).length ≤ omega → (∀ hp ∈ rest, hp.length = 256) →
    hint_area_go omega rest i k (pre ++ List.replicate (omega - k) 0 ++ cs ++ List.replicate rest.length 0) =
      .ok (pre ++ idxOf rest ++ List.replicate (omega - k - (idxOf rest).length) 0 ++ cs ++ cumsOf k rest) := by
  intro rest
  induction rest with
  | nil =>
    intro i k pre cs _ _ _ _
    simp [hint_area_go, idxOf, cumsOf]
  | cons hp rest ih =>
    intro i k pre cs hpre hcs hT hlen
    have hhp := hlen hp (List.mem_cons_self ..)
    rw [idxOf_length_cons] at hT
    unfold hint_area_go
    have hnz : (List.filter (fun j => decide (hp.getD j 0 ≠ 0)) (List.range hp.length)) = nzOf hp := rfl
    simp only [hnz]
    have hrun := write_run (nzOf hp) pre (cs ++ List.replicate (rest.length + 1) 0) (omega - k)
      (fun j hj => by have := nzOf_lt hp j hj; omega) (by omega)
    have e0 : pre ++ List.replicate (omega - k) 0 ++ cs ++ List.replicate (hp :: rest).length 0
        = pre ++ List.replicate (omega - k) 0 ++ (cs ++ List.replicate (rest.length + 1) 0) := by
      simp only [List.length_cons, List.append_assoc]
    rw [e0]
    rw [hpre] at hrun
    have hrun' : List.foldlM (fun (st : List Nat × Nat) j => do
          let a ← setC st.1 st.2 (j % 256)
          (Except.ok (a, st.2 + 1) : Chk (List Nat × Nat))) (pre ++ List.replicate (omega - k) 0 ++ (cs ++ List.replicate (rest.length + 1) 0), k) (nzOf hp)
        = .ok (pre ++ nzOf hp ++ List.replicate (omega - k - (nzOf hp).length) 0 ++ (cs ++ List.replicate (rest.length + 1) 0), k + (nzOf hp).length) := hrun
    rw [hrun', ok_bind]
    simp only
    -- the counter byte
    have hk' : (k + (nzOf hp).length) % 256 = k + (nzOf hp).length := Nat.mod_eq_of_lt (by omega)
    have hX : (pre ++ nzOf hp ++ List.replicate (omega - k - (nzOf hp).length) 0 ++ cs).length = omega + i := by
      simp only [List.length_append, List.length_replicate, hpre, hcs]; omega
    have hset : setC (pre ++ nzOf hp ++ List.replicate (omega - k - (nzOf hp).length) 0 ++ (cs ++ List.replicate (rest.length + 1) 0)) (omega + i)
        ((k + (nzOf hp).length) % 256) =
        .ok ((pre ++ nzOf hp) ++ List.replicate (omega - (k + (nzOf hp).length)) 0 ++ (cs ++ [k + (nzOf hp).length]) ++ List.replicate rest.length 0) := by
      unfold setC
      have e1 : pre ++ nzOf hp ++ List.replicate (omega - k - (nzOf hp).length) 0 ++ (cs ++ List.replicate (rest.length + 1) 0)
          = (pre ++ nzOf hp ++ List.replicate (omega - k - (nzOf hp).length) 0 ++ cs) ++ List.replicate (rest.length + 1) 0 := by
        simp only [List.append_assoc]
      rw [e1, if_pos (by rw [List.length_append, hX, List.length_replicate]; omega), hk']
      congr 1
      rw [List.set_append_right _ _ (Nat.le_of_eq hX), hX, Nat.sub_self, List.replicate_succ, List.set_cons_zero]
      have e2 : omega - k - (nzOf hp).length = omega - (k + (nzOf hp).length) := by omega
      rw [e2]
      simp only [List.append_assoc, List.singleton_append]
    rw [hset, ok_bind]
    have := ih (i + 1) (k + (nzOf hp).length) (pre ++ nzOf hp) (cs ++ [k + (nzOf hp).length])
      (by rw [List.length_append, hpre]) (by rw [List.length_append, hcs]; rfl) (by omega)
      (fun x hx => hlen x (List.mem_cons_of_mem _ hx))
    rw [this]
    have e3 : omega - k - ((nzOf hp).length + (idxOf rest).length) = omega - (k + (nzOf hp).length) - (idxOf rest).length := by omega
    simp only [idxOf, cumsOf, List.length_append, e3, List.append_assoc, List.singleton_append]


/-! ### decoding -/

theorem getD_mid {α} (pre mid post : List α) (t : Nat) (d : α) (h : t < mid.length) :
    (pre ++ mid ++ post).getD (pre.length + t) d = mid.getD t d := by
  rw [List.getD_eq_getElem?_getD, List.getD_eq_getElem?_getD, List.append_assoc,
    List.getElem?_append_right (Nat.le_add_right _ _), Nat.add_sub_cancel_left, List.getElem?_append_left h]

def set1 (l : List Int) (b : Nat) : List Int := l.set b 1

theorem set1_length (l : List Int) (b : Nat) : (set1 l b).length = l.length := by simp [set1]

theorem foldl_set1_length : ∀ (P : List Nat) (acc : List Int), (P.foldl set1 acc).length = acc.length
  | [], _ => rfl
  | b :: P, acc => by rw [List.foldl_cons, foldl_set1_length P, set1_length]

theorem foldl_set1_getD : ∀ (P : List Nat) (acc : List Int) (j : Nat), (∀ b ∈ P, b < acc.length) →
    (P.foldl set1 acc).getD j 0 = if j ∈ P then 1 else acc.getD j 0
  | [], acc, j, _ => by simp
  | b :: P, acc, j, h => by
      rw [List.foldl_cons, foldl_set1_getD P (set1 acc b) j (fun x hx => by rw [set1_length]; exact h x (List.mem_cons_of_mem _ hx))]
      by_cases hjP : j ∈ P
      · simp [hjP]
      · simp only [hjP, if_false, List.mem_cons, or_false]
        by_cases hjb : j = b
        · subst hjb
          have hb := h j (List.mem_cons_self ..)
          simp only [set1, if_true, List.getD_eq_getElem?_getD, List.getElem?_set, hb]
          rfl
        · have : ¬ b = j := fun e => hjb e.symm
          simp only [hjb, if_false, set1, List.getD_eq_getElem?_getD, List.getElem?_set, this]

/-- setting the non-zero positions of a 0/1 polynomial in the zero polynomial rebuilds it -/
theorem rebuild (hp : Poly) (hl : hp.length = 256) (hb : ∀ x ∈ hp, x = 0 ∨ x = 1) :
    (nzOf hp).foldl set1 (List.replicate 256 0) = hp := by
  apply List.ext_getElem (by rw [foldl_set1_length, List.length_replicate, hl])
  intro j h1 h2
  have hj : j < 256 := by rw [← hl]; exact h2
  have := foldl_set1_getD (nzOf hp) (List.replicate 256 0) j (fun b hb' => by rw [List.length_replicate, ← hl]; exact nzOf_lt hp b hb')
  rw [List.getD_eq_getElem?_getD, List.getElem?_eq_getElem h1, Option.getD_some] at this
  rw [this]
  have hx := hb hp[j] (List.getElem_mem h2)
  have hgd : hp.getD j 0 = hp[j] := by rw [List.getD_eq_getElem?_getD, List.getElem?_eq_getElem h2]; rfl
  by_cases hm : j ∈ nzOf hp
  · rw [if_pos hm]
    unfold nzOf at hm
    have := (List.mem_filter.mp hm).2
    simp only [decide_eq_true_eq] at this
    rw [hgd] at this
    rcases hx with hx | hx
    · exact absurd hx this
    · exact hx.symm
  · rw [if_neg hm]
    have : ¬ (hp.getD j 0 ≠ 0) := fun hne => hm (by
      unfold nzOf
      exact List.mem_filter.mpr ⟨List.mem_range.mpr h2, by simpa using hne⟩)
    rw [hgd] at this
    simp only [List.getD_eq_getElem?_getD, List.getElem?_replicate, hj, if_true, Option.getD_some]
    omega

theorem nz_increasing (hp : Poly) (t : Nat) (h : t + 1 < (nzOf hp).length) : (nzOf hp).getD t 0 < (nzOf hp).getD (t + 1) 0 := by
  have hpw : List.Pairwise (· < ·) (nzOf hp) := by
    unfold nzOf
    exact List.Pairwise.filter _ (List.pairwise_lt_range)
  have := List.pairwise_iff_getElem.mp hpw t (t + 1) (by omega) h (by omega)
  rw [List.getD_eq_getElem?_getD, List.getD_eq_getElem?_getD, List.getElem?_eq_getElem (by omega), List.getElem?_eq_getElem h]
  exact this


/-- the inner decoding loop walks the index run of one polynomial and sets exactly those bits -/
theorem inner_run (hs : List Nat) (k : Nat) (hp : Poly) (hl : hp.length = 256)
    (hlen : k + (nzOf hp).length ≤ hs.length)
    (hH : ∀ t, t < (nzOf hp).length → hs.getD (k + t) 0 = (nzOf hp).getD t 0) :
    ∀ (fuel t : Nat) (acc : List Int), t ≤ (nzOf hp).length → (nzOf hp).length - t < fuel → acc.length = 256 →
      unpack_hints_go.inner hs k (k + (nzOf hp).length) fuel (k + t) acc = .ok (some (((nzOf hp).drop t).foldl set1 acc)) := by
  intro fuel
  induction fuel with
  | zero => intro t acc _ h _; omega
  | succ n ih =>
    intro t acc ht hf hacc
    unfold unpack_hints_go.inner
    by_cases hlt : t < (nzOf hp).length
    · have hj : k + t < k + (nzOf hp).length := by omega
      rw [if_pos hj]
      rw [getC_ok hs (k + t) 0 (by omega), ok_bind, hH t hlt]
      have hb256 : (nzOf hp).getD t 0 < 256 := by
        have hm : (nzOf hp).getD t 0 ∈ nzOf hp := by
          rw [List.getD_eq_getElem?_getD, List.getElem?_eq_getElem hlt]; simp
        rw [← hl]; exact nzOf_lt hp _ hm
      have hok : (if k + t > k then (do
            let pb ← getC hs (k + t - 1)
            (Except.ok (decide (¬ ((nzOf hp).getD t 0 ≤ pb))) : Chk Bool)) else .ok true) = .ok true := by
        by_cases ht0 : k + t > k
        · rw [if_pos ht0]
          obtain ⟨t', rfl⟩ : ∃ t', t = t' + 1 := ⟨t - 1, by omega⟩
          have e : k + (t' + 1) - 1 = k + t' := by omega
          rw [e, getC_ok hs (k + t') 0 (by omega), ok_bind, hH t' (by omega)]
          have := nz_increasing hp t' hlt
          congr 1
          simp only [decide_eq_true_eq]
          omega
        · rw [if_neg ht0]
      rw [hok, ok_bind]
      simp only [Bool.not_true, Bool.false_eq_true, if_false, not_true_eq_false]
      have hsc : setC acc ((nzOf hp).getD t 0) 1 = .ok (set1 acc ((nzOf hp).getD t 0)) := by
        unfold setC; rw [if_pos (by rw [hacc]; exact hb256)]; rfl
      rw [hsc, ok_bind]
      have e2 : k + t + 1 = k + (t + 1) := by omega
      rw [e2, ih (t + 1) _ (by omega) (by omega) (by rw [set1_length]; exact hacc)]
      congr 2
      rw [List.drop_eq_getElem_cons hlt, List.foldl_cons]
      congr 2
      rw [List.getD_eq_getElem?_getD, List.getElem?_eq_getElem hlt]; rfl
    · have hj : ¬ (k + t < k + (nzOf hp).length) := by omega
      rw [if_neg hj]
      have : t = (nzOf hp).length := by omega
      rw [this, List.drop_length]; rfl


/-- a 0/1 polynomial of 256 coefficients -/
def Bits (hp : Poly) : Prop := hp.length = 256 ∧ ∀ x ∈ hp, x = 0 ∨ x = 1

theorem unpack_hints (omega : Nat) (ho : omega ≤ 255) : ∀ (rest : List Poly) (i k : Nat) (pre cs : List Nat) (acc : List Poly),
    pre.length = k → cs.length = i → k + (idxOf rest).length ≤ omega → (∀ hp ∈ rest, Bits hp) →
    unpack_hints_go omega (pre ++ idxOf rest ++ List.replicate (omega - k - (idxOf rest).length) 0 ++ cs ++ cumsOf k rest) rest.length i k acc
      = .ok (some (acc.reverse ++ rest)) := by
  intro rest
  induction rest with
  | nil =>
    intro i k pre cs acc hpre hcs hT _
    simp only [idxOf, cumsOf, List.append_nil, List.length_nil, Nat.sub_zero]
    unfold unpack_hints_go
    rw [if_pos]
    rw [List.all_eq_true]
    intro j hj
    obtain ⟨t, ht, rfl⟩ := List.mem_iff_getElem.mp hj
    rw [List.length_drop, List.length_range] at ht
    simp only [List.getElem_drop, List.getElem_range, decide_eq_true_eq]
    rw [← hpre, getD_mid pre (List.replicate (omega - pre.length) 0) cs t 0 (by rw [List.length_replicate, hpre]; exact ht)]
    rw [List.getD_eq_getElem?_getD, List.getElem?_replicate, if_pos (by rw [hpre]; exact ht)]; rfl
  | cons hp rest ih =>
    intro i k pre cs acc hpre hcs hT hb
    have hhp := hb hp (List.mem_cons_self ..)
    rw [idxOf_length_cons] at hT
    -- the byte string, in the three shapes that are needed
    have hsA : pre ++ idxOf (hp :: rest) ++ List.replicate (omega - k - (idxOf (hp :: rest)).length) 0 ++ cs ++ cumsOf k (hp :: rest)
        = (pre ++ idxOf (hp :: rest) ++ List.replicate (omega - k - (idxOf (hp :: rest)).length) 0 ++ cs) ++
          ((k + (nzOf hp).length) :: cumsOf (k + (nzOf hp).length) rest) := by simp only [cumsOf]
    have hXl : (pre ++ idxOf (hp :: rest) ++ List.replicate (omega - k - (idxOf (hp :: rest)).length) 0 ++ cs).length = omega + i := by
      simp only [List.length_append, List.length_replicate, hpre, hcs, idxOf]; omega
    have hsB : pre ++ idxOf (hp :: rest) ++ List.replicate (omega - k - (idxOf (hp :: rest)).length) 0 ++ cs ++ cumsOf k (hp :: rest)
        = pre ++ nzOf hp ++ (idxOf rest ++ List.replicate (omega - k - (idxOf (hp :: rest)).length) 0 ++ cs ++ cumsOf k (hp :: rest)) := by
      simp only [idxOf, List.append_assoc]
    have hsC : pre ++ idxOf (hp :: rest) ++ List.replicate (omega - k - (idxOf (hp :: rest)).length) 0 ++ cs ++ cumsOf k (hp :: rest)
        = (pre ++ nzOf hp) ++ idxOf rest ++ List.replicate (omega - (k + (nzOf hp).length) - (idxOf rest).length) 0 ++ (cs ++ [k + (nzOf hp).length])
            ++ cumsOf (k + (nzOf hp).length) rest := by
      have e3 : omega - k - ((nzOf hp).length + (idxOf rest).length) = omega - (k + (nzOf hp).length) - (idxOf rest).length := by omega
      simp only [idxOf, cumsOf, List.length_append, e3, List.append_assoc, List.singleton_append]
    generalize hhs : pre ++ idxOf (hp :: rest) ++ List.replicate (omega - k - (idxOf (hp :: rest)).length) 0 ++ cs ++ cumsOf k (hp :: rest) = hs at *
    have hslen : hs.length = omega + i + (rest.length + 1) := by
      rw [hsA, List.length_append, hXl, List.length_cons, cumsOf_length]
    have hcnt : getC hs (omega + i) = .ok (k + (nzOf hp).length) := by
      rw [getC_ok hs (omega + i) 0 (by omega)]
      congr 1
      rw [hsA, List.getD_eq_getElem?_getD, List.getElem?_append_right (Nat.le_of_eq hXl), hXl, Nat.sub_self]; rfl
    show unpack_hints_go omega hs (rest.length + 1) i k acc = _
    unfold unpack_hints_go
    rw [hcnt, ok_bind]
    have hk256 : k % 256 = k := Nat.mod_eq_of_lt (by omega)
    have ho256 : omega % 256 = omega := Nat.mod_eq_of_lt (by omega)
    rw [if_neg (by rw [hk256, ho256]; omega)]
    have hfuel : k + (nzOf hp).length - k + 1 = (nzOf hp).length + 1 := by omega
    have hN : List.replicate N (0 : Int) = List.replicate 256 0 := rfl
    have hin := inner_run hs k hp hhp.1 (by omega)
      (fun t ht => by
        rw [hsB, ← hpre]
        exact getD_mid pre (nzOf hp) _ t 0 ht)
      ((nzOf hp).length + 1) 0 (List.replicate 256 0) (Nat.zero_le _) (by omega) (List.length_replicate ..)
    simp only [Nat.add_zero, List.drop_zero] at hin
    rw [rebuild hp hhp.1 hhp.2] at hin
    rw [hfuel, hN, hin, ok_bind]
    simp only
    have := ih (i + 1) (k + (nzOf hp).length) (pre ++ nzOf hp) (cs ++ [k + (nzOf hp).length]) (hp :: acc)
      (by rw [List.length_append, hpre]) (by rw [List.length_append, hcs]; rfl) (by omega)
      (fun x hx => hb x (List.mem_cons_of_mem _ hx))
    rw [← hsC] at this
    rw [this]
    simp only [List.reverse_cons, List.append_assoc, List.singleton_append]


/-! ### the hint count returned by `make_hint` is the number of indices that get written -/

theorem nzOf_cons_length (x : Int) (xs : List Int) : (nzOf (x :: xs)).length = (if x ≠ 0 then 1 else 0) + (nzOf xs).length := by
  unfold nzOf
  rw [List.length_cons, List.range_succ_eq_map, List.filter_cons, List.filter_map]
  have e : (fun j => decide ((x :: xs).getD j 0 ≠ 0)) ∘ Nat.succ = fun j => decide (xs.getD j 0 ≠ 0) := by
    funext j; simp [Function.comp]
  rw [e]
  by_cases hx : x ≠ 0
  · have h0 : decide ((x :: xs).getD 0 0 ≠ 0) = true := by simpa using hx
    rw [if_pos h0, if_pos hx, List.length_cons, List.length_map]; omega
  · have h0 : ¬ (decide ((x :: xs).getD 0 0 ≠ 0) = true) := by simpa using hx
    rw [if_neg h0, if_neg hx, List.length_map]; omega

theorem poly_make_hint_count (lv : Lvl) : ∀ (a0 a1 : List Int) (s : Int) (h : List Int) (n : Int),
    poly_make_hint_go lv a0 a1 s = .ok (h, n) → n = s + ((nzOf h).length : Nat) ∧ (∀ x ∈ h, x = 0 ∨ x = 1)
  | [], [], s, h, n, e => by
      simp [poly_make_hint_go] at e; obtain ⟨e1, e2⟩ := e; subst e1; subst e2
      exact ⟨by simp [nzOf], by intro x hx; cases hx⟩
  | [], _ :: _, s, h, n, e => by simp [poly_make_hint_go] at e
  | _ :: _, [], s, h, n, e => by simp [poly_make_hint_go] at e
  | x :: xs, y :: ys, s, h, n, e => by
      unfold poly_make_hint_go at e
      obtain ⟨s', hs', e⟩ := bind_eq_ok.mp e
      obtain ⟨⟨hs, s''⟩, hgo, e⟩ := bind_eq_ok.mp e
      simp only at e
      injection e with e; injection e with e1 e2; subst e1; subst e2
      obtain ⟨ih1, ih2⟩ := poly_make_hint_count lv xs ys s' hs s'' hgo
      have hbit : make_hint lv x y = 0 ∨ make_hint lv x y = 1 := by
        simp only [make_hint]; split <;> simp
      have hs'' : s' = s + make_hint lv x y := by
        unfold add32 chk32 at hs'
        split at hs'
        · injection hs' with hs'; exact hs'.symm
        · cases hs'
      refine ⟨?_, ?_⟩
      · rw [nzOf_cons_length, ih1, hs'']
        rcases hbit with hb | hb <;> rw [hb] <;> simp <;> omega
      · intro z hz
        rcases List.mem_cons.mp hz with rfl | hz
        · exact hbit
        · exact ih2 z hz

theorem k_make_hint_count (lv : Lvl) : ∀ (v0 v1 : List Poly) (s : Int) (h : List Poly) (n : Int),
    k_make_hint_go lv v0 v1 s = .ok (h, n) → n = s + ((idxOf h).length : Nat) ∧ (∀ hp ∈ h, ∀ x ∈ hp, x = 0 ∨ x = 1)
  | [], [], s, h, n, e => by
      simp [k_make_hint_go] at e; obtain ⟨e1, e2⟩ := e; subst e1; subst e2
      exact ⟨by simp [idxOf], by intro x hx; cases hx⟩
  | [], _ :: _, s, h, n, e => by simp [k_make_hint_go] at e
  | _ :: _, [], s, h, n, e => by simp [k_make_hint_go] at e
  | x :: xs, y :: ys, s, h, n, e => by
      unfold k_make_hint_go at e
      obtain ⟨⟨hp, c⟩, hph, e⟩ := bind_eq_ok.mp e
      simp only at e
      obtain ⟨s', hs', e⟩ := bind_eq_ok.mp e
      obtain ⟨⟨hs, s''⟩, hgo, e⟩ := bind_eq_ok.mp e
      simp only at e
      injection e with e; injection e with e1 e2; subst e1; subst e2
      obtain ⟨ih1, ih2⟩ := k_make_hint_count lv xs ys s' hs s'' hgo
      obtain ⟨p1, p2⟩ := poly_make_hint_count lv x y 0 hp c hph
      have hs'' : s' = s + c := by
        unfold add32 chk32 at hs'
        split at hs'
        · injection hs' with hs'; exact hs'.symm
        · cases hs'
      refine ⟨?_, ?_⟩
      · rw [idxOf_length_cons, ih1, hs'', p1]; push_cast; omega
      · intro z hz
        rcases List.mem_cons.mp hz with rfl | hz
        · exact p2
        · exact ih2 z hz

end DV.HintCodec
